/-
The seventh core of `core_no_diagnostics_partial` (`Props/C13.lean`): fields whose type is a class declared
earlier (`A a;`, `A a = ?;`, `A b = a;`).  The static types carry the record ids of the classes: the checker
counts the records that the statements allocate (`nrec`) and keeps the table `xt` of class names and ids
(`XInv`, `Lemmas/IdeSemCoreP.lean`).
-/
import TgModel.Lemmas.Sem10Core5
namespace Tg
namespace Ide
open Index

/-- the declared type of a field of the seventh core: what `coreTypeOf` admits, or the name of a class of `xt` -/
def coreTypeOf7 (xt : XTab) (lists : Bool) (tn : PTree) : Option Ty :=
  match coreTypeOf lists tn with
  | some t => some t
  | none =>
    if tn.kind == .ClassId then
      match Ast.classIdName tn with
      | some nameNode =>
        match Ast.identifierValue nameNode, Ast.identifierRange nameNode with
        | some name, some _ => (xt.get name).map fun id => .record id name
        | _, _ => none
      | none => none
    else none

section core7
variable (k : Nat)

theorem coreTypeOf7_oracle (lists : Bool) (hk : lists = true → 0 < k) (cenv : CEnv) (N : Std.HashMap String Nat) (rid : Nat)
    (ps : Params) (gv : Env) (outer : List Scope) (xt : XTab) (dt : DTabs) :
    TyOracle k (coreTypeOf7 xt lists) cenv N rid ps gv outer xt dt := by
  intro tn ty bv env c hinv h
  unfold coreTypeOf7 at h
  cases h0 : coreTypeOf lists tn with
  | some t =>
    rw [h0] at h
    cases h
    exact coreTypeOf_oracle k lists hk cenv N rid ps gv outer xt dt tn ty bv env c hinv h0
  | none =>
    rw [h0] at h
    simp only at h
    obtain ⟨f, rest, hft⟩ : ∃ f rest, c.fileTrace = f :: rest := by
      cases hc : c.fileTrace with
      | nil => exact absurd hc hinv.trace
      | cons f rest => exact ⟨f, rest, rfl⟩
    split at h
    · rename_i hkind
      simp only [beq_iff_eq] at hkind
      split at h
      · rename_i nameNode hnn
        split at h
        · rename_i name se hiv hir
          cases hg : xt.get name with
          | none => rw [hg] at h; cases h
          | some id =>
            rw [hg] at h
            cases h
            obtain ⟨hcls, _⟩ := hinv.x name id hg
            have hid := identOf_of f nameNode name se hiv hir
            refine ⟨rfl, c.setSM (c.symbolMap.addReference (.record id) ⟨f, se.1, se.2⟩), ?_, rfl,
              hinv.addReference _ _⟩
            show (indexType (mkRec k) tn).run c = _
            unfold indexType
            simp only [hkind, hnn, StateT.run_bind, utilsIdentifier_runOf nameNode c f rest hft, hid, Except.ok_bind,
              withSM_run, SymMap.findClass, hcls, addReference_run]
            rfl
        · cases h
      · cases h
    · cases h


/-- `class C …` of the seventh core -/
def coreClass7 (lists : Bool) (cenv : CEnv) (gv : Env) (xt : XTab) (n : PTree) : Option CEnv :=
  coreClassG (fun ce xt' ps rb => coreRecordBody5 (coreTypeOf7 xt' lists) lists ce (ps.env ++ gv) rb) cenv xt n

/-- `def d … { … }` of the seventh core (the record body must be there, as in the fifth core) -/
def coreDef7 (lists : Bool) (cenv : CEnv) (gv : Env) (xt : XTab) (n : PTree) : Bool :=
  match Ast.defRecordBody n with
  | none => false
  | some rb => (coreRecordBody5 (coreTypeOf7 xt lists) lists cenv gv rb).isSome

/-- what the checker knows between two statements: the class table, the top-level variables, the record ids of the
classes, and the number of records allocated so far (every `class` / `def` statement allocates exactly one) -/
structure St7 where
  cenv : CEnv
  gv : Env
  xt : XTab
  nrec : Nat

def coreStatement7 (lists : Bool) (st : St7) (s : PTree) : Option St7 :=
  if s.kind == .Class then
    match coreClass7 lists st.cenv st.gv st.xt s, classNameOf s with
    | some ce, some name => some ⟨ce, st.gv, (name, some st.nrec) :: st.xt, st.nrec + 1⟩
    | _, _ => none
  else if s.kind == .Def then
    (if coreDef7 lists st.cenv st.gv st.xt s then some ⟨st.cenv, st.gv, st.xt, st.nrec + 1⟩ else none)
  else if s.kind == .Defvar then (coreDefvar5 st.gv s).map fun p => ⟨st.cenv, p :: st.gv, st.xt, st.nrec⟩
  else none

def coreStatements7 (lists : Bool) : St7 → List PTree → Bool
  | _, [] => true
  | st, s :: rest =>
    match coreStatement7 lists st s with
    | some st' => coreStatements7 lists st' rest
    | none => false

/-- **the seventh core**: the sixth core with fields of class type - see `coreProgramB` in `Props/C13.lean` -/
def coreStatementList7 (sl : PTree) : Bool := coreStatements7 true ⟨[], [], [], 0⟩ (Ast.statementListStatements sl)

structure TabInv7 (st : St7) (c : IndexCtx) : Prop where
  t5 : TabInv5 st.cenv st.gv c
  x : XInv st.xt c.symbolMap.recordList.size c.symbolMap
  n : c.symbolMap.recordList.size = st.nrec

theorem indexStatement7_step (lists : Bool) (hk : lists = true → 0 < k) (st st' : St7) (s : PTree) (c c' : IndexCtx)
    (h : TabInv7 st c) (hchk : coreStatement7 lists st s = some st')
    (hrun : (indexStatement (mkRec (k + 1)) s).run c = .ok ((), c')) :
    c'.diagnostics = c.diagnostics ∧ TabInv7 st' c' := by
  obtain ⟨tv, tt, tsl, tsf⟩ := mkRec_typRel (k + 1)
  have hkeep : ArenaKeep c.symbolMap c'.symbolMap := (Index.indexStatement_keeps tv tt tsl tsf s).run _ _ _ hrun
  unfold coreStatement7 at hchk
  unfold indexStatement at hrun
  by_cases hk1 : s.kind = .Class
  · simp only [hk1, beq_self_eq_true, if_true] at hchk
    simp only [hk1] at hrun
    cases hc : coreClass7 lists st.cenv st.gv st.xt s with
    | none => rw [hc] at hchk; cases hchk
    | some ce =>
      cases hn : classNameOf s with
      | none => rw [hc, hn] at hchk; cases hchk
      | some name =>
        rw [hc, hn] at hchk
        cases hchk
        obtain ⟨q, ht, hs, hxi, hsz, _⟩ := indexClassG_step k _ st.gv {} (fun _ _ => []) c.scopes.scopes
          (fun cenv1 xt' ps rb env N rid outer c6 c7 _ hinv hrb h7 =>
            recordBody5_step k (coreTypeOf7 xt' lists) lists hk cenv1 N rb rid ps st.gv outer xt' {} env c6 c7
              (coreTypeOf7_oracle k lists hk cenv1 N rid ps st.gv outer xt' {}) hinv hrb h7)
          st.cenv _ st.xt s c c' h.t5.tab h.t5.outer rfl h.x (DInv.nil _ _) rfl hc hrun
        refine ⟨q, h.t5.after ht hs hkeep, ?_, by rw [hsz, h.n]⟩
        have := hxi name hn
        rw [h.n] at this
        exact this
  · have hb1 : (s.kind == SyntaxKind.Class) = false := by simpa using hk1
    simp only [hb1, Bool.false_eq_true, if_false] at hchk
    by_cases hk2 : s.kind = .Def
    · simp only [hk2, beq_self_eq_true, if_true] at hchk
      simp only [hk2] at hrun
      by_cases hd : coreDef7 lists st.cenv st.gv st.xt s = true
      · simp only [hd, if_true] at hchk
        cases hchk
        unfold coreDef7 at hd
        cases hb : Ast.defRecordBody s with
        | none => rw [hb] at hd; cases hd
        | some rb0 =>
          obtain ⟨q, ht, hs, hxi, hsz, _⟩ := indexDefG_step k st.cenv (coreRecordBody5 (coreTypeOf7 st.xt lists) lists st.cenv st.gv)
            st.gv st.xt {} (fun _ => []) c.scopes.scopes
            (fun rb env N rid outer c6 c7 _ hinv hrb h7 =>
              recordBody5_step k (coreTypeOf7 st.xt lists) lists hk st.cenv N rb rid [] st.gv outer st.xt {} env c6 c7
                (coreTypeOf7_oracle k lists hk st.cenv N rid [] st.gv outer st.xt {}) hinv hrb h7)
            s c c' h.t5.tab h.t5.outer rfl h.x rfl (fun _ _ _ _ _ _ _ _ => DInv.nil _ _)
            (fun rb hrb => by rw [hb] at hd hrb; cases hrb; exact hd) hrun
          exact ⟨q, h.t5.after ht (hs (by rw [hb]; rfl)) hkeep, hxi, by rw [hsz, h.n]⟩
      · simp only [hd, Bool.false_eq_true, if_false] at hchk
        cases hchk
    · have hb2 : (s.kind == SyntaxKind.Def) = false := by simpa using hk2
      simp only [hb2, Bool.false_eq_true, if_false] at hchk
      by_cases hk3 : s.kind = .Defvar
      · simp only [hk3, beq_self_eq_true, if_true] at hchk
        simp only [hk3] at hrun
        cases hdv : coreDefvar5 st.gv s with
        | none => rw [hdv] at hchk; cases hchk
        | some p =>
          obtain ⟨name, t⟩ := p
          rw [hdv] at hchk
          cases hchk
          obtain ⟨q, h5, hn, hr, _⟩ := defvarTop5_step k st.cenv st.gv s name t c c' h.t5 hdv hrun
          refine ⟨q, h5, ?_, by rw [hr]; exact h.n⟩
          rw [hr]
          exact h.x.mono (Nat.le_refl _) (fun _ _ _ => by rw [hn])
      · have hb3 : (s.kind == SyntaxKind.Defvar) = false := by simpa using hk3
        simp only [hb3, Bool.false_eq_true, if_false] at hchk
        cases hchk

theorem indexStatementList7L_quiet (lists : Bool) (hk : lists = true → 0 < k) (sl : PTree)
    (hchk : coreStatements7 lists ⟨[], [], [], 0⟩ (Ast.statementListStatements sl) = true) (c c' : IndexCtx)
    (hsm : c.symbolMap = {}) (hsc : c.scopes = {}) (htr : c.fileTrace ≠ [])
    (hrun : ((mkRec (k + 2)).statementList sl).run c = .ok ((), c')) :
    c'.diagnostics = c.diagnostics := by
  have hrun' : (indexStatementList (mkRec (k + 1)) sl).run c = .ok ((), c') := hrun
  unfold indexStatementList at hrun'
  obtain ⟨u, c'', hloop, hpure⟩ := IxM.run_bind_ok hrun'
  simp only [StateT.run_pure] at hpure
  cases hpure
  have hT : TabInv7 ⟨[], [], [], 0⟩ c := ⟨TabInv5.init c hsm hsc htr, XInv.nil _ _, by rw [hsm]; rfl⟩
  clear hrun hrun' hsm hsc htr
  generalize Ast.statementListStatements sl = l at hchk hloop
  generalize (⟨[], [], [], 0⟩ : St7) = st at hchk hT
  induction l generalizing c st with
  | nil =>
    simp only [List.forIn_nil, StateT.run_pure] at hloop
    cases hloop; rfl
  | cons s rest ih =>
    rw [List.forIn_cons] at hloop
    obtain ⟨stp, c1, h1, hloop⟩ := IxM.run_bind_ok hloop
    obtain ⟨_, c1', j1, j2⟩ := IxM.run_bind_ok h1
    simp only [StateT.run_pure] at j2
    cases j2
    unfold coreStatements7 at hchk
    cases hs : coreStatement7 lists st s with
    | none => rw [hs] at hchk; cases hchk
    | some st1 =>
      rw [hs] at hchk
      obtain ⟨q1, hT1⟩ := indexStatement7_step k lists hk st st1 s c c1 hT hs j1
      have q2 : c'.diagnostics = c1.diagnostics := by
        apply ih <;> first | exact hloop | exact hchk | exact hT1
      exact q2.trans q1

end core7
/-- like the sixth core, the seventh needs one more level of fuel -/
theorem indexStatementList7_quiet (k : Nat) (sl : PTree) (hchk : coreStatementList7 sl = true) (c c' : IndexCtx)
    (hsm : c.symbolMap = {}) (hsc : c.scopes = {}) (htr : c.fileTrace ≠ [])
    (hrun : ((mkRec (k + 3)).statementList sl).run c = .ok ((), c')) :
    c'.diagnostics = c.diagnostics :=
  indexStatementList7L_quiet (k + 1) true (fun _ => Nat.succ_pos k) sl hchk c c' hsm hsc htr hrun

end Ide
end Tg
