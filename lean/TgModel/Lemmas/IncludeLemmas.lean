/- Proofs about the include-graph model. -/
import TgModel.Include

namespace Tg
namespace Include

/-! ## generic facts -/

theorem Reach.trans {w : World} {a b c : Nat} (h₁ : Reach w a b) (h₂ : Reach w b c) :
    Reach w a c := by
  induction h₂ with
  | refl => exact h₁
  | step _ hc ih => exact Reach.step ih hc

theorem mem_succs {w : World} {f t : Nat} : t ∈ w.succs f ↔ some t ∈ w.incs f := by
  simp [World.succs, List.mem_filterMap]

theorem succs_lt {w : World} (hw : w.WF) {f t : Nat} (hf : f < w.n) (ht : t ∈ w.succs f) :
    t < w.n := hw f hf t (mem_succs.mp ht)

/-- a set containing `root` and closed under `succs` contains everything reachable -/
theorem reach_mem_of_closed {w : World} {root : Nat} (S : Nat → Prop) (h0 : S root)
    (hcl : ∀ x, S x → ∀ y, y ∈ w.succs x → S y) {f : Nat} (h : Reach w root f) : S f := by
  induction h with
  | refl => exact h0
  | step _ hc ih => exact hcl _ ih _ hc

/-! ## `collect`: termination -/

/-- weight of the files of `l` not yet visited -/
def wt (w : World) (vis : List Nat) (l : List Nat) : Nat :=
  (l.map (fun f => if f ∈ vis then 0 else (w.succs f).length + 2)).sum

theorem wt_nil_vis (w : World) (l : List Nat) :
    wt w [] l = (l.map (fun f => (w.succs f).length + 2)).sum := by
  simp [wt]

theorem wt_cons_le (w : World) (vis : List Nat) (f : Nat) (l : List Nat) :
    wt w (f :: vis) l ≤ wt w vis l := by
  induction l with
  | nil => simp [wt]
  | cons a l ih =>
    simp only [wt, List.map_cons, List.sum_cons, List.mem_cons] at ih ⊢
    by_cases h1 : a ∈ vis
    · simp [h1]; exact ih
    · by_cases h2 : a = f
      · simp [h2]; omega
      · simp [h1, h2]; exact ih

theorem wt_cons_lt (w : World) (vis : List Nat) (f : Nat) (l : List Nat) (hl : f ∈ l)
    (hv : f ∉ vis) : wt w (f :: vis) l + ((w.succs f).length + 2) ≤ wt w vis l := by
  induction l with
  | nil => cases hl
  | cons a l ih =>
    have hle := wt_cons_le w vis f l
    simp only [wt, List.map_cons, List.sum_cons, List.mem_cons] at ih hle ⊢
    by_cases h2 : a = f
    · subst h2
      simp [hv]; omega
    · have hl' : f ∈ l := by
        cases hl with
        | head => exact absurd rfl h2
        | tail _ h => exact h
      have := ih hl'
      by_cases h1 : a ∈ vis
      · simp [h1]; omega
      · simp [h1, h2]; omega

theorem collect_some (w : World) (hw : w.WF) :
    ∀ (fuel : Nat) (q vis : List Nat), (∀ x ∈ q, x < w.n) →
      wt w vis (List.range w.n) + q.length < fuel → ∃ vs, collect w fuel q vis = some vs := by
  intro fuel
  induction fuel with
  | zero => intro q vis _ h; omega
  | succ fuel ih =>
    intro q vis hq hm
    cases q with
    | nil => exact ⟨vis, rfl⟩
    | cons f q =>
      simp only [collect]
      by_cases hv : f ∈ vis
      · have hc : vis.contains f = true := List.contains_iff_mem.mpr hv
        simp only [hc, if_true]
        apply ih
        · intro x hx; exact hq x (List.mem_cons_of_mem _ hx)
        · simp only [List.length_cons] at hm; omega
      · have hc : vis.contains f = false := by
          cases h : vis.contains f with
          | false => rfl
          | true => exact absurd (List.contains_iff_mem.mp h) hv
        simp only [hc]
        have hf : f < w.n := hq f List.mem_cons_self
        apply ih
        · intro x hx
          rcases List.mem_append.mp hx with hx | hx
          · exact hq x (List.mem_cons_of_mem _ hx)
          · exact succs_lt hw hf hx
        · have := wt_cons_lt w vis f (List.range w.n) (List.mem_range.mpr hf) hv
          simp only [List.length_cons, List.length_append] at hm ⊢
          omega

theorem collect_terminates (w : World) (hw : w.WF) (root : Nat) (hr : root < w.n) :
    ∃ vs, fileSet w root = some vs := by
  unfold fileSet
  apply collect_some w hw
  · intro x hx
    cases hx with
    | head => exact hr
    | tail _ h => cases h
  · rw [wt_nil_vis]
    simp [collectFuel]

/-! ## `collect`: invariants -/

theorem collect_inv (w : World) (P : List Nat → List Nat → Prop)
    (hskip : ∀ f q vis, f ∈ vis → P (f :: q) vis → P q vis)
    (hpush : ∀ f q vis, f ∉ vis → P (f :: q) vis → P (q ++ w.succs f) (f :: vis)) :
    ∀ (fuel : Nat) (q vis vs : List Nat), P q vis → collect w fuel q vis = some vs → P [] vs := by
  intro fuel
  induction fuel with
  | zero => intro q vis vs _ h; simp [collect] at h
  | succ fuel ih =>
    intro q vis vs hP h
    cases q with
    | nil =>
      simp only [collect, Option.some.injEq] at h
      subst h; exact hP
    | cons f q =>
      simp only [collect] at h
      by_cases hv : f ∈ vis
      · have hc : vis.contains f = true := List.contains_iff_mem.mpr hv
        simp only [hc, if_true] at h
        exact ih _ _ _ (hskip f q vis hv hP) h
      · have hc : vis.contains f = false := by
          cases h' : vis.contains f with
          | false => rfl
          | true => exact absurd (List.contains_iff_mem.mp h') hv
        simp only [hc] at h
        exact ih _ _ _ (hpush f q vis hv hP) h

set_option linter.unusedVariables false in
theorem collect_exact (w : World) (hw : w.WF) (root : Nat) (hr : root < w.n) (vs : List Nat)
    (h : fileSet w root = some vs) : ∀ f, f ∈ vs ↔ Reach w root f := by
  unfold fileSet at h
  -- soundness
  have hs : (∀ x, x ∈ ([] : List Nat) ∨ x ∈ vs → Reach w root x) := by
    refine collect_inv w (fun q vis => ∀ x, x ∈ q ∨ x ∈ vis → Reach w root x) ?_ ?_ _ _ _ _ ?_ h
    · intro f q vis _ hP x hx
      rcases hx with hx | hx
      · exact hP x (Or.inl (List.mem_cons_of_mem _ hx))
      · exact hP x (Or.inr hx)
    · intro f q vis _ hP x hx
      have hf : Reach w root f := hP f (Or.inl List.mem_cons_self)
      rcases hx with hx | hx
      · rcases List.mem_append.mp hx with hx | hx
        · exact hP x (Or.inl (List.mem_cons_of_mem _ hx))
        · exact Reach.step hf hx
      · rcases List.mem_cons.mp hx with hx | hx
        · subst hx; exact hf
        · exact hP x (Or.inr hx)
    · intro x hx
      rcases hx with hx | hx
      · rcases List.mem_cons.mp hx with hx | hx
        · subst hx; exact Reach.refl _
        · cases hx
      · cases hx
  -- root stays
  have hroot : root ∈ ([] : List Nat) ∨ root ∈ vs := by
    refine collect_inv w (fun q vis => root ∈ q ∨ root ∈ vis) ?_ ?_ _ _ _ _ ?_ h
    · intro f q vis hv hP
      rcases hP with hP | hP
      · rcases List.mem_cons.mp hP with hP | hP
        · subst hP; exact Or.inr hv
        · exact Or.inl hP
      · exact Or.inr hP
    · intro f q vis _ hP
      rcases hP with hP | hP
      · rcases List.mem_cons.mp hP with hP | hP
        · subst hP; exact Or.inr List.mem_cons_self
        · exact Or.inl (List.mem_append_left _ hP)
      · exact Or.inr (List.mem_cons_of_mem _ hP)
    · exact Or.inl List.mem_cons_self
  -- closure
  have hcl : ∀ x ∈ vs, ∀ y ∈ w.succs x, y ∈ ([] : List Nat) ∨ y ∈ vs := by
    refine collect_inv w (fun q vis => ∀ x ∈ vis, ∀ y ∈ w.succs x, y ∈ q ∨ y ∈ vis)
      ?_ ?_ _ _ _ _ ?_ h
    · intro f q vis hv hP x hx y hy
      rcases hP x hx y hy with h1 | h1
      · rcases List.mem_cons.mp h1 with h1 | h1
        · subst h1; exact Or.inr hv
        · exact Or.inl h1
      · exact Or.inr h1
    · intro f q vis _ hP x hx y hy
      rcases List.mem_cons.mp hx with hx | hx
      · subst hx; exact Or.inl (List.mem_append_right _ hy)
      · rcases hP x hx y hy with h1 | h1
        · rcases List.mem_cons.mp h1 with h1 | h1
          · subst h1; exact Or.inr List.mem_cons_self
          · exact Or.inl (List.mem_append_left _ h1)
        · exact Or.inr (List.mem_cons_of_mem _ h1)
    · intro x hx; cases hx
  intro f
  constructor
  · intro hf; exact hs f (Or.inr hf)
  · intro hf
    refine reach_mem_of_closed (fun x => x ∈ vs) ?_ ?_ hf
    · rcases hroot with h1 | h1
      · cases h1
      · exact h1
    · intro x hx y hy
      rcases hcl x hx y hy with h1 | h1
      · cases h1
      · exact h1

set_option linter.unusedVariables false in
theorem collect_nodup (w : World) (hw : w.WF) (root : Nat) (hr : root < w.n) (vs : List Nat)
    (h : fileSet w root = some vs) : vs.Nodup := by
  unfold fileSet at h
  refine collect_inv w (fun _ vis => vis.Nodup) ?_ ?_ _ _ _ _ ?_ h
  · intro f q vis _ hP; exact hP
  · intro f q vis hv hP; exact List.nodup_cons.mpr ⟨hv, hP⟩
  · exact List.nodup_nil

/-! ## links -/

theorem link_iff_resolved (w : World) (f i t : Nat) :
    (i, t) ∈ links w f ↔ (w.incs f)[i]? = some (some t) := by
  unfold links includeMap
  rw [List.mem_filterMap]
  constructor
  · rintro ⟨⟨o, j⟩, hm, he⟩
    rw [List.mem_zipIdx_iff_getElem?] at hm
    cases o with
    | none => simp at he
    | some t' =>
      simp only [Option.map_some, Option.some.injEq, Prod.mk.injEq] at he
      obtain ⟨rfl, rfl⟩ := he
      exact hm
  · intro h
    refine ⟨(some t, i), ?_, rfl⟩
    rw [List.mem_zipIdx_iff_getElem?]
    exact h

/-! ## the indexer's depth-first descent -/

theorem mem_zipIdx_iff {α : Type} {l : List α} {o : α} {i : Nat} :
    (o, i) ∈ l.zipIdx ↔ l[i]? = some o := by
  rw [List.mem_zipIdx_iff_getElem?]

theorem mem_succs_iff_zipIdx {w : World} {f t : Nat} :
    t ∈ w.succs f ↔ ∃ i, (some t, i) ∈ (w.incs f).zipIdx := by
  rw [mem_succs, List.mem_iff_getElem?]
  constructor
  · rintro ⟨i, hi⟩; exact ⟨i, mem_zipIdx_iff.mpr hi⟩
  · rintro ⟨i, hi⟩; exact ⟨i, mem_zipIdx_iff.mp hi⟩

theorem contains_false_of_not_mem {l : List Nat} {a : Nat} (h : a ∉ l) : l.contains a = false := by
  cases h' : l.contains a with
  | false => rfl
  | true => exact absurd (List.contains_iff_mem.mp h') h

/-- precondition of a descent: no duplicates, only files of the world, enough fuel left -/
structure Pre (w : World) (fuel : Nat) (idx : List Nat) : Prop where
  nodup : idx.Nodup
  lt : ∀ x ∈ idx, x < w.n
  fuel : w.n + 1 ≤ fuel + idx.length

theorem Pre.fuel_pos {w : World} {fuel : Nat} {idx : List Nat} (h : Pre w fuel idx) :
    0 < fuel := by
  have hsub : idx ⊆ List.range w.n := fun x hx => List.mem_range.mpr (h.lt x hx)
  have := h.nodup.length_le_of_subset hsub
  have := h.fuel
  simp only [List.length_range] at *
  omega

/-- what processing the statements `r` of file `f` achieves, from state `(idx, ds)` to
`(idx', ds')` -/
structure Post (w : World) (f : Nat) (r : List (Option Nat × Nat)) (idx : List Nat)
    (ds : List (Nat × Nat)) (idx' : List Nat) (ds' : List (Nat × Nat)) : Prop where
  ext : ∃ new, idx' = new ++ idx
  nodup : idx'.Nodup
  lt : ∀ x ∈ idx', x < w.n
  sound : ∀ x ∈ idx', x ∈ idx ∨ Reach w f x
  succ_mem : ∀ t i, (some t, i) ∈ r → t ∈ idx'
  closed : ∀ x ∈ idx', x ∉ idx → ∀ y ∈ w.succs x, y ∈ idx'
  diag : ∃ dnew, ds' = ds ++ dnew ∧ ∀ g i, (g, i) ∈ dnew ↔
    ((g = f ∧ (none, i) ∈ r) ∨ (g ∈ idx' ∧ g ∉ idx ∧ (w.incs g)[i]? = some none))

theorem Post.sub {w f r idx ds idx' ds'} (h : Post w f r idx ds idx' ds') :
    ∀ x ∈ idx, x ∈ idx' := by
  obtain ⟨new, hn⟩ := h.ext
  intro x hx; rw [hn]; exact List.mem_append_right _ hx

theorem Post.pre {w f r idx ds idx' ds' fuel} (h : Post w f r idx ds idx' ds')
    (hp : Pre w fuel idx) : Pre w fuel idx' := by
  refine ⟨h.nodup, h.lt, ?_⟩
  obtain ⟨new, hn⟩ := h.ext
  have := hp.fuel
  rw [hn, List.length_append]; omega

theorem Post.nil {w f idx ds fuel} (hp : Pre w fuel idx) : Post w f [] idx ds idx ds where
  ext := ⟨[], rfl⟩
  nodup := hp.nodup
  lt := hp.lt
  sound := fun x hx => Or.inl hx
  succ_mem := fun t i h => by cases h
  closed := fun x hx hn => absurd hx hn
  diag := ⟨[], by simp, by
    intro g i
    constructor
    · intro h; cases h
    · rintro (⟨_, h⟩ | ⟨h1, h2, _⟩)
      · cases h
      · exact absurd h1 h2⟩

theorem Post.none_cons {w f r idx ds idx' ds' i}
    (h : Post w f r idx (ds ++ [(f, i)]) idx' ds') : Post w f ((none, i) :: r) idx ds idx' ds' where
  ext := h.ext
  nodup := h.nodup
  lt := h.lt
  sound := h.sound
  succ_mem := by
    intro t j hm
    rcases List.mem_cons.mp hm with hm | hm
    · cases hm
    · exact h.succ_mem t j hm
  closed := h.closed
  diag := by
    obtain ⟨dnew, hd, hiff⟩ := h.diag
    refine ⟨(f, i) :: dnew, by rw [hd]; simp, ?_⟩
    intro g j
    rw [List.mem_cons, hiff g j]
    constructor
    · rintro (h1 | ⟨h1, h2⟩ | h1)
      · cases h1; exact Or.inl ⟨rfl, List.mem_cons_self⟩
      · exact Or.inl ⟨h1, List.mem_cons_of_mem _ h2⟩
      · exact Or.inr h1
    · rintro (⟨h1, h2⟩ | h1)
      · rcases List.mem_cons.mp h2 with h2 | h2
        · cases h2; subst h1; exact Or.inl rfl
        · exact Or.inr (Or.inl ⟨h1, h2⟩)
      · exact Or.inr (Or.inr h1)

theorem Post.skip_cons {w f r idx ds idx' ds' t i} (ht : t ∈ idx)
    (h : Post w f r idx ds idx' ds') : Post w f ((some t, i) :: r) idx ds idx' ds' where
  ext := h.ext
  nodup := h.nodup
  lt := h.lt
  sound := h.sound
  succ_mem := by
    intro t' j hm
    rcases List.mem_cons.mp hm with hm | hm
    · cases hm; exact h.sub t ht
    · exact h.succ_mem t' j hm
  closed := h.closed
  diag := by
    obtain ⟨dnew, hd, hiff⟩ := h.diag
    refine ⟨dnew, hd, ?_⟩
    intro g j
    rw [hiff g j]
    constructor
    · rintro (⟨h1, h2⟩ | h1)
      · exact Or.inl ⟨h1, List.mem_cons_of_mem _ h2⟩
      · exact Or.inr h1
    · rintro (⟨h1, h2⟩ | h1)
      · rcases List.mem_cons.mp h2 with h2 | h2
        · cases h2
        · exact Or.inl ⟨h1, h2⟩
      · exact Or.inr h1

theorem Post.descend_cons {w f r idx ds idx1 ds1 idx' ds' t i} (ht : t ∉ idx)
    (hts : t ∈ w.succs f)
    (h1 : Post w t ((w.incs t).zipIdx) (t :: idx) ds idx1 ds1)
    (h2 : Post w f r idx1 ds1 idx' ds') : Post w f ((some t, i) :: r) idx ds idx' ds' where
  ext := by
    obtain ⟨n1, e1⟩ := h1.ext
    obtain ⟨n2, e2⟩ := h2.ext
    exact ⟨n2 ++ n1 ++ [t], by rw [e2, e1]; simp⟩
  nodup := h2.nodup
  lt := h2.lt
  sound := by
    intro x hx
    have hft : Reach w f t := Reach.step (Reach.refl f) hts
    rcases h2.sound x hx with hx | hx
    · rcases h1.sound x hx with hx | hx
      · rcases List.mem_cons.mp hx with hx | hx
        · subst hx; exact Or.inr hft
        · exact Or.inl hx
      · exact Or.inr (hft.trans hx)
    · exact Or.inr hx
  succ_mem := by
    intro t' j hm
    rcases List.mem_cons.mp hm with hm | hm
    · cases hm; exact h2.sub t (h1.sub t List.mem_cons_self)
    · exact h2.succ_mem t' j hm
  closed := by
    intro x hx hxn y hy
    by_cases hx1 : x ∈ idx1
    · apply h2.sub
      by_cases hxt : x = t
      · subst hxt
        obtain ⟨j, hj⟩ := mem_succs_iff_zipIdx.mp hy
        exact h1.succ_mem y j hj
      · refine h1.closed x hx1 ?_ y hy
        intro hc
        rcases List.mem_cons.mp hc with hc | hc
        · exact hxt hc
        · exact hxn hc
    · exact h2.closed x hx hx1 y hy
  diag := by
    obtain ⟨d1, hd1, hiff1⟩ := h1.diag
    obtain ⟨d2, hd2, hiff2⟩ := h2.diag
    refine ⟨d1 ++ d2, by rw [hd2, hd1, List.append_assoc], ?_⟩
    intro g j
    rw [List.mem_append, hiff1 g j, hiff2 g j]
    have ht1 : t ∈ idx1 := h1.sub t List.mem_cons_self
    constructor
    · rintro ((⟨e, hm⟩ | ⟨m1, m2, m3⟩) | (⟨e, hm⟩ | ⟨m1, m2, m3⟩))
      · subst e
        exact Or.inr ⟨h2.sub _ ht1, ht, mem_zipIdx_iff.mp hm⟩
      · exact Or.inr ⟨h2.sub _ m1, fun hc => m2 (List.mem_cons_of_mem _ hc), m3⟩
      · exact Or.inl ⟨e, List.mem_cons_of_mem _ hm⟩
      · exact Or.inr ⟨m1, fun hc => m2 (h1.sub _ (List.mem_cons_of_mem _ hc)), m3⟩
    · rintro (⟨e, hm⟩ | ⟨m1, m2, m3⟩)
      · rcases List.mem_cons.mp hm with hm | hm
        · cases hm
        · exact Or.inr (Or.inl ⟨e, hm⟩)
      · by_cases hg1 : g ∈ idx1
        · by_cases hgt : g = t
          · subst hgt
            exact Or.inl (Or.inl ⟨rfl, mem_zipIdx_iff.mpr m3⟩)
          · refine Or.inl (Or.inr ⟨hg1, ?_, m3⟩)
            intro hc
            rcases List.mem_cons.mp hc with hc | hc
            · exact hgt hc
            · exact m2 hc
        · exact Or.inr (Or.inr ⟨m1, hg1, m3⟩)

theorem indexList_post (w : World) (hw : w.WF) (fuel : Nat)
    (IH : ∀ f idx ds, f < w.n → Pre w fuel idx →
      Post w f ((w.incs f).zipIdx) idx ds (indexFile w fuel f idx ds).1
        (indexFile w fuel f idx ds).2)
    (f : Nat) (hf : f < w.n) :
    ∀ (r : List (Option Nat × Nat)) (idx : List Nat) (ds : List (Nat × Nat)),
      (∀ t i, (some t, i) ∈ r → t ∈ w.succs f) → Pre w (fuel + 1) idx →
      Post w f r idx ds (indexList (indexFile w fuel) f r idx ds).1
        (indexList (indexFile w fuel) f r idx ds).2 := by
  intro r
  induction r with
  | nil => intro idx ds _ hp; exact Post.nil hp
  | cons a r ih =>
    intro idx ds hr hp
    have hr' : ∀ t i, (some t, i) ∈ r → t ∈ w.succs f :=
      fun t i h => hr t i (List.mem_cons_of_mem _ h)
    obtain ⟨o, i⟩ := a
    cases o with
    | none =>
      simp only [indexList]
      exact Post.none_cons (ih idx _ hr' hp)
    | some t =>
      simp only [indexList]
      have hts : t ∈ w.succs f := hr t i List.mem_cons_self
      by_cases ht : t ∈ idx
      · have hc : idx.contains t = true := List.contains_iff_mem.mpr ht
        simp only [hc, if_true]
        exact Post.skip_cons ht (ih idx ds hr' hp)
      · have hc : idx.contains t = false := contains_false_of_not_mem ht
        simp only [hc]
        have htn : t < w.n := succs_lt hw hf hts
        have hp1 : Pre w fuel (t :: idx) := by
          refine ⟨List.nodup_cons.mpr ⟨ht, hp.nodup⟩, ?_, ?_⟩
          · intro x hx
            rcases List.mem_cons.mp hx with hx | hx
            · subst hx; exact htn
            · exact hp.lt x hx
          · have := hp.fuel
            simp only [List.length_cons]; omega
        have h1 := IH t (t :: idx) ds htn hp1
        have hp2 : Pre w (fuel + 1) (indexFile w fuel t (t :: idx) ds).1 := by
          have := h1.pre hp1
          exact ⟨this.nodup, this.lt, by have := this.fuel; omega⟩
        exact Post.descend_cons ht hts h1 (ih _ _ hr' hp2)

theorem indexFile_post (w : World) (hw : w.WF) :
    ∀ (fuel f : Nat) (idx : List Nat) (ds : List (Nat × Nat)), f < w.n → Pre w fuel idx →
      Post w f ((w.incs f).zipIdx) idx ds (indexFile w fuel f idx ds).1
        (indexFile w fuel f idx ds).2 := by
  intro fuel
  induction fuel with
  | zero => intro f idx ds _ hp; exact absurd hp.fuel_pos (Nat.lt_irrefl 0)
  | succ fuel ih =>
    intro f idx ds hf hp
    simp only [indexFile]
    exact indexList_post w hw fuel ih f hf _ idx ds
      (fun t i h => mem_succs_iff_zipIdx.mpr ⟨i, h⟩) hp

theorem indexOrder_post (w : World) (hw : w.WF) (root : Nat) (hr : root < w.n) :
    Post w root ((w.incs root).zipIdx) [root] [] (indexOrder w root).1 (indexOrder w root).2 := by
  unfold indexOrder
  apply indexFile_post w hw _ _ _ _ hr
  refine ⟨by simp, ?_, by simp⟩
  intro x hx
  rcases List.mem_cons.mp hx with hx | hx
  · subst hx; exact hr
  · cases hx

theorem indexed_once (w : World) (hw : w.WF) (root : Nat) (hr : root < w.n) :
    (indexOrder w root).1.Nodup :=
  (indexOrder_post w hw root hr).nodup

theorem indexed_exact (w : World) (hw : w.WF) (root : Nat) (hr : root < w.n) :
    ∀ f, f ∈ (indexOrder w root).1 ↔ Reach w root f := by
  have hp := indexOrder_post w hw root hr
  intro f
  constructor
  · intro hf
    rcases hp.sound f hf with h | h
    · rcases List.mem_cons.mp h with h | h
      · subst h; exact Reach.refl _
      · cases h
    · exact h
  · intro hf
    refine reach_mem_of_closed (fun x => x ∈ (indexOrder w root).1) ?_ ?_ hf
    · exact hp.sub root List.mem_cons_self
    · intro x hx y hy
      by_cases hxr : x = root
      · subst hxr
        obtain ⟨j, hj⟩ := mem_succs_iff_zipIdx.mp hy
        exact hp.succ_mem y j hj
      · refine hp.closed x hx ?_ y hy
        intro hc
        rcases List.mem_cons.mp hc with hc | hc
        · exact hxr hc
        · cases hc

theorem unresolved_diagnosed (w : World) (hw : w.WF) (root : Nat) (hr : root < w.n) (f i : Nat) :
    (f, i) ∈ (indexOrder w root).2 ↔ (f ∈ (indexOrder w root).1 ∧ (w.incs f)[i]? = some none) := by
  have hp := indexOrder_post w hw root hr
  obtain ⟨dnew, hd, hiff⟩ := hp.diag
  rw [hd, List.nil_append, hiff f i]
  constructor
  · rintro (⟨e, hm⟩ | ⟨m1, _, m3⟩)
    · subst e
      exact ⟨hp.sub _ List.mem_cons_self, mem_zipIdx_iff.mp hm⟩
    · exact ⟨m1, m3⟩
  · rintro ⟨m1, m3⟩
    by_cases hfr : f = root
    · subst hfr
      exact Or.inl ⟨rfl, mem_zipIdx_iff.mpr m3⟩
    · refine Or.inr ⟨m1, ?_, m3⟩
      intro hc
      rcases List.mem_cons.mp hc with hc | hc
      · exact hfr hc
      · cases hc

end Include
end Tg
