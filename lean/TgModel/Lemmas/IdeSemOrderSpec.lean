/-
Source order of the outline, part 3: the statement functions move the position from the start to
the end of their node (`StmtSpec`).
-/
import TgModel.Lemmas.IdeSemOrderInv
namespace Tg
namespace Ide

/-! ### the statement functions move the position from the start to the end of their node -/

/-- in `Defset` and `MultiClass` nodes the name comes before the body -/
def NameOrdAt (t : PTree) : Prop :=
  (t.kind = .Defset ∨ t.kind = .MultiClass) → ∀ nm sl, Ast.child t (Ast.is .Identifier) = some nm →
    Ast.child t (Ast.is .StatementList) = some sl → nm.stop ≤ sl.start

inductive NameOrd : PTree → Prop
  | mk (t : PTree) : NameOrdAt t → (∀ c ∈ t.children.toList, NameOrd c) → NameOrd t

/-- consistent offsets, names before bodies -/
structure Shaped (n : PTree) : Prop where
  wf : n.WF
  ord : NameOrd n

theorem Shaped.child {n c : PTree} (h : Shaped n) (hc : c ∈ n.children.toList) :
    Shaped c ∧ n.start ≤ c.start ∧ c.stop ≤ n.stop := by
  obtain ⟨w, b1, b2⟩ := h.wf.mem_child hc
  cases h.ord with
  | mk _ _ hch => exact ⟨⟨w, hch c hc⟩, b1, b2⟩

theorem Shaped.at {n : PTree} (h : Shaped n) : NameOrdAt n := by
  cases h.ord; assumption

variable {ws0 : Workspace}

/-- processing the node `n` of the current file moves the position from its start to its end -/
def StmtSpec (ws0 : Workspace) {α : Type} (n : PTree) (m : IxM α) : Prop :=
  ∀ c0 f rest, Triple (PAt ws0 c0 f rest n.start) m (PAt ws0 c0 f rest n.stop)

structure RecO (ws0 : Workspace) (r : Rec) : Prop where
  value : ∀ n, Keeps NRel (r.value n)
  typ : ∀ n, Keeps NRel (r.typ n)
  statementList : ∀ n, Shaped n → StmtSpec ws0 n (r.statementList n)
  sourceFile : ∀ n, Shaped n → StmtSpec ws0 n (r.sourceFile n)

theorem Triple.reseat {α : Type} {c0 : IndexCtx} {f : Nat} {rest : List Nat} {p q p' q' : Nat} {m : IxM α}
    (h : Triple (PAt ws0 c0 f rest p) m (PAt ws0 c0 f rest q)) (h1 : p' ≤ p) (h2 : q ≤ q') :
    Triple (PAt ws0 c0 f rest p') m (PAt ws0 c0 f rest q') :=
  (h.mono_pre fun _ hc => hc.mono h1).mono_post fun _ hc => hc.mono h2

/-- a function that is neutral satisfies the spec of any well-formed node -/
theorem StmtSpec.of_neutral {α : Type} {m : IxM α} (h : Keeps NRel m) {n : PTree} (hn : n.WF) :
    StmtSpec ws0 n m := fun c0 f rest => (PAt.neutral h n.start).reseat (Nat.le_refl _) hn.le

theorem nthChild_order {n a b : PTree} {p : SyntaxKind → Bool} (h : n.WF)
    (ha : Ast.nthChild n p 0 = some a) (hb : Ast.nthChild n p 1 = some b) : a.stop ≤ b.start := by
  unfold Ast.nthChild at ha hb
  have := Ast.children_ordered p h
  rw [List.pairwise_iff_getElem] at this
  obtain ⟨h0, e0⟩ := List.getElem?_eq_some_iff.1 ha
  obtain ⟨h1, e1⟩ := List.getElem?_eq_some_iff.1 hb
  have := this 0 1 h0 h1 (by omega)
  rw [e0, e1] at this
  exact this

section stmts
variable {r : Rec} (hr : RecO ws0 r)
include hr

theorem indexIf_o (n : PTree) (hn : Shaped n) : StmtSpec ws0 n (Index.indexIf r n) := by
  intro c0 f rest
  unfold Index.indexIf
  split
  · refine Triple.bind (PAt.neutral (hr.value _) _) fun _ => ?_
    split
    · rename_i tb htb
      obtain ⟨stb, b1, b2⟩ := hn.child (Ast.nthChild_mem htb)
      refine Triple.bind (PAt.neutral (scopesPush_n _) _) fun _ => ?_
      refine Triple.bind ((hr.statementList tb stb c0 f rest).reseat b1 (Nat.le_refl _)) fun _ => ?_
      refine Triple.bind (PAt.neutral scopesPop_n _) fun _ => ?_
      split
      · rename_i eb heb
        obtain ⟨seb, e1, e2⟩ := hn.child (Ast.nthChild_mem heb)
        have hord := nthChild_order hn.wf htb heb
        refine Triple.bind (PAt.neutral (scopesPush_n _) _) fun _ => ?_
        refine Triple.bind ((hr.statementList eb seb c0 f rest).reseat hord (Nat.le_refl _)) fun _ => ?_
        exact (PAt.neutral scopesPop_n _).reseat (Nat.le_refl _) e2
      · exact (Triple.pure _).mono_post fun _ hc => hc.mono b2
    · exact (Triple.pure _).mono_post fun _ hc => hc.mono hn.wf.le
  · exact (Triple.pure _).mono_post fun _ hc => hc.mono hn.wf.le

end stmts

section neutralExtra
variable {R : IndexCtx → IndexCtx → Prop} [NeutRel R] {r : Rec}
  (hv : ∀ n, Keeps R (r.value n)) (ht : ∀ n, Keeps R (r.typ n))
include hv ht
theorem Index.indexDefm_n (n : PTree) : Keeps R (Index.indexDefm r n) := by
  unfold Index.indexDefm
  keeps
end neutralExtra

/-- the location `utils::identifier` returns lies in the node, starting where the node starts -/
theorem loc_in_node {nm : PTree} {loc : FileRange} (h : nm.WF)
    (hr : Ast.identifierRange nm = some (loc.start, loc.stop)) :
    loc.start = nm.start ∧ loc.start ≤ loc.stop ∧ loc.stop ≤ nm.stop := identifierRange_bounds h hr

theorem indexNameValue_spec {c0 : IndexCtx} {f : Nat} {rest : List Nat} (nv : PTree) (hnv : nv.WF) (p : Nat) :
    TripleR (PAt ws0 c0 f rest p) (Index.indexNameValue nv)
      (fun a c => PAt ws0 c0 f rest p c ∧ ∀ name loc, a = some (name, loc) →
        loc.file = f ∧ nv.start ≤ loc.start ∧ loc.start ≤ loc.stop ∧ loc.stop ≤ nv.stop) :=
  ⟨fun c a c' hp h => by
    unfold Index.indexNameValue at h
    split at h
    · rename_i inner hinner
      have hin := Ast.children_mem (List.mem_of_mem_head? hinner)
      obtain ⟨wi, i1, i2⟩ := hnv.mem_child hin.1
      split at h
      · rename_i sv hsv
        obtain ⟨ws, s1, s2⟩ := Ast.child_bounds wi hsv
        split at h
        · obtain ⟨rfl, h2⟩ := utilsIdentifier_inv sv c c' a h hp.trace
          refine ⟨hp, fun name loc ha => ?_⟩
          obtain ⟨hf, hr⟩ := h2 name loc ha
          obtain ⟨l1, l2, l3⟩ := loc_in_node ws hr
          exact ⟨hf, by omega, l2, by omega⟩
        · split at h
          · dsimp only at h
            split at h
            · rename_i tok htok
              split at h
              · simp only [StateT.run_pure] at h; cases h
                exact ⟨hp, fun _ _ ha => by cases ha⟩
              · split at h
                · simp only [StateT.run_bind, IxM.run_panic] at h
                  cases h
                · simp only [StateT.run_bind, currentFileId_run c f rest hp.trace, Except.ok_bind,
                    StateT.run_pure] at h
                  cases h
                  refine ⟨hp, fun name loc ha => ?_⟩
                  cases ha
                  have hr' : Ast.identifierRange sv = some (tok.start, tok.stop) := by
                    unfold Ast.identifierRange; rw [htok]; rfl
                  obtain ⟨l1, l2, l3⟩ := identifierRange_bounds ws hr'
                  exact ⟨rfl, by simp only; omega, by simp only; omega, by simp only; omega⟩
            · simp only [StateT.run_pure] at h; cases h
              exact ⟨hp, fun _ _ ha => by cases ha⟩
          · simp only [StateT.run_pure] at h; cases h
            exact ⟨hp, fun _ _ ha => by cases ha⟩
      · simp only [StateT.run_pure] at h; cases h
        exact ⟨hp, fun _ _ ha => by cases ha⟩
    · simp only [StateT.run_pure] at h; cases h
      exact ⟨hp, fun _ _ ha => by cases ha⟩⟩

section stmts2
variable {r : Rec} (hr : RecO ws0 r)
include hr

theorem indexLet_o (n : PTree) (hn : Shaped n) : StmtSpec ws0 n (Index.indexLet r n) := by
  intro c0 f rest
  unfold Index.indexLet
  split
  · refine Triple.bind (PAt.neutral (Index.indexLetList_n hr.value hr.typ _) _) fun _ => ?_
    split
    · rename_i sl hsl
      obtain ⟨ssl, b1, b2⟩ := hn.child (Ast.child_mem hsl)
      refine Triple.bind (PAt.neutral (scopesPush_n _) _) fun _ => ?_
      refine Triple.bind ((hr.statementList sl ssl c0 f rest).reseat b1 (Nat.le_refl _)) fun _ => ?_
      exact (PAt.neutral scopesPop_n _).reseat (Nat.le_refl _) b2
    · exact (Triple.pure _).mono_post fun _ hc => hc.mono hn.wf.le
  · exact (Triple.pure _).mono_post fun _ hc => hc.mono hn.wf.le

theorem indexForeach_o (n : PTree) (hn : Shaped n) : StmtSpec ws0 n (Index.indexForeach r n) := by
  intro c0 f rest
  unfold Index.indexForeach
  split
  · refine Triple.bind (PAt.neutral (Index.indexForeachIterator_n hr.value hr.typ _) _) fun _ => ?_
    split
    · refine Triple.bind (PAt.neutral (scopesPush_n _) _) fun _ => ?_
      split
      · rename_i sl hsl
        obtain ⟨ssl, b1, b2⟩ := hn.child (Ast.child_mem hsl)
        refine Triple.bind ((hr.statementList sl ssl c0 f rest).reseat b1 (Nat.le_refl _)) fun _ => ?_
        exact (PAt.neutral scopesPop_n _).reseat (Nat.le_refl _) b2
      · exact (Triple.pure _).mono_post fun _ hc => hc.mono hn.wf.le
    · exact (Triple.pure _).mono_post fun _ hc => hc.mono hn.wf.le
  · exact (Triple.pure _).mono_post fun _ hc => hc.mono hn.wf.le

theorem indexClass_o (n : PTree) (hn : Shaped n) : StmtSpec ws0 n (Index.indexClass r n) := by
  intro c0 f rest
  have hv := hr.value; have ht := hr.typ
  unfold Index.indexClass
  split
  · rename_i nm hnm
    obtain ⟨wnm, n1, n2⟩ := Ast.child_bounds hn.wf hnm
    refine TripleR.bind (oUtilsIdentifier_spec nm _) fun a => ?_
    refine Triple.pre_fact fun hfact => ?_
    split
    · rename_i name loc
      obtain ⟨hfile, hrange⟩ := hfact name loc rfl
      obtain ⟨l1, l2, l3⟩ := loc_in_node wnm hrange
      refine Triple.bind (PAt.step_addRecord_global { name := name, kind := .cls, defineLoc := loc } hfile
        (by simp only; omega) l2) fun _ => ?_
      exact (PAt.neutral (by keeps) _).reseat (Nat.le_refl _) (by simp only; omega)
    · exact (Triple.pure _).mono_post fun _ hc => hc.mono hn.wf.le
  · exact (Triple.pure _).mono_post fun _ hc => hc.mono hn.wf.le

end stmts2

section stmts3
variable {r : Rec} (hr : RecO ws0 r)
include hr

theorem indexDef_o (n : PTree) (hn : Shaped n) : StmtSpec ws0 n (Index.indexDef r n) := by
  intro c0 f rest
  have hv := hr.value; have ht := hr.typ
  unfold Index.indexDef
  dsimp only
  refine Triple.bind (PAt.neutral (Index.defDefset_n hv ht) _) fun defsetId => ?_
  split
  · rename_i nv hnv
    obtain ⟨wnv, n1, n2⟩ := Ast.child_bounds hn.wf hnv
    refine TripleR.bind (indexNameValue_spec nv wnv _) fun a => ?_
    refine Triple.pre_fact fun hfact => ?_
    split
    · rename_i name loc
      obtain ⟨hfile, l1, l2, l3⟩ := hfact name loc rfl
      refine Triple.bind (PAt.neutral currentMulticlassId_n _) fun mc => ?_
      split
      · refine Triple.bind (PAt.step_addMulticlassDef { name := name, kind := .def_, defineLoc := loc } hfile
          (by simp only; omega) l2) fun _ => ?_
        exact (PAt.neutral (by keeps) _).reseat (Nat.le_refl _) (by simp only; omega)
      · cases defsetId with
        | none =>
          simp only [Option.isNone_none]
          refine Triple.bind (PAt.step_addRecord_global { name := name, kind := .def_, defineLoc := loc } hfile
            (by simp only; omega) l2) fun _ => ?_
          exact (PAt.neutral (by keeps) _).reseat (Nat.le_refl _) (by simp only; omega)
        | some ds =>
          simp only [Option.isNone_some]
          refine Triple.bind (PAt.neutral (addRecordLocal_n _) _) fun _ => ?_
          exact (PAt.neutral (by keeps) _).reseat (Nat.le_refl _) hn.wf.le
    · exact (PAt.neutral (by keeps) _).reseat (Nat.le_refl _) hn.wf.le
  · simp only [pure_bind]
    exact (PAt.neutral (by keeps) _).reseat (Nat.le_refl _) hn.wf.le

theorem indexDefset_o (n : PTree) (hn : Shaped n) (hk : n.kind = .Defset) :
    StmtSpec ws0 n (Index.indexDefset r n) := by
  intro c0 f rest
  unfold Index.indexDefset
  dsimp only
  split
  · rename_i nm hnm
    obtain ⟨wnm, n1, n2⟩ := Ast.child_bounds hn.wf hnm
    refine TripleR.bind (oUtilsIdentifier_spec nm _) fun a => ?_
    refine Triple.pre_fact fun hfact => ?_
    split
    · rename_i name loc
      obtain ⟨hfile, hrange⟩ := hfact name loc rfl
      obtain ⟨l1, l2, l3⟩ := loc_in_node wnm hrange
      split
      · refine Triple.bind (PAt.neutral (hr.typ _) _) fun x => ?_
        split
        · rename_i typ
          refine Triple.bind (PAt.step_addDefset { name := name, typ := typ, defineLoc := loc } hfile
            (by simp only; omega) l2) fun _ => ?_
          refine Triple.bind (PAt.neutral (scopesPush_n _) _) fun _ => ?_
          split
          · rename_i sl hsl
            obtain ⟨ssl, b1, b2⟩ := hn.child (Ast.child_mem hsl)
            have hord : nm.stop ≤ sl.start := hn.at (Or.inl hk) nm sl hnm hsl
            refine Triple.bind ((hr.statementList sl ssl c0 f rest).reseat (by simp only; omega) (Nat.le_refl _))
              fun _ => ?_
            refine Triple.bind (PAt.neutral scopesPop_n _) fun _ => ?_
            exact (PAt.neutral (registerDefsetName_n _) _).reseat (Nat.le_refl _) b2
          · refine Triple.bind (PAt.neutral scopesPop_n _) fun _ => ?_
            exact (PAt.neutral (registerDefsetName_n _) _).reseat (Nat.le_refl _) (by simp only; omega)
        · exact (Triple.pure _).mono_post fun _ hc => hc.mono hn.wf.le
      · exact (Triple.pure _).mono_post fun _ hc => hc.mono hn.wf.le
    · exact (Triple.pure _).mono_post fun _ hc => hc.mono hn.wf.le
  · exact (Triple.pure _).mono_post fun _ hc => hc.mono hn.wf.le

end stmts3

section stmts4
variable {r : Rec} (hr : RecO ws0 r)
include hr

theorem indexMultiClass_o (n : PTree) (hn : Shaped n) (hk : n.kind = .MultiClass) :
    StmtSpec ws0 n (Index.indexMultiClass r n) := by
  intro c0 f rest
  have hv := hr.value; have ht := hr.typ
  unfold Index.indexMultiClass
  dsimp only
  split
  · rename_i nm hnm
    obtain ⟨wnm, n1, n2⟩ := Ast.child_bounds hn.wf hnm
    refine TripleR.bind (oUtilsIdentifier_spec nm _) fun a => ?_
    refine Triple.pre_fact fun hfact => ?_
    split
    · rename_i name loc
      obtain ⟨hfile, hrange⟩ := hfact name loc rfl
      obtain ⟨l1, l2, l3⟩ := loc_in_node wnm hrange
      refine Triple.bind (PAt.step_addMulticlass { name := name, defineLoc := loc } hfile
        (by simp only; omega) l2) fun mcId => ?_
      refine Triple.bind (PAt.neutral (scopesPush_n _) _) fun _ => ?_
      have tail3 : Triple (PAt ws0 c0 f rest loc.stop)
          (match Ast.multiClassStatementList n with
            | some statementList => do
              r.statementList statementList
              scopesPop
            | _ => scopesPop) (PAt ws0 c0 f rest n.stop) := by
        split
        · rename_i sl hsl
          obtain ⟨ssl, b1, b2⟩ := hn.child (Ast.child_mem hsl)
          have hord : nm.stop ≤ sl.start := hn.at (Or.inr hk) nm sl hnm hsl
          refine Triple.bind ((hr.statementList sl ssl c0 f rest).reseat (by omega) (Nat.le_refl _)) fun _ => ?_
          exact (PAt.neutral scopesPop_n _).reseat (Nat.le_refl _) b2
        · exact (PAt.neutral scopesPop_n _).reseat (Nat.le_refl _) (by omega)
      have tail2 : Triple (PAt ws0 c0 f rest loc.stop)
          (match Ast.multiClassParentClassList n with
            | some parentClassList => do
              Index.indexParentClassList r parentClassList
              match Ast.multiClassStatementList n with
                | some statementList => do
                  r.statementList statementList
                  scopesPop
                | _ => scopesPop
            | _ =>
              match Ast.multiClassStatementList n with
              | some statementList => do
                r.statementList statementList
                scopesPop
              | _ => scopesPop) (PAt ws0 c0 f rest n.stop) := by
        split
        · exact Triple.bind (PAt.neutral (Index.indexParentClassList_n hv ht _) _) fun _ => tail3
        · exact tail3
      split
      · exact Triple.bind (PAt.neutral (Index.indexTemplateArgList_n hv ht _) _) fun _ => tail2
      · exact tail2
    · exact (Triple.pure _).mono_post fun _ hc => hc.mono hn.wf.le
  · exact (Triple.pure _).mono_post fun _ hc => hc.mono hn.wf.le

end stmts4

theorem markIndexed_run (g : Nat) (c : IndexCtx) :
    (markIndexed g).run c =
      .ok (if c.indexedFiles.contains g then (false, c)
           else (true, { c with indexedFiles := g :: c.indexedFiles })) := by
  unfold markIndexed
  rw [IxM.run_modifyGet]

theorem pushFile_run (g : Nat) (c : IndexCtx) :
    (pushFile g).run c = .ok ((), { c with fileTrace := g :: c.fileTrace }) := rfl

theorem popFile_run (c : IndexCtx) (g : Nat) (rest : List Nat) (h : c.fileTrace = g :: rest) :
    popFile.run c = .ok ((), { c with fileTrace := rest }) := by
  unfold popFile
  simp only [StateT.run_bind, IxM.run_get, Except.ok_bind, h]
  rfl

section incl
variable {r : Rec} (hr : RecO ws0 r) (hall : ∀ id, Shaped (ws0.tree id))
include hr hall

theorem indexInclude_o (n : PTree) (hn : n.WF) : StmtSpec ws0 n (Index.indexInclude r n) := by
  intro c0 f rest
  refine ⟨fun c a c' hp hrun => ?_⟩
  unfold Index.indexInclude at hrun
  obtain ⟨x1, c1, h1, hrun⟩ := IxM.run_bind_ok hrun
  rw [currentFileId_run c f rest hp.trace] at h1
  cases h1
  obtain ⟨x2, c2, h2, hrun⟩ := IxM.run_bind_ok hrun
  rw [IxM.run_get] at h2
  cases h2
  dsimp only at hrun
  split at hrun
  · -- include not resolved: a diagnostic
    exact ((PAt.neutral (error_n _ _) n.start).run c a c' hp hrun).mono hn.le
  · rename_i g _
    obtain ⟨b, c3, h3, hrun⟩ := IxM.run_bind_ok hrun
    rw [markIndexed_run] at h3
    by_cases hcont : c.indexedFiles.contains g = true
    · simp only [hcont, if_true, Except.ok.injEq, Prod.mk.injEq] at h3
      obtain ⟨rfl, rfl⟩ := h3
      simp only [Bool.not_false, if_true, StateT.run_pure] at hrun
      cases hrun
      exact hp.mono hn.le
    · simp only [hcont, Bool.false_eq_true, if_false, Except.ok.injEq, Prod.mk.injEq] at h3
      obtain ⟨rfl, rfl⟩ := h3
      have hg : g ∉ c.indexedFiles := by simpa using hcont
      simp only [Bool.not_true, Bool.false_eq_true, if_false] at hrun
      -- the state after `mark_indexed`
      have hp3 : PAt ws0 c0 f rest n.start { c with indexedFiles := g :: c.indexedFiles } :=
        ⟨hp.ws, hp.trace, ⟨hp.inv.valid, hp.inv.sorted,
          fun h hh => hp.inv.fresh h (fun hm => hh (List.mem_cons_of_mem _ hm)),
          fun h hh => List.mem_cons_of_mem _ (hp.inv.trace h hh)⟩, hp.below,
          fun h hh => List.mem_cons_of_mem _ (hp.indexed h hh), hp.frame⟩
      split at hrun
      · rename_i sf hsf
        obtain ⟨x4, c4, h4, hrun⟩ := IxM.run_bind_ok hrun
        rw [pushFile_run] at h4
        cases h4
        obtain ⟨x5, c5, h5, hrun⟩ := IxM.run_bind_ok hrun
        -- the included file
        have hsfsh : Shaped sf := by
          rw [sourceFileCast_eq hsf, hp.ws]; exact hall g
        have hfresh : olocs c.symbolMap g = [] := hp.inv.fresh g hg
        let c4 : IndexCtx := { c with indexedFiles := g :: c.indexedFiles, fileTrace := g :: c.fileTrace }
        have hp4 : PAt ws0 c4 g (f :: rest) sf.start c4 :=
          ⟨hp.ws, (by show g :: c.fileTrace = _; rw [hp.trace]),
            ⟨hp.inv.valid, hp.inv.sorted,
              fun h hh => hp.inv.fresh h (fun hm => hh (List.mem_cons_of_mem _ hm)),
              fun h hh => by
                rcases List.mem_cons.1 hh with rfl | hh
                · exact List.mem_cons_self
                · exact List.mem_cons_of_mem _ (hp.inv.trace h hh)⟩,
            (by show LocsBelow (olocs c.symbolMap g) _; rw [hfresh]; intro x hx; cases hx),
            fun _ hh => hh, fun _ _ _ => rfl⟩
        have hp5 := (hr.sourceFile sf hsfsh c4 g (f :: rest)).run c4 x5 c5 hp4 h5
        rw [popFile_run c5 g (f :: rest) hp5.trace] at hrun
        cases hrun
        have hfix : f ∈ c.indexedFiles := hp.inv.trace f (by rw [hp.trace]; exact List.mem_cons_self)
        have hfg : f ≠ g := fun he => hg (he ▸ hfix)
        refine ⟨hp5.ws, rfl, ⟨hp5.inv.valid, hp5.inv.sorted, hp5.inv.fresh, fun h hh =>
            hp5.inv.trace h (by rw [hp5.trace]; exact List.mem_cons_of_mem _ hh)⟩, ?_, ?_, ?_⟩
        · show LocsBelow (olocs c5.symbolMap f) n.stop
          rw [hp5.frame f (List.mem_cons_of_mem _ hfix) hfg]
          exact hp.below.mono hn.le
        · intro h hh
          exact hp5.indexed h (List.mem_cons_of_mem _ (hp.indexed h hh))
        · intro h hh hne
          have hhc : h ∈ c.indexedFiles := hp.indexed h hh
          have hhg : h ≠ g := fun he => hg (he ▸ hhc)
          show olocs c5.symbolMap h = _
          rw [hp5.frame h (List.mem_cons_of_mem _ hhc) hhg]
          exact hp.frame h hh hne
      · simp only [StateT.run_pure] at hrun
        cases hrun
        exact hp3.mono hn.le

end incl

/-- a loop over nodes in offset order moves the position across all of them -/
theorem forIn_positions {β : Type} {c0 : IndexCtx} {f : Nat} {rest : List Nat} (l : List PTree)
    (body : PTree → β → IxM (ForInStep β))
    (hord : l.Pairwise fun a b => a.stop ≤ b.start)
    (hbody : ∀ x ∈ l, ∀ s, Triple (PAt ws0 c0 f rest x.start) (body x s) (PAt ws0 c0 f rest x.stop))
    (init : β) (p q : Nat) (hp : ∀ x ∈ l, p ≤ x.start) (hq : ∀ x ∈ l, x.stop ≤ q) (hpq : p ≤ q) :
    Triple (PAt ws0 c0 f rest p) (ForIn.forIn l init body) (PAt ws0 c0 f rest q) := by
  induction l generalizing init p with
  | nil => exact (Triple.pure _).mono_post fun _ hc => hc.mono hpq
  | cons x t ih =>
    rw [List.forIn_cons]
    have hxq := hq x List.mem_cons_self
    refine Triple.bind ((hbody x List.mem_cons_self init).reseat (hp x List.mem_cons_self) (Nat.le_refl _)) ?_
    intro r
    cases r with
    | done b => exact (Triple.pure _).mono_post fun _ hc => hc.mono hxq
    | yield b =>
      rw [List.pairwise_cons] at hord
      exact ih hord.2 (fun y hy s => hbody y (List.mem_cons_of_mem _ hy) s) b x.stop
        (fun y hy => hord.1 y hy) (fun y hy => hq y (List.mem_cons_of_mem _ hy)) hxq

section stmts5
variable {r : Rec} (hr : RecO ws0 r) (hall : ∀ id, Shaped (ws0.tree id))
include hr hall

theorem indexStatement_o (n : PTree) (hn : Shaped n) : StmtSpec ws0 n (Index.indexStatement r n) := by
  unfold Index.indexStatement
  split
  · exact indexInclude_o hr hall n hn.wf
  · exact StmtSpec.of_neutral (Index.indexAssert_n hr.value hr.typ n) hn.wf
  · exact indexClass_o hr n hn
  · exact indexDef_o hr n hn
  · exact StmtSpec.of_neutral (Index.indexDefm_n hr.value hr.typ n) hn.wf
  · exact indexDefset_o hr n hn ‹_›
  · exact StmtSpec.of_neutral (Index.indexDefvar_n hr.value hr.typ n) hn.wf
  · exact StmtSpec.of_neutral (Index.indexDump_n hr.value hr.typ n) hn.wf
  · exact indexForeach_o hr n hn
  · exact indexIf_o hr n hn
  · exact indexLet_o hr n hn
  · exact indexMultiClass_o hr n hn ‹_›
  · exact StmtSpec.of_neutral (Keeps.pure _) hn.wf

theorem indexStatementList_o (n : PTree) (hn : Shaped n) : StmtSpec ws0 n (Index.indexStatementList r n) := by
  intro c0 f rest
  unfold Index.indexStatementList
  refine Triple.bind (Q := PAt ws0 c0 f rest n.stop) ?_ fun _ => Triple.pure _
  refine forIn_positions _ _ (Ast.children_ordered _ hn.wf) ?_ _ _ _ ?_ ?_ hn.wf.le
  · intro x hx s
    obtain ⟨sx, _, _⟩ := hn.child (Ast.children_mem hx).1
    exact Triple.bind (indexStatement_o hr hall x sx c0 f rest) fun _ => Triple.pure _
  · intro x hx
    exact (hn.child (Ast.children_mem hx).1).2.1
  · intro x hx
    exact (hn.child (Ast.children_mem hx).1).2.2

theorem indexSourceFile_o (n : PTree) (hn : Shaped n) : StmtSpec ws0 n (Index.indexSourceFile r n) := by
  intro c0 f rest
  unfold Index.indexSourceFile
  split
  · rename_i l hl
    obtain ⟨sl, b1, b2⟩ := hn.child (Ast.child_mem hl)
    exact (hr.statementList l sl c0 f rest).reseat b1 b2
  · exact (Triple.pure _).mono_post fun _ hc => hc.mono hn.wf.le

end stmts5

/-- **the knot satisfies the positional specification** -/
theorem mkRec_o (hall : ∀ id, Shaped (ws0.tree id)) (fuel : Nat) : RecO ws0 (Index.mkRec fuel) := by
  induction fuel with
  | zero =>
    refine ⟨fun _ => Keeps.throw _, fun _ => Keeps.throw _, fun n _ c0 f rest => ⟨fun c a c' _ h => ?_⟩,
      fun n _ c0 f rest => ⟨fun c a c' _ h => ?_⟩⟩ <;> cases h
  | succ fuel ih =>
    exact ⟨fun n => Index.indexValue_n ih.value ih.typ n, fun n => Index.indexType_n ih.value ih.typ n,
      fun n hn => indexStatementList_o ih hall n hn, fun n hn => indexSourceFile_o ih hall n hn⟩


end Ide
end Tg
