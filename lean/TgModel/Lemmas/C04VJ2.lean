/-
C04 converse for values, tree-checked lists (part 2): one-token values, strings, suffixes, slice elements.
(The lemmas of `C04ConvV2`, relative to a context.)
-/
import TgModel.Lemmas.C04VJ1

namespace Tg
namespace C04L
open Prog Grammar Frag Doc

local notation "rcv" => Tables.recoverTokens

theorem integer_armJ (C : RunCtx) {n : Nat} {s s' : PState} (h : exec defs rcv n (call .integer) s = .ok s') (hc : Clean s s')
    (hcur : s.cur = .IntVal ∨ s.cur = .BinaryIntVal) : VConvJ C s s' (.nt .SimpleValue_) := by
  have h := call_inv defs rcv (lift_fuel h 20)
  simp only [defs, seqs, ifEatIf] at h
  obtain ⟨hk, _, ha, _⟩ := leaf2_inv (by decide) (by decide) h hc hcur
  refine ⟨[s.cur], hk, ha, fun _ _ => sv0 (Derives.nt (Derives.tok ?_))⟩
  rcases hcur with e | e <;> rw [e] <;> decide

theorem boolean_armJ (C : RunCtx) {n : Nat} {s s' : PState} (h : exec defs rcv n (call .boolean) s = .ok s') (hc : Clean s s')
    (hcur : s.cur = .TrueVal ∨ s.cur = .FalseVal) : VConvJ C s s' (.nt .SimpleValue_) := by
  have h := call_inv defs rcv (lift_fuel h 20)
  simp only [defs, seqs, ifEatIf] at h
  obtain ⟨hk, _, ha, _⟩ := leaf2_inv (by decide) (by decide) h hc hcur
  refine ⟨[s.cur], hk, ha, fun _ _ => sv3 (Derives.nt ?_)⟩
  rcases hcur with e | e <;> rw [e]
  · exact Derives.altL (d_tok1 _)
  · exact Derives.altR (d_tok1 _)

theorem code_armJ (C : RunCtx) {n : Nat} {s s' : PState} (h : exec defs rcv n (call .code) s = .ok s') (hc : Clean s s')
    (hcur : s.cur = .CodeFragment) : VConvJ C s s' (.nt .SimpleValue_) := by
  have h := call_inv defs rcv (lift_fuel h 20)
  simp only [defs] at h
  obtain ⟨hk, _, ha, _⟩ := leaf1_inv (by decide) h hc hcur
  exact ⟨[TokenKind.CodeFragment], hk, ha, fun _ _ => sv2 (Derives.nt (d_tok1 _))⟩

theorem uninit_armJ (C : RunCtx) {n : Nat} {s s' : PState} (h : exec defs rcv n (call .uninitialized) s = .ok s') (hc : Clean s s')
    (hcur : s.cur = .Question) : VConvJ C s s' (.nt .SimpleValue_) := by
  have h := call_inv defs rcv (lift_fuel h 20)
  simp only [defs] at h
  obtain ⟨hk, _, ha, _⟩ := leaf1_inv (by decide) h hc hcur
  exact ⟨[TokenKind.Question], hk, ha, fun _ _ => sv4 (Derives.nt (d_tok1 _))⟩

theorem string_armJ (C : RunCtx) {n : Nat} {s s' : PState} (h : exec defs rcv n (call .string_) s = .ok s') (hc : Clean s s')
    (hcur : s.cur = .StrVal) : VConvJ C s s' (.nt .SimpleValue_) := by
  have h := call_inv defs rcv (lift_fuel h 20)
  simp only [defs, seqs] at h
  obtain ⟨s1, h1, _, h, hc⟩ := seq_inv defs rcv h hc
  have e1 := same_startNode h1
  rcases ifAt_inv defs rcv h with ⟨_, h⟩ | ⟨hat, _⟩
  · obtain ⟨s2, h2, c2, h, hc⟩ := seq_inv defs rcv h hc
    obtain ⟨s3, h3, _, h4, _⟩ := seq_inv defs rcv h hc
    have e3 := same_finishNode h3
    have e4 := same_retB h4
    -- the first literal by hand: it resets `afterError`
    obtain ⟨t1, g1, gc1, gcase⟩ := loop_inv h2 c2
    rcases eatIf_clean (by decide) g1 with ⟨_, hfl, k1, a1, _⟩ | ⟨hne, _⟩
    · rcases gcase with ⟨hf, _⟩ | ⟨_, t2, gb, _, gl, gcl⟩
      · rw [hfl] at hf; cases hf
      · have e2 := nop_inv defs rcv (lift_fuel gb 1)
        rw [e2] at gl gcl
        obtain ⟨m, km, _, am, _, _⟩ := str_loop_inv _ _ _ gl gcl
        refine ⟨TokenKind.StrVal :: List.replicate m TokenKind.StrVal, ?_, ?_, ?_⟩
        · rw [← e1.kinds, k1, km, e4.kinds, e3.kinds]; rfl
        · rw [e4.after, e3.after]; exact am a1
        · intro _ hs
          cases m with
          | zero => exact sv1 (Derives.nt (d_tok1 _))
          | succ m =>
            exact (VShape0.not_pat (pat := [TokenKind.StrVal, TokenKind.StrVal]) (by decide) (by simp) []
              (List.replicate m TokenKind.StrVal) (by simpa [List.replicate_succ] using hs)).elim
    · exact absurd (by rw [e1.cur]; exact hcur) hne
  · rw [e1.cur, hcur] at hat; simp at hat

theorem range_suffix_invJ (C : RunCtx) {n : Nat} {s s' : PState} (h : exec defs rcv n (call .range_suffix) s = .ok s')
    (hc : Clean s s') : VConvJ C s s' (.nt .ValueSuffix_) := by
  have h := call_inv defs rcv (lift_fuel h 40)
  simp only [defs, seqs] at h
  obtain ⟨s1, h1, _, h, hc⟩ := seq_inv defs rcv h hc
  have e1 := same_startNode h1
  obtain ⟨s2, h2, _, h, hc⟩ := seq_inv defs rcv h hc
  obtain ⟨k2, a2⟩ := assertTok_clean (by decide) h2
  obtain ⟨s3, h3, c3, h, hc⟩ := seq_inv defs rcv h hc
  obtain ⟨wr, k3, a3, d3⟩ := range_list_inv0 _ _ _ h3 c3 a2
  obtain ⟨s4, h4, c4, h, hc⟩ := seq_inv defs rcv h hc
  obtain ⟨hcur, k4, a4, _⟩ := expect_cleanC (by decide) h4 c4 a3
  obtain ⟨s5, h5, _, h6, _⟩ := seq_inv defs rcv h hc
  have e5 := same_finishNode h5
  have e6 := same_retB h6
  refine ⟨TokenKind.LBrace :: (wr ++ [TokenKind.RBrace]), ?_, by rw [e6.after, e5.after]; exact a4, fun _ _ => ?_⟩
  · rw [← e1.kinds, k2, k3, k4, e6.kinds, e5.kinds]; simp
  · rcases d3 with he | d3
    · rw [he] at hcur; cases hcur
    · exact Derives.nt (Derives.altL (Derives.nt (d_tokSeq (List.mem_singleton.mpr rfl) (Derives.seq d3 (d_tok1 _)))))

theorem field_suffix_invJ (C : RunCtx) {n : Nat} {s s' : PState} (h : exec defs rcv n (call .field_suffix) s = .ok s')
    (hc : Clean s s') : VConvJ C s s' (.nt .ValueSuffix_) := by
  have h := call_inv defs rcv (lift_fuel h 40)
  simp only [defs, seqs] at h
  obtain ⟨s1, h1, _, h, hc⟩ := seq_inv defs rcv h hc
  have e1 := same_startNode h1
  obtain ⟨s2, h2, _, h, hc⟩ := seq_inv defs rcv h hc
  obtain ⟨k2, a2⟩ := assertTok_clean (by decide) h2
  obtain ⟨s3, h3, c3, h, hc⟩ := seq_inv defs rcv h hc
  obtain ⟨k3, a3⟩ := ident_clean h3 c3
  obtain ⟨s5, h5, _, h6, _⟩ := seq_inv defs rcv h hc
  have e5 := same_finishNode h5
  have e6 := same_retB h6
  refine ⟨[TokenKind.Dot, TokenKind.Id], ?_, by rw [e6.after, e5.after]; exact a3, fun _ _ => d_fieldSuffix⟩
  rw [← e1.kinds, k2, k3, e6.kinds, e5.kinds]; rfl

/-- `Value`, `Value ... Value`, `Value - Value`, `Value Integer` -/
theorem slice_element_invJ (C : RunCtx) (L : Nat) (hV : ValHJ C L) (n : Nat) (a b : PState) (hl : a.kinds.length < L)
    (hi : C.I a) (h : exec defs rcv n (call .slice_element) a = .ok b) (hc : Clean a b) :
    ∃ w, a.kinds = w ++ b.kinds ∧ b.afterError = false ∧ (C.J b → QV0 (.nt .SliceElement_) w) := by
  have h := call_inv defs rcv (lift_fuel h 40)
  simp only [defs, seqs] at h
  obtain ⟨s1, h1, _, h, hc⟩ := seq_inv defs rcv h hc
  have i1 := C.hI _ _ _ _ hi h1
  have e1 := same_startNode h1
  obtain ⟨s2, h2, c2, h, hc⟩ := seq_inv defs rcv h hc
  have i2 := C.hI _ _ _ _ i1 h2
  have b2 := C.hJ _ _ _ _ i2 h
  obtain ⟨w1, k2, a2, d2⟩ := hV _ _ _ (by rw [e1.kinds]; exact hl) i1 h2 c2
  obtain ⟨s3, h3, c3, h, hc⟩ := seq_inv defs rcv h hc
  have i3 := C.hI _ _ _ _ i2 h3
  have b3 := C.hJ _ _ _ _ i3 h
  obtain ⟨s4, h4, _, h5, _⟩ := seq_inv defs rcv h hc
  have e4 := same_finishNode h4
  have e5 := same_retB h5
  have kk : b.kinds = s3.kinds := by rw [e5.kinds, e4.kinds]
  have aa : b.afterError = s3.afterError := by rw [e5.after, e4.after]
  rcases ifAt_inv defs rcv h3 with ⟨hat, h3⟩ | ⟨_, h3⟩
  · obtain ⟨s6, h6, c6, h7, c7⟩ := seq_inv defs rcv h3 c3
    have hcur : s2.cur = .DotDotDot ∨ s2.cur = .Minus := by simpa using hat
    have l2 : s2.kinds.length ≤ a.kinds.length := by
      have : a.kinds = w1 ++ s2.kinds := by rw [← e1.kinds]; exact k2
      exact kinds_len_le this
    rcases hcur with hcur | hcur
    · obtain ⟨k6, _, _⟩ := eat_cleanN hcur (by decide) h6
      have l6 : s6.kinds.length < L := by
        have : s2.kinds = [TokenKind.DotDotDot] ++ s6.kinds := k6
        exact Nat.lt_trans (kinds_len_lt this (by simp)) (Nat.lt_of_le_of_lt l2 hl)
      obtain ⟨w2, k7, a7, d7⟩ := hV _ _ _ l6 (C.hI _ _ _ _ i2 h6) h7 c7
      refine ⟨w1 ++ TokenKind.DotDotDot :: w2, by rw [← e1.kinds, k2, k6, k7, kk]; simp, by rw [aa]; exact a7, ?_⟩
      intro j hs
      have hs2 : VShape0 w2 := (hs.right (u := w1)).tail
      exact Derives.nt (Derives.altR (Derives.altL (Derives.seq (d2 (b2 j) hs.left)
        (d_tokSeq (List.mem_singleton.mpr rfl) (d7 (b3 j) hs2)))))
    · obtain ⟨k6, _, _⟩ := eat_cleanN hcur (by decide) h6
      have l6 : s6.kinds.length < L := by
        have : s2.kinds = [TokenKind.Minus] ++ s6.kinds := k6
        exact Nat.lt_trans (kinds_len_lt this (by simp)) (Nat.lt_of_le_of_lt l2 hl)
      obtain ⟨w2, k7, a7, d7⟩ := hV _ _ _ l6 (C.hI _ _ _ _ i2 h6) h7 c7
      refine ⟨w1 ++ TokenKind.Minus :: w2, by rw [← e1.kinds, k2, k6, k7, kk]; simp, by rw [aa]; exact a7, ?_⟩
      intro j hs
      have hs2 : VShape0 w2 := (hs.right (u := w1)).tail
      exact Derives.nt (Derives.altR (Derives.altR (Derives.altL (Derives.seq (d2 (b2 j) hs.left)
        (d_tokSeq (List.mem_singleton.mpr rfl) (d7 (b3 j) hs2))))))
  · rcases ifAt_inv defs rcv h3 with ⟨hat, h3⟩ | ⟨_, h3⟩
    · obtain ⟨t1, g1, _, g, gc⟩ := seq_inv defs rcv h3 c3
      have f1 := same_startNode g1
      obtain ⟨t2, g2, _, g, gc⟩ := seq_inv defs rcv g gc
      have f2 := same_startNode g2
      obtain ⟨t3, g3, gc3, g, gc⟩ := seq_inv defs rcv g gc
      have hcur : t2.cur = .IntVal ∨ t2.cur = .BinaryIntVal := by
        left; rw [f2.cur, f1.cur]; simpa using hat
      obtain ⟨wi, ki, ai, _⟩ := integer_armJ C g3 gc3 hcur
      have hcur' : t2.cur = .IntVal := by rw [f2.cur, f1.cur]; simpa using hat
      obtain ⟨t4, g4, _, g5, _⟩ := seq_inv defs rcv g gc
      have f4 := same_finishNode g4
      have f5 := same_finishNode g5
      -- `integer` at `IntVal` ate exactly that
      have h3' := call_inv defs rcv (lift_fuel g3 20)
      simp only [defs, seqs, ifEatIf] at h3'
      obtain ⟨hk, _, _, _⟩ := leaf2_inv (by decide) (by decide) h3' gc3 hcur
      rw [hcur'] at hk
      refine ⟨w1 ++ [TokenKind.IntVal], ?_, by rw [aa, f5.after, f4.after]; exact ai, ?_⟩
      · rw [← e1.kinds, k2, ← f1.kinds, ← f2.kinds, hk, kk, f5.kinds, f4.kinds]; simp
      · intro j hs
        exact Derives.nt (Derives.altR (Derives.altR (Derives.altR (Derives.seq (d2 (b2 j) hs.left) (d_integer false)))))
    · have e3 := same_nop h3
      refine ⟨w1, by rw [← e1.kinds, k2, kk, e3.kinds], by rw [aa, e3.after]; exact a2, ?_⟩
      intro j hs
      exact Derives.nt (Derives.altL (d2 (b2 j) hs))


end C04L
end Tg
