/-
Identifier values in the template-argument values of parent class references (`class C : B<x>`,
`def d : B<x>`): the site is reached when the lookup of the class name `B` succeeds, i.e. from states in
which `B` is a known class (`HasClass B`).  `ClsRel B`: a known class stays known (kept by every function
of the indexer); `VisitsP P m site`: `Visits` from the states that satisfy `P`.
-/
import TgModel.Lemmas.Ix11Runs
namespace Tg
namespace Ide
open Index

namespace Ix11
open Ix10

/-! ### a known class stays known -/

def HasClass (name : String) (c : IndexCtx) : Prop := (c.symbolMap.findClass name).isSome = true

def ClsRel (name : String) (c c' : IndexCtx) : Prop := HasClass name c → HasClass name c'

@[simp] theorem pushFileSymbol_nameToClass (sm : SymMap) (f : Nat) (s : SymbolId) :
    (sm.pushFileSymbol f s).nameToClass = sm.nameToClass := by
  unfold SymMap.pushFileSymbol
  split <;> rfl

theorem SmStep.hasClass {sm sm' : SymMap} (h : SmStep sm sm') (name : String)
    (hc : (sm.findClass name).isSome = true) : (sm'.findClass name).isSome = true := by
  unfold SymMap.findClass at hc ⊢
  cases h with
  | addRecord r g =>
    unfold SymMap.addRecord
    cases r.kind <;> cases g <;>
      simp only [SymMap.logDefine, pushFileSymbol_nameToClass, Bool.false_eq_true, if_false, if_true] <;>
      first
        | exact hc
        | (rw [Std.HashMap.getElem?_insert]; split
           · rfl
           · exact hc)
  | addVariable v => simpa [SymMap.addVariable, SymMap.logDefine] using hc
  | addDefm d g => unfold SymMap.addDefm; cases g <;> simpa [SymMap.logDefine] using hc
  | _ =>
    simpa [SymMap.addAnonymousDef, SymMap.addMulticlassDef, SymMap.registerDefsetName,
      SymMap.addTemplateArgument, SymMap.addRecordField, SymMap.addDefset,
      SymMap.addMulticlass, SymMap.addAnonymousDefm, SymMap.addReference, SymMap.logDefine] using hc

instance (name : String) : StdRel (ClsRel name) where
  refl := fun _ h => h
  trans := fun h1 h2 h => h2 (h1 h)
  of_eq := fun c c' _ hsm _ h => by unfold HasClass at h ⊢; rw [hsm]; exact h
  sm := fun c sm' hs h => SmStep.hasClass hs name h

instance (name : String) : NoScopeRel (ClsRel name) where
  scopes := fun _ _ _ h => h

instance (name : String) : VarRel (ClsRel name) where
  addVariable := fun v => by
    unfold scopesAddVariable
    keeps
    refine Keeps.modifyGet _ fun c => ?_
    split <;> exact fun h => h

theorem mkRec_cls (name : String) (k : Nat) :
    (∀ n, Keeps (ClsRel name) ((mkRec k).value n)) ∧ (∀ n, Keeps (ClsRel name) ((mkRec k).typ n)) ∧
    (∀ n, Keeps (ClsRel name) ((mkRec k).statementList n)) ∧ (∀ n, Keeps (ClsRel name) ((mkRec k).sourceFile n)) :=
  mkRec_keeps k

/-! ### `Visits` from the states that satisfy a precondition -/

def VisitsP {α β : Type} (P : IndexCtx → Prop) (m : IxM α) (site : IxM β) : Prop :=
  ∀ c a c', P c → m.run c = .ok (a, c') → ∃ cs b cs', PreR c cs ∧ site.run cs = .ok (b, cs') ∧ LaterRel cs' c'

theorem VisitsP.of_visits {α β : Type} {P : IndexCtx → Prop} {m : IxM α} {site : IxM β} (h : Visits m site) :
    VisitsP P m site := fun c a c' _ hr => h c a c' hr

theorem VisitsP.bind_first {α β γ : Type} {P : IndexCtx → Prop} {m : IxM α} {f : α → IxM γ} {site : IxM β}
    (hin : VisitsP P m site) (hf : ∀ a, Keeps LaterRel (f a)) : VisitsP P (m >>= f) site := by
  intro c a c' hP h
  obtain ⟨x, c1, h1, h2⟩ := IxM.run_bind_ok h
  obtain ⟨cs, b, cs', p, hs, l⟩ := hin c x c1 hP h1
  exact ⟨cs, b, cs', p, hs, SmLater.trans l ((hf x).run _ _ _ h2)⟩

theorem VisitsP.bind_second {α β γ : Type} {P : IndexCtx → Prop} {m : IxM α} {f : α → IxM γ} {site : IxM β}
    (Q : α → IndexCtx → Prop) (hm : Keeps PreR m) (hres : ∀ c a c1, P c → m.run c = .ok (a, c1) → Q a c1)
    (hin : ∀ a, VisitsP (Q a) (f a) site) : VisitsP P (m >>= f) site := by
  intro c a c' hP h
  obtain ⟨x, c1, h1, h2⟩ := IxM.run_bind_ok h
  obtain ⟨cs, b, cs', p, hs, l⟩ := hin x c1 a c' (hres _ _ _ hP h1) h2
  exact ⟨cs, b, cs', KeepRel.trans (hm.run _ _ _ h1) p, hs, l⟩

theorem VisitsP.of_false {α β : Type} {P : IndexCtx → Prop} {m : IxM α} {site : IxM β} (h : ∀ c, ¬ P c) :
    VisitsP P m site := fun c _ _ hP _ => absurd hP (h c)

/-- a step that keeps the class known -/
theorem VisitsP.bind_cls {α β γ : Type} {B : String} {m : IxM α} {f : α → IxM γ} {site : IxM β}
    (hm : Keeps PreR m) (hs : Keeps (ClsRel B) m) (hin : ∀ a, VisitsP (HasClass B) (f a) site) :
    VisitsP (HasClass B) (m >>= f) site :=
  VisitsP.bind_second (fun _ c => HasClass B c) hm (fun _ _ _ hP h => hs.run _ _ _ h hP) hin

theorem VisitsP.bind_cls' {α β γ : Type} {B : String} {m : IxM α} {f : α → IxM γ} {site : IxM β} (R : α → Prop)
    (hm : Keeps PreR m) (hs : Keeps (ClsRel B) m) (hres : ∀ c a c1, m.run c = .ok (a, c1) → R a)
    (hin : ∀ a, R a → VisitsP (HasClass B) (f a) site) : VisitsP (HasClass B) (m >>= f) site :=
  VisitsP.bind_second (fun a c => R a ∧ HasClass B c) hm (fun _ _ _ hP h => ⟨hres _ _ _ h, hs.run _ _ _ h hP⟩)
    fun a => fun c x c' hQ h => hin a hQ.1 c x c' hQ.2 h

/-! ### the path -/

theorem Visits.mapM {α γ β : Type} (f : α → IxM γ) (pre : List α) (x : α) (post : List α) {site : IxM β}
    (hp : ∀ y, Keeps PreR (f y)) (hl : ∀ y, Keeps LaterRel (f y)) (hin : Visits (f x) site) :
    Visits ((pre ++ x :: post).mapM f) site := by
  induction pre with
  | nil =>
    simp only [List.nil_append, List.mapM_cons]
    exact Visits.bind_first hin fun b => Keeps.bind (Keeps.mapM post f hl) fun _ => Keeps.pure _
  | cons y pre ih =>
    simp only [List.cons_append, List.mapM_cons]
    exact Visits.bind_second (hp y) fun b => Visits.bind_first ih fun _ => Keeps.pure _

section path
variable (k : Nat)

/-- static description of a positional template-argument value that is the identifier `id` -/
structure ArgUse (av id : PTree) : Prop where
  kind : av.kind = .PositionalArgValue
  value : ∃ v, Ast.positionalArgValueValue av = some v ∧ identValueNode v = some id

theorem argValue_visits (av id : PTree) (hu : ArgUse av id) :
    Visits (indexArgValue (mkRec k) av) (indexIdentifierValue id) := by
  obtain ⟨v, hv, hidv⟩ := hu.value
  unfold indexArgValue
  simp only [hu.kind, hv]
  exact Visits.bind_first (value_visits k v id hidv) (fun a => by cases a <;> exact Keeps.pure _)

/-- static description of a class reference `B<…, id, …>` -/
structure ClassRefUse (B : String) (cref id : PTree) : Prop where
  name : ∃ nn se, Ast.classRefName cref = some nn ∧ Ast.identifierValue nn = some B ∧ Ast.identifierRange nn = some se
  args : ∃ l apre av apost, Ast.classRefArgValueList cref = some l ∧
    Ast.argValueListArgValues l = apre ++ av :: apost ∧ ArgUse av id

theorem withSM_run' {α : Type} (f : SymMap → α) (c : IndexCtx) : (withSM f).run c = .ok (f c.symbolMap, c) := rfl

theorem classRef_visits (B : String) (cref id : PTree) (hu : ClassRefUse B cref id) :
    VisitsP (HasClass B) (resolveClassRefAsClass (mkRec k) cref) (indexIdentifierValue id) := by
  obtain ⟨nn, se, hnn, hiv, hir⟩ := hu.name
  obtain ⟨l, apre, av, apost, hl, hargs, hav⟩ := hu.args
  obtain ⟨lv, lt, lsl, lsf⟩ := mkRec_later k
  unfold resolveClassRefAsClass
  simp only [hnn]
  refine VisitsP.bind_cls' (fun a => ∃ f, a = some (B, ⟨f, se.1, se.2⟩))
    (by pre_prim (utilsIdentifier_keeps _)) (utilsIdentifier_keeps _) (utilsIdentifier_some nn B se hiv hir) ?_
  rintro _ ⟨f, rfl⟩
  simp only
  refine VisitsP.bind_second (fun a _ => a.isSome = true) (by pre_prim (withSM_keeps _)) ?_ ?_
  · intro c a c1 hP h
    rw [withSM_run'] at h
    cases h
    exact hP
  intro o
  cases o with
  | none => exact VisitsP.of_false (fun c h => by cases h)
  | some cid =>
    refine VisitsP.of_visits ?_
    simp only
    refine Visits.bind_second (by pre_prim (addReference_keeps _ _)) fun _ => ?_
    refine Visits.bind_second (by pre_prim (withSM_keeps _)) fun _ => ?_
    refine Visits.bind_second (Ix10.preR_of_pass k fun R _ _ _ hv ht _ _ => Index.templateArgsOf_keeps hv ht _) fun targs => ?_
    simp only [hl]
    refine Visits.bind_first ?_ (fun avs => Keeps.bind (Index.checkTemplateArgs_keeps lv lt _ _ _) fun _ => Keeps.pure _)
    unfold indexArgValueList
    rw [hargs]
    exact Visits.mapM _ apre av apost
      (fun y => Ix10.preR_of_pass k fun R _ _ _ hv ht _ _ => Index.indexArgValue_keeps hv ht y)
      (fun y => Index.indexArgValue_keeps lv lt y) (argValue_visits k av id hav)

/-- the class is known and the current scope belongs to a record -/
def InRecord (B : String) (c : IndexCtx) : Prop := HasClass B c ∧ c.scopes.currentRecordId.isSome = true

theorem parentClassList_visits (B : String) (pcl cref : PTree) (cpost : List PTree) (id : PTree)
    (hcl : Ast.parentClassListClasses pcl = cref :: cpost) (hu : ClassRefUse B cref id) :
    VisitsP (InRecord B) (indexParentClassList (mkRec k) pcl) (indexIdentifierValue id) := by
  obtain ⟨lv, lt, lsl, lsf⟩ := mkRec_later k
  unfold indexParentClassList
  refine VisitsP.bind_second (fun a c => a.isSome = true ∧ HasClass B c) (by pre_prim currentRecordId_keeps) ?_ ?_
  · intro c a c1 hP h
    unfold currentRecordId at h
    simp only [StateT.run_bind, IxM.run_get, Except.ok_bind, StateT.run_pure] at h
    cases h
    exact ⟨hP.2, hP.1⟩
  intro o
  cases o with
  | none => exact VisitsP.of_false (fun c h => by cases h.1)
  | some rid =>
    simp only [hcl, List.forIn_cons]
    refine VisitsP.bind_first (VisitsP.bind_first (VisitsP.bind_first ?_ ?_) ?_) (fun _ => Keeps.pure _)
    · exact fun c a c' hP h => classRef_visits k B cref id hu c a c' hP.2 h
    · intro o
      keeps
    · intro x
      cases x with
      | done b => exact Keeps.pure _
      | yield b => exact Keeps.forIn _ _ _ (fun y _ => by keeps)

/-- static description: the first parent class reference of the record body is a `ClassRefUse` -/
structure ParentUse (B : String) (rb id : PTree) : Prop where
  parents : ∃ pcl cref cpost, Ast.recordBodyParentClassList rb = some pcl ∧
    Ast.parentClassListClasses pcl = cref :: cpost ∧ ClassRefUse B cref id

theorem recordBody_parent_visits (B : String) (rb id : PTree) (hu : ParentUse B rb id) :
    VisitsP (InRecord B) (indexRecordBody (mkRec k) rb) (indexIdentifierValue id) := by
  obtain ⟨pcl, cref, cpost, hp, hcl, hcr⟩ := hu.parents
  obtain ⟨lv, lt, lsl, lsf⟩ := mkRec_later k
  unfold indexRecordBody
  simp only [hp]
  refine VisitsP.bind_first (parentClassList_visits k B pcl cref cpost id hcl hcr) fun _ => ?_
  split
  · exact Index.indexBody_keeps lv lt _
  · exact Keeps.pure _

theorem push_record_inRecord (B : String) (rid : Nat) (c : IndexCtx) (u : Unit) (c1 : IndexCtx) (hP : HasClass B c)
    (h : (scopesPush (.record rid)).run c = .ok (u, c1)) : InRecord B c1 := by
  unfold scopesPush at h
  rw [IxM.run_modify] at h
  cases h
  exact ⟨hP, by simp [Scopes.currentRecordId, Scopes.push, Scope.recordId]⟩

/-- static description of `class C : B<…, id, …> …` (`C` without template arguments of its own) -/
structure ClassParentSite (B : String) (n id : PTree) : Prop where
  kind : n.kind = .Class
  name : ∃ nameNode name se, Ast.className n = some nameNode ∧ Ast.identifierValue nameNode = some name ∧
    Ast.identifierRange nameNode = some se
  noArgs : Ast.classTemplateArgList n = none
  body : ∃ rb, Ast.classRecordBody n = some rb ∧ ParentUse B rb id

theorem class_parent_visits (B : String) (n id : PTree) (hu : ClassParentSite B n id) :
    VisitsP (HasClass B) (indexClass (mkRec k) n) (indexIdentifierValue id) := by
  obtain ⟨nameNode, name, se, h1, h2, h3⟩ := hu.name
  obtain ⟨rb, hrb, hbu⟩ := hu.body
  unfold indexClass
  simp only [h1, hrb, hu.noArgs]
  refine VisitsP.bind_cls' (fun a => ∃ f, a = some (name, ⟨f, se.1, se.2⟩))
    (by pre_prim (utilsIdentifier_keeps _)) (utilsIdentifier_keeps _) (utilsIdentifier_some nameNode name se h2 h3) ?_
  rintro _ ⟨f, rfl⟩
  simp only
  refine VisitsP.bind_cls (by pre_prim (addRecord_keeps _ _ ⟨rfl, rfl⟩)) (addRecord_keeps _ _ ⟨rfl, rfl⟩) fun rid => ?_
  refine VisitsP.bind_second (fun _ c => InRecord B c) (scopesPush_preR _ (fun _ _ h => nomatch h))
    (fun c a c1 hP h => push_record_inRecord B rid c a c1 hP h) fun _ => ?_
  exact VisitsP.bind_first (recordBody_parent_visits k B rb id hbu) (fun _ => scopesPop_keeps)

/-- static description of `def d : B<…, id, …> …` -/
structure DefParentSite (B : String) (n id : PTree) : Prop where
  kind : n.kind = .Def
  name : DefNameOK n
  body : ∃ rb, Ast.defRecordBody n = some rb ∧ ParentUse B rb id

theorem def_parent_visits (B : String) (n id : PTree) (hu : DefParentSite B n id) :
    VisitsP (HasClass B) (indexDef (mkRec k) n) (indexIdentifierValue id) := by
  obtain ⟨rb, hrb, hbu⟩ := hu.body
  have htail : ∀ rid : Nat, VisitsP (HasClass B) (do
      scopesPush (.record rid)
      indexRecordBody (mkRec k) rb
      scopesPop : IxM Unit) (indexIdentifierValue id) := fun rid =>
    VisitsP.bind_second (fun _ c => InRecord B c) (scopesPush_preR _ (fun _ _ h => nomatch h))
      (fun c a c1 hP h => push_record_inRecord B rid c a c1 hP h) fun _ =>
      VisitsP.bind_first (recordBody_parent_visits k B rb id hbu) (fun _ => scopesPop_keeps)
  unfold indexDef
  simp only [hrb]
  obtain ⟨cv, ct, _, _⟩ := mkRec_cls B k
  refine VisitsP.bind_cls (Ix10.preR_of_pass k fun R _ _ _ hv ht _ _ => Index.defDefset_keeps hv ht)
    (Index.defDefset_keeps cv ct) fun ds => ?_
  rcases hu.name with hnone | ⟨nameValue, inner, sv, name, se, h1, h2, h3, h4, h5, h6⟩
  · simp only [hnone, pure_bind]
    refine VisitsP.bind_cls (by pre_prim nextAnonymousDefName_keeps) nextAnonymousDefName_keeps fun nm => ?_
    refine VisitsP.bind_cls (by pre_prim currentFileId_keeps) currentFileId_keeps fun f => ?_
    refine VisitsP.bind_cls (by pre_prim (addAnonymousDef_keeps _ ⟨rfl, rfl⟩)) (addAnonymousDef_keeps _ ⟨rfl, rfl⟩) fun rid => ?_
    exact htail rid
  · simp only [h1]
    refine VisitsP.bind_cls' (fun a => ∃ f, a = some (name, ⟨f, se.1, se.2⟩))
      (Ix10.preR_of_pass k fun R _ _ _ hv ht _ _ => Index.indexNameValue_keeps hv ht _)
      (Index.indexNameValue_keeps cv ct _) ?_ ?_
    · intro c a c1 h
      unfold indexNameValue at h
      simp only [h2, h3, h4, beq_self_eq_true, if_true] at h
      exact utilsIdentifier_some sv name se h5 h6 c a c1 h
    rintro _ ⟨f, rfl⟩
    simp only
    refine VisitsP.bind_cls (by pre_prim currentMulticlassId_keeps) currentMulticlassId_keeps fun m => ?_
    split
    · refine VisitsP.bind_cls (by pre_prim (addMulticlassDef_keeps _ ⟨rfl, rfl⟩)) (addMulticlassDef_keeps _ ⟨rfl, rfl⟩) fun rid => ?_
      cases ds with
      | none => exact htail rid
      | some dsid =>
        exact VisitsP.bind_cls (by pre_prim (defsetMut_keeps _ _ (fun _ => ⟨rfl, rfl⟩)))
          (defsetMut_keeps _ _ (fun _ => ⟨rfl, rfl⟩)) fun _ => htail rid
    · refine VisitsP.bind_cls (by pre_prim (addRecord_keeps _ _ ⟨rfl, rfl⟩)) (addRecord_keeps _ _ ⟨rfl, rfl⟩) fun rid => ?_
      cases ds with
      | none => exact htail rid
      | some dsid =>
        exact VisitsP.bind_cls (by pre_prim (defsetMut_keeps _ _ (fun _ => ⟨rfl, rfl⟩)))
          (defsetMut_keeps _ _ (fun _ => ⟨rfl, rfl⟩)) fun _ => htail rid

/-- a statement whose parent class reference `B<…, id, …>` executes the identifier site when `B` is known -/
inductive ParentSite (B : String) (s id : PTree) : Prop
  | cls (h : ClassParentSite B s id)
  | def_ (h : DefParentSite B s id)

theorem statement_parent_visits (B : String) (s id : PTree) (hu : ParentSite B s id) :
    VisitsP (HasClass B) (indexStatement (mkRec k) s) (indexIdentifierValue id) := by
  unfold indexStatement
  rcases hu with h | h
  · simp only [h.kind]; exact class_parent_visits k B s id h
  · simp only [h.kind]; exact def_parent_visits k B s id h

/-- static description of a statement `class B …` -/
structure DeclaresClass (B : String) (d : PTree) : Prop where
  kind : d.kind = .Class
  name : ∃ nameNode se, Ast.className d = some nameNode ∧ Ast.identifierValue nameNode = some B ∧
    Ast.identifierRange nameNode = some se

/-- after `class B …` has been indexed, `B` is a known class -/
theorem class_declares (B : String) (d : PTree) (hd : DeclaresClass B d) (c c' : IndexCtx) (u : Unit)
    (h : (indexStatement (mkRec k) d).run c = .ok (u, c')) : HasClass B c' := by
  obtain ⟨nameNode, se, h1, h2, h3⟩ := hd.name
  obtain ⟨hv, ht, hsl, hsf⟩ := mkRec_cls B k
  unfold indexStatement at h
  simp only [hd.kind] at h
  unfold indexClass at h
  simp only [h1] at h
  obtain ⟨a, c0, h0, h⟩ := IxM.run_bind_ok h
  obtain ⟨f, rfl⟩ := utilsIdentifier_some nameNode B se h2 h3 c a c0 h0
  simp only at h
  obtain ⟨rid, c2, hadd, h⟩ := IxM.run_bind_ok h
  have hc2 : HasClass B c2 := by
    unfold addRecord modifySM at hadd
    rw [IxM.run_modifyGet] at hadd
    cases hadd
    simp [HasClass, SymMap.findClass, SymMap.addRecord, SymMap.logDefine]
  have hk : ClsRel B c2 c' := by
    revert h
    generalize c2 = x
    intro h
    have : Keeps (ClsRel B) (do
        scopesPush (.record rid)
        if let some list := Ast.classTemplateArgList d then
          indexTemplateArgList (mkRec k) list
        if let some recordBody := Ast.classRecordBody d then
          indexRecordBody (mkRec k) recordBody
        scopesPop : IxM Unit) := by keeps
    exact this.run _ _ _ h
  exact hk hc2


end path

end Ix11
end Ide
end Tg
