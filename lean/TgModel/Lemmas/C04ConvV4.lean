/-
C04 converse for values (part 4): the compound simple values — bits, lists, dags, class values, bang
operators, `!cond`.
-/
import TgModel.Lemmas.C04ConvV3

namespace Tg
namespace C04L
open Prog Grammar Frag Doc

local notation "rcv" => Tables.recoverTokens

/-- `value` as the item of a delimited list -/
theorem value_item (L : Nat) (hV : ValH L) (n : Nat) (a b : PState) (hl : a.kinds.length < L)
    (h : exec defs rcv n (call .value) a = .ok b) (hc : Clean a b) :
    ∃ w, a.kinds = w ++ b.kinds ∧ b.afterError = false ∧ QV (.nt .Value_) w :=
  hV n a b hl h hc

/-! ### bits and lists -/

theorem bits_arm (L : Nat) (hV : ValH L) {n : Nat} {s s' : PState} (hl : s.kinds.length ≤ L) (hcur : s.cur = .LBrace)
    (h : exec defs rcv n (call .bits) s = .ok s') (hc : Clean s s') : VConv s s' (.nt .SimpleValue_) := by
  have h := call_inv defs rcv (lift_fuel h 40)
  simp only [defs, valueList, seqs] at h
  obtain ⟨s1, h1, _, h, hc⟩ := seq_inv defs rcv h hc
  have e1 := same_startNode h1
  obtain ⟨s2, h2, c2, h, hc⟩ := seq_inv defs rcv h hc
  obtain ⟨t1, g1, _, g, gc⟩ := seq_inv defs rcv h2 c2
  have f1 := same_startNode g1
  obtain ⟨t2, g2, gc2, g3, _⟩ := seq_inv defs rcv g gc
  have f3 := same_finishNode g3
  obtain ⟨ws, b, kd, ad, _, sl⟩ := delim_inv L .LBrace .RBrace _ _ (by decide) (by decide) (value_item L hV) _ _ _
    (by rw [f1.kinds, e1.kinds]; exact hl) (Or.inl (by rw [f1.cur, e1.cur]; exact hcur)) g2 gc2
  obtain ⟨s3, h3, _, h4, _⟩ := seq_inv defs rcv h hc
  have e3 := same_finishNode h3
  have e4 := same_retB h4
  refine ⟨TokenKind.LBrace :: (ws ++ [TokenKind.RBrace]), ?_, by rw [e4.after, e3.after, f3.after]; exact ad, ?_⟩
  · rw [← e1.kinds, ← f1.kinds, kd, e4.kinds, e3.kinds, f3.kinds]; simp
  · intro hs
    have d := delim_derives (bra := .LBrace) (ket := .RBrace) (x := []) (by decide) (by decide) sl (by simpa using hs)
    exact sv5 (Derives.nt (d_tokSeq (List.mem_singleton.mpr rfl) (Derives.seq (Derives.nt d) (d_tok1 _))))

theorem list_arm (L : Nat) (hV : ValH L) {n : Nat} {s s' : PState} (hl : s.kinds.length ≤ L) (hcur : s.cur = .LSquare)
    (h : exec defs rcv n (call .list_) s = .ok s') (hc : Clean s s') : VConv s s' (.nt .SimpleValue_) := by
  have h := call_inv defs rcv (lift_fuel h 40)
  simp only [defs, valueList, seqs, ifEatIf] at h
  obtain ⟨s1, h1, _, h, hc⟩ := seq_inv defs rcv h hc
  have e1 := same_startNode h1
  obtain ⟨s2, h2, c2, h, hc⟩ := seq_inv defs rcv h hc
  obtain ⟨t1, g1, _, g, gc⟩ := seq_inv defs rcv h2 c2
  have f1 := same_startNode g1
  obtain ⟨t2, g2, gc2, g3, _⟩ := seq_inv defs rcv g gc
  have f3 := same_finishNode g3
  obtain ⟨ws, b, kd, ad, _, sl⟩ := delim_inv L .LSquare .RSquare _ _ (by decide) (by decide) (value_item L hV) _ _ _
    (by rw [f1.kinds, e1.kinds]; exact hl) (Or.inl (by rw [f1.cur, e1.cur]; exact hcur)) g2 gc2
  have a2 : s2.afterError = false := by rw [f3.after]; exact ad
  obtain ⟨s3, h3, c3, h, hc⟩ := seq_inv defs rcv h hc
  obtain ⟨s4, h4, _, h5, _⟩ := seq_inv defs rcv h hc
  have e4 := same_finishNode h4
  have e5 := same_retB h5
  have kk : s'.kinds = s3.kinds := by rw [e5.kinds, e4.kinds]
  have aa : s'.afterError = s3.afterError := by rw [e5.after, e4.after]
  have k02 : s.kinds = TokenKind.LSquare :: (ws ++ TokenKind.RSquare :: s2.kinds) := by
    rw [← e1.kinds, ← f1.kinds, kd, f3.kinds]
  obtain ⟨s6, h6, c6, h7, c7⟩ := seq_inv defs rcv h3 c3
  rcases eatIf_clean (by decide) h6 with ⟨_, hfl, k6, a6, _⟩ | ⟨_, rfl⟩
  · rcases ifFlag_inv defs rcv h7 with ⟨_, h7⟩ | ⟨hf, _⟩
    · -- a type suffix: not documented
      obtain ⟨s8, h8, c8, h9, c9⟩ := seq_inv defs rcv h7 c7
      obtain ⟨t, k8, a8⟩ := type_inv _ _ _ _ (Nat.le_refl _) h8 c8
      obtain ⟨k9, a9⟩ := expect_clean (by decide) h9 c9 a8
      refine ⟨TokenKind.LSquare :: (ws ++ TokenKind.RSquare :: TokenKind.Less :: (t.render ++ [TokenKind.Greater])),
        ?_, by rw [aa]; exact a9, ?_⟩
      · rw [k02, k6, k8, k9, kk]; simp
      · intro hs
        exact (VShape.not_pat (pat := [TokenKind.RSquare, TokenKind.Less]) (by decide) (by simp)
          (TokenKind.LSquare :: ws) (t.render ++ [TokenKind.Greater]) (by simpa using hs)).elim
    · rw [hfl] at hf; cases hf
  · rcases ifFlag_inv defs rcv h7 with ⟨hf, _⟩ | ⟨_, h7⟩
    · simp at hf
    · have e7 := same_nop h7
      have e7' : s3.kinds = s2.kinds := e7.kinds
      refine ⟨TokenKind.LSquare :: (ws ++ [TokenKind.RSquare]), ?_, by rw [aa, e7.after]; exact a2, ?_⟩
      · rw [k02, kk, e7']; simp
      · intro hs
        have d := delim_derives (bra := .LSquare) (ket := .RSquare) (x := []) (by decide) (by decide) sl
          (by simpa using hs)
        exact sv6 (Derives.nt (d_tokSeq (List.mem_singleton.mpr rfl) (Derives.seq (Derives.nt d) (d_tok1 _))))

/-! ### dags -/

/-- `var_name` on a clean run that answers `true` -/
theorem varname_inv {n : Nat} {s s' : PState}
    (h : exec defs rcv (n+8) (call .var_name) s = .ok s') (hc : Clean s s') (hf : s'.flag = true) :
    s.kinds = TokenKind.VarName :: s'.kinds ∧ s'.afterError = false := by
  have h := call_inv defs rcv h
  simp only [defs, leaf1, seqs, ifEatIf] at h
  obtain ⟨s1, h1, _, h, hc⟩ := seq_inv defs rcv h hc
  have e1 := same_startNode h1
  obtain ⟨s2, h2, _, h, hc⟩ := seq_inv defs rcv h hc
  rcases eatIf_clean (by decide) h2 with ⟨_, hfl, k2, a2, _⟩ | ⟨_, rfl⟩
  · rcases ifFlag_inv defs rcv h with ⟨_, h⟩ | ⟨hfl', _⟩
    · obtain ⟨k3, a3, _⟩ := finRet_inv h hc
      exact ⟨by rw [← e1.kinds, k2, k3], by rw [a3]; exact a2⟩
    · rw [hfl] at hfl'; cases hfl'
  · rcases ifFlag_inv defs rcv h with ⟨hfl, _⟩ | ⟨_, h⟩
    · simp at hfl
    · obtain ⟨_, _, f2⟩ := finRet_inv h hc
      rw [f2] at hf; cases hf

/-- `Value (":" VarName)?` or `VarName` -/
theorem dagarg_inv (L : Nat) (hV : ValH L) (n : Nat) (a b : PState) (hl : a.kinds.length < L)
    (h : exec defs rcv n (call .dagarg) a = .ok b) (hc : Clean a b) :
    ∃ w, a.kinds = w ++ b.kinds ∧ b.afterError = false ∧ QV (.nt .DagArg_) w := by
  have h := call_inv defs rcv (lift_fuel h 40)
  simp only [defs, seqs, ifEatIf] at h
  obtain ⟨s1, h1, _, h, hc⟩ := seq_inv defs rcv h hc
  have e1 := same_startNode h1
  obtain ⟨s2, h2, c2, h, hc⟩ := seq_inv defs rcv h hc
  rcases eatIf_clean (by decide) h2 with ⟨_, hfl, k2, a2, _⟩ | ⟨_, rfl⟩
  · rcases ifFlag_inv defs rcv h with ⟨_, h⟩ | ⟨hf, _⟩
    · obtain ⟨k3, a3, _⟩ := finRet_inv h hc
      exact ⟨[TokenKind.VarName], by rw [← e1.kinds, k2, k3]; rfl, by rw [a3]; exact a2,
        fun _ => Derives.nt (Derives.altR (d_tok1 _))⟩
    · rw [hfl] at hf; cases hf
  · rcases ifFlag_inv defs rcv h with ⟨hf, _⟩ | ⟨_, h⟩
    · simp at hf
    · obtain ⟨s3, h3, c3, h, hc⟩ := seq_inv defs rcv h hc
      obtain ⟨w1, k3, a3, d3⟩ := hV _ ({ s1 with flag := false } : PState) _ (by
        have : ({ s1 with flag := false } : PState).kinds = a.kinds := e1.kinds
        rw [this]; exact hl) h3 c3
      have k3' : s1.kinds = w1 ++ s3.kinds := k3
      obtain ⟨s4, h4, c4, h, hc⟩ := seq_inv defs rcv h hc
      obtain ⟨s5, h5, _, h6, _⟩ := seq_inv defs rcv h hc
      have e5 := same_finishNode h5
      have e6 := same_retB h6
      have kk : b.kinds = s4.kinds := by rw [e6.kinds, e5.kinds]
      have aa : b.afterError = s4.afterError := by rw [e6.after, e5.after]
      obtain ⟨s7, h7, c7, h8, c8⟩ := seq_inv defs rcv h4 c4
      rcases eatIf_clean (by decide) h7 with ⟨_, hfl, k7, a7, _⟩ | ⟨_, rfl⟩
      · rcases ifFlag_inv defs rcv h8 with ⟨_, h8⟩ | ⟨hf, _⟩
        · obtain ⟨h8, f8⟩ := orError_inv h8 c8
          obtain ⟨k8, a8⟩ := varname_inv h8 c8 f8
          refine ⟨w1 ++ [TokenKind.Colon, TokenKind.VarName], ?_, by rw [aa]; exact a8, ?_⟩
          · rw [← e1.kinds, k3', k7, k8, kk]; simp
          · intro hs
            exact Derives.nt (Derives.altL (Derives.seq (d3 hs.left)
              (Derives.optSome (d_tokSeq (List.mem_singleton.mpr rfl) (d_tok1 _)))))
        · rw [hfl] at hf; cases hf
      · rcases ifFlag_inv defs rcv h8 with ⟨hf, _⟩ | ⟨_, h8⟩
        · simp at hf
        · have e8 := same_nop h8
          have e8' : s4.kinds = s3.kinds := e8.kinds
          refine ⟨w1, by rw [← e1.kinds, k3', kk, e8'], by rw [aa, e8.after]; exact a3, ?_⟩
          intro hs
          exact Derives.nt (Derives.altL (d_seq_nil (d3 hs) Derives.optNone))

theorem dag_arm (L : Nat) (hV : ValH L) {n : Nat} {s s' : PState} (hl : s.kinds.length ≤ L) (hcur : s.cur = .LParen)
    (h : exec defs rcv n (call .dag) s = .ok s') (hc : Clean s s') : VConv s s' (.nt .SimpleValue_) := by
  have h := call_inv defs rcv (lift_fuel h 40)
  simp only [defs, seqs, sepLoop] at h
  obtain ⟨s1, h1, _, h, hc⟩ := seq_inv defs rcv h hc
  have e1 := same_startNode h1
  obtain ⟨s2, h2, _, h, hc⟩ := seq_inv defs rcv h hc
  obtain ⟨k2, a2, _⟩ := expect_hit (by decide) (show s1.cur = .LParen by rw [e1.cur]; exact hcur) h2
  have k02 : s.kinds = [TokenKind.LParen] ++ s2.kinds := by rw [← e1.kinds, k2]; rfl
  have l2 : s2.kinds.length < L := Nat.lt_of_lt_of_le (kinds_len_lt k02 (by simp)) hl
  rcases ifAt_inv defs rcv h with ⟨_, h⟩ | ⟨_, h⟩
  · obtain ⟨s3, h3, c3, h, hc⟩ := seq_inv defs rcv h hc
    obtain ⟨w1, k3, a3, d3⟩ := dagarg_inv L hV _ _ _ l2 h3 c3
    obtain ⟨s4, h4, c4, h, hc⟩ := seq_inv defs rcv h hc
    obtain ⟨s5, h5, c5, h, hc⟩ := seq_inv defs rcv h hc
    obtain ⟨s6, h6, _, h7, _⟩ := seq_inv defs rcv h hc
    have e6 := same_finishNode h6
    have e7 := same_retB h7
    have kk : s'.kinds = s5.kinds := by rw [e7.kinds, e6.kinds]
    have aa : s'.afterError = s5.afterError := by rw [e7.after, e6.after]
    rcases ifAt_inv defs rcv h4 with ⟨_, h4⟩ | ⟨_, h4⟩
    · have e4 := same_nop h4
      obtain ⟨k5, a5⟩ := expect_clean (by decide) h5 c5 (by rw [e4.after]; exact a3)
      refine ⟨TokenKind.LParen :: (w1 ++ [TokenKind.RParen]), ?_, by rw [aa]; exact a5, ?_⟩
      · rw [k02, k3, ← e4.kinds, k5, kk]; simp
      · intro hs
        have h1 : VShape w1 := VShape.infix (u := [TokenKind.LParen]) (x := [TokenKind.RParen]) (by simpa using hs)
        exact sv7 (Derives.nt (d_tokSeq (List.mem_singleton.mpr rfl) (Derives.seq (d3 h1)
          (Derives.seq (u := []) Derives.optNone (d_tok1 _)))))
    · -- dagarg_list
      have h4 := call_inv defs rcv h4
      simp only [defs, seqs, sepLoop] at h4
      obtain ⟨t1, g1, _, g, gc⟩ := seq_inv defs rcv h4 c4
      have f1 := same_startNode g1
      obtain ⟨t2, g2, gc2, g, gc⟩ := seq_inv defs rcv g gc
      obtain ⟨t3, g3, _, g4, _⟩ := seq_inv defs rcv g gc
      have f3 := same_finishNode g3
      have f4 := same_retB g4
      have l3 : t1.kinds.length < L := by
        rw [f1.kinds]; exact Nat.lt_of_le_of_lt (kinds_len_le k3) l2
      obtain ⟨w2, b, kl, al, sl, hb1⟩ := sepL_inv L [TokenKind.Eof] _ _ (dagarg_inv L hV) _ _ _ l3 g2 gc2
        (by rw [f1.after]; exact a3)
      obtain ⟨hcur5, k5, a5, _⟩ := expect_cleanC (by decide) h5 c5 (by rw [f4.after, f3.after]; exact al)
      refine ⟨TokenKind.LParen :: (w1 ++ (w2 ++ [TokenKind.RParen])), ?_, by rw [aa]; exact a5, ?_⟩
      · rw [k02, k3, ← f1.kinds, kl, ← f3.kinds, ← f4.kinds, k5, kk]; simp
      · intro hs
        have hin : VShape (w1 ++ w2) := VShape.infix (u := [TokenKind.LParen]) (x := [TokenKind.RParen]) (by simpa using hs)
        cases b with
        | true =>
          have := hb1 rfl
          rw [f4.cur, f3.cur] at hcur5
          rw [hcur5] at this; simp at this
        | false =>
          exact sv7 (Derives.nt (d_tokSeq (List.mem_singleton.mpr rfl) (Derives.seq (d3 hin.left)
            (Derives.seq (Derives.optSome (Derives.nt (sepV_derives sl hin.right))) (d_tok1 _)))))
  · obtain ⟨s3, h3, c3, _, _⟩ := seq_inv defs rcv h hc
    exact (error_inv defs rcv h3 c3).elim

end C04L
end Tg
