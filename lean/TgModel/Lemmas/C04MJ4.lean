/-
C04 converse for statements, values checked by the tree (part 4): statement lists, the statements that
contain statements, `statement`, `multiclass`, `source_file`.  (The lemmas of `C04ConvN5`/`N6`, relative to a
context.)
-/
import TgModel.Lemmas.C04MJ3

namespace Tg
namespace C04L
open Prog Grammar Frag Doc

local notation "rcv" => Tables.recoverTokens

/-- induction hypothesis for an item parser -/
def ItemHJ (C : RunCtx) (V N : List TokenKind → Prop) (item : Prog) (A : E) (L : Nat) : Prop :=
  ∀ (n : Nat) (s s' : PState), s.kinds.length < L → C.I s → exec defs rcv n item s = .ok s' →
    Clean s s' → ∃ w, s.kinds = w ++ s'.kinds ∧ (Shape w → C.J s' → DVN V N A w)

/-- induction hypothesis: the converse for `statement` on every state with fewer than `L` tokens left -/
def StmtHJ (C : RunCtx) (V N : List TokenKind → Prop) (L : Nat) : Prop :=
  ItemHJ C V N (call .statement) (.nt .Statement_) L

section
variable (C : RunCtx) {V N : List TokenKind → Prop}

/-- `while !at(ks) && !eof { item }` -/
theorem while_loopJ (item : Prog) (A : E) (L : Nat) (hItem : ItemHJ C V N item A L)
    (ks : List TokenKind) : ∀ (n : Nat) (s s' : PState), s.kinds.length < L → C.I s →
    exec defs rcv n (whileNotAt ks item) s = .ok s' → Clean s s' →
    ∃ w, s.kinds = w ++ s'.kinds ∧ (Shape w → C.J s' → DVN V N (.star A) w) := by
  intro n
  induction n with
  | zero => intro s s' _ _ h; simp [exec] at h
  | succ n ih =>
    intro s s' hl hi h hc
    simp only [whileNotAt] at h ih
    obtain ⟨s1, h1, c1, hcase⟩ := loop_inv h hc
    have i1 := C.hI _ _ _ _ hi h1
    have h1 := lift_fuel h1 5
    rcases ifAt_inv defs rcv h1 with ⟨_, h1⟩ | ⟨_, h1⟩
    · have e1 := retB_inv defs rcv h1; subst e1
      rcases hcase with ⟨_, rfl⟩ | ⟨hf, _⟩
      · exact ⟨[], rfl, fun _ _ => DVN.starNil⟩
      · simp at hf
    · have e1 := retB_inv defs rcv h1; subst e1
      rcases hcase with ⟨hf, _⟩ | ⟨_, s2, hb, cb, hl2, cl⟩
      · simp at hf
      · obtain ⟨w1, k1, d1⟩ := hItem _ ({ s with flag := true } : PState) _ hl i1 hb cb
        have k1' : s.kinds = w1 ++ s2.kinds := k1
        have i2 := C.hI _ _ _ _ i1 hb
        obtain ⟨w2, k2, d2⟩ := ih _ _ (Nat.lt_of_le_of_lt (kinds_len_le k1') hl) i2 hl2 cl
        exact ⟨w1 ++ w2, by rw [k1', k2]; simp,
          fun hs j => DVN.starCons (d1 hs.left (C.hJ _ _ _ _ i2 hl2 j)) (d2 hs.right j)⟩

theorem blockJ_inv (L : Nat) (hS : StmtHJ C V N L) (n : Nat) (s s' : PState)
    (hl : s.kinds.length ≤ L) (hi : C.I s) (h : exec defs rcv n (call .statement_list_block) s = .ok s')
    (hc : Clean s s') (ha : s.afterError = false) :
    ∃ w, s.kinds = w ++ s'.kinds ∧ (Shape w → C.J s' → DVN V N braceE w) := by
  have h := call_inv defs rcv (lift_fuel h 40)
  simp only [defs, seqs] at h
  obtain ⟨s1, h1, _, h, hc⟩ := seq_inv defs rcv h hc
  have i1 := C.hI _ _ _ _ hi h1
  have e1 := same_startNode h1
  obtain ⟨s2, h2, c2, h, hc⟩ := seq_inv defs rcv h hc
  have i2 := C.hI _ _ _ _ i1 h2
  obtain ⟨k2, _, a2⟩ := skip_inv h2
  obtain ⟨s3, h3, c3, h, hc⟩ := seq_inv defs rcv h hc
  have i3 := C.hI _ _ _ _ i2 h3
  obtain ⟨k3, a3⟩ := expect_clean (by decide) h3 c3 (a2 (by rw [e1.after]; exact ha))
  obtain ⟨s4, h4, c4, h, hc⟩ := seq_inv defs rcv h hc
  have i4 := C.hI _ _ _ _ i3 h4
  have b4 := C.hJ _ _ _ _ i4 h
  have k03 : s.kinds = [TokenKind.LBrace] ++ s3.kinds := by rw [← e1.kinds, ← k2, k3]; rfl
  have l3 : s3.kinds.length < L := Nat.lt_of_lt_of_le (kinds_len_lt k03 (by simp)) hl
  obtain ⟨ws, k4, d4⟩ := while_loopJ C _ _ L hS _ _ _ _ l3 i3 h4 c4
  have a4 := clean_afterError defs rcv h4 c4 a3
  obtain ⟨s5, h5, c5, h, _⟩ := seq_inv defs rcv h hc
  obtain ⟨k5, _⟩ := expect_clean (by decide) h5 c5 a4
  have e6 := same_finishNode h
  refine ⟨TokenKind.LBrace :: (ws ++ [TokenKind.RBrace]), ?_, ?_⟩
  · rw [k03, k4, k5, e6.kinds]; simp
  · intro hs j
    have hw : Shape ws := Shape.infix (u := [TokenKind.LBrace]) (x := [TokenKind.RBrace]) (by simpa using hs)
    exact dg_tokSeq (DVN.seq (d4 hw (b4 j)) (dg_tok1 _))

theorem single_or_blockJ_inv (L : Nat) (hS : StmtHJ C V N L) (n : Nat) (s s' : PState)
    (hl : s.kinds.length < L) (hi : C.I s)
    (h : exec defs rcv n (call .statement_list_single_or_block) s = .ok s') (hc : Clean s s')
    (ha : s.afterError = false) :
    ∃ w, s.kinds = w ++ s'.kinds ∧ (Shape w → C.J s' → DVN V N sobE w) := by
  have h := call_inv defs rcv (lift_fuel h 40)
  simp only [defs, seqs, ifEatIf] at h
  obtain ⟨s1, h1, _, h, hc⟩ := seq_inv defs rcv h hc
  have i1 := C.hI _ _ _ _ hi h1
  have e1 := same_startNode h1
  obtain ⟨s2, h2, c2, h, hc⟩ := seq_inv defs rcv h hc
  have i2 := C.hI _ _ _ _ i1 h2
  obtain ⟨k2, _, a2⟩ := skip_inv h2
  have a2' : s2.afterError = false := a2 (by rw [e1.after]; exact ha)
  have k02 : s2.kinds = s.kinds := by rw [k2, e1.kinds]
  obtain ⟨s3, h3, c3, h, _⟩ := seq_inv defs rcv h hc
  have i3 := C.hI _ _ _ _ i2 h3
  have b3 := C.hJ _ _ _ _ i3 h
  have e9 := same_finishNode h
  obtain ⟨s4, h4, c4, h5, c5⟩ := seq_inv defs rcv h3 c3
  have i4 := C.hI _ _ _ _ i2 h4
  rcases eatIf_clean (by decide) h4 with ⟨_, hfl, k4, a4, _⟩ | ⟨_, rfl⟩
  · rcases ifFlag_inv defs rcv h5 with ⟨_, h5⟩ | ⟨hf, _⟩
    · obtain ⟨s6, h6, c6, h7, c7⟩ := seq_inv defs rcv h5 c5
      have i6 := C.hI _ _ _ _ i4 h6
      have b6 := C.hJ _ _ _ _ i6 h7
      have l4 : s4.kinds.length < L := by
        have : s.kinds = [TokenKind.LBrace] ++ s4.kinds := by rw [← k02, k4]; rfl
        exact Nat.lt_trans (kinds_len_lt this (by simp)) hl
      obtain ⟨ws, k6, d6⟩ := while_loopJ C _ _ L hS _ _ _ _ l4 i4 h6 c6
      have a6 := clean_afterError defs rcv h6 c6 a4
      obtain ⟨k7, _⟩ := expect_clean (by decide) h7 c7 a6
      refine ⟨TokenKind.LBrace :: (ws ++ [TokenKind.RBrace]), ?_, ?_⟩
      · rw [← k02, k4, k6, k7, e9.kinds]; simp
      · intro hs j
        have hw : Shape ws := Shape.infix (u := [TokenKind.LBrace]) (x := [TokenKind.RBrace]) (by simpa using hs)
        exact DVN.altL (dg_tokSeq (DVN.seq (d6 hw (b6 (b3 j))) (dg_tok1 _)))
    · rw [hfl] at hf; cases hf
  · rcases ifFlag_inv defs rcv h5 with ⟨hf, _⟩ | ⟨_, h5⟩
    · simp at hf
    · have l2 : ({ s2 with flag := false } : PState).kinds.length < L := by
        have : ({ s2 with flag := false } : PState).kinds = s.kinds := k02
        rw [this]; exact hl
      obtain ⟨w, k5, d5⟩ := hS _ _ _ l2 i4 h5 c5
      have k5' : s2.kinds = w ++ s3.kinds := k5
      exact ⟨w, by rw [← k02, k5', e9.kinds], fun hs j => DVN.altR (d5 hs (b3 j))⟩

end

/-! ### the statements that contain statements -/

section
variable (C : RunCtx) {V N : List TokenKind → Prop} (hv : ValHook C V) (hnm : NameHook C N)

theorem convJ_defset (L : Nat) (hS : StmtHJ C V N L) (n : Nat) (s s' : PState)
    (hl : s.kinds.length ≤ L) (hi : C.I s) (h : exec defs rcv n (call .defset) s = .ok s') (hc : Clean s s') :
    ∃ w, s.kinds = w ++ s'.kinds ∧ (Shape w → C.J s' → DVN V N (.nt .Defset_) w) := by
  have h := call_inv defs rcv (lift_fuel h 40)
  simp only [defs, seqs] at h
  obtain ⟨s1, h1, _, h, hc⟩ := seq_inv defs rcv h hc
  have i1 := C.hI _ _ _ _ hi h1
  have e1 := same_startNode h1
  obtain ⟨s2, h2, _, h, hc⟩ := seq_inv defs rcv h hc
  have i2 := C.hI _ _ _ _ i1 h2
  obtain ⟨k2, a2⟩ := assertTok_clean (by decide) h2
  obtain ⟨s3, h3, c3, h, hc⟩ := seq_inv defs rcv h hc
  have i3 := C.hI _ _ _ _ i2 h3
  obtain ⟨t, k3, a3⟩ := type_inv _ _ _ _ (Nat.le_refl _) h3 c3
  obtain ⟨s4, h4, c4, h, hc⟩ := seq_inv defs rcv h hc
  have i4 := C.hI _ _ _ _ i3 h4
  obtain ⟨k4, a4⟩ := ident_clean h4 c4
  obtain ⟨s5, h5, c5, h, hc⟩ := seq_inv defs rcv h hc
  have i5 := C.hI _ _ _ _ i4 h5
  obtain ⟨k5, a5⟩ := expect_clean (by decide) h5 c5 a4
  obtain ⟨s6, h6, c6, h, _⟩ := seq_inv defs rcv h hc
  have i6 := C.hI _ _ _ _ i5 h6
  have b6 := C.hJ _ _ _ _ i6 h
  have k05 : s.kinds = (TokenKind.Defset :: (t.render ++ [TokenKind.Id, TokenKind.Equal])) ++ s5.kinds := by
    rw [← e1.kinds, k2, k3, k4, k5]; simp
  have l5 : s5.kinds.length ≤ L := Nat.le_trans (kinds_len_le k05) hl
  obtain ⟨wb, k6, d6⟩ := blockJ_inv C L hS _ _ _ l5 i5 h6 c6 a5
  have e7 := same_finishNode h
  refine ⟨TokenKind.Defset :: (t.render ++ (TokenKind.Id :: TokenKind.Equal :: wb)), ?_, ?_⟩
  · rw [k05, k6, e7.kinds]; simp
  · intro hs j
    have ht : Shape (TokenKind.Defset :: t.render) :=
      Shape.left (u := TokenKind.Defset :: t.render) (v := TokenKind.Id :: TokenKind.Equal :: wb) (by simpa using hs)
    have hb : Shape wb := Shape.right (u := TokenKind.Defset :: (t.render ++ [TokenKind.Id, TokenKind.Equal]))
      (by simpa using hs)
    have db := d6 hb (b6 j)
    unfold braceE at db
    cases db with
    | seq b1 b2 =>
      exact DVN.nt (dg_tokSeq (DVN.seq (DVN.of (ty_doc (by decide) ht)) (dg_idSeq (dg_tokSeq (DVN.seq b1 b2)))))

section
include hv

theorem convJ_let (L : Nat) (hS : StmtHJ C V N L) (n : Nat) (s s' : PState)
    (hl : s.kinds.length ≤ L) (hi : C.I s) (h : exec defs rcv n (call .let_) s = .ok s') (hc : Clean s s') :
    ∃ w, s.kinds = w ++ s'.kinds ∧ (Shape w → C.J s' → DVN V N (.nt .Let_) w) := by
  have h := call_inv defs rcv (lift_fuel h 40)
  simp only [defs, seqs] at h
  obtain ⟨s1, h1, _, h, hc⟩ := seq_inv defs rcv h hc
  have i1 := C.hI _ _ _ _ hi h1
  have e1 := same_startNode h1
  obtain ⟨s2, h2, _, h, hc⟩ := seq_inv defs rcv h hc
  have i2 := C.hI _ _ _ _ i1 h2
  obtain ⟨k2, a2, n2⟩ := assertTok_cleanN (by decide) h2
  obtain ⟨s3, h3, c3, h, hc⟩ := seq_inv defs rcv h hc
  have i3 := C.hI _ _ _ _ i2 h3
  have b3 := C.hJ _ _ _ _ i3 h
  obtain ⟨wl, k3, d3⟩ := let_listJ_inv C (N := N) hv _ _ _ i2 n2 h3 c3 a2
  have a3 := clean_afterError defs rcv h3 c3 a2
  obtain ⟨s4, h4, c4, h, hc⟩ := seq_inv defs rcv h hc
  have i4 := C.hI _ _ _ _ i3 h4
  obtain ⟨hcur, k4, a4, _⟩ := expect_cleanC (by decide) h4 c4 a3
  obtain ⟨s5, h5, c5, h, _⟩ := seq_inv defs rcv h hc
  have i5 := C.hI _ _ _ _ i4 h5
  have b5 := C.hJ _ _ _ _ i5 h
  have k04 : s.kinds = (TokenKind.Let :: (wl ++ [TokenKind.In])) ++ s4.kinds := by
    rw [← e1.kinds, k2, k3, k4]; simp
  have l4 : s4.kinds.length < L := Nat.lt_of_lt_of_le (kinds_len_lt k04 (by simp)) hl
  obtain ⟨wb, k5, d5⟩ := single_or_blockJ_inv C L hS _ _ _ l4 i4 h5 c5 a4
  have e6 := same_finishNode h
  refine ⟨TokenKind.Let :: (wl ++ (TokenKind.In :: wb)), ?_, ?_⟩
  · rw [k04, k5, e6.kinds]; simp
  · intro hs j
    have hb : Shape wb := Shape.right (u := TokenKind.Let :: (wl ++ [TokenKind.In])) (by simpa using hs)
    rcases d3 with he | d3
    · rw [he] at hcur; cases hcur
    · exact DVN.nt (dg_tokSeq (DVN.seq (d3 (b3 j)) (dg_tokSeq (d5 hb (b5 j)))))

theorem convJ_foreach (L : Nat) (hS : StmtHJ C V N L) (n : Nat) (s s' : PState)
    (hl : s.kinds.length ≤ L) (hi : C.I s) (h : exec defs rcv n (call .foreach) s = .ok s') (hc : Clean s s') :
    ∃ w, s.kinds = w ++ s'.kinds ∧ (Shape w → C.J s' → DVN V N (.nt .Foreach_) w) := by
  have h := call_inv defs rcv (lift_fuel h 40)
  simp only [defs, seqs] at h
  obtain ⟨s1, h1, _, h, hc⟩ := seq_inv defs rcv h hc
  have i1 := C.hI _ _ _ _ hi h1
  have e1 := same_startNode h1
  obtain ⟨s2, h2, _, h, hc⟩ := seq_inv defs rcv h hc
  have i2 := C.hI _ _ _ _ i1 h2
  obtain ⟨k2, a2⟩ := assertTok_clean (by decide) h2
  obtain ⟨s3, h3, c3, h, hc⟩ := seq_inv defs rcv h hc
  have i3 := C.hI _ _ _ _ i2 h3
  have b3 := C.hJ _ _ _ _ i3 h
  obtain ⟨wi, k3, d3⟩ := foreach_iteratorJ_inv C (N := N) hv _ _ _ i2 h3 c3
  have a3 := clean_afterError defs rcv h3 c3 a2
  obtain ⟨s4, h4, c4, h, hc⟩ := seq_inv defs rcv h hc
  have i4 := C.hI _ _ _ _ i3 h4
  obtain ⟨k4, a4⟩ := expect_clean (by decide) h4 c4 a3
  obtain ⟨s5, h5, c5, h, _⟩ := seq_inv defs rcv h hc
  have i5 := C.hI _ _ _ _ i4 h5
  have b5 := C.hJ _ _ _ _ i5 h
  have k04 : s.kinds = (TokenKind.Foreach :: (wi ++ [TokenKind.In])) ++ s4.kinds := by
    rw [← e1.kinds, k2, k3, k4]; simp
  have l4 : s4.kinds.length < L := Nat.lt_of_lt_of_le (kinds_len_lt k04 (by simp)) hl
  obtain ⟨wb, k5, d5⟩ := single_or_blockJ_inv C L hS _ _ _ l4 i4 h5 c5 a4
  have e6 := same_finishNode h
  refine ⟨TokenKind.Foreach :: (wi ++ (TokenKind.In :: wb)), ?_, ?_⟩
  · rw [k04, k5, e6.kinds]; simp
  · intro hs j
    have hb : Shape wb := Shape.right (u := TokenKind.Foreach :: (wi ++ [TokenKind.In])) (by simpa using hs)
    exact DVN.nt (dg_tokSeq (DVN.seq (d3 (b3 j)) (dg_tokSeq (d5 hb (b5 j)))))

theorem convJ_if (L : Nat) (hS : StmtHJ C V N L) (n : Nat) (s s' : PState)
    (hl : s.kinds.length ≤ L) (hi : C.I s) (h : exec defs rcv n (call .if_) s = .ok s') (hc : Clean s s') :
    ∃ w, s.kinds = w ++ s'.kinds ∧ (Shape w → C.J s' → DVN V N (.nt .If_) w) := by
  have h := call_inv defs rcv (lift_fuel h 40)
  simp only [defs, seqs, ifEatIf] at h
  obtain ⟨s1, h1, _, h, hc⟩ := seq_inv defs rcv h hc
  have i1 := C.hI _ _ _ _ hi h1
  have e1 := same_startNode h1
  obtain ⟨s2, h2, _, h, hc⟩ := seq_inv defs rcv h hc
  have i2 := C.hI _ _ _ _ i1 h2
  obtain ⟨k2, a2, n2⟩ := assertTok_cleanN (by decide) h2
  obtain ⟨s3, h3, c3, h, hc⟩ := seq_inv defs rcv h hc
  have i3 := C.hI _ _ _ _ i2 h3
  have b3 := C.hJ _ _ _ _ i3 h
  obtain ⟨wv, k3, dv, a3⟩ := valueJ_clean C hv i2 h3 c3 a2 n2
  obtain ⟨s4, h4, c4, h, hc⟩ := seq_inv defs rcv h hc
  have i4 := C.hI _ _ _ _ i3 h4
  obtain ⟨k4, a4⟩ := expect_clean (by decide) h4 c4 a3
  obtain ⟨s5, h5, c5, h, hc⟩ := seq_inv defs rcv h hc
  have i5 := C.hI _ _ _ _ i4 h5
  have b5 := C.hJ _ _ _ _ i5 h
  have k04 : s.kinds = (TokenKind.If :: (wv ++ [TokenKind.Then])) ++ s4.kinds := by
    rw [← e1.kinds, k2, k3, k4]; simp
  have l4 : s4.kinds.length < L := Nat.lt_of_lt_of_le (kinds_len_lt k04 (by simp)) hl
  obtain ⟨wt, k5, d5⟩ := single_or_blockJ_inv C L hS _ _ _ l4 i4 h5 c5 a4
  have a5 := clean_afterError defs rcv h5 c5 a4
  obtain ⟨s6, h6, c6, h, _⟩ := seq_inv defs rcv h hc
  have i6 := C.hI _ _ _ _ i5 h6
  have b6 := C.hJ _ _ _ _ i6 h
  have e9 := same_finishNode h
  obtain ⟨s7, h7, c7, h8, c8⟩ := seq_inv defs rcv h6 c6
  have i7 := C.hI _ _ _ _ i5 h7
  rcases eatIf_clean (by decide) h7 with ⟨_, hfl, k7, a7, _⟩ | ⟨_, rfl⟩
  · rcases ifFlag_inv defs rcv h8 with ⟨_, h8⟩ | ⟨hf, _⟩
    · have l7 : s7.kinds.length < L := by
        have : s4.kinds = (wt ++ [TokenKind.ElseKw]) ++ s7.kinds := by rw [k5, k7]; simp
        exact Nat.lt_of_le_of_lt (kinds_len_le this) l4
      obtain ⟨we, k8, d8⟩ := single_or_blockJ_inv C L hS _ _ _ l7 i7 h8 c8 a7
      refine ⟨TokenKind.If :: (wv ++ (TokenKind.Then :: (wt ++ (TokenKind.ElseKw :: we)))), ?_, ?_⟩
      · rw [k04, k5, k7, k8, e9.kinds]; simp
      · intro hs j
        have h1 : Shape (wt ++ (TokenKind.ElseKw :: we)) :=
          Shape.right (u := TokenKind.If :: (wv ++ [TokenKind.Then])) (by simpa using hs)
        have ht : Shape wt := h1.left
        have he : Shape we := Shape.right (u := wt ++ [TokenKind.ElseKw]) (by simpa using h1)
        exact DVN.nt (dg_tokSeq (DVN.seq (DVN.val (dv (b3 j))) (dg_tokSeq (DVN.seq (d5 ht (b5 j))
          (DVN.optSome (dg_tokSeq (d8 he (b6 j))))))))
    · rw [hfl] at hf; cases hf
  · rcases ifFlag_inv defs rcv h8 with ⟨hf, _⟩ | ⟨_, h8⟩
    · simp at hf
    · have e8 := same_nop h8
      have e8' : s6.kinds = s5.kinds := e8.kinds
      refine ⟨TokenKind.If :: (wv ++ (TokenKind.Then :: wt)), ?_, ?_⟩
      · rw [k04, k5, e9.kinds, e8']; simp
      · intro hs j
        have ht : Shape wt := Shape.right (u := TokenKind.If :: (wv ++ [TokenKind.Then])) (by simpa using hs)
        exact DVN.nt (dg_tokSeq (DVN.seq (DVN.val (dv (b3 j))) (dg_tokSeq (dg_seq_nil (d5 ht (b5 j)) DVN.optNone))))

end

theorem convJ_include (n : Nat) (s s' : PState) (h : exec defs rcv n (call .include) s = .ok s') (hc : Clean s s') :
    ∃ w, s.kinds = w ++ s'.kinds ∧ (Shape w → C.J s' → DVN V N (.nt .Include_) w) := by
  obtain ⟨m, hk, hd⟩ := conv_include n s s' h hc
  refine ⟨_, hk, fun hs _ => ?_⟩
  cases m with
  | zero => exact DVN.of (hd rfl)
  | succ m =>
    exfalso
    refine Shape.not_pat (pat := [TokenKind.StrVal, TokenKind.StrVal]) (by decide) (by simp) [TokenKind.Include]
      (List.replicate m TokenKind.StrVal) ?_
    simpa [List.replicate_succ] using hs

section
include hv hnm

/-- the statement forms that may stand in a multiclass body -/
theorem mc_statementJ_inv (L : Nat) (hS : StmtHJ C V N L) (n : Nat) (s s' : PState)
    (hl : s.kinds.length ≤ L) (hi : C.I s) (h : exec defs rcv n (call .multi_class_statement) s = .ok s')
    (hc : Clean s s') :
    ∃ w, s.kinds = w ++ s'.kinds ∧ (Shape w → C.J s' → DVN V N (.nt .MultiClassStatement_) w) := by
  have h := call_inv defs rcv (lift_fuel h 40)
  simp only [defs, matchPeek, mcStatementArms] at h
  rcases ifAt_inv defs rcv h with ⟨_, h⟩ | ⟨_, h⟩
  · obtain ⟨w, hk, hd⟩ := convJ_assert C (N := N) hv _ s s' hi h hc
    exact ⟨w, hk, fun _ j => DVN.nt (DVN.altR (DVN.altL (hd j)))⟩
  rcases ifAt_inv defs rcv h with ⟨_, h⟩ | ⟨_, h⟩
  · obtain ⟨w, hk, hd⟩ := convJ_def C hv hnm _ s s' hi h hc
    exact ⟨w, hk, fun hs j => DVN.nt (DVN.altR (DVN.altR (DVN.altL (hd hs j))))⟩
  rcases ifAt_inv defs rcv h with ⟨_, h⟩ | ⟨_, h⟩
  · obtain ⟨w, hk, hd⟩ := convJ_defm C hv hnm _ s s' hi h hc
    exact ⟨w, hk, fun _ j => DVN.nt (DVN.altR (DVN.altR (DVN.altR (DVN.altL (hd j)))))⟩
  rcases ifAt_inv defs rcv h with ⟨_, h⟩ | ⟨_, h⟩
  · obtain ⟨w, hk, hd⟩ := convJ_defvar C (N := N) hv _ s s' hi h hc
    exact ⟨w, hk, fun _ j => DVN.nt (DVN.altR (DVN.altR (DVN.altR (DVN.altR (DVN.altL (hd j))))))⟩
  rcases ifAt_inv defs rcv h with ⟨_, h⟩ | ⟨_, h⟩
  · obtain ⟨w, hk, hd⟩ := convJ_dump C (N := N) hv _ s s' hi h hc
    exact ⟨w, hk, fun _ j => DVN.nt (DVN.altR (DVN.altR (DVN.altR (DVN.altR (DVN.altR (DVN.altL (hd j)))))))⟩
  rcases ifAt_inv defs rcv h with ⟨_, h⟩ | ⟨_, h⟩
  · obtain ⟨w, hk, hd⟩ := convJ_foreach C hv L hS _ s s' hl hi h hc
    exact ⟨w, hk, fun hs j =>
      DVN.nt (DVN.altR (DVN.altR (DVN.altR (DVN.altR (DVN.altR (DVN.altR (DVN.altL (hd hs j))))))))⟩
  rcases ifAt_inv defs rcv h with ⟨_, h⟩ | ⟨_, h⟩
  · obtain ⟨w, hk, hd⟩ := convJ_let C hv L hS _ s s' hl hi h hc
    exact ⟨w, hk, fun hs j =>
      DVN.nt (DVN.altR (DVN.altR (DVN.altR (DVN.altR (DVN.altR (DVN.altR (DVN.altR (DVN.altL (hd hs j)))))))))⟩
  rcases ifAt_inv defs rcv h with ⟨_, h⟩ | ⟨_, h⟩
  · obtain ⟨w, hk, hd⟩ := convJ_if C hv L hS _ s s' hl hi h hc
    exact ⟨w, hk, fun hs j =>
      DVN.nt (DVN.altR (DVN.altR (DVN.altR (DVN.altR (DVN.altR (DVN.altR (DVN.altR (DVN.altR (hd hs j)))))))))⟩
  · exact (errorAndEat_inv h hc).elim

theorem convJ_multiclass (L : Nat) (hS : StmtHJ C V N L) (n : Nat) (s s' : PState)
    (hl : s.kinds.length ≤ L) (hi : C.I s) (h : exec defs rcv n (call .multi_class) s = .ok s')
    (hc : Clean s s') :
    ∃ w, s.kinds = w ++ s'.kinds ∧ (Shape w → C.J s' → DVN V N (.nt .MultiClass_) w) := by
  have h := call_inv defs rcv (lift_fuel h 60)
  simp only [defs, seqs] at h
  obtain ⟨s1, h1, _, h, hc⟩ := seq_inv defs rcv h hc
  have i1 := C.hI _ _ _ _ hi h1
  have e1 := same_startNode h1
  obtain ⟨s2, h2, _, h, hc⟩ := seq_inv defs rcv h hc
  have i2 := C.hI _ _ _ _ i1 h2
  obtain ⟨k2, a2⟩ := assertTok_clean (by decide) h2
  obtain ⟨s3, h3, c3, h, hc⟩ := seq_inv defs rcv h hc
  have i3 := C.hI _ _ _ _ i2 h3
  obtain ⟨k3, a3⟩ := ident_clean h3 c3
  obtain ⟨s4, h4, c4, h, hc⟩ := seq_inv defs rcv h hc
  have i4 := C.hI _ _ _ _ i3 h4
  have b4 := C.hJ _ _ _ _ i4 h
  obtain ⟨wT, k4, a4, d4⟩ := convJ_targs C (N := N) hv _ _ _ i3 h4 c4 a3
  obtain ⟨s5, h5, c5, h, hc⟩ := seq_inv defs rcv h hc
  have i5 := C.hI _ _ _ _ i4 h5
  have b5 := C.hJ _ _ _ _ i5 h
  obtain ⟨wP, k5, a5, d5⟩ := convJ_parents C (N := N) hv _ _ _ i4 h5 c5 a4
  obtain ⟨s6, h6, c6, h, hc⟩ := seq_inv defs rcv h hc
  have i6 := C.hI _ _ _ _ i5 h6
  obtain ⟨hcur, k6, a6, _⟩ := expect_cleanC (by decide) h6 c6 a5
  obtain ⟨s7, h7, c7, h, _⟩ := seq_inv defs rcv h hc
  have i7 := C.hI _ _ _ _ i6 h7
  have b7 := C.hJ _ _ _ _ i7 h
  have e8 := same_finishNode h
  have k06 : s.kinds = (TokenKind.MultiClass :: TokenKind.Id :: (wT ++ (wP ++ [TokenKind.LBrace]))) ++ s6.kinds := by
    rw [← e1.kinds, k2, k3, k4, k5, k6]; simp
  have l6 : s6.kinds.length < L := Nat.lt_of_lt_of_le (kinds_len_lt k06 (by simp)) hl
  -- multi_class_statements
  have h7 := call_inv defs rcv h7
  simp only [defs, seqs] at h7
  obtain ⟨t1, g1, _, g, gc⟩ := seq_inv defs rcv h7 c7
  have j1 := C.hI _ _ _ _ i6 g1
  have f1 := same_startNode g1
  obtain ⟨t2, g2, gc2, g, gc⟩ := seq_inv defs rcv g gc
  have j2 := C.hI _ _ _ _ j1 g2
  have bt2 := C.hJ _ _ _ _ j2 g
  have lt1 : t1.kinds.length ≤ L := by rw [f1.kinds]; exact Nat.le_of_lt l6
  have lt1' : t1.kinds.length < L := by rw [f1.kinds]; exact l6
  obtain ⟨w1, m1, dm1⟩ := mc_statementJ_inv C hv hnm L hS _ _ _ lt1 j1 g2 gc2
  obtain ⟨t3, g3, gc3, g, gc⟩ := seq_inv defs rcv g gc
  have j3 := C.hI _ _ _ _ j2 g3
  have bt3 := C.hJ _ _ _ _ j3 g
  have hItem : ItemHJ C V N (call .multi_class_statement) (.nt .MultiClassStatement_) L :=
    fun n a b hla hia hab cab => mc_statementJ_inv C hv hnm L hS n a b (Nat.le_of_lt hla) hia hab cab
  obtain ⟨w2, m2, dm2⟩ := while_loopJ C _ _ L hItem _ _ _ _
    (Nat.lt_of_le_of_lt (kinds_len_le m1) lt1') j2 g3 gc3
  have b1 := clean_afterError defs rcv g2 gc2 (by rw [f1.after]; exact a6)
  have b2 := clean_afterError defs rcv g3 gc3 b1
  obtain ⟨t4, g4, gc4, g, _⟩ := seq_inv defs rcv g gc
  obtain ⟨m4, _⟩ := expect_clean (by decide) g4 gc4 b2
  have f5 := same_finishNode g
  refine ⟨TokenKind.MultiClass :: TokenKind.Id :: (wT ++ (wP ++ (TokenKind.LBrace :: (w1 ++ (w2 ++ [TokenKind.RBrace]))))),
    ?_, ?_⟩
  · rw [k06, ← f1.kinds, m1, m2, m4, e8.kinds, f5.kinds]; simp
  · intro hs j
    have hbody : Shape (w1 ++ (w2 ++ [TokenKind.RBrace])) :=
      Shape.right (u := TokenKind.MultiClass :: TokenKind.Id :: (wT ++ (wP ++ [TokenKind.LBrace]))) (by simpa using hs)
    have hw1 : Shape w1 := hbody.left
    have hw2 : Shape w2 := (hbody.right).left
    have j7 := b7 j
    have jt3 := bt3 j7
    rcases d5 with he | d5
    · rw [he] at hcur; cases hcur
    rcases d4 with rfl | d4
    · exact (Shape.not_pat (pat := [TokenKind.MultiClass, TokenKind.Id, TokenKind.Less, TokenKind.Greater])
        (by decide) (by simp) [] _ (by simpa using hs)).elim
    · have hT : Shape wT := Shape.infix (u := [TokenKind.MultiClass, TokenKind.Id])
        (x := wP ++ (TokenKind.LBrace :: (w1 ++ (w2 ++ [TokenKind.RBrace])))) (by simpa using hs)
      exact DVN.nt (dg_tokSeq (dg_idSeq (DVN.seq (d4 hT (b4 j)) (DVN.seq (d5 (b5 j)) (dg_tokSeq
        (dg_cast (DVN.seq (DVN.plus (dm1 hw1 (bt2 j7)) (dm2 hw2 jt3)) (dg_tok1 _)) (by simp)))))))

/-! ### `statement` -/

theorem statement_stepJ (L : Nat) (hS : StmtHJ C V N L) : StmtHJ C V N (L + 1) := by
  intro n s s' hl hi h hc
  have hl : s.kinds.length ≤ L := Nat.le_of_lt_succ hl
  have h := call_inv defs rcv (lift_fuel h 40)
  simp only [defs, matchPeek, statementArms] at h
  rcases ifAt_inv defs rcv h with ⟨_, h⟩ | ⟨_, h⟩
  · obtain ⟨w, hk, hd⟩ := convJ_include C (V := V) (N := N) _ s s' h hc
    exact ⟨w, hk, fun hs j => DVN.nt (DVN.altL (hd hs j))⟩
  rcases ifAt_inv defs rcv h with ⟨_, h⟩ | ⟨_, h⟩
  · obtain ⟨w, hk, hd⟩ := convJ_assert C (N := N) hv _ s s' hi h hc
    exact ⟨w, hk, fun _ j => DVN.nt (DVN.altR (DVN.altL (hd j)))⟩
  rcases ifAt_inv defs rcv h with ⟨_, h⟩ | ⟨_, h⟩
  · obtain ⟨w, hk, hd⟩ := convJ_class C (N := N) hv _ s s' hi h hc
    exact ⟨w, hk, fun hs j => DVN.nt (DVN.altR (DVN.altR (DVN.altL (hd hs j))))⟩
  rcases ifAt_inv defs rcv h with ⟨_, h⟩ | ⟨_, h⟩
  · obtain ⟨w, hk, hd⟩ := convJ_def C hv hnm _ s s' hi h hc
    exact ⟨w, hk, fun hs j => DVN.nt (DVN.altR (DVN.altR (DVN.altR (DVN.altL (hd hs j)))))⟩
  rcases ifAt_inv defs rcv h with ⟨_, h⟩ | ⟨_, h⟩
  · obtain ⟨w, hk, hd⟩ := convJ_defm C hv hnm _ s s' hi h hc
    exact ⟨w, hk, fun _ j => DVN.nt (DVN.altR (DVN.altR (DVN.altR (DVN.altR (DVN.altL (hd j))))))⟩
  rcases ifAt_inv defs rcv h with ⟨_, h⟩ | ⟨_, h⟩
  · obtain ⟨w, hk, hd⟩ := convJ_defset C L hS _ s s' hl hi h hc
    exact ⟨w, hk, fun hs j => DVN.nt (DVN.altR (DVN.altR (DVN.altR (DVN.altR (DVN.altR (DVN.altL (hd hs j)))))))⟩
  rcases ifAt_inv defs rcv h with ⟨_, h⟩ | ⟨_, h⟩
  · obtain ⟨w, hk, hd⟩ := convJ_defvar C (N := N) hv _ s s' hi h hc
    exact ⟨w, hk, fun _ j =>
      DVN.nt (DVN.altR (DVN.altR (DVN.altR (DVN.altR (DVN.altR (DVN.altR (DVN.altL (hd j))))))))⟩
  rcases ifAt_inv defs rcv h with ⟨_, h⟩ | ⟨_, h⟩
  · obtain ⟨w, hk, hd⟩ := convJ_dump C (N := N) hv _ s s' hi h hc
    exact ⟨w, hk, fun _ j =>
      DVN.nt (DVN.altR (DVN.altR (DVN.altR (DVN.altR (DVN.altR (DVN.altR (DVN.altR (DVN.altL (hd j)))))))))⟩
  rcases ifAt_inv defs rcv h with ⟨_, h⟩ | ⟨_, h⟩
  · obtain ⟨w, hk, hd⟩ := convJ_foreach C hv L hS _ s s' hl hi h hc
    exact ⟨w, hk, fun hs j =>
      DVN.nt (DVN.altR (DVN.altR (DVN.altR (DVN.altR (DVN.altR (DVN.altR (DVN.altR (DVN.altR (DVN.altL (hd hs j))))))))))⟩
  rcases ifAt_inv defs rcv h with ⟨_, h⟩ | ⟨_, h⟩
  · obtain ⟨w, hk, hd⟩ := convJ_if C hv L hS _ s s' hl hi h hc
    exact ⟨w, hk, fun hs j => DVN.nt (DVN.altR (DVN.altR (DVN.altR (DVN.altR (DVN.altR (DVN.altR (DVN.altR (DVN.altR
      (DVN.altR (DVN.altL (hd hs j)))))))))))⟩
  rcases ifAt_inv defs rcv h with ⟨_, h⟩ | ⟨_, h⟩
  · obtain ⟨w, hk, hd⟩ := convJ_let C hv L hS _ s s' hl hi h hc
    exact ⟨w, hk, fun hs j => DVN.nt (DVN.altR (DVN.altR (DVN.altR (DVN.altR (DVN.altR (DVN.altR (DVN.altR (DVN.altR
      (DVN.altR (DVN.altR (DVN.altL (hd hs j))))))))))))⟩
  rcases ifAt_inv defs rcv h with ⟨_, h⟩ | ⟨_, h⟩
  · obtain ⟨w, hk, hd⟩ := convJ_multiclass C hv hnm L hS _ s s' hl hi h hc
    exact ⟨w, hk, fun hs j => DVN.nt (DVN.altR (DVN.altR (DVN.altR (DVN.altR (DVN.altR (DVN.altR (DVN.altR (DVN.altR
      (DVN.altR (DVN.altR (DVN.altR (hd hs j))))))))))))⟩
  · exact (errorAndEat_inv h hc).elim

theorem stmtHJ_all : ∀ L, StmtHJ C V N L
  | 0 => fun _ _ _ hl => (Nat.not_lt_zero _ hl).elim
  | L + 1 => statement_stepJ C hv hnm L (stmtHJ_all L)

/-! ### the top -/

theorem source_fileJ_inv (n : Nat) (s s' : PState) (hi : C.I s)
    (h : exec defs rcv n (call .source_file) s = .ok s') (hc : Clean s s') :
    s'.kinds = [] ∧ (Shape s.kinds → C.J s' → DVN V N (.nt .SourceFile_) s.kinds) := by
  have h := call_inv defs rcv (lift_fuel h 40)
  simp only [defs, seqs] at h
  obtain ⟨s1, h1, _, h, hc⟩ := seq_inv defs rcv h hc
  have i1 := C.hI _ _ _ _ hi h1
  have e1 := same_startNode h1
  obtain ⟨s2, h2, c2, h, hc⟩ := seq_inv defs rcv h hc
  have i2 := C.hI _ _ _ _ i1 h2
  have b2 := C.hJ _ _ _ _ i2 h
  -- statement_list_top
  have h2 := call_inv defs rcv h2
  simp only [defs, seqs] at h2
  obtain ⟨t1, g1, _, g, gc⟩ := seq_inv defs rcv h2 c2
  have j1 := C.hI _ _ _ _ i1 g1
  have f1 := same_startNode g1
  obtain ⟨t2, g2, gc2, g, gc⟩ := seq_inv defs rcv g gc
  have j2 := C.hI _ _ _ _ j1 g2
  obtain ⟨m2, _, _⟩ := skip_inv g2
  obtain ⟨t3, g3, gc3, g, _⟩ := seq_inv defs rcv g gc
  have j3 := C.hI _ _ _ _ j2 g3
  have bt3 := C.hJ _ _ _ _ j3 g
  obtain ⟨w, m3, d3⟩ := while_loopJ C _ _ (t2.kinds.length + 1) (stmtHJ_all C hv hnm _) _ _ _ _
    (Nat.lt_succ_self _) j2 g3 gc3
  have f4 := same_finishNode g
  -- at the end of the input
  obtain ⟨s3, h3, c3, h, _⟩ := seq_inv defs rcv h hc
  have e4 := same_finishNode h
  have hend : s2.cur = .Eof ∧ s3.kinds = s2.kinds := by
    rcases ifAt_inv defs rcv h3 with ⟨hat, h3⟩ | ⟨_, h3⟩
    · exact ⟨by simpa using hat, (same_nop h3).kinds⟩
    · exact (error_inv defs rcv h3 c3).elim
  have k2 : s2.kinds = [] := kinds_eof hend.1
  have kk : s.kinds = w := by
    rw [← e1.kinds, ← f1.kinds, ← m2, m3, ← f4.kinds, k2, List.append_nil]
  refine ⟨by rw [e4.kinds, hend.2, k2], fun hs j => ?_⟩
  rw [kk] at hs ⊢
  exact DVN.nt (DVN.nt (d3 hs (bt3 (b2 j))))

end
end

end C04L
end Tg
