/-
A parse tree has at most as many `Include` nodes as the input has characters.

Every `Include` node is opened by the grammar function `include`, which eats the (non-empty)
keyword right after `start_node` (`assert!(eat_if(Include))`); no other function opens one
(`defs_noInc`, kernel evaluation).  So the number of `Include` nodes built so far plus the number of
characters not yet consumed never exceeds the length of the input.
-/
import TgModel.Lemmas.IdShape
import TgModel.Lemmas.ProgressBound

namespace Tg
open Progress (mu mu_eat_le mu_skip_le mu_finishNode mu_startNodeAt eat_good)

mutual
/-- number of `Include` nodes of a green tree -/
def Tree.incs : Tree → Nat
  | .token _ _ => 0
  | .node k cs => (if k = .Include then 1 else 0) + incsL cs
def incsL : List Tree → Nat
  | [] => 0
  | c :: cs => c.incs + incsL cs
end

@[simp] theorem incsL_nil : incsL [] = 0 := by simp [incsL]
@[simp] theorem incsL_cons (c : Tree) (cs : List Tree) : incsL (c :: cs) = c.incs + incsL cs := by simp [incsL]
@[simp] theorem Tree.incs_token (k : SyntaxKind) (t : List Char) : (Tree.token k t).incs = 0 := by simp [Tree.incs]
@[simp] theorem Tree.incs_node (k : SyntaxKind) (cs : List Tree) :
    (Tree.node k cs).incs = (if k = .Include then 1 else 0) + incsL cs := by simp [Tree.incs]

theorem incsL_append (a b : List Tree) : incsL (a ++ b) = incsL a + incsL b := by
  induction a with
  | nil => simp
  | cons x xs ih => simp [ih, Nat.add_assoc]

theorem incsL_reverse (a : List Tree) : incsL a.reverse = incsL a := by
  induction a with
  | nil => simp
  | cons x xs ih => simp [incsL_append, ih, Nat.add_comm]

theorem incsL_tokens {l : List Tree} (h : ∀ t ∈ l, isTokenTree t = true) : incsL l = 0 := by
  induction l with
  | nil => simp
  | cons x xs ih =>
    have hx := h x (by simp)
    cases x with
    | token => simp [ih (fun t ht => h t (by simp [ht]))]
    | node => simp [isTokenTree] at hx

/-- `Include` nodes in the open frames (an open `Include` frame counts) -/
def parentsIncs : List (SyntaxKind × List Tree) → Nat
  | [] => 0
  | (k, sibs) :: ps => (if k = .Include then 1 else 0) + incsL sibs + parentsIncs ps

def builderIncs (b : Builder) : Nat := incsL b.cur + parentsIncs b.parents

/-- `Include` nodes built or open, plus characters not yet consumed, fit into the input -/
def IncInv (input : List Char) (s : PState) : Prop := builderIncs s.b + mu s ≤ input.length

namespace IncInv
variable {input : List Char} {s s' : PState}

theorem of_same (h : IncInv input s) (hb : s'.b = s.b) (hm : mu s' ≤ mu s) : IncInv input s' := by
  unfold IncInv at *; rw [hb]; omega

theorem pushed (h : IncInv input s) (hp : s'.b.parents = s.b.parents) {tr : List Tree} (hc : s'.b.cur = tr ++ s.b.cur)
    (htr : ∀ t ∈ tr, isTokenTree t = true) (hm : mu s' ≤ mu s) : IncInv input s' := by
  unfold IncInv builderIncs at *
  rw [hp, hc, incsL_append, incsL_tokens htr]
  omega

theorem eat (hi : Inv input s) (h : IncInv input s) (he : s.eat = .ok s') : IncInv input s' := by
  obtain ⟨_, h2, _, ⟨tr, h4, h5⟩, _⟩ := PState.eat_spec he
  refine h.pushed h2 (tr := tr ++ [Tree.token s.cur.toSyntax s.curText]) (by rw [h4]; simp) ?_ (mu_eat_le hi he)
  intro t ht
  simp only [List.mem_append, List.mem_singleton] at ht
  rcases ht with ht | rfl
  · exact h5 t ht
  · rfl

theorem skip (hi : Inv input s) (h : IncInv input s) (he : PState.skip s.skipFuel s = .ok s') : IncInv input s' := by
  obtain ⟨_, h2, _, ⟨tr, h4, h5⟩, _⟩ := PState.skip_spec _ _ _ he
  exact h.pushed h2 h4 h5 (mu_skip_le hi he)

theorem startNode (h : IncInv input s) {k : SyntaxKind} (hk : k ≠ .Include) : IncInv input (s.startNode k) := by
  unfold IncInv builderIncs at *
  simp only [PState.startNode, parentsIncs, incsL_nil, hk, if_false]
  have : mu (s.startNode k) = mu s := rfl
  simp only [PState.startNode] at this
  omega

theorem finishNode (h : IncInv input s) (hf : s.finishNode = .ok s') : IncInv input s' := by
  have hm := mu_finishNode hf
  unfold PState.finishNode at hf
  split at hf
  · cases hf
  · rename_i k sibs ps hps
    simp only [Res.ok.injEq] at hf
    subst hf
    unfold IncInv builderIncs at *
    rw [hps] at h
    simp only [parentsIncs] at h
    simp only [incsL_cons, Tree.incs_node, incsL_reverse]
    have : mu { s with b := { cur := Tree.node k s.b.cur.reverse :: sibs, parents := ps } } = mu s := rfl
    omega

theorem startNodeAt (h : IncInv input s) {k : SyntaxKind} (hk : k ≠ .Include) {cp : Nat × Nat}
    (hs : s.startNodeAt cp k = .ok s') : IncInv input s' := by
  have hm := mu_startNodeAt hs
  unfold PState.startNodeAt at hs
  split at hs
  · cases hs
  · split at hs
    · cases hs
    · simp only [Res.ok.injEq] at hs
      subst hs
      unfold IncInv builderIncs at *
      simp only [parentsIncs, hk, if_false]
      have := incsL_append (s.b.cur.take (s.b.cur.length - cp.2)) (s.b.cur.drop (s.b.cur.length - cp.2))
      rw [List.take_append_drop] at this
      omega

theorem error (h : IncInv input s) (msg : String) : IncInv input (s.error msg) := h.of_same rfl (Nat.le_refl _)

theorem errorNode (hi : Inv input s) (h : IncInv input s) (msg : String) {s1 s2 : PState}
    (he : ((s.error msg).startNode .Error).eat = .ok s1) (hf : s1.finishNode = .ok s2) : IncInv input s2 :=
  (((h.error msg).startNode (k := .Error) (by decide)).eat
    (PState.inv_startNode (PState.inv_error hi msg) .Error) he).finishNode hf

end IncInv

/-- the program opens no `Include` node itself -/
def noIncStart : Prog → Bool
  | .startNode k => k != .Include
  | .startNodeAtCp k => k != .Include
  | .seq a b => noIncStart a && noIncStart b
  | .ifAt _ t e => noIncStart t && noIncStart e
  | .ifFlag t e => noIncStart t && noIncStart e
  | .ifLocal t e => noIncStart t && noIncStart e
  | .loop c b => noIncStart c && noIncStart b
  | _ => true

/-- only `include` opens `Include` nodes (kernel evaluation) -/
theorem defs_noInc : ∀ f ∈ Fn.all, f = .include ∨ noIncStart (Grammar.defs f) = true := by decide +kernel

/-- what follows the keyword in `include` -/
def includeRest : Prog := .seq (Grammar.orError (.call .string_) "expected filename after include") .finishNode

theorem defs_include : Grammar.defs .include =
    .seq (.startNode .Include) (.seq (.assertTok .Include) includeRest) := rfl

theorem includeRest_noInc : noIncStart includeRest = true := by decide

section
variable {rc : List TokenKind}

theorem incInv_exec (input : List Char) :
    ∀ (fuel : Nat) (p : Prog) (s s' : PState), noIncStart p = true → Inv input s → IncInv input s →
      exec Grammar.defs rc fuel p s = .ok s' → IncInv input s' := by
  intro fuel
  induction fuel using Nat.strongRecOn with
  | _ fuel ih =>
    intro p s s' hc hinv hi hx
    cases fuel with
    | zero => simp [exec] at hx
    | succ n =>
      have ihn : ∀ (p : Prog) (s s' : PState), noIncStart p = true → Inv input s → IncInv input s →
          exec Grammar.defs rc n p s = .ok s' → IncInv input s' := fun p s s' => ih n (Nat.lt_succ_self n) p s s'
      have inv' : ∀ (p : Prog) (s s' : PState), Inv input s → exec Grammar.defs rc n p s = .ok s' → Inv input s' :=
        fun p s s' => inv_exec Grammar.defs rc input n p s s'
      cases p with
      | nop => simp only [exec, Res.ok.injEq] at hx; subst hx; exact hi
      | startNode k =>
        simp only [exec, Res.ok.injEq] at hx; subst hx
        exact hi.startNode (by simpa [noIncStart] using hc)
      | finishNode => simp only [exec] at hx; exact hi.finishNode hx
      | pushCp => simp only [exec, Res.ok.injEq] at hx; subst hx; exact hi.of_same rfl (Nat.le_refl _)
      | popCp => simp only [exec, Res.ok.injEq] at hx; subst hx; exact hi.of_same rfl (Nat.le_refl _)
      | startNodeAtCp k =>
        simp only [exec] at hx
        split at hx
        · exact hi.startNodeAt (by simpa [noIncStart] using hc) hx
        · cases hx
      | eat => simp only [exec] at hx; exact hi.eat hinv hx
      | skip => simp only [exec] at hx; exact hi.skip hinv hx
      | eatIf k =>
        simp only [exec] at hx
        split at hx
        · split at hx
          · rename_i s1 he
            simp only [Res.ok.injEq] at hx; subst hx
            exact (hi.eat hinv he).of_same rfl (Nat.le_refl _)
          · rename_i hne; first | exact (hne _ hx).elim | cases hx
        · simp only [Res.ok.injEq] at hx; subst hx
          exact hi.of_same rfl (Nat.le_refl _)
      | expect k msg =>
        simp only [exec] at hx
        split at hx
        · exact hi.eat hinv hx
        · split at hx
          · simp only [Res.ok.injEq] at hx; subst hx; exact hi
          · simp only [Res.ok.injEq] at hx; subst hx; exact hi.error _
      | assertTok k =>
        simp only [exec] at hx
        split at hx
        · exact hi.eat hinv hx
        · cases hx
      | error msg => simp only [exec, Res.ok.injEq] at hx; subst hx; exact hi.error _
      | errorAndEat msg =>
        simp only [exec] at hx
        split at hx
        · rename_i s1 he
          exact hi.errorNode hinv msg he hx
        · rename_i hne; first | exact (hne _ hx).elim | cases hx
      | errorAndRecover msg =>
        simp only [exec] at hx
        split at hx
        · split at hx
          · rename_i s2 he
            exact hi.errorNode hinv msg he hx
          · rename_i hne; first | exact (hne _ hx).elim | cases hx
        · simp only [Res.ok.injEq] at hx; subst hx; exact hi.error _
      | retB b => simp only [exec, Res.ok.injEq] at hx; subst hx; exact hi.of_same rfl (Nat.le_refl _)
      | seq a b =>
        simp only [exec] at hx
        simp only [noIncStart, Bool.and_eq_true] at hc
        split at hx
        · rename_i s1 h1
          exact ihn b s1 s' hc.2 (inv' a s s1 hinv h1) (ihn a s s1 hc.1 hinv hi h1) hx
        · rename_i hne; first | exact (hne _ hx).elim | cases hx
      | ifAt ks t e =>
        simp only [exec] at hx
        simp only [noIncStart, Bool.and_eq_true] at hc
        split at hx
        · exact ihn t s s' hc.1 hinv hi hx
        · exact ihn e s s' hc.2 hinv hi hx
      | ifFlag t e =>
        simp only [exec] at hx
        simp only [noIncStart, Bool.and_eq_true] at hc
        split at hx
        · exact ihn t s s' hc.1 hinv hi hx
        · exact ihn e s s' hc.2 hinv hi hx
      | ifLocal t e =>
        simp only [exec] at hx
        simp only [noIncStart, Bool.and_eq_true] at hc
        split at hx
        · exact ihn t s s' hc.1 hinv hi hx
        · exact ihn e s s' hc.2 hinv hi hx
      | loop c b =>
        simp only [exec] at hx
        have hc' := hc
        simp only [noIncStart, Bool.and_eq_true] at hc
        split at hx
        · rename_i s1 h1
          have i1 := ihn c s s1 hc.1 hinv hi h1
          have v1 := inv' c s s1 hinv h1
          split at hx
          · split at hx
            · rename_i s2 h2
              exact ihn (.loop c b) s2 s' hc' (inv' b s1 s2 v1 h2) (ihn b s1 s2 hc.2 v1 i1 h2) hx
            · rename_i hne; first | exact (hne _ hx).elim | cases hx
          · simp only [Res.ok.injEq] at hx; subst hx; exact i1
        · rename_i hne; first | exact (hne _ hx).elim | cases hx
      | call f =>
        simp only [exec] at hx
        rcases defs_noInc f (Fn.mem_all f) with rfl | hf
        · -- `include`: the node is opened, and the keyword is eaten at once
          rw [defs_include] at hx
          obtain ⟨n1, s1, hn1, h1, hx⟩ := exec_seq hx
          have hs1 := exec_startNode h1
          subst hs1
          obtain ⟨n2, s2, hn2, h2, hx⟩ := exec_seq hx
          cases n2 with
          | zero => simp [exec] at h2
          | succ m =>
            simp only [exec] at h2
            split at h2
            · rename_i hcur
              have hinv1 : Inv input (s.startNode .Include) := PState.inv_startNode hinv .Include
              obtain ⟨s2', he', _, hm, _⟩ := eat_good (s.startNode .Include) hinv1
              rw [h2] at he'
              cases he'
              have hne : (s.startNode .Include).curText ≠ [] := hinv1.ne (by
                have : (s.startNode .Include).cur = .Include := by simpa using hcur
                rw [this]; decide)
              have hpos : 0 < (s.startNode .Include).curText.length := List.length_pos_iff.mpr hne
              have hi2 : IncInv input s2 := by
                obtain ⟨_, hp, _, ⟨tr, hcc, htr⟩, _⟩ := PState.eat_spec h2
                unfold IncInv builderIncs at hi ⊢
                rw [hp, hcc, incsL_append, incsL_tokens htr]
                simp only [PState.startNode, parentsIncs, incsL_cons, Tree.incs_token, incsL_nil, if_true]
                have hmu : mu (s.startNode .Include) = mu s := rfl
                omega
              exact ih (m + 1) (by omega) includeRest s2 s' includeRest_noInc
                (inv_exec Grammar.defs rc input (m + 1) (.assertTok .Include) _ s2 hinv1
                  (by simp only [exec, hcur, if_true]; exact h2)) hi2 hx
            · cases h2
        · exact ihn _ s s' hf hinv hi hx
      | pushLocal => simp only [exec, Res.ok.injEq] at hx; subst hx; exact hi.of_same rfl (Nat.le_refl _)
      | popLocal => simp only [exec, Res.ok.injEq] at hx; subst hx; exact hi.of_same rfl (Nat.le_refl _)
      | setLocal => simp only [exec, Res.ok.injEq] at hx; subst hx; exact hi.of_same rfl (Nat.le_refl _)

/-- the trees a run of `source_file` builds have at most `input.length` `Include` nodes -/
theorem source_file_incs (input : List Char) {fuel : Nat} {s : PState}
    (hx : exec Grammar.defs rc fuel (.call .source_file) (PState.init input) = .ok s) :
    incsL s.b.cur ≤ input.length := by
  have hi0 : IncInv input (PState.init input) := by
    have h := (PState.inv_init input).text
    have := congrArg List.length h
    simp only [List.length_append] at this
    unfold IncInv builderIncs mu
    have hb : (PState.init input).b = {} := by simp [PState.init]
    rw [hb]
    simp only [incsL_nil, parentsIncs]
    omega
  cases fuel with
  | zero => simp [exec] at hx
  | succ n =>
    simp only [exec] at hx
    have hsf : noIncStart (Grammar.defs .source_file) = true := by
      rcases defs_noInc .source_file (Fn.mem_all _) with h | h
      · cases h
      · exact h
    have := incInv_exec input n _ _ _ hsf (PState.inv_init input) hi0 hx
    unfold IncInv builderIncs at this
    omega

end

end Tg
