/-
Linearity of the indexer's traversal, part 4: every function of `Index.lean` registers only inside
the node it is handed (or in newly indexed files) and never re-registers a location after a
reference to it (`VSpec`); the knot `mkRec_vis`; `index_noReuse`.
-/
import TgModel.Lemmas.IdeOnceBang

namespace Tg
namespace Ide
open Tg.SymbolMap (Op Loc)

variable {ws0 : Workspace}

/-! ### what an accessor returned -/

/-- `c` is a child node of `n` whose kind satisfies `p` -/
structure Got (n : PTree) (p : SyntaxKind → Bool) (c : PTree) : Prop where
  sub : Sub n c
  kind : p c.kind = true

theorem Got.child {n c : PTree} {p : SyntaxKind → Bool} (h : Ast.child n p = some c) : Got n p c :=
  ⟨Ast.child_sub h, Ast.child_kind h⟩
theorem Got.nth {n c : PTree} {p : SyntaxKind → Bool} {i : Nat} (h : Ast.nthChild n p i = some c) : Got n p c :=
  ⟨Ast.nthChild_sub h, Ast.nthChild_kind h⟩
theorem Got.mem {n c : PTree} {p : SyntaxKind → Bool} (h : c ∈ Ast.children n p) : Got n p c :=
  ⟨Ast.children_sub h, Ast.children_kind h⟩
theorem Got.head {n c : PTree} {p : SyntaxKind → Bool} (h : (Ast.children n p).head? = some c) : Got n p c :=
  Got.mem (List.mem_of_head? h)

theorem Got.isKind {n c : PTree} {K : SyntaxKind} (g : Got n (Ast.is K) c) : c.kind = K := by
  simpa [Ast.is] using g.kind

theorem Got.ok {n c : PTree} {p : SyntaxKind → Bool} (g : Got n p c) (hn : NodeOK n) : NodeOK c := hn.sub g.sub
theorem Got.inside {n c : PTree} {p : SyntaxKind → Bool} (g : Got n p c) (hn : NodeOK n) : Inside n c :=
  hn.inside_sub g.sub
theorem Got.dj {n a b : PTree} {p q : SyntaxKind → Bool} (ga : Got n p a) (gb : Got n q b) (hn : NodeOK n)
    (hpq : ∀ k, p k = true → q k = true → False) : Dj a b :=
  dj_of_preds hn ga.sub gb.sub ga.kind gb.kind hpq

theorem Ast.is_is {A B : SyntaxKind} (h : A ≠ B) : ∀ k, Ast.is A k = true → Ast.is B k = true → False := by
  intro k h1 h2
  simp only [Ast.is, beq_iff_eq] at h1 h2
  exact h (h1.symm.trans h2)

theorem Ast.is_any {A : SyntaxKind} {l : List SyntaxKind} (h : l.contains A = false) :
    ∀ k, Ast.is A k = true → Ast.isAny l k = true → False := by
  intro k h1 h2
  simp only [Ast.is, beq_iff_eq] at h1
  subst h1
  simp only [Ast.isAny] at h2
  rw [h] at h2; cases h2

theorem Ast.any_is {A : SyntaxKind} {l : List SyntaxKind} (h : l.contains A = false) :
    ∀ k, Ast.isAny l k = true → Ast.is A k = true → False := fun k h1 h2 => Ast.is_any h k h2 h1

/-- the two kind predicates have no kind in common -/
macro "kd" : tactic => `(tactic| first
  | exact Ast.is_is (by decide)
  | exact Ast.is_any (by decide)
  | exact Ast.any_is (by decide)
  | (intro k; cases k <;> decide))

/-! ### the state of a traversal -/

/-- entered at `c0` in file `f`; now at `c`, having visited the nodes `vs` -/
structure At (ws0 : Workspace) (c0 c : IndexCtx) (f : Nat) (vs : List PTree) : Prop where
  cur0 : Cur ws0 c0 f
  vis : Vis c0 c f vs

theorem At.start {c : IndexCtx} {f : Nat} (hc : Cur ws0 c f) : At ws0 c c f [] := ⟨hc, Vis.refl c f []⟩

theorem At.cur {c0 c : IndexCtx} {f : Nat} {vs : List PTree} (h : At ws0 c0 c f vs) : Cur ws0 c f := h.cur0.vis h.vis

theorem At.sil {c0 c c1 : IndexCtx} {f : Nat} {vs : List PTree} (h : At ws0 c0 c f vs) (hs : Sil c c1) :
    At ws0 c0 c1 f vs := ⟨h.cur0, h.vis.sil_right hs⟩

theorem At.stepL {c0 c c1 : IndexCtx} {f : Nat} {vs l : List PTree} (h : At ws0 c0 c f vs) (hv : Vis c c1 f l)
    (hd : ∀ a ∈ vs, ∀ b ∈ l, Dj a b) : At ws0 c0 c1 f (vs ++ l) := ⟨h.cur0, h.vis.trans hv h.cur0.idx hd⟩

theorem At.step {c0 c c1 : IndexCtx} {f : Nat} {vs : List PTree} {ch : PTree} (h : At ws0 c0 c f vs)
    (hv : Vis c c1 f [ch]) (hd : ∀ a ∈ vs, Dj a ch) : At ws0 c0 c1 f (vs ++ [ch]) :=
  h.stepL hv (fun a ha b hb => by simp only [List.mem_singleton] at hb; subst hb; exact hd a ha)

/-- an anonymous def / defm registers no location -/
theorem At.anon {c0 c c1 : IndexCtx} {f : Nat} {vs : List PTree} {nm : List Char} {l : Loc}
    (h : At ws0 c0 c f vs) (hp : Push c c1 (.defineAnon nm l)) : At ws0 c0 c1 f vs := by
  have hv : Vis c c1 f [] :=
    ⟨hp.ws, hp.trace, fun g hg => by rw [hp.idx]; exact hg, [.defineAnon nm l], by rw [hp.ops]; simp,
      NoReuse.single _, by
        intro o ho L hL
        simp only [List.mem_singleton] at ho
        subst ho
        cases hL⟩
  have := h.stepL hv (by intro a _ b hb; cases hb)
  simpa using this

theorem At.exit {c0 c : IndexCtx} {f : Nat} {vs : List PTree} {n : PTree} (h : At ws0 c0 c f vs)
    (hin : ∀ v ∈ vs, Inside n v) : Vis c0 c f [n] := h.vis.inside hin

namespace PC
variable {α β : Type} {c0 c : IndexCtx} {f : Nat} {vs : List PTree}

/-- a step that does not touch the log -/
theorem silent_bind {m : IxM α} {k : α → IxM β} {Q : β → IndexCtx → Prop} (hm : Silent m)
    (h : At ws0 c0 c f vs) (hk : ∀ a c1, At ws0 c0 c1 f vs → PC (k a) c1 Q) : PC (m >>= k) c Q :=
  PC.bind (hm.run c) (fun a c1 hs => hk a c1 (h.sil hs))

/-- a step that indexes the node `ch` -/
theorem visit_bind {m : IxM α} {k : α → IxM β} {Q : β → IndexCtx → Prop} {ch : PTree} (hm : VSpec ws0 m ch)
    (h : At ws0 c0 c f vs) (hd : ∀ a ∈ vs, Dj a ch)
    (hk : ∀ a c1, At ws0 c0 c1 f (vs ++ [ch]) → PC (k a) c1 Q) : PC (m >>= k) c Q :=
  PC.bind (hm c f h.cur) (fun a c1 hv => hk a c1 (h.step hv hd))

/-- a step that indexes the nodes `l` -/
theorem visitL_bind {m : IxM α} {k : α → IxM β} {Q : β → IndexCtx → Prop} {l : List PTree}
    (hm : ∀ c f, Cur ws0 c f → PC m c (fun _ c' => Vis c c' f l))
    (h : At ws0 c0 c f vs) (hd : ∀ a ∈ vs, ∀ b ∈ l, Dj a b)
    (hk : ∀ a c1, At ws0 c0 c1 f (vs ++ l) → PC (k a) c1 Q) : PC (m >>= k) c Q :=
  PC.bind (hm c f h.cur) (fun a c1 hv => hk a c1 (h.stepL hv hd))

/-- a step that registers the identifier `loc` inside `nm` -/
theorem reg_bind {m : IxM α} {k : α → IxM β} {Q : β → IndexCtx → Prop} {o : Op} {nm : PTree} {loc : FileRange}
    (hm : PC m c (fun _ c' => Push c c' o)) (h : At ws0 c0 c f vs) (hnm : NodeOK nm) (hid : IdLoc f nm loc)
    (ho : ∀ L, regLoc o = some L → L = loc.toLoc) (hd : ∀ a ∈ vs, Dj a nm)
    (hk : ∀ a c1, At ws0 c0 c1 f (vs ++ [nm]) → PC (k a) c1 Q) : PC (m >>= k) c Q :=
  PC.bind hm (fun a c1 hp => hk a c1 (h.step (Vis.reg hp hnm hid ho) hd))

/-- the last step registers the identifier `loc` inside `nm` -/
theorem reg_last {m : IxM α} {o : Op} {nm n : PTree} {loc : FileRange}
    (hm : PC m c (fun _ c' => Push c c' o)) (h : At ws0 c0 c f vs) (hnm : NodeOK nm) (hid : IdLoc f nm loc)
    (ho : ∀ L, regLoc o = some L → L = loc.toLoc) (hd : ∀ a ∈ vs, Dj a nm)
    (hin : ∀ v ∈ vs ++ [nm], Inside n v) : PC m c (fun _ c' => Vis c0 c' f [n]) :=
  hm.mono (fun _ _ hp => (h.step (Vis.reg hp hnm hid ho) hd).exit hin)

/-- the identifier of a name node (state unchanged) -/
theorem ident_bind {k : Option (String × FileRange) → IxM β} {Q : β → IndexCtx → Prop} {nm : PTree}
    (h : At ws0 c0 c f vs) (hk : nm.kind = .Identifier) (hnode : nm.isNode = true)
    (hf : ∀ x, (∀ name loc, x = some (name, loc) → IdLoc f nm loc) → PC (k x) c Q) :
    PC (utilsIdentifier nm >>= k) c Q :=
  PC.bind (utilsIdentifier_id h.cur hnode hk) (fun x c1 hx => by obtain ⟨rfl, hx⟩ := hx; exact hf x hx)

/-- the last step indexes the node `ch` -/
theorem visit_last {m : IxM α} {ch n : PTree} (hm : VSpec ws0 m ch) (h : At ws0 c0 c f vs)
    (hd : ∀ a ∈ vs, Dj a ch) (hin : ∀ v ∈ vs ++ [ch], Inside n v) : PC m c (fun _ c' => Vis c0 c' f [n]) :=
  (hm c f h.cur).mono (fun _ _ hv => (h.step hv hd).exit hin)

/-- the last steps: index `ch`, then something that does not touch the log -/
theorem visit_bind_silent {m : IxM α} {k : α → IxM β} {ch n : PTree} (hm : VSpec ws0 m ch)
    (h : At ws0 c0 c f vs) (hd : ∀ a ∈ vs, Dj a ch) (hk : ∀ a, Silent (k a))
    (hin : ∀ v ∈ vs ++ [ch], Inside n v) : PC (m >>= k) c (fun _ c' => Vis c0 c' f [n]) :=
  visit_bind hm h hd (fun a c1 h1 => ((hk a).run c1).mono (fun _ _ hs => (h1.sil hs).exit hin))

/-- the last step does not touch the log -/
theorem silent_last {m : IxM α} {n : PTree} (hm : Silent m) (h : At ws0 c0 c f vs)
    (hin : ∀ v ∈ vs, Inside n v) : PC m c (fun _ c' => Vis c0 c' f [n]) :=
  (hm.run c).mono (fun _ _ hs => (h.sil hs).exit hin)

end PC

/-- closes `∀ v ∈ [a, b, …], Inside n v` from hypotheses `Got n _ a`, … -/
macro "ins" hn:ident : tactic => `(tactic| (
  simp only [List.cons_append, List.nil_append, List.append_nil, List.forall_mem_cons, List.not_mem_nil,
    false_imp_iff, implies_true, and_true]
  repeat' (first | assumption | (apply Got.inside (hn := $hn); assumption) | apply And.intro)))

/-- closes `∀ a ∈ [a, b, …], Dj a ch` from hypotheses `Got n _ a`, … -/
macro "djs" hn:ident : tactic => `(tactic| (
  simp only [List.cons_append, List.nil_append, List.append_nil, List.forall_mem_cons, List.not_mem_nil,
    false_imp_iff, implies_true, and_true]
  repeat' (first
    | assumption
    | (apply Got.dj (hn := $hn) <;> first | assumption | kd)
    | (apply Ast.nthChild_dj $hn <;> first | assumption | decide)
    | apply And.intro)))

namespace Index
open Tg.Ide.Index

variable {r : Rec} {n : PTree}

section fns
variable (hr : RecV ws0 r) (hn : NodeOK n)
include hr hn

theorem indexSourceFile_vis : VSpec ws0 (indexSourceFile r n) n := by
  intro c f hc
  have h := At.start hc
  unfold indexSourceFile
  split
  · rename_i l hl
    have gl := Got.child hl
    exact PC.visit_last (hr.statementList l (gl.ok hn)) h (by djs hn) (by ins hn)
  · exact PC.pure (h.exit (by ins hn))

theorem indexAssert_vis : VSpec ws0 (indexAssert r n) n := by
  intro c f hc
  have h := At.start hc
  unfold indexAssert
  split
  · rename_i m hm
    have gm := Got.nth hm
    refine PC.visit_bind (hr.value m (gm.ok hn)) h (by djs hn) ?_
    intro _ c1 h
    split
    · rename_i cd hcd
      have gcd := Got.nth hcd
      refine PC.visit_bind (hr.value cd (gcd.ok hn)) h (by djs hn) ?_
      intro _ c2 h
      exact PC.pure (h.exit (by ins hn))
    · exact PC.pure (h.exit (by ins hn))
  · exact PC.pure (h.exit (by ins hn))

omit hr hn in
/-- `index_name_value`: the identifier a name value begins with -/
theorem indexNameValue_id {c : IndexCtx} {f : Nat} (hc : Cur ws0 c f) (nv : PTree) :
    PC (indexNameValue nv) c (fun x c' => c = c' ∧ ∀ name loc, x = some (name, loc) → IdLoc f nv loc) := by
  unfold indexNameValue
  split
  · rename_i inner hinner
    split
    · rename_i sv hsv
      split
      · rename_i hk
        refine (utilsIdentifier_id hc (Ast.child_sub hsv).2 (by simpa using hk)).mono ?_
        rintro x c' ⟨rfl, h⟩
        exact ⟨rfl, fun name loc hx => (h name loc hx).up
          ((Ast.children_sub (List.mem_of_head? hinner)).desc.trans (Ast.child_sub hsv).desc)⟩
      · split
        · dsimp only
          split
          · rename_i tok htok
            obtain ⟨hdtok, htokT⟩ := PTree.firstToken_desc htok
            have hdnv : Desc nv tok :=
              ((Ast.children_sub (List.mem_of_head? hinner)).desc.trans (Ast.child_sub hsv).desc).trans hdtok
            split
            · exact PC.pure ⟨rfl, by intro _ _ hl; cases hl⟩
            · rename_i hguard
              simp only [Bool.or_eq_true, bne_iff_ne, ne_eq, not_or, Decidable.not_not] at hguard
              split
              · exact PC.panic
              · refine PC.bind (R := fun f' c' => c = c' ∧ c.fileTrace.head? = some f') ?_ ?_
                · unfold currentFileId
                  refine PC.bind (PC.get (Q := fun s c' => s = c ∧ c' = c) ⟨rfl, rfl⟩) ?_
                  rintro s c' ⟨rfl, rfl⟩
                  split
                  · rename_i f' rest hft
                    exact PC.pure ⟨rfl, by rw [hft]; rfl⟩
                  · exact PC.panic
                · rintro f' c' ⟨rfl, hf'⟩
                  refine PC.pure ⟨rfl, ?_⟩
                  intro name loc hl
                  cases hl
                  rw [hc.head] at hf'
                  refine ⟨(Option.some.inj hf').symm, Or.inr ⟨tok, (Ast.stringValue sv).toList, hdnv, htokT, rfl, ?_,
                    hguard.2, ?_⟩⟩
                  · simp only; omega
                  · intro he
                    apply hguard.1
                    have : Ast.stringValue sv = "" := String.toList_injective (by simpa using he)
                    rw [this]; rfl
          · exact PC.pure ⟨rfl, by intro _ _ hl; cases hl⟩
        · exact PC.pure ⟨rfl, by intro _ _ hl; cases hl⟩
    · exact PC.pure ⟨rfl, by intro _ _ hl; cases hl⟩
  · exact PC.pure ⟨rfl, by intro _ _ hl; cases hl⟩

theorem indexDefvar_vis : VSpec ws0 (indexDefvar r n) n := by
  intro c f hc
  have h := At.start hc
  unfold indexDefvar
  split
  · rename_i nm hnm
    have gnm := Got.child hnm
    refine PC.ident_bind h gnm.isKind gnm.sub.2 ?_
    intro x hx
    split
    · rename_i name loc
      have hloc := hx name loc rfl
      split
      · rename_i v hv
        have gv := Got.child hv
        refine PC.visit_bind (hr.value v (gv.ok hn)) h (by djs hn) ?_
        intro t c1 h
        exact PC.reg_last (scopesAddVariable_push _ c1) h (gnm.ok hn) hloc (by intro L hL; cases hL; rfl)
          (by djs hn) (by ins hn)
      · exact PC.pure (h.exit (by ins hn))
    · exact PC.pure (h.exit (by ins hn))
  · exact PC.pure (h.exit (by ins hn))

theorem indexDump_vis : VSpec ws0 (indexDump r n) n := by
  intro c f hc
  have h := At.start hc
  unfold indexDump
  split
  · rename_i v hv
    have gv := Got.child hv
    refine PC.visit_bind (hr.value v (gv.ok hn)) h (by djs hn) ?_
    intro _ c1 h
    exact PC.pure (h.exit (by ins hn))
  · exact PC.pure (h.exit (by ins hn))

/-- the argument is passed on to `r.value` unchanged -/
theorem indexForeachIteratorInit_vis : VSpec ws0 (indexForeachIteratorInit r n) n := by
  intro c f hc
  unfold indexForeachIteratorInit
  split
  · exact PC.pure (Vis.refl c f _)
  · exact PC.pure (Vis.refl c f _)
  · refine PC.bind (hr.value n hn c f hc) ?_
    intro t c1 h1
    split <;> exact PC.pure h1

theorem indexForeachIterator_vis : VSpec ws0 (indexForeachIterator r n) n := by
  intro c f hc
  have h := At.start hc
  unfold indexForeachIterator
  split
  · rename_i nm hnm
    have gnm := Got.child hnm
    refine PC.ident_bind h gnm.isKind gnm.sub.2 ?_
    intro x hx
    split
    · rename_i name loc
      have hloc := hx name loc rfl
      split
      · rename_i init hinit
        have ginit := Got.child hinit
        refine PC.visit_bind (indexForeachIteratorInit_vis hr (ginit.ok hn)) h (by djs hn) ?_
        intro t c1 h
        refine PC.reg_bind (addVariable_push _ c1) h (gnm.ok hn) hloc (by intro L hL; cases hL; rfl)
          (by djs hn) ?_
        intro id c2 h
        exact PC.pure (h.exit (by ins hn))
      · exact PC.pure (h.exit (by ins hn))
    · exact PC.pure (h.exit (by ins hn))
  · exact PC.pure (h.exit (by ins hn))

theorem indexForeach_vis : VSpec ws0 (indexForeach r n) n := by
  intro c f hc
  have h := At.start hc
  unfold indexForeach
  split
  · rename_i it hit
    have git := Got.child hit
    refine PC.visit_bind (indexForeachIterator_vis hr (git.ok hn)) h (by djs hn) ?_
    intro x c1 h
    split
    · rename_i name vid
      refine PC.silent_bind (scopesPush_silent _) h ?_
      intro _ c2 h
      split
      · rename_i body hbody
        have gbody := Got.child hbody
        refine PC.visit_bind (hr.statementList body (gbody.ok hn)) h (by djs hn) ?_
        intro _ c3 h
        exact PC.silent_last scopesPop_silent h (by ins hn)
      · exact PC.pure (h.exit (by ins hn))
    · exact PC.pure (h.exit (by ins hn))
  · exact PC.pure (h.exit (by ins hn))

theorem indexIf_vis : VSpec ws0 (indexIf r n) n := by
  intro c f hc
  have h := At.start hc
  unfold indexIf
  split
  · rename_i cond hcond
    have gcond := Got.child hcond
    refine PC.visit_bind (hr.value cond (gcond.ok hn)) h (by djs hn) ?_
    intro _ c1 h
    split
    · rename_i tb htb
      have gtb := Got.nth htb
      refine PC.silent_bind (scopesPush_silent _) h ?_
      intro _ c2 h
      refine PC.visit_bind (hr.statementList tb (gtb.ok hn)) h (by djs hn) ?_
      intro _ c3 h
      refine PC.silent_bind scopesPop_silent h ?_
      intro _ c4 h
      split
      · rename_i eb heb
        have geb := Got.nth heb
        refine PC.silent_bind (scopesPush_silent _) h ?_
        intro _ c5 h
        refine PC.visit_bind (hr.statementList eb (geb.ok hn)) h (by djs hn) ?_
        intro _ c6 h
        exact PC.silent_last scopesPop_silent h (by ins hn)
      · exact PC.pure (h.exit (by ins hn))
    · exact PC.pure (h.exit (by ins hn))
  · exact PC.pure (h.exit (by ins hn))

theorem indexLetItem_vis : VSpec ws0 (indexLetItem r n) n := by
  intro c f hc
  have h := At.start hc
  unfold indexLetItem
  split
  · rename_i v hv
    have gv := Got.child hv
    refine PC.visit_bind (hr.value v (gv.ok hn)) h (by djs hn) ?_
    intro _ c1 h
    exact PC.pure (h.exit (by ins hn))
  · exact PC.pure (h.exit (by ins hn))

/-- a loop over the nodes an accessor lists, each indexed by `g` -/
theorem children_loop {p : SyntaxKind → Bool} {σ : Type} {init : σ} {body : PTree → σ → IxM (ForInStep σ)}
    (hbody : ∀ x, Got n p x → ∀ b, VSpec ws0 (body x b) x) :
    ∀ c f, Cur ws0 c f → PC (forIn (Ast.children n p) init body) c (fun _ c' => Vis c c' f (Ast.children n p)) :=
  forIn_vis (Ast.children_sorted hn p) (fun x hx b => hbody x (Got.mem hx) b)

theorem children_inside (p : SyntaxKind → Bool) : ∀ v ∈ Ast.children n p, Inside n v :=
  fun v hv => (Got.mem hv).inside hn

theorem indexLetList_vis : VSpec ws0 (indexLetList r n) n := by
  intro c f hc
  unfold indexLetList
  refine PC.bind (children_loop hr hn (p := Ast.is .LetItem) ?_ c f hc) ?_
  · intro x gx b c1 f1 hc1
    refine PC.bind (indexLetItem_vis hr (gx.ok hn) c1 f1 hc1) ?_
    intro _ c2 h2
    exact PC.pure h2
  · intro _ c1 h1
    exact PC.pure (h1.inside (children_inside hr hn _))

theorem indexLet_vis : VSpec ws0 (indexLet r n) n := by
  intro c f hc
  have h := At.start hc
  unfold indexLet
  split
  · rename_i ll hll
    have gll := Got.child hll
    refine PC.visit_bind (indexLetList_vis hr (gll.ok hn)) h (by djs hn) ?_
    intro _ c1 h
    split
    · rename_i sl hsl
      have gsl := Got.child hsl
      refine PC.silent_bind (scopesPush_silent _) h ?_
      intro _ c2 h
      refine PC.visit_bind (hr.statementList sl (gsl.ok hn)) h (by djs hn) ?_
      intro _ c3 h
      exact PC.silent_last scopesPop_silent h (by ins hn)
    · exact PC.pure (h.exit (by ins hn))
  · exact PC.pure (h.exit (by ins hn))

theorem indexTemplateArgDecl_vis : VSpec ws0 (indexTemplateArgDecl r n) n := by
  intro c f hc
  have h := At.start hc
  unfold indexTemplateArgDecl
  split
  · rename_i nm hnm
    have gnm := Got.child hnm
    refine PC.ident_bind h gnm.isKind gnm.sub.2 ?_
    intro x hx
    split
    · rename_i name loc
      have hloc := hx name loc rfl
      split
      · rename_i tn htn
        have gtn := Got.child htn
        refine PC.visit_bind (hr.typ tn (gtn.ok hn)) h (by djs hn) ?_
        intro t c2 h
        split
        · rename_i typ
          dsimp only
          refine PC.reg_bind (addTemplateArgument_push _ c2) h (gnm.ok hn) hloc (by intro L hL; cases hL; rfl)
            (by djs hn) ?_
          intro taId c3 h
          refine PC.silent_bind currentRecordId_silent h ?_
          intro rid c4 h
          split
          · refine PC.silent_bind (recordMut_silent _ _) h ?_
            intro _ c5 h
            split
            · rename_i v hv
              have gv := Got.child hv
              exact PC.visit_bind_silent (hr.value v (gv.ok hn)) h (by djs hn) (by intros; silent) (by ins hn)
            · exact PC.pure (h.exit (by ins hn))
          · refine PC.silent_bind currentMulticlassId_silent h ?_
            intro mid c5 h
            split
            · refine PC.silent_bind (multiclassMut_silent _ _) h ?_
              intro _ c6 h
              split
              · rename_i v hv
                have gv := Got.child hv
                exact PC.visit_bind_silent (hr.value v (gv.ok hn)) h (by djs hn) (by intros; silent) (by ins hn)
              · exact PC.pure (h.exit (by ins hn))
            · exact PC.bind (R := fun _ _ => False) PC.panic (fun _ _ hf => hf.elim)
        · exact PC.pure (h.exit (by ins hn))
      · exact PC.pure (h.exit (by ins hn))
    · exact PC.pure (h.exit (by ins hn))
  · exact PC.pure (h.exit (by ins hn))

theorem indexTemplateArgList_vis : VSpec ws0 (indexTemplateArgList r n) n := by
  intro c f hc
  unfold indexTemplateArgList
  refine PC.bind (children_loop hr hn (p := Ast.is .TemplateArgDecl) ?_ c f hc) ?_
  · intro x gx b c1 f1 hc1
    refine PC.bind (indexTemplateArgDecl_vis hr (gx.ok hn) c1 f1 hc1) ?_
    intro _ c2 h2
    exact PC.pure h2
  · intro _ c1 h1
    exact PC.pure (h1.inside (children_inside hr hn _))

theorem indexArgValue_vis : VSpec ws0 (indexArgValue r n) n := by
  intro c f hc
  have h := At.start hc
  unfold indexArgValue
  split
  · split
    · rename_i v hv
      have gv := Got.nth hv
      exact PC.visit_bind_silent (hr.value v (gv.ok hn)) h (by djs hn) (by intros; silent) (by ins hn)
    · exact PC.pure (h.exit (by ins hn))
  · split
    · rename_i nv hnv
      split
      · rename_i inner hinner
        split
        · rename_i sv hsv
          dsimp only
          have hjp : ∀ (name : String), PC (match Ast.namedArgValueValue n with
              | some value => do
                let __x ← r.value value
                match __x with
                  | some typ => pure (some (some name, typ, nodeRange n))
                  | x => pure none
              | x => pure none : IxM (Option ArgValue)) c (fun _ c' => Vis c c' f [n]) := by
            intro name
            split
            · rename_i v hv
              have gv := Got.nth hv
              exact PC.visit_bind_silent (hr.value v (gv.ok hn)) h (by djs hn) (by intros; silent) (by ins hn)
            · exact PC.pure (h.exit (by ins hn))
          split
          · split
            · exact PC.bind (PC.pure (Q := fun a c' => c' = c) rfl) (fun a c' hc' => hc' ▸ hjp a)
            · exact PC.pure (h.exit (by ins hn))
          · split
            · exact PC.bind (PC.pure (Q := fun a c' => c' = c) rfl) (fun a c' hc' => hc' ▸ hjp a)
            · exact PC.silent_last (by silent) h (by ins hn)
        · exact PC.pure (h.exit (by ins hn))
      · exact PC.pure (h.exit (by ins hn))
    · exact PC.pure (h.exit (by ins hn))

theorem indexArgValueList_vis : VSpec ws0 (indexArgValueList r n) n := by
  intro c f hc
  unfold indexArgValueList
  refine (mapM_vis (Ast.children_sorted hn _) ?_ c f hc).mono ?_
  · intro x hx
    exact indexArgValue_vis hr ((Got.mem hx).ok hn)
  · intro _ c1 h1
    exact h1.inside (children_inside hr hn _)

omit hr hn in
theorem checkTemplateArgs_silent (tas : List TemplateArgument) (avs : List (Option ArgValue)) (rg : Nat × Nat) :
    Silent (checkTemplateArgs tas avs rg) := by
  unfold checkTemplateArgs; silent

omit hr hn in
theorem templateArgsOf_silent (names : Array (String × Nat)) : Silent (templateArgsOf names) := by
  unfold templateArgsOf; silent

macro_rules | `(tactic| silent_prim) => `(tactic| exact Index.checkTemplateArgs_silent _ _ _)
macro_rules | `(tactic| silent_prim) => `(tactic| exact Index.templateArgsOf_silent _)

omit hr hn in
theorem _root_.Tg.Ide.VSpec.bind_silent {α β : Type} {m : IxM α} {k : α → IxM β} {x : PTree}
    (hm : VSpec ws0 m x) (hk : ∀ a, Silent (k a)) : VSpec ws0 (m >>= k) x :=
  fun c f hc => PC.bind (hm c f hc) (fun a c1 h1 => ((hk a).run c1).mono (fun _ _ hs => h1.sil_right hs))

theorem resolveClassRefAsClass_vis : VSpec ws0 (resolveClassRefAsClass r n) n := by
  intro c f hc
  have h := At.start hc
  unfold resolveClassRefAsClass
  split
  · rename_i nm hnm
    have gnm := Got.child hnm
    refine PC.ident_bind h gnm.isKind gnm.sub.2 ?_
    intro x hx
    split
    · rename_i name loc
      have hloc := hx name loc rfl
      refine PC.silent_bind (Silent.withSM _) h ?_
      intro fc c1 h
      split
      · rename_i classId
        refine PC.reg_bind (addReference_push _ _ c1) h (gnm.ok hn) hloc (by intro L hL; cases hL; rfl)
          (by djs hn) ?_
        intro _ c2 h
        refine PC.silent_bind (Silent.withSM _) h ?_
        intro nta c3 h
        refine PC.silent_bind (templateArgsOf_silent _) h ?_
        intro tas c4 h
        dsimp only
        split
        · rename_i l hl
          have gl := Got.child hl
          exact PC.visit_bind_silent (indexArgValueList_vis hr (gl.ok hn)) h (by djs hn) (by intros; silent)
            (by ins hn)
        · exact PC.silent_last (by silent) h (by ins hn)
      · exact PC.silent_last (by silent) h (by ins hn)
    · exact PC.pure (h.exit (by ins hn))
  · exact PC.pure (h.exit (by ins hn))

theorem resolveClassRefAsMulticlass_vis : VSpec ws0 (resolveClassRefAsMulticlass r n) n := by
  intro c f hc
  have h := At.start hc
  unfold resolveClassRefAsMulticlass
  split
  · rename_i nm hnm
    have gnm := Got.child hnm
    refine PC.ident_bind h gnm.isKind gnm.sub.2 ?_
    intro x hx
    split
    · rename_i name loc
      have hloc := hx name loc rfl
      refine PC.silent_bind (Silent.withSM _) h ?_
      intro fc c1 h
      split
      · rename_i mcId
        refine PC.reg_bind (addReference_push _ _ c1) h (gnm.ok hn) hloc (by intro L hL; cases hL; rfl)
          (by djs hn) ?_
        intro _ c2 h
        refine PC.silent_bind (Silent.withSM _) h ?_
        intro nta c3 h
        refine PC.silent_bind (templateArgsOf_silent _) h ?_
        intro tas c4 h
        dsimp only
        split
        · rename_i l hl
          have gl := Got.child hl
          exact PC.visit_bind_silent (indexArgValueList_vis hr (gl.ok hn)) h (by djs hn) (by intros; silent)
            (by ins hn)
        · exact PC.silent_last (by silent) h (by ins hn)
      · exact PC.silent_last (by silent) h (by ins hn)
    · exact PC.pure (h.exit (by ins hn))
  · exact PC.pure (h.exit (by ins hn))

omit hr hn in
theorem namesClassOnly_silent (x : PTree) : Silent (namesClassOnly x) := by unfold namesClassOnly; silent

theorem indexParentClassList_vis : VSpec ws0 (indexParentClassList r n) n := by
  intro c f hc
  have h := At.start hc
  have hloop : ∀ {σ : Type} {init : σ} {body : PTree → σ → IxM (ForInStep σ)},
      (∀ x, Got n (Ast.is .ClassRef) x → ∀ b, VSpec ws0 (body x b) x) → ∀ c1, At ws0 c c1 f [] →
      PC (do let r ← forIn (Ast.parentClassListClasses n) init body; pure PUnit.unit : IxM PUnit) c1
        (fun _ c' => Vis c c' f [n]) := by
    intro σ init body hb c1 h1
    refine PC.visitL_bind (children_loop hr hn hb) h1 (by intro a ha; cases ha) ?_
    intro _ c2 h2
    exact PC.pure (h2.exit (by simpa using children_inside hr hn _))
  unfold indexParentClassList
  refine PC.silent_bind currentRecordId_silent h ?_
  intro rid c1 h
  split
  · refine hloop ?_ c1 h
    intro x gx b
    exact (resolveClassRefAsClass_vis hr (gx.ok hn)).bind_silent (by intros; silent)
  · refine PC.silent_bind currentMulticlassId_silent h ?_
    intro mid c2 h
    split
    · rename_i mcId
      have hmp : ∀ x, Got n (Ast.is .ClassRef) x → VSpec ws0 (multiclassParent r mcId x) x := by
        intro x gx
        unfold multiclassParent
        exact (resolveClassRefAsMulticlass_vis hr (gx.ok hn)).bind_silent (by intros; silent)
      refine PC.silent_bind currentDefmId_silent h ?_
      intro did c3 h
      dsimp only
      split
      · exact PC.pure (h.exit (by ins hn))
      · rename_i first rest hcl
        have hord := Ast.children_sorted hn (Ast.is .ClassRef)
        have hcl' : Ast.children n (Ast.is .ClassRef) = first :: rest := hcl
        rw [hcl', List.pairwise_cons] at hord
        have gfirst : Got n (Ast.is .ClassRef) first := Got.mem (by rw [hcl']; simp)
        have grest : ∀ x ∈ rest, Got n (Ast.is .ClassRef) x := fun x hx => Got.mem (by rw [hcl']; simp [hx])
        refine PC.visit_bind (hmp first gfirst) h (by djs hn) ?_
        intro _ c4 h
        refine PC.visitL_bind (forIn_vis hord.2 ?_) h ?_ ?_
        · intro x hx b c5 f5 hc5
          refine PC.bind ((namesClassOnly_silent x).run c5) ?_
          intro nb c6 hs6
          have hc6 := hc5.sil hs6
          split
          · refine PC.bind (resolveClassRefAsClass_vis hr ((grest x hx).ok hn) c6 f5 hc6) ?_
            intro _ c7 h7
            exact PC.pure (Vis.sil_left hs6 h7)
          · refine PC.bind (hmp x (grest x hx) c6 f5 hc6) ?_
            intro _ c7 h7
            exact PC.pure (Vis.sil_left hs6 h7)
        · intro a ha b hb
          simp only [List.nil_append, List.mem_singleton] at ha
          subst ha
          exact Or.inl (hord.1 b hb)
        · intro _ c5 h5
          refine PC.pure (h5.exit ?_)
          intro v hv
          simp only [List.nil_append, List.cons_append, List.mem_cons] at hv
          rcases hv with rfl | hv
          · exact gfirst.inside hn
          · exact (grest v hv).inside hn
    · refine PC.silent_bind currentDefmId_silent h ?_
      intro did c3 h
      split
      · rename_i defmId
        have hdm : ∀ x, Got n (Ast.is .ClassRef) x → VSpec ws0 (defmMulticlassParent r defmId x) x := by
          intro x gx
          unfold defmMulticlassParent
          exact (resolveClassRefAsMulticlass_vis hr (gx.ok hn)).bind_silent (by intros; silent)
        split
        · exact PC.pure (h.exit (by ins hn))
        · rename_i first rest hcl
          have hord := Ast.children_sorted hn (Ast.is .ClassRef)
          have hcl' : Ast.children n (Ast.is .ClassRef) = first :: rest := hcl
          rw [hcl', List.pairwise_cons] at hord
          have gfirst : Got n (Ast.is .ClassRef) first := Got.mem (by rw [hcl']; simp)
          have grest : ∀ x ∈ rest, Got n (Ast.is .ClassRef) x := fun x hx => Got.mem (by rw [hcl']; simp [hx])
          refine PC.visit_bind (hdm first gfirst) h (by djs hn) ?_
          intro _ c4 h
          refine PC.visitL_bind (forIn_vis hord.2 ?_) h ?_ ?_
          · intro x hx b c5 f5 hc5
            refine PC.bind ((namesClassOnly_silent x).run c5) ?_
            intro nb c6 hs6
            have hc6 := hc5.sil hs6
            split
            · refine PC.bind (resolveClassRefAsClass_vis hr ((grest x hx).ok hn) c6 f5 hc6) ?_
              intro _ c7 h7
              exact PC.pure (Vis.sil_left hs6 h7)
            · refine PC.bind (hdm x (grest x hx) c6 f5 hc6) ?_
              intro _ c7 h7
              exact PC.pure (Vis.sil_left hs6 h7)
          · intro a ha b hb
            simp only [List.nil_append, List.mem_singleton] at ha
            subst ha
            exact Or.inl (hord.1 b hb)
          · intro _ c5 h5
            refine PC.pure (h5.exit ?_)
            intro v hv
            simp only [List.nil_append, List.cons_append, List.mem_cons] at hv
            rcases hv with rfl | hv
            · exact gfirst.inside hn
            · exact (grest v hv).inside hn
      · exact PC.panic

theorem indexFieldDef_vis : VSpec ws0 (indexFieldDef r n) n := by
  intro c f hc
  have h := At.start hc
  unfold indexFieldDef
  refine PC.silent_bind currentRecordId_silent h ?_
  intro rid c0 h
  split
  · rename_i recordId
    split
    · rename_i nm hnm
      have gnm := Got.child hnm
      refine PC.ident_bind h gnm.isKind gnm.sub.2 ?_
      intro x hx
      split
      · rename_i name loc
        have hloc := hx name loc rfl
        split
        · rename_i tn htn
          have gtn := Got.child htn
          refine PC.visit_bind (hr.typ tn (gtn.ok hn)) h (by djs hn) ?_
          intro t c1 h
          split
          · rename_i typ
            refine PC.reg_bind (addRecordField_push _ c1) h (gnm.ok hn) hloc (by intro L hL; cases hL; rfl)
              (by djs hn) ?_
            intro fid c2 h
            refine PC.silent_bind (recordMut_silent _ _) h ?_
            intro _ c3 h
            split
            · rename_i v hv
              have gv := Got.child hv
              exact PC.visit_bind_silent (hr.value v (gv.ok hn)) h (by djs hn) (by intros; silent) (by ins hn)
            · exact PC.pure (h.exit (by ins hn))
          · exact PC.pure (h.exit (by ins hn))
        · exact PC.pure (h.exit (by ins hn))
      · exact PC.pure (h.exit (by ins hn))
    · exact PC.pure (h.exit (by ins hn))
  · exact PC.panic

theorem indexFieldLet_vis : VSpec ws0 (indexFieldLet r n) n := by
  intro c f hc
  have h := At.start hc
  unfold indexFieldLet
  split
  · rename_i nm hnm
    have gnm := Got.child hnm
    refine PC.ident_bind h gnm.isKind gnm.sub.2 ?_
    intro x hx
    split
    · rename_i name loc
      have hloc := hx name loc rfl
      refine PC.silent_bind currentRecordId_silent h ?_
      intro rid c1 h
      split
      · rename_i recordId
        dsimp only
        refine PC.silent_bind (Silent.withSM _) h ?_
        intro ff c2 h
        split
        · rename_i fieldId
          refine PC.silent_bind (Silent.withSM _) h ?_
          intro ft c3 h
          refine PC.silent_bind (Silent.withSM _) h ?_
          intro par c3 h
          split
          · -- an inherited field: the new field is defined, then the overridden one is referenced, at the same
            -- identifier
            refine PC.bind (addRecordField_push _ c3) ?_
            intro fid c4 hp1
            refine PC.bind ((recordMut_silent _ _).run c4) ?_
            intro _ c5 hs
            refine PC.bind (addReference_push _ _ c5) ?_
            intro _ c6 hp2
            have h := h.step (Vis.reg2 (loc := loc) hp1 hs hp2 (gnm.ok hn) hloc) (by djs hn)
            split
            · rename_i v hv
              have gv := Got.child hv
              exact PC.visit_bind_silent (hr.value v (gv.ok hn)) h (by djs hn) (by intros; silent) (by ins hn)
            · exact PC.pure (h.exit (by ins hn))
          · -- a field of the record itself: only the reference
            refine PC.reg_bind (addReference_push _ _ c3) h (gnm.ok hn) hloc (by intro L hL; cases hL; rfl)
              (by djs hn) ?_
            intro _ c4 h
            split
            · rename_i v hv
              have gv := Got.child hv
              exact PC.visit_bind_silent (hr.value v (gv.ok hn)) h (by djs hn) (by intros; silent) (by ins hn)
            · exact PC.pure (h.exit (by ins hn))
        · refine PC.silent_bind (error_silent _ _) h ?_
          intro _ c3 h
          split
          · rename_i v hv
            have gv := Got.child hv
            exact PC.visit_bind_silent (hr.value v (gv.ok hn)) h (by djs hn) (by intros; silent) (by ins hn)
          · exact PC.pure (h.exit (by ins hn))
      · exact PC.panic
    · exact PC.pure (h.exit (by ins hn))
  · exact PC.pure (h.exit (by ins hn))

theorem indexBodyItem_vis : VSpec ws0 (indexBodyItem r n) n := by
  unfold indexBodyItem
  split
  · exact indexFieldDef_vis hr hn
  · exact indexFieldLet_vis hr hn
  · exact indexAssert_vis hr hn
  · exact indexDefvar_vis hr hn
  · exact indexDump_vis hr hn
  · exact fun c f _ => PC.pure (Vis.refl c f _)

theorem indexBody_vis : VSpec ws0 (indexBody r n) n := by
  intro c f hc
  unfold indexBody
  refine PC.bind (children_loop hr hn (p := Ast.isAny Ast.bodyItemKinds) ?_ c f hc) ?_
  · intro x gx b c1 f1 hc1
    refine PC.bind (indexBodyItem_vis hr (gx.ok hn) c1 f1 hc1) ?_
    intro _ c2 h2
    exact PC.pure h2
  · intro _ c1 h1
    exact PC.pure (h1.inside (children_inside hr hn _))

theorem indexRecordBody_vis : VSpec ws0 (indexRecordBody r n) n := by
  intro c f hc
  have h := At.start hc
  unfold indexRecordBody
  split
  · rename_i pcl hpcl
    have gpcl := Got.child hpcl
    refine PC.visit_bind (indexParentClassList_vis hr (gpcl.ok hn)) h (by djs hn) ?_
    intro _ c1 h
    split
    · rename_i body hbody
      have gbody := Got.child hbody
      exact PC.visit_last (indexBody_vis hr (gbody.ok hn)) h (by djs hn) (by ins hn)
    · exact PC.pure (h.exit (by ins hn))
  · exact PC.pure (h.exit (by ins hn))

omit hr hn in
theorem sameFileDefset_silent : Silent sameFileDefset := by unfold sameFileDefset; silent

omit hr hn in
theorem defDefset_silent : Silent defDefset := by unfold defDefset sameFileDefset; silent

theorem indexClass_vis : VSpec ws0 (indexClass r n) n := by
  intro c f hc
  have h := At.start hc
  unfold indexClass
  split
  · rename_i nm hnm
    have gnm := Got.child hnm
    refine PC.ident_bind h gnm.isKind gnm.sub.2 ?_
    intro x hx
    split
    · rename_i name loc
      have hloc := hx name loc rfl
      refine PC.reg_bind (addRecord_push _ _ c) h (gnm.ok hn) hloc (by intro L hL; cases hL; rfl)
        (by djs hn) ?_
      intro recordId c1 h
      refine PC.silent_bind (scopesPush_silent _) h ?_
      intro _ c2 h
      dsimp only
      have hjp : ∀ {c3 : IndexCtx} {vs : List PTree}, At ws0 c c3 f vs → (∀ v ∈ vs, Inside n v) →
          (∀ b, Got n (Ast.is .RecordBody) b → ∀ a ∈ vs, Dj a b) →
          PC (match Ast.classRecordBody n with
            | some body => do
              let __r ← indexRecordBody r body
              scopesPop
            | x => scopesPop : IxM Unit) c3 (fun _ c' => Vis c c' f [n]) := by
        intro c3 vs h3 hin hd
        split
        · rename_i body hbody
          have gbody := Got.child hbody
          refine PC.visit_bind (indexRecordBody_vis hr (gbody.ok hn)) h3 (hd body gbody) ?_
          intro _ c4 h4
          exact PC.silent_last scopesPop_silent h4 (by
            intro v hv
            rcases List.mem_append.mp hv with hv | hv
            · exact hin v hv
            · simp only [List.mem_singleton] at hv; subst hv; exact gbody.inside hn)
        · exact PC.silent_last scopesPop_silent h3 hin
      split
      · rename_i list hlist
        have glist := Got.child hlist
        refine PC.visit_bind (indexTemplateArgList_vis hr (glist.ok hn)) h (by djs hn) ?_
        intro _ c3 h
        exact hjp h (by ins hn) (fun b gb => by djs hn)
      · exact hjp h (by ins hn) (fun b gb => by djs hn)
    · exact PC.pure (h.exit (by ins hn))
  · exact PC.pure (h.exit (by ins hn))

theorem indexDef_vis : VSpec ws0 (indexDef r n) n := by
  intro c f hc
  have h := At.start hc
  -- push the record scope, index the body, pop
  have hrest : ∀ (defId : Nat) {c2 : IndexCtx} {vs : List PTree}, At ws0 c c2 f vs → (∀ v ∈ vs, Inside n v) →
      (∀ b, Got n (Ast.is .RecordBody) b → ∀ a ∈ vs, Dj a b) →
      PC (do
        scopesPush (ScopeKind.record defId)
        match Ast.defRecordBody n with
          | some body => do
            indexRecordBody r body
            scopesPop
          | x => pure () : IxM Unit) c2 (fun _ c' => Vis c c' f [n]) := by
    intro defId c2 vs h2 hin hd
    refine PC.silent_bind (scopesPush_silent _) h2 ?_
    intro _ c3 h3
    split
    · rename_i body hbody
      have gbody := Got.child hbody
      refine PC.visit_bind (indexRecordBody_vis hr (gbody.ok hn)) h3 (hd body gbody) ?_
      intro _ c4 h4
      exact PC.silent_last scopesPop_silent h4 (by
        intro v hv
        rcases List.mem_append.mp hv with hv | hv
        · exact hin v hv
        · simp only [List.mem_singleton] at hv; subst hv; exact gbody.inside hn)
    · exact PC.pure (h3.exit hin)
  have halloc : ∀ (g : Bool) (kont : Nat → IxM Unit) {c0 : IndexCtx}, At ws0 c c0 f [] →
      (∀ (defId : Nat) {c1 : IndexCtx} {vs : List PTree}, At ws0 c c1 f vs → (∀ v ∈ vs, Inside n v) →
        (∀ b, Got n (Ast.is .RecordBody) b → ∀ a ∈ vs, Dj a b) →
        PC (kont defId) c1 (fun _ c' => Vis c c' f [n])) →
      ∀ (named : Option (String × FileRange)) (nv : PTree), (∀ name loc, named = some (name, loc) → IdLoc f nv loc) →
      (∀ name loc, named = some (name, loc) → Got n (Ast.is .Value) nv) →
      PC (match named with
        | some (name, defineLoc) => do
          let __do_lift ← currentMulticlassId
          if __do_lift.isSome = true then do
              let defId ← addMulticlassDef { name := name, kind := RecordKind.def_, defineLoc := defineLoc }
              kont defId
            else do
              let defId ← addRecord { name := name, kind := RecordKind.def_, defineLoc := defineLoc } g
              kont defId
        | none => do
          let name ← nextAnonymousDefName
          let file ← currentFileId
          let defId ← addAnonymousDef
            { name := name, kind := RecordKind.def_, defineLoc := { file := file, start := n.start, stop := n.stop } }
          scopesPush (ScopeKind.record defId)
          match Ast.defRecordBody n with
            | some body => do
              indexRecordBody r body
              scopesPop
            | x => pure () : IxM Unit) c0 (fun _ c' => Vis c c' f [n]) := by
    intro g kont c0 h0 hk named nv hx hgot
    split
    · rename_i name loc
      have hloc := hx name loc rfl
      have gnv := hgot name loc rfl
      refine PC.silent_bind currentMulticlassId_silent h0 ?_
      intro mc c1 h1
      split
      · refine PC.reg_bind (addMulticlassDef_push _ c1) h1 (gnv.ok hn) hloc (by intro L hL; cases hL; rfl)
          (by djs hn) ?_
        intro defId c2 h2
        exact hk defId h2 (by ins hn) (fun b gb => by djs hn)
      · refine PC.reg_bind (addRecord_push _ _ c1) h1 (gnv.ok hn) hloc (by intro L hL; cases hL; rfl)
          (by djs hn) ?_
        intro defId c2 h2
        exact hk defId h2 (by ins hn) (fun b gb => by djs hn)
    · refine PC.silent_bind nextAnonymousDefName_silent h0 ?_
      intro name c1 h1
      refine PC.silent_bind currentFileId_silent h1 ?_
      intro file c2 h2
      refine PC.bind (addAnonymousDef_push _ c2) ?_
      intro defId c3 hp
      exact hrest defId (h2.anon hp) (by ins hn) (fun b gb => by djs hn)
  -- the name value, if there is one, then `halloc`
  have hname : ∀ (g : Bool) (kont : Nat → IxM Unit) {c0 : IndexCtx}, At ws0 c c0 f [] →
      (∀ (defId : Nat) {c1 : IndexCtx} {vs : List PTree}, At ws0 c c1 f vs → (∀ v ∈ vs, Inside n v) →
        (∀ b, Got n (Ast.is .RecordBody) b → ∀ a ∈ vs, Dj a b) →
        PC (kont defId) c1 (fun _ c' => Vis c c' f [n])) →
      ∀ (jp : Option (String × FileRange) → IxM Unit),
      (∀ named nv, (∀ name loc, named = some (name, loc) → IdLoc f nv loc) →
        (∀ name loc, named = some (name, loc) → Got n (Ast.is .Value) nv) →
        ∀ {c1 : IndexCtx}, At ws0 c c1 f [] → PC (jp named) c1 (fun _ c' => Vis c c' f [n])) →
      PC (match Ast.defName n with
        | some nameValue => do
          let named ← indexNameValue nameValue
          jp named
        | none => do
          let named ← pure none
          jp named : IxM Unit) c0 (fun _ c' => Vis c c' f [n]) := by
    intro g kont c0 h0 _ jp hjp
    split
    · rename_i nv hnv
      have gnv := Got.child hnv
      refine PC.bind (indexNameValue_id h0.cur nv) ?_
      rintro x c' ⟨hcc, hx⟩
      subst hcc
      exact hjp x nv hx (fun _ _ _ => gnv) h0
    · refine PC.bind (R := fun x c' => c0 = c' ∧ x = none) (PC.pure (And.intro rfl rfl)) ?_
      rintro x c' ⟨hcc, hx⟩
      subst hcc; subst hx
      exact hjp none n (by intro _ _ hh; cases hh) (by intro _ _ hh; cases hh) h0
  unfold indexDef
  refine PC.silent_bind defDefset_silent h ?_
  intro dsid c0 h0
  cases dsid with
  | none =>
    dsimp only
    have hk : ∀ (defId : Nat) {c1 : IndexCtx} {vs : List PTree}, At ws0 c c1 f vs → (∀ v ∈ vs, Inside n v) →
        (∀ b, Got n (Ast.is .RecordBody) b → ∀ a ∈ vs, Dj a b) →
        PC (do
          scopesPush (ScopeKind.record defId)
          match Ast.defRecordBody n with
            | some body => do
              indexRecordBody r body
              scopesPop
            | x => pure () : IxM Unit) c1 (fun _ c' => Vis c c' f [n]) :=
      fun defId _ _ h1 hin hd => hrest defId h1 hin hd
    refine hname true _ h0 hk _ ?_
    intro named nv hx hgot c1 h1
    exact halloc true _ h1 hk named nv hx hgot
  | some defsetId =>
    dsimp only
    have hk : ∀ (defId : Nat) {c1 : IndexCtx} {vs : List PTree}, At ws0 c c1 f vs → (∀ v ∈ vs, Inside n v) →
        (∀ b, Got n (Ast.is .RecordBody) b → ∀ a ∈ vs, Dj a b) →
        PC (do
          let __r ← defsetMut defsetId fun ds =>
            { name := ds.name, typ := ds.typ, defList := ds.defList.push defId, defineLoc := ds.defineLoc }
          scopesPush (ScopeKind.record defId)
          match Ast.defRecordBody n with
            | some body => do
              indexRecordBody r body
              scopesPop
            | x => pure () : IxM Unit) c1 (fun _ c' => Vis c c' f [n]) := by
      intro defId c1 vs h1 hin hd
      refine PC.silent_bind (defsetMut_silent _ _) h1 ?_
      intro _ c2 h2
      exact hrest defId h2 hin hd
    refine hname false _ h0 hk _ ?_
    intro named nv hx hgot c1 h1
    exact halloc false _ h1 hk named nv hx hgot

theorem indexDefm_vis : VSpec ws0 (indexDefm r n) n := by
  intro c f hc
  have h := At.start hc
  have hrest : ∀ (defmId : Nat) {c2 : IndexCtx} {vs : List PTree}, At ws0 c c2 f vs → (∀ v ∈ vs, Inside n v) →
      (∀ b, Got n (Ast.is .ParentClassList) b → ∀ a ∈ vs, Dj a b) →
      PC (do
        scopesPush (ScopeKind.defm defmId)
        match Ast.defmParentClassList n with
          | some parentClassList => do
            indexParentClassList r parentClassList
            scopesPop
          | x => pure () : IxM Unit) c2 (fun _ c' => Vis c c' f [n]) := by
    intro defmId c2 vs h2 hin hd
    refine PC.silent_bind (scopesPush_silent _) h2 ?_
    intro _ c3 h3
    split
    · rename_i pcl hpcl
      have gpcl := Got.child hpcl
      refine PC.visit_bind (indexParentClassList_vis hr (gpcl.ok hn)) h3 (hd pcl gpcl) ?_
      intro _ c4 h4
      exact PC.silent_last scopesPop_silent h4 (by
        intro v hv
        rcases List.mem_append.mp hv with hv | hv
        · exact hin v hv
        · simp only [List.mem_singleton] at hv; subst hv; exact gpcl.inside hn)
    · exact PC.pure (h3.exit hin)
  unfold indexDefm
  refine PC.silent_bind sameFileDefset_silent h ?_
  intro dsid c0 h
  dsimp only
  have hjp : ∀ (named : Option (String × FileRange)) (nv : PTree),
      (∀ name loc, named = some (name, loc) → IdLoc f nv loc) →
      (∀ name loc, named = some (name, loc) → Got n (Ast.is .Value) nv) →
      PC (match named with
        | some (name, defineLoc) => do
          let defmId ← addDefm { name := name, defineLoc := defineLoc } dsid.isNone
          scopesPush (ScopeKind.defm defmId)
          match Ast.defmParentClassList n with
            | some parentClassList => do
              indexParentClassList r parentClassList
              scopesPop
            | x => pure ()
        | none => do
          let name ← nextAnonymousDefName
          let file ← currentFileId
          let defmId ←
            addAnonymousDefm { name := name, defineLoc := { file := file, start := n.start, stop := n.stop } }
          scopesPush (ScopeKind.defm defmId)
          match Ast.defmParentClassList n with
            | some parentClassList => do
              indexParentClassList r parentClassList
              scopesPop
            | x => pure () : IxM Unit) c0 (fun _ c' => Vis c c' f [n]) := by
    intro named nv hx hgot
    split
    · rename_i name loc
      have hloc := hx name loc rfl
      have gnv := hgot name loc rfl
      refine PC.reg_bind (addDefm_push _ _ c0) h (gnv.ok hn) hloc (by intro L hL; cases hL; rfl) (by djs hn) ?_
      intro defId c1 h
      exact hrest defId h (by ins hn) (fun b gb => by djs hn)
    · refine PC.silent_bind nextAnonymousDefName_silent h ?_
      intro name c1 h
      refine PC.silent_bind currentFileId_silent h ?_
      intro file c2 h
      refine PC.bind (addAnonymousDefm_push _ c2) ?_
      intro defId c3 hp
      exact hrest defId (h.anon hp) (by ins hn) (fun b gb => by djs hn)
  split
  · rename_i nv hnv
    have gnv := Got.child hnv
    refine PC.bind (indexNameValue_id h.cur nv) ?_
    rintro x c' ⟨hcc, hx⟩
    subst hcc
    exact hjp x nv hx (fun _ _ _ => gnv)
  · refine PC.bind (R := fun x c' => c0 = c' ∧ x = none) (PC.pure (And.intro rfl rfl)) ?_
    rintro x c' ⟨hcc, hx⟩
    subst hcc; subst hx
    exact hjp none n (by intro _ _ hh; cases hh) (by intro _ _ hh; cases hh)

theorem indexDefset_vis : VSpec ws0 (indexDefset r n) n := by
  intro c f hc
  have h := At.start hc
  unfold indexDefset
  split
  · rename_i nm hnm
    have gnm := Got.child hnm
    refine PC.ident_bind h gnm.isKind gnm.sub.2 ?_
    intro x hx
    split
    · rename_i name loc
      have hloc := hx name loc rfl
      split
      · rename_i tn htn
        have gtn := Got.child htn
        refine PC.visit_bind (hr.typ tn (gtn.ok hn)) h (by djs hn) ?_
        intro t c1 h
        split
        · rename_i typ
          refine PC.reg_bind (addDefset_push _ c1) h (gnm.ok hn) hloc (by intro L hL; cases hL; rfl)
            (by djs hn) ?_
          intro dsId c2 h
          refine PC.silent_bind (scopesPush_silent _) h ?_
          intro _ c3 h
          dsimp only
          split
          · rename_i sl hsl
            have gsl := Got.child hsl
            exact PC.visit_bind_silent (hr.statementList sl (gsl.ok hn)) h (by djs hn) (by intros; silent)
              (by ins hn)
          · exact PC.silent_last (by silent) h (by ins hn)
        · exact PC.pure (h.exit (by ins hn))
      · exact PC.pure (h.exit (by ins hn))
    · exact PC.pure (h.exit (by ins hn))
  · exact PC.pure (h.exit (by ins hn))

theorem indexMultiClass_vis : VSpec ws0 (indexMultiClass r n) n := by
  intro c f hc
  have h := At.start hc
  unfold indexMultiClass
  split
  · rename_i nm hnm
    have gnm := Got.child hnm
    refine PC.ident_bind h gnm.isKind gnm.sub.2 ?_
    intro x hx
    split
    · rename_i name loc
      have hloc := hx name loc rfl
      refine PC.reg_bind (addMulticlass_push _ c) h (gnm.ok hn) hloc (by intro L hL; cases hL; rfl)
        (by djs hn) ?_
      intro mcId c1 h
      refine PC.silent_bind (scopesPush_silent _) h ?_
      intro _ c2 h
      dsimp only
      have hjp3 : ∀ {c3 : IndexCtx} {vs : List PTree}, At ws0 c c3 f vs → (∀ v ∈ vs, Inside n v) →
          (∀ b, Got n (Ast.is .StatementList) b → ∀ a ∈ vs, Dj a b) →
          PC (match Ast.multiClassStatementList n with
            | some statementList => do
              let __r ← r.statementList statementList
              scopesPop
            | x => scopesPop : IxM Unit) c3 (fun _ c' => Vis c c' f [n]) := by
        intro c3 vs h3 hin hd
        split
        · rename_i sl hsl
          have gsl := Got.child hsl
          refine PC.visit_bind (hr.statementList sl (gsl.ok hn)) h3 (hd sl gsl) ?_
          intro _ c4 h4
          exact PC.silent_last scopesPop_silent h4 (by
            intro v hv
            rcases List.mem_append.mp hv with hv | hv
            · exact hin v hv
            · simp only [List.mem_singleton] at hv; subst hv; exact gsl.inside hn)
        · exact PC.silent_last scopesPop_silent h3 hin
      have hjp2 : ∀ {c3 : IndexCtx} {vs : List PTree}, At ws0 c c3 f vs → (∀ v ∈ vs, Inside n v) →
          (∀ b, Got n (Ast.is .StatementList) b → ∀ a ∈ vs, Dj a b) →
          (∀ b, Got n (Ast.is .ParentClassList) b → ∀ a ∈ vs, Dj a b) →
          PC (match Ast.multiClassParentClassList n with
            | some parentClassList => do
              let __r ← indexParentClassList r parentClassList
              match Ast.multiClassStatementList n with
                | some statementList => do
                  let __r ← r.statementList statementList
                  scopesPop
                | x => scopesPop
            | x =>
              match Ast.multiClassStatementList n with
                | some statementList => do
                  let __r ← r.statementList statementList
                  scopesPop
                | x => scopesPop : IxM Unit) c3 (fun _ c' => Vis c c' f [n]) := by
        intro c3 vs h3 hin hd1 hd2
        split
        · rename_i pcl hpcl
          have gpcl := Got.child hpcl
          refine PC.visit_bind (indexParentClassList_vis hr (gpcl.ok hn)) h3 (hd2 pcl gpcl) ?_
          intro _ c4 h4
          refine hjp3 h4 ?_ ?_
          · intro v hv
            rcases List.mem_append.mp hv with hv | hv
            · exact hin v hv
            · simp only [List.mem_singleton] at hv; subst hv; exact gpcl.inside hn
          · intro b gb a ha
            rcases List.mem_append.mp ha with ha | ha
            · exact hd1 b gb a ha
            · simp only [List.mem_singleton] at ha; subst ha; exact gpcl.dj gb hn (by kd)
        · exact hjp3 h3 hin hd1
      split
      · rename_i tal htal
        have gtal := Got.child htal
        refine PC.visit_bind (indexTemplateArgList_vis hr (gtal.ok hn)) h (by djs hn) ?_
        intro _ c3 h
        exact hjp2 h (by ins hn) (fun b gb => by djs hn) (fun b gb => by djs hn)
      · exact hjp2 h (by ins hn) (fun b gb => by djs hn) (fun b gb => by djs hn)
    · exact PC.pure (h.exit (by ins hn))
  · exact PC.pure (h.exit (by ins hn))

end fns

/-- every tree of the workspace is fit for the traversal -/
def WsOK (ws0 : Workspace) : Prop := ∀ g, NodeOK (ws0.tree g)

section stmts
variable (hws : WsOK ws0) (hr : RecV ws0 r) (hn : NodeOK n)
include hws hr hn

theorem indexInclude_vis : VSpec ws0 (indexInclude r n) n := by
  intro c f hc
  unfold indexInclude
  refine PC.bind (currentFileId_silent.run c) ?_
  intro fileId c1 hs1
  have hc1 := hc.sil hs1
  have hex : ∀ {c' : IndexCtx}, Vis c1 c' f [n] → Vis c c' f [n] := fun h => Vis.sil_left hs1 h
  refine PC.bind (PC.get (Q := fun a c' => c1 = a ∧ c1 = c') ⟨rfl, rfl⟩) ?_
  rintro a c' ⟨hca, hcc⟩
  subst hca
  subst hcc
  dsimp only
  split
  · exact ((error_silent _ _).run c1).mono (fun _ _ hs => hex (Vis.of_sil hs f _))
  · rename_i u hlook
    unfold markIndexed
    by_cases hidx : c1.indexedFiles.contains u = true
    · have hmem : u ∈ c1.indexedFiles := by simpa using hidx
      refine PC.bind (PC.modifyGet' (Q := fun b c' => b = false ∧ c' = c1) (by simp [hmem])) ?_
      rintro b c' ⟨hb, hcc⟩
      subst hb
      subst hcc
      exact PC.pure (hex (Vis.refl _ _ _))
    · have hni : u ∉ c1.indexedFiles := by simpa using hidx
      refine PC.bind (PC.modifyGet' (Q := fun b c' => b = true ∧
        c' = { c1 with indexedFiles := u :: c1.indexedFiles }) (by simp [hni])) ?_
      rintro _ c2 ⟨rfl, hc2⟩
      simp only [Bool.not_true, Bool.false_eq_true, if_false]
      split
      · rename_i sf hsf
        have hsf' : sf = c1.ws.tree u := by
          unfold Ast.sourceFileCast at hsf
          split at hsf
          · cases hsf; rfl
          · cases hsf
        unfold pushFile
        refine PC.bind (PC.modify (Q := fun _ c' => c' = { c2 with fileTrace := u :: c2.fileTrace }) rfl) ?_
        rintro _ c3 hc3
        have hcur3 : Cur ws0 c3 u := by
          subst hc3; subst hc2
          exact ⟨hc1.ws, rfl, by simp⟩
        have hok : NodeOK sf := by rw [hsf', hc1.ws]; exact hws u
        refine PC.bind (hr.sourceFile sf hok c3 u hcur3) ?_
        intro _ c4 h4
        unfold popFile
        refine PC.bind (PC.get (Q := fun a c' => c4 = a ∧ c4 = c') ⟨rfl, rfl⟩) ?_
        rintro a c' ⟨hca, hcc⟩
        subst hca
        subst hcc
        have htr4 : c4.fileTrace = u :: c1.fileTrace := by rw [h4.trace, hc3, hc2]
        rw [htr4]
        refine PC.modify ?_
        refine hex ?_
        obtain ⟨new, e1, r1, a1⟩ := h4.seg
        have hops3 : c3.symbolMap.ops = c1.symbolMap.ops := by rw [hc3, hc2]
        have hidx3 : c3.indexedFiles = u :: c1.indexedFiles := by rw [hc3, hc2]
        have hws3 : c3.ws = c1.ws := by rw [hc3, hc2]
        refine ⟨h4.ws.trans hws3, rfl, fun g hg => h4.idx g (by rw [hidx3]; exact List.mem_cons_of_mem _ hg),
          new, by rw [← hops3]; exact e1, r1, ?_⟩
        intro o ho L hL
        right
        rcases a1 o ho L hL with ⟨hf, _⟩ | ⟨hnf, hin⟩
        · exact ⟨by rw [hf]; exact hni, h4.idx _ (by rw [hf, hidx3]; simp)⟩
        · exact ⟨fun hc' => hnf (by rw [hidx3]; exact List.mem_cons_of_mem _ hc'), hin⟩
      · refine PC.pure (hex ?_)
        subst hc2
        exact ⟨rfl, rfl, fun g hg => List.mem_cons_of_mem _ hg, [], by simp, NoReuse.nil, by intro o ho; cases ho⟩

theorem indexStatement_vis : VSpec ws0 (indexStatement r n) n := by
  unfold indexStatement
  split
  · exact indexInclude_vis hws hr hn
  · exact indexAssert_vis hr hn
  · exact indexClass_vis hr hn
  · exact indexDef_vis hr hn
  · exact indexDefm_vis hr hn
  · exact indexDefset_vis hr hn
  · exact indexDefvar_vis hr hn
  · exact indexDump_vis hr hn
  · exact indexForeach_vis hr hn
  · exact indexIf_vis hr hn
  · exact indexLet_vis hr hn
  · exact indexMultiClass_vis hr hn
  · exact fun c f _ => PC.pure (Vis.refl c f _)

theorem indexStatementList_vis : VSpec ws0 (indexStatementList r n) n := by
  intro c f hc
  unfold indexStatementList
  refine PC.bind (children_loop hr hn (p := Ast.isAny Ast.statementKinds) ?_ c f hc) ?_
  · intro x gx b c1 f1 hc1
    refine PC.bind (indexStatement_vis hws hr (gx.ok hn) c1 f1 hc1) ?_
    intro _ c2 h2
    exact PC.pure h2
  · intro _ c1 h1
    exact PC.pure (h1.inside (children_inside hr hn _))

end stmts

/-! ### types and values -/

theorem filterMap_ordered {l : List PTree} {g : PTree → Option PTree}
    (hpw : l.Pairwise (fun a b => a.stop ≤ b.start)) (hg : ∀ a ∈ l, ∀ b, g a = some b → Inside a b) :
    (l.filterMap g).Pairwise (fun a b => a.stop ≤ b.start) := by
  induction l with
  | nil => simp
  | cons x xs ih =>
    rw [List.pairwise_cons] at hpw
    have ih' := ih hpw.2 (fun a ha => hg a (List.mem_cons_of_mem _ ha))
    rw [List.filterMap_cons]
    split
    · exact ih'
    · rename_i y hy
      rw [List.pairwise_cons]
      refine ⟨?_, ih'⟩
      intro z hz
      simp only [List.mem_filterMap] at hz
      obtain ⟨w, hw, hwz⟩ := hz
      have h1 := hg x (by simp) y hy
      have h2 := hg w (List.mem_cons_of_mem _ hw) z hwz
      have h3 := hpw.1 w hw
      unfold Inside at h1 h2
      omega

section values
variable (hr : RecV ws0 r) (hn : NodeOK n)
include hr hn

theorem indexType_vis : VSpec ws0 (indexType r n) n := by
  intro c f hc
  have h := At.start hc
  unfold indexType
  split
  · exact PC.pure (h.exit (by ins hn))
  · exact PC.pure (h.exit (by ins hn))
  · exact PC.pure (h.exit (by ins hn))
  · exact PC.pure (h.exit (by ins hn))
  · exact PC.pure (h.exit (by ins hn))
  · split
    · split
      · split <;> exact PC.pure (h.exit (by ins hn))
      · exact PC.pure (h.exit (by ins hn))
    · exact PC.pure (h.exit (by ins hn))
  · split
    · rename_i inner hinner
      have ginner := Got.child hinner
      exact PC.visit_bind_silent (hr.typ inner (ginner.ok hn)) h (by djs hn) (by intros; silent) (by ins hn)
    · exact PC.pure (h.exit (by ins hn))
  · split
    · rename_i nm hnm
      have gnm := Got.child hnm
      refine PC.ident_bind h gnm.isKind gnm.sub.2 ?_
      intro x hx
      split
      · rename_i name loc
        have hloc := hx name loc rfl
        refine PC.silent_bind (Silent.withSM _) h ?_
        intro fc c1 h
        split
        · rename_i classId
          refine PC.reg_bind (addReference_push _ _ c1) h (gnm.ok hn) hloc (by intro L hL; cases hL; rfl)
            (by djs hn) ?_
          intro _ c2 h
          exact PC.pure (h.exit (by ins hn))
        · exact PC.silent_last (by silent) h (by ins hn)
      · exact PC.pure (h.exit (by ins hn))
    · exact PC.pure (h.exit (by ins hn))
  · exact PC.pure (h.exit (by ins hn))

omit hr in
theorem indexIdentifierValue_vis (hk : n.kind = .Identifier) (hnode : n.isNode = true) :
    VSpec ws0 (indexIdentifierValue n) n := by
  intro c f hc
  have h := At.start hc
  have hin : Inside n n := Inside.refl n
  unfold indexIdentifierValue
  refine PC.ident_bind h hk hnode ?_
  intro x hx
  split
  · rename_i name loc
    have hloc := hx name loc rfl
    refine PC.silent_bind (resolveId_silent _) h ?_
    intro y c1 h
    split
    · rename_i symbolId
      refine PC.reg_bind (addReference_push _ _ c1) h hn hloc (by intro L hL; cases hL; rfl) (by djs hn) ?_
      intro _ c2 h
      exact PC.silent_last (by silent) h (by ins hn)
    · exact PC.silent_last (by silent) h (by ins hn)
  · exact PC.pure (h.exit (by ins hn))

theorem indexClassValue_vis : VSpec ws0 (indexClassValue r n) n := by
  intro c f hc
  have h := At.start hc
  unfold indexClassValue
  split
  · rename_i nm hnm
    have gnm := Got.child hnm
    refine PC.ident_bind h gnm.isKind gnm.sub.2 ?_
    intro x hx
    split
    · rename_i name loc
      have hloc := hx name loc rfl
      refine PC.silent_bind (Silent.withSM _) h ?_
      intro fc c1 h
      split
      · rename_i classId
        refine PC.reg_bind (addReference_push _ _ c1) h (gnm.ok hn) hloc (by intro L hL; cases hL; rfl)
          (by djs hn) ?_
        intro _ c2 h
        refine PC.silent_bind (Silent.withSM _) h ?_
        intro nta c3 h
        refine PC.silent_bind (templateArgsOf_silent _) h ?_
        intro tas c4 h
        dsimp only
        split
        · rename_i l hl
          have gl := Got.child hl
          exact PC.visit_bind_silent (indexArgValueList_vis hr (gl.ok hn)) h (by djs hn) (by intros; silent)
            (by ins hn)
        · exact PC.silent_last (by silent) h (by ins hn)
      · exact PC.silent_last (by silent) h (by ins hn)
    · exact PC.pure (h.exit (by ins hn))
  · exact PC.pure (h.exit (by ins hn))

/-- a loop that indexes the values of a `ValueList` child -/
theorem valueList_loop {vl : PTree} (gvl : Got n (Ast.is .ValueList) vl) {σ : Type} {init : σ}
    {body : PTree → σ → IxM (ForInStep σ)} (hbody : ∀ x, NodeOK x → ∀ b, VSpec ws0 (body x b) x) :
    ∀ c f, Cur ws0 c f → PC (forIn (Ast.valueListValues vl) init body) c (fun _ c' => Vis c c' f [n]) := by
  intro c f hc
  have hvl := gvl.ok hn
  refine (forIn_vis (Ast.children_sorted hvl _) (fun x hx b => hbody x ((Got.mem hx).ok hvl) b) c f hc).mono ?_
  intro _ c1 h1
  exact h1.inside (fun v hv => (gvl.inside hn).trans ((Got.mem hv).inside hvl))

omit hn in
/-- the same loop, as a visit of the `ValueList` node itself -/
theorem valueList_loop' {vl : PTree} (hvl : NodeOK vl) {σ : Type} {init : σ}
    {body : PTree → σ → IxM (ForInStep σ)} (hbody : ∀ x, NodeOK x → ∀ b, VSpec ws0 (body x b) x) :
    VSpec ws0 (forIn (Ast.valueListValues vl) init body) vl := by
  intro c f hc
  refine (forIn_vis (Ast.children_sorted hvl _) (fun x hx b => hbody x ((Got.mem hx).ok hvl) b) c f hc).mono ?_
  intro _ c1 h1
  exact h1.inside (fun v hv => (Got.mem hv).inside hvl)

theorem indexSimpleValue_vis (hnode : n.isNode = true) : VSpec ws0 (indexSimpleValue r n) n := by
  intro c f hc
  have h := At.start hc
  have hvalue : ∀ (x : PTree), NodeOK x → ∀ {σ : Type} (k : Option Ty → IxM σ), (∀ t, Silent (k t)) →
      VSpec ws0 (r.value x >>= k) x := fun x hx σ k hk => (hr.value x hx).bind_silent hk
  unfold indexSimpleValue
  split
  · exact PC.pure (h.exit (by ins hn))
  · exact PC.pure (h.exit (by ins hn))
  · exact PC.pure (h.exit (by ins hn))
  · exact PC.pure (h.exit (by ins hn))
  · exact PC.pure (h.exit (by ins hn))
  · -- Bits
    split
    · rename_i vl hvl
      have gvl := Got.child hvl
      refine PC.bind (valueList_loop hr hn gvl (fun x hx b => hvalue x hx _ (by intros; silent)) c f hc) ?_
      intro _ c1 h1
      exact PC.pure h1
    · exact PC.pure (h.exit (by ins hn))
  · -- List
    split
    · rename_i vl hvl
      have gvl := Got.child hvl
      dsimp only
      refine PC.visit_bind (valueList_loop' hr (gvl.ok hn) (fun x hx b => hvalue x hx _ (by intros; silent))) h
        (by djs hn) ?_
      intro vts c1 h
      split
      · rename_i tn htn
        have gtn := Got.child htn
        refine PC.visit_bind (hr.typ tn (gtn.ok hn)) h (by djs hn) ?_
        intro t c2 h
        split
        · exact PC.silent_last (by silent) h (by ins hn)
        · exact PC.pure (h.exit (by ins hn))
      · exact PC.silent_last (by silent) h (by ins hn)
    · exact PC.pure (h.exit (by ins hn))
  · -- Dag
    dsimp only
    have hjp : ∀ {c1 : IndexCtx} {vs : List PTree}, At ws0 c c1 f vs → (∀ v ∈ vs, Inside n v) →
        (∀ b, Got n (Ast.is .DagArgList) b → ∀ a ∈ vs, Dj a b) →
        PC (match Ast.dagArgList n with
          | some argList => do
            forIn (List.filterMap Ast.dagArgValue (Ast.dagArgListArgs argList)) PUnit.unit fun value __s => do
                let _ ← r.value value
                pure (ForInStep.yield PUnit.unit)
            pure (some Ty.dag)
          | x => pure (some Ty.dag) : IxM (Option Ty)) c1 (fun _ c' => Vis c c' f [n]) := by
      intro c1 vs h1 hin hd
      split
      · rename_i al hal
        have gal := Got.child hal
        have hal' := gal.ok hn
        have hmem : ∀ v ∈ List.filterMap Ast.dagArgValue (Ast.dagArgListArgs al),
            ∃ d, Got al (Ast.is .DagArg) d ∧ Got d (Ast.is .Value) v := by
          intro v hv
          simp only [List.mem_filterMap] at hv
          obtain ⟨d, hd', hdv⟩ := hv
          exact ⟨d, Got.mem hd', Got.child hdv⟩
        have hord : (List.filterMap Ast.dagArgValue (Ast.dagArgListArgs al)).Pairwise
            (fun a b => a.stop ≤ b.start) :=
          filterMap_ordered (Ast.children_sorted hal' _) (fun a ha b hb =>
            (Got.child (p := Ast.is .Value) hb).inside ((Got.mem ha).ok hal'))
        have hinal : ∀ v ∈ List.filterMap Ast.dagArgValue (Ast.dagArgListArgs al), Inside al v := by
          intro v hv
          obtain ⟨d, gd, gv⟩ := hmem v hv
          exact (gd.inside hal').trans (gv.inside (gd.ok hal'))
        refine PC.visitL_bind (forIn_vis hord ?_) h1 ?_ ?_
        · intro x hx b
          obtain ⟨d, gd, gv⟩ := hmem x hx
          exact hvalue x (gv.ok (gd.ok hal')) _ (by intros; silent)
        · intro a ha b hb
          exact (hd al gal a ha).inside (Inside.refl a) (hinal b hb)
        · intro _ c2 h2
          refine PC.pure (h2.exit ?_)
          intro v hv
          rcases List.mem_append.mp hv with hv | hv
          · exact hin v hv
          · exact (gal.inside hn).trans (hinal v hv)
      · exact PC.pure (h1.exit hin)
    split
    · rename_i v hv
      simp only [Option.bind_eq_some_iff] at hv
      obtain ⟨d, hd, hdv⟩ := hv
      have gd := Got.child hd
      have gv := Got.child hdv
      have hiv : Inside n v := (gd.inside hn).trans (gv.inside (gd.ok hn))
      refine PC.visit_bind (hr.value v (gv.ok (gd.ok hn))) h (by djs hn) ?_
      intro _ c1 h1
      refine hjp h1 (by ins hn) ?_
      intro b gb a ha
      simp only [List.nil_append, List.mem_singleton] at ha
      subst ha
      exact (gd.dj gb hn (by kd)).inside (gv.inside (gd.ok hn)) (Inside.refl b)
    · exact hjp h (by ins hn) (fun b gb => by djs hn)
  · rename_i hkind
    exact indexIdentifierValue_vis hn hkind hnode c f hc
  · exact indexClassValue_vis hr hn c f hc
  · exact Bang.indexBangOperator_vis hr hn c f hc
  · -- CondOperator
    refine PC.bind (children_loop hr hn (p := Ast.is .CondClause) ?_ c f hc) ?_
    · intro cl gcl b c1 f1 hc1
      have hcl := gcl.ok hn
      have h1 := At.start hc1
      dsimp only
      have hjp : ∀ {c2 : IndexCtx} {vs : List PTree}, At ws0 c1 c2 f1 vs → (∀ v ∈ vs, Inside cl v) →
          (∀ v, Ast.condClauseValue cl = some v → ∀ a ∈ vs, Dj a v) →
          PC (match Ast.condClauseValue cl with
            | some value => do
              let valueTyp ← r.value value
              if b.isNone = true then pure (ForInStep.yield valueTyp) else pure (ForInStep.yield b)
            | x => pure (ForInStep.yield b) : IxM (ForInStep (Option Ty))) c2 (fun _ c' => Vis c1 c' f1 [cl]) := by
        intro c2 vs h2 hin hd
        split
        · rename_i v hv
          have gv := Got.nth hv
          refine PC.visit_bind_silent (hr.value v (gv.ok hcl)) h2 (hd v hv) (by intros; silent) ?_
          intro w hw
          rcases List.mem_append.mp hw with hw | hw
          · exact hin w hw
          · simp only [List.mem_singleton] at hw; subst hw; exact gv.inside hcl
        · exact PC.pure (h2.exit hin)
      split
      · rename_i cd hcd
        have gcd := Got.nth hcd
        refine PC.visit_bind (hr.value cd (gcd.ok hcl)) h1 (by djs hcl) ?_
        intro _ c2 h2
        refine hjp h2 (by ins hcl) ?_
        intro v hv a ha
        simp only [List.nil_append, List.mem_singleton] at ha
        subst ha
        exact Ast.nthChild_dj hcl hcd hv (by decide)
      · exact hjp h1 (by ins hcl) (fun v hv => by djs hcl)
    · intro _ c1 h1
      exact PC.pure (h1.inside (children_inside hr hn _))
  · exact PC.pure (h.exit (by ins hn))

theorem indexInnerValue_vis : VSpec ws0 (indexInnerValue r n) n := by
  intro c f hc
  have h := At.start hc
  unfold indexInnerValue
  split
  · rename_i sv hsv
    have gsv := Got.child hsv
    refine PC.visit_bind (indexSimpleValue_vis hr (gsv.ok hn) gsv.sub.2) h (by djs hn) ?_
    intro t c1 h
    split
    · dsimp only
      refine PC.visitL_bind (children_loop hr hn (p := Ast.isAny Ast.valueSuffixKinds) ?_) h ?_ ?_
      · intro sfx gsfx b c2 f2 hc2
        have hs := gsfx.ok hn
        have h2 := At.start hc2
        split
        · split <;> exact PC.pure (h2.exit (by ins hs))
        · split
          · split <;> exact PC.pure (h2.exit (by ins hs))
          · exact PC.pure (h2.exit (by ins hs))
        · split
          · rename_i nm hnm
            have gnm := Got.child hnm
            refine PC.ident_bind h2 gnm.isKind gnm.sub.2 ?_
            intro x hx
            split
            · rename_i name loc
              have hloc := hx name loc rfl
              refine PC.silent_bind (Silent.withSM _) h2 ?_
              intro ff c3 h3
              split
              · rename_i fieldId
                refine PC.reg_bind (addReference_push _ _ c3) h3 (gnm.ok hs) hloc (by intro L hL; cases hL; rfl)
                  (by djs hs) ?_
                intro _ c4 h4
                exact PC.silent_last (by silent) h4 (by ins hs)
              · exact PC.silent_last (by silent) h3 (by ins hs)
            · exact PC.pure (h2.exit (by ins hs))
          · exact PC.pure (h2.exit (by ins hs))
      · intro a ha b hb
        simp only [List.nil_append, List.mem_singleton] at ha
        subst ha
        exact gsv.dj (Got.mem hb) hn (by kd)
      · intro st c2 h2
        have hin : ∀ v ∈ [] ++ [sv] ++ Ast.innerValueSuffixes n, Inside n v := by
          intro v hv
          simp only [List.nil_append, List.cons_append, List.mem_cons] at hv
          rcases hv with rfl | hv
          · exact gsv.inside hn
          · exact (Got.mem hv).inside hn
        split <;> exact PC.pure (h2.exit hin)
    · exact PC.pure (h.exit (by ins hn))
  · exact PC.pure (h.exit (by ins hn))

theorem indexValue_vis : VSpec ws0 (indexValue r n) n := by
  intro c f hc
  have h := At.start hc
  unfold indexValue
  dsimp only
  split
  · rename_i fv hfv
    have gfv := Got.head hfv
    have hl : Ast.valueInnerValues n = fv :: (Ast.valueInnerValues n).tail := by
      cases hh : Ast.valueInnerValues n with
      | nil => rw [hh] at hfv; cases hfv
      | cons x xs => rw [hh] at hfv; cases hfv; rfl
    have hord := Ast.children_sorted hn (Ast.is .InnerValue)
    have hord' : (fv :: (Ast.valueInnerValues n).tail).Pairwise (fun a b => a.stop ≤ b.start) := by
      rw [← hl]; exact hord
    rw [List.pairwise_cons] at hord'
    have hmem : ∀ v ∈ (Ast.valueInnerValues n).tail, Got n (Ast.is .InnerValue) v :=
      fun v hv => Got.mem (List.mem_of_mem_tail hv)
    refine PC.visit_bind (indexInnerValue_vis hr (gfv.ok hn)) h (by djs hn) ?_
    intro t c1 h
    refine PC.visitL_bind (forIn_vis hord'.2 ?_) h ?_ ?_
    · intro x hx b
      exact (indexInnerValue_vis hr ((hmem x hx).ok hn)).bind_silent (by intros; silent)
    · intro a ha b hb
      simp only [List.nil_append, List.mem_singleton] at ha
      subst ha
      exact Or.inl (hord'.1 b hb)
    · intro _ c2 h2
      have hin : ∀ v ∈ [] ++ [fv] ++ (Ast.valueInnerValues n).tail, Inside n v := by
        intro v hv
        simp only [List.nil_append, List.cons_append, List.mem_cons] at hv
        rcases hv with rfl | hv
        · exact gfv.inside hn
        · exact (hmem v hv).inside hn
      split
      · exact PC.pure (h2.exit hin)
      · exact PC.pure (h2.exit hin)
      · split <;> exact PC.pure (h2.exit hin)
  · exact PC.pure (h.exit (by ins hn))

end values

/-! ### the knot -/

theorem mkRec_vis (hws : WsOK ws0) : ∀ fuel : Nat, RecV ws0 (mkRec fuel)
  | 0 => ⟨fun _ _ _ _ _ => PC.panic, fun _ _ _ _ _ => PC.panic, fun _ _ _ _ _ => PC.panic,
      fun _ _ _ _ _ => PC.panic⟩
  | fuel + 1 => by
    have ih := mkRec_vis hws fuel
    exact ⟨fun n hn => indexSourceFile_vis ih hn, fun n hn => indexStatementList_vis hws ih hn,
      fun n hn => indexValue_vis ih hn, fun n hn => indexType_vis ih hn⟩

/-- **linearity of the traversal**: in the hook log of the indexer, after a `reference` at a location
nothing is registered at that location again — provided every tree of the workspace has consistent
offsets and its identifier nodes begin with a non-empty token -/
theorem index_noReuse {ws : Workspace} (hws : WsOK ws) {res : IndexResult}
    (h : Index.index ws = .ok res) : NoReuse res.symbolMap.ops.toList := by
  unfold Index.index at h
  split at h
  · cases h
  · rename_i sf hsf
    have hsf' : sf = ws.tree ws.root := by
      unfold Ast.sourceFileCast at hsf
      split at hsf
      · cases hsf; rfl
      · cases hsf
    split at h
    · cases h
    · rename_i u ctx hrun
      cases h
      have hcur : Cur ws (IndexCtx.new ws) ws.root := ⟨rfl, rfl, by simp [IndexCtx.new]⟩
      have hv := indexSourceFile_vis (mkRec_vis hws ws.depthBound) (hsf' ▸ hws ws.root) (IndexCtx.new ws) ws.root
        hcur u ctx hrun
      obtain ⟨new, e1, r1, _⟩ := hv.seg
      have : (IndexCtx.new ws).symbolMap.ops.toList = [] := by simp [IndexCtx.new]
      rw [this, List.nil_append] at e1
      show NoReuse ctx.symbolMap.ops.toList
      rw [e1]; exact r1

end Index
end Ide
end Tg
