/-
C04 converse for values (part 1): the value shape predicate, comma-separated lists by the number of
tokens left, the one-token values and the value suffixes.

`VShape w`: none of the token patterns of `valuePatterns` occurs in the value word `w`.  They name the
places where the value parser takes more than the documented `Value` has:
* `StrVal StrVal`                — string-concat
* `< code`                       — type-code (`!cast<code>(…)`, `list<code>`)
* `[ ]`, `{ }`, `( )`            — empty-value-list (`[]`, `{}`, `!op()`, `!cond()`)
* `, ]`, `, }`, `, )`            — trailing comma in a value list (this also excludes the documented
                                   trailing comma of a slice `x[1,]`)
* `] <`                          — list-type-suffix (`[1, 2]<int>`)
-/
import TgModel.Lemmas.C04ConvStmt

namespace Tg
namespace C04L
open Prog Grammar Frag Doc

local notation "rcv" => Tables.recoverTokens

/-- the token patterns the value shape excludes -/
def valuePatterns : List (List TokenKind) :=
  [[.StrVal, .StrVal], [.Less, .Code], [.LSquare, .RSquare], [.LBrace, .RBrace], [.LParen, .RParen],
   [.Comma, .RSquare], [.Comma, .RBrace], [.Comma, .RParen], [.RSquare, .Less]]

/-- **the value shape predicate** -/
def VShape (w : List TokenKind) : Prop := ∀ pat ∈ valuePatterns, occurs pat w = false

instance decVShape (w : List TokenKind) : Decidable (VShape w) := by unfold VShape; infer_instance

theorem VShape.infix {u v x : List TokenKind} (h : VShape (u ++ v ++ x)) : VShape v :=
  fun pat hp => occurs_infix (h pat hp)

theorem VShape.left {u v : List TokenKind} (h : VShape (u ++ v)) : VShape u :=
  VShape.infix (u := []) (by simpa using h)

theorem VShape.right {u v : List TokenKind} (h : VShape (u ++ v)) : VShape v :=
  VShape.infix (u := u) (x := []) (by simpa using h)

theorem VShape.tail {p : TokenKind} {v : List TokenKind} (h : VShape (p :: v)) : VShape v :=
  VShape.right (u := [p]) h

theorem VShape.not_pat {pat : List TokenKind} (hp : pat ∈ valuePatterns) (hne : pat ≠ []) (u x : List TokenKind)
    (h : VShape (u ++ (pat ++ x))) : False := by
  have := h pat hp
  rw [occurs_append_right pat u (occurs_prefix x (by rw [List.isPrefixOf_iff_prefix]; exact List.prefix_refl _) hne)] at this
  cases this

/-- a type after `<` inside a value -/
theorem ty_docV {t : Ty} (hs : VShape (TokenKind.Less :: t.render)) : Derives (.nt .Type_) t.render := by
  apply d_type
  cases hu : t.usesCode
  · rfl
  · exfalso
    rcases usesCode_shape t hu with rfl | ho
    · exact VShape.not_pat (pat := [TokenKind.Less, TokenKind.Code]) (by decide) (by simp) [] []
        (by simpa [Ty.render] using hs)
    · have := hs [TokenKind.Less, TokenKind.Code] (by decide)
      have h2 := occurs_append_right _ [TokenKind.Less] ho
      simp only [List.cons_append, List.nil_append] at h2
      rw [h2] at this
      cases this

/-- what a value function achieved on a clean run -/
def VConv (s s' : PState) (A : E) : Prop :=
  ∃ w, s.kinds = w ++ s'.kinds ∧ s'.afterError = false ∧ (VShape w → Derives A w)

/-- induction hypothesis: the converse for `value` on every state with fewer than `L` tokens left -/
def ValH (L : Nat) : Prop :=
  ∀ (n : Nat) (s s' : PState), s.kinds.length < L → exec defs rcv n (call .value) s = .ok s' →
    Clean s s' → VConv s s' (.nt .Value_)

/-! ### separator loops, by the number of tokens left -/

theorem sepL_inv (L : Nat) (stop : List TokenKind) (item : Prog) (Q : List TokenKind → Prop)
    (hitem : ∀ (n : Nat) (a b : PState), a.kinds.length < L → exec defs rcv n item a = .ok b → Clean a b →
      ∃ w, a.kinds = w ++ b.kinds ∧ b.afterError = false ∧ Q w) :
    ∀ (n : Nat) (s s' : PState), s.kinds.length < L →
      exec defs rcv n (loop (ifAt stop (retB false) (seq item (eatIf .Comma))) nop) s = .ok s' → Clean s s' →
      s.afterError = false →
      ∃ w b, s.kinds = w ++ s'.kinds ∧ s'.afterError = false ∧ SepList Q b w ∧
        (b = true → stop.contains s'.cur = true) := by
  intro n
  induction n with
  | zero => intro s s' _ h; simp [exec] at h
  | succ n ih =>
    intro s s' hl h hc ha
    obtain ⟨s1, h1, c1, hcase⟩ := loop_inv h hc
    have h1 := lift_fuel h1 5
    rcases ifAt_inv defs rcv h1 with ⟨hstop, h1⟩ | ⟨_, h1⟩
    · have e1 := retB_inv defs rcv h1; subst e1
      rcases hcase with ⟨_, rfl⟩ | ⟨hf, _⟩
      · exact ⟨[], true, rfl, ha, SepList.nil, fun _ => hstop⟩
      · simp at hf
    · obtain ⟨sa, h2, c2, h3, c3⟩ := seq_inv defs rcv h1 c1
      obtain ⟨w1, k1, a1, q1⟩ := hitem _ _ _ hl h2 c2
      rcases eatIf_clean (by decide) h3 with ⟨_, hfl, kc, ac, _⟩ | ⟨hne, rfl⟩
      · rcases hcase with ⟨hf, _⟩ | ⟨_, s2, hb, _, hl2, cl⟩
        · rw [hfl] at hf; cases hf
        · have e2 := nop_inv defs rcv (lift_fuel hb 1)
          rw [e2] at hl2 cl
          have l1 : s1.kinds.length < L := by
            have : s.kinds = (w1 ++ [TokenKind.Comma]) ++ s1.kinds := by rw [k1, kc]; simp
            exact Nat.lt_of_le_of_lt (kinds_len_le this) hl
          obtain ⟨w2, b, k2, a2, sl, hs1⟩ := ih _ _ l1 hl2 cl ac
          exact ⟨w1 ++ TokenKind.Comma :: w2, b, by rw [k1, kc, k2]; simp, a2, SepList.cons q1 sl, hs1⟩
      · rcases hcase with ⟨_, rfl⟩ | ⟨hf, _⟩
        · exact ⟨w1, false, k1, a1, SepList.last q1, fun hb => by cases hb⟩
        · simp at hf

/-- items that derive from `A` under the value shape -/
def QV (A : E) (w : List TokenKind) : Prop := VShape w → Derives A w

theorem sepV_star {A : E} {w : List TokenKind} (h : SepList (QV A) false w) (hT : VShape w) :
    Derives (.star (.seq (.tok [TokenKind.Comma]) A)) (TokenKind.Comma :: w) := by
  generalize hb : false = b at h
  induction h with
  | nil => cases hb
  | last hq => exact d_cast (Derives.starCons (d_tokSeq (List.mem_singleton.mpr rfl) (hq hT)) Derives.starNil) (by simp)
  | @cons u rest b hq _ ih =>
    have h1 : VShape u := hT.left
    have h2 : VShape rest := (hT.right (u := u)).tail
    exact d_cast (Derives.starCons (d_tokSeq (List.mem_singleton.mpr rfl) (hq h1)) (ih h2 hb)) (by simp)

theorem sepV_derives {A : E} {w : List TokenKind} (h : SepList (QV A) false w) (hT : VShape w) :
    Derives (.seq A (.star (.seq (.tok [TokenKind.Comma]) A))) w := by
  cases h with
  | last hq => exact d_seq_nil (hq hT) Derives.starNil
  | @cons u rest _ hq hr =>
    have h1 : VShape u := hT.left
    have h2 : VShape rest := (hT.right (u := u)).tail
    exact Derives.seq (hq h1) (sepV_star hr h2)

/-- `expect(k)` when the look-ahead is `k` -/
theorem expect_hit {n : Nat} {k : TokenKind} {msg : Option String} {s s' : PState} (hp : plain k = true)
    (hk : s.cur = k) (h : exec defs rcv (n+1) (expect k msg) s = .ok s') :
    s.kinds = k :: s'.kinds ∧ s'.afterError = false ∧ Norm s' := by
  rw [exec] at h
  have : (s.cur == k) = true := by rw [hk]; simp
  rw [if_pos this] at h
  have hp' : k.isTrivia = false ∧ k ≠ .Error ∧ k ≠ .Eof := by simpa [plain, and_assoc] using hp
  have hn : Norm s := by unfold Norm; rw [hk]; exact hp'.1
  obtain ⟨h1, h2, _, h4⟩ := eat_props hn (by rw [hk]; exact hp'.2.1) (by rw [hk]; exact hp'.2.2) h
  exact ⟨by rw [h1, hk], h4, h2⟩

/-- **`bra item ("," item)* ket`** (`grammar::delimited`), entered at `bra` -/
theorem delim_inv (L : Nat) (bra ket : TokenKind) (item : Prog) (Q : List TokenKind → Prop)
    (hb : plain bra = true) (hk : plain ket = true)
    (hitem : ∀ (n : Nat) (a b : PState), a.kinds.length < L → exec defs rcv n item a = .ok b → Clean a b →
      ∃ w, a.kinds = w ++ b.kinds ∧ b.afterError = false ∧ Q w)
    (n : Nat) (s s' : PState) (hl : s.kinds.length ≤ L) (hcur : s.cur = bra ∨ s.afterError = false)
    (h : exec defs rcv n (delimited bra ket .Comma item) s = .ok s') (hc : Clean s s') :
    ∃ ws b, s.kinds = bra :: (ws ++ ket :: s'.kinds) ∧ s'.afterError = false ∧ Norm s' ∧ SepList Q b ws := by
  have h := lift_fuel h 10
  simp only [delimited, seqs] at h
  obtain ⟨s1, h1, c1, h, hc⟩ := seq_inv defs rcv h hc
  have e1 : s.kinds = bra :: s1.kinds ∧ s1.afterError = false ∧ Norm s1 := by
    rcases hcur with hcur | ha
    · exact expect_hit hb hcur h1
    · exact expect_cleanN hb h1 c1 ha
  obtain ⟨k1, a1, n1⟩ := e1
  obtain ⟨s2, h2, c2, h3, c3⟩ := seq_inv defs rcv h hc
  have l1 : s1.kinds.length < L := by
    have : s.kinds = [bra] ++ s1.kinds := k1
    exact Nat.lt_of_lt_of_le (kinds_len_lt this (by simp)) hl
  obtain ⟨ws, b, k2, a2, sl, _⟩ := sepL_inv L _ _ Q hitem _ _ _ l1 h2 c2 a1
  obtain ⟨k3, a3, n3⟩ := expect_cleanN hk h3 c3 a2
  exact ⟨ws, b, by rw [k1, k2, k3], a3, n3, sl⟩

/-- the documented content of a delimited list, under the value shape -/
theorem delim_derives {bra ket : TokenKind} {A : E} {ws x : List TokenKind} {b : Bool}
    (h1 : [bra, ket] ∈ valuePatterns) (h2 : [TokenKind.Comma, ket] ∈ valuePatterns)
    (sl : SepList (QV A) b ws) (hs : VShape (bra :: (ws ++ ket :: x))) :
    Derives (.seq A (.star (.seq (.tok [TokenKind.Comma]) A))) ws := by
  cases b with
  | true =>
    exfalso
    rcases sl.true_shape with rfl | ⟨u, rfl⟩
    · exact VShape.not_pat h1 (by simp) [] x (by simpa using hs)
    · exact VShape.not_pat h2 (by simp) (bra :: u) x (by simpa using hs)
  | false =>
    have : VShape ws := VShape.infix (u := [bra]) (x := ket :: x) (by simpa using hs)
    exact sepV_derives sl this

/-! ### `SimpleValue` alternatives -/

theorem sv0 {w : List TokenKind} (h : Derives (.nt .Integer_) w) : Derives (.nt .SimpleValue_) w :=
  Derives.nt (Derives.altL h)
theorem sv1 {w : List TokenKind} (h : Derives (.nt .String_) w) : Derives (.nt .SimpleValue_) w :=
  Derives.nt (Derives.altR (Derives.altL h))
theorem sv2 {w : List TokenKind} (h : Derives (.nt .Code_) w) : Derives (.nt .SimpleValue_) w :=
  Derives.nt (Derives.altR (Derives.altR (Derives.altL h)))
theorem sv3 {w : List TokenKind} (h : Derives (.nt .Boolean_) w) : Derives (.nt .SimpleValue_) w :=
  Derives.nt (Derives.altR (Derives.altR (Derives.altR (Derives.altL h))))
theorem sv4 {w : List TokenKind} (h : Derives (.nt .Uninitialized_) w) : Derives (.nt .SimpleValue_) w :=
  Derives.nt (Derives.altR (Derives.altR (Derives.altR (Derives.altR (Derives.altL h)))))
theorem sv5 {w : List TokenKind} (h : Derives (.nt .Bits_) w) : Derives (.nt .SimpleValue_) w :=
  Derives.nt (Derives.altR (Derives.altR (Derives.altR (Derives.altR (Derives.altR (Derives.altL h))))))
theorem sv6 {w : List TokenKind} (h : Derives (.nt .List_) w) : Derives (.nt .SimpleValue_) w :=
  Derives.nt (Derives.altR (Derives.altR (Derives.altR (Derives.altR (Derives.altR (Derives.altR (Derives.altL h)))))))
theorem sv7 {w : List TokenKind} (h : Derives (.nt .Dag_) w) : Derives (.nt .SimpleValue_) w :=
  Derives.nt (Derives.altR (Derives.altR (Derives.altR (Derives.altR (Derives.altR (Derives.altR (Derives.altR
    (Derives.altL h))))))))
theorem sv8 {w : List TokenKind} (h : Derives (.nt .Identifier_) w) : Derives (.nt .SimpleValue_) w :=
  Derives.nt (Derives.altR (Derives.altR (Derives.altR (Derives.altR (Derives.altR (Derives.altR (Derives.altR
    (Derives.altR (Derives.altL h)))))))))
theorem sv9 {w : List TokenKind} (h : Derives (.nt .ClassValue_) w) : Derives (.nt .SimpleValue_) w :=
  Derives.nt (Derives.altR (Derives.altR (Derives.altR (Derives.altR (Derives.altR (Derives.altR (Derives.altR
    (Derives.altR (Derives.altR (Derives.altL h))))))))))
theorem sv10 {w : List TokenKind} (h : Derives (.nt .BangOperator_) w) : Derives (.nt .SimpleValue_) w :=
  Derives.nt (Derives.altR (Derives.altR (Derives.altR (Derives.altR (Derives.altR (Derives.altR (Derives.altR
    (Derives.altR (Derives.altR (Derives.altR (Derives.altL h)))))))))))
theorem sv11 {w : List TokenKind} (h : Derives (.nt .CondOperator_) w) : Derives (.nt .SimpleValue_) w :=
  Derives.nt (Derives.altR (Derives.altR (Derives.altR (Derives.altR (Derives.altR (Derives.altR (Derives.altR
    (Derives.altR (Derives.altR (Derives.altR (Derives.altR h)))))))))))

end C04L
end Tg
