/-
The `SymMap` mutators and the `IndexCtx` primitives of `Context.lean` preserve the invariant.
-/
import TgModel.Lemmas.IdeInv

namespace Tg
namespace Ide

open Tg.SymbolMap (Op)

/-! ### transfer lemmas: the new map consists of old entries and new valid ones -/

theorem SymMap.IdsOK.of_grow {sm sm' : SymMap} (h : sm.IdsOK) (hle : sm.sizes ≤ sm'.sizes)
    (recs : ∀ r ∈ sm'.recordList.toList, r ∈ sm.recordList.toList ∨ RecordOK sm'.sizes r)
    (flds : ∀ r ∈ sm'.recordFieldList.toList, r ∈ sm.recordFieldList.toList ∨ FieldOK sm'.sizes r)
    (dss : ∀ r ∈ sm'.defsetList.toList, r ∈ sm.defsetList.toList ∨ DefsetOK sm'.sizes r)
    (mcs : ∀ r ∈ sm'.multiclassList.toList, r ∈ sm.multiclassList.toList ∨ MulticlassOK sm'.sizes r)
    (dms : ∀ r ∈ sm'.defmList.toList, r ∈ sm.defmList.toList ∨ DefmOK sm'.sizes r)
    (cls : ∀ (name : String) (id : Nat), sm'.nameToClass[name]? = some id →
      sm.nameToClass[name]? = some id ∨ id < sm'.recordList.size)
    (defs : ∀ (name : String) (id : Nat), sm'.nameToDef[name]? = some id →
      sm.nameToDef[name]? = some id ∨ id < sm'.recordList.size)
    (mcn : ∀ (name : String) (id : Nat), sm'.nameToMulticlass[name]? = some id →
      sm.nameToMulticlass[name]? = some id ∨ id < sm'.multiclassList.size)
    (dsn : ∀ (name : String) (id : Nat), sm'.nameToDefset[name]? = some id →
      sm.nameToDefset[name]? = some id ∨ id < sm'.defsetList.size)
    (files : ∀ e ∈ sm'.fileToSymbolList.toList, ∀ s ∈ e.2.toList,
      (∃ e' ∈ sm.fileToSymbolList.toList, s ∈ e'.2.toList) ∨ SymOK sm'.sizes s)
    (gids : ∀ s ∈ sm'.gidToSym.toList, s ∈ sm.gidToSym.toList ∨ SymOK sm'.sizes s)
    (gidsz : sm.gidToSym.size ≤ sm'.gidToSym.size)
    (recGid : sm'.recordGid.size = sm'.recordList.size ∧
      ∀ g ∈ sm'.recordGid.toList, g ∈ sm.recordGid.toList ∨ g < sm'.gidToSym.size)
    (taGid : sm'.templateArgGid.size = sm'.templateArgList.size ∧
      ∀ g ∈ sm'.templateArgGid.toList, g ∈ sm.templateArgGid.toList ∨ g < sm'.gidToSym.size)
    (fldGid : sm'.recordFieldGid.size = sm'.recordFieldList.size ∧
      ∀ g ∈ sm'.recordFieldGid.toList, g ∈ sm.recordFieldGid.toList ∨ g < sm'.gidToSym.size)
    (varGid : sm'.variableGid.size = sm'.variableList.size ∧
      ∀ g ∈ sm'.variableGid.toList, g ∈ sm.variableGid.toList ∨ g < sm'.gidToSym.size)
    (dsGid : sm'.defsetGid.size = sm'.defsetList.size ∧
      ∀ g ∈ sm'.defsetGid.toList, g ∈ sm.defsetGid.toList ∨ g < sm'.gidToSym.size)
    (mcGid : sm'.multiclassGid.size = sm'.multiclassList.size ∧
      ∀ g ∈ sm'.multiclassGid.toList, g ∈ sm.multiclassGid.toList ∨ g < sm'.gidToSym.size)
    (dmGid : sm'.defmGid.size = sm'.defmList.size ∧
      ∀ g ∈ sm'.defmGid.toList, g ∈ sm.defmGid.toList ∨ g < sm'.gidToSym.size)
    (refs : ∀ g loc, Op.reference g loc ∈ sm'.ops.toList →
      Op.reference g loc ∈ sm.ops.toList ∨ g < sm'.gidToSym.size) :
    sm'.IdsOK where
  recs r hr := (recs r hr).elim (fun h' => (h.recs r h').mono hle) id
  flds r hr := (flds r hr).elim (fun h' => (h.flds r h').mono hle) id
  dss r hr := (dss r hr).elim (fun h' => (h.dss r h').mono hle) id
  mcs r hr := (mcs r hr).elim (fun h' => (h.mcs r h').mono hle) id
  dms r hr := (dms r hr).elim (fun h' => (h.dms r h').mono hle) id
  cls n i hi := (cls n i hi).elim (fun h' => Nat.lt_of_lt_of_le (h.cls n i h') hle.recs) id
  defs n i hi := (defs n i hi).elim (fun h' => Nat.lt_of_lt_of_le (h.defs n i h') hle.recs) id
  mcn n i hi := (mcn n i hi).elim (fun h' => Nat.lt_of_lt_of_le (h.mcn n i h') hle.mcs) id
  dsn n i hi := (dsn n i hi).elim (fun h' => Nat.lt_of_lt_of_le (h.dsn n i h') hle.dss) id
  files e he s hs := (files e he s hs).elim (fun ⟨e', he', hs'⟩ => (h.files e' he' s hs').mono hle) id
  gids s hs := (gids s hs).elim (fun h' => (h.gids s h').mono hle) id
  recGid := ⟨recGid.1, fun g hg => (recGid.2 g hg).elim (fun h' => Nat.lt_of_lt_of_le (h.recGid.2 g h') gidsz) id⟩
  taGid := ⟨taGid.1, fun g hg => (taGid.2 g hg).elim (fun h' => Nat.lt_of_lt_of_le (h.taGid.2 g h') gidsz) id⟩
  fldGid := ⟨fldGid.1, fun g hg => (fldGid.2 g hg).elim (fun h' => Nat.lt_of_lt_of_le (h.fldGid.2 g h') gidsz) id⟩
  varGid := ⟨varGid.1, fun g hg => (varGid.2 g hg).elim (fun h' => Nat.lt_of_lt_of_le (h.varGid.2 g h') gidsz) id⟩
  dsGid := ⟨dsGid.1, fun g hg => (dsGid.2 g hg).elim (fun h' => Nat.lt_of_lt_of_le (h.dsGid.2 g h') gidsz) id⟩
  mcGid := ⟨mcGid.1, fun g hg => (mcGid.2 g hg).elim (fun h' => Nat.lt_of_lt_of_le (h.mcGid.2 g h') gidsz) id⟩
  dmGid := ⟨dmGid.1, fun g hg => (dmGid.2 g hg).elim (fun h' => Nat.lt_of_lt_of_le (h.dmGid.2 g h') gidsz) id⟩
  refs g loc hg := (refs g loc hg).elim (fun h' => Nat.lt_of_lt_of_le (h.refs g loc h') gidsz) id

theorem SymMap.LocsOK.of_grow {ws : Workspace} {sm sm' : SymMap} (h : sm.LocsOK ws)
    (recs : ∀ r ∈ sm'.recordList.toList, (∃ r' ∈ sm.recordList.toList, r'.defineLoc = r.defineLoc) ∨ NodeLocR ws r.defineLoc)
    (tas : ∀ r ∈ sm'.templateArgList.toList, r ∈ sm.templateArgList.toList ∨ NodeLocR ws r.defineLoc)
    (flds : ∀ r ∈ sm'.recordFieldList.toList, r ∈ sm.recordFieldList.toList ∨ NodeLocR ws r.defineLoc)
    (vars : ∀ r ∈ sm'.variableList.toList, r ∈ sm.variableList.toList ∨ NodeLocR ws r.defineLoc)
    (dss : ∀ r ∈ sm'.defsetList.toList, (∃ r' ∈ sm.defsetList.toList, r'.defineLoc = r.defineLoc) ∨ NodeLocR ws r.defineLoc)
    (mcs : ∀ r ∈ sm'.multiclassList.toList, (∃ r' ∈ sm.multiclassList.toList, r'.defineLoc = r.defineLoc) ∨ NodeLocR ws r.defineLoc)
    (dms : ∀ r ∈ sm'.defmList.toList, (∃ r' ∈ sm.defmList.toList, r'.defineLoc = r.defineLoc) ∨ NodeLocR ws r.defineLoc)
    (ops : ∀ o ∈ sm'.ops.toList, o ∈ sm.ops.toList ∨ NodeLocL ws (opLoc o)) :
    sm'.LocsOK ws where
  recs r hr := (recs r hr).elim (fun ⟨r', h1, h2⟩ => h2 ▸ h.recs r' h1) id
  tas r hr := (tas r hr).elim (fun h' => h.tas r h') id
  flds r hr := (flds r hr).elim (fun h' => h.flds r h') id
  vars r hr := (vars r hr).elim (fun h' => h.vars r h') id
  dss r hr := (dss r hr).elim (fun ⟨r', h1, h2⟩ => h2 ▸ h.dss r' h1) id
  mcs r hr := (mcs r hr).elim (fun ⟨r', h1, h2⟩ => h2 ▸ h.mcs r' h1) id
  dms r hr := (dms r hr).elim (fun ⟨r', h1, h2⟩ => h2 ▸ h.dms r' h1) id
  ops o ho := (ops o ho).elim (fun h' => h.ops o h') id

/-! ### file identity and growth: transfer lemmas -/

theorem getElem!_push_lt {α : Type} [Inhabited α] {a : Array α} {x : α} {i : Nat} (h : i < a.size) :
    (a.push x)[i]! = a[i]! := by
  rw [getElem!_pos (a.push x) i (by simp; omega), getElem!_pos a i h, Array.getElem_push_lt h]

theorem getElem!_push_eq {α : Type} [Inhabited α] {a : Array α} {x : α} : (a.push x)[a.size]! = x := by
  rw [getElem!_pos (a.push x) a.size (by simp)]; simp

theorem getElem!_modify {α : Type} [Inhabited α] (a : Array α) (id : Nat) (f : α → α) {i : Nat} (h : i < a.size) :
    (a.modify id f)[i]! = if id = i then f a[i]! else a[i]! := by
  rw [getElem!_pos (a.modify id f) i (by simpa using h), getElem!_pos a i h, Array.getElem_modify]

theorem SymMap.FilesOK.of_grow {sm sm' : SymMap} (h : sm.FilesOK) (hi : sm.IdsOK) (hg : SymMap.Grow sm sm')
    (files : ∀ e ∈ sm'.fileToSymbolList.toList, ∀ s ∈ e.2.toList,
      (∃ e' ∈ sm.fileToSymbolList.toList, e'.1 = e.1 ∧ s ∈ e'.2.toList) ∨ (sm'.symLoc s).file = e.1)
    (dsDefs : ∀ d ∈ sm'.defsetList.toList,
      (∃ d' ∈ sm.defsetList.toList, d'.defList = d.defList ∧ d'.defineLoc = d.defineLoc) ∨
      ∀ x ∈ d.defList.toList, (sm'.record x).defineLoc.file = d.defineLoc.file)
    (recTas : ∀ r ∈ sm'.recordList.toList,
      (∃ r' ∈ sm.recordList.toList, r'.nameToTemplateArg = r.nameToTemplateArg ∧ r'.defineLoc = r.defineLoc ∧
        r'.kind = r.kind) ∨
      (r.kind = .cls → ∀ e ∈ r.nameToTemplateArg.toList, (sm'.templateArg e.2).defineLoc.file = r.defineLoc.file))
    (recFlds : ∀ r ∈ sm'.recordList.toList,
      (∃ r' ∈ sm.recordList.toList, r'.nameToRecordField = r.nameToRecordField ∧ r'.defineLoc = r.defineLoc) ∨
      (∀ e ∈ r.nameToRecordField.toList, (sm'.recordField e.2).defineLoc.file = r.defineLoc.file))
    (mcTas : ∀ m ∈ sm'.multiclassList.toList,
      (∃ m' ∈ sm.multiclassList.toList, m'.nameToTemplateArg = m.nameToTemplateArg ∧ m'.defineLoc = m.defineLoc) ∨
      (∀ e ∈ m.nameToTemplateArg.toList, (sm'.templateArg e.2).defineLoc.file = m.defineLoc.file)) :
    sm'.FilesOK where
  files e he s hs := by
    rcases files e he s hs with ⟨e', he', h1, hs'⟩ | h'
    · have hok := hi.files e' he' s hs'
      have := h.files e' he' s hs'
      rw [← h1, ← this]
      cases s <;> simp only [SymMap.symLoc, SymOK, SymMap.sizes] at hok ⊢
      · rw [hg.recLoc _ hok]
      · rw [hg.taLoc _ hok]
      · rw [hg.fldLoc _ hok]
      · rw [hg.varLoc _ hok]
      · rw [hg.dsLoc _ hok]
      · rw [hg.mcLoc _ hok]
      · rw [hg.dmLoc _ hok]
    · exact h'
  dsDefs d hd x hx := by
    rcases dsDefs d hd with ⟨d', hd', h1, h2⟩ | h'
    · rw [← h1] at hx
      rw [← h2, ← h.dsDefs d' hd' x hx, hg.recLoc x (hi.dss d' hd' x hx)]
    · exact h' x hx
  recTas r hr hk e he := by
    rcases recTas r hr with ⟨r', hr', h1, h2, h3⟩ | h'
    · rw [← h1] at he
      rw [← h2, ← h.recTas r' hr' (h3.trans hk) e he, hg.taLoc e.2 ((hi.recs r' hr').tas e he)]
    · exact h' hk e he
  recFlds r hr e he := by
    rcases recFlds r hr with ⟨r', hr', h1, h2⟩ | h'
    · rw [← h1] at he
      rw [← h2, ← h.recFlds r' hr' e he, hg.fldLoc e.2 ((hi.recs r' hr').flds e he)]
    · exact h' e he
  mcTas m hm e he := by
    rcases mcTas m hm with ⟨m', hm', h1, h2⟩ | h'
    · rw [← h1] at he
      rw [← h2, ← h.mcTas m' hm' e he, hg.taLoc e.2 ((hi.mcs m' hm').tas e he)]
    · exact h' e he

theorem SymMap.NamesOK.of_grow {ws : Workspace} {sm sm' : SymMap} (h : sm.NamesOK ws) (hi : sm.IdsOK)
    (hg : SymMap.GrowN sm sm')
    (log : HookLogOK ws sm'.ops.toList sm'.gidToSym.size)
    (tas : ∀ i, i < sm'.templateArgList.size → i < sm.templateArgList.size ∨ sm'.Named (.templateArgument i))
    (flds : ∀ i, i < sm'.recordFieldList.size → i < sm.recordFieldList.size ∨ sm'.Named (.recordField i))
    (vars : ∀ i, i < sm'.variableList.size → i < sm.variableList.size ∨ sm'.Named (.var i))
    (dss : ∀ i, i < sm'.defsetList.size → i < sm.defsetList.size ∨ sm'.Named (.defset i))
    (mcs : ∀ i, i < sm'.multiclassList.size → i < sm.multiclassList.size ∨ sm'.Named (.multiclass i))
    (cls : ∀ (k : String) (v : Nat), sm'.nameToClass[k]? = some v →
      sm.nameToClass[k]? = some v ∨ ((sm'.record v).name = k ∧ sm'.Named (.record v)))
    (defs : ∀ (k : String) (v : Nat), sm'.nameToDef[k]? = some v →
      sm.nameToDef[k]? = some v ∨ ((sm'.record v).name = k ∧ sm'.Named (.record v)))
    (mcn : ∀ (k : String) (v : Nat), sm'.nameToMulticlass[k]? = some v →
      sm.nameToMulticlass[k]? = some v ∨ (sm'.multiclass v).name = k)
    (dsn : ∀ (k : String) (v : Nat), sm'.nameToDefset[k]? = some v →
      sm.nameToDefset[k]? = some v ∨ (sm'.defset v).name = k)
    (recTas : ∀ r ∈ sm'.recordList.toList,
      (∃ r' ∈ sm.recordList.toList, r'.nameToTemplateArg = r.nameToTemplateArg) ∨
      ∀ e ∈ r.nameToTemplateArg.toList, (sm'.templateArg e.2).name = e.1)
    (recFlds : ∀ r ∈ sm'.recordList.toList,
      (∃ r' ∈ sm.recordList.toList, r'.nameToRecordField = r.nameToRecordField) ∨
      ∀ e ∈ r.nameToRecordField.toList, (sm'.recordField e.2).name = e.1)
    (mcTas : ∀ m ∈ sm'.multiclassList.toList,
      (∃ m' ∈ sm.multiclassList.toList, m'.nameToTemplateArg = m.nameToTemplateArg) ∨
      ∀ e ∈ m.nameToTemplateArg.toList, (sm'.templateArg e.2).name = e.1) :
    sm'.NamesOK ws where
  log := log
  tas i hi' := (tas i hi').elim (fun h' => (h.tas i h').grow h' hg) id
  flds i hi' := (flds i hi').elim (fun h' => (h.flds i h').grow h' hg) id
  vars i hi' := (vars i hi').elim (fun h' => (h.vars i h').grow h' hg) id
  dss i hi' := (dss i hi').elim (fun h' => (h.dss i h').grow h' hg) id
  mcs i hi' := (mcs i hi').elim (fun h' => (h.mcs i h').grow h' hg) id
  cls k v hv := (cls k v hv).elim (fun h' => by
    have hlt : SymOK sm.sizes (.record v) := hi.cls k v h'
    have := hg.nm _ hlt
    simp only [SymMap.symName] at this
    exact ⟨this.trans (h.cls k v h').1, (h.cls k v h').2.grow hlt hg⟩) id
  defs k v hv := (defs k v hv).elim (fun h' => by
    have hlt : SymOK sm.sizes (.record v) := hi.defs k v h'
    have := hg.nm _ hlt
    simp only [SymMap.symName] at this
    exact ⟨this.trans (h.defs k v h').1, (h.defs k v h').2.grow hlt hg⟩) id
  mcn k v hv := (mcn k v hv).elim (fun h' => by
    have hlt : SymOK sm.sizes (.multiclass v) := hi.mcn k v h'
    have := hg.nm _ hlt
    simp only [SymMap.symName] at this
    exact this.trans (h.mcn k v h')) id
  dsn k v hv := (dsn k v hv).elim (fun h' => by
    have hlt : SymOK sm.sizes (.defset v) := hi.dsn k v h'
    have := hg.nm _ hlt
    simp only [SymMap.symName] at this
    exact this.trans (h.dsn k v h')) id
  recTas r hr e he := by
    rcases recTas r hr with ⟨r', hr', h1⟩ | h'
    · rw [← h1] at he
      have hlt : SymOK sm.sizes (.templateArgument e.2) := (hi.recs r' hr').tas e he
      have := hg.nm _ hlt
      simp only [SymMap.symName] at this
      exact this.trans (h.recTas r' hr' e he)
    · exact h' e he
  recFlds r hr e he := by
    rcases recFlds r hr with ⟨r', hr', h1⟩ | h'
    · rw [← h1] at he
      have hlt : SymOK sm.sizes (.recordField e.2) := (hi.recs r' hr').flds e he
      have := hg.nm _ hlt
      simp only [SymMap.symName] at this
      exact this.trans (h.recFlds r' hr' e he)
    · exact h' e he
  mcTas m hm e he := by
    rcases mcTas m hm with ⟨m', hm', h1⟩ | h'
    · rw [← h1] at he
      have hlt : SymOK sm.sizes (.templateArgument e.2) := (hi.mcs m' hm').tas e he
      have := hg.nm _ hlt
      simp only [SymMap.symName] at this
      exact this.trans (h.mcTas m' hm' e he)
    · exact h' e he

/-- the result of one mutation of the symbol map -/
structure StepOK (ws : Workspace) (sm sm' : SymMap) : Prop where
  ids : sm'.IdsOK
  locs : sm'.LocsOK ws
  files : sm'.FilesOK
  grow : SymMap.Grow sm sm'
  names : sm'.NamesOK ws

/-! ### `pushFileSymbol` -/

theorem SymMap.pushFileSymbol_eq (sm : SymMap) (file : Nat) (s : SymbolId) :
    ∃ l : Array (Nat × Array SymbolId), sm.pushFileSymbol file s = { sm with fileToSymbolList := l } ∧
      ∀ e ∈ l.toList, ∀ x ∈ e.2.toList,
        (∃ e' ∈ sm.fileToSymbolList.toList, e'.1 = e.1 ∧ x ∈ e'.2.toList) ∨ (x = s ∧ e.1 = file) := by
  unfold SymMap.pushFileSymbol
  split
  · rename_i i hi
    refine ⟨_, rfl, ?_⟩
    intro e he x hx
    have hi' := (Array.findIdx?_eq_some_iff_getElem.mp hi).1
    have hp := (Array.findIdx?_eq_some_iff_getElem.mp hi).2.1
    rw [Array.mem_toList_iff, Array.mem_iff_getElem] at he
    obtain ⟨j, hj, rfl⟩ := he
    simp only [Array.size_modify] at hj
    simp only [Array.getElem_modify] at hx ⊢
    split at hx
    · rename_i hij
      subst hij
      simp only [Array.toList_push, List.mem_append, List.mem_singleton, if_true] at hx ⊢
      rcases hx with hx | hx
      · exact Or.inl ⟨_, Array.mem_toList_iff.mpr (Array.getElem_mem hj), rfl, hx⟩
      · exact Or.inr ⟨hx, by simpa using hp⟩
    · rename_i hij
      simp only [hij, if_false]
      exact Or.inl ⟨_, Array.mem_toList_iff.mpr (Array.getElem_mem hj), rfl, hx⟩
  · refine ⟨_, rfl, ?_⟩
    intro e he x hx
    simp only [Array.toList_push, List.mem_append, List.mem_singleton] at he
    rcases he with he | rfl
    · exact Or.inl ⟨e, he, rfl, hx⟩
    · simp at hx; exact Or.inr ⟨hx, rfl⟩

macro "ids_gid_facts" hi:ident : tactic => `(tactic| (
  have hg1 := ($hi).recGid.1
  have hg2 := ($hi).taGid.1
  have hg3 := ($hi).fldGid.1
  have hg4 := ($hi).varGid.1
  have hg5 := ($hi).dsGid.1
  have hg6 := ($hi).mcGid.1
  have hg7 := ($hi).dmGid.1))

theorem SymMap.pushFileSymbol_ok {ws : Workspace} (sm : SymMap) (file : Nat) (s : SymbolId)
    (hi : sm.IdsOK) (hl : sm.LocsOK ws) (hf : sm.FilesOK) (hn : sm.NamesOK ws) (hs : SymOK sm.sizes s)
    (hfile : (sm.symLoc s).file = file) :
    StepOK ws sm (sm.pushFileSymbol file s) ∧ (sm.pushFileSymbol file s).sizes = sm.sizes ∧
    (∀ x, (sm.pushFileSymbol file s).symLoc x = sm.symLoc x) := by
  obtain ⟨l, hl', hmem⟩ := sm.pushFileSymbol_eq file s
  rw [hl']
  have hgrow : SymMap.Grow sm { sm with fileToSymbolList := l } :=
    ⟨Sizes.le_refl _, fun _ _ => rfl, fun _ _ => rfl, fun _ _ => rfl, fun _ _ => rfl, fun _ _ => rfl,
      fun _ _ => rfl, fun _ _ => rfl, fun _ _ => rfl,
      ⟨fun x _ => by cases x <;> rfl, fun x _ => by cases x <;> rfl, [], by simp⟩⟩
  refine ⟨⟨?_, ⟨hl.recs, hl.tas, hl.flds, hl.vars, hl.dss, hl.mcs, hl.dms, hl.ops⟩, ?_, hgrow,
    ⟨hn.log, hn.tas, hn.flds, hn.vars, hn.dss, hn.mcs, hn.cls, hn.defs, hn.mcn, hn.dsn, hn.recTas, hn.recFlds,
      hn.mcTas⟩⟩, rfl, fun x => by cases x <;> rfl⟩
  · ids_gid_facts hi
    apply SymMap.IdsOK.of_grow hi
    case files =>
      intro e he x hx
      rcases hmem e he x hx with ⟨e', he', _, hx'⟩ | ⟨rfl, _⟩
      · exact Or.inl ⟨e', he', hx'⟩
      · exact Or.inr hs
    all_goals dsimp only [SymMap.sizes]
    all_goals first | done | exact Sizes.le_refl _ | grind
  · apply SymMap.FilesOK.of_grow hf hi hgrow
    case files =>
      intro e he x hx
      rcases hmem e he x hx with h | ⟨rfl, rfl⟩
      · exact Or.inl h
      · right
        rw [← hfile]
        cases x <;> rfl
    all_goals dsimp only
    all_goals first | done | grind

/-- discharges the obligations of `IdsOK.of_grow` for a mutator given as a structure update -/
macro "grow_ids" hi:ident : tactic => `(tactic| (
  ids_gid_facts $hi
  apply SymMap.IdsOK.of_grow $hi
  all_goals dsimp only [SymMap.sizes]
  all_goals first | done | (constructor <;> simp; done) | grind [SymOK, FieldOK, DefsetOK, DefmOK]))

macro "grow_locs" hl:ident : tactic => `(tactic| (
  apply SymMap.LocsOK.of_grow $hl
  all_goals dsimp only [SymMap.sizes]
  all_goals first | done | grind [opLoc, NodeLocL, NodeLocR, FileRange.toLoc]))

theorem getElem!_push_eq' {α : Type} [Inhabited α] {a : Array α} {x : α} {n : Nat} (h : a.size = n) :
    (a.push x)[n]! = x := by subst h; exact getElem!_push_eq

theorem getElem!_push_lt' {α : Type} [Inhabited α] {a : Array α} {x : α} {i n : Nat} (h : a.size = n) (hi : i < n) :
    (a.push x)[i]! = a[i]! := getElem!_push_lt (h ▸ hi)

/-- `GrowN` for a mutator that pushes onto arenas and the log -/
macro "grown_push" hi:ident : tactic => `(tactic| (
  have hg1 := ($hi).recGid.1
  have hg2 := ($hi).taGid.1
  have hg3 := ($hi).fldGid.1
  have hg4 := ($hi).varGid.1
  have hg5 := ($hi).dsGid.1
  have hg6 := ($hi).mcGid.1
  have hg7 := ($hi).dmGid.1
  refine ⟨?_, ?_, ?_⟩
  · intro s hs
    cases s <;> simp only [SymOK, SymMap.sizes] at hs <;>
      simp only [SymMap.symName, SymMap.record, SymMap.templateArg, SymMap.recordField, SymMap.var,
        SymMap.defset, SymMap.multiclass, SymMap.defm] <;>
      (first | rfl | rw [getElem!_push_lt hs])
  · intro s hs
    cases s <;> simp only [SymOK, SymMap.sizes] at hs <;> simp only [SymMap.gidOf] <;>
      (first | rfl | rw [getElem!_push_lt' hg1 hs] | rw [getElem!_push_lt' hg2 hs] | rw [getElem!_push_lt' hg3 hs] | rw [getElem!_push_lt' hg4 hs] | rw [getElem!_push_lt' hg5 hs] | rw [getElem!_push_lt' hg6 hs] | rw [getElem!_push_lt' hg7 hs])
  · first | exact ⟨[], (List.append_nil _).symm⟩ | exact ⟨_, Array.toList_push⟩))

/-- the symbol allocated by a (non-anonymous) `logDefine` is named -/
theorem SymMap.Named.new {sm sm' : SymMap} {s : SymbolId} {nm : String} {loc : Tg.SymbolMap.Loc}
    (hcnt : (Tg.SymbolMap.allocs sm.ops.toList).length = sm.gidToSym.size)
    (hops : sm'.ops = sm.ops.push (.define nm.toList loc)) (hgid : sm'.gidOf s = sm.gidToSym.size)
    (hname : sm'.symName s = nm) : sm'.Named s := by
  unfold SymMap.Named
  rw [hops, hgid, hname, Array.toList_push]
  exact NamedGid.new hcnt _ _

/-- `∀ i, i < (arena.push a).size → i < arena.size ∨ Named sm' (C i)` -/
macro "names_new" hn:ident hi:ident : tactic => `(tactic| (
  have hg1 := ($hi).recGid.1
  have hg2 := ($hi).taGid.1
  have hg3 := ($hi).fldGid.1
  have hg4 := ($hi).varGid.1
  have hg5 := ($hi).dsGid.1
  have hg6 := ($hi).mcGid.1
  have hg7 := ($hi).dmGid.1
  intro i hi'
  simp only [Array.size_push] at hi'
  rcases Nat.lt_succ_iff_lt_or_eq.mp hi' with h | h
  · exact Or.inl h
  · subst h
    right
    refine SymMap.Named.new ($hn).log.cnt rfl ?_ ?_
    · simp only [SymMap.gidOf]
      first | exact getElem!_push_eq' hg1 | exact getElem!_push_eq' hg2 | exact getElem!_push_eq' hg3 | exact getElem!_push_eq' hg4 | exact getElem!_push_eq' hg5 | exact getElem!_push_eq' hg6 | exact getElem!_push_eq' hg7
    · simp only [SymMap.symName, SymMap.record, SymMap.templateArg, SymMap.recordField, SymMap.var,
        SymMap.defset, SymMap.multiclass, SymMap.defm]
      rw [getElem!_push_eq]))

/-- `∀ k v, (map.insert a.name arena.size)[k]? = some v → map[k]? = some v ∨ …` -/
macro "names_key" hn:ident hi:ident : tactic => `(tactic| (
  have hg1 := ($hi).recGid.1
  have hg6 := ($hi).mcGid.1
  intro k v hv
  rw [Std.HashMap.getElem?_insert] at hv
  split at hv
  · rename_i hk
    have hk' := eq_of_beq hk
    cases hv
    subst hk'
    right
    first
      | (simp only [SymMap.multiclass]; rw [getElem!_push_eq]; done)
      | (simp only [SymMap.defset]; done)
      | (refine ⟨by simp only [SymMap.record]; rw [getElem!_push_eq], SymMap.Named.new ($hn).log.cnt rfl ?_ ?_⟩
         · simp only [SymMap.gidOf]
           exact getElem!_push_eq' hg1
         · simp only [SymMap.symName, SymMap.record]
           rw [getElem!_push_eq])
  · exact Or.inl hv))

/-- the obligations of `NamesOK.of_grow` after a (non-anonymous) `logDefine` -/
macro "grow_names" hn:ident hi:ident htok:ident : tactic => `(tactic| (
  apply SymMap.NamesOK.of_grow $hn $hi (by grown_push $hi)
  case log => (simp only [Array.toList_push, Array.size_push]; exact ($hn).log.define $htok)
  all_goals dsimp only
  all_goals first | done | names_new $hn $hi | names_key $hn $hi | grind))

/-- the obligations of `NamesOK.of_grow` after an anonymous `logDefine` -/
macro "grow_names_anon" hn:ident hi:ident : tactic => `(tactic| (
  apply SymMap.NamesOK.of_grow $hn $hi (by grown_push $hi)
  case log => (simp only [Array.toList_push, Array.size_push]; exact ($hn).log.defineAnon _ _)
  all_goals dsimp only
  all_goals first | done | grind))

/-- the obligations of `NamesOK.of_grow` when the log does not change -/
macro "grow_names_same" hn:ident hi:ident : tactic => `(tactic| (
  apply SymMap.NamesOK.of_grow $hn $hi (by grown_push $hi)
  case log => exact ($hn).log
  all_goals dsimp only
  all_goals first | done | names_key $hn $hi | grind))

/-- `Grow` for a mutator that pushes onto arenas -/
macro "grow_push" hi:ident : tactic => `(tactic| (
  constructor
  case n => grown_push $hi
  · constructor <;> simp [SymMap.sizes]
  all_goals (intro id hid; first | rfl | (simp only [SymMap.record, SymMap.templateArg, SymMap.recordField,
    SymMap.var, SymMap.defset, SymMap.multiclass, SymMap.defm]; first | done | rfl | rw [getElem!_push_lt hid]))))


macro "grow_files" hf:ident hi:ident hg:ident : tactic => `(tactic| (
  apply SymMap.FilesOK.of_grow $hf $hi $hg
  all_goals dsimp only
  all_goals first | done | grind))

theorem StepOK.of {ws : Workspace} {sm sm' : SymMap} (hg : SymMap.Grow sm sm') (h1 : sm'.IdsOK)
    (h2 : sm'.LocsOK ws) (h3 : SymMap.Grow sm sm' → sm'.FilesOK) (h4 : sm'.NamesOK ws) : StepOK ws sm sm' :=
  ⟨h1, h2, h3 hg, hg, h4⟩

theorem StepOK.trans {ws : Workspace} {a b c : SymMap} (h1 : StepOK ws a b) (h2 : StepOK ws b c) : StepOK ws a c :=
  ⟨h2.ids, h2.locs, h2.files, h1.grow.trans h2.grow, h2.names⟩

/-- finish an allocation with the entry in the per-file symbol list -/
theorem StepOK.thenPush {ws : Workspace} {sm sm2 : SymMap} (h : StepOK ws sm sm2) (file : Nat) (s : SymbolId)
    (hs : SymOK sm2.sizes s) (hfile : (sm2.symLoc s).file = file) :
    StepOK ws sm (sm2.pushFileSymbol file s) ∧ (sm2.pushFileSymbol file s).sizes = sm2.sizes ∧
    (∀ x, (sm2.pushFileSymbol file s).symLoc x = sm2.symLoc x) := by
  obtain ⟨p1, p2, p3⟩ := SymMap.pushFileSymbol_ok sm2 file s h.ids h.locs h.files h.names hs hfile
  exact ⟨h.trans p1, p2, p3⟩

theorem SymMap.addTemplateArgument_ok {ws : Workspace} (sm : SymMap) (a : TemplateArgument)
    (hi : sm.IdsOK) (hl : sm.LocsOK ws) (hf : sm.FilesOK) (hn : sm.NamesOK ws) (hloc : NodeLocR ws a.defineLoc)
    (htok : TokAt ws a.defineLoc.toLoc a.name) :
    StepOK ws sm (sm.addTemplateArgument a).2 ∧
    (sm.addTemplateArgument a).1 < (sm.addTemplateArgument a).2.templateArgList.size ∧
    (sm.addTemplateArgument a).2.templateArg (sm.addTemplateArgument a).1 = a := by
  simp only [SymMap.addTemplateArgument, SymMap.logDefine, Bool.false_eq_true, ↓reduceIte]
  refine ⟨StepOK.of ?_ ?_ ?_ ?_ ?_, by simp, by simp [SymMap.templateArg, getElem!_push_eq]⟩
  · grow_push hi
  · grow_ids hi
  · grow_locs hl
  · intro hg; grow_files hf hi hg
  · grow_names hn hi htok

theorem SymMap.addRecordField_ok {ws : Workspace} (sm : SymMap) (a : RecordField)
    (hi : sm.IdsOK) (hl : sm.LocsOK ws) (hf : sm.FilesOK) (hn : sm.NamesOK ws) (ha : FieldOK sm.sizes a) (hloc : NodeLocR ws a.defineLoc)
    (htok : TokAt ws a.defineLoc.toLoc a.name) :
    StepOK ws sm (sm.addRecordField a).2 ∧
    (sm.addRecordField a).1 < (sm.addRecordField a).2.recordFieldList.size ∧
    (sm.addRecordField a).2.recordField (sm.addRecordField a).1 = a := by
  simp only [SymMap.addRecordField, SymMap.logDefine, Bool.false_eq_true, ↓reduceIte]
  simp only [FieldOK, SymMap.sizes] at ha
  refine ⟨StepOK.of ?_ ?_ ?_ ?_ ?_, by simp, by simp [SymMap.recordField, getElem!_push_eq]⟩
  · grow_push hi
  · grow_ids hi
  · grow_locs hl
  · intro hg; grow_files hf hi hg
  · grow_names hn hi htok


theorem SymMap.addVariable_ok {ws : Workspace} (sm : SymMap) (a : Variable)
    (hi : sm.IdsOK) (hl : sm.LocsOK ws) (hf : sm.FilesOK) (hn : sm.NamesOK ws) (hloc : NodeLocR ws a.defineLoc)
    (htok : TokAt ws a.defineLoc.toLoc a.name) :
    StepOK ws sm (sm.addVariable a).2 ∧ (sm.addVariable a).1 < (sm.addVariable a).2.sizes.vars ∧
    (sm.addVariable a).2.var (sm.addVariable a).1 = a := by
  simp only [SymMap.addVariable]
  generalize hsm2 : SymMap.logDefine _ _ _ _ _ = sm2
  have h2 : StepOK ws sm sm2 ∧ sm.variableList.size < sm2.sizes.vars ∧
      (sm2.symLoc (.var sm.variableList.size)).file = a.defineLoc.file ∧ sm2.var sm.variableList.size = a := by
    subst hsm2
    simp only [SymMap.logDefine, Bool.false_eq_true, ↓reduceIte]
    refine ⟨StepOK.of ?_ ?_ ?_ ?_ ?_, by simp [SymMap.sizes], by simp [SymMap.symLoc, SymMap.var, getElem!_push_eq],
      by simp [SymMap.var, getElem!_push_eq]⟩
    · grow_push hi
    · grow_ids hi
    · grow_locs hl
    · intro hg; grow_files hf hi hg
    · grow_names hn hi htok
  obtain ⟨p1, p2, _⟩ := h2.1.thenPush a.defineLoc.file (.var sm.variableList.size) h2.2.1 h2.2.2.1
  refine ⟨p1, p2 ▸ h2.2.1, ?_⟩
  obtain ⟨l, hl', _⟩ := sm2.pushFileSymbol_eq a.defineLoc.file (.var sm.variableList.size)
  rw [hl']
  exact h2.2.2.2

theorem SymMap.addDefset_ok {ws : Workspace} (sm : SymMap) (a : Defset)
    (hi : sm.IdsOK) (hl : sm.LocsOK ws) (hf : sm.FilesOK) (hn : sm.NamesOK ws) (ha : a.defList = #[]) (hloc : NodeLocR ws a.defineLoc)
    (htok : TokAt ws a.defineLoc.toLoc a.name) :
    StepOK ws sm (sm.addDefset a).2 ∧ (sm.addDefset a).1 < (sm.addDefset a).2.sizes.dss ∧
    ((sm.addDefset a).2.defset (sm.addDefset a).1).defineLoc = a.defineLoc := by
  simp only [SymMap.addDefset]
  generalize hsm2 : SymMap.logDefine _ _ _ _ _ = sm2
  have h2 : StepOK ws sm sm2 ∧ sm.defsetList.size < sm2.sizes.dss ∧
      (sm2.symLoc (.defset sm.defsetList.size)) = a.defineLoc := by
    subst hsm2
    simp only [SymMap.logDefine, Bool.false_eq_true, ↓reduceIte]
    refine ⟨StepOK.of ?_ ?_ ?_ ?_ ?_, by simp [SymMap.sizes], by simp [SymMap.symLoc, SymMap.defset, getElem!_push_eq]⟩
    · grow_push hi
    · grow_ids hi
    · grow_locs hl
    · intro hg; grow_files hf hi hg
    · grow_names hn hi htok
  obtain ⟨p1, p2, p3⟩ := h2.1.thenPush a.defineLoc.file (.defset sm.defsetList.size) h2.2.1 (by rw [h2.2.2])
  exact ⟨p1, p2 ▸ h2.2.1, (p3 (.defset sm.defsetList.size)).trans h2.2.2⟩

/-- the state of `add_multiclass` before the per-file symbol list is updated -/
def SymMap.addMulticlassCore (sm : SymMap) (m : Multiclass) : SymMap :=
  let id := sm.multiclassList.size
  let gid := sm.gidToSym.size
  let sm := { sm with multiclassList := sm.multiclassList.push m, multiclassGid := sm.multiclassGid.push gid }
  let sm := sm.logDefine (.multiclass id) m.name m.defineLoc false
  { sm with nameToMulticlass := sm.nameToMulticlass.insert m.name id }

theorem SymMap.addMulticlass_eq (sm : SymMap) (m : Multiclass) :
    sm.addMulticlass m = (sm.multiclassList.size,
      (sm.addMulticlassCore m).pushFileSymbol m.defineLoc.file (.multiclass sm.multiclassList.size)) := rfl

theorem SymMap.addMulticlass_ok {ws : Workspace} (sm : SymMap) (a : Multiclass)
    (hi : sm.IdsOK) (hl : sm.LocsOK ws) (hf : sm.FilesOK) (hn : sm.NamesOK ws) (ha1 : a.nameToTemplateArg = #[]) (ha2 : a.parentList = #[])
    (hloc : NodeLocR ws a.defineLoc)
    (htok : TokAt ws a.defineLoc.toLoc a.name) :
    StepOK ws sm (sm.addMulticlass a).2 ∧ (sm.addMulticlass a).1 < (sm.addMulticlass a).2.sizes.mcs ∧
    ((sm.addMulticlass a).2.multiclass (sm.addMulticlass a).1).defineLoc = a.defineLoc := by
  rw [SymMap.addMulticlass_eq]
  have h2 : StepOK ws sm (sm.addMulticlassCore a) ∧ sm.multiclassList.size < (sm.addMulticlassCore a).sizes.mcs ∧
      ((sm.addMulticlassCore a).symLoc (.multiclass sm.multiclassList.size)) = a.defineLoc := by
    unfold SymMap.addMulticlassCore
    simp only [SymMap.logDefine, Bool.false_eq_true, ↓reduceIte]
    have ha' : MulticlassOK ⟨sm.recordList.size, sm.templateArgList.size, sm.recordFieldList.size,
        sm.variableList.size, sm.defsetList.size, (sm.multiclassList.push a).size, sm.defmList.size⟩ a :=
      ⟨by rw [ha1]; simp, by rw [ha2]; simp⟩
    refine ⟨StepOK.of ?_ ?_ ?_ ?_ ?_, by simp [SymMap.sizes], by simp [SymMap.symLoc, SymMap.multiclass, getElem!_push_eq]⟩
    · grow_push hi
    · grow_ids hi
    · grow_locs hl
    · intro hg; grow_files hf hi hg
    · grow_names hn hi htok
  obtain ⟨p1, p2, p3⟩ := h2.1.thenPush a.defineLoc.file (.multiclass sm.multiclassList.size) h2.2.1 (by rw [h2.2.2])
  exact ⟨p1, p2 ▸ h2.2.1, (p3 (.multiclass sm.multiclassList.size)).trans h2.2.2⟩

theorem SymMap.addDefm_ok {ws : Workspace} (sm : SymMap) (a : Defm) (g : Bool)
    (hi : sm.IdsOK) (hl : sm.LocsOK ws) (hf : sm.FilesOK) (hn : sm.NamesOK ws) (ha : a.parentList = #[]) (hloc : NodeLocR ws a.defineLoc)
    (htok : TokAt ws a.defineLoc.toLoc a.name) :
    StepOK ws sm (sm.addDefm a g).2 ∧ (sm.addDefm a g).1 < (sm.addDefm a g).2.sizes.dms := by
  simp only [SymMap.addDefm]
  generalize hsm2 : SymMap.logDefine _ _ _ _ _ = sm2
  have h2 : StepOK ws sm sm2 ∧ sm.defmList.size < sm2.sizes.dms ∧
      (sm2.symLoc (.defm sm.defmList.size)).file = a.defineLoc.file := by
    subst hsm2
    simp only [SymMap.logDefine, Bool.false_eq_true, ↓reduceIte]
    have ha' : DefmOK ⟨sm.recordList.size, sm.templateArgList.size, sm.recordFieldList.size,
        sm.variableList.size, sm.defsetList.size, sm.multiclassList.size, (sm.defmList.push a).size⟩ a := by
      intro x hx; rw [ha] at hx; simp at hx
    refine ⟨StepOK.of ?_ ?_ ?_ ?_ ?_, by simp [SymMap.sizes], by simp [SymMap.symLoc, SymMap.defm, getElem!_push_eq]⟩
    · grow_push hi
    · grow_ids hi
    · grow_locs hl
    · intro hg; grow_files hf hi hg
    · grow_names hn hi htok
  cases g
  · exact ⟨h2.1, h2.2.1⟩
  · obtain ⟨p1, p2, _⟩ := h2.1.thenPush a.defineLoc.file (.defm sm.defmList.size) h2.2.1 h2.2.2
    exact ⟨p1, p2 ▸ h2.2.1⟩

theorem SymMap.addAnonymousDefm_ok {ws : Workspace} (sm : SymMap) (a : Defm)
    (hi : sm.IdsOK) (hl : sm.LocsOK ws) (hf : sm.FilesOK) (hn : sm.NamesOK ws) (ha : a.parentList = #[]) (hloc : NodeLocR ws a.defineLoc) :
    StepOK ws sm (sm.addAnonymousDefm a).2 ∧ (sm.addAnonymousDefm a).1 < (sm.addAnonymousDefm a).2.sizes.dms := by
  simp only [SymMap.addAnonymousDefm, SymMap.logDefine, ↓reduceIte]
  have ha' : DefmOK ⟨sm.recordList.size, sm.templateArgList.size, sm.recordFieldList.size,
      sm.variableList.size, sm.defsetList.size, sm.multiclassList.size, (sm.defmList.push a).size⟩ a := by
    intro x hx; rw [ha] at hx; simp at hx
  refine ⟨StepOK.of ?_ ?_ ?_ ?_ ?_, by simp [SymMap.sizes]⟩
  · grow_push hi
  · grow_ids hi
  · grow_locs hl
  · intro hg; grow_files hf hi hg
  · grow_names_anon hn hi

/-- a record with no template arguments, fields or parents yet -/
structure FreshRecord (r : Record) : Prop where
  tas : r.nameToTemplateArg = #[]
  flds : r.nameToRecordField = #[]
  parents : r.parentList = #[]

theorem FreshRecord.ok {r : Record} (h : FreshRecord r) (z : Sizes) : RecordOK z r :=
  ⟨by rw [h.tas]; simp, by rw [h.flds]; simp, by rw [h.parents]; simp⟩

theorem SymMap.addAnonymousDef_ok {ws : Workspace} (sm : SymMap) (a : Record)
    (hi : sm.IdsOK) (hl : sm.LocsOK ws) (hf : sm.FilesOK) (hn : sm.NamesOK ws) (ha : FreshRecord a) (hloc : NodeLocR ws a.defineLoc) :
    StepOK ws sm (sm.addAnonymousDef a).2 ∧ (sm.addAnonymousDef a).1 < (sm.addAnonymousDef a).2.sizes.recs ∧
    (sm.addAnonymousDef a).2.record (sm.addAnonymousDef a).1 = a := by
  simp only [SymMap.addAnonymousDef, SymMap.logDefine, ↓reduceIte]
  have ha' := ha.ok ⟨(sm.recordList.push a).size, sm.templateArgList.size, sm.recordFieldList.size,
      sm.variableList.size, sm.defsetList.size, sm.multiclassList.size, sm.defmList.size⟩
  have h1 := ha.tas
  have h2 := ha.flds
  refine ⟨StepOK.of ?_ ?_ ?_ ?_ ?_, by simp [SymMap.sizes], by simp [SymMap.record, getElem!_push_eq]⟩
  · grow_push hi
  · grow_ids hi
  · grow_locs hl
  · intro hg; grow_files hf hi hg
  · grow_names_anon hn hi

/-- the state of `add_record` before the per-file symbol list is updated -/
def SymMap.addRecordCore (sm : SymMap) (r : Record) : SymMap :=
  let id := sm.recordList.size
  let gid := sm.gidToSym.size
  let sm := { sm with recordList := sm.recordList.push r, recordGid := sm.recordGid.push gid }
  let sm := sm.logDefine (.record id) r.name r.defineLoc false
  match r.kind with
    | .cls => { sm with nameToClass := sm.nameToClass.insert r.name id }
    | .def_ => { sm with nameToDef := sm.nameToDef.insert r.name id }

theorem SymMap.addRecord_eq (sm : SymMap) (r : Record) (g : Bool) :
    sm.addRecord r g = (sm.recordList.size,
      if g then (sm.addRecordCore r).pushFileSymbol r.defineLoc.file (.record sm.recordList.size)
      else sm.addRecordCore r) := rfl

theorem SymMap.addRecord_ok {ws : Workspace} (sm : SymMap) (a : Record) (g : Bool)
    (hi : sm.IdsOK) (hl : sm.LocsOK ws) (hf : sm.FilesOK) (hn : sm.NamesOK ws) (ha : FreshRecord a) (hloc : NodeLocR ws a.defineLoc)
    (htok : TokAt ws a.defineLoc.toLoc a.name) :
    StepOK ws sm (sm.addRecord a g).2 ∧ (sm.addRecord a g).1 < (sm.addRecord a g).2.sizes.recs ∧
    (sm.addRecord a g).2.record (sm.addRecord a g).1 = a := by
  rw [SymMap.addRecord_eq]
  have h2 : StepOK ws sm (sm.addRecordCore a) ∧ sm.recordList.size < (sm.addRecordCore a).sizes.recs ∧
      (sm.addRecordCore a).record sm.recordList.size = a := by
    have ha' := ha.ok ⟨(sm.recordList.push a).size, sm.templateArgList.size, sm.recordFieldList.size,
        sm.variableList.size, sm.defsetList.size, sm.multiclassList.size, sm.defmList.size⟩
    have h1 := ha.tas
    have h2 := ha.flds
    unfold SymMap.addRecordCore
    cases a.kind <;> simp only [SymMap.logDefine, Bool.false_eq_true, ↓reduceIte] <;>
      refine ⟨StepOK.of ?_ ?_ ?_ ?_ ?_, by simp [SymMap.sizes], by simp [SymMap.record, getElem!_push_eq]⟩
    · grow_push hi
    · grow_ids hi
    · grow_locs hl
    · intro hg; grow_files hf hi hg
    · grow_names hn hi htok
    · grow_push hi
    · grow_ids hi
    · grow_locs hl
    · intro hg; grow_files hf hi hg
    · grow_names hn hi htok
  cases g
  · exact h2
  · obtain ⟨p1, p2, p3⟩ := h2.1.thenPush a.defineLoc.file (.record sm.recordList.size) h2.2.1
      (by simp only [SymMap.symLoc]; rw [h2.2.2])
    refine ⟨p1, p2 ▸ h2.2.1, ?_⟩
    have := p3 (.record sm.recordList.size)
    simp only [SymMap.symLoc] at this
    simp only [if_true]
    -- the record arena is not touched by `pushFileSymbol`
    obtain ⟨l, hl', _⟩ := (sm.addRecordCore a).pushFileSymbol_eq a.defineLoc.file (.record sm.recordList.size)
    rw [hl']
    exact h2.2.2

theorem SymMap.addMulticlassDef_ok {ws : Workspace} (sm : SymMap) (a : Record)
    (hi : sm.IdsOK) (hl : sm.LocsOK ws) (hf : sm.FilesOK) (hn : sm.NamesOK ws) (ha : FreshRecord a) (hloc : NodeLocR ws a.defineLoc)
    (htok : TokAt ws a.defineLoc.toLoc a.name) :
    StepOK ws sm (sm.addMulticlassDef a).2 ∧ (sm.addMulticlassDef a).1 < (sm.addMulticlassDef a).2.sizes.recs ∧
    (sm.addMulticlassDef a).2.record (sm.addMulticlassDef a).1 = a := by
  simp only [SymMap.addMulticlassDef]
  generalize hsm2 : SymMap.logDefine _ _ _ _ _ = sm2
  have h2 : StepOK ws sm sm2 ∧ sm.recordList.size < sm2.sizes.recs ∧ sm2.record sm.recordList.size = a := by
    subst hsm2
    simp only [SymMap.logDefine, Bool.false_eq_true, ↓reduceIte]
    have ha' := ha.ok ⟨(sm.recordList.push a).size, sm.templateArgList.size, sm.recordFieldList.size,
        sm.variableList.size, sm.defsetList.size, sm.multiclassList.size, sm.defmList.size⟩
    have h1 := ha.tas
    have h2 := ha.flds
    refine ⟨StepOK.of ?_ ?_ ?_ ?_ ?_, by simp [SymMap.sizes], by simp [SymMap.record, getElem!_push_eq]⟩
    · grow_push hi
    · grow_ids hi
    · grow_locs hl
    · intro hg; grow_files hf hi hg
    · grow_names hn hi htok
  obtain ⟨p1, p2, p3⟩ := h2.1.thenPush a.defineLoc.file (.record sm.recordList.size) h2.2.1
    (by simp only [SymMap.symLoc]; rw [h2.2.2])
  refine ⟨p1, p2 ▸ h2.2.1, ?_⟩
  obtain ⟨l, hl', _⟩ := sm2.pushFileSymbol_eq a.defineLoc.file (.record sm.recordList.size)
  rw [hl']
  exact h2.2.2


theorem getElem!_lt_of_forall {a : Array Nat} {i n : Nat} (hi : i < a.size) (h : ∀ g ∈ a.toList, g < n) :
    a[i]! < n := by
  rw [getElem!_pos a i hi]
  exact h _ (by simp)

theorem SymMap.gidOf_lt (sm : SymMap) (hi : sm.IdsOK) {s : SymbolId} (hs : SymOK sm.sizes s) :
    sm.gidOf s < sm.gidToSym.size := by
  cases s <;> simp only [SymOK, SymMap.sizes] at hs <;> simp only [SymMap.gidOf]
  · exact getElem!_lt_of_forall (by rw [hi.recGid.1]; exact hs) hi.recGid.2
  · exact getElem!_lt_of_forall (by rw [hi.taGid.1]; exact hs) hi.taGid.2
  · exact getElem!_lt_of_forall (by rw [hi.fldGid.1]; exact hs) hi.fldGid.2
  · exact getElem!_lt_of_forall (by rw [hi.varGid.1]; exact hs) hi.varGid.2
  · exact getElem!_lt_of_forall (by rw [hi.dsGid.1]; exact hs) hi.dsGid.2
  · exact getElem!_lt_of_forall (by rw [hi.mcGid.1]; exact hs) hi.mcGid.2
  · exact getElem!_lt_of_forall (by rw [hi.dmGid.1]; exact hs) hi.dmGid.2

theorem SymMap.addReference_ok {ws : Workspace} (sm : SymMap) (s : SymbolId) (loc : FileRange)
    (hi : sm.IdsOK) (hl : sm.LocsOK ws) (hf : sm.FilesOK) (hn : sm.NamesOK ws) (hs : SymOK sm.sizes s) (hloc : NodeLocR ws loc)
    (hnm : sm.Named s) (htok : TokAt ws loc.toLoc (sm.symName s)) :
    StepOK ws sm (sm.addReference s loc) := by
  have hg := sm.gidOf_lt hi hs
  simp only [SymMap.addReference]
  refine StepOK.of ?_ ?_ ?_ ?_ ?_
  · grow_push hi
  · grow_ids hi
  · grow_locs hl
  · intro hg'; grow_files hf hi hg'
  · apply SymMap.NamesOK.of_grow hn hi (by grown_push hi)
    case log => (simp only [Array.toList_push]; exact hn.log.reference hnm htok)
    all_goals dsimp only
    all_goals first | done | grind

theorem SymMap.registerDefsetName_ok {ws : Workspace} (sm : SymMap) (id : Nat)
    (hi : sm.IdsOK) (hl : sm.LocsOK ws) (hf : sm.FilesOK) (hn : sm.NamesOK ws) (hid : id < sm.defsetList.size) :
    StepOK ws sm (sm.registerDefsetName id) := by
  simp only [SymMap.registerDefsetName]
  refine StepOK.of ?_ ?_ ?_ ?_ ?_
  · grow_push hi
  · grow_ids hi
  · grow_locs hl
  · intro hg'; grow_files hf hi hg'
  · grow_names_same hn hi

/-! ### in-place mutation of an arena entry -/

/-- `GrowN` for `arena.modify id f` where `f` keeps the name -/
macro "grown_modify" hname:ident : tactic => `(tactic| (
  refine ⟨?_, fun s _ => by cases s <;> rfl, [], (List.append_nil _).symm⟩
  intro s hs
  cases s <;> simp only [SymOK, SymMap.sizes] at hs <;>
    simp only [SymMap.symName, SymMap.record, SymMap.templateArg, SymMap.recordField, SymMap.var,
      SymMap.defset, SymMap.multiclass, SymMap.defm] <;>
    (first | rfl | (rw [getElem!_modify _ _ _ hs]; split <;> simp [$hname:ident]))))

theorem SymMap.record_mem (sm : SymMap) {id : Nat} (h : id < sm.recordList.size) :
    sm.record id ∈ sm.recordList.toList := by unfold SymMap.record; rw [getElem!_pos sm.recordList id h]; simp
theorem SymMap.multiclass_mem (sm : SymMap) {id : Nat} (h : id < sm.multiclassList.size) :
    sm.multiclass id ∈ sm.multiclassList.toList := by unfold SymMap.multiclass; rw [getElem!_pos sm.multiclassList id h]; simp
theorem SymMap.defm_mem (sm : SymMap) {id : Nat} (h : id < sm.defmList.size) :
    sm.defm id ∈ sm.defmList.toList := by unfold SymMap.defm; rw [getElem!_pos sm.defmList id h]; simp
theorem SymMap.defset_mem (sm : SymMap) {id : Nat} (h : id < sm.defsetList.size) :
    sm.defset id ∈ sm.defsetList.toList := by unfold SymMap.defset; rw [getElem!_pos sm.defsetList id h]; simp

theorem mem_modify_cases {α : Type} [Inhabited α] {a : Array α} {id : Nat} {f : α → α} {x : α}
    (h : x ∈ (a.modify id f).toList) : x ∈ a.toList ∨ (id < a.size ∧ x = f a[id]!) := by
  rw [Array.mem_toList_iff, Array.mem_iff_getElem] at h
  obtain ⟨j, hj, rfl⟩ := h
  simp only [Array.size_modify] at hj
  simp only [Array.getElem_modify]
  split
  · rename_i hij
    subst hij
    exact Or.inr ⟨hj, by rw [getElem!_pos a id hj]⟩
  · exact Or.inl (by simp)

theorem SymMap.recordMut_ok {ws : Workspace} (sm : SymMap) (id : Nat) (f : Record → Record)
    (hi : sm.IdsOK) (hl : sm.LocsOK ws) (hfl : sm.FilesOK) (hn : sm.NamesOK ws)
    (hf : ∀ r, RecordOK sm.sizes r → RecordOK sm.sizes (f r))
    (hloc : ∀ r, (f r).defineLoc = r.defineLoc) (hkind : ∀ r, (f r).kind = r.kind)
    (hname : ∀ r, (f r).name = r.name)
    (hT : id < sm.recordList.size → (sm.record id).kind = .cls → ∀ e ∈ (f (sm.record id)).nameToTemplateArg.toList,
      (sm.templateArg e.2).defineLoc.file = (sm.record id).defineLoc.file)
    (hF : id < sm.recordList.size → ∀ e ∈ (f (sm.record id)).nameToRecordField.toList,
      (sm.recordField e.2).defineLoc.file = (sm.record id).defineLoc.file)
    (hNT : id < sm.recordList.size → ∀ e ∈ (f (sm.record id)).nameToTemplateArg.toList, (sm.templateArg e.2).name = e.1)
    (hNF : id < sm.recordList.size → ∀ e ∈ (f (sm.record id)).nameToRecordField.toList, (sm.recordField e.2).name = e.1) :
    StepOK ws sm ({ sm with recordList := sm.recordList.modify id f } : SymMap) := by
  have hmem : ∀ r ∈ (sm.recordList.modify id f).toList, r ∈ sm.recordList.toList ∨
      (id < sm.recordList.size ∧ r = f (sm.record id)) := fun r hr => mem_modify_cases hr
  have hgrow : SymMap.Grow sm ({ sm with recordList := sm.recordList.modify id f } : SymMap) := by
    constructor
    case n => grown_modify hname
    · constructor <;> simp [SymMap.sizes]
    all_goals intro i hi'
    all_goals first
      | rfl
      | (simp only [SymMap.record]; rw [getElem!_modify _ _ _ hi']; split <;> simp [hloc, hkind])
  refine StepOK.of hgrow ?_ ?_ ?_ ?_
  · ids_gid_facts hi
    apply SymMap.IdsOK.of_grow hi
    case recs =>
      intro r hr
      rcases hmem r hr with h | ⟨h1, rfl⟩
      · exact Or.inl h
      · right
        have := hf _ (hi.recs _ (sm.record_mem h1))
        simpa [SymMap.sizes] using this
    all_goals dsimp only [SymMap.sizes]
    all_goals first | done | (constructor <;> simp; done) | grind
  · apply SymMap.LocsOK.of_grow hl
    case recs =>
      intro r hr
      rcases hmem r hr with h | ⟨h1, rfl⟩
      · exact Or.inl ⟨r, h, rfl⟩
      · exact Or.inl ⟨sm.record id, sm.record_mem h1, (hloc _).symm⟩
    all_goals dsimp only
    all_goals first | done | grind
  · intro hg
    apply SymMap.FilesOK.of_grow hfl hi hg
    case recTas =>
      intro r hr
      rcases hmem r hr with h | ⟨h1, rfl⟩
      · exact Or.inl ⟨r, h, rfl, rfl, rfl⟩
      · right
        intro hk e he
        rw [hkind] at hk
        rw [hloc]
        exact hT h1 hk e he
    case recFlds =>
      intro r hr
      rcases hmem r hr with h | ⟨h1, rfl⟩
      · exact Or.inl ⟨r, h, rfl, rfl⟩
      · right
        intro e he
        rw [hloc]
        exact hF h1 e he
    all_goals dsimp only
    all_goals first | done | grind
  · apply SymMap.NamesOK.of_grow hn hi hgrow.n
    case log => exact hn.log
    case recTas =>
      intro r hr
      rcases hmem r hr with h | ⟨h1, rfl⟩
      · exact Or.inl ⟨r, h, rfl⟩
      · exact Or.inr (hNT h1)
    case recFlds =>
      intro r hr
      rcases hmem r hr with h | ⟨h1, rfl⟩
      · exact Or.inl ⟨r, h, rfl⟩
      · exact Or.inr (hNF h1)
    all_goals dsimp only
    all_goals first | done | grind

theorem SymMap.multiclassMut_ok {ws : Workspace} (sm : SymMap) (id : Nat) (f : Multiclass → Multiclass)
    (hi : sm.IdsOK) (hl : sm.LocsOK ws) (hfl : sm.FilesOK) (hn : sm.NamesOK ws)
    (hf : ∀ r, MulticlassOK sm.sizes r → MulticlassOK sm.sizes (f r))
    (hloc : ∀ r, (f r).defineLoc = r.defineLoc) (hname : ∀ r, (f r).name = r.name)
    (hT : id < sm.multiclassList.size → ∀ e ∈ (f (sm.multiclass id)).nameToTemplateArg.toList,
      (sm.templateArg e.2).defineLoc.file = (sm.multiclass id).defineLoc.file)
    (hNT : id < sm.multiclassList.size → ∀ e ∈ (f (sm.multiclass id)).nameToTemplateArg.toList, (sm.templateArg e.2).name = e.1) :
    StepOK ws sm ({ sm with multiclassList := sm.multiclassList.modify id f } : SymMap) := by
  have hmem : ∀ r ∈ (sm.multiclassList.modify id f).toList, r ∈ sm.multiclassList.toList ∨
      (id < sm.multiclassList.size ∧ r = f (sm.multiclass id)) := fun r hr => mem_modify_cases hr
  have hgrow : SymMap.Grow sm ({ sm with multiclassList := sm.multiclassList.modify id f } : SymMap) := by
    constructor
    case n => grown_modify hname
    · constructor <;> simp [SymMap.sizes]
    all_goals intro i hi'
    all_goals first
      | rfl
      | (simp only [SymMap.multiclass]; rw [getElem!_modify _ _ _ hi']; split <;> simp [hloc])
  refine StepOK.of hgrow ?_ ?_ ?_ ?_
  · ids_gid_facts hi
    apply SymMap.IdsOK.of_grow hi
    case mcs =>
      intro r hr
      rcases hmem r hr with h | ⟨h1, rfl⟩
      · exact Or.inl h
      · right
        have := hf _ (hi.mcs _ (sm.multiclass_mem h1))
        simpa [SymMap.sizes] using this
    all_goals dsimp only [SymMap.sizes]
    all_goals first | done | (constructor <;> simp; done) | grind
  · apply SymMap.LocsOK.of_grow hl
    case mcs =>
      intro r hr
      rcases hmem r hr with h | ⟨h1, rfl⟩
      · exact Or.inl ⟨r, h, rfl⟩
      · exact Or.inl ⟨sm.multiclass id, sm.multiclass_mem h1, (hloc _).symm⟩
    all_goals dsimp only
    all_goals first | done | grind
  · intro hg
    apply SymMap.FilesOK.of_grow hfl hi hg
    case mcTas =>
      intro r hr
      rcases hmem r hr with h | ⟨h1, rfl⟩
      · exact Or.inl ⟨r, h, rfl, rfl⟩
      · right
        intro e he
        rw [hloc]
        exact hT h1 e he
    all_goals dsimp only
    all_goals first | done | grind
  · apply SymMap.NamesOK.of_grow hn hi hgrow.n
    case log => exact hn.log
    case mcTas =>
      intro r hr
      rcases hmem r hr with h | ⟨h1, rfl⟩
      · exact Or.inl ⟨r, h, rfl⟩
      · exact Or.inr (hNT h1)
    all_goals dsimp only
    all_goals first | done | grind

theorem SymMap.defmMut_ok {ws : Workspace} (sm : SymMap) (id : Nat) (f : Defm → Defm)
    (hi : sm.IdsOK) (hl : sm.LocsOK ws) (hfl : sm.FilesOK) (hn : sm.NamesOK ws)
    (hf : ∀ r, DefmOK sm.sizes r → DefmOK sm.sizes (f r))
    (hloc : ∀ r, (f r).defineLoc = r.defineLoc) (hname : ∀ r, (f r).name = r.name) :
    StepOK ws sm ({ sm with defmList := sm.defmList.modify id f } : SymMap) := by
  have hmem : ∀ r ∈ (sm.defmList.modify id f).toList, r ∈ sm.defmList.toList ∨
      (id < sm.defmList.size ∧ r = f (sm.defm id)) := fun r hr => mem_modify_cases hr
  have hgrow : SymMap.Grow sm ({ sm with defmList := sm.defmList.modify id f } : SymMap) := by
    constructor
    case n => grown_modify hname
    · constructor <;> simp [SymMap.sizes]
    all_goals intro i hi'
    all_goals first
      | rfl
      | (simp only [SymMap.defm]; rw [getElem!_modify _ _ _ hi']; split <;> simp [hloc])
  refine StepOK.of hgrow ?_ ?_ ?_ ?_
  · ids_gid_facts hi
    apply SymMap.IdsOK.of_grow hi
    case dms =>
      intro r hr
      rcases hmem r hr with h | ⟨h1, rfl⟩
      · exact Or.inl h
      · right
        have := hf _ (hi.dms _ (sm.defm_mem h1))
        simpa [SymMap.sizes] using this
    all_goals dsimp only [SymMap.sizes]
    all_goals first | done | (constructor <;> simp; done) | grind
  · apply SymMap.LocsOK.of_grow hl
    case dms =>
      intro r hr
      rcases hmem r hr with h | ⟨h1, rfl⟩
      · exact Or.inl ⟨r, h, rfl⟩
      · exact Or.inl ⟨sm.defm id, sm.defm_mem h1, (hloc _).symm⟩
    all_goals dsimp only
    all_goals first | done | grind
  · intro hg
    apply SymMap.FilesOK.of_grow hfl hi hg
    all_goals dsimp only
    all_goals first | done | grind
  · apply SymMap.NamesOK.of_grow hn hi hgrow.n
    case log => exact hn.log
    all_goals dsimp only
    all_goals first | done | grind

theorem SymMap.defsetMut_ok {ws : Workspace} (sm : SymMap) (id : Nat) (f : Defset → Defset)
    (hi : sm.IdsOK) (hl : sm.LocsOK ws) (hfl : sm.FilesOK) (hn : sm.NamesOK ws)
    (hf : ∀ r, DefsetOK sm.sizes r → DefsetOK sm.sizes (f r))
    (hloc : ∀ r, (f r).defineLoc = r.defineLoc) (hname : ∀ r, (f r).name = r.name)
    (hD : id < sm.defsetList.size → ∀ x ∈ (f (sm.defset id)).defList.toList,
      (sm.record x).defineLoc.file = (sm.defset id).defineLoc.file) :
    StepOK ws sm ({ sm with defsetList := sm.defsetList.modify id f } : SymMap) := by
  have hmem : ∀ r ∈ (sm.defsetList.modify id f).toList, r ∈ sm.defsetList.toList ∨
      (id < sm.defsetList.size ∧ r = f (sm.defset id)) := fun r hr => mem_modify_cases hr
  have hgrow : SymMap.Grow sm ({ sm with defsetList := sm.defsetList.modify id f } : SymMap) := by
    constructor
    case n => grown_modify hname
    · constructor <;> simp [SymMap.sizes]
    all_goals intro i hi'
    all_goals first
      | rfl
      | (simp only [SymMap.defset]; rw [getElem!_modify _ _ _ hi']; split <;> simp [hloc])
  refine StepOK.of hgrow ?_ ?_ ?_ ?_
  · ids_gid_facts hi
    apply SymMap.IdsOK.of_grow hi
    case dss =>
      intro r hr
      rcases hmem r hr with h | ⟨h1, rfl⟩
      · exact Or.inl h
      · right
        have := hf _ (hi.dss _ (sm.defset_mem h1))
        simpa [SymMap.sizes] using this
    all_goals dsimp only [SymMap.sizes]
    all_goals first | done | (constructor <;> simp; done) | grind
  · apply SymMap.LocsOK.of_grow hl
    case dss =>
      intro r hr
      rcases hmem r hr with h | ⟨h1, rfl⟩
      · exact Or.inl ⟨r, h, rfl⟩
      · exact Or.inl ⟨sm.defset id, sm.defset_mem h1, (hloc _).symm⟩
    all_goals dsimp only
    all_goals first | done | grind
  · intro hg
    apply SymMap.FilesOK.of_grow hfl hi hg
    case dsDefs =>
      intro r hr
      rcases hmem r hr with h | ⟨h1, rfl⟩
      · exact Or.inl ⟨r, h, rfl, rfl⟩
      · right
        intro x hx
        rw [hloc]
        exact hD h1 x hx
    all_goals dsimp only
    all_goals first | done | grind
  · apply SymMap.NamesOK.of_grow hn hi hgrow.n
    case log => exact hn.log
    all_goals dsimp only
    all_goals first | done | grind

end Ide
end Tg
