/-
C04 converse for whole statements (part 6): `multiclass`, the statement dispatch, the induction, and the
top: `source_file` and `parse`.
-/
import TgModel.Lemmas.C04ConvN5

namespace Tg
namespace C04L
open Prog Grammar Frag Doc

local notation "rcv" => Tables.recoverTokens

/-! ### the simple statements under the common interface -/

theorem conv_includeN (n : Nat) (s s' : PState) (h : exec defs rcv n (call .include) s = .ok s') (hc : Clean s s') :
    ∃ w, s.kinds = w ++ s'.kinds ∧ (Shape w → DS (.nt .Include_) w) := by
  obtain ⟨m, hk, hd⟩ := conv_include n s s' h hc
  refine ⟨_, hk, fun hs => ?_⟩
  cases m with
  | zero => exact DVN.of (hd rfl)
  | succ m =>
    exfalso
    refine Shape.not_pat (pat := [TokenKind.StrVal, TokenKind.StrVal]) (by decide) (by simp) [TokenKind.Include]
      (List.replicate m TokenKind.StrVal) ?_
    simpa [List.replicate_succ] using hs

/-- the statement forms that may stand in a multiclass body -/
theorem mc_statement_inv (input : List Char) (L : Nat) (hS : StmtH input L) (n : Nat) (s s' : PState)
    (hl : s.kinds.length ≤ L) (hi : Inv input s) (h : exec defs rcv n (call .multi_class_statement) s = .ok s')
    (hc : Clean s s') :
    ∃ w, s.kinds = w ++ s'.kinds ∧ (Shape w → DS (.nt .MultiClassStatement_) w) := by
  have h := call_inv defs rcv (lift_fuel h 40)
  simp only [defs, matchPeek, mcStatementArms] at h
  rcases ifAt_inv defs rcv h with ⟨_, h⟩ | ⟨_, h⟩
  · obtain ⟨w, hk, hd⟩ := conv_assert input _ s s' hi h hc
    exact ⟨w, hk, fun _ => DVN.nt (DVN.altR (DVN.altL (DVN.ofDV hd)))⟩
  rcases ifAt_inv defs rcv h with ⟨_, h⟩ | ⟨_, h⟩
  · obtain ⟨w, hk, hd⟩ := conv_def input _ s s' hi h hc
    exact ⟨w, hk, fun hs => DVN.nt (DVN.altR (DVN.altR (DVN.altL (hd hs))))⟩
  rcases ifAt_inv defs rcv h with ⟨_, h⟩ | ⟨_, h⟩
  · obtain ⟨w, hk, hd⟩ := conv_defm input _ s s' hi h hc
    exact ⟨w, hk, fun _ => DVN.nt (DVN.altR (DVN.altR (DVN.altR (DVN.altL hd))))⟩
  rcases ifAt_inv defs rcv h with ⟨_, h⟩ | ⟨_, h⟩
  · obtain ⟨w, hk, hd⟩ := conv_defvar input _ s s' hi h hc
    exact ⟨w, hk, fun _ => DVN.nt (DVN.altR (DVN.altR (DVN.altR (DVN.altR (DVN.altL (DVN.ofDV hd))))))⟩
  rcases ifAt_inv defs rcv h with ⟨_, h⟩ | ⟨_, h⟩
  · obtain ⟨w, hk, hd⟩ := conv_dump input _ s s' hi h hc
    exact ⟨w, hk, fun _ => DVN.nt (DVN.altR (DVN.altR (DVN.altR (DVN.altR (DVN.altR (DVN.altL (DVN.ofDV hd)))))))⟩
  rcases ifAt_inv defs rcv h with ⟨_, h⟩ | ⟨_, h⟩
  · obtain ⟨w, hk, hd⟩ := conv_foreach input L hS _ s s' hl hi h hc
    exact ⟨w, hk, fun hs =>
      DVN.nt (DVN.altR (DVN.altR (DVN.altR (DVN.altR (DVN.altR (DVN.altR (DVN.altL (hd hs))))))))⟩
  rcases ifAt_inv defs rcv h with ⟨_, h⟩ | ⟨_, h⟩
  · obtain ⟨w, hk, hd⟩ := conv_let input L hS _ s s' hl hi h hc
    exact ⟨w, hk, fun hs =>
      DVN.nt (DVN.altR (DVN.altR (DVN.altR (DVN.altR (DVN.altR (DVN.altR (DVN.altR (DVN.altL (hd hs)))))))))⟩
  rcases ifAt_inv defs rcv h with ⟨_, h⟩ | ⟨_, h⟩
  · obtain ⟨w, hk, hd⟩ := conv_if input L hS _ s s' hl hi h hc
    exact ⟨w, hk, fun hs =>
      DVN.nt (DVN.altR (DVN.altR (DVN.altR (DVN.altR (DVN.altR (DVN.altR (DVN.altR (DVN.altR (hd hs)))))))))⟩
  · exact (errorAndEat_inv h hc).elim

theorem conv_multiclass (input : List Char) (L : Nat) (hS : StmtH input L) (n : Nat) (s s' : PState)
    (hl : s.kinds.length ≤ L) (hi : Inv input s) (h : exec defs rcv n (call .multi_class) s = .ok s')
    (hc : Clean s s') :
    ∃ w, s.kinds = w ++ s'.kinds ∧ (Shape w → DS (.nt .MultiClass_) w) := by
  have h := call_inv defs rcv (lift_fuel h 60)
  simp only [defs, seqs] at h
  obtain ⟨s1, h1, _, h, hc⟩ := seq_inv defs rcv h hc
  have i1 := inv_exec defs rcv input _ _ _ _ hi h1
  have e1 := same_startNode h1
  obtain ⟨s2, h2, _, h, hc⟩ := seq_inv defs rcv h hc
  have i2 := inv_exec defs rcv input _ _ _ _ i1 h2
  obtain ⟨k2, a2⟩ := assertTok_clean (by decide) h2
  obtain ⟨s3, h3, c3, h, hc⟩ := seq_inv defs rcv h hc
  have i3 := inv_exec defs rcv input _ _ _ _ i2 h3
  obtain ⟨k3, a3⟩ := ident_clean h3 c3
  obtain ⟨s4, h4, c4, h, hc⟩ := seq_inv defs rcv h hc
  have i4 := inv_exec defs rcv input _ _ _ _ i3 h4
  obtain ⟨wT, k4, a4, d4⟩ := conv_targsN input _ _ _ i3 h4 c4 a3
  obtain ⟨s5, h5, c5, h, hc⟩ := seq_inv defs rcv h hc
  have i5 := inv_exec defs rcv input _ _ _ _ i4 h5
  obtain ⟨wP, k5, a5, d5⟩ := conv_parentsN input _ _ _ i4 h5 c5 a4
  obtain ⟨s6, h6, c6, h, hc⟩ := seq_inv defs rcv h hc
  have i6 := inv_exec defs rcv input _ _ _ _ i5 h6
  obtain ⟨hcur, k6, a6, _⟩ := expect_cleanC (by decide) h6 c6 a5
  obtain ⟨s7, h7, c7, h, _⟩ := seq_inv defs rcv h hc
  have e8 := same_finishNode h
  have k06 : s.kinds = (TokenKind.MultiClass :: TokenKind.Id :: (wT ++ (wP ++ [TokenKind.LBrace]))) ++ s6.kinds := by
    rw [← e1.kinds, k2, k3, k4, k5, k6]; simp
  have l6 : s6.kinds.length < L := Nat.lt_of_lt_of_le (kinds_len_lt k06 (by simp)) hl
  -- multi_class_statements
  have h7 := call_inv defs rcv h7
  simp only [defs, seqs] at h7
  obtain ⟨t1, g1, _, g, gc⟩ := seq_inv defs rcv h7 c7
  have j1 := inv_exec defs rcv input _ _ _ _ i6 g1
  have f1 := same_startNode g1
  obtain ⟨t2, g2, gc2, g, gc⟩ := seq_inv defs rcv g gc
  have j2 := inv_exec defs rcv input _ _ _ _ j1 g2
  have lt1 : t1.kinds.length ≤ L := by rw [f1.kinds]; exact Nat.le_of_lt l6
  have lt1' : t1.kinds.length < L := by rw [f1.kinds]; exact l6
  obtain ⟨w1, m1, dm1⟩ := mc_statement_inv input L hS _ _ _ lt1 j1 g2 gc2
  obtain ⟨t3, g3, gc3, g, gc⟩ := seq_inv defs rcv g gc
  have hItem : ItemH input (call .multi_class_statement) (.nt .MultiClassStatement_) L :=
    fun n a b hla hia hab cab => mc_statement_inv input L hS n a b (Nat.le_of_lt hla) hia hab cab
  obtain ⟨w2, m2, dm2⟩ := while_loop input _ _ L hItem _ _ _ _
    (Nat.lt_of_le_of_lt (kinds_len_le m1) lt1') j2 g3 gc3
  have b1 := clean_afterError defs rcv g2 gc2 (by rw [f1.after]; exact a6)
  have b2 := clean_afterError defs rcv g3 gc3 b1
  obtain ⟨t4, g4, gc4, g, _⟩ := seq_inv defs rcv g gc
  obtain ⟨m4, _⟩ := expect_clean (by decide) g4 gc4 b2
  have f5 := same_finishNode g
  refine ⟨TokenKind.MultiClass :: TokenKind.Id :: (wT ++ (wP ++ (TokenKind.LBrace :: (w1 ++ (w2 ++ [TokenKind.RBrace]))))),
    ?_, ?_⟩
  · rw [k06, ← f1.kinds, m1, m2, m4, e8.kinds, f5.kinds]; simp
  · intro hs
    have hbody : Shape (w1 ++ (w2 ++ [TokenKind.RBrace])) :=
      Shape.right (u := TokenKind.MultiClass :: TokenKind.Id :: (wT ++ (wP ++ [TokenKind.LBrace]))) (by simpa using hs)
    have hw1 : Shape w1 := hbody.left
    have hw2 : Shape w2 := (hbody.right).left
    rcases d5 with he | d5
    · rw [he] at hcur; cases hcur
    rcases d4 with rfl | d4
    · exact (Shape.not_pat (pat := [TokenKind.MultiClass, TokenKind.Id, TokenKind.Less, TokenKind.Greater])
        (by decide) (by simp) [] _ (by simpa using hs)).elim
    · have hT : Shape wT := Shape.infix (u := [TokenKind.MultiClass, TokenKind.Id])
        (x := wP ++ (TokenKind.LBrace :: (w1 ++ (w2 ++ [TokenKind.RBrace])))) (by simpa using hs)
      exact DVN.nt (ds_tokSeq (ds_idSeq (DVN.seq (d4 hT) (DVN.seq d5 (ds_tokSeq
        (ds_cast (DVN.seq (DVN.plus (dm1 hw1) (dm2 hw2)) (ds_tok1 _)) (by simp)))))))

/-! ### `statement` -/

theorem statement_step (input : List Char) (L : Nat) (hS : StmtH input L) : StmtH input (L + 1) := by
  intro n s s' hl hi h hc
  have hl : s.kinds.length ≤ L := Nat.le_of_lt_succ hl
  have h := call_inv defs rcv (lift_fuel h 40)
  simp only [defs, matchPeek, statementArms] at h
  rcases ifAt_inv defs rcv h with ⟨_, h⟩ | ⟨_, h⟩
  · obtain ⟨w, hk, hd⟩ := conv_includeN _ s s' h hc
    exact ⟨w, hk, fun hs => DVN.nt (DVN.altL (hd hs))⟩
  rcases ifAt_inv defs rcv h with ⟨_, h⟩ | ⟨_, h⟩
  · obtain ⟨w, hk, hd⟩ := conv_assert input _ s s' hi h hc
    exact ⟨w, hk, fun _ => DVN.nt (DVN.altR (DVN.altL (DVN.ofDV hd)))⟩
  rcases ifAt_inv defs rcv h with ⟨_, h⟩ | ⟨_, h⟩
  · obtain ⟨w, hk, hd⟩ := conv_classN input _ s s' hi h hc
    exact ⟨w, hk, fun hs => DVN.nt (DVN.altR (DVN.altR (DVN.altL (hd hs))))⟩
  rcases ifAt_inv defs rcv h with ⟨_, h⟩ | ⟨_, h⟩
  · obtain ⟨w, hk, hd⟩ := conv_def input _ s s' hi h hc
    exact ⟨w, hk, fun hs => DVN.nt (DVN.altR (DVN.altR (DVN.altR (DVN.altL (hd hs)))))⟩
  rcases ifAt_inv defs rcv h with ⟨_, h⟩ | ⟨_, h⟩
  · obtain ⟨w, hk, hd⟩ := conv_defm input _ s s' hi h hc
    exact ⟨w, hk, fun _ => DVN.nt (DVN.altR (DVN.altR (DVN.altR (DVN.altR (DVN.altL hd)))))⟩
  rcases ifAt_inv defs rcv h with ⟨_, h⟩ | ⟨_, h⟩
  · obtain ⟨w, hk, hd⟩ := conv_defset input L hS _ s s' hl hi h hc
    exact ⟨w, hk, fun hs => DVN.nt (DVN.altR (DVN.altR (DVN.altR (DVN.altR (DVN.altR (DVN.altL (hd hs)))))))⟩
  rcases ifAt_inv defs rcv h with ⟨_, h⟩ | ⟨_, h⟩
  · obtain ⟨w, hk, hd⟩ := conv_defvar input _ s s' hi h hc
    exact ⟨w, hk, fun _ =>
      DVN.nt (DVN.altR (DVN.altR (DVN.altR (DVN.altR (DVN.altR (DVN.altR (DVN.altL (DVN.ofDV hd))))))))⟩
  rcases ifAt_inv defs rcv h with ⟨_, h⟩ | ⟨_, h⟩
  · obtain ⟨w, hk, hd⟩ := conv_dump input _ s s' hi h hc
    exact ⟨w, hk, fun _ =>
      DVN.nt (DVN.altR (DVN.altR (DVN.altR (DVN.altR (DVN.altR (DVN.altR (DVN.altR (DVN.altL (DVN.ofDV hd)))))))))⟩
  rcases ifAt_inv defs rcv h with ⟨_, h⟩ | ⟨_, h⟩
  · obtain ⟨w, hk, hd⟩ := conv_foreach input L hS _ s s' hl hi h hc
    exact ⟨w, hk, fun hs =>
      DVN.nt (DVN.altR (DVN.altR (DVN.altR (DVN.altR (DVN.altR (DVN.altR (DVN.altR (DVN.altR (DVN.altL (hd hs))))))))))⟩
  rcases ifAt_inv defs rcv h with ⟨_, h⟩ | ⟨_, h⟩
  · obtain ⟨w, hk, hd⟩ := conv_if input L hS _ s s' hl hi h hc
    exact ⟨w, hk, fun hs => DVN.nt (DVN.altR (DVN.altR (DVN.altR (DVN.altR (DVN.altR (DVN.altR (DVN.altR (DVN.altR
      (DVN.altR (DVN.altL (hd hs)))))))))))⟩
  rcases ifAt_inv defs rcv h with ⟨_, h⟩ | ⟨_, h⟩
  · obtain ⟨w, hk, hd⟩ := conv_let input L hS _ s s' hl hi h hc
    exact ⟨w, hk, fun hs => DVN.nt (DVN.altR (DVN.altR (DVN.altR (DVN.altR (DVN.altR (DVN.altR (DVN.altR (DVN.altR
      (DVN.altR (DVN.altR (DVN.altL (hd hs))))))))))))⟩
  rcases ifAt_inv defs rcv h with ⟨_, h⟩ | ⟨_, h⟩
  · obtain ⟨w, hk, hd⟩ := conv_multiclass input L hS _ s s' hl hi h hc
    exact ⟨w, hk, fun hs => DVN.nt (DVN.altR (DVN.altR (DVN.altR (DVN.altR (DVN.altR (DVN.altR (DVN.altR (DVN.altR
      (DVN.altR (DVN.altR (DVN.altR (hd hs))))))))))))⟩
  · exact (errorAndEat_inv h hc).elim

theorem stmtH_all (input : List Char) : ∀ L, StmtH input L
  | 0 => fun _ _ _ hl => (Nat.not_lt_zero _ hl).elim
  | L + 1 => statement_step input L (stmtH_all input L)

/-- **converse for `statement`**: a clean run of the statement parser consumed a word that, under the
shape predicate, derives from `Statement` in the extended grammar -/
theorem statement_converse (input : List Char) (n : Nat) (s s' : PState) (hi : Inv input s)
    (h : exec defs rcv n (call .statement) s = .ok s') (hc : Clean s s') :
    ∃ w, s.kinds = w ++ s'.kinds ∧ (Shape w → DS (.nt .Statement_) w) :=
  stmtH_all input (s.kinds.length + 1) n s s' (Nat.lt_succ_self _) hi h hc

/-! ### the top -/

theorem source_file_inv (input : List Char) (n : Nat) (s s' : PState) (hi : Inv input s)
    (h : exec defs rcv n (call .source_file) s = .ok s') (hc : Clean s s') (ha : s.afterError = false) :
    s'.kinds = [] ∧ (Shape s.kinds → DS (.nt .SourceFile_) s.kinds) := by
  have h := call_inv defs rcv (lift_fuel h 40)
  simp only [defs, seqs] at h
  obtain ⟨s1, h1, _, h, hc⟩ := seq_inv defs rcv h hc
  have i1 := inv_exec defs rcv input _ _ _ _ hi h1
  have e1 := same_startNode h1
  obtain ⟨s2, h2, c2, h, hc⟩ := seq_inv defs rcv h hc
  -- statement_list_top
  have h2 := call_inv defs rcv h2
  simp only [defs, seqs] at h2
  obtain ⟨t1, g1, _, g, gc⟩ := seq_inv defs rcv h2 c2
  have j1 := inv_exec defs rcv input _ _ _ _ i1 g1
  have f1 := same_startNode g1
  obtain ⟨t2, g2, gc2, g, gc⟩ := seq_inv defs rcv g gc
  have j2 := inv_exec defs rcv input _ _ _ _ j1 g2
  obtain ⟨m2, _, _⟩ := skip_inv g2
  obtain ⟨t3, g3, gc3, g, _⟩ := seq_inv defs rcv g gc
  obtain ⟨w, m3, d3⟩ := while_loop input _ _ (t2.kinds.length + 1) (stmtH_all input _) _ _ _ _
    (Nat.lt_succ_self _) j2 g3 gc3
  have f4 := same_finishNode g
  -- at the end of the input
  obtain ⟨s3, h3, c3, h, _⟩ := seq_inv defs rcv h hc
  have e4 := same_finishNode h
  have hend : s2.cur = .Eof ∧ s3.kinds = s2.kinds := by
    rcases ifAt_inv defs rcv h3 with ⟨hat, h3⟩ | ⟨_, h3⟩
    · exact ⟨by simpa using hat, (same_nop h3).kinds⟩
    · exact (error_inv defs rcv h3 c3).elim
  have k2 : s2.kinds = [] := kinds_eof hend.1
  have kk : s.kinds = w := by
    rw [← e1.kinds, ← f1.kinds, ← m2, m3, ← f4.kinds, k2, List.append_nil]
  refine ⟨by rw [e4.kinds, hend.2, k2], fun hs => ?_⟩
  rw [kk] at hs ⊢
  exact DVN.nt (DVN.nt (d3 hs))

theorem finish_errors_nil {s : PState} (h : s.finish.errors = []) : s.errors = [] := by
  unfold PState.finish at h
  split at h
  · split at h
    · simp at h
    · exact h
  · exact h

/-- **converse at the top, partial**: if `parse` accepts the input without error and its token kinds have
the shape, they derive from `SourceFile` in the extended grammar -/
theorem source_file_converse (input : List Char) (r : ParseResult) (h : parse input = .ok r)
    (herr : r.errors = []) (hs : Shape (PState.init input).kinds) :
    DS (.nt .SourceFile_) (PState.init input).kinds := by
  unfold parse at h
  split at h
  · rename_i s hexec
    split at h
    · simp only [ParseOut.ok.injEq] at h
      subst h
      have he : s.errors = [] := by
        have : s.finish.errors.reverse = [] := herr
        exact finish_errors_nil (List.reverse_eq_nil_iff.mp this)
      have hc : Clean (PState.init input) s := by unfold Clean; rw [he]; exact Nat.zero_le _
      exact (source_file_inv input _ _ _ (PState.inv_init input) hexec hc rfl).2 hs
    · cases h
  · cases h
  · cases h

end C04L
end Tg
