/-
C04 forward direction: the fragment `Frag` of TableGen for which "documented sentences parse
clean" is proved.  Everything is at the level of token kinds (identifier names, numbers and
string contents do not matter to the grammar).

In the fragment:
* types: `bit int string dag code bits<n> list<T> ClassId` (`code` only as a whole field type
  in programs: `DTy` / `FTy`);
* values (mutually recursive): `#`-pastes of simple values with suffixes.  Simple values: integer /
  binary integer, string, code fragment, `true`, `false`, `?`, identifier, class value `Id<v, …>`,
  bit literal `{v, …}`, list `[v, …]`, bang operator `!op[<T>](v, …)`, `!cond(c: v, …)`, dag
  `(op[:$n] arg, …)` with `arg = v[:$x] | $x`.  Suffixes: `.field`, bit range `{ranges}`, slice
  `[e, …[,]]` with `e = v | v...v | v - v | v -3`;
* statements: all twelve statement forms — `include`, `class` (template arguments with defaults,
  parent classes with template arguments `A<v, …, n = v, …>`, `;` or a `{ … }` body of field
  definitions, field `let`s with optional bit ranges, `defvar`, `assert`, `dump`), `def` (optional
  name, parents, body), `defm`, `defvar`, `dump`, `assert`, `defset T Id = { statements }`,
  `let Id[<ranges>] = v, … in …`, `foreach Id = (v | range piece | { ranges }) in …`, `multiclass`
  (with its restricted statement list), `if v then (statement | { statements }) [else …]`.

Restrictions built into the types (each one is a place where the documented grammar is wider than
what the parser accepts, or is ambiguous):
* a dag operator is an identifier, a class value, `?`, `!cast…` or `!getdagop…` (`OLit`; the
  counterexample of `full_forward_false` is outside);
* after a dag operator without `:$name`, the first argument does not start with `{`, `[` or a string
  (`HLit`; the parser would read `op[…]` / `op{…}` / a concatenated string);
* a name (`def` / `defm`) does not start with `{` and has no `{ranges}` suffix outside brackets
  (`NameVal`: there `{` starts the record body);
* a `foreach` value does not start with a decimal integer or `{`, a `foreach` range piece starts
  with a decimal integer (`ForeachInit.wf`: the parser chooses by the first token);
* the second number of `n m` / `v m` is an `IntVal` (`RangePiece.juxt`, `SliceElem.juxt`);
* template arguments of a class reference: positional ones before named ones (`ArgList`);
  class *values* take positional arguments only (named ones are documented and accepted, not covered);
* the unbraced `then` branch of an `if … else` does not end in an `else`-less `if`
  (`Stmt.wf`: the dangling `else`; every token sequence still has a reading that satisfies it);
* a `multiclass` body is a non-empty list of multiclass statements (as documented).

NOT in the fragment (documented sentences about which `forward_partial` says nothing): named
arguments in class values; whatever violates one of the restrictions above.
-/
import TgModel.Generated.Tables

namespace Tg
namespace C04L
namespace Frag

/-! ### types -/

inductive Ty where
  | bit | int | string | dag | code
  | bits (bin : Bool)      -- `bits<n>`, `n` written as decimal/hex (`IntVal`) or binary (`BinaryIntVal`)
  | list (t : Ty)
  | cls                    -- a class name
deriving DecidableEq, Repr

def intKind (bin : Bool) : TokenKind := if bin then .BinaryIntVal else .IntVal

def Ty.render : Ty → _root_.List TokenKind
  | .bit => [TokenKind.Bit]
  | .int => [TokenKind.Int]
  | .string => [TokenKind.String]
  | .dag => [TokenKind.Dag]
  | .code => [TokenKind.Code]
  | .bits b => [TokenKind.Bits, TokenKind.Less, intKind b, TokenKind.Greater]
  | .list t => TokenKind.List :: TokenKind.Less :: (t.render ++ [TokenKind.Greater])
  | .cls => [TokenKind.Id]

def Ty.usesCode : Ty → Bool
  | .code => true
  | .list t => t.usesCode
  | _ => false

/-- a type of the documented `Type` rule (no `code` anywhere) -/
def DTy := { t : Ty // t.usesCode = false }

def DTy.render (t : DTy) : _root_.List TokenKind := t.1.render

/-- a field type: `Type` or the whole type `code` -/
inductive FTy where
  | code
  | ty (t : DTy)

def FTy.toTy : FTy → Ty
  | .code => Ty.code
  | .ty t => t.1

def FTy.render (t : FTy) : _root_.List TokenKind := t.toTy.render

/-! ### bit ranges -/

/-- `n`, `n...m`, `n-m`, `n m` (the last with `m` an `IntVal`, e.g. `1-3` lexed as `1` `-3`) -/
inductive RangePiece where
  | single (b : Bool)
  | dots (b1 b2 : Bool)
  | minus (b1 b2 : Bool)
  | juxt (b1 : Bool)
deriving DecidableEq, Repr

def RangePiece.render : RangePiece → _root_.List TokenKind
  | .single b => [intKind b]
  | .dots b1 b2 => [intKind b1, TokenKind.DotDotDot, intKind b2]
  | .minus b1 b2 => [intKind b1, TokenKind.Minus, intKind b2]
  | .juxt b1 => [intKind b1, TokenKind.IntVal]

/-- the first integer is written in binary -/
def RangePiece.firstBin : RangePiece → Bool
  | .single b => b
  | .dots b _ => b
  | .minus b _ => b
  | .juxt b => b

def rangeTail : _root_.List RangePiece → _root_.List TokenKind
  | [] => []
  | p :: ps => TokenKind.Comma :: (p.render ++ rangeTail ps)

structure RangeList where
  hd : RangePiece
  tl : _root_.List RangePiece
deriving DecidableEq, Repr

def RangeList.render (r : RangeList) : _root_.List TokenKind := r.hd.render ++ rangeTail r.tl

/-- `[bra ranges ket]` -/
def optRange (bra ket : TokenKind) : Option RangeList → _root_.List TokenKind
  | none => []
  | some r => bra :: (r.render ++ [ket])

/-! ### values

Literals come in three tiers, because of what may follow what inside a dag:
`OLit` (may be a dag operator) ⊂ `HLit` (may directly follow an unnamed dag operator) ⊂ `Lit`. -/

/-- a bang operator token other than `!cond` -/
def BangOp := { k : TokenKind // Tables.bangOps.contains k = true }

/-- `[< T >]` -/
def optTy : Option DTy → _root_.List TokenKind
  | none => []
  | some t => TokenKind.Less :: (t.render ++ [TokenKind.Greater])

/-- `[: $name]` -/
def nameR (b : Bool) : _root_.List TokenKind := if b then [TokenKind.Colon, TokenKind.VarName] else []

mutual
/-- simple values that can be a dag operator -/
inductive OLit where
  | id
  | uninit                                                   -- `?`
  | classVal (args : VList)                                  -- `Id<v, …>`
  | castop (getdag : Bool) (ty : Option DTy) (hd : Val) (tl : VList)   -- `!cast<T>(…)`, `!getdagop<T>(…)`
/-- simple values that can follow an unnamed dag operator -/
inductive HLit where
  | op (o : OLit)
  | int (bin : Bool)
  | code
  | tru
  | fls
  | bang (op : BangOp) (ty : Option DTy) (hd : Val) (tl : VList)      -- `!op[<T>](v, …)`
  | cond (cs : Clauses)                                                -- `!cond(c: v, …)`
  | dag (o : OLit) (sufs : Suffixes) (tl : SVals) (rest : DagRest)     -- `(op[:$n] arg, …)`
/-- simple values -/
inductive Lit where
  | safe (h : HLit)
  | str
  | bits (hd : Val) (tl : VList)                             -- `{v, …}`
  | list (hd : Val) (tl : VList)                             -- `[v, …]`
inductive Suffix where
  | field                                                    -- `.Id`
  | range (r : RangeList)                                    -- `{ranges}`
  | slice (es : SliceElems) (trailing : Bool)                -- `[e, …[,]]`
inductive Suffixes where
  | nil
  | cons (s : Suffix) (ss : Suffixes)
/-- `# simple-value suffixes …` -/
inductive SVals where
  | nil
  | cons (l : Lit) (sufs : Suffixes) (rest : SVals)
/-- a value: `simple-value suffixes # simple-value suffixes …` -/
inductive Val where
  | mk (l : Lit) (sufs : Suffixes) (tl : SVals)
inductive VList where
  | nil
  | cons (v : Val) (rest : VList)
inductive SliceElem where
  | single (v : Val)
  | dots (a b : Val)            -- `a...b`
  | minus (a b : Val)           -- `a - b`
  | juxt (a : Val)              -- `a -3` (an `IntVal` right after the value)
inductive SliceElems where
  | one (e : SliceElem)
  | cons (e : SliceElem) (es : SliceElems)
inductive Clauses where
  | one (c v : Val)
  | cons (c v : Val) (rest : Clauses)
/-- what follows the dag operator -/
inductive DagRest where
  | none                                                     -- `)`
  | named (args : DagArgs)                                   -- `:$n arg, …)`
  | bareVar (more : DagArgs)                                 -- `$x, …)`
  | bareVal (h : HLit) (sufs : Suffixes) (tl : SVals) (name : Bool) (more : DagArgs)   -- `v[:$n], …)`
inductive DagArgs where
  | nil
  | var (rest : DagArgs)                                     -- `$x`
  | val (v : Val) (name : Bool) (rest : DagArgs)             -- `v[:$x]`
end

mutual
def OLit.render : OLit → _root_.List TokenKind
  | .id => [TokenKind.Id]
  | .uninit => [TokenKind.Question]
  | .classVal .nil => [TokenKind.Id, TokenKind.Less, TokenKind.Greater]
  | .classVal (.cons v vs) => TokenKind.Id :: TokenKind.Less :: (v.render ++ (vs.tailRender ++ [TokenKind.Greater]))
  | .castop g ty hd tl =>
    (if g then TokenKind.XGetDagOp else TokenKind.XCast) ::
      (optTy ty ++ TokenKind.LParen :: (hd.render ++ (tl.tailRender ++ [TokenKind.RParen])))
def HLit.render : HLit → _root_.List TokenKind
  | .op o => o.render
  | .int b => [intKind b]
  | .code => [TokenKind.CodeFragment]
  | .tru => [TokenKind.TrueVal]
  | .fls => [TokenKind.FalseVal]
  | .bang bo ty hd tl => bo.1 :: (optTy ty ++ TokenKind.LParen :: (hd.render ++ (tl.tailRender ++ [TokenKind.RParen])))
  | .cond cs => TokenKind.XCond :: TokenKind.LParen :: (cs.render ++ [TokenKind.RParen])
  | .dag o sufs tl rest => TokenKind.LParen :: (o.render ++ (sufs.render ++ (tl.render ++ rest.render)))
def Lit.render : Lit → _root_.List TokenKind
  | .safe h => h.render
  | .str => [TokenKind.StrVal]
  | .bits hd tl => TokenKind.LBrace :: (hd.render ++ (tl.tailRender ++ [TokenKind.RBrace]))
  | .list hd tl => TokenKind.LSquare :: (hd.render ++ (tl.tailRender ++ [TokenKind.RSquare]))
def Suffix.render : Suffix → _root_.List TokenKind
  | .field => [TokenKind.Dot, TokenKind.Id]
  | .range r => TokenKind.LBrace :: (r.render ++ [TokenKind.RBrace])
  | .slice es t => TokenKind.LSquare :: (es.renderT t ++ [TokenKind.RSquare])
def Suffixes.render : Suffixes → _root_.List TokenKind
  | .nil => []
  | .cons s ss => s.render ++ ss.render
def SVals.render : SVals → _root_.List TokenKind
  | .nil => []
  | .cons l sufs rest => TokenKind.Paste :: (l.render ++ (sufs.render ++ rest.render))
def Val.render : Val → _root_.List TokenKind
  | .mk l sufs tl => l.render ++ (sufs.render ++ tl.render)
/-- `, v, v …` -/
def VList.tailRender : VList → _root_.List TokenKind
  | .nil => []
  | .cons v rest => TokenKind.Comma :: (v.render ++ rest.tailRender)
def SliceElem.render : SliceElem → _root_.List TokenKind
  | .single v => v.render
  | .dots a b => a.render ++ TokenKind.DotDotDot :: b.render
  | .minus a b => a.render ++ TokenKind.Minus :: b.render
  | .juxt a => a.render ++ [TokenKind.IntVal]
/-- `e, e, … [,]` -/
def SliceElems.renderT : SliceElems → Bool → _root_.List TokenKind
  | .one e, t => e.render ++ (if t then [TokenKind.Comma] else [])
  | .cons e es, t => e.render ++ TokenKind.Comma :: es.renderT t
def Clauses.render : Clauses → _root_.List TokenKind
  | .one c v => c.render ++ TokenKind.Colon :: v.render
  | .cons c v rest => c.render ++ TokenKind.Colon :: (v.render ++ TokenKind.Comma :: rest.render)
/-- everything after the operator, including the closing `)` -/
def DagRest.render : DagRest → _root_.List TokenKind
  | .none => [TokenKind.RParen]
  | .named .nil => [TokenKind.Colon, TokenKind.VarName, TokenKind.RParen]
  | .named (.var rest) => TokenKind.Colon :: TokenKind.VarName :: TokenKind.VarName :: (rest.tailRender ++ [TokenKind.RParen])
  | .named (.val v nm rest) =>
    TokenKind.Colon :: TokenKind.VarName :: (v.render ++ (nameR nm ++ (rest.tailRender ++ [TokenKind.RParen])))
  | .bareVar more => TokenKind.VarName :: (more.tailRender ++ [TokenKind.RParen])
  | .bareVal h sufs tl nm more =>
    h.render ++ (sufs.render ++ (tl.render ++ (nameR nm ++ (more.tailRender ++ [TokenKind.RParen]))))
/-- `, arg, arg …` -/
def DagArgs.tailRender : DagArgs → _root_.List TokenKind
  | .nil => []
  | .var rest => TokenKind.Comma :: TokenKind.VarName :: rest.tailRender
  | .val v nm rest => TokenKind.Comma :: (v.render ++ (nameR nm ++ rest.tailRender))
end

/-- the first token of a simple value / value -/
def OLit.firstTok : OLit → TokenKind
  | .id => .Id
  | .uninit => .Question
  | .classVal _ => .Id
  | .castop g _ _ _ => if g then .XGetDagOp else .XCast

def HLit.firstTok : HLit → TokenKind
  | .op o => o.firstTok
  | .int b => intKind b
  | .code => .CodeFragment
  | .tru => .TrueVal
  | .fls => .FalseVal
  | .bang bo _ _ _ => bo.1
  | .cond _ => .XCond
  | .dag _ _ _ _ => .LParen

def Lit.firstTok : Lit → TokenKind
  | .safe h => h.firstTok
  | .str => .StrVal
  | .bits _ _ => .LBrace
  | .list _ _ => .LSquare

def Val.firstTok : Val → TokenKind
  | .mk l _ _ => l.firstTok

/-! #### values in name position (`def` / `defm` names)

There the parser stops at `{` (it starts the record body): no range suffix outside brackets, and the
name must not start with a `{…}` literal. -/

inductive NSuffix where
  | field
  | slice (es : SliceElems) (trailing : Bool)

def NSuffix.toSuffix : NSuffix → Suffix
  | .field => .field
  | .slice es t => .slice es t

def nsufsRender : _root_.List NSuffix → _root_.List TokenKind
  | [] => []
  | s :: ss => s.toSuffix.render ++ nsufsRender ss

/-- `# simple-value suffixes …` in name position -/
def npasteRender : _root_.List (Lit × _root_.List NSuffix) → _root_.List TokenKind
  | [] => []
  | (l, sufs) :: rest => TokenKind.Paste :: (l.render ++ (nsufsRender sufs ++ npasteRender rest))

structure NameVal where
  l : Lit
  sufs : _root_.List NSuffix
  tl : _root_.List (Lit × _root_.List NSuffix)
  ok : (l.firstTok == TokenKind.LBrace) = false

def NameVal.render (v : NameVal) : _root_.List TokenKind := v.l.render ++ (nsufsRender v.sufs ++ npasteRender v.tl)

/-- `[= value]` -/
def optInit : Option Val → _root_.List TokenKind
  | none => []
  | some v => TokenKind.Equal :: v.render

/-! ### record bodies -/

/-- `Type Id [= value]` in a template argument list -/
structure TArg where
  ty : DTy
  dflt : Option Val

def TArg.render (a : TArg) : _root_.List TokenKind := a.ty.render ++ TokenKind.Id :: optInit a.dflt

/-- `, a, a …` -/
def targsTail : _root_.List TArg → _root_.List TokenKind
  | [] => []
  | a :: as => TokenKind.Comma :: (a.render ++ targsTail as)

/-- `[< a, a … >]` (no brackets for the empty list) -/
def targsRender : _root_.List TArg → _root_.List TokenKind
  | [] => []
  | a :: as => TokenKind.Less :: (a.render ++ (targsTail as ++ [TokenKind.Greater]))

/-- a template argument value: positional `v` or named `n = v` -/
inductive ArgVal where
  | pos (v : Val)
  | named (n v : Val)

def ArgVal.render : ArgVal → _root_.List TokenKind
  | .pos v => v.render
  | .named n v => n.render ++ TokenKind.Equal :: v.render

def ArgVal.isNamed : ArgVal → Bool
  | .pos _ => false
  | .named _ _ => true

def argsTail : _root_.List ArgVal → _root_.List TokenKind
  | [] => []
  | a :: as => TokenKind.Comma :: (a.render ++ argsTail as)

def argsRender : _root_.List ArgVal → _root_.List TokenKind
  | [] => []
  | a :: as => a.render ++ argsTail as

/-- positional arguments first, then named ones (the parser reports a positional one after a named one) -/
structure ArgList where
  pos : _root_.List Val
  named : _root_.List (Val × Val)

def ArgList.toList (l : ArgList) : _root_.List ArgVal :=
  l.pos.map ArgVal.pos ++ l.named.map (fun p => ArgVal.named p.1 p.2)

def ArgList.render (l : ArgList) : _root_.List TokenKind := argsRender l.toList

/-- `[< args >]` -/
def optArgs : Option ArgList → _root_.List TokenKind
  | none => []
  | some l => TokenKind.Less :: (l.render ++ [TokenKind.Greater])

/-- `Id [< args >]` -/
structure ClassRef where
  args : Option ArgList

def ClassRef.render (r : ClassRef) : _root_.List TokenKind := TokenKind.Id :: optArgs r.args

/-- `, ref , ref …` -/
def parentsTail : _root_.List ClassRef → _root_.List TokenKind
  | [] => []
  | r :: rs => TokenKind.Comma :: (r.render ++ parentsTail rs)

/-- `[: ref, ref …]` -/
def parentsRender : _root_.List ClassRef → _root_.List TokenKind
  | [] => []
  | r :: rs => TokenKind.Colon :: (r.render ++ parentsTail rs)

inductive BodyItem where
  | fieldDef (field : Bool) (ty : FTy) (init : Option Val)   -- `[field] T Id [= v];`
  | letField (r : Option RangeList) (v : Val)                -- `let Id[{ranges}] = v;`
  | defvar (v : Val)                                         -- `defvar Id = v;`
  | assert_ (c m : Val)                                      -- `assert c, m;`
  | dump (v : Val)                                           -- `dump v;`

def BodyItem.render : BodyItem → _root_.List TokenKind
  | .fieldDef f t i =>
    (if f then [TokenKind.Field] else []) ++ (t.render ++ TokenKind.Id :: (optInit i ++ [TokenKind.Semi]))
  | .letField r v =>
    TokenKind.Let :: TokenKind.Id :: (optRange .LBrace .RBrace r ++ TokenKind.Equal :: (v.render ++ [TokenKind.Semi]))
  | .defvar v => TokenKind.Defvar :: TokenKind.Id :: TokenKind.Equal :: (v.render ++ [TokenKind.Semi])
  | .assert_ c m => TokenKind.Assert :: (c.render ++ TokenKind.Comma :: (m.render ++ [TokenKind.Semi]))
  | .dump v => TokenKind.Dump :: (v.render ++ [TokenKind.Semi])

def itemsRender : _root_.List BodyItem → _root_.List TokenKind
  | [] => []
  | i :: is => i.render ++ itemsRender is

inductive Body where
  | semi
  | braces (items : _root_.List BodyItem)

def Body.render : Body → _root_.List TokenKind
  | .semi => [TokenKind.Semi]
  | .braces is => TokenKind.LBrace :: (itemsRender is ++ [TokenKind.RBrace])

/-- `[: parents] body` -/
def recordBodyRender (parents : _root_.List ClassRef) (b : Body) : _root_.List TokenKind := parentsRender parents ++ b.render

/-! ### statements -/

/-- `Id [<ranges>] = v` in a top-level `let` -/
structure LetItem where
  range : Option RangeList
  v : Val

def LetItem.render (i : LetItem) : _root_.List TokenKind :=
  TokenKind.Id :: (optRange .Less .Greater i.range ++ TokenKind.Equal :: i.v.render)

def letTail : _root_.List LetItem → _root_.List TokenKind
  | [] => []
  | i :: is => TokenKind.Comma :: (i.render ++ letTail is)

structure LetList where
  hd : LetItem
  tl : _root_.List LetItem

def LetList.render (l : LetList) : _root_.List TokenKind := l.hd.render ++ letTail l.tl

/-- what a `foreach` variable ranges over -/
inductive ForeachInit where
  | braces (r : RangeList)     -- `{ ranges }`
  | piece (p : RangePiece)     -- `0...3`
  | value (v : Val)            -- a list value

def ForeachInit.render : ForeachInit → _root_.List TokenKind
  | .braces r => TokenKind.LBrace :: (r.render ++ [TokenKind.RBrace])
  | .piece p => p.render
  | .value v => v.render

/-- the parser chooses by the first token: a range piece must start with an `IntVal`, a value must not -/
def ForeachInit.wf : ForeachInit → Bool
  | .braces _ => true
  | .piece p => !p.firstBin
  | .value v => !(v.firstTok == TokenKind.IntVal) && !(v.firstTok == TokenKind.LBrace)

mutual
inductive Stmt where
  | include                                                         -- `include "file"`
  | cls (targs : _root_.List TArg) (parents : _root_.List ClassRef) (body : Body)     -- `class Id [<…>] [: …] body`
  | def_ (name : Option NameVal) (parents : _root_.List ClassRef) (body : Body)           -- `def [name] [: …] body`
  | defvar (v : Val)                                                 -- `defvar Id = v;`
  | dump (v : Val)                                                   -- `dump v;`
  | assert_ (c m : Val)                                              -- `assert c, m;`
  | defset (ty : DTy) (body : Stmts)                                 -- `defset T Id = { … }`
  | ifThen (c : Val) (thn : Block)                                   -- `if c then …`
  | ifElse (c : Val) (thn els : Block)                               -- `if c then … else …`
  | let_ (items : LetList) (body : Block)                            -- `let i, … in …`
  | foreach (init : ForeachInit) (body : Block)                      -- `foreach Id = init in …`
  | defm (name : Option NameVal) (parents : _root_.List ClassRef)                         -- `defm [name] [: …];`
  | multiclass (targs : _root_.List TArg) (parents : _root_.List ClassRef) (body : Stmts)  -- `multiclass Id [<…>] [: …] { … }`
inductive Block where
  | single (s : Stmt)
  | braces (ss : Stmts)
inductive Stmts where
  | nil
  | cons (s : Stmt) (ss : Stmts)
end

def optName : Option NameVal → _root_.List TokenKind
  | none => []
  | some v => v.render

mutual
def Stmt.render : Stmt → _root_.List TokenKind
  | .include => [TokenKind.Include, TokenKind.StrVal]
  | .cls ta p b => TokenKind.Class :: TokenKind.Id :: (targsRender ta ++ recordBodyRender p b)
  | .def_ n p b => TokenKind.Def :: (optName n ++ recordBodyRender p b)
  | .defvar v => TokenKind.Defvar :: TokenKind.Id :: TokenKind.Equal :: (v.render ++ [TokenKind.Semi])
  | .dump v => TokenKind.Dump :: (v.render ++ [TokenKind.Semi])
  | .assert_ c m => TokenKind.Assert :: (c.render ++ TokenKind.Comma :: (m.render ++ [TokenKind.Semi]))
  | .defset t b =>
    TokenKind.Defset :: (t.render ++ TokenKind.Id :: TokenKind.Equal :: TokenKind.LBrace :: (b.render ++ [TokenKind.RBrace]))
  | .ifThen c t => TokenKind.If :: (c.render ++ TokenKind.Then :: t.render)
  | .ifElse c t e => TokenKind.If :: (c.render ++ TokenKind.Then :: (t.render ++ TokenKind.ElseKw :: e.render))
  | .let_ is b => TokenKind.Let :: (is.render ++ TokenKind.In :: b.render)
  | .foreach i b => TokenKind.Foreach :: TokenKind.Id :: TokenKind.Equal :: (i.render ++ TokenKind.In :: b.render)
  | .defm n p => TokenKind.Defm :: (optName n ++ (parentsRender p ++ [TokenKind.Semi]))
  | .multiclass ta p b =>
    TokenKind.MultiClass :: TokenKind.Id :: (targsRender ta ++ (parentsRender p ++
      TokenKind.LBrace :: (b.render ++ [TokenKind.RBrace])))
def Block.render : Block → _root_.List TokenKind
  | .single s => s.render
  | .braces ss => TokenKind.LBrace :: (ss.render ++ [TokenKind.RBrace])
def Stmts.render : Stmts → _root_.List TokenKind
  | .nil => []
  | .cons s ss => s.render ++ ss.render
end

/-! The dangling `else`: a statement that ends in an `else`-less `if` would take a following
`else` for itself; such a statement cannot be the unbraced `then` branch of an `if … else`. -/

mutual
/-- the statement ends with an `if` that has no `else` -/
def Stmt.openIf : Stmt → Bool
  | .ifThen _ _ => true
  | .ifElse _ _ e => e.openIf
  | .let_ _ b => b.openIf
  | .foreach _ b => b.openIf
  | _ => false
def Block.openIf : Block → Bool
  | .single s => s.openIf
  | .braces _ => false
end

/-- the statements allowed directly in a `multiclass` body -/
def Stmt.isMC : Stmt → Bool
  | .assert_ _ _ => true
  | .def_ _ _ _ => true
  | .defm _ _ => true
  | .dump _ => true
  | .foreach _ _ => true
  | .let_ _ _ => true
  | .ifThen _ _ => true
  | .ifElse _ _ _ => true
  | _ => false

def Stmts.allMC : Stmts → Bool
  | .nil => true
  | .cons s ss => s.isMC && ss.allMC

def Stmts.isNil : Stmts → Bool
  | .nil => true
  | .cons _ _ => false

mutual
/-- no unbraced `then` branch of an `if … else` ends in an `else`-less `if`; `foreach` initialisers
are told apart by their first token; a `multiclass` body is a non-empty list of multiclass statements -/
def Stmt.wf : Stmt → Bool
  | .defset _ b => b.wf
  | .ifThen _ t => t.wf
  | .ifElse _ t e => t.wf && !t.openIf && e.wf
  | .let_ _ b => b.wf
  | .foreach i b => i.wf && b.wf
  | .multiclass _ _ b => !b.isNil && b.allMC && b.wf
  | _ => true
def Block.wf : Block → Bool
  | .single s => s.wf
  | .braces ss => ss.wf
def Stmts.wf : Stmts → Bool
  | .nil => true
  | .cons s ss => s.wf && ss.wf
end

/-- a fragment program: a list of statements without the dangling-`else` reading -/
structure Program where
  stmts : Stmts
  wf : stmts.wf = true

def Program.render (p : Program) : _root_.List TokenKind := p.stmts.render

end Frag
end C04L
end Tg
