/-
C04, accessor clause — assembled: for every fragment program, every node of the parse tree (below
the root) is reached by the accessor walk `AstWalk.walkTree`, and what one accessor returns is in
source order.
-/
import TgModel.Lemmas.C04Forward

namespace Tg
namespace C04L
open Grammar AstWalk

/-- every node of the tree of a fragment program is reached through the typed accessors:
`reached t` is the accessor walk with structure (`walkTree t = (reached t).map fmt`), `allNodes t`
lists all nodes below the root as (start, kind, end) -/
theorem accessors_reach_all (input : List Char) (p : Frag.Program)
    (h : (PState.init input).kinds = p.render) (hend : Src.endMessage input = none) :
    ∃ r, parse input = .ok r ∧ r.errors = [] ∧
      ∀ x ∈ allNodes r.tree, ∃ label, (label, x) ∈ reached r.tree := by
  obtain ⟨r, h1, h2, h3⟩ := forward_tree input p h hend
  exact ⟨r, h1, h2, reach_tree r.tree h3⟩

/-- the same in terms of the printed walk -/
theorem accessors_reach_all_printed (input : List Char) (p : Frag.Program)
    (h : (PState.init input).kinds = p.render) (hend : Src.endMessage input = none) :
    ∃ r, parse input = .ok r ∧ r.errors = [] ∧
      ∀ x ∈ allNodes r.tree, ∃ label, fmt (label, x) ∈ walkTree r.tree := by
  obtain ⟨r, h1, h2, h3⟩ := accessors_reach_all input p h hend
  refine ⟨r, h1, h2, fun x hx => ?_⟩
  obtain ⟨label, hl⟩ := h3 x hx
  exact ⟨label, by rw [walkTree_eq]; exact List.mem_map_of_mem hl⟩

/-- the accessor clause whatever the end of the text is like (the tree does not depend on what
`ParserBase::finish` appends to the error list) -/
theorem accessors_reach_all_end (input : List Char) (p : Frag.Program)
    (h : (PState.init input).kinds = p.render) :
    ∃ r, parse input = .ok r ∧ r.errors = endErrors input ∧
      ∀ x ∈ allNodes r.tree, ∃ label, (label, x) ∈ reached r.tree := by
  obtain ⟨r, h1, h2, h3⟩ := forward_tree_end input p h
  exact ⟨r, h1, h2, reach_tree r.tree h3⟩

/-- **source order** (for every tree, every node, every accessor): the nodes one accessor returns
come with non-overlapping, increasing byte ranges -/
theorem accessor_source_order (off : Nat) (cs : List Tree) (f : AstTable.Field) :
    (select f.sel ((childNodes off cs).filter fun c => f.casts.contains c.2.1)).Pairwise
      (fun a b => a.1 + listLen a.2.2 ≤ b.1) := by
  rw [select_eq]; exact accessor_sorted off cs f

/-- strictly increasing starts, wherever the returned nodes are non-empty -/
theorem accessor_source_order_strict (off : Nat) (cs : List Tree) (f : AstTable.Field)
    (hpos : ∀ a ∈ select f.sel ((childNodes off cs).filter fun c => f.casts.contains c.2.1), 0 < listLen a.2.2) :
    (select f.sel ((childNodes off cs).filter fun c => f.casts.contains c.2.1)).Pairwise
      (fun a b => a.1 < b.1) := by
  refine (accessor_source_order off cs f).imp_of_mem ?_
  intro a b ha _ hab
  have := hpos a ha
  omega

end C04L
end Tg
