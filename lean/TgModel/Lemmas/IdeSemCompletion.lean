/-
Helper lemmas for the class-name completions (`completion.rs::complete_classes`):
`iterClass` is the reversed value list of the `name_to_class` map, the placeholder list is empty
iff the class has no template parameter, and the indexer keeps `name_to_class` consistent with the
record arena (`ClassMapOK`).
-/
import TgModel.Lemmas.IdeSemOrder
import TgModel.Ide.Handlers

namespace Tg
namespace Ide
open Handlers

/-- `iter_class`: the values of `name_to_class` (one per class *name*), in the reverse of the map's
`toList` order (the real `HashMap::values` order is arbitrary as well) -/
theorem iterClass_eq (sm : SymMap) : sm.iterClass = (sm.nameToClass.toList.map (·.2)).reverse := by
  unfold SymMap.iterClass
  rw [Std.HashMap.fold_eq_foldl_toList]
  generalize sm.nameToClass.toList = l
  suffices h : ∀ acc : List Nat, l.foldl (fun a b => b.2 :: a) acc = (l.map (·.2)).reverse ++ acc by
    simp [h []]
  induction l with
  | nil => intro acc; rfl
  | cons p t ih => intro acc; simp [ih]

theorem mem_iterClass (sm : SymMap) (id : Nat) :
    id ∈ sm.iterClass ↔ ∃ name : String, sm.nameToClass[name]? = some id := by
  rw [iterClass_eq]
  simp only [List.mem_reverse, List.mem_map]
  constructor
  · rintro ⟨⟨name, id'⟩, hm, rfl⟩
    exact ⟨name, Std.HashMap.mem_toList_iff_getElem?_eq_some.1 hm⟩
  · rintro ⟨name, h⟩
    exact ⟨(name, id), Std.HashMap.mem_toList_iff_getElem?_eq_some.2 h, rfl⟩

theorem length_iterClass (sm : SymMap) : sm.iterClass.length = sm.nameToClass.size := by
  rw [iterClass_eq, List.length_reverse, List.length_map, Std.HashMap.length_toList]

/-- the placeholders `${1}, …, ${n}` -/
def placeholders (n : Nat) : List String := (List.range n).map fun i => "${" ++ toString (i + 1) ++ "}"

theorem intercalate_isEmpty_cons (s t : String) (l : List String) (ht : t ≠ "") :
    (s.intercalate (t :: l)).isEmpty = false := by
  have hsz : 0 < t.utf8ByteSize := by
    rcases Nat.eq_zero_or_pos t.utf8ByteSize with h | h
    · exact absurd (String.utf8ByteSize_eq_zero_iff.1 h) ht
    · exact h
  cases l with
  | nil =>
    simp only [String.intercalate_singleton, String.isEmpty]
    rw [beq_eq_false_iff_ne]; omega
  | cons u l =>
    simp only [String.intercalate_cons_cons, String.isEmpty, String.utf8ByteSize_append]
    rw [beq_eq_false_iff_ne]; omega

/-- the placeholder list is empty iff there is no template parameter -/
theorem placeholders_isEmpty (n : Nat) : (", ".intercalate (placeholders n)).isEmpty = (n == 0) := by
  cases n with
  | zero => rfl
  | succ n =>
    unfold placeholders
    rw [List.range_succ_eq_map, List.map_cons]
    rw [intercalate_isEmpty_cons]
    · rfl
    · intro h
      have := congrArg String.utf8ByteSize h
      simp [String.utf8ByteSize_append] at this

/-! ### `name_to_class` and the arena -/

/-- every entry of `name_to_class` points to an arena record of that name -/
def ClassMapOK (sm : SymMap) : Prop :=
  ∀ name id, sm.nameToClass[name]? = some id → id < sm.recordList.size ∧ (sm.record id).name = name


theorem pushFileSymbol_nameToClass (sm : SymMap) (file : Nat) (s : SymbolId) :
    (sm.pushFileSymbol file s).nameToClass = sm.nameToClass := by
  unfold SymMap.pushFileSymbol
  split <;> rfl

theorem pushFileSymbol_record (sm : SymMap) (file : Nat) (s : SymbolId) :
    (sm.pushFileSymbol file s).recordList = sm.recordList := by
  unfold SymMap.pushFileSymbol
  split <;> rfl

/-- which steps touch `name_to_class`: only `add_record` of a class -/
theorem SmStep.nameToClass {sm sm' : SymMap} (h : SmStep sm sm') :
    sm'.nameToClass = sm.nameToClass ∨
    ∃ r : Record, sm'.nameToClass = sm.nameToClass.insert r.name sm.recordList.size ∧
      sm'.recordList = sm.recordList.push r := by
  cases h with
  | addRecord r g =>
    unfold SymMap.addRecord
    simp only
    cases hk : r.kind with
    | cls =>
      right
      refine ⟨r, ?_, ?_⟩ <;> (split <;> simp [pushFileSymbol_nameToClass, SymMap.logDefine])
    | def_ =>
      left
      split <;> simp [pushFileSymbol_nameToClass, SymMap.logDefine]
  | addAnonymousDef r => left; simp [SymMap.addAnonymousDef, SymMap.logDefine]
  | addMulticlassDef r => left; simp [SymMap.addMulticlassDef, SymMap.logDefine, pushFileSymbol_nameToClass]
  | registerDefsetName id => left; simp [SymMap.registerDefsetName]
  | addTemplateArgument a => left; simp [SymMap.addTemplateArgument, SymMap.logDefine]
  | addRecordField f => left; simp [SymMap.addRecordField, SymMap.logDefine]
  | addVariable v => left; simp [SymMap.addVariable, SymMap.logDefine, pushFileSymbol_nameToClass]
  | addDefset d => left; simp [SymMap.addDefset, SymMap.logDefine, pushFileSymbol_nameToClass]
  | addMulticlass m => left; simp [SymMap.addMulticlass, SymMap.logDefine, pushFileSymbol_nameToClass]
  | addDefm d g =>
    left
    unfold SymMap.addDefm
    simp only
    split <;> simp [pushFileSymbol_nameToClass, SymMap.logDefine]
  | addAnonymousDefm d => left; simp [SymMap.addAnonymousDefm, SymMap.logDefine]
  | addReference s loc => left; rfl
  | recordMut id f hf => left; rfl
  | multiclassMut id f hf => left; rfl
  | defmMut id f hf => left; rfl
  | defsetMut id f hf => left; rfl

theorem SmStep.classMapOK {sm sm' : SymMap} (h : SmStep sm sm') (hok : ClassMapOK sm) : ClassMapOK sm' := by
  have hfr := h.frame
  intro name id hid
  rcases h.nameToClass with hn | ⟨r, hn, hr⟩
  · rw [hn] at hid
    obtain ⟨h1, h2⟩ := hok name id hid
    obtain ⟨f1, _, f3⟩ := hfr (.record id) h1
    exact ⟨f1, by simpa [symbolName, h2] using f3⟩
  · rw [hn, Std.HashMap.getElem?_insert] at hid
    split at hid
    · rename_i hk
      have hk' : r.name = name := by simpa using hk
      cases hid
      refine ⟨by rw [hr]; simp, ?_⟩
      simp [SymMap.record, hr, hk']
    · obtain ⟨h1, h2⟩ := hok name id hid
      obtain ⟨f1, _, f3⟩ := hfr (.record id) h1
      exact ⟨f1, by simpa [symbolName, h2] using f3⟩

/-- `ClassMapOK` before → after -/
def ClassMapRel (c c' : IndexCtx) : Prop := ClassMapOK c.symbolMap → ClassMapOK c'.symbolMap

instance : StdRel ClassMapRel where
  refl := fun _ h => h
  trans := fun h1 h2 h => h2 (h1 h)
  of_eq := fun c c' _ h1 _ h => by rw [h1]; exact h
  sm := fun _ _ hs h => hs.classMapOK h

instance : NoScopeRel ClassMapRel where
  scopes := fun _ _ _ h => h

instance : VarRel ClassMapRel where
  addVariable := fun v => by
    unfold scopesAddVariable
    keeps
    refine Keeps.modifyGet _ fun c => ?_
    split <;> exact fun h => h

/-- in the symbol map the indexer produces, every class name maps to an arena record of that name -/
theorem index_classMapOK (ws : Workspace) (res : Index.IndexResult) (h : Index.index ws = .ok res) :
    ClassMapOK res.symbolMap := by
  obtain ⟨c', hR, hsm, _⟩ := index_keeps (R := ClassMapRel) ws res h
  rw [← hsm]
  exact hR (fun name id hid => by simp [IndexCtx.new] at hid)

end Ide
end Tg
