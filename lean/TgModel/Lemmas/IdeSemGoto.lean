/-
Towards the C05 capstone: from "the indexer ran a reference-producing site" to the answers of
go-to-definition / find-references on the final analysis.

* SymbolMap level: a logged `reference s loc` puts `loc` into the references of symbol `s` and, under
  the three log properties of C06 (`RefsValid`, `RefStable`, `DisjointLocs`), makes every offset
  inside `loc` resolve to `s` (`reference_lookup`); the references of a symbol are exactly the
  locations logged for it, in log order (`run_refs_eq`).
* Indexer level: `SmLater a b` - the symbol map `b` is a later stage of `a` (valid symbols keep their
  define location, name and allocation index; the hook log is only appended to).  `LaterRel` lifts it
  to contexts; every indexer function keeps it (`mkRec_later`, `index_later`), so it holds between any
  intermediate state of an index run and any later one.
-/
import TgModel.Lemmas.IdeSemKeepsB
import TgModel.Lemmas.IdeSemOrder
import TgModel.Lemmas.IdeNames

namespace Tg
namespace SymbolMap

/-- the locations logged as references of symbol `g`, in log order -/
def refsOf (ops : List Op) (g : Nat) : List Loc :=
  ops.filterMap fun
    | .reference s l => if s = g then some l else none
    | _ => none

/-- the references recorded so far for index `g` -/
def baseRefs (st : State) (g : Nat) : List Loc :=
  match st.syms[g]? with
  | some x => x.refs
  | none => []

theorem foldl_refs_eq (ops : List Op) (st : State) (hv : RefsValid ops st.syms.length) (g : Nat) (S : Sym)
    (hS : (ops.foldl step st).syms[g]? = some S) : S.refs = baseRefs st g ++ refsOf ops g := by
  induction ops generalizing st with
  | nil =>
    simp only [List.foldl_nil] at hS
    simp [baseRefs, hS, refsOf]
  | cons op t ih =>
    simp only [List.foldl_cons] at hS
    cases op with
    | define name loc =>
      simp only [RefsValid] at hv
      have hlen : (step st (.define name loc)).syms.length = st.syms.length + 1 := by
        simp [step, addPos_syms]
      have := ih (step st (.define name loc)) (by rw [hlen]; exact hv) hS
      rw [this]
      have hb : baseRefs (step st (.define name loc)) g = baseRefs st g := by
        unfold baseRefs
        simp only [step, addPos_syms]
        by_cases hg : g < st.syms.length
        · rw [List.getElem?_append_left hg]
        · rw [List.getElem?_eq_none (Nat.le_of_not_lt hg)]
          by_cases hg2 : g = st.syms.length
          · subst hg2; simp
          · rw [List.getElem?_eq_none (by simp; omega)]
      rw [hb]; simp [refsOf]
    | defineAnon name loc =>
      simp only [RefsValid] at hv
      have hlen : (step st (.defineAnon name loc)).syms.length = st.syms.length + 1 := by
        simp [step]
      have := ih (step st (.defineAnon name loc)) (by rw [hlen]; exact hv) hS
      rw [this]
      have hb : baseRefs (step st (.defineAnon name loc)) g = baseRefs st g := by
        unfold baseRefs
        simp only [step]
        by_cases hg : g < st.syms.length
        · rw [List.getElem?_append_left hg]
        · rw [List.getElem?_eq_none (Nat.le_of_not_lt hg)]
          by_cases hg2 : g = st.syms.length
          · subst hg2; simp
          · rw [List.getElem?_eq_none (by simp; omega)]
      rw [hb]; simp [refsOf]
    | reference s loc =>
      simp only [RefsValid] at hv
      obtain ⟨hs, hv⟩ := hv
      have hlen : (step st (.reference s loc)).syms.length = st.syms.length := step_syms_length st _
      have := ih (step st (.reference s loc)) (by rw [hlen]; exact hv) hS
      rw [this]
      have hb : baseRefs (step st (.reference s loc)) g = baseRefs st g ++ (if s = g then [loc] else []) := by
        unfold baseRefs
        simp only [step, if_pos hs, addPos_syms, getElem?_addRef]
        cases hg : st.syms[g]? with
        | none =>
          simp only [Option.map_none]
          have : ¬ s = g := by
            intro h; subst h
            rw [List.getElem?_eq_getElem hs] at hg; cases hg
          simp [this]
        | some x =>
          simp only [Option.map_some]
          by_cases hgs : g = s
          · subst hgs; simp
          · have : ¬ s = g := fun h => hgs h.symm
            simp [hgs, this]
      rw [hb]
      unfold refsOf
      simp only [List.filterMap_cons]
      by_cases hsg : s = g
      · simp [hsg]
      · simp [hsg]

/-- **the references of a symbol are exactly the locations the log references it at, in log order** -/
theorem run_refs_eq (ops : List Op) (hv : RefsValid ops 0) (g : Nat) (S : Sym)
    (hS : (run ops).syms[g]? = some S) : S.refs = refsOf ops g := by
  have := foldl_refs_eq ops {} hv g S hS
  simpa [baseRefs] using this

/-- a logged reference, under the three log properties of C06: every offset inside its (non-empty)
location looks up that location and symbol -/
theorem reference_lookup (ops : List Op) (hv : RefsValid ops 0) (hs : RefStable ops) (hd : DisjointLocs ops)
    (pre post : List Op) (s : Nat) (loc : Loc) (hops : ops = pre ++ Op.reference s loc :: post)
    (p : Nat) (h1 : loc.start ≤ p) (h2 : p < loc.stop) :
    lookup (run ops).pos loc.file p = some (loc, s) ∧
    ∃ S, (run ops).syms[s]? = some S ∧ loc ∈ S.refs := by
  have hne : loc.isEmpty = false := by
    simp only [Loc.isEmpty, decide_eq_false_iff_not, Nat.not_le]; omega
  have hslt : s < (run pre).syms.length := by
    subst hops
    rw [Tg.Ide.RefsValid_append] at hv
    have := hv.2
    simp only [RefsValid, Nat.zero_add] at this
    rw [run_syms_length]
    have hc : ∀ l : List Op, (allocs l).length = RefStable.registrations.count l := by
      intro l
      induction l with
      | nil => rfl
      | cons x t ih => cases x <;> simp [allocs, RefStable.registrations.count, ih]
    rw [← hc]; exact this.1
  obtain ⟨x, _, hx⟩ := step_reference_sym (run pre) s loc hslt
  obtain ⟨S, hS, hext⟩ := foldl_stable post _ s _ hx
  have hS' : (run ops).syms[s]? = some S := by rw [hops, run_split]; exact hS
  have hmem : loc ∈ S.refs := hext.2.2 loc (by simp)
  have hback := refs_point_back ops hv hs s S hS' loc hmem hne
  have ho : overlaps loc loc.file p = true := by
    simp [overlaps, h1, h2]
  exact ⟨lookup_of_mem ops hd loc.file p (loc, s) hback ho, S, hS', hmem⟩

end SymbolMap

namespace Ide
open Tg.SymbolMap (Op Loc)

/-! ### later stages of the symbol map -/

/-- `b` is a later stage of `a` -/
structure SmLater (a b : SymMap) : Prop where
  /-- valid symbols stay valid and keep their define location and name -/
  frame : Frame a b
  /-- allocation indices are never reassigned -/
  gids : ∀ (g : Nat) (S : SymbolId), a.gidToSym[g]? = some S → b.gidToSym[g]? = some S
  /-- the hook log is only appended to -/
  ops : ∃ more, b.ops.toList = a.ops.toList ++ more

theorem SmLater.refl (a : SymMap) : SmLater a a := ⟨Frame.refl a, fun _ _ h => h, [], by simp⟩

theorem SmLater.trans {a b c : SymMap} (h1 : SmLater a b) (h2 : SmLater b c) : SmLater a c := by
  obtain ⟨m1, e1⟩ := h1.ops
  obtain ⟨m2, e2⟩ := h2.ops
  exact ⟨h1.frame.trans h2.frame, fun g S h => h2.gids g S (h1.gids g S h), m1 ++ m2, by rw [e2, e1, List.append_assoc]⟩

theorem getElem?_push_some {α : Type} (as : Array α) (a x : α) (i : Nat) (h : as[i]? = some x) :
    (as.push a)[i]? = some x := by
  have hi : i < as.size := by
    rcases Nat.lt_or_ge i as.size with h' | h'
    · exact h'
    · rw [Array.getElem?_eq_none h'] at h; cases h
  rw [Array.getElem?_push_lt hi]
  rw [Array.getElem?_eq_getElem hi] at h
  exact h

theorem push_toList_ext {α : Type} (as : Array α) (o : α) : ∃ more, (as.push o).toList = as.toList ++ more :=
  ⟨[o], by simp⟩

theorem logDefine_later_fields (sm : SymMap) (s : SymbolId) (name : String) (loc : FileRange) (anon : Bool) :
    (∀ (g : Nat) (S : SymbolId), sm.gidToSym[g]? = some S → (sm.logDefine s name loc anon).gidToSym[g]? = some S) ∧
    ∃ more, (sm.logDefine s name loc anon).ops.toList = sm.ops.toList ++ more :=
  ⟨fun g S h => getElem?_push_some _ _ _ _ h, push_toList_ext _ _⟩

/-- the two log-related parts of `SmLater` only look at `gidToSym` and `ops` -/
theorem later_of_log {a b : SymMap} (hg : ∀ (g : Nat) (S : SymbolId), a.gidToSym[g]? = some S → b.gidToSym[g]? = some S)
    (ho : ∃ more, b.ops.toList = a.ops.toList ++ more) (hf : Frame a b) : SmLater a b := ⟨hf, hg, ho⟩

theorem SmStep.later {sm sm' : SymMap} (h : SmStep sm sm') : SmLater sm sm' := by
  refine ⟨h.frame, ?_, ?_⟩
  · intro g S hg
    cases h with
    | addRecord r gl =>
      unfold SymMap.addRecord
      simp only
      split <;> split <;>
        simp only [(pushFileSymbol_frame _ _ _).2.1, SymMap.logDefine] <;> exact getElem?_push_some _ _ _ _ hg
    | addAnonymousDef r => exact getElem?_push_some _ _ _ _ hg
    | addMulticlassDef r =>
      unfold SymMap.addMulticlassDef
      simp only [(pushFileSymbol_frame _ _ _).2.1, SymMap.logDefine]
      exact getElem?_push_some _ _ _ _ hg
    | registerDefsetName id => exact hg
    | addTemplateArgument a => exact getElem?_push_some _ _ _ _ hg
    | addRecordField f => exact getElem?_push_some _ _ _ _ hg
    | addVariable v =>
      unfold SymMap.addVariable
      simp only [(pushFileSymbol_frame _ _ _).2.1, SymMap.logDefine]
      exact getElem?_push_some _ _ _ _ hg
    | addDefset d =>
      unfold SymMap.addDefset
      simp only [(pushFileSymbol_frame _ _ _).2.1, SymMap.logDefine]
      exact getElem?_push_some _ _ _ _ hg
    | addMulticlass m =>
      unfold SymMap.addMulticlass
      simp only [(pushFileSymbol_frame _ _ _).2.1, SymMap.logDefine]
      exact getElem?_push_some _ _ _ _ hg
    | addDefm d gl =>
      unfold SymMap.addDefm
      simp only
      split <;> simp only [(pushFileSymbol_frame _ _ _).2.1, SymMap.logDefine] <;>
        exact getElem?_push_some _ _ _ _ hg
    | addAnonymousDefm d => exact getElem?_push_some _ _ _ _ hg
    | addReference s loc => exact hg
    | recordMut id f hf => exact hg
    | multiclassMut id f hf => exact hg
    | defmMut id f hf => exact hg
    | defsetMut id f hf => exact hg
  · cases h with
    | addRecord r gl =>
      unfold SymMap.addRecord
      simp only
      split <;> split <;>
        simp only [(pushFileSymbol_frame _ _ _).1, SymMap.logDefine] <;> exact push_toList_ext _ _
    | addAnonymousDef r => exact push_toList_ext _ _
    | addMulticlassDef r =>
      unfold SymMap.addMulticlassDef
      simp only [(pushFileSymbol_frame _ _ _).1, SymMap.logDefine]
      exact push_toList_ext _ _
    | registerDefsetName id => exact ⟨[], by simp [SymMap.registerDefsetName]⟩
    | addTemplateArgument a => exact push_toList_ext _ _
    | addRecordField f => exact push_toList_ext _ _
    | addVariable v =>
      unfold SymMap.addVariable
      simp only [(pushFileSymbol_frame _ _ _).1, SymMap.logDefine]
      exact push_toList_ext _ _
    | addDefset d =>
      unfold SymMap.addDefset
      simp only [(pushFileSymbol_frame _ _ _).1, SymMap.logDefine]
      exact push_toList_ext _ _
    | addMulticlass m =>
      unfold SymMap.addMulticlass
      simp only [(pushFileSymbol_frame _ _ _).1, SymMap.logDefine]
      exact push_toList_ext _ _
    | addDefm d gl =>
      unfold SymMap.addDefm
      simp only
      split <;> simp only [(pushFileSymbol_frame _ _ _).1, SymMap.logDefine] <;> exact push_toList_ext _ _
    | addAnonymousDefm d => exact push_toList_ext _ _
    | addReference s loc => exact push_toList_ext _ _
    | recordMut id f hf => exact ⟨[], by simp⟩
    | multiclassMut id f hf => exact ⟨[], by simp⟩
    | defmMut id f hf => exact ⟨[], by simp⟩
    | defsetMut id f hf => exact ⟨[], by simp⟩

/-- the symbol map of `c'` is a later stage of that of `c` -/
def LaterRel (c c' : IndexCtx) : Prop := SmLater c.symbolMap c'.symbolMap

instance : StdRel LaterRel where
  refl := fun c => SmLater.refl _
  trans := fun h1 h2 => h1.trans h2
  of_eq := fun c c' _ h1 _ => by unfold LaterRel; rw [h1]; exact SmLater.refl _
  sm := fun _ _ hs => hs.later

instance : NoScopeRel LaterRel where
  scopes := fun _ _ _ h => h

instance : VarRel LaterRel where
  addVariable := fun v => by
    unfold scopesAddVariable
    keeps
    refine Keeps.modifyGet _ fun c => ?_
    split <;> exact SmLater.refl _

/-- every indexer function only moves the symbol map to a later stage -/
theorem mkRec_later (fuel : Nat) :
    (∀ n, Keeps LaterRel ((Index.mkRec fuel).value n)) ∧ (∀ n, Keeps LaterRel ((Index.mkRec fuel).typ n)) ∧
    (∀ n, Keeps LaterRel ((Index.mkRec fuel).statementList n)) ∧
    (∀ n, Keeps LaterRel ((Index.mkRec fuel).sourceFile n)) := mkRec_keeps fuel

end Ide
end Tg
