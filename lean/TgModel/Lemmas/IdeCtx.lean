/-
Specifications of the `IndexCtx` primitives (`Context.lean`) against the invariant:
each one, run in a good state that extends the anchor `c0`, does not panic and ends in a good state
that extends `c0`.
-/
import TgModel.Lemmas.IdePrim

namespace Tg
namespace Ide

/-! ### lookups return valid ids -/

theorem indexMapGet_mem {m : Array (String × Nat)} {k : String} {v : Nat} (h : indexMapGet m k = some v) :
    ∃ e ∈ m.toList, e.2 = v := by
  unfold indexMapGet at h
  simp only [Option.map_eq_some_iff] at h
  obtain ⟨e, he, rfl⟩ := h
  exact ⟨e, by simpa using Array.mem_of_find?_eq_some he, rfl⟩

theorem indexMapInsert_mem {m : Array (String × Nat)} {k : String} {v : Nat} {e : String × Nat}
    (h : e ∈ (indexMapInsert m k v).toList) : e ∈ m.toList ∨ e = (k, v) := by
  unfold indexMapInsert at h
  split at h
  · rename_i i hi
    have hi' := (Array.findIdx?_eq_some_iff_getElem.mp hi).1
    rw [Array.mem_toList_iff, Array.mem_iff_getElem] at h
    obtain ⟨j, hj, rfl⟩ := h
    simp only [Array.set!_eq_setIfInBounds, Array.size_setIfInBounds] at hj
    simp only [Array.set!_eq_setIfInBounds]
    rw [Array.getElem_setIfInBounds (by simpa using hj)]
    split
    · exact Or.inr rfl
    · exact Or.inl (by simp)
  · simp only [Array.toList_push, List.mem_append, List.mem_singleton] at h
    exact h

theorem SymMap.record_ok (sm : SymMap) (hi : sm.IdsOK) (id : Nat) : RecordOK sm.sizes (sm.record id) := by
  unfold SymMap.record
  by_cases h : id < sm.recordList.size
  · rw [getElem!_pos sm.recordList id h]
    exact hi.recs _ (by simp)
  · rw [getElem!_neg sm.recordList id h]
    exact RecordOK.dflt _

theorem SymMap.multiclass_ok (sm : SymMap) (hi : sm.IdsOK) (id : Nat) :
    MulticlassOK sm.sizes (sm.multiclass id) := by
  unfold SymMap.multiclass
  by_cases h : id < sm.multiclassList.size
  · rw [getElem!_pos sm.multiclassList id h]
    exact hi.mcs _ (by simp)
  · rw [getElem!_neg sm.multiclassList id h]
    exact MulticlassOK.dflt _

theorem SymMap.findFieldGo_lt (sm : SymMap) (hi : sm.IdsOK) (name : String) :
    ∀ (fuel id f : Nat), sm.findFieldGo name fuel id = some f → f < sm.recordFieldList.size
  | 0, _, _, h => by simp [SymMap.findFieldGo] at h
  | fuel + 1, id, f, h => by
    unfold SymMap.findFieldGo at h
    simp only at h
    split at h
    · rename_i f' hf'
      cases h
      obtain ⟨e, he, rfl⟩ := indexMapGet_mem hf'
      exact (sm.record_ok hi id).flds e he
    · obtain ⟨p, _, hp⟩ := Array.exists_of_findSome?_eq_some h
      exact SymMap.findFieldGo_lt sm hi name fuel p f hp

theorem SymMap.recordFindField_lt (sm : SymMap) (hi : sm.IdsOK) {id : Nat} {name : String} {f : Nat}
    (h : sm.recordFindField id name = some f) : f < sm.recordFieldList.size :=
  sm.findFieldGo_lt hi name _ _ _ h

theorem SymMap.typFindField_lt (sm : SymMap) (hi : sm.IdsOK) {t : Ty} {name : String} {f : Nat}
    (h : sm.typFindField t name = some f) : f < sm.recordFieldList.size := by
  unfold SymMap.typFindField at h
  split at h
  · exact sm.recordFindField_lt hi h
  · cases h

theorem Scopes.findLocal_ok (s : Scopes) (sm : SymMap) (hi : sm.IdsOK)
    (hs : ∀ x ∈ s.scopes, ScopeOK sm.sizes x) {name : String} {r : SymbolId}
    (h : s.findLocal sm name = some r) : SymOK sm.sizes r := by
  unfold Scopes.findLocal at h
  obtain ⟨scope, hmem, hsc⟩ := List.exists_of_findSome?_eq_some h
  have hso := hs scope hmem
  split at hsc
  · rename_i id hid
    cases hsc
    simp only [SymOK]
    unfold Scope.findVariable at hid
    split at hid
    · rename_i v hv
      cases hid
      exact hso.vars _ _ hv
    · split at hid
      · rename_i vn vid hk
        split at hid
        · cases hid
          have := hso.kind
          rw [hk] at this
          exact this
        · cases hid
      · cases hid
  · simp only at hsc
    split at hsc
    · rename_i r' hr'
      cases hsc
      split at hr'
      · rename_i recordId _
        split at hr'
        · rename_i fieldId hf
          cases hr'
          exact sm.recordFindField_lt hi hf
        · split at hr'
          · rename_i t ht
            cases hr'
            obtain ⟨e, he, rfl⟩ := indexMapGet_mem ht
            exact (sm.record_ok hi recordId).tas e he
          · cases hr'
      · cases hr'
    · split at hsc
      · rename_i mcId _
        split at hsc
        · rename_i t ht
          cases hsc
          obtain ⟨e, he, rfl⟩ := indexMapGet_mem ht
          exact (sm.multiclass_ok hi mcId).tas e he
        · cases hsc
      · cases hsc


/-! ### lookups return symbols of the name that was looked up -/

theorem indexMapGet_mem' {m : Array (String × Nat)} {k : String} {v : Nat} (h : indexMapGet m k = some v) :
    ∃ e ∈ m.toList, e.1 = k ∧ e.2 = v := by
  unfold indexMapGet at h
  simp only [Option.map_eq_some_iff] at h
  obtain ⟨e, he, rfl⟩ := h
  have hp := Array.find?_some he
  exact ⟨e, by simpa using Array.mem_of_find?_eq_some he, eq_of_beq hp, rfl⟩

theorem SymMap.record_nmFlds (sm : SymMap) {ws : Workspace} (hn : sm.NamesOK ws) (id : Nat) :
    ∀ e ∈ (sm.record id).nameToRecordField.toList, (sm.recordField e.2).name = e.1 := by
  unfold SymMap.record
  by_cases h : id < sm.recordList.size
  · rw [getElem!_pos sm.recordList id h]
    exact hn.recFlds _ (by simp)
  · rw [getElem!_neg sm.recordList id h]
    have h2 : (Inhabited.default : Record).nameToRecordField = #[] := rfl
    intro e he; rw [h2] at he; simp at he

theorem SymMap.record_nmTas (sm : SymMap) {ws : Workspace} (hn : sm.NamesOK ws) (id : Nat) :
    ∀ e ∈ (sm.record id).nameToTemplateArg.toList, (sm.templateArg e.2).name = e.1 := by
  unfold SymMap.record
  by_cases h : id < sm.recordList.size
  · rw [getElem!_pos sm.recordList id h]
    exact hn.recTas _ (by simp)
  · rw [getElem!_neg sm.recordList id h]
    have h2 : (Inhabited.default : Record).nameToTemplateArg = #[] := rfl
    intro e he; rw [h2] at he; simp at he

theorem SymMap.multiclass_nmTas (sm : SymMap) {ws : Workspace} (hn : sm.NamesOK ws) (id : Nat) :
    ∀ e ∈ (sm.multiclass id).nameToTemplateArg.toList, (sm.templateArg e.2).name = e.1 := by
  unfold SymMap.multiclass
  by_cases h : id < sm.multiclassList.size
  · rw [getElem!_pos sm.multiclassList id h]
    exact hn.mcTas _ (by simp)
  · rw [getElem!_neg sm.multiclassList id h]
    have h2 : (Inhabited.default : Multiclass).nameToTemplateArg = #[] := rfl
    intro e he; rw [h2] at he; simp at he

theorem SymMap.findFieldGo_nm (sm : SymMap) {ws : Workspace} (hn : sm.NamesOK ws) (name : String) :
    ∀ (fuel id f : Nat), sm.findFieldGo name fuel id = some f → (sm.recordField f).name = name
  | 0, _, _, h => by simp [SymMap.findFieldGo] at h
  | fuel + 1, id, f, h => by
    unfold SymMap.findFieldGo at h
    simp only at h
    split at h
    · rename_i f' hf'
      cases h
      obtain ⟨e, he, rfl, rfl⟩ := indexMapGet_mem' hf'
      exact sm.record_nmFlds hn id e he
    · obtain ⟨p, _, hp⟩ := Array.exists_of_findSome?_eq_some h
      exact SymMap.findFieldGo_nm sm hn name fuel p f hp

theorem SymMap.recordFindField_nm (sm : SymMap) {ws : Workspace} (hn : sm.NamesOK ws) {id : Nat} {name : String}
    {f : Nat} (h : sm.recordFindField id name = some f) : (sm.recordField f).name = name :=
  sm.findFieldGo_nm hn name _ _ _ h

theorem SymMap.typFindField_nm (sm : SymMap) {ws : Workspace} (hn : sm.NamesOK ws) {t : Ty} {name : String}
    {f : Nat} (h : sm.typFindField t name = some f) : (sm.recordField f).name = name := by
  unfold SymMap.typFindField at h
  split at h
  · exact sm.recordFindField_nm hn h
  · cases h

/-- what `find_local` finds is a variable, field or template argument of that name -/
theorem Scopes.findLocal_nm (s : Scopes) (sm : SymMap) {ws : Workspace} (hi : sm.IdsOK) (hn : sm.NamesOK ws)
    (hs : ∀ x ∈ s.scopes, ScopeOK sm.sizes x) (hsn : ∀ x ∈ s.scopes, ScopeNm sm x) {name : String} {r : SymbolId}
    (h : s.findLocal sm name = some r) : sm.symName r = name ∧ sm.Named r := by
  have hok := Scopes.findLocal_ok s sm hi hs h
  suffices hh : sm.symName r = name ∧ ((∃ i, r = .var i) ∨ (∃ i, r = .recordField i) ∨ ∃ i, r = .templateArgument i) by
    refine ⟨hh.1, ?_⟩
    rcases hh.2 with ⟨i, rfl⟩ | ⟨i, rfl⟩ | ⟨i, rfl⟩
    · exact hn.vars i hok
    · exact hn.flds i hok
    · exact hn.tas i hok
  unfold Scopes.findLocal at h
  obtain ⟨scope, hmem, hsc⟩ := List.exists_of_findSome?_eq_some h
  have hso := hsn scope hmem
  split at hsc
  · rename_i id hid
    cases hsc
    refine ⟨?_, Or.inl ⟨_, rfl⟩⟩
    simp only [SymMap.symName]
    unfold Scope.findVariable at hid
    split at hid
    · rename_i v hv
      cases hid
      exact hso.vars _ _ hv
    · split at hid
      · rename_i vn vid hk
        split at hid
        · rename_i heq
          cases hid
          rw [eq_of_beq heq]
          exact hso.kind _ _ hk
        · cases hid
      · cases hid
  · simp only at hsc
    split at hsc
    · rename_i r' hr'
      cases hsc
      split at hr'
      · rename_i recordId _
        split at hr'
        · rename_i fieldId hf
          cases hr'
          exact ⟨sm.recordFindField_nm hn hf, Or.inr (Or.inl ⟨_, rfl⟩)⟩
        · split at hr'
          · rename_i t ht
            cases hr'
            obtain ⟨e, he, rfl, rfl⟩ := indexMapGet_mem' ht
            exact ⟨sm.record_nmTas hn recordId e he, Or.inr (Or.inr ⟨_, rfl⟩)⟩
          · cases hr'
      · cases hr'
    · split at hsc
      · rename_i mcId _
        split at hsc
        · rename_i t ht
          cases hsc
          obtain ⟨e, he, rfl, rfl⟩ := indexMapGet_mem' ht
          exact ⟨sm.multiclass_nmTas hn mcId e he, Or.inr (Or.inr ⟨_, rfl⟩)⟩
        · cases hsc
      · cases hsc

/-! ### state updates that keep `Post` -/

/-- weaken the result of a primitive (stated relative to its own pre-state, scopes unchanged) to the
anchor -/
theorem Holds.post {α : Type} {c0 c : IndexCtx} {m : IxM α} {R : α → IndexCtx → Prop} (h : Post c0 c)
    (hm : Holds m c (fun a c' => PostV c c' ∧ R a c')) : Holds m c (fun a c' => Post c0 c' ∧ R a c') :=
  hm.mono (fun _ _ hp => ⟨h.trans hp.1.toPost, hp.2⟩)

theorem Holds.postV {α : Type} {c0 c : IndexCtx} {m : IxM α} {R : α → IndexCtx → Prop} (h : PostV c0 c)
    (hm : Holds m c (fun a c' => PostV c c' ∧ R a c')) : Holds m c (fun a c' => PostV c0 c' ∧ R a c') :=
  hm.mono (fun _ _ hp => ⟨h.trans hp.1, hp.2⟩)

theorem Holds.post' {α : Type} {c0 c : IndexCtx} {m : IxM α} (h : Post c0 c)
    (hm : Holds m c (fun _ c' => PostV c c')) : Holds m c (fun _ c' => Post c0 c') :=
  hm.mono (fun _ _ hp => h.trans hp.toPost)

theorem Holds.postV' {α : Type} {c0 c : IndexCtx} {m : IxM α} (h : PostV c0 c)
    (hm : Holds m c (fun _ c' => PostV c c')) : Holds m c (fun _ c' => PostV c0 c') :=
  hm.mono (fun _ _ hp => h.trans hp)

/-- replacing the symbol map by the result of a valid mutation -/
theorem Inv.setSM {c : IndexCtx} (h : Inv c) {sm' : SymMap} (hs : StepOK c.ws c.symbolMap sm') :
    PostV c { c with symbolMap := sm' } :=
  ⟨⟨⟨h.ws, h.traceNe, h.trace, h.scopesNe, h.scopesNd, fun s hs' => (h.scopes s hs').mono hs.grow.sizes, hs.ids,
      hs.locs, hs.files, h.diags, hs.names, fun s hs' => (h.scopesNm s hs').grow (h.scopes s hs') hs.grow.n⟩,
    ⟨rfl, rfl, ⟨[], rfl, by intro k hk; cases hk⟩, fun _ hf => hf, hs.grow⟩⟩, rfl⟩

theorem Post.head_file {c0 c : IndexCtx} (h : Post c0 c) : ∃ f rest, c.fileTrace = f :: rest ∧
    c0.fileTrace.head? = some f := by
  have hne := h.inv.traceNe
  cases hc : c.fileTrace with
  | nil => exact absurd hc hne
  | cons f rest => exact ⟨f, rest, rfl, by rw [← h.ext.trace, hc]; rfl⟩

/-! ### the primitives -/

theorem currentFileId_spec {c0 c : IndexCtx} (h : Post c0 c) :
    Holds currentFileId c (fun f c' => c = c' ∧ c0.fileTrace.head? = some f ∧ c.fileTrace.head? = some f) := by
  obtain ⟨f, rest, hc, h0⟩ := h.head_file
  refine ⟨f, c, ?_, rfl, h0, by rw [hc]; rfl⟩
  show (do let s ← get; match s.fileTrace with | f :: _ => pure f | [] => panic "file_trace is empty" : IxM Nat) c = _
  simp only [bind, StateT.bind, get, getThe, MonadStateOf.get, StateT.get, pure, Except.pure, Except.bind, hc,
    StateT.pure]

theorem error_step {c : IndexCtx} (hi : Inv c) {rg : Nat × Nat}
    (hr : ∀ f, c.fileTrace.head? = some f → NodeLoc c.ws f rg.1 rg.2) (msg : String) :
    Holds (error rg msg) c (fun _ c' => PostV c c') := by
  unfold error
  refine Holds.bind (currentFileId_spec (Post.refl hi)) ?_
  rintro f c' ⟨hcc, _, hf⟩
  subst hcc
  refine Holds.modify ?_
  have hloc := hr f hf
  exact ⟨⟨⟨hi.ws, hi.traceNe, hi.trace, hi.scopesNe, hi.scopesNd, hi.scopes, hi.ids, hi.locs, hi.files,
    by
      intro d hd
      simp only [Array.toList_push, List.mem_append, List.mem_singleton] at hd
      rcases hd with hd | rfl
      · exact hi.diags d hd
      · exact hloc, hi.names, hi.scopesNm⟩, Ext.refl c |>.of_same_scopes rfl rfl rfl (fun _ h => h) (SymMap.Grow.refl _)⟩, rfl⟩

theorem error_spec {c0 c : IndexCtx} (h : Post c0 c) {rg : Nat × Nat} (hr : RangeIn c0 rg) (msg : String) :
    Holds (error rg msg) c (fun _ c' => Post c0 c') :=
  Holds.post' h (error_step h.inv (fun _ hf => hr.nodeLoc h hf) msg)

theorem error_specV {c0 c : IndexCtx} (h : PostV c0 c) {rg : Nat × Nat} (hr : RangeIn c0 rg) (msg : String) :
    Holds (error rg msg) c (fun _ c' => PostV c0 c') :=
  Holds.postV' h (error_step h.inv (fun _ hf => hr.nodeLoc h.toPost hf) msg)

theorem nextAnonymousDefName_spec {c0 c : IndexCtx} (h : Post c0 c) :
    Holds nextAnonymousDefName c (fun _ c' => Post c0 c') := by
  unfold nextAnonymousDefName
  refine Holds.modifyGet' ?_
  exact ⟨⟨h.inv.ws, h.inv.traceNe, h.inv.trace, h.inv.scopesNe, h.inv.scopesNd, h.inv.scopes, h.inv.ids, h.inv.locs,
    h.inv.files, h.inv.diags, h.inv.names, h.inv.scopesNm⟩,
    h.ext.of_same_scopes rfl rfl rfl (fun _ hf => hf) (SymMap.Grow.refl _)⟩

theorem canBeCastedTo_spec {α : Type} {c : IndexCtx} (a b : Ty) {f : Bool → IxM α} {Q : α → IndexCtx → Prop}
    (h : ∀ r, Holds (f r) c Q) : Holds (canBeCastedTo a b >>= f) c Q :=
  Holds.bind (R := fun _ c' => c = c') (Holds.withSM rfl) (fun r _ hc => hc ▸ h r)

/-! scopes -/

theorem scopesPush_step {c : IndexCtx} (hi : Inv c) {kind : ScopeKind}
    (hk : ScopeKindOK c.symbolMap.sizes kind)
    (hkn : ∀ nm v, kind = .foreach nm v → (c.symbolMap.var v).name = nm := by intro _ _ h; cases h) :
    Holds (scopesPush kind) c (fun _ c1 => c1 = { c with scopes := c.scopes.push kind } ∧ Inv c1) := by
  unfold scopesPush
  refine Holds.modify ⟨rfl, ?_⟩
  refine ⟨hi.ws, hi.traceNe, hi.trace, by simp [Scopes.push], ?_, ?_, hi.ids, hi.locs, hi.files, hi.diags, hi.names, ?_⟩
  case refine_3 =>
    intro s hs
    simp only [Scopes.push, List.mem_cons] at hs
    rcases hs with rfl | hs
    · exact ⟨by intro n i hi'; simp at hi', hkn⟩
    · exact hi.scopesNm s hs
  · obtain ⟨k, hk', hd⟩ := hi.scopesNd
    exact ⟨k, by simp only [Scopes.kinds, Scopes.push, List.map_cons] at hk' ⊢; exact List.mem_cons_of_mem _ hk', hd⟩
  · intro s hs
    simp only [Scopes.push, List.mem_cons] at hs
    rcases hs with rfl | hs
    · exact ⟨hk, by intro n i hi'; simp at hi'⟩
    · exact hi.scopes s hs

/-- pushing a scope that is not the scope of a class -/
theorem scopesPush_spec {c0 c : IndexCtx} (h : Post c0 c) {kind : ScopeKind}
    (hk : ScopeKindOK c.symbolMap.sizes kind) (hd : DefOnly c.symbolMap kind)
    (hkn : ∀ nm v, kind = .foreach nm v → (c.symbolMap.var v).name = nm := by intro _ _ h; cases h) :
    Holds (scopesPush kind) c (fun _ c1 => c1 = { c with scopes := c.scopes.push kind } ∧ Post c0 c1) := by
  refine (scopesPush_step h.inv hk hkn).mono ?_
  rintro _ c1 ⟨hc1, hi1⟩
  refine ⟨hc1, hi1, ?_⟩
  subst hc1
  refine h.ext.trans ⟨rfl, rfl, ⟨[kind], by simp [Scopes.kinds, Scopes.push], ?_⟩, fun _ hf => hf, SymMap.Grow.refl _⟩
  intro k hk'
  simp only [List.mem_singleton] at hk'
  subst hk'
  exact hd

theorem scopesPop_run {c2 : IndexCtx} {top : Scope} {rest : List Scope} (hs : c2.scopes.scopes = top :: rest) :
    scopesPop c2 = .ok ((), { c2 with scopes := { scopes := rest } }) := by
  have hpop : c2.scopes.pop = some { scopes := rest } := by simp [Scopes.pop, hs]
  show (do let s ← get; match s.scopes.pop with
      | some s => modify fun c => { c with scopes := s }
      | none => panic "scope is empty" : IxM Unit) c2 = _
  simp only [bind, StateT.bind, get, getThe, MonadStateOf.get, StateT.get, pure, Except.pure, Except.bind, hpop]
  rfl

/-- the state after a pop, given what remains on the stack -/
theorem Inv.popped {c2 : IndexCtx} (h2 : Inv c2) {top : Scope} {rest : List Scope}
    (hs : c2.scopes.scopes = top :: rest) (hnd : ∃ k ∈ rest.map (·.kind), Scopes.isDefsetKind k = false) :
    Inv { c2 with scopes := { scopes := rest } } := by
  refine ⟨h2.ws, h2.traceNe, h2.trace, ?_, hnd, ?_, h2.ids, h2.locs, h2.files, h2.diags, h2.names,
    fun s hs' => h2.scopesNm s (by rw [hs]; exact List.mem_cons_of_mem _ hs')⟩
  · intro hr
    obtain ⟨k, hk, _⟩ := hnd
    simp only at hr
    rw [hr] at hk
    simp at hk
  · intro s hs'
    exact h2.scopes s (by rw [hs]; exact List.mem_cons_of_mem _ hs')

/-- `scopesPop` after the scope pushed at `c` (state `c1`) and a body that extends `c1` -/
theorem scopesPop_spec {c0 c c1 c2 : IndexCtx} (h : Post c0 c) {kind : ScopeKind} (hd : DefOnly c.symbolMap kind)
    (h1 : c1 = { c with scopes := c.scopes.push kind }) (h2 : Post c1 c2) :
    Holds scopesPop c2 (fun _ c3 => Post c0 c3) := by
  obtain ⟨e, he, hde⟩ := h2.ext.kindsX
  have hk1 : c1.scopes.kinds = kind :: c.scopes.kinds := by rw [h1]; simp [Scopes.kinds, Scopes.push]
  rw [hk1] at he
  have hc1ws : c1.ws = c.ws := by rw [h1]
  have hc1tr : c1.fileTrace = c.fileTrace := by rw [h1]
  have hc1ix : c1.indexedFiles = c.indexedFiles := by rw [h1]
  have hc1sm : c1.symbolMap = c.symbolMap := by rw [h1]
  have hgrow : SymMap.Grow c.symbolMap c2.symbolMap := by have := h2.ext.sm; rwa [hc1sm] at this
  cases hs : c2.scopes.scopes with
  | nil => simp [Scopes.kinds, hs] at he
  | cons top rest =>
    have hrk : ∃ e', rest.map (·.kind) = e' ++ c.scopes.kinds ∧ ∀ k ∈ e', DefOnly c2.symbolMap k := by
      simp only [Scopes.kinds, hs, List.map_cons] at he
      cases e with
      | nil =>
        simp only [List.nil_append, List.cons.injEq] at he
        exact ⟨[], by simpa [Scopes.kinds] using he.2, by intro k hk; cases hk⟩
      | cons x e' =>
        simp only [List.cons_append, List.cons.injEq] at he
        refine ⟨e' ++ [kind], by rw [he.2]; simp [Scopes.kinds], ?_⟩
        intro k hk
        rcases List.mem_append.mp hk with hk | hk
        · exact hde k (List.mem_cons_of_mem _ hk)
        · simp only [List.mem_singleton] at hk
          subst hk
          exact hd.grow hgrow
    obtain ⟨e', hre, hde'⟩ := hrk
    have hnd : ∃ k ∈ rest.map (·.kind), Scopes.isDefsetKind k = false := by
      obtain ⟨k, hk, hkd⟩ := h.inv.scopesNd
      exact ⟨k, by rw [hre]; exact List.mem_append_right _ hk, hkd⟩
    refine ⟨(), _, scopesPop_run hs, ?_⟩
    refine h.trans ⟨Inv.popped h2.inv hs hnd, ⟨h2.ext.ws.trans hc1ws, h2.ext.trace.trans hc1tr,
      ⟨e', by simpa [Scopes.kinds] using hre, hde'⟩,
      fun f hf => h2.ext.indexed f (by rw [hc1ix]; exact hf), hgrow⟩⟩

/-- `scopesPop` when the body kept the scope stack as it was: the pushed scope itself is popped -/
theorem scopesPop_specV {c0 c c1 c2 : IndexCtx} (h : PostV c0 c) {kind : ScopeKind}
    (h1 : c1 = { c with scopes := c.scopes.push kind }) (h2 : PostV c1 c2) :
    Holds scopesPop c2 (fun _ c3 => PostV c0 c3) := by
  have hk1 : c1.scopes.kinds = kind :: c.scopes.kinds := by rw [h1]; simp [Scopes.kinds, Scopes.push]
  have hk2 : c2.scopes.kinds = kind :: c.scopes.kinds := h2.same.trans hk1
  have hc1ws : c1.ws = c.ws := by rw [h1]
  have hc1tr : c1.fileTrace = c.fileTrace := by rw [h1]
  have hc1ix : c1.indexedFiles = c.indexedFiles := by rw [h1]
  have hc1sm : c1.symbolMap = c.symbolMap := by rw [h1]
  have hgrow : SymMap.Grow c.symbolMap c2.symbolMap := by have := h2.ext.sm; rwa [hc1sm] at this
  cases hs : c2.scopes.scopes with
  | nil => simp [Scopes.kinds, hs] at hk2
  | cons top rest =>
    have hre : rest.map (·.kind) = c.scopes.kinds := by
      simp only [Scopes.kinds, hs, List.map_cons, List.cons.injEq] at hk2
      simpa [Scopes.kinds] using hk2.2
    have hnd : ∃ k ∈ rest.map (·.kind), Scopes.isDefsetKind k = false := by
      rw [hre]; exact h.inv.scopesNd
    refine ⟨(), _, scopesPop_run hs, ?_⟩
    refine h.trans ⟨⟨Inv.popped h2.inv hs hnd, ⟨h2.ext.ws.trans hc1ws, h2.ext.trace.trans hc1tr,
      ⟨[], by simpa [Scopes.kinds] using hre, by intro k hk; cases hk⟩,
      fun f hf => h2.ext.indexed f (by rw [hc1ix]; exact hf), hgrow⟩⟩, by simpa [Scopes.kinds] using hre⟩

/-- a state and the one with a scope pushed agree on everything `Fits`, `LocIn`, `RangeIn` look at -/
structure SameBase (c c1 : IndexCtx) : Prop where
  ws : c1.ws = c.ws
  trace : c1.fileTrace = c.fileTrace
  indexed : c1.indexedFiles = c.indexedFiles

theorem SameBase.of_push {c c1 : IndexCtx} {kind : ScopeKind}
    (h1 : c1 = { c with scopes := c.scopes.push kind }) : SameBase c c1 := by subst h1; exact ⟨rfl, rfl, rfl⟩

/-! current ids -/

theorem Scopes.currentRecordId_ok {s : Scopes} {z : Sizes} (hs : ∀ x ∈ s.scopes, ScopeOK z x) {id : Nat}
    (h : s.currentRecordId = some id) : id < z.recs := by
  obtain ⟨x, hx, hid⟩ := List.exists_of_findSome?_eq_some h
  have := (hs x hx).kind
  unfold Scope.recordId at hid
  split at hid
  · rename_i id' hk; cases hid; rw [hk] at this; exact this
  · cases hid

theorem Scopes.currentDefsetId_ok {s : Scopes} {z : Sizes} (hs : ∀ x ∈ s.scopes, ScopeOK z x) {id : Nat}
    (h : s.currentDefsetId = some id) : id < z.dss := by
  obtain ⟨x, hx, hid⟩ := List.exists_of_findSome?_eq_some h
  have := (hs x hx).kind
  unfold Scope.defsetId at hid
  split at hid
  · rename_i id' hk; cases hid; rw [hk] at this; exact this
  · cases hid

theorem Scopes.currentMulticlassId_ok {s : Scopes} {z : Sizes} (hs : ∀ x ∈ s.scopes, ScopeOK z x) {id : Nat}
    (h : s.currentMulticlassId = some id) : id < z.mcs := by
  obtain ⟨x, hx, hid⟩ := List.exists_of_findSome?_eq_some h
  have := (hs x hx).kind
  unfold Scope.multiclassId at hid
  split at hid
  · rename_i id' hk; cases hid; rw [hk] at this; exact this
  · cases hid

theorem Scopes.currentDefmId_ok {s : Scopes} {z : Sizes} (hs : ∀ x ∈ s.scopes, ScopeOK z x) {id : Nat}
    (h : s.currentDefmId = some id) : id < z.dms := by
  obtain ⟨x, hx, hid⟩ := List.exists_of_findSome?_eq_some h
  have := (hs x hx).kind
  unfold Scope.defmId at hid
  split at hid
  · rename_i id' hk; cases hid; rw [hk] at this; exact this
  · cases hid

/-- "some enclosing scope is a record": a property of the scope kinds, hence stable under `Ext` -/
def HasKind (p : ScopeKind → Bool) (c : IndexCtx) : Prop := ∃ k ∈ c.scopes.kinds, p k = true

theorem HasKind.ext {p : ScopeKind → Bool} {c c' : IndexCtx} (he : Ext c c') (h : HasKind p c) : HasKind p c' := by
  obtain ⟨k, hk, hp⟩ := h
  exact ⟨k, he.kinds.subset hk, hp⟩

def isRecordKind : ScopeKind → Bool | .record _ => true | _ => false
def isRecOrMcKind : ScopeKind → Bool | .record _ => true | .multiclass _ => true | _ => false
def isRecMcDefmKind : ScopeKind → Bool
  | .record _ => true | .multiclass _ => true | .defm _ => true | _ => false

theorem currentRecordId_isSome {c : IndexCtx} (h : HasKind isRecordKind c) : c.scopes.currentRecordId.isSome = true := by
  obtain ⟨k, hk, hp⟩ := h
  simp only [Scopes.kinds, List.mem_map] at hk
  obtain ⟨s, hs, rfl⟩ := hk
  unfold Scopes.currentRecordId
  rw [List.findSome?_isSome_iff]
  refine ⟨s, hs, ?_⟩
  unfold Scope.recordId
  cases hk : s.kind <;> simp_all [isRecordKind]

theorem currentRecordId_spec {c : IndexCtx} :
    Holds currentRecordId c (fun r c' => c = c' ∧ r = c.scopes.currentRecordId) := ⟨_, _, rfl, rfl, rfl⟩
theorem currentDefsetId_spec {c : IndexCtx} :
    Holds currentDefsetId c (fun r c' => c = c' ∧ r = c.scopes.currentDefsetId) := ⟨_, _, rfl, rfl, rfl⟩
theorem currentMulticlassId_spec {c : IndexCtx} :
    Holds currentMulticlassId c (fun r c' => c = c' ∧ r = c.scopes.currentMulticlassId) := ⟨_, _, rfl, rfl, rfl⟩
theorem currentDefmId_spec {c : IndexCtx} :
    Holds currentDefmId c (fun r c' => c = c' ∧ r = c.scopes.currentDefmId) := ⟨_, _, rfl, rfl, rfl⟩

/-! allocation -/

theorem addRecord_step {c : IndexCtx} (hi : Inv c) {r : Record} (g : Bool) (hr : FreshRecord r)
    (hloc : NodeLocR c.ws r.defineLoc) (htok : TokAt c.ws r.defineLoc.toLoc r.name) :
    Holds (addRecord r g) c (fun id c' => PostV c c' ∧ id < c'.symbolMap.sizes.recs ∧ c'.symbolMap.record id = r) := by
  unfold addRecord
  refine Holds.modifySM ?_
  obtain ⟨p1, p2, p3⟩ := c.symbolMap.addRecord_ok r g hi.ids hi.locs hi.files hi.names hr hloc htok
  exact ⟨hi.setSM p1, p2, p3⟩

theorem addMulticlassDef_step {c : IndexCtx} (hi : Inv c) {r : Record} (hr : FreshRecord r)
    (hloc : NodeLocR c.ws r.defineLoc) (htok : TokAt c.ws r.defineLoc.toLoc r.name) :
    Holds (addMulticlassDef r) c (fun id c' => PostV c c' ∧ id < c'.symbolMap.sizes.recs ∧ c'.symbolMap.record id = r) := by
  unfold addMulticlassDef
  refine Holds.modifySM ?_
  obtain ⟨p1, p2, p3⟩ := c.symbolMap.addMulticlassDef_ok r hi.ids hi.locs hi.files hi.names hr hloc htok
  exact ⟨hi.setSM p1, p2, p3⟩

theorem addAnonymousDef_step {c : IndexCtx} (hi : Inv c) {r : Record} (hr : FreshRecord r)
    (hloc : NodeLocR c.ws r.defineLoc) :
    Holds (addAnonymousDef r) c (fun id c' => PostV c c' ∧ id < c'.symbolMap.sizes.recs ∧ c'.symbolMap.record id = r) := by
  unfold addAnonymousDef
  refine Holds.modifySM ?_
  obtain ⟨p1, p2, p3⟩ := c.symbolMap.addAnonymousDef_ok r hi.ids hi.locs hi.files hi.names hr hloc
  exact ⟨hi.setSM p1, p2, p3⟩

theorem addTemplateArgument_step {c : IndexCtx} (hi : Inv c) {a : TemplateArgument}
    (hloc : NodeLocR c.ws a.defineLoc) (htok : TokAt c.ws a.defineLoc.toLoc a.name) :
    Holds (addTemplateArgument a) c
      (fun id c' => PostV c c' ∧ id < c'.symbolMap.sizes.tas ∧ c'.symbolMap.templateArg id = a) := by
  unfold addTemplateArgument
  refine Holds.modifySM ?_
  obtain ⟨p1, p2, p3⟩ := c.symbolMap.addTemplateArgument_ok a hi.ids hi.locs hi.files hi.names hloc htok
  exact ⟨hi.setSM p1, p2, p3⟩

theorem addRecordField_step {c : IndexCtx} (hi : Inv c) {a : RecordField}
    (ha : FieldOK c.symbolMap.sizes a) (hloc : NodeLocR c.ws a.defineLoc)
    (htok : TokAt c.ws a.defineLoc.toLoc a.name) :
    Holds (addRecordField a) c
      (fun id c' => PostV c c' ∧ id < c'.symbolMap.sizes.flds ∧ c'.symbolMap.recordField id = a) := by
  unfold addRecordField
  refine Holds.modifySM ?_
  obtain ⟨p1, p2, p3⟩ := c.symbolMap.addRecordField_ok a hi.ids hi.locs hi.files hi.names ha hloc htok
  exact ⟨hi.setSM p1, p2, p3⟩

theorem addVariable_step {c : IndexCtx} (hi : Inv c) {a : Variable} (hloc : NodeLocR c.ws a.defineLoc)
    (htok : TokAt c.ws a.defineLoc.toLoc a.name) :
    Holds (addVariable a) c (fun id c' => PostV c c' ∧ id < c'.symbolMap.sizes.vars ∧ c'.scopes = c.scopes ∧
      c'.symbolMap.var id = a) := by
  unfold addVariable
  refine Holds.modifySM ?_
  obtain ⟨p1, p2, p3⟩ := c.symbolMap.addVariable_ok a hi.ids hi.locs hi.files hi.names hloc htok
  exact ⟨hi.setSM p1, p2, rfl, p3⟩

theorem addDefset_step {c : IndexCtx} (hi : Inv c) {a : Defset} (ha : a.defList = #[])
    (hloc : NodeLocR c.ws a.defineLoc) (htok : TokAt c.ws a.defineLoc.toLoc a.name) :
    Holds (addDefset a) c (fun id c' => PostV c c' ∧ id < c'.symbolMap.sizes.dss ∧
      (c'.symbolMap.defset id).defineLoc = a.defineLoc) := by
  unfold addDefset
  refine Holds.modifySM ?_
  obtain ⟨p1, p2, p3⟩ := c.symbolMap.addDefset_ok a hi.ids hi.locs hi.files hi.names ha hloc htok
  exact ⟨hi.setSM p1, p2, p3⟩

theorem addMulticlass_step {c : IndexCtx} (hi : Inv c) {a : Multiclass} (ha1 : a.nameToTemplateArg = #[])
    (ha2 : a.parentList = #[]) (hloc : NodeLocR c.ws a.defineLoc) (htok : TokAt c.ws a.defineLoc.toLoc a.name) :
    Holds (addMulticlass a) c (fun id c' => PostV c c' ∧ id < c'.symbolMap.sizes.mcs ∧
      (c'.symbolMap.multiclass id).defineLoc = a.defineLoc) := by
  unfold addMulticlass
  refine Holds.modifySM ?_
  obtain ⟨p1, p2, p3⟩ := c.symbolMap.addMulticlass_ok a hi.ids hi.locs hi.files hi.names ha1 ha2 hloc htok
  exact ⟨hi.setSM p1, p2, p3⟩

theorem addDefm_step {c : IndexCtx} (hi : Inv c) {a : Defm} (g : Bool) (ha : a.parentList = #[])
    (hloc : NodeLocR c.ws a.defineLoc) (htok : TokAt c.ws a.defineLoc.toLoc a.name) :
    Holds (addDefm a g) c (fun id c' => PostV c c' ∧ id < c'.symbolMap.sizes.dms) := by
  unfold addDefm
  refine Holds.modifySM ?_
  obtain ⟨p1, p2⟩ := c.symbolMap.addDefm_ok a g hi.ids hi.locs hi.files hi.names ha hloc htok
  exact ⟨hi.setSM p1, p2⟩

theorem addAnonymousDefm_step {c : IndexCtx} (hi : Inv c) {a : Defm} (ha : a.parentList = #[])
    (hloc : NodeLocR c.ws a.defineLoc) :
    Holds (addAnonymousDefm a) c (fun id c' => PostV c c' ∧ id < c'.symbolMap.sizes.dms) := by
  unfold addAnonymousDefm
  refine Holds.modifySM ?_
  obtain ⟨p1, p2⟩ := c.symbolMap.addAnonymousDefm_ok a hi.ids hi.locs hi.files hi.names ha hloc
  exact ⟨hi.setSM p1, p2⟩

theorem addReference_step {c : IndexCtx} (hi : Inv c) {s : SymbolId} {loc : FileRange}
    (hs : SymOK c.symbolMap.sizes s) (hloc : NodeLocR c.ws loc)
    (hnm : c.symbolMap.Named s) (htok : TokAt c.ws loc.toLoc (c.symbolMap.symName s)) :
    Holds (addReference s loc) c (fun _ c' => PostV c c') := by
  unfold addReference
  refine Holds.modifySM ?_
  exact hi.setSM (c.symbolMap.addReference_ok s loc hi.ids hi.locs hi.files hi.names hs hloc hnm htok)

theorem registerDefsetName_step {c : IndexCtx} (hi : Inv c) {id : Nat} (hid : id < c.symbolMap.defsetList.size) :
    Holds (registerDefsetName id) c (fun _ c' => PostV c c') := by
  unfold registerDefsetName
  refine Holds.modifySM ?_
  exact hi.setSM (c.symbolMap.registerDefsetName_ok id hi.ids hi.locs hi.files hi.names hid)

theorem addReference_spec {c0 c : IndexCtx} (h : Post c0 c) {s : SymbolId} {loc : FileRange} {nm : String}
    (hs : SymOK c.symbolMap.sizes s) (hloc : TokIn c0 loc nm) (hname : c.symbolMap.symName s = nm)
    (hnm : c.symbolMap.Named s) :
    Holds (addReference s loc) c (fun _ c' => Post c0 c') :=
  Holds.post' h (addReference_step h.inv hs (hloc.locIn.nodeLoc h) hnm (hname ▸ hloc.tokAt h))

theorem addReference_specV {c0 c : IndexCtx} (h : PostV c0 c) {s : SymbolId} {loc : FileRange} {nm : String}
    (hs : SymOK c.symbolMap.sizes s) (hloc : TokIn c0 loc nm) (hname : c.symbolMap.symName s = nm)
    (hnm : c.symbolMap.Named s) :
    Holds (addReference s loc) c (fun _ c' => PostV c0 c') :=
  Holds.postV' h (addReference_step h.inv hs (hloc.locIn.nodeLoc h.toPost) hnm (hname ▸ hloc.tokAt h.toPost))

/-! mutation of an arena entry -/

theorem recordMut_step {c : IndexCtx} (hi : Inv c) (id : Nat) {f : Record → Record}
    (hf : ∀ r, RecordOK c.symbolMap.sizes r → RecordOK c.symbolMap.sizes (f r))
    (hloc : ∀ r, (f r).defineLoc = r.defineLoc) (hkind : ∀ r, (f r).kind = r.kind)
    (hT : id < c.symbolMap.recordList.size → (c.symbolMap.record id).kind = .cls →
      ∀ e ∈ (f (c.symbolMap.record id)).nameToTemplateArg.toList,
        (c.symbolMap.templateArg e.2).defineLoc.file = (c.symbolMap.record id).defineLoc.file)
    (hF : id < c.symbolMap.recordList.size → ∀ e ∈ (f (c.symbolMap.record id)).nameToRecordField.toList,
        (c.symbolMap.recordField e.2).defineLoc.file = (c.symbolMap.record id).defineLoc.file)
    (hname : ∀ r, (f r).name = r.name)
    (hNT : id < c.symbolMap.recordList.size → ∀ e ∈ (f (c.symbolMap.record id)).nameToTemplateArg.toList,
        (c.symbolMap.templateArg e.2).name = e.1)
    (hNF : id < c.symbolMap.recordList.size → ∀ e ∈ (f (c.symbolMap.record id)).nameToRecordField.toList,
        (c.symbolMap.recordField e.2).name = e.1) :
    Holds (recordMut id f) c (fun _ c' => PostV c c') := by
  unfold recordMut
  refine Holds.modifySM ?_
  exact hi.setSM (c.symbolMap.recordMut_ok id f hi.ids hi.locs hi.files hi.names hf hloc hkind hname hT hF hNT hNF)

theorem multiclassMut_step {c : IndexCtx} (hi : Inv c) (id : Nat) {f : Multiclass → Multiclass}
    (hf : ∀ r, MulticlassOK c.symbolMap.sizes r → MulticlassOK c.symbolMap.sizes (f r))
    (hloc : ∀ r, (f r).defineLoc = r.defineLoc)
    (hT : id < c.symbolMap.multiclassList.size → ∀ e ∈ (f (c.symbolMap.multiclass id)).nameToTemplateArg.toList,
        (c.symbolMap.templateArg e.2).defineLoc.file = (c.symbolMap.multiclass id).defineLoc.file)
    (hname : ∀ r, (f r).name = r.name)
    (hNT : id < c.symbolMap.multiclassList.size → ∀ e ∈ (f (c.symbolMap.multiclass id)).nameToTemplateArg.toList,
        (c.symbolMap.templateArg e.2).name = e.1) :
    Holds (multiclassMut id f) c (fun _ c' => PostV c c') := by
  unfold multiclassMut
  refine Holds.modifySM ?_
  exact hi.setSM (c.symbolMap.multiclassMut_ok id f hi.ids hi.locs hi.files hi.names hf hloc hname hT hNT)

theorem defmMut_step {c : IndexCtx} (hi : Inv c) (id : Nat) {f : Defm → Defm}
    (hf : ∀ r, DefmOK c.symbolMap.sizes r → DefmOK c.symbolMap.sizes (f r))
    (hloc : ∀ r, (f r).defineLoc = r.defineLoc) (hname : ∀ r, (f r).name = r.name) :
    Holds (defmMut id f) c (fun _ c' => PostV c c') := by
  unfold defmMut
  refine Holds.modifySM ?_
  exact hi.setSM (c.symbolMap.defmMut_ok id f hi.ids hi.locs hi.files hi.names hf hloc hname)

theorem defsetMut_step {c : IndexCtx} (hi : Inv c) (id : Nat) {f : Defset → Defset}
    (hf : ∀ r, DefsetOK c.symbolMap.sizes r → DefsetOK c.symbolMap.sizes (f r))
    (hloc : ∀ r, (f r).defineLoc = r.defineLoc)
    (hD : id < c.symbolMap.defsetList.size → ∀ x ∈ (f (c.symbolMap.defset id)).defList.toList,
        (c.symbolMap.record x).defineLoc.file = (c.symbolMap.defset id).defineLoc.file)
    (hname : ∀ r, (f r).name = r.name) :
    Holds (defsetMut id f) c (fun _ c' => PostV c c') := by
  unfold defsetMut
  refine Holds.modifySM ?_
  exact hi.setSM (c.symbolMap.defsetMut_ok id f hi.ids hi.locs hi.files hi.names hf hloc hname hD)

/-- `Scopes::add_variable` inserts into the innermost scope that is not a defset scope -/
theorem insertVariableGo_ok (name : String) (id : Nat) {z : Sizes} (hid : id < z.vars) :
    ∀ (l : List Scope), (∃ k ∈ l.map (·.kind), Scopes.isDefsetKind k = false) → (∀ s ∈ l, ScopeOK z s) →
    ∃ l', Scopes.insertVariableGo name id l = some l' ∧ l'.map (·.kind) = l.map (·.kind) ∧ ∀ s ∈ l', ScopeOK z s
  | [], h, _ => by obtain ⟨k, hk, _⟩ := h; simp at hk
  | sc :: rest, h, hs => by
    unfold Scopes.insertVariableGo
    by_cases hd : Scopes.isDefsetKind sc.kind = true
    · simp only [hd, if_true]
      have hrest : ∃ k ∈ rest.map (·.kind), Scopes.isDefsetKind k = false := by
        obtain ⟨k, hk, hkd⟩ := h
        simp only [List.map_cons, List.mem_cons] at hk
        rcases hk with rfl | hk
        · rw [hd] at hkd; cases hkd
        · exact ⟨k, hk, hkd⟩
      obtain ⟨l', h1, h2, h3⟩ := insertVariableGo_ok name id hid rest hrest (fun s hs' => hs s (by simp [hs']))
      refine ⟨sc :: l', by simp [h1], by simp [h2], ?_⟩
      intro s hs'
      simp only [List.mem_cons] at hs'
      rcases hs' with rfl | hs'
      · exact hs _ (by simp)
      · exact h3 s hs'
    · simp only [hd, if_false]
      refine ⟨_, rfl, by simp, ?_⟩
      intro s hs'
      simp only [List.mem_cons] at hs'
      rcases hs' with rfl | hs'
      · have htop := hs sc (by simp)
        refine ⟨htop.kind, ?_⟩
        intro n i hi'
        simp only at hi'
        rw [Std.HashMap.getElem?_insert] at hi'
        split at hi'
        · cases hi'; exact hid
        · exact htop.vars n i hi'
      · exact hs s (by simp [hs'])

theorem insertVariableGo_nm (sm : SymMap) (name : String) (id : Nat) (hnm : (sm.var id).name = name) :
    ∀ (l l' : List Scope), Scopes.insertVariableGo name id l = some l' → (∀ s ∈ l, ScopeNm sm s) →
      ∀ s ∈ l', ScopeNm sm s
  | [], _, h, _ => by simp [Scopes.insertVariableGo] at h
  | sc :: rest, l', h, hs => by
    unfold Scopes.insertVariableGo at h
    split at h
    · simp only [Option.map_eq_some_iff] at h
      obtain ⟨r', hr', rfl⟩ := h
      intro s hs'
      simp only [List.mem_cons] at hs'
      rcases hs' with rfl | hs'
      · exact hs _ (by simp)
      · exact insertVariableGo_nm sm name id hnm rest r' hr' (fun s hs'' => hs s (by simp [hs''])) s hs'
    · cases h
      intro s hs'
      simp only [List.mem_cons] at hs'
      rcases hs' with rfl | hs'
      · have htop := hs sc (by simp)
        refine ⟨?_, htop.kind⟩
        intro n i hi'
        simp only at hi'
        rw [Std.HashMap.getElem?_insert] at hi'
        split at hi'
        · rename_i heq
          cases hi'
          rw [← eq_of_beq heq]; exact hnm
        · exact htop.vars n i hi'
      · exact hs s (by simp [hs'])

theorem scopesAddVariable_step {c : IndexCtx} (hi : Inv c) {v : Variable} (hloc : NodeLocR c.ws v.defineLoc)
    (htok : TokAt c.ws v.defineLoc.toLoc v.name) :
    Holds (scopesAddVariable v) c (fun _ c' => PostV c c') := by
  unfold scopesAddVariable
  refine Holds.bind (addVariable_step hi hloc htok) ?_
  rintro id c1 ⟨h1, hid, hsc, hvar⟩
  obtain ⟨l', hl1, hl2, hl3⟩ := insertVariableGo_ok v.name id hid c1.scopes.scopes h1.inv.scopesNd h1.inv.scopes
  have hl4 := insertVariableGo_nm c1.symbolMap v.name id (by rw [hvar]) _ _ hl1 h1.inv.scopesNm
  have hins : c1.scopes.insertVariable v.name id = some { scopes := l' } := by
    simp [Scopes.insertVariable, hl1]
  refine Holds.bind (R := fun ok c2 => ok = true ∧ PostV c c2) ?_ ?_
  · refine Holds.modifyGet' ?_
    simp only [hins, true_and]
    have hne : l' ≠ [] := by
      intro h0
      obtain ⟨k, hk, _⟩ := h1.inv.scopesNd
      rw [Scopes.kinds, ← hl2, h0] at hk
      simp at hk
    refine h1.trans ⟨⟨⟨h1.inv.ws, h1.inv.traceNe, h1.inv.trace, hne, ?_, hl3, h1.inv.ids, h1.inv.locs, h1.inv.files,
      h1.inv.diags, h1.inv.names, hl4⟩, ⟨rfl, rfl, ⟨[], by simpa [Scopes.kinds] using hl2, by intro k hk; cases hk⟩, fun _ hf => hf,
        SymMap.Grow.refl _⟩⟩, by simpa [Scopes.kinds] using hl2⟩
    obtain ⟨k, hk, hkd⟩ := h1.inv.scopesNd
    exact ⟨k, by simpa [Scopes.kinds, hl2] using hk, hkd⟩
  · rintro ok c2 ⟨rfl, h2⟩
    exact Holds.pure h2

/-- `index::utils::identifier` -/
theorem utilsIdentifier_spec {c0 c : IndexCtx} (h : Post c0 c) {k : Nat} {n : PTree} (hn : Fits k c0 n)
    (hk : n.kind = .Identifier) :
    Holds (utilsIdentifier n) c (fun r c' => c = c' ∧ ∀ name loc, r = some (name, loc) → TokIn c0 loc name) := by
  unfold utilsIdentifier
  split
  · rename_i name hname
    refine Holds.bind (currentFileId_spec h) ?_
    rintro f c' ⟨rfl, hf0, hf⟩
    split
    · rename_i s e hr
      refine Holds.pure ⟨rfl, ?_⟩
      intro name' loc hl
      cases hl
      unfold Ast.identifierRange at hr
      unfold Ast.identifierValue at hname
      simp only [Option.map_eq_some_iff] at hr hname
      obtain ⟨t, ht, hrt⟩ := hr
      obtain ⟨t', ht', rfl⟩ := hname
      rw [ht] at ht'
      cases ht'
      cases hrt
      obtain ⟨f', hf', hd⟩ := hn.cur
      rw [hf0] at hf'
      cases hf'
      exact ⟨hf0, t, hd.trans (PTree.firstToken_desc ht).1, (PTree.firstToken_desc ht).2, rfl, rfl, rfl,
        n, hd, hn.isNode, hk, ht⟩
    · exact Holds.pure ⟨rfl, by intro _ _ hl; cases hl⟩
  · exact Holds.pure ⟨rfl, by intro _ _ hl; cases hl⟩

/-- `resolve_id` -/
theorem resolveId_spec {c0 c : IndexCtx} (h : Post c0 c) (name : String) :
    Holds (resolveId name) c (fun r c' => c = c' ∧ ∀ s, r = some s →
      SymOK c.symbolMap.sizes s ∧ c.symbolMap.symName s = name ∧ c.symbolMap.Named s) := by
  unfold resolveId
  refine Holds.bind (Holds.get (Q := fun a c' => a = c ∧ c' = c) ⟨rfl, rfl⟩) ?_
  rintro _ _ ⟨rfl, rfl⟩
  split
  · rename_i s hs
    refine Holds.pure ⟨rfl, ?_⟩
    intro s' hs'
    cases hs'
    exact ⟨Scopes.findLocal_ok _ _ h.inv.ids h.inv.scopes hs,
      Scopes.findLocal_nm _ _ h.inv.ids h.inv.names h.inv.scopes h.inv.scopesNm hs⟩
  · split
    · rename_i d hd
      refine Holds.pure ⟨rfl, ?_⟩
      intro s' hs'
      cases hs'
      exact ⟨h.inv.ids.defs _ _ hd, h.inv.names.defs _ _ hd⟩
    · split
      · rename_i d hd
        refine Holds.pure ⟨rfl, ?_⟩
        intro s' hs'
        cases hs'
        exact ⟨h.inv.ids.dsn _ _ hd, h.inv.names.dsn _ _ hd, h.inv.names.dss _ (h.inv.ids.dsn _ _ hd)⟩
      · exact Holds.pure ⟨rfl, by intro _ hl; cases hl⟩

theorem scopesAddVariable_spec {c0 c : IndexCtx} (h : Post c0 c) {v : Variable} (hloc : TokIn c0 v.defineLoc v.name) :
    Holds (scopesAddVariable v) c (fun _ c' => Post c0 c') :=
  Holds.post' h (scopesAddVariable_step h.inv (hloc.locIn.nodeLoc h) (hloc.tokAt h))

theorem scopesAddVariable_specV {c0 c : IndexCtx} (h : PostV c0 c) {v : Variable}
    (hloc : TokIn c0 v.defineLoc v.name) :
    Holds (scopesAddVariable v) c (fun _ c' => PostV c0 c') :=
  Holds.postV' h (scopesAddVariable_step h.inv (hloc.locIn.nodeLoc h.toPost) (hloc.tokAt h.toPost))

/-! ### which scope kinds are on the stack -/

theorem HasKind.push_self {p : ScopeKind → Bool} {c : IndexCtx} {kind : ScopeKind} (hp : p kind = true) :
    HasKind p { c with scopes := c.scopes.push kind } :=
  ⟨kind, by simp [Scopes.kinds, Scopes.push], hp⟩

theorem findSome?_kind {f : Scope → Option Nat} {g : ScopeKind → Option Nat} (hfg : ∀ s, f s = g s.kind)
    (l : List Scope) : l.findSome? f = (l.map (·.kind)).findSome? g := by
  induction l with
  | nil => rfl
  | cons x xs ih => simp only [List.findSome?_cons, List.map_cons, hfg, ih]

def kindRecordId : ScopeKind → Option Nat | .record id => some id | _ => none
def kindMulticlassId : ScopeKind → Option Nat | .multiclass id => some id | _ => none
def kindDefmId : ScopeKind → Option Nat | .defm id => some id | _ => none

theorem currentRecordId_eq (c : IndexCtx) : c.scopes.currentRecordId = c.scopes.kinds.findSome? kindRecordId :=
  findSome?_kind (fun s => by unfold Scope.recordId kindRecordId; cases s.kind <;> rfl) _
theorem currentMulticlassId_eq (c : IndexCtx) :
    c.scopes.currentMulticlassId = c.scopes.kinds.findSome? kindMulticlassId :=
  findSome?_kind (fun s => by unfold Scope.multiclassId kindMulticlassId; cases s.kind <;> rfl) _
theorem currentDefmId_eq (c : IndexCtx) : c.scopes.currentDefmId = c.scopes.kinds.findSome? kindDefmId :=
  findSome?_kind (fun s => by unfold Scope.defmId kindDefmId; cases s.kind <;> rfl) _

theorem HasKind.record_some {c : IndexCtx} (h : HasKind isRecordKind c) :
    ∃ id, c.scopes.currentRecordId = some id := by
  rw [currentRecordId_eq]
  obtain ⟨k, hk, hp⟩ := h
  cases hf : c.scopes.kinds.findSome? kindRecordId with
  | some id => exact ⟨id, rfl⟩
  | none =>
    have := List.findSome?_eq_none_iff.mp hf k hk
    cases k <;> simp_all [isRecordKind, kindRecordId]

theorem HasKind.recOrMc_some {c : IndexCtx} (h : HasKind isRecOrMcKind c) (h1 : c.scopes.currentRecordId = none) :
    ∃ id, c.scopes.currentMulticlassId = some id := by
  rw [currentRecordId_eq] at h1
  rw [currentMulticlassId_eq]
  obtain ⟨k, hk, hp⟩ := h
  cases hf : c.scopes.kinds.findSome? kindMulticlassId with
  | some id => exact ⟨id, rfl⟩
  | none =>
    have h2 := List.findSome?_eq_none_iff.mp hf k hk
    have h3 := List.findSome?_eq_none_iff.mp h1 k hk
    cases k <;> simp_all [isRecOrMcKind, kindRecordId, kindMulticlassId]

theorem HasKind.recMcDefm_some {c : IndexCtx} (h : HasKind isRecMcDefmKind c)
    (h1 : c.scopes.currentRecordId = none) (h2 : c.scopes.currentMulticlassId = none) :
    ∃ id, c.scopes.currentDefmId = some id := by
  rw [currentRecordId_eq] at h1
  rw [currentMulticlassId_eq] at h2
  rw [currentDefmId_eq]
  obtain ⟨k, hk, hp⟩ := h
  cases hf : c.scopes.kinds.findSome? kindDefmId with
  | some id => exact ⟨id, rfl⟩
  | none =>
    have h3 := List.findSome?_eq_none_iff.mp hf k hk
    have h4 := List.findSome?_eq_none_iff.mp h1 k hk
    have h5 := List.findSome?_eq_none_iff.mp h2 k hk
    cases k <;> simp_all [isRecMcDefmKind, kindRecordId, kindMulticlassId, kindDefmId]

theorem HasKind.weaken {p q : ScopeKind → Bool} {c : IndexCtx} (hpq : ∀ k, p k = true → q k = true)
    (h : HasKind p c) : HasKind q c := by
  obtain ⟨k, hk, hp⟩ := h
  exact ⟨k, hk, hpq k hp⟩

theorem isRecordKind_recOrMc : ∀ k, isRecordKind k = true → isRecOrMcKind k = true := by
  intro k; cases k <;> simp [isRecordKind, isRecOrMcKind]
theorem isRecordKind_recMcDefm : ∀ k, isRecordKind k = true → isRecMcDefmKind k = true := by
  intro k; cases k <;> simp [isRecordKind, isRecMcDefmKind]
theorem isRecOrMc_recMcDefm : ∀ k, isRecOrMcKind k = true → isRecMcDefmKind k = true := by
  intro k; cases k <;> simp [isRecOrMcKind, isRecMcDefmKind]

/-! ### the entry updates of the indexer keep ids valid -/

theorem RecordOK.insertTa {z : Sizes} {r : Record} (hr : RecordOK z r) (name : String) {v : Nat} (hv : v < z.tas) :
    RecordOK z { r with nameToTemplateArg := indexMapInsert r.nameToTemplateArg name v } :=
  ⟨fun e he => by rcases indexMapInsert_mem he with h | rfl; exact hr.tas e h; exact hv, hr.flds, hr.parents⟩

theorem RecordOK.insertField {z : Sizes} {r : Record} (hr : RecordOK z r) (name : String) {v : Nat}
    (hv : v < z.flds) :
    RecordOK z { r with nameToRecordField := indexMapInsert r.nameToRecordField name v } :=
  ⟨hr.tas, fun e he => by rcases indexMapInsert_mem he with h | rfl; exact hr.flds e h; exact hv, hr.parents⟩

theorem RecordOK.pushParent {z : Sizes} {r : Record} (hr : RecordOK z r) {v : Nat} (hv : v < z.recs) :
    RecordOK z { r with parentList := r.parentList.push v } :=
  ⟨hr.tas, hr.flds, fun p hp => by
    simp only [Array.toList_push, List.mem_append, List.mem_singleton] at hp
    rcases hp with h | rfl; exact hr.parents p h; exact hv⟩

theorem MulticlassOK.insertTa {z : Sizes} {r : Multiclass} (hr : MulticlassOK z r) (name : String) {v : Nat}
    (hv : v < z.tas) :
    MulticlassOK z { r with nameToTemplateArg := indexMapInsert r.nameToTemplateArg name v } :=
  ⟨fun e he => by rcases indexMapInsert_mem he with h | rfl; exact hr.tas e h; exact hv, hr.parents⟩

theorem MulticlassOK.pushParent {z : Sizes} {r : Multiclass} (hr : MulticlassOK z r) {v : Nat} (hv : v < z.mcs) :
    MulticlassOK z { r with parentList := r.parentList.push v } :=
  ⟨hr.tas, fun p hp => by
    simp only [Array.toList_push, List.mem_append, List.mem_singleton] at hp
    rcases hp with h | rfl; exact hr.parents p h; exact hv⟩

theorem DefmOK.pushParent {z : Sizes} {r : Defm} (hr : DefmOK z r) {v : Nat} (hv : v < z.mcs) :
    DefmOK z { r with parentList := r.parentList.push v } := by
  intro p hp
  simp only [Array.toList_push, List.mem_append, List.mem_singleton] at hp
  rcases hp with h | rfl
  · exact hr p h
  · exact hv

theorem DefsetOK.pushDef {z : Sizes} {r : Defset} (hr : DefsetOK z r) {v : Nat} (hv : v < z.recs) :
    DefsetOK z { r with defList := r.defList.push v } := by
  intro p hp
  simp only [Array.toList_push, List.mem_append, List.mem_singleton] at hp
  rcases hp with h | rfl
  · exact hr p h
  · exact hv

theorem RecordOK.empty (z : Sizes) (name : String) (kind : RecordKind) (loc : FileRange) :
    RecordOK z { name := name, kind := kind, defineLoc := loc } :=
  ⟨by intro e he; simp at he, by intro e he; simp at he, by intro e he; simp at he⟩

theorem MulticlassOK.empty (z : Sizes) (name : String) (loc : FileRange) :
    MulticlassOK z { name := name, defineLoc := loc } :=
  ⟨by intro e he; simp at he, by intro e he; simp at he⟩

theorem DefmOK.empty (z : Sizes) (name : String) (loc : FileRange) :
    DefmOK z { name := name, defineLoc := loc } := by intro e he; simp at he

theorem DefsetOK.empty (z : Sizes) (name : String) (t : Ty) (loc : FileRange) :
    DefsetOK z { name := name, typ := t, defineLoc := loc } := by intro e he; simp at he


/-! ### the specific entry updates of the indexer -/

theorem SymMap.record_mem' (sm : SymMap) {id : Nat} (h : id < sm.recordList.size) :
    sm.record id ∈ sm.recordList.toList := sm.record_mem h

theorem recordMut_insertTa_step {c : IndexCtx} (hi : Inv c) (rid : Nat) (name : String) {taId : Nat}
    (hta : taId < c.symbolMap.sizes.tas)
    (hfile : rid < c.symbolMap.recordList.size → (c.symbolMap.record rid).kind = .cls →
      (c.symbolMap.templateArg taId).defineLoc.file = (c.symbolMap.record rid).defineLoc.file)
    (hnm : (c.symbolMap.templateArg taId).name = name) :
    Holds (recordMut rid fun rec => { rec with nameToTemplateArg := indexMapInsert rec.nameToTemplateArg name taId }) c
      (fun _ c' => PostV c c') := by
  refine recordMut_step hi rid (fun rec hrec => hrec.insertTa name hta) (fun _ => rfl) (fun _ => rfl) ?_ ?_
    (fun _ => rfl) ?_ ?_
  · intro hlt hk e he
    rcases indexMapInsert_mem he with he | rfl
    · exact hi.files.recTas _ (c.symbolMap.record_mem hlt) hk e he
    · exact hfile hlt hk
  · intro hlt e he
    exact hi.files.recFlds _ (c.symbolMap.record_mem hlt) e he
  · intro hlt e he
    rcases indexMapInsert_mem he with he | rfl
    · exact hi.names.recTas _ (c.symbolMap.record_mem hlt) e he
    · exact hnm
  · intro hlt e he
    exact hi.names.recFlds _ (c.symbolMap.record_mem hlt) e he

theorem recordMut_insertField_step {c : IndexCtx} (hi : Inv c) (rid : Nat) (name : String) {fid : Nat}
    (hfid : fid < c.symbolMap.sizes.flds)
    (hfile : rid < c.symbolMap.recordList.size →
      (c.symbolMap.recordField fid).defineLoc.file = (c.symbolMap.record rid).defineLoc.file)
    (hnm : (c.symbolMap.recordField fid).name = name) :
    Holds (recordMut rid fun rec => { rec with nameToRecordField := indexMapInsert rec.nameToRecordField name fid }) c
      (fun _ c' => PostV c c') := by
  refine recordMut_step hi rid (fun rec hrec => hrec.insertField name hfid) (fun _ => rfl) (fun _ => rfl) ?_ ?_
    (fun _ => rfl) ?_ ?_
  · intro hlt hk e he
    exact hi.files.recTas _ (c.symbolMap.record_mem hlt) hk e he
  · intro hlt e he
    rcases indexMapInsert_mem he with he | rfl
    · exact hi.files.recFlds _ (c.symbolMap.record_mem hlt) e he
    · exact hfile hlt
  · intro hlt e he
    exact hi.names.recTas _ (c.symbolMap.record_mem hlt) e he
  · intro hlt e he
    rcases indexMapInsert_mem he with he | rfl
    · exact hi.names.recFlds _ (c.symbolMap.record_mem hlt) e he
    · exact hnm

theorem recordMut_pushParent_step {c : IndexCtx} (hi : Inv c) (rid : Nat) {pid : Nat}
    (hp : pid < c.symbolMap.sizes.recs) :
    Holds (recordMut rid fun rec => { rec with parentList := rec.parentList.push pid }) c
      (fun _ c' => PostV c c') := by
  refine recordMut_step hi rid (fun rec hrec => hrec.pushParent hp) (fun _ => rfl) (fun _ => rfl) ?_ ?_
    (fun _ => rfl) ?_ ?_
  · intro hlt hk e he
    exact hi.files.recTas _ (c.symbolMap.record_mem hlt) hk e he
  · intro hlt e he
    exact hi.files.recFlds _ (c.symbolMap.record_mem hlt) e he
  · intro hlt e he
    exact hi.names.recTas _ (c.symbolMap.record_mem hlt) e he
  · intro hlt e he
    exact hi.names.recFlds _ (c.symbolMap.record_mem hlt) e he

theorem multiclassMut_insertTa_step {c : IndexCtx} (hi : Inv c) (mid : Nat) (name : String) {taId : Nat}
    (hta : taId < c.symbolMap.sizes.tas)
    (hfile : mid < c.symbolMap.multiclassList.size →
      (c.symbolMap.templateArg taId).defineLoc.file = (c.symbolMap.multiclass mid).defineLoc.file)
    (hnm : (c.symbolMap.templateArg taId).name = name) :
    Holds (multiclassMut mid fun mc => { mc with nameToTemplateArg := indexMapInsert mc.nameToTemplateArg name taId }) c
      (fun _ c' => PostV c c') := by
  refine multiclassMut_step hi mid (fun mc hmc => hmc.insertTa name hta) (fun _ => rfl) ?_ (fun _ => rfl) ?_
  · intro hlt e he
    rcases indexMapInsert_mem he with he | rfl
    · exact hi.files.mcTas _ (c.symbolMap.multiclass_mem hlt) e he
    · exact hfile hlt
  · intro hlt e he
    rcases indexMapInsert_mem he with he | rfl
    · exact hi.names.mcTas _ (c.symbolMap.multiclass_mem hlt) e he
    · exact hnm

theorem multiclassMut_pushParent_step {c : IndexCtx} (hi : Inv c) (mid : Nat) {pid : Nat}
    (hp : pid < c.symbolMap.sizes.mcs) :
    Holds (multiclassMut mid fun mc => { mc with parentList := mc.parentList.push pid }) c
      (fun _ c' => PostV c c') := by
  refine multiclassMut_step hi mid (fun mc hmc => hmc.pushParent hp) (fun _ => rfl) ?_ (fun _ => rfl) ?_
  · intro hlt e he
    exact hi.files.mcTas _ (c.symbolMap.multiclass_mem hlt) e he
  · intro hlt e he
    exact hi.names.mcTas _ (c.symbolMap.multiclass_mem hlt) e he

theorem defmMut_pushParent_step {c : IndexCtx} (hi : Inv c) (did : Nat) {pid : Nat}
    (hp : pid < c.symbolMap.sizes.mcs) :
    Holds (defmMut did fun d => { d with parentList := d.parentList.push pid }) c
      (fun _ c' => PostV c c') :=
  defmMut_step hi did (fun d hd => hd.pushParent hp) (fun _ => rfl) (fun _ => rfl)

theorem defsetMut_pushDef_step {c : IndexCtx} (hi : Inv c) (dsid : Nat) {x : Nat}
    (hx : x < c.symbolMap.sizes.recs)
    (hfile : dsid < c.symbolMap.defsetList.size →
      (c.symbolMap.record x).defineLoc.file = (c.symbolMap.defset dsid).defineLoc.file) :
    Holds (defsetMut dsid fun ds => { ds with defList := ds.defList.push x }) c
      (fun _ c' => PostV c c') := by
  refine defsetMut_step hi dsid (fun ds hds => hds.pushDef hx) (fun _ => rfl) ?_ (fun _ => rfl)
  intro hlt y hy
  simp only [Array.toList_push, List.mem_append, List.mem_singleton] at hy
  rcases hy with hy | rfl
  · exact hi.files.dsDefs _ (c.symbolMap.defset_mem hlt) y hy
  · exact hfile hlt

/-! ### what the functions that attach entries to the enclosing record / multiclass assume -/

/-- the innermost record scope is `rid`, a record defined in the current file -/
structure RecCtx (c0 : IndexCtx) (rid : Nat) : Prop where
  cur : c0.scopes.currentRecordId = some rid
  valid : rid < c0.symbolMap.recordList.size
  file : c0.fileTrace.head? = some (c0.symbolMap.record rid).defineLoc.file

theorem currentRecordId_same {c0 c : IndexCtx} (h : c.scopes.kinds = c0.scopes.kinds) :
    c.scopes.currentRecordId = c0.scopes.currentRecordId := by
  rw [currentRecordId_eq, currentRecordId_eq, h]

theorem currentMulticlassId_same {c0 c : IndexCtx} (h : c.scopes.kinds = c0.scopes.kinds) :
    c.scopes.currentMulticlassId = c0.scopes.currentMulticlassId := by
  rw [currentMulticlassId_eq, currentMulticlassId_eq, h]

theorem RecCtx.now {c0 c : IndexCtx} {rid : Nat} (hc : RecCtx c0 rid) (h : PostV c0 c) :
    c.scopes.currentRecordId = some rid ∧ rid < c.symbolMap.recordList.size ∧
    c.fileTrace.head? = some (c.symbolMap.record rid).defineLoc.file := by
  refine ⟨(currentRecordId_same h.same).trans hc.cur, Nat.lt_of_lt_of_le hc.valid h.ext.sizes.recs, ?_⟩
  rw [h.ext.trace, h.ext.sm.recLoc rid hc.valid]
  exact hc.file

/-- a template argument is attached to the innermost record scope if there is one, else to the
innermost multiclass scope: a class or multiclass that gets it is defined in the current file -/
structure TaCtx (c0 : IndexCtx) : Prop where
  has : HasKind isRecOrMcKind c0
  recd : ∀ rid, c0.scopes.currentRecordId = some rid → rid < c0.symbolMap.recordList.size ∧
    ((c0.symbolMap.record rid).kind = .cls → c0.fileTrace.head? = some (c0.symbolMap.record rid).defineLoc.file)
  mc : c0.scopes.currentRecordId = none → ∀ m, c0.scopes.currentMulticlassId = some m →
    m < c0.symbolMap.multiclassList.size ∧ c0.fileTrace.head? = some (c0.symbolMap.multiclass m).defineLoc.file

theorem RecCtx.taCtx {c0 : IndexCtx} {rid : Nat} (hc : RecCtx c0 rid) : TaCtx c0 := by
  refine ⟨?_, ?_, ?_⟩
  · have := hc.cur
    rw [currentRecordId_eq] at this
    obtain ⟨k, hk, hkr⟩ := List.exists_of_findSome?_eq_some this
    refine ⟨k, hk, ?_⟩
    cases k <;> simp_all [kindRecordId, isRecOrMcKind]
  · intro rid' h'
    rw [hc.cur] at h'
    cases h'
    exact ⟨hc.valid, fun _ => hc.file⟩
  · intro h'
    rw [hc.cur] at h'
    cases h'

theorem Fits.sameBase {k : Nat} {c c1 : IndexCtx} {n : PTree} (hb : SameBase c c1) (h : Fits k c n) : Fits k c1 n := by
  obtain ⟨f, hf, hd⟩ := h.cur
  refine ⟨h.isNode, ⟨f, by rw [hb.trace]; exact hf, by rw [hb.ws]; exact hd⟩, h.spans, ?_⟩
  have : pending c1 = pending c := by unfold pending; rw [hb.ws, hb.indexed]
  rw [this]; exact h.fuel

theorem LocIn.sameBase {c c1 : IndexCtx} {loc : FileRange} (hb : SameBase c c1) (h : LocIn c loc) : LocIn c1 loc := by
  obtain ⟨hf, t, ht⟩ := h
  exact ⟨by rw [hb.trace]; exact hf, t, by rw [hb.ws]; exact ht⟩

/-- the state right after `scopesPush (.record rid)` of a record defined in the current file -/
theorem RecCtx.of_push {c c1 : IndexCtx} {rid : Nat}
    (h1 : c1 = { c with scopes := c.scopes.push (.record rid) }) (hv : rid < c.symbolMap.recordList.size)
    (hf : c.fileTrace.head? = some (c.symbolMap.record rid).defineLoc.file) : RecCtx c1 rid := by
  subst h1
  refine ⟨?_, hv, hf⟩
  rw [currentRecordId_eq]
  simp only [Scopes.kinds, Scopes.push, List.map_cons, List.findSome?_cons, kindRecordId]

/-! ### the recursion knot -/

/-- the re-entrant functions behave on every node that fits the fuel `k`.  The value-level ones
(`value`, `typ`) leave the scope stack as it was; the statement-level ones are only entered where no
class scope is open. -/
structure RecOK (r : Rec) (k : Nat) : Prop where
  sourceFile : ∀ {c0 c : IndexCtx} {n : PTree}, Post c0 c → clsFree c0 → Fits k c0 n →
    Holds (r.sourceFile n) c (fun _ c' => Post c0 c')
  statementList : ∀ {c0 c : IndexCtx} {n : PTree}, Post c0 c → clsFree c0 → Fits k c0 n →
    Holds (r.statementList n) c (fun _ c' => Post c0 c')
  valueV : ∀ {c0 c : IndexCtx} {n : PTree}, PostV c0 c → Fits k c0 n →
    Holds (r.value n) c (fun _ c' => PostV c0 c')
  typV : ∀ {c0 c : IndexCtx} {n : PTree}, PostV c0 c → Fits k c0 n →
    Holds (r.typ n) c (fun _ c' => PostV c0 c')

theorem RecOK.value {r : Rec} {k : Nat} (hr : RecOK r k) {c0 c : IndexCtx} {n : PTree} (h : Post c0 c)
    (hn : Fits k c0 n) : Holds (r.value n) c (fun _ c' => Post c0 c') :=
  Holds.post' h (hr.valueV (PostV.refl h.inv) (hn.ext h.ext))

theorem RecOK.typ {r : Rec} {k : Nat} (hr : RecOK r k) {c0 c : IndexCtx} {n : PTree} (h : Post c0 c)
    (hn : Fits k c0 n) : Holds (r.typ n) c (fun _ c' => Post c0 c') :=
  Holds.post' h (hr.typV (PostV.refl h.inv) (hn.ext h.ext))

theorem withSM_spec {α : Type} (f : SymMap → α) {c : IndexCtx} :
    Holds (withSM f) c (fun a c' => c = c' ∧ a = f c.symbolMap) := ⟨_, _, rfl, rfl, rfl⟩


/-- re-anchor at the current state (to relate the final state to the current one), then weaken -/
theorem Holds.local_anchor {α : Type} {c0 c : IndexCtx} {m : IxM α} {R : α → IndexCtx → Prop} (h : Post c0 c)
    (hm : Holds m c (fun a c' => Post c c' ∧ R a c')) : Holds m c (fun a c' => Post c0 c' ∧ R a c') :=
  hm.mono (fun _ _ hp => ⟨h.trans hp.1, hp.2⟩)


end Ide
end Tg
