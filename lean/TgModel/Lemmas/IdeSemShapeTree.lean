/-
The body-node facts (`IdeSemShape.lean`) on the annotated trees of a workspace: `PBodied`, transfer
from the green tree, `buildWorkspace_bodied`, and what the AST accessors return on bodied nodes.
-/
import TgModel.Lemmas.IdeSemShape
import TgModel.Lemmas.IdeSemTree
namespace Tg
namespace Ide
open Tg.Bodied

/-! ### transfer to the annotated tree and to workspaces -/

/-- the node has the child nodes `required` lists for its kind -/
def PBodiedAt (t : PTree) : Prop :=
  ∀ r ∈ required t.kind, t.isNode = true → ∃ c ∈ t.children.toList, c.isNode = true ∧ c.kind = r

/-- every node of the tree has its required child nodes -/
inductive PBodied : PTree → Prop
  | mk (t : PTree) : PBodiedAt t → (∀ c ∈ t.children.toList, PBodied c) → PBodied t

theorem PBodied.at {t : PTree} (h : PBodied t) : PBodiedAt t := by cases h; assumption
theorem PBodied.child {t c : PTree} (h : PBodied t) (hc : c ∈ t.children.toList) : PBodied c := by
  cases h with | mk _ _ hch => exact hch c hc

theorem annotL_kinds : ∀ (ts : List Tree) (pos : Nat) (r : SyntaxKind), r ∈ nodeKinds ts →
    ∃ c ∈ annotL ts pos, c.isNode = true ∧ c.kind = r
  | [], _, _, h => by simp [nodeKinds] at h
  | .token k txt :: ts, pos, r, h => by
    simp only [nodeKinds] at h
    obtain ⟨c, hc, h1⟩ := annotL_kinds ts (ofTreeAt (.token k txt) pos).2 r h
    exact ⟨c, by simp only [annotL, List.mem_cons]; exact Or.inr hc, h1⟩
  | .node k cs :: ts, pos, r, h => by
    simp only [nodeKinds, List.mem_cons] at h
    rcases h with rfl | h
    · refine ⟨(ofTreeAt (.node r cs) pos).1, by simp [annotL], ?_, ?_⟩
      · exact (ofTreeAt_kind (.node r cs) pos).2
      · exact (ofTreeAt_kind (.node r cs) pos).1
    · obtain ⟨c, hc, h1⟩ := annotL_kinds ts (ofTreeAt (.node k cs) pos).2 r h
      exact ⟨c, by simp only [annotL, List.mem_cons]; exact Or.inr hc, h1⟩

theorem ofTreeAt_bodied : ∀ (t : Tree), bodied t → ∀ pos, PBodied (ofTreeAt t pos).1 := by
  intro t
  induction t using Tree.rec (motive_2 := fun ts => bodiedL ts → ∀ pos, ∀ c ∈ annotL ts pos, PBodied c) with
  | node k cs ih =>
    intro h pos
    simp only [bodied_node] at h
    refine PBodied.mk _ ?_ ?_
    · intro r hr _
      rw [(ofTreeAt_kind (.node k cs) pos).1] at hr
      rw [ofTreeAt_node_children]
      exact annotL_kinds cs pos r (h.1 r hr)
    · intro c hc
      rw [ofTreeAt_node_children] at hc
      exact ih h.2 pos c hc
  | token k txt =>
    intro _ pos
    refine PBodied.mk _ ?_ ?_
    · intro r _ hn
      simp [ofTreeAt, PTree.isNode] at hn
    · intro c hc
      simp [ofTreeAt_token_children] at hc
  | nil => rename_i hc; simp [annotL] at hc
  | cons t ts iht ihts =>
    rename_i h pos c hc
    simp only [bodiedL_cons] at h
    simp only [annotL, List.mem_cons] at hc
    rcases hc with rfl | hc
    · exact iht h.1 pos
    · exact ihts h.2 _ c hc

theorem parseFile_bodied {text : String} {t : PTree} {errs : List SynError}
    (h : parseFile text = .ok (t, errs)) : PBodied t := by
  unfold parseFile at h
  split at h
  · rename_i r hr
    cases h
    exact ofTreeAt_bodied _ (parse_bodied _ _ hr) 0
  · cases h
  · cases h

theorem defaultTree_bodied : PBodied (PTree.node .SourceFile 0 0 1 #[]) :=
  PBodied.mk _ (fun r hr _ => by simp [PTree.kind, required] at hr) (fun c hc => by simp [PTree.children] at hc)

def InfosP (P : PTree → Prop) (infos : Array (Option FileInfo)) : Prop := ∀ f, some f ∈ infos → P f.tree

theorem InfosP.push_none {P : PTree → Prop} {infos : Array (Option FileInfo)} (h : InfosP P infos) : InfosP P (infos.push none) := by
  intro f hf
  rcases Array.mem_push.1 hf with hf | hf
  · exact h f hf
  · cases hf

theorem assignOrGetFileId_infosP {P : PTree → Prop} (c : Collect) (p : String) (h : InfosP P c.infos) :
    InfosP P (c.assignOrGetFileId p).2.infos := by
  unfold Collect.assignOrGetFileId
  split
  · exact h
  · exact h.push_none

theorem resolveIncludeFile_infosP {P : PTree → Prop} (c : Collect) (ip : String) (dirs : List String) (h : InfosP P c.infos) :
    InfosP P (c.resolveIncludeFile ip dirs).2.infos := by
  induction dirs with
  | nil => exact h
  | cons d ds ih =>
    unfold Collect.resolveIncludeFile
    simp only
    split
    · exact assignOrGetFileId_infosP c _ h
    · exact ih

theorem InfosP.set {P : PTree → Prop} {infos : Array (Option FileInfo)} (h : InfosP P infos) (i : Nat) (f : FileInfo)
    (hf : P f.tree) : InfosP P (infos.set! i (some f)) := by
  intro g hg
  rw [Array.set!_eq_setIfInBounds] at hg
  rcases Array.mem_or_eq_of_mem_setIfInBounds hg with hg | hg
  · exact h g hg
  · cases hg; exact hf

theorem collectLoop_infosP {P : PTree → Prop}
    (hparseP : ∀ {text : String} {t : PTree} {errs : List SynError}, parseFile text = .ok (t, errs) → P t)
    (inc : Option String) (fuel : Nat) (c c' : Collect) (h : InfosP P c.infos)
    (hr : collectLoop inc fuel c = .ok c') : InfosP P c'.infos := by
  induction fuel generalizing c with
  | zero => cases hr
  | succ fuel ih =>
    unfold collectLoop at hr
    split at hr
    · cases hr; exact h
    · rename_i fileId queue hq
      simp only at hr
      split at hr
      · exact ih { c with queue := queue } h hr
      · split at hr
        · cases hr
        · rename_i tree errors hparse
          refine ih _ ?_ hr
          refine InfosP.set ?_ _ _ (hparseP hparse)
          -- the fold over the includes only assigns ids
          generalize (listIncludes tree) = incs
          have : ∀ (st : Collect × List ((Nat × Nat) × Nat)), InfosP P st.1.infos →
              InfosP P (incs.foldl (fun (st : Collect × List ((Nat × Nat) × Nat)) inc' =>
                match st.1.resolveIncludeFile inc'.2 ((Path.parent (c.paths.getD fileId "")).toList ++ (match inc with | some d => [d] | none => [])) with
                | (some id, c') => ({ c' with queue := c'.queue ++ [id] }, st.2 ++ [(inc'.1, id)])
                | (none, c') => (c', st.2)) st).1.infos := by
            induction incs with
            | nil => intro st hst; exact hst
            | cons x t iht =>
              intro st hst
              simp only [List.foldl_cons]
              apply iht
              have := resolveIncludeFile_infosP st.1 x.2 ((Path.parent (c.paths.getD fileId "")).toList ++ (match inc with | some d => [d] | none => [])) hst
              split
              · rename_i heq; rw [heq] at this; exact this
              · rename_i heq; rw [heq] at this; exact this
          exact this _ h

/-- a property of every parser output (and of the empty tree) holds for every tree of a workspace
built by `buildWorkspace` -/
theorem buildWorkspace_treesP {P : PTree → Prop}
    (hparseP : ∀ {text : String} {t : PTree} {errs : List SynError}, parseFile text = .ok (t, errs) → P t)
    (hdef : P (PTree.node .SourceFile 0 0 1 #[]))
    {vfs : List (String × String)} {rootPath : String} {inc : Option String}
    {ws : Workspace} (h : buildWorkspace vfs rootPath inc = .ok ws) : ∀ id, P (ws.tree id) := by
  unfold buildWorkspace at h
  simp only at h
  split at h
  · cases h
  · rename_i c hc
    cases h
    have hinfos : InfosP P c.infos := by
      refine collectLoop_infosP hparseP _ _ _ _ ?_ hc
      exact assignOrGetFileId_infosP _ _ (fun f hf => by simp at hf)
    intro id
    unfold Workspace.tree
    simp only
    split
    · rename_i f hf
      simp only [Array.getElem?_mapIdx] at hf
      cases hi : c.infos[id]? with
      | none => rw [hi] at hf; cases hf
      | some o =>
        rw [hi] at hf
        simp only [Option.map_some, Option.some.injEq] at hf
        cases o with
        | none => simp only at hf; subst hf; exact hdef
        | some g => simp only at hf; subst hf; exact hinfos g (Array.mem_of_getElem? hi)
    · exact hdef



/-- every tree of the workspace is bodied -/
def Workspace.AllBodied (ws : Workspace) : Prop := ∀ id, PBodied (ws.tree id)

theorem buildWorkspace_bodied {vfs : List (String × String)} {rootPath : String} {inc : Option String}
    {ws : Workspace} (h : buildWorkspace vfs rootPath inc = .ok ws) : ws.AllBodied :=
  buildWorkspace_treesP (P := PBodied) parseFile_bodied defaultTree_bodied h


theorem PBodied.child_isSome {n : PTree} (h : PBodied n) (hn : n.isNode = true) {r : SyntaxKind}
    (hr : r ∈ required n.kind) : (Ast.child n (Ast.is r)).isSome = true := by
  obtain ⟨c, hc, hcn, hck⟩ := h.at r hr hn
  unfold Ast.child
  rw [Array.find?_isSome]
  exact ⟨c, Array.mem_toList_iff.1 hc, by simp [hcn, hck, Ast.is]⟩

theorem Ast.child_mem {n c : PTree} {p : SyntaxKind → Bool} (h : Ast.child n p = some c) :
    c ∈ n.children.toList := by
  unfold Ast.child at h
  exact Array.mem_toList_iff.2 (Array.mem_of_find?_eq_some h)

theorem Ast.children_mem {n c : PTree} {p : SyntaxKind → Bool} (h : c ∈ Ast.children n p) :
    c ∈ n.children.toList ∧ c.isNode = true := by
  unfold Ast.children at h
  rw [Array.mem_toList_iff, Array.mem_filter] at h
  exact ⟨Array.mem_toList_iff.2 h.1, by simpa using (Bool.and_eq_true _ _ ▸ h.2 : _ ∧ _).1⟩

theorem Ast.nthChild_mem {n c : PTree} {p : SyntaxKind → Bool} {i : Nat} (h : Ast.nthChild n p i = some c) :
    c ∈ n.children.toList := by
  unfold Ast.nthChild at h
  exact (Ast.children_mem (List.mem_of_getElem? h)).1

end Ide
end Tg
