/-
The scope discipline of the indexer without assumptions: relations relative to a fixed workspace
whose trees are bodied (`Workspace.AllBodied`, true for every workspace built by `buildWorkspace`),
the balance of every block construct, `RecW (mkRec fuel)`, and the global theorems.
-/
import TgModel.Lemmas.IdeSemScope
import TgModel.Lemmas.IdeSemShapeTree
namespace Tg
namespace Ide
open Tg.Bodied

/-! ### relations relative to a fixed workspace -/

/-- started in workspace `ws0`: still there, and the scope stack is exactly as before -/
def WEq (ws0 : Workspace) (c c' : IndexCtx) : Prop := c.ws = ws0 → c'.ws = ws0 ∧ c'.scopes = c.scopes

/-- started in workspace `ws0`: still there, and the scope stack is as before up to variables added to
the innermost non-defset scope -/
def WExt (ws0 : Workspace) (c c' : IndexCtx) : Prop :=
  c.ws = ws0 → c'.ws = ws0 ∧ ScopesExt c.scopes c'.scopes

variable {ws0 : Workspace}

instance : StdRel (WEq ws0) where
  refl := fun _ h => ⟨h, rfl⟩
  trans := fun h1 h2 h => by
    obtain ⟨a, b⟩ := h1 h
    obtain ⟨a', b'⟩ := h2 a
    exact ⟨a', b'.trans b⟩
  of_eq := fun c c' hw _ hs h => ⟨hw.trans h, hs⟩
  sm := fun _ _ _ h => ⟨h, rfl⟩

instance : StdRel (WExt ws0) where
  refl := fun c h => ⟨h, ScopesExt.refl _⟩
  trans := fun h1 h2 h => by
    obtain ⟨a, b⟩ := h1 h
    obtain ⟨a', b'⟩ := h2 a
    exact ⟨a', ScopesExt.trans b b'⟩
  of_eq := fun c c' hw _ hs h => ⟨hw.trans h, by rw [hs]; exact ScopesExt.refl _⟩
  sm := fun c _ _ h => ⟨h, ScopesExt.refl _⟩

theorem WEq.toWExt {c c' : IndexCtx} (h : WEq ws0 c c') : WExt ws0 c c' := fun hw => by
  obtain ⟨a, b⟩ := h hw
  exact ⟨a, by rw [b]; exact ScopesExt.refl _⟩

theorem Keeps.toWExt {α : Type} {m : IxM α} (h : Keeps (WEq ws0) m) : Keeps (WExt ws0) m :=
  Keeps.mono (fun _ _ => WEq.toWExt) h

theorem scopesAddVariable_ws (v : Variable) (c c' : IndexCtx) (a : Unit)
    (h : (scopesAddVariable v).run c = .ok (a, c')) : c'.ws = c.ws := by
  unfold scopesAddVariable addVariable modifySM at h
  simp only [StateT.run_bind, IxM.run_modifyGet, Except.ok_bind] at h
  cases hi : c.scopes.insertVariable v.name (c.symbolMap.addVariable v).1 with
  | none => simp only [hi] at h; cases h
  | some s => simp only [hi] at h; cases h; rfl

instance : VarRel (WExt ws0) where
  addVariable := fun v => ⟨fun c a c' h hw => by
    obtain ⟨s', h1, h2⟩ := scopesAddVariable_run v c c' a h
    refine ⟨(scopesAddVariable_ws v c c' a h).trans hw, ?_⟩
    rw [h2]
    exact insertVariable_ext h1⟩

/-! ### triples -/

/-- in workspace `ws0` with scope stack `s0` -/
def AtW (ws0 : Workspace) (s0 : Scopes) (c : IndexCtx) : Prop := c.ws = ws0 ∧ c.scopes = s0

def InBlockW (ws0 : Workspace) (s0 : Scopes) (k : ScopeKind) (c : IndexCtx) : Prop :=
  c.ws = ws0 ∧ Scopes.isDefsetKind k = false ∧ ScopesExt (s0.push k) c.scopes

def AtExtW (ws0 : Workspace) (s0 : Scopes) (c : IndexCtx) : Prop := c.ws = ws0 ∧ ScopesExt s0 c.scopes

def InDefsetW (ws0 : Workspace) (s0 : Scopes) (id : Nat) (c : IndexCtx) : Prop :=
  c.ws = ws0 ∧ ∃ s1, ScopesExt s0 s1 ∧ ScopesExt (s1.push (.defset id)) c.scopes

namespace W

theorem seq_at {α : Type} {m : IxM α} (h : Keeps (WEq ws0) m) (s0 : Scopes) :
    Triple (AtW ws0 s0) m (AtW ws0 s0) :=
  Triple.of_keeps h fun c c' hp hr => by
    obtain ⟨a, b⟩ := hr hp.1
    exact ⟨a, b.trans hp.2⟩

theorem ext_in {α : Type} {m : IxM α} (h : Keeps (WExt ws0) m) (s0 : Scopes) (k : ScopeKind) :
    Triple (InBlockW ws0 s0 k) m (InBlockW ws0 s0 k) :=
  Triple.of_keeps h fun c c' hp hr => by
    obtain ⟨a, b⟩ := hr hp.1
    exact ⟨a, hp.2.1, ScopesExt.trans hp.2.2 b⟩

theorem ext_at {α : Type} {m : IxM α} (h : Keeps (WExt ws0) m) (s0 : Scopes) :
    Triple (AtExtW ws0 s0) m (AtExtW ws0 s0) :=
  Triple.of_keeps h fun c c' hp hr => by
    obtain ⟨a, b⟩ := hr hp.1
    exact ⟨a, ScopesExt.trans hp.2 b⟩

theorem ext_inDefset {α : Type} {m : IxM α} (h : Keeps (WExt ws0) m) (s0 : Scopes) (id : Nat) :
    Triple (InDefsetW ws0 s0 id) m (InDefsetW ws0 s0 id) :=
  Triple.of_keeps h fun c c' hp hr => by
    obtain ⟨a, b⟩ := hr hp.1
    obtain ⟨s1, h1, h2⟩ := hp.2
    exact ⟨a, s1, h1, ScopesExt.trans h2 b⟩

theorem push (s0 : Scopes) (k : ScopeKind) (hk : Scopes.isDefsetKind k = false) :
    Triple (AtW ws0 s0) (scopesPush k) (InBlockW ws0 s0 k) :=
  ⟨fun c a c' hp h => by
    unfold scopesPush at h
    rw [IxM.run_modify] at h
    cases h
    refine ⟨hp.1, hk, ?_⟩
    simp only
    rw [hp.2]
    exact ScopesExt.refl _⟩

theorem scopesPop_ws {c c' : IndexCtx} {a : Unit} (h : scopesPop.run c = .ok (a, c')) : c'.ws = c.ws := by
  unfold scopesPop at h
  simp only [StateT.run_bind, IxM.run_get, Except.ok_bind] at h
  cases hs : c.scopes.pop with
  | none => simp only [hs] at h; cases h
  | some s => simp only [hs, IxM.run_modify] at h; cases h; rfl

theorem pop (s0 : Scopes) (k : ScopeKind) : Triple (InBlockW ws0 s0 k) scopesPop (AtW ws0 s0) :=
  ⟨fun c a c' hp h => by
    refine ⟨(scopesPop_ws h).trans hp.1, ?_⟩
    exact (Triple.pop s0 k).run c a c' ⟨hp.2.1, hp.2.2⟩ h⟩

theorem pushDefset (s0 : Scopes) (id : Nat) :
    Triple (AtExtW ws0 s0) (scopesPush (.defset id)) (InDefsetW ws0 s0 id) :=
  ⟨fun c a c' hp h => by
    refine ⟨?_, (Triple.pushDefset s0 id).run c a c' hp.2 h⟩
    unfold scopesPush at h
    rw [IxM.run_modify] at h
    cases h
    exact hp.1⟩

theorem popDefset (s0 : Scopes) (id : Nat) : Triple (InDefsetW ws0 s0 id) scopesPop (AtExtW ws0 s0) :=
  ⟨fun c a c' hp h => ⟨(scopesPop_ws h).trans hp.1, (Triple.popDefset s0 id).run c a c' hp.2 h⟩⟩

theorem keeps_weq_of_triples {α : Type} {m : IxM α} (h : ∀ s0, Triple (AtW ws0 s0) m (AtW ws0 s0)) :
    Keeps (WEq ws0) m :=
  ⟨fun c a c' hr hw => (h c.scopes).run c a c' ⟨hw, rfl⟩ hr⟩

theorem keeps_wext_of_triples {α : Type} {m : IxM α} (h : ∀ s0, Triple (AtExtW ws0 s0) m (AtExtW ws0 s0)) :
    Keeps (WExt ws0) m :=
  ⟨fun c a c' hr hw => (h c.scopes).run c a c' ⟨hw, ScopesExt.refl _⟩ hr⟩

end W

/-- one step of a triple proof for push … pop code; `s0` is the stack outside -/
macro "wtriple_step" s0:term : tactic => `(tactic| first
  | with_reducible exact Triple.pure _
  | with_reducible exact W.pop $s0 _
  | focus ((with_reducible (refine Triple.bind (W.push $s0 _ ?_) fun _ => ?_)); focus rfl)
  | with_reducible (refine Triple.bind (W.pop $s0 _) fun _ => ?_)
  | focus (with_reducible (refine Triple.bind (W.seq_at ?_ $s0) fun _ => ?_); focus (keeps; done))
  | focus (with_reducible (refine Triple.bind (W.ext_in ?_ $s0 _) fun _ => ?_); focus (keeps; done))
  | split
  | focus (with_reducible (refine W.seq_at ?_ $s0); focus (keeps; done))
  | focus (with_reducible (refine W.ext_in ?_ $s0 _); focus (keeps; done)))

macro "wtriples" s0:term : tactic => `(tactic| repeat' (wtriple_step $s0))

/-! ### values: unconditionally balanced -/

section expr
variable {ws0 : Workspace} {r : Rec}
  (hv : ∀ n, Keeps (WEq ws0) (r.value n)) (ht : ∀ n, Keeps (WEq ws0) (r.typ n))
include hv ht

theorem xForEach_w (n : PTree) : Keeps (WEq ws0) (Bang.xForEach r n) := by
  apply W.keeps_weq_of_triples; intro s0
  have hv' : ∀ n, Keeps (WExt ws0) (r.value n) := fun n => (hv n).toWExt
  have ht' : ∀ n, Keeps (WExt ws0) (r.typ n) := fun n => (ht n).toWExt
  unfold Bang.xForEach
  wtriples s0
macro_rules | `(tactic| keeps_prim) => `(tactic| (apply xForEach_w <;> assumption))

theorem xFilter_w (n : PTree) : Keeps (WEq ws0) (Bang.xFilter r n) := by
  apply W.keeps_weq_of_triples; intro s0
  have hv' : ∀ n, Keeps (WExt ws0) (r.value n) := fun n => (hv n).toWExt
  have ht' : ∀ n, Keeps (WExt ws0) (r.typ n) := fun n => (ht n).toWExt
  unfold Bang.xFilter
  wtriples s0
macro_rules | `(tactic| keeps_prim) => `(tactic| (apply xFilter_w <;> assumption))

theorem xFoldl_w (n : PTree) : Keeps (WEq ws0) (Bang.xFoldl r n) := by
  apply W.keeps_weq_of_triples; intro s0
  have hv' : ∀ n, Keeps (WExt ws0) (r.value n) := fun n => (hv n).toWExt
  have ht' : ∀ n, Keeps (WExt ws0) (r.typ n) := fun n => (ht n).toWExt
  unfold Bang.xFoldl
  wtriples s0
macro_rules | `(tactic| keeps_prim) => `(tactic| (apply xFoldl_w <;> assumption))

theorem indexBangOperator_w (n : PTree) : Keeps (WEq ws0) (Bang.indexBangOperator r n) := by
  unfold Bang.indexBangOperator
  keeps
macro_rules | `(tactic| keeps_prim) => `(tactic| (apply indexBangOperator_w <;> assumption))

theorem indexSimpleValue_w (n : PTree) : Keeps (WEq ws0) (Index.indexSimpleValue r n) := by
  unfold Index.indexSimpleValue
  keeps
macro_rules | `(tactic| keeps_prim) => `(tactic| (apply indexSimpleValue_w <;> assumption))

theorem indexInnerValue_w (n : PTree) : Keeps (WEq ws0) (Index.indexInnerValue r n) := by
  unfold Index.indexInnerValue
  keeps
macro_rules | `(tactic| keeps_prim) => `(tactic| (apply indexInnerValue_w <;> assumption))

theorem indexValue_w (n : PTree) : Keeps (WEq ws0) (Index.indexValue r n) := by
  unfold Index.indexValue
  keeps

end expr

/-! ### statements -/

/-- the re-entrant impls respect the scope discipline on bodied trees -/
structure RecW (ws0 : Workspace) (r : Rec) : Prop where
  value : ∀ n, Keeps (WEq ws0) (r.value n)
  typ : ∀ n, Keeps (WEq ws0) (r.typ n)
  statementList : ∀ n, PBodied n → Keeps (WExt ws0) (r.statementList n)
  sourceFile : ∀ n, PBodied n → Keeps (WExt ws0) (r.sourceFile n)

theorem isSome_elim {α : Type} {o : Option α} (h : o.isSome = true) (hnone : ∀ x, o = some x → False) : False := by
  cases o with
  | none => cases h
  | some x => exact hnone x rfl

section stmt
variable {ws0 : Workspace} {r : Rec} (hr : RecW ws0 r)
include hr

theorem RecW.valueExt (n : PTree) : Keeps (WExt ws0) (r.value n) := (hr.value n).toWExt
theorem RecW.typExt (n : PTree) : Keeps (WExt ws0) (r.typ n) := (hr.typ n).toWExt

theorem indexIf_w (n : PTree) (hn : PBodied n) : Keeps (WEq ws0) (Index.indexIf r n) := by
  apply W.keeps_weq_of_triples; intro s0
  unfold Index.indexIf
  split
  · refine Triple.bind (W.seq_at (hr.value _) s0) fun _ => ?_
    split
    · rename_i tb htb
      refine Triple.bind (W.push s0 _ rfl) fun _ => ?_
      refine Triple.bind (W.ext_in (hr.statementList _ (hn.child (Ast.nthChild_mem htb))) s0 _) fun _ => ?_
      refine Triple.bind (W.pop s0 _) fun _ => ?_
      split
      · rename_i eb heb
        refine Triple.bind (W.push s0 _ rfl) fun _ => ?_
        refine Triple.bind (W.ext_in (hr.statementList _ (hn.child (Ast.nthChild_mem heb))) s0 _) fun _ => ?_
        exact W.pop s0 _
      · exact Triple.pure _
    · exact Triple.pure _
  · exact Triple.pure _

theorem indexLet_w (n : PTree) (hn : PBodied n) : Keeps (WEq ws0) (Index.indexLet r n) := by
  apply W.keeps_weq_of_triples; intro s0
  unfold Index.indexLet
  split
  · refine Triple.bind (W.seq_at (Index.indexLetList_keeps hr.value hr.typ _) s0) fun _ => ?_
    split
    · rename_i sl hsl
      refine Triple.bind (W.push s0 _ rfl) fun _ => ?_
      refine Triple.bind (W.ext_in (hr.statementList _ (hn.child (Ast.child_mem hsl))) s0 _) fun _ => ?_
      exact W.pop s0 _
    · exact Triple.pure _
  · exact Triple.pure _

theorem indexForeach_w (n : PTree) (hn : PBodied n) (hnode : n.isNode = true) (hk : n.kind = .Foreach) :
    Keeps (WEq ws0) (Index.indexForeach r n) := by
  have hbody : (Ast.foreachBody n).isSome = true := hn.child_isSome hnode (by rw [hk]; simp [required])
  apply W.keeps_weq_of_triples; intro s0
  unfold Index.indexForeach
  split
  · refine Triple.bind (W.seq_at (Index.indexForeachIterator_keeps hr.value hr.typ _) s0) fun _ => ?_
    split
    · refine Triple.bind (W.push s0 _ rfl) fun _ => ?_
      split
      · rename_i b hb
        refine Triple.bind (W.ext_in (hr.statementList _ (hn.child (Ast.child_mem hb))) s0 _) fun _ => ?_
        exact W.pop s0 _
      · rename_i hnone
        exact (isSome_elim hbody fun x hx => hnone x hx).elim
    · exact Triple.pure _
  · exact Triple.pure _

theorem indexDefset_w (n : PTree) (hn : PBodied n) : Keeps (WExt ws0) (Index.indexDefset r n) := by
  apply W.keeps_wext_of_triples; intro s0
  unfold Index.indexDefset
  split
  · refine Triple.bind (W.ext_at (utilsIdentifier_keeps _) s0) fun _ => ?_
    split
    · split
      · refine Triple.bind (W.ext_at (hr.typExt _) s0) fun _ => ?_
        split
        · refine Triple.bind (W.ext_at (addDefset_keeps _) s0) fun _ => ?_
          refine Triple.bind (W.pushDefset s0 _) fun _ => ?_
          dsimp only
          split
          · rename_i sl hsl
            refine Triple.bind (W.ext_inDefset (hr.statementList _ (hn.child (Ast.child_mem hsl))) s0 _) fun _ => ?_
            refine Triple.bind (W.popDefset s0 _) fun _ => ?_
            exact W.ext_at (registerDefsetName_keeps _) s0
          · refine Triple.bind (W.popDefset s0 _) fun _ => ?_
            exact W.ext_at (registerDefsetName_keeps _) s0
        · exact Triple.pure _
      · exact Triple.pure _
    · exact Triple.pure _
  · exact Triple.pure _

theorem indexClass_w (n : PTree) : Keeps (WEq ws0) (Index.indexClass r n) := by
  apply W.keeps_weq_of_triples; intro s0
  have hv := hr.value; have ht := hr.typ; have hv' := hr.valueExt; have ht' := hr.typExt
  unfold Index.indexClass
  dsimp only
  wtriples s0

theorem indexDef_w (n : PTree) (hn : PBodied n) (hnode : n.isNode = true) (hk : n.kind = .Def) :
    Keeps (WEq ws0) (Index.indexDef r n) := by
  have hbody : (Ast.defRecordBody n).isSome = true := hn.child_isSome hnode (by rw [hk]; simp [required])
  apply W.keeps_weq_of_triples; intro s0
  have hv := hr.value; have ht := hr.typ; have hv' := hr.valueExt; have ht' := hr.typExt
  unfold Index.indexDef
  dsimp only
  wtriples s0
  all_goals
    rename_i hnone
    exact (isSome_elim hbody fun x hx => hnone x hx).elim

theorem indexDefm_w (n : PTree) (hn : PBodied n) (hnode : n.isNode = true) (hk : n.kind = .Defm) :
    Keeps (WEq ws0) (Index.indexDefm r n) := by
  have hbody : (Ast.defmParentClassList n).isSome = true := hn.child_isSome hnode (by rw [hk]; simp [required])
  apply W.keeps_weq_of_triples; intro s0
  have hv := hr.value; have ht := hr.typ; have hv' := hr.valueExt; have ht' := hr.typExt
  unfold Index.indexDefm
  dsimp only
  wtriples s0
  all_goals
    rename_i hnone
    exact (isSome_elim hbody fun x hx => hnone x hx).elim

end stmt

theorem keeps_bind_get_w {ws0 : Workspace} {β : Type} {f : IndexCtx → IxM β}
    (h : ∀ c0, c0.ws = ws0 → Keeps (WExt ws0) (f c0)) : Keeps (WExt ws0) ((MonadState.get : IxM IndexCtx) >>= f) := by
  refine ⟨fun c b c' hrun hw => ?_⟩
  simp only [StateT.run_bind, IxM.run_get, Except.ok_bind] at hrun
  exact (h c hw).run c b c' hrun hw

theorem sourceFileCast_eq {t sf : PTree} (h : Ast.sourceFileCast t = some sf) : sf = t := by
  unfold Ast.sourceFileCast at h
  split at h
  · cases h; rfl
  · cases h

section stmt2
variable {ws0 : Workspace} {r : Rec} (hr : RecW ws0 r)
include hr

theorem indexMultiClass_w (n : PTree) (hn : PBodied n) : Keeps (WEq ws0) (Index.indexMultiClass r n) := by
  apply W.keeps_weq_of_triples; intro s0
  unfold Index.indexMultiClass
  dsimp only
  split
  · refine Triple.bind (W.seq_at (utilsIdentifier_keeps _) s0) fun _ => ?_
    split
    · refine Triple.bind (W.seq_at (addMulticlass_keeps _ rfl) s0) fun mcId => ?_
      refine Triple.bind (W.push s0 _ rfl) fun _ => ?_
      have tail3 : Triple (InBlockW ws0 s0 (ScopeKind.multiclass mcId))
          (match Ast.multiClassStatementList n with
            | some statementList => do
              r.statementList statementList
              scopesPop
            | _ => scopesPop) (AtW ws0 s0) := by
        split
        · rename_i sl hsl
          refine Triple.bind (W.ext_in (hr.statementList _ (hn.child (Ast.child_mem hsl))) s0 _) fun _ => ?_
          exact W.pop s0 _
        · exact W.pop s0 _
      have tail2 : Triple (InBlockW ws0 s0 (ScopeKind.multiclass mcId))
          (match Ast.multiClassParentClassList n with
            | some parentClassList => do
              Index.indexParentClassList r parentClassList
              match Ast.multiClassStatementList n with
                | some statementList => do
                  r.statementList statementList
                  scopesPop
                | _ => scopesPop
            | _ =>
              match Ast.multiClassStatementList n with
              | some statementList => do
                r.statementList statementList
                scopesPop
              | _ => scopesPop) (AtW ws0 s0) := by
        split
        · refine Triple.bind (W.ext_in (Index.indexParentClassList_keeps hr.valueExt hr.typExt _) s0 _) fun _ => ?_
          exact tail3
        · exact tail3
      split
      · refine Triple.bind (W.ext_in (Index.indexTemplateArgList_keeps hr.valueExt hr.typExt _) s0 _) fun _ => ?_
        exact tail2
      · exact tail2
    · exact Triple.pure _
  · exact Triple.pure _

theorem indexInclude_w (hb : ws0.AllBodied) (n : PTree) : Keeps (WExt ws0) (Index.indexInclude r n) := by
  unfold Index.indexInclude
  refine Keeps.bind currentFileId_keeps fun fileId => ?_
  refine keeps_bind_get_w fun c0 hc0 => ?_
  dsimp only
  split
  · keeps
  · refine Keeps.bind (markIndexed_keeps _) fun b => ?_
    split
    · keeps
    · split
      · rename_i sf hsf'
        refine Keeps.bind (pushFile_keeps _) fun _ => ?_
        refine Keeps.bind (hr.sourceFile _ ?_) fun _ => popFile_keeps
        rw [sourceFileCast_eq hsf', hc0]
        exact hb _
      · keeps

end stmt2

theorem keeps_forIn_mem {R : IndexCtx → IndexCtx → Prop} [KeepRel R] {β γ : Type} (l : List γ) (init : β)
    (body : γ → β → IxM (ForInStep β)) (hb : ∀ x ∈ l, ∀ s, Keeps R (body x s)) : Keeps R (ForIn.forIn l init body) := by
  induction l generalizing init with
  | nil => exact Keeps.pure init
  | cons x t ih =>
    rw [List.forIn_cons]
    refine Keeps.bind (hb x List.mem_cons_self init) ?_
    intro r
    cases r with
    | done b => exact Keeps.pure b
    | yield b => exact ih b fun y hy => hb y (List.mem_cons_of_mem _ hy)

section stmt3
variable {ws0 : Workspace} {r : Rec} (hr : RecW ws0 r) (hb : ws0.AllBodied)
include hr hb

theorem indexStatement_w (n : PTree) (hn : PBodied n) (hnode : n.isNode = true) :
    Keeps (WExt ws0) (Index.indexStatement r n) := by
  unfold Index.indexStatement
  split
  · exact indexInclude_w hr hb n
  · exact Index.indexAssert_keeps hr.valueExt hr.typExt n
  · exact (indexClass_w hr n).toWExt
  · exact (indexDef_w hr n hn hnode ‹_›).toWExt
  · exact (indexDefm_w hr n hn hnode ‹_›).toWExt
  · exact indexDefset_w hr n hn
  · exact Index.indexDefvar_keeps hr.valueExt hr.typExt n
  · exact Index.indexDump_keeps hr.valueExt hr.typExt n
  · exact (indexForeach_w hr n hn hnode ‹_›).toWExt
  · exact (indexIf_w hr n hn).toWExt
  · exact (indexLet_w hr n hn).toWExt
  · exact (indexMultiClass_w hr n hn).toWExt
  · exact Keeps.pure _

theorem indexStatementList_w (n : PTree) (hn : PBodied n) : Keeps (WExt ws0) (Index.indexStatementList r n) := by
  unfold Index.indexStatementList
  refine Keeps.bind (keeps_forIn_mem _ _ _ fun x hx s => ?_) fun _ => Keeps.pure _
  obtain ⟨hm, hnode⟩ := Ast.children_mem hx
  exact Keeps.bind (indexStatement_w hr hb x (hn.child hm) hnode) fun _ => Keeps.pure _

end stmt3

/-! ### the knot -/

section knotW
variable {ws0 : Workspace} (hb : ws0.AllBodied)
include hb

theorem indexSourceFile_w {r : Rec} (hr : RecW ws0 r) (n : PTree) (hn : PBodied n) :
    Keeps (WExt ws0) (Index.indexSourceFile r n) := by
  unfold Index.indexSourceFile
  split
  · rename_i l hl
    exact hr.statementList _ (hn.child (Ast.child_mem hl))
  · exact Keeps.pure _

/-- **the knot respects the scope discipline** (no assumptions left) -/
theorem mkRec_w (fuel : Nat) : RecW ws0 (Index.mkRec fuel) := by
  induction fuel with
  | zero => exact ⟨fun _ => Keeps.throw _, fun _ => Keeps.throw _, fun _ _ => Keeps.throw _, fun _ _ => Keeps.throw _⟩
  | succ fuel ih =>
    exact ⟨fun n => indexValue_w ih.value ih.typ n, fun n => Index.indexType_keeps ih.value ih.typ n,
      fun n hn => indexStatementList_w ih hb n hn, fun n hn => indexSourceFile_w hb ih n hn⟩

end knotW

/-- every node of a bodied tree is bodied -/
theorem SDesc.bodied {c d : Cursor} (h : SDesc c d) (hc : PBodied c.here) : PBodied d.here := by
  induction h with
  | refl => exact hc
  | step hm _ ih =>
    obtain ⟨i, hi⟩ := mem_childList.1 hm
    obtain ⟨hch, _⟩ := Cursor.child_here hi
    exact ih (hc.child (Array.mem_toList_iff.2 (Array.mem_of_getElem? hch)))


end Ide
end Tg
