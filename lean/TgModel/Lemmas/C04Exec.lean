/-
C04 forward direction, step 2: evaluation rules for the abstract interpreter (as rewrite rules
on states written as literals), so that contracts of grammar functions are proved by rewriting.
-/
import TgModel.Grammar
import TgModel.Lemmas.C04Abs
import TgModel.Lemmas.C04Frag

namespace Tg
namespace C04L
open Prog

/-- the abstract interpreter on the concrete grammar -/
abbrev ax : Nat → Prog → AState → Option AState := aexec Grammar.defs

/-- continuation of a `loop` after its condition ran -/
def loopK (n : Nat) (c b : Prog) (a1 : AState) : Option AState :=
  if a1.flag = true then (ax n b a1).bind (ax n (loop c b)) else some a1

/-- push node kinds (given in source order) onto a frame (most recent first) -/
def pushAll : List SyntaxKind → List SyntaxKind → List SyntaxKind
  | [], l => l
  | k :: ks, l => pushAll ks (k :: l)

theorem pushAll_eq (ks l : List SyntaxKind) : pushAll ks l = ks.reverse ++ l := by
  induction ks generalizing l with
  | nil => rfl
  | cons k ks ih => simp [pushAll, ih]

theorem pushAll_nil_reverse (ks : List SyntaxKind) : (pushAll ks []).reverse = ks := by
  simp [pushAll_eq]

/-- closing a node whose single accessor returns all children of the listed kinds -/
theorem good_all_push (k : SyntaxKind) (f : AstTable.Field) (hf : AstTable.fields k = some [f]) (hs : f.sel = .all)
    (ks : List SyntaxKind) (h : ∀ x ∈ ks, f.casts.contains x = true) :
    goodNode k (pushAll ks []).reverse = true := by
  rw [pushAll_nil_reverse]; exact goodNode_of_all k f hf hs ks h

theorem pushAll_reverse (ks l : List SyntaxKind) : (pushAll ks l).reverse = l.reverse ++ ks := by
  simp [pushAll_eq]

theorem pushAll_append (a b l : List SyntaxKind) : pushAll (a ++ b) l = pushAll b (pushAll a l) := by
  induction a generalizing l with
  | nil => rfl
  | cons k ks ih => simp [pushAll, ih]

theorem hasTop_cpsUp (cps : CpStack) : hasTop (cpsUp cps) = false := by
  induction cps with
  | nil => rfl
  | cons c cs ih =>
    simp only [hasTop, cpsUp, List.map_cons, List.any_cons] at ih ⊢
    rw [ih]; simp

theorem cpsDown_cpsUp (cps : CpStack) : cpsDown (cpsUp cps) = cps := by
  induction cps with
  | nil => rfl
  | cons c cs ih =>
    simp only [cpsDown, cpsUp, List.map_cons] at ih ⊢
    rw [ih]; simp

section rules
variable (n : Nat) (ks : List TokenKind) (fl : Bool) (d : Nat) (loc : List Bool) (cps : CpStack) (nm : Bool)
  (cur : List SyntaxKind) (ps : List (SyntaxKind × List SyntaxKind))

theorem ax_call (f : Fn) (a : AState) : ax (n+1) (call f) a = ax n (Grammar.defs f) a := rfl
theorem ax_nop (a : AState) : ax (n+1) nop a = some a := rfl
theorem ax_seq (p q : Prog) (a : AState) : ax (n+1) (seq p q) a = (ax n p a).bind (ax n q) := by
  show (match ax n p a with | some a1 => ax n q a1 | none => none) = _
  cases ax n p a <;> rfl
theorem ax_startNode (k : SyntaxKind) :
    ax (n+1) (startNode k) ⟨ks, fl, d, loc, cps, nm, cur, ps⟩ = some ⟨ks, fl, d+1, loc, cpsUp cps, nm, [], (k, cur) :: ps⟩ := rfl
theorem ax_finishNode (k : SyntaxKind) (sibs : List SyntaxKind) (h : goodNode k cur.reverse = true) :
    ax (n+1) finishNode ⟨ks, fl, d+1, loc, cpsUp cps, nm, cur, (k, sibs) :: ps⟩ =
      some ⟨ks, fl, d, loc, cps, nm, k :: sibs, ps⟩ := by
  show (if hasTop (cpsUp cps) = true then none else
    (if goodNode k cur.reverse = true then
      some (⟨ks, fl, d, loc, cpsDown (cpsUp cps), nm, k :: sibs, ps⟩ : AState) else none)) = _
  rw [hasTop_cpsUp, cpsDown_cpsUp, h]; rfl
theorem ax_pushCp (h : hasTop cps = false) :
    ax (n+1) pushCp ⟨ks, fl, d, loc, cps, nm, cur, ps⟩ = some ⟨ks, fl, d, loc, (0, cur) :: cps, nm, cur, ps⟩ := by
  show (if hasTop cps = true then none else some (⟨ks, fl, d, loc, (0, cur) :: cps, nm, cur, ps⟩ : AState)) = _
  rw [h]; rfl
theorem ax_popCp (c : Nat × List SyntaxKind) :
    ax (n+1) popCp ⟨ks, fl, d, loc, c :: cps, nm, cur, ps⟩ = some ⟨ks, fl, d, loc, cps, nm, cur, ps⟩ := rfl
theorem ax_startNodeAtCp (k k1 : SyntaxKind) (C : List SyntaxKind) :
    ax (n+1) (startNodeAtCp k) ⟨ks, fl, d, loc, (0, C) :: cps, nm, k1 :: C, ps⟩ =
      some ⟨ks, fl, d+1, loc, cpsUp ((0, C) :: cps), nm, [k1], (k, C) :: ps⟩ := by
  show some (⟨ks, fl, d+1, loc, cpsUp ((0, C) :: cps), nm, (k1 :: C).take ((k1 :: C).length - C.length), (k, C) :: ps⟩ : AState) = _
  have : (k1 :: C).length - C.length = 1 := by simp
  rw [this]; rfl
theorem ax_retB (b : Bool) : ax (n+1) (retB b) ⟨ks, fl, d, loc, cps, nm, cur, ps⟩ = some ⟨ks, b, d, loc, cps, nm, cur, ps⟩ := rfl
theorem ax_skip : ax (n+1) skip ⟨ks, fl, d, loc, cps, nm, cur, ps⟩ = some ⟨ks, fl, d, loc, cps, true, cur, ps⟩ := rfl
theorem ax_ifFlag_true (t e : Prog) :
    ax (n+1) (ifFlag t e) ⟨ks, true, d, loc, cps, nm, cur, ps⟩ = ax n t ⟨ks, true, d, loc, cps, nm, cur, ps⟩ := rfl
theorem ax_ifFlag_false (t e : Prog) :
    ax (n+1) (ifFlag t e) ⟨ks, false, d, loc, cps, nm, cur, ps⟩ = ax n e ⟨ks, false, d, loc, cps, nm, cur, ps⟩ := rfl
theorem ax_ifAt_pos (ts : List TokenKind) (t e : Prog) (h : ts.contains (ks.headD .Eof) = true) :
    ax (n+1) (ifAt ts t e) ⟨ks, fl, d, loc, cps, true, cur, ps⟩ = ax n t ⟨ks, fl, d, loc, cps, true, cur, ps⟩ := by
  show (if ts.contains (ks.headD .Eof) = true then _ else _) = _
  rw [if_pos h]
theorem ax_ifAt_neg (ts : List TokenKind) (t e : Prog) (h : ts.contains (ks.headD .Eof) = false) :
    ax (n+1) (ifAt ts t e) ⟨ks, fl, d, loc, cps, true, cur, ps⟩ = ax n e ⟨ks, fl, d, loc, cps, true, cur, ps⟩ := by
  show (if ts.contains (ks.headD .Eof) = true then _ else _) = _
  rw [h]; rfl
theorem ax_loop (c b : Prog) (a : AState) : ax (n+1) (loop c b) a = (ax n c a).bind (loopK n c b) := by
  show (match ax n c a with
       | some a1 =>
         if a1.flag = true then
           (match ax n b a1 with
            | some a2 => ax n (loop c b) a2
            | none => none)
         else some a1
       | none => none) = _
  cases ax n c a with
  | none => rfl
  | some a1 =>
    simp only [Option.bind_some, loopK]
    split
    · cases ax n b a1 <;> rfl
    · rfl
theorem loopK_true (c b : Prog) :
    loopK n c b ⟨ks, true, d, loc, cps, nm, cur, ps⟩ = (ax n b ⟨ks, true, d, loc, cps, nm, cur, ps⟩).bind (ax n (loop c b)) := rfl
theorem loopK_false (c b : Prog) :
    loopK n c b ⟨ks, false, d, loc, cps, nm, cur, ps⟩ = some ⟨ks, false, d, loc, cps, nm, cur, ps⟩ := rfl
theorem ax_eat (k : TokenKind) (h : (k == .Error) = false) :
    ax (n+1) eat ⟨k :: ks, fl, d, loc, cps, true, cur, ps⟩ = some ⟨ks, fl, d, loc, cps, true, cur, ps⟩ := by
  show (if (k == .Error) = true then none else some _) = _
  rw [h]; rfl
theorem ax_eatIf_pos (k : TokenKind) (h : (k == .Error) = false) :
    ax (n+1) (eatIf k) ⟨k :: ks, fl, d, loc, cps, true, cur, ps⟩ = some ⟨ks, true, d, loc, cps, true, cur, ps⟩ := by
  show (if ((k :: ks).headD .Eof == k) = true then
        (match (if (k == .Error) = true then none else some (⟨ks, fl, d, loc, cps, true, cur, ps⟩ : AState)) with
         | some a1 => some { a1 with flag := true }
         | none => none)
      else _) = _
  rw [h]; simp
theorem ax_eatIf_neg (k : TokenKind) (h : (ks.headD .Eof == k) = false) :
    ax (n+1) (eatIf k) ⟨ks, fl, d, loc, cps, true, cur, ps⟩ = some ⟨ks, false, d, loc, cps, true, cur, ps⟩ := by
  show (if (ks.headD .Eof == k) = true then _ else _) = _
  rw [h]; rfl
theorem ax_expect (k : TokenKind) (msg : Option String) (h : (k == .Error) = false) :
    ax (n+1) (expect k msg) ⟨k :: ks, fl, d, loc, cps, true, cur, ps⟩ = some ⟨ks, fl, d, loc, cps, true, cur, ps⟩ := by
  show (if ((k :: ks).headD .Eof == k) = true then
        (if (k == .Error) = true then none else some (⟨ks, fl, d, loc, cps, true, cur, ps⟩ : AState)) else none) = _
  rw [h]; simp
theorem ax_assertTok (k : TokenKind) (h : (k == .Error) = false) :
    ax (n+1) (assertTok k) ⟨k :: ks, fl, d, loc, cps, true, cur, ps⟩ = some ⟨ks, fl, d, loc, cps, true, cur, ps⟩ := by
  show (if ((k :: ks).headD .Eof == k) = true then
        (if (k == .Error) = true then none else some (⟨ks, fl, d, loc, cps, true, cur, ps⟩ : AState)) else none) = _
  rw [h]; simp
theorem ax_pushLocal :
    ax (n+1) pushLocal ⟨ks, fl, d, loc, cps, nm, cur, ps⟩ = some ⟨ks, fl, d, false :: loc, cps, nm, cur, ps⟩ := rfl
theorem ax_popLocal (b : Bool) :
    ax (n+1) popLocal ⟨ks, fl, d, b :: loc, cps, nm, cur, ps⟩ = some ⟨ks, fl, d, loc, cps, nm, cur, ps⟩ := rfl
theorem ax_setLocal (b : Bool) :
    ax (n+1) setLocal ⟨ks, fl, d, b :: loc, cps, nm, cur, ps⟩ = some ⟨ks, fl, d, true :: loc, cps, nm, cur, ps⟩ := rfl
theorem ax_ifLocal_true (t e : Prog) :
    ax (n+1) (ifLocal t e) ⟨ks, fl, d, true :: loc, cps, nm, cur, ps⟩ = ax n t ⟨ks, fl, d, true :: loc, cps, nm, cur, ps⟩ := rfl
theorem ax_ifLocal_false (t e : Prog) :
    ax (n+1) (ifLocal t e) ⟨ks, fl, d, false :: loc, cps, nm, cur, ps⟩ = ax n e ⟨ks, fl, d, false :: loc, cps, nm, cur, ps⟩ := rfl

end rules

/-- fuel monotonicity of the abstract interpreter -/
theorem aexec_mono (defs : Defs) : ∀ (n : Nat) (p : Prog) (a a' : AState), aexec defs n p a = some a' →
    ∀ m, n ≤ m → aexec defs m p a = some a' := by
  intro n
  induction n with
  | zero => intro p a a' h; simp [aexec] at h
  | succ n ih =>
    intro p a a' h m hm
    obtain ⟨m, rfl⟩ : ∃ m', m = m' + 1 := ⟨m - 1, by omega⟩
    have hm' : n ≤ m := by omega
    cases p with
    | seq p q =>
      simp only [aexec] at h ⊢
      cases h1 : aexec defs n p a with
      | none => rw [h1] at h; cases h
      | some a1 =>
        rw [h1] at h; simp only [] at h
        rw [ih p a a1 h1 m hm']; exact ih q a1 a' h m hm'
    | ifAt ks t e =>
      simp only [aexec] at h ⊢
      split
      · rename_i hn
        simp only [hn, if_true] at h
        split
        · rename_i hc; simp only [hc, if_true] at h; exact ih t a a' h m hm'
        · rename_i hc; simp only [hc] at h; exact ih e a a' h m hm'
      · rename_i hn; simp only [hn] at h; cases h
    | ifFlag t e =>
      simp only [aexec] at h ⊢
      split
      · rename_i hc; simp only [hc, if_true] at h; exact ih t a a' h m hm'
      · rename_i hc; simp only [hc] at h; exact ih e a a' h m hm'
    | ifLocal t e =>
      simp only [aexec] at h ⊢
      split
      · rename_i hc; simp only [hc, if_true] at h; exact ih t a a' h m hm'
      · rename_i hc; simp only [hc] at h; exact ih e a a' h m hm'
    | loop c b =>
      simp only [aexec] at h ⊢
      cases h1 : aexec defs n c a with
      | none => rw [h1] at h; cases h
      | some a1 =>
        rw [h1] at h; simp only [] at h
        rw [ih c a a1 h1 m hm']
        simp only []
        split
        · rename_i hf
          simp only [hf, if_true] at h
          cases h2 : aexec defs n b a1 with
          | none => rw [h2] at h; cases h
          | some a2 =>
            rw [h2] at h; simp only [] at h
            rw [ih b a1 a2 h2 m hm']; exact ih _ a2 a' h m hm'
        · rename_i hf; simp only [hf] at h; exact h
    | call f => simp only [aexec] at h ⊢; exact ih _ a a' h m hm'
    | nop => simpa [aexec] using h
    | startNode k => simpa [aexec] using h
    | finishNode => simpa [aexec] using h
    | pushCp => simpa [aexec] using h
    | popCp => simpa [aexec] using h
    | startNodeAtCp k => simpa [aexec] using h
    | eat => simpa [aexec] using h
    | skip => simpa [aexec] using h
    | eatIf k => simpa [aexec] using h
    | expect k msg => simpa [aexec] using h
    | assertTok k => simpa [aexec] using h
    | error msg => simpa [aexec] using h
    | errorAndEat msg => simpa [aexec] using h
    | errorAndRecover msg => simpa [aexec] using h
    | retB b => simpa [aexec] using h
    | pushLocal => simpa [aexec] using h
    | popLocal => simpa [aexec] using h
    | setLocal => simpa [aexec] using h

end C04L
end Tg
