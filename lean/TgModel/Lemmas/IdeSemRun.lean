/-
Run equations for the primitives of the indexer monad (used to compute the diagnostics of the
decision logic exactly).
-/
import TgModel.Lemmas.IdeSemScope
namespace Tg
namespace Ide

theorem withSM_run {α : Type} (f : SymMap → α) (c : IndexCtx) : (withSM f).run c = .ok (f c.symbolMap, c) := rfl

theorem canBeCastedTo_run (a b : Ty) (c : IndexCtx) :
    (canBeCastedTo a b).run c = .ok (c.symbolMap.canBeCastedTo a b, c) := rfl

theorem currentFileId_run (c : IndexCtx) (f : Nat) (rest : List Nat) (h : c.fileTrace = f :: rest) :
    currentFileId.run c = .ok (f, c) := by
  unfold currentFileId
  simp only [StateT.run_bind, IxM.run_get, Except.ok_bind, h]
  rfl

/-- the context with one more diagnostic -/
def IndexCtx.report (c : IndexCtx) (f : Nat) (rg : Nat × Nat) (msg : String) : IndexCtx :=
  { c with diagnostics := c.diagnostics.push { location := ⟨f, rg.1, rg.2⟩, message := msg } }

theorem error_run (rg : Nat × Nat) (msg : String) (c : IndexCtx) (f : Nat) (rest : List Nat)
    (h : c.fileTrace = f :: rest) : (error rg msg).run c = .ok ((), c.report f rg msg) := by
  unfold error
  simp only [StateT.run_bind, currentFileId_run c f rest h, Except.ok_bind, IxM.run_modify]
  rfl

@[simp] theorem IndexCtx.report_fileTrace (c : IndexCtx) (f : Nat) (rg : Nat × Nat) (msg : String) :
    (c.report f rg msg).fileTrace = c.fileTrace := rfl
@[simp] theorem IndexCtx.report_symbolMap (c : IndexCtx) (f : Nat) (rg : Nat × Nat) (msg : String) :
    (c.report f rg msg).symbolMap = c.symbolMap := rfl


end Ide
end Tg
