/-
`collect_sources` collects exactly the files reachable from the root through resolved includes,
each once: the worklist invariant of `collectLoop`, and its transfer to the workspace.
-/
import TgModel.Lemmas.IdeWorkspace
import TgModel.Lemmas.ParserShape

namespace Tg
namespace Ide

/-- reachable from `rt` through the include maps recorded so far -/
inductive ReachI (rt : Nat) (infos : Array (Option FileInfo)) : Nat → Prop
  | root : ReachI rt infos rt
  | step {g f : Nat} {info : FileInfo} {rng : Nat × Nat} : ReachI rt infos g → infos[g]? = some (some info) →
      (rng, f) ∈ info.includeMap → ReachI rt infos f

theorem ReachI.mono {rt : Nat} {a b : Array (Option FileInfo)}
    (h : ∀ (g : Nat) (info : FileInfo), a[g]? = some (some info) → b[g]? = some (some info)) {f : Nat} (hr : ReachI rt a f) :
    ReachI rt b f := by
  induction hr with
  | root => exact ReachI.root
  | step _ hi hm ih => exact ReachI.step ih (h _ _ hi) hm

/-- ids were assigned, nothing else happened to the collection -/
structure Grow (c c' : Collect) : Prop where
  fileSet : c'.fileSet = c.fileSet
  queue : c'.queue = c.queue
  size : c.infos.size ≤ c'.infos.size
  old : ∀ f, f < c.infos.size → c'.infos[f]? = c.infos[f]?
  new : ∀ (f : Nat) (info : FileInfo), c'.infos[f]? = some (some info) → f < c.infos.size

theorem Grow.refl (c : Collect) : Grow c c :=
  ⟨rfl, rfl, Nat.le_refl _, fun _ _ => rfl, fun f info h => by
    by_cases hf : f < c.infos.size
    · exact hf
    · rw [Array.getElem?_eq_none (Nat.le_of_not_lt hf)] at h; cases h⟩

theorem Grow.trans {a b c : Collect} (h1 : Grow a b) (h2 : Grow b c) : Grow a c :=
  ⟨h2.fileSet.trans h1.fileSet, h2.queue.trans h1.queue, Nat.le_trans h1.size h2.size,
   fun f hf => (h2.old f (Nat.lt_of_lt_of_le hf h1.size)).trans (h1.old f hf),
   fun f info h => by
     have hb := h2.new f info h
     rw [h2.old f hb] at h
     exact h1.new f info h⟩

theorem assignOrGetFileId_grow (c : Collect) (p : String) : Grow c (c.assignOrGetFileId p).2 := by
  unfold Collect.assignOrGetFileId
  split
  · exact Grow.refl c
  · refine ⟨rfl, rfl, by simp, fun f hf => by simp [Array.getElem?_push, Nat.ne_of_lt hf], ?_⟩
    intro f info h
    simp only [Array.getElem?_push] at h
    split at h
    · cases h
    · by_cases hf : f < c.infos.size
      · exact hf
      · rw [Array.getElem?_eq_none (Nat.le_of_not_lt hf)] at h; cases h

theorem resolveIncludeFile_grow (includePath : String) : ∀ (dirs : List String) (c : Collect),
    Grow c (c.resolveIncludeFile includePath dirs).2
  | [], c => by simp only [Collect.resolveIncludeFile]; exact Grow.refl c
  | dir :: dirs, c => by
    simp only [Collect.resolveIncludeFile]
    split
    · have h := assignOrGetFileId_grow c (Path.join dir includePath)
      generalize c.assignOrGetFileId (Path.join dir includePath) = res at h
      obtain ⟨id, c'⟩ := res
      exact ⟨h.fileSet, h.queue, h.size, h.old, h.new⟩
    · exact resolveIncludeFile_grow includePath dirs c

/-- resolving the includes of one file: the queue gets exactly the targets of the include map -/
theorem resolveIncludes_grow (dirs : List String)
    (g : Collect × List ((Nat × Nat) × Nat) → (Nat × Nat) × String → Collect × List ((Nat × Nat) × Nat))
    (hg : ∀ st inc,
      (∃ id c', st.1.resolveIncludeFile inc.2 dirs = (some id, c') ∧
        g st inc = ({ c' with queue := c'.queue ++ [id] }, st.2 ++ [(inc.1, id)])) ∨
      (∃ c', st.1.resolveIncludeFile inc.2 dirs = (none, c') ∧ g st inc = (c', st.2))) :
    ∀ (incs : List ((Nat × Nat) × String)) (c0 : Collect) (st : Collect × List ((Nat × Nat) × Nat)),
    Grow { c0 with queue := st.1.queue } st.1 → st.1.queue = c0.queue ++ st.2.map (·.2) →
    Grow { c0 with queue := (incs.foldl g st).1.queue } (incs.foldl g st).1 ∧
      (incs.foldl g st).1.queue = c0.queue ++ (incs.foldl g st).2.map (·.2)
  | [], c0, st, h, hq => ⟨h, hq⟩
  | inc :: incs, c0, st, h, hq => by
    simp only [List.foldl_cons]
    have hr := resolveIncludeFile_grow inc.2 dirs st.1
    rcases hg st inc with ⟨id, c', hres, hgs⟩ | ⟨c', hres, hgs⟩
    · rw [hres] at hr
      simp only at hr
      rw [hgs]
      refine resolveIncludes_grow dirs g hg incs c0 _ ?_ ?_
      · have := h.trans hr
        exact ⟨this.fileSet, rfl, this.size, this.old, this.new⟩
      · simp only [List.map_append, List.map_cons, List.map_nil]
        rw [hr.queue, hq, List.append_assoc]
    · rw [hres] at hr
      simp only at hr
      rw [hgs]
      refine resolveIncludes_grow dirs g hg incs c0 _ ?_ ?_
      · have := h.trans hr
        exact ⟨this.fileSet, by simp [hr.queue], this.size, this.old, this.new⟩
      · rw [hr.queue]; exact hq

theorem resolveIncludes_both (dirs : List String)
    (g : Collect × List ((Nat × Nat) × Nat) → (Nat × Nat) × String → Collect × List ((Nat × Nat) × Nat))
    (hg : ∀ st inc,
      (∃ id c', st.1.resolveIncludeFile inc.2 dirs = (some id, c') ∧
        g st inc = ({ c' with queue := c'.queue ++ [id] }, st.2 ++ [(inc.1, id)])) ∨
      (∃ c', st.1.resolveIncludeFile inc.2 dirs = (none, c') ∧ g st inc = (c', st.2)))
    (incs : List ((Nat × Nat) × String)) (c0 : Collect) (h : CInv c0) :
    (CInv (incs.foldl g (c0, [])).1 ∧ (∀ e ∈ (incs.foldl g (c0, [])).2, e.2 < (incs.foldl g (c0, [])).1.paths.size) ∧
      c0.paths.size ≤ (incs.foldl g (c0, [])).1.paths.size) ∧
    (Grow { c0 with queue := (incs.foldl g (c0, [])).1.queue } (incs.foldl g (c0, [])).1 ∧
      (incs.foldl g (c0, [])).1.queue = c0.queue ++ (incs.foldl g (c0, [])).2.map (·.2)) :=
  ⟨resolveIncludes_ok dirs g hg incs (c0, []) h (by intro e he; cases he),
   resolveIncludes_grow dirs g hg incs c0 (c0, []) (Grow.refl _) (by simp)⟩

/-- the worklist invariant -/
structure GInv (rt : Nat) (c : Collect) : Prop where
  nodup : c.fileSet.toList.Nodup
  infoNone : ∀ (f : Nat) (info : FileInfo), c.infos[f]? = some (some info) → f ∈ c.fileSet.toList
  hasInfo : ∀ f ∈ c.fileSet.toList, ∃ info : FileInfo, c.infos[f]? = some (some info)
  root : rt ∈ c.fileSet.toList ∨ rt ∈ c.queue
  closed : ∀ (f : Nat) (info : FileInfo), c.infos[f]? = some (some info) → ∀ e ∈ info.includeMap,
    e.2 ∈ c.fileSet.toList ∨ e.2 ∈ c.queue
  sound : ∀ f, (f ∈ c.fileSet.toList ∨ f ∈ c.queue) → ReachI rt c.infos f

theorem collectLoop_G (hp : ParserShape) (rt : Nat) (includeDir : Option String) : ∀ (fuel : Nat) (c c' : Collect),
    CInv c → GInv rt c → collectLoop includeDir fuel c = .ok c' → GInv rt c' ∧ c'.queue = []
  | 0, _, _, _, _, h => by simp [collectLoop] at h
  | fuel + 1, c, c', hc, hg, h => by
    unfold collectLoop at h
    split at h
    · rename_i hq
      cases h; exact ⟨hg, hq⟩
    · rename_i fileId queue hq
      have hfid : fileId < c.paths.size := hc.queue fileId (by rw [hq]; simp)
      have hc1 : CInv { c with queue := queue } :=
        ⟨hc.contents, hc.infos, fun f hf => hc.queue f (by rw [hq]; simp [hf]), hc.fileSet, hc.files⟩
      simp only at h
      split at h
      · rename_i hin
        have hmem : fileId ∈ c.fileSet.toList := by
          simp only [Array.contains_eq_mem, decide_eq_true_eq] at hin
          exact Array.mem_toList_iff.mpr hin
        refine collectLoop_G hp rt includeDir fuel { c with queue := queue } c' hc1 ?_ h
        refine ⟨hg.nodup, hg.infoNone, hg.hasInfo, ?_, ?_, ?_⟩
        · rcases hg.root with h1 | h1
          · exact Or.inl h1
          · rw [hq] at h1
            rcases List.mem_cons.mp h1 with rfl | h1
            · exact Or.inl hmem
            · exact Or.inr h1
        · intro f info hi e he
          rcases hg.closed f info hi e he with h1 | h1
          · exact Or.inl h1
          · rw [hq] at h1
            rcases List.mem_cons.mp h1 with h1 | h1
            · exact Or.inl (h1 ▸ hmem)
            · exact Or.inr h1
        · intro f hf
          refine hg.sound f ?_
          rcases hf with hf | hf
          · exact Or.inl hf
          · exact Or.inr (by rw [hq]; exact List.mem_cons_of_mem _ hf)
      · rename_i hnot
        have hnotin : fileId ∉ c.fileSet.toList := by
          intro hm
          apply hnot
          simp only [Array.contains_eq_mem, decide_eq_true_eq]
          exact Array.mem_toList_iff.mp hm
        split at h
        · cases h
        · rename_i tree errors hparse
          have hc2 : CInv { c with queue := queue, fileSet := c.fileSet.push fileId } := by
            refine ⟨hc.contents, hc.infos, hc1.queue, ?_, hc.files⟩
            intro f hf
            simp only [Array.toList_push, List.mem_append, List.mem_singleton] at hf
            rcases hf with hf | rfl
            · exact hc.fileSet f hf
            · exact hfid
          have hreach : ReachI rt c.infos fileId := hg.sound fileId (Or.inr (by rw [hq]; simp))
          exact (fun hboth =>
              (fun hres hgr => collectLoop_G hp rt includeDir fuel _ c'
                (CInv.setInfo hres.1 fileId (parseFile_ok hp hparse _ _).1 hres.2.1)
                (by
                  generalize List.foldl _ _ _ = r at hres hgr ⊢
                  obtain ⟨c3, im⟩ := r
                  simp only at hres hgr ⊢
                  have hgrow := hgr.1
                  have hqueue := hgr.2

                  clear h hboth
                  have hfs : c3.fileSet = c.fileSet.push fileId := hgrow.fileSet
                  have hsz : c.infos.size ≤ c3.infos.size := hgrow.size
                  have hold' : ∀ f, f < c.infos.size → c3.infos[f]? = c.infos[f]? := hgrow.old
                  have hnew' : ∀ (f : Nat) (info : FileInfo), c3.infos[f]? = some (some info) → f < c.infos.size :=
                    hgrow.new
                  generalize hnf : FileInfo.mk (c.paths.getInternal fileId hfid) tree errors im = nf
                  have hnfm : nf.includeMap = im := by rw [← hnf]
                  clear hgrow hgr
                  have hisz : fileId < c3.infos.size := Nat.lt_of_lt_of_le (hc.infos ▸ hfid) hsz
                  have hold : ∀ (f : Nat) (info : FileInfo), c.infos[f]? = some (some info) →
                      (c3.infos.set! fileId (some nf))[f]? = some (some info) := by
                    intro f info hi
                    have hfne : f ≠ fileId := fun he => hnotin (he ▸ hg.infoNone f info hi)
                    have hfs' : f < c.infos.size := by
                      by_cases hf : f < c.infos.size
                      · exact hf
                      · rw [Array.getElem?_eq_none (Nat.le_of_not_lt hf)] at hi; cases hi
                    simp only [Array.set!_eq_setIfInBounds, Array.getElem?_setIfInBounds, Ne.symm hfne, if_false]
                    rw [hold' f hfs']; exact hi
                  have hget : ∀ (f : Nat) (info : FileInfo), (c3.infos.set! fileId (some nf))[f]? = some (some info) →
                      (f = fileId ∧ info = nf) ∨ (f ≠ fileId ∧ c.infos[f]? = some (some info)) := by
                    intro f info hi
                    simp only [Array.set!_eq_setIfInBounds, Array.getElem?_setIfInBounds] at hi
                    split at hi
                    · rename_i heq
                      simp only [Option.some.injEq] at hi
                      exact Or.inl ⟨heq.symm, hi.symm⟩
                    · rename_i hne
                      have hb := hnew' f info hi
                      rw [hold' f hb] at hi
                      exact Or.inr ⟨Ne.symm hne, hi⟩
                  refine ⟨?_, ?_, ?_, ?_, ?_, ?_⟩
                  · show (_ : Array Nat).toList.Nodup
                    rw [hfs]
                    simp only [Array.toList_push]
                    exact List.nodup_append.mpr ⟨hg.nodup, by simp, by
                      intro a ha b hb
                      simp only [List.mem_singleton] at hb
                      subst hb
                      intro hab; subst hab; exact hnotin ha⟩
                  · intro f info hi
                    show f ∈ (_ : Array Nat).toList
                    rw [hfs]
                    simp only [Array.toList_push, List.mem_append, List.mem_singleton]
                    rcases hget f info hi with ⟨rfl, _⟩ | ⟨_, h1⟩
                    · exact Or.inr rfl
                    · exact Or.inl (hg.infoNone f info h1)
                  · intro f hf
                    have hf' : f ∈ (c.fileSet.push fileId).toList := by rw [← hfs]; exact hf
                    simp only [Array.toList_push, List.mem_append, List.mem_singleton] at hf'
                    rcases hf' with hf' | rfl
                    · obtain ⟨info, hi⟩ := hg.hasInfo f hf'
                      exact ⟨info, hold f info hi⟩
                    · exact ⟨_, by
                        simp only [Array.set!_eq_setIfInBounds, Array.getElem?_setIfInBounds, if_true]
                        rw [if_pos hisz]⟩
                  · show rt ∈ (_ : Array Nat).toList ∨ rt ∈ _
                    rw [hfs, hqueue]
                    simp only [Array.toList_push, List.mem_append, List.mem_singleton]
                    rcases hg.root with h1 | h1
                    · exact Or.inl (Or.inl h1)
                    · rw [hq] at h1
                      rcases List.mem_cons.mp h1 with rfl | h1
                      · exact Or.inl (Or.inr rfl)
                      · exact Or.inr (Or.inl h1)
                  · intro f info hi e he
                    show e.2 ∈ (_ : Array Nat).toList ∨ e.2 ∈ _
                    rw [hfs, hqueue]
                    simp only [Array.toList_push, List.mem_append, List.mem_singleton]
                    rcases hget f info hi with ⟨rfl, rfl⟩ | ⟨_, h1⟩
                    · exact Or.inr (Or.inr (List.mem_map.mpr ⟨e, by rw [← hnfm]; exact he, rfl⟩))
                    · rcases hg.closed f info h1 e he with h2 | h2
                      · exact Or.inl (Or.inl h2)
                      · rw [hq] at h2
                        rcases List.mem_cons.mp h2 with h2 | h2
                        · exact Or.inl (Or.inr h2)
                        · exact Or.inr (Or.inl h2)
                  · intro f hf
                    have hmono : ∀ {x}, ReachI rt c.infos x → ReachI rt (c3.infos.set! fileId (some nf)) x :=
                      fun hx => hx.mono hold
                    have hfid' : ReachI rt (c3.infos.set! fileId (some nf)) fileId := hmono hreach
                    rw [hfs, hqueue] at hf
                    simp only [Array.toList_push, List.mem_append, List.mem_singleton] at hf
                    rcases hf with (hf | rfl) | (hf | hf)
                    · exact hmono (hg.sound f (Or.inl hf))
                    · exact hfid'
                    · exact hmono (hg.sound f (Or.inr (by rw [hq]; exact List.mem_cons_of_mem _ hf)))
                    · obtain ⟨e, he, rfl⟩ := List.mem_map.mp hf
                      refine ReachI.step (rng := e.1) (info := nf) hfid' ?_ (by rw [hnfm]; exact he)
                      simp only [Array.set!_eq_setIfInBounds, Array.getElem?_setIfInBounds, if_true]
                      rw [if_pos hisz]) h) hboth.1 hboth.2)
            (resolveIncludes_both
              _ _
              (by
                intro st inc
                split
                · rename_i id c'' heq
                  exact Or.inl ⟨id, c'', heq, rfl⟩
                · rename_i c'' heq
                  exact Or.inr ⟨c'', heq, rfl⟩)
              (listIncludes tree)
              { c with queue := queue, fileSet := c.fileSet.push fileId } hc2)

/-- reachable from the root file through resolved includes (the entries of the `includeMap`s) -/
inductive Workspace.Reach (ws : Workspace) : Nat → Prop
  | root : Workspace.Reach ws ws.root
  | step {g f : Nat} {fi : FileInfo} {rng : Nat × Nat} : Workspace.Reach ws g → ws.file? g = some fi →
      (rng, f) ∈ fi.includeMap → Workspace.Reach ws f

/-- **the file set of a built workspace** is duplicate free and consists of exactly the files reachable from the
root through resolved includes -/
theorem buildWorkspace_reach (hp : ParserShape) {vfs : List (String × String)} {rootPath : String}
    {includeDir : Option String} {ws : Workspace} (h : buildWorkspace vfs rootPath includeDir = .ok ws) :
    ws.fileSet.Nodup ∧ (∀ f, f ∈ ws.fileSet ↔ ws.Reach f) ∧
      ∀ (g : Nat) (fi : FileInfo) (e : (Nat × Nat) × Nat), ws.file? g = some fi → e ∈ fi.includeMap →
        g ∈ ws.fileSet ∧ e.2 ∈ ws.fileSet := by
  unfold buildWorkspace at h
  simp only at h
  have h0 : CInv ({ vfs := vfs } : Collect) := by
    refine ⟨rfl, rfl, ?_, ?_, ?_⟩
    · intro f hf; cases hf
    · intro f hf; simp at hf
    · intro i info hi; simp at hi
  obtain ⟨h1, hr1, _, hq1, _⟩ := assignOrGetFileId_ok h0 rootPath
  have hgr := assignOrGetFileId_grow ({ vfs := vfs } : Collect) rootPath
  generalize ({ vfs := vfs } : Collect).assignOrGetFileId rootPath = res at h h1 hr1 hq1 hgr
  obtain ⟨root, c1⟩ := res
  simp only at h h1 hr1 hq1 hgr
  split at h
  · cases h
  · rename_i c hloop
    simp only [Except.ok.injEq] at h
    have hc1' : CInv ({ c1 with
        contents := c1.contents.set! root ((c1.readContent rootPath).getD "")
        queue := [root] } : Collect) := by
      refine ⟨(by simp [h1.contents]), h1.infos, ?_, h1.fileSet, h1.files⟩
      intro f hf
      simp only [List.mem_singleton] at hf
      subst hf
      exact hr1
    have hnone : ∀ (f : Nat) (info : FileInfo), c1.infos[f]? ≠ some (some info) := by
      intro f info hi
      have := hgr.new f info hi
      simp at this
    have hfs : c1.fileSet = #[] := hgr.fileSet
    have hg1 : GInv root ({ c1 with
        contents := c1.contents.set! root ((c1.readContent rootPath).getD "")
        queue := [root] } : Collect) := by
      refine ⟨?_, ?_, ?_, ?_, ?_, ?_⟩
      · show c1.fileSet.toList.Nodup
        rw [hfs]; simp
      · intro f info hi; exact absurd hi (hnone f info)
      · intro f hf
        have hf' : f ∈ c1.fileSet.toList := hf
        rw [hfs] at hf'; simp at hf'
      · exact Or.inr (by simp)
      · intro f info hi; exact absurd hi (hnone f info)
      · intro f hf
        rcases hf with hf | hf
        · have hf' : f ∈ c1.fileSet.toList := hf
          rw [hfs] at hf'; simp at hf'
        · have hf' : f ∈ [root] := hf
          simp only [List.mem_singleton] at hf'
          subst hf'; exact ReachI.root
    obtain ⟨hg, hqe⟩ := collectLoop_G hp root includeDir _ _ c hc1' hg1 hloop
    subst h
    have hfile : ∀ (g : Nat) (fi : FileInfo) (e : (Nat × Nat) × Nat),
        (Workspace.mk (c.infos.mapIdx fun i o =>
          match o with
          | some f => f
          | none => { path := c.paths.getD i "", tree := .node .SourceFile 0 0 1 #[], errors := [] })
          root c.fileSet.toList).file? g = some fi → e ∈ fi.includeMap → c.infos[g]? = some (some fi) := by
      intro g fi e hfi he
      simp only [Workspace.file?, Array.getElem?_mapIdx] at hfi
      cases hgi : c.infos[g]? with
      | none => rw [hgi] at hfi; simp at hfi
      | some o =>
        rw [hgi] at hfi
        cases o with
        | none =>
          simp only [Option.map_some, Option.some.injEq] at hfi
          subst hfi
          simp at he
        | some info =>
          simp only [Option.map_some, Option.some.injEq] at hfi
          subst hfi; rfl
    have hfile' : ∀ (g : Nat) (info : FileInfo), c.infos[g]? = some (some info) →
        (Workspace.mk (c.infos.mapIdx fun i o =>
          match o with
          | some f => f
          | none => { path := c.paths.getD i "", tree := .node .SourceFile 0 0 1 #[], errors := [] })
          root c.fileSet.toList).file? g = some info := by
      intro g info hi
      simp only [Workspace.file?, Array.getElem?_mapIdx, hi, Option.map_some]
    have hcl : ∀ x, x ∈ c.fileSet.toList ∨ x ∈ c.queue → x ∈ c.fileSet.toList := by
      intro x hx
      rcases hx with hx | hx
      · exact hx
      · rw [hqe] at hx; cases hx
    refine ⟨hg.nodup, fun f => ⟨fun hf => ?_, fun hr => ?_⟩, fun g fi e hfi he =>
      ⟨hg.infoNone g fi (hfile g fi e hfi he), hcl _ (hg.closed g fi (hfile g fi e hfi he) e he)⟩⟩
    · have hr := hg.sound f (Or.inl hf)
      clear hf
      induction hr with
      | root => exact Workspace.Reach.root
      | step _ hi hm ih => exact Workspace.Reach.step ih (hfile' _ _ hi) hm
    · show f ∈ c.fileSet.toList
      generalize hws : Workspace.mk _ root c.fileSet.toList = ws at hr hfile
      induction hr with
      | root => subst hws; exact hcl _ hg.root
      | step _ hi hm ih =>
        subst hws
        exact hcl _ (hg.closed _ _ (hfile _ _ _ hi hm) _ hm)

end Ide
end Tg
