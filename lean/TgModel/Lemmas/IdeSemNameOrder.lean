/-
In every `Defset` / `MultiClass` node of a parse tree the name (`Identifier`) comes before the body
(`StatementList`): a second must-analysis over the parser DSL, in the style of `IdeSemShape.lean`.
-/
import TgModel.Lemmas.IdeSemShape
namespace Tg
namespace NameOrder
open Tg.Bodied (Base)

/-- the node kinds whose name must come before the body -/
def guarded (k : SyntaxKind) : Bool := k == .Defset || k == .MultiClass

def isSL : Tree → Bool
  | .node .StatementList _ => true
  | _ => false

def isIdent : Tree → Bool
  | .node .Identifier _ => true
  | _ => false

/-- no `StatementList` node among the trees -/
def noSL (l : List Tree) : Prop := ∀ t ∈ l, isSL t = false

/-- (newest first) an `Identifier` node with no `StatementList` node older than it -/
def identF (l : List Tree) : Prop := ∃ a x b, l = a ++ x :: b ∧ isIdent x = true ∧ noSL b

/-- (oldest first) an `Identifier` node with no `StatementList` node before it -/
def nameFirstL (cs : List Tree) : Prop := ∃ pre x post, cs = pre ++ x :: post ∧ isIdent x = true ∧ noSL pre

theorem noSL_reverse {l : List Tree} : noSL l.reverse ↔ noSL l := by
  simp [noSL]

theorem identF_reverse {l : List Tree} (h : identF l) : nameFirstL l.reverse := by
  obtain ⟨a, x, b, rfl, hx, hb⟩ := h
  exact ⟨b.reverse, x, a.reverse, by simp, hx, noSL_reverse.mpr hb⟩

mutual
/-- every `Defset` / `MultiClass` node has its name before any statement list -/
def orderedT : Tree → Prop
  | .token _ _ => True
  | .node k cs => (guarded k = true → nameFirstL cs) ∧ orderedL cs
def orderedL : List Tree → Prop
  | [] => True
  | c :: cs => orderedT c ∧ orderedL cs
end

@[simp] theorem orderedL_nil : orderedL [] = True := by simp [orderedL]
@[simp] theorem orderedL_cons (c : Tree) (cs : List Tree) : orderedL (c :: cs) = (orderedT c ∧ orderedL cs) := by
  simp [orderedL]
@[simp] theorem orderedT_token (k : SyntaxKind) (t : List Char) : orderedT (.token k t) = True := by simp [orderedT]
@[simp] theorem orderedT_node (k : SyntaxKind) (cs : List Tree) :
    orderedT (.node k cs) = ((guarded k = true → nameFirstL cs) ∧ orderedL cs) := by simp [orderedT]

theorem orderedL_iff {l : List Tree} : orderedL l ↔ ∀ t ∈ l, orderedT t := by
  induction l with
  | nil => simp
  | cons x xs ih => simp [ih]

theorem orderedL_append {a b : List Tree} : orderedL (a ++ b) ↔ orderedL a ∧ orderedL b := by
  simp only [orderedL_iff, List.mem_append]
  constructor
  · intro h; exact ⟨fun t ht => h t (Or.inl ht), fun t ht => h t (Or.inr ht)⟩
  · rintro ⟨h1, h2⟩ t (ht | ht)
    · exact h1 t ht
    · exact h2 t ht

theorem orderedL_reverse {a : List Tree} : orderedL a.reverse ↔ orderedL a := by
  simp only [orderedL_iff, List.mem_reverse]

theorem orderedL_of_tokens {l : List Tree} (h : ∀ t ∈ l, isTokenTree t = true) : orderedL l := by
  rw [orderedL_iff]
  intro t ht
  have := h t ht
  cases t with
  | token k txt => simp
  | node k cs => simp [isTokenTree] at this

theorem noSL_of_tokens {l : List Tree} (h : ∀ t ∈ l, isTokenTree t = true) : noSL l := by
  intro t ht
  have := h t ht
  cases t with
  | token k txt => rfl
  | node k cs => simp [isTokenTree] at this

theorem noSL_append {a b : List Tree} : noSL (a ++ b) ↔ noSL a ∧ noSL b := by
  simp only [noSL, List.mem_append]
  constructor
  · intro h; exact ⟨fun t ht => h t (Or.inl ht), fun t ht => h t (Or.inr ht)⟩
  · rintro ⟨h1, h2⟩ t (ht | ht)
    · exact h1 t ht
    · exact h2 t ht

/-! ### the abstract domain -/

/-- `n`: certainly no `StatementList` child so far; `i`: certainly an `Identifier` child with no
`StatementList` child before it -/
inductive Item where
  | fr (k : SyntaxKind) (n i : Bool)
  | cp (n : Bool)
deriving DecidableEq, Repr

structure AState where
  stack : List Item
  n0 : Bool
  i0 : Bool
deriving DecidableEq, Repr

/-- the claims about the trees `l` (newest first) -/
def Claims (n i : Bool) (l : List Tree) : Prop := (n = true → noSL l) ∧ (i = true → identF l)

/-- pushing trees with claims `(nb, ib)` onto a frame with claims `(n, i)` -/
theorem Claims.push {n i nb ib : Bool} {ch xs : List Tree} (h : Claims n i ch) (hx : Claims nb ib xs) :
    Claims (n && nb) (i || (ib && n)) (xs ++ ch) := by
  constructor
  · intro hn
    simp only [Bool.and_eq_true] at hn
    exact noSL_append.mpr ⟨hx.1 hn.2, h.1 hn.1⟩
  · intro hi
    simp only [Bool.or_eq_true, Bool.and_eq_true] at hi
    rcases hi with hi | ⟨hib, hn⟩
    · obtain ⟨a, x, b, rfl, hxx, hb⟩ := h.2 hi
      exact ⟨xs ++ a, x, b, by simp, hxx, hb⟩
    · obtain ⟨a, x, b, rfl, hxx, hb⟩ := hx.2 hib
      exact ⟨a, x, b ++ ch, by simp, hxx, noSL_append.mpr ⟨hb, h.1 hn⟩⟩

def pushE (nb ib : Bool) (st : AState) : AState :=
  match st.stack with
  | [] => { st with n0 := st.n0 && nb, i0 := st.i0 || (ib && st.n0) }
  | .fr k n i :: σ => { st with stack := .fr k (n && nb) (i || (ib && n)) :: σ }
  | .cp n :: σ => { st with stack := .cp (n && nb) :: σ }

/-- the effect of adding one node of kind `k` -/
def addNode (k : SyntaxKind) (st : AState) : AState := pushE (k != .StatementList) (k == .Identifier) st

def leB (a b : Bool) : Bool := !a || b

def leItem : Item → Item → Bool
  | .fr k n i, .fr k' n' i' => k == k' && leB n n' && leB i i'
  | .cp n, .cp n' => leB n n'
  | _, _ => false

def leStack : List Item → List Item → Bool
  | [], [] => true
  | a :: as, b :: bs => leItem a b && leStack as bs
  | _, _ => false

def le (a b : AState) : Bool := leStack a.stack b.stack && leB a.n0 b.n0 && leB a.i0 b.i0

def meetItem : Item → Item → Item
  | .fr k n i, .fr _ n' i' => .fr k (n && n') (i && i')
  | .cp n, .cp n' => .cp (n && n')
  | a, _ => a

def meetStack : List Item → List Item → List Item
  | a :: as, b :: bs => meetItem a b :: meetStack as bs
  | _, _ => []

def joinA : Option AState → Option AState → Option AState
  | some a, some b =>
    let m : AState := ⟨meetStack a.stack b.stack, a.n0 && b.n0, a.i0 && b.i0⟩
    if le m a && le m b then some m else none
  | _, _ => none

/-- summaries: may the function add a `StatementList` node to the current frame / does it certainly add
an `Identifier` node before any `StatementList` node -/
def maySL : Fn → Bool
  | .statement_list_top | .statement_list_block | .statement_list_single_or_block
  | .multi_class_statements => true
  | _ => false

def identFirstOf : Fn → Bool
  | .identifier => true
  | _ => false

def absStep : Prog → AState → Option AState
  | .nop, st => some st
  | .startNode k, st => some { st with stack := .fr k true false :: st.stack }
  | .finishNode, st =>
    match st.stack with
    | .fr k _ i :: σ' => if guarded k && !i then none else some (addNode k { st with stack := σ' })
    | _ => none
  | .pushCp, st => some { st with stack := .cp true :: st.stack }
  | .popCp, st => match st.stack with | .cp n :: σ' => some (pushE n false { st with stack := σ' }) | _ => none
  | .startNodeAtCp k, st =>
    match st.stack with
    | .cp n :: σ' => some { st with stack := .fr k n false :: .cp true :: σ' }
    | _ => none
  | .eat, st => some st
  | .skip, st => some st
  | .eatIf _, st => some st
  | .expect _ _, st => some st
  | .assertTok _, st => some st
  | .error _, st => some st
  | .errorAndEat _, st => some st
  | .errorAndRecover _, st => some st
  | .retB _, st => some st
  | .seq a b, st => (absStep a st).bind (absStep b)
  | .ifAt _ t e, st => joinA (absStep t st) (absStep e st)
  | .ifFlag t e, st => joinA (absStep t st) (absStep e st)
  | .loop c b, st =>
    match absStep c st, absStep b st with
    | some s1, some s2 => if le st s1 && le st s2 then some st else none
    | _, _ => none
  | .call f, st => some (pushE (!maySL f) (identFirstOf f) st)
  | .pushLocal, st => some st
  | .popLocal, st => some st
  | .setLocal, st => some st
  | .ifLocal t e, st => joinA (absStep t st) (absStep e st)

def init : AState := ⟨[], true, false⟩

/-- every grammar function passes the check and delivers its summaries (kernel evaluation) -/
theorem defs_checked : ∀ f ∈ Fn.all,
    (match absStep (Grammar.defs f) init with
     | some ⟨[], n, i⟩ => leB (!maySL f) n && leB (identFirstOf f) i
     | _ => false) = true := by
  decide +kernel

/-! ### the relation to the builder -/

inductive Rel (B : Base) : List Item → Bool → Bool → List (SyntaxKind × List Tree) → List Tree →
    List (Nat × Nat) → Prop
  | nil {new : List Tree} {n0 i0 : Bool} : orderedL new → Claims n0 i0 new →
      Rel B [] n0 i0 B.parents (new ++ B.cur) B.cps
  | cp {σ : List Item} {n0 i0 n : Bool} {ps : List (SyntaxKind × List Tree)} {old added : List Tree}
      {cps : List (Nat × Nat)} :
      Rel B σ n0 i0 ps old cps → orderedL added → Claims n false added →
      Rel B (.cp n :: σ) n0 i0 ps (added ++ old) ((ps.length, old.length) :: cps)
  | frame {σ : List Item} {n0 i0 n i : Bool} {ps : List (SyntaxKind × List Tree)} {sibs ch : List Tree}
      {cps : List (Nat × Nat)} {k : SyntaxKind} :
      Rel B σ n0 i0 ps sibs cps → orderedL ch → Claims n i ch → Rel B (.fr k n i :: σ) n0 i0 ((k, sibs) :: ps) ch cps

def SInv (B : Base) (st : AState) (s : PState) : Prop :=
  Rel B st.stack st.n0 st.i0 s.b.parents s.b.cur s.cps

theorem Claims.weaken {n i n' i' : Bool} {l : List Tree} (h : Claims n i l) (hn : leB n' n = true)
    (hi : leB i' i = true) : Claims n' i' l := by
  constructor
  · intro h'; subst h'; cases n <;> simp_all [leB]
    exact h.1 rfl
  · intro h'; subst h'; cases i <;> simp_all [leB]
    exact h.2 rfl

theorem Claims.nil : Claims true false [] := ⟨fun _ t ht => (by cases ht), fun h => (by cases h)⟩

theorem Rel.pushMany {B : Base} {σ : List Item} {n0 i0 : Bool} {ps : List (SyntaxKind × List Tree)}
    {cur : List Tree} {cps : List (Nat × Nat)} (h : Rel B σ n0 i0 ps cur cps) {xs : List Tree} {nb ib : Bool}
    (ho : orderedL xs) (hc : Claims nb ib xs) :
    Rel B (pushE nb ib ⟨σ, n0, i0⟩).stack (pushE nb ib ⟨σ, n0, i0⟩).n0 (pushE nb ib ⟨σ, n0, i0⟩).i0 ps (xs ++ cur) cps := by
  cases h with
  | nil hnew hcl =>
    rw [← List.append_assoc]
    exact Rel.nil (orderedL_append.mpr ⟨ho, hnew⟩) (hcl.push hc)
  | cp hr hadd hcl =>
    rw [← List.append_assoc]
    exact Rel.cp hr (orderedL_append.mpr ⟨ho, hadd⟩)
      ((hcl.push hc).weaken (by cases ‹Bool› <;> cases nb <;> rfl) rfl)
  | frame hr hch hcl =>
    exact Rel.frame hr (orderedL_append.mpr ⟨ho, hch⟩) (hcl.push hc)

theorem pushE_id (st : AState) : pushE true false st = st := by
  obtain ⟨σ, n0, i0⟩ := st
  cases σ with
  | nil => simp [pushE]
  | cons x t => cases x <;> simp [pushE]

theorem Rel.pushTokens {B : Base} {σ : List Item} {n0 i0 : Bool} {ps : List (SyntaxKind × List Tree)}
    {cur : List Tree} {cps : List (Nat × Nat)} (h : Rel B σ n0 i0 ps cur cps) {xs : List Tree}
    (hx : ∀ t ∈ xs, isTokenTree t = true) : Rel B σ n0 i0 ps (xs ++ cur) cps := by
  have := h.pushMany (nb := true) (ib := false) (orderedL_of_tokens hx)
    ⟨fun _ => noSL_of_tokens hx, fun h => by cases h⟩
  rw [pushE_id] at this
  exact this

theorem Rel.weaken {B : Base} {σ : List Item} {n0 i0 : Bool} {ps : List (SyntaxKind × List Tree)}
    {cur : List Tree} {cps : List (Nat × Nat)} (h : Rel B σ n0 i0 ps cur cps) :
    ∀ {σ' : List Item} {n0' i0' : Bool}, leStack σ' σ = true → leB n0' n0 = true → leB i0' i0 = true →
      Rel B σ' n0' i0' ps cur cps := by
  induction h with
  | nil hnew hcl =>
    intro σ' n0' i0' hs h1 h2
    cases σ' with
    | nil => exact Rel.nil hnew (hcl.weaken h1 h2)
    | cons a as => simp [leStack] at hs
  | cp hr hadd hcl ih =>
    intro σ' n0' i0' hs h1 h2
    cases σ' with
    | nil => simp [leStack] at hs
    | cons a as =>
      simp only [leStack, Bool.and_eq_true] at hs
      cases a with
      | fr k' n' i' => simp [leItem] at hs
      | cp n' =>
        simp only [leItem] at hs
        exact Rel.cp (ih hs.2 h1 h2) hadd (hcl.weaken hs.1 rfl)
  | frame hr hch hcl ih =>
    intro σ' n0' i0' hs h1 h2
    cases σ' with
    | nil => simp [leStack] at hs
    | cons a as =>
      simp only [leStack, Bool.and_eq_true] at hs
      cases a with
      | cp n' => simp [leItem] at hs
      | fr k' n' i' =>
        simp only [leItem, Bool.and_eq_true, beq_iff_eq] at hs
        obtain ⟨⟨⟨rfl, hn⟩, hi⟩, hrest⟩ := hs
        exact Rel.frame (ih hrest h1 h2) hch (hcl.weaken hn hi)

theorem leB_refl (a : Bool) : leB a a = true := by cases a <;> rfl
theorem leItem_refl (a : Item) : leItem a a = true := by cases a <;> simp [leItem, leB_refl]
theorem leStack_refl (l : List Item) : leStack l l = true := by
  induction l with
  | nil => rfl
  | cons a t ih => simp [leStack, leItem_refl, ih]

namespace SInv
variable {B : Base} {st : AState} {s s' : PState}

theorem weaken (h : SInv B st s) {st' : AState} (hle : le st' st = true) : SInv B st' s := by
  simp only [le, Bool.and_eq_true] at hle
  exact Rel.weaken h hle.1.1 hle.1.2 hle.2

theorem eat (h : SInv B st s) (he : s.eat = .ok s') : SInv B st s' := by
  obtain ⟨_, h2, h3, ⟨tr, h4, h5⟩, _⟩ := PState.eat_spec he
  unfold SInv
  rw [h2, h3, h4]
  have := Rel.pushTokens h (xs := tr ++ [Tree.token s.cur.toSyntax s.curText]) (by
    intro t ht
    rcases List.mem_append.1 ht with ht | ht
    · exact h5 t ht
    · simp at ht; subst ht; rfl)
  simpa [List.append_assoc] using this

theorem skip (h : SInv B st s) {fuel : Nat} (he : PState.skip fuel s = .ok s') : SInv B st s' := by
  obtain ⟨_, h2, h3, ⟨tr, h4, h5⟩, _⟩ := PState.skip_spec _ _ _ he
  unfold SInv
  rw [h2, h3, h4]
  exact Rel.pushTokens h h5

theorem error (h : SInv B st s) (msg : String) : SInv B st (s.error msg) := h
theorem setFlag (h : SInv B st s) (b : Bool) : SInv B st { s with flag := b } := h
theorem setLocals (h : SInv B st s) (l : List Bool) : SInv B st { s with locals := l } := h

theorem startNode (h : SInv B st s) (k : SyntaxKind) :
    SInv B { st with stack := .fr k true false :: st.stack } (s.startNode k) := by
  unfold SInv
  simp only [PState.startNode]
  exact Rel.frame h (by simp) Claims.nil

theorem node_claims (k : SyntaxKind) (cs : List Tree) :
    Claims (k != .StatementList) (k == .Identifier) [Tree.node k cs] := by
  constructor
  · intro hk t ht
    simp at ht; subst ht
    cases k <;> simp_all [isSL]
  · intro hk
    have : k = .Identifier := by simpa using hk
    subst this
    exact ⟨[], _, [], rfl, rfl, fun _ h => by cases h⟩

theorem finishNode {k : SyntaxKind} {n i : Bool} {σ : List Item} {n0 i0 : Bool}
    (h : SInv B ⟨.fr k n i :: σ, n0, i0⟩ s) (hreq : (guarded k && !i) = false) (hf : s.finishNode = .ok s') :
    SInv B (addNode k ⟨σ, n0, i0⟩) s' := by
  unfold SInv at h
  unfold PState.finishNode at hf
  generalize hps : s.b.parents = ps at h hf
  generalize hcur : s.b.cur = cur at h hf
  cases h with
  | frame hr hch hcl =>
    simp only [Res.ok.injEq] at hf
    subst hf
    unfold SInv
    simp only
    have := hr.pushMany (xs := [Tree.node k cur.reverse]) (nb := k != .StatementList) (ib := k == .Identifier)
      (by
        simp only [orderedL_cons, orderedT_node, orderedL_nil, and_true]
        refine ⟨fun hg => ?_, orderedL_reverse.mpr hch⟩
        have hi : i = true := by
          cases i with
          | true => rfl
          | false => simp [hg] at hreq
        exact identF_reverse (hcl.2 hi))
      (node_claims k _)
    simpa [addNode] using this

theorem pushCp (h : SInv B st s) :
    SInv B { st with stack := .cp true :: st.stack }
      { s with cps := (s.b.parents.length, s.b.cur.length) :: s.cps } := by
  unfold SInv
  have := Rel.cp (added := []) (n := true) h (by simp) Claims.nil
  simpa using this

theorem popCp {n : Bool} {σ : List Item} {n0 i0 : Bool}
    (h : SInv B ⟨.cp n :: σ, n0, i0⟩ s) : SInv B (pushE n false ⟨σ, n0, i0⟩) { s with cps := s.cps.tail } := by
  unfold SInv at h ⊢
  generalize hcps : s.cps = cps at h
  generalize hcur : s.b.cur = cur at h
  cases h with
  | cp hr hadd hcl =>
    simp only [hcps, List.tail_cons, hcur]
    exact hr.pushMany hadd hcl

theorem startNodeAtCp {k : SyntaxKind} {n : Bool} {σ : List Item} {n0 i0 : Bool}
    (h : SInv B ⟨.cp n :: σ, n0, i0⟩ s) {cp : Nat × Nat} {rest : List (Nat × Nat)} (hcps : s.cps = cp :: rest)
    (hs : s.startNodeAt cp k = .ok s') : SInv B ⟨.fr k n false :: .cp true :: σ, n0, i0⟩ s' := by
  unfold SInv at h
  generalize hps : s.b.parents = ps at h
  generalize hcur : s.b.cur = cur at h
  rw [hcps] at h
  cases h with
  | @cp _ _ _ _ _ old added _ hr hadd hcl =>
    unfold PState.startNodeAt at hs
    simp only [hps, bne_self_eq_false, Bool.false_eq_true, if_false, hcur, List.length_append] at hs
    have : ¬ (old.length > added.length + old.length) := by omega
    simp only [this, if_false, Res.ok.injEq] at hs
    subst hs
    unfold SInv
    have hn : added.length + old.length - old.length = added.length := by omega
    simp only [hn, List.take_left', List.drop_left', hcps]
    refine Rel.frame ?_ hadd hcl
    have := Rel.cp (added := []) (n := true) hr (by simp) Claims.nil
    simpa using this

theorem le_pushE (nb ib : Bool) (st : AState) (hb : nb = true) : le st (pushE nb ib st) = true := by
  obtain ⟨σ, n0, i0⟩ := st
  subst hb
  cases σ with
  | nil => cases n0 <;> cases i0 <;> cases ib <;> simp [le, pushE, leStack, leB]
  | cons x t =>
    cases x with
    | fr k n i => cases n <;> cases i <;> cases ib <;> simp [le, pushE, leStack, leItem, leB, leStack_refl, leB_refl]
    | cp n => cases n <;> simp [le, pushE, leStack, leItem, leB, leStack_refl, leB_refl]

theorem errorNode (h : SInv B st s) (msg : String) {s1 s2 : PState}
    (he : ((s.error msg).startNode .Error).eat = .ok s1) (hf : s1.finishNode = .ok s2) : SInv B st s2 := by
  have h1 := ((h.error msg).startNode .Error).eat he
  have h2 := finishNode (k := .Error) h1 (by decide) hf
  exact h2.weaken (le_pushE _ _ _ (by decide))

end SInv

/-! ### soundness -/

theorem joinA_some {a b : Option AState} {r : AState} (h : joinA a b = some r) :
    ∃ a' b', a = some a' ∧ b = some b' ∧ le r a' = true ∧ le r b' = true := by
  unfold joinA at h
  split at h
  · rename_i a' b'
    simp only at h
    split at h
    · rename_i hc
      simp only [Option.some.injEq] at h
      subst h
      simp only [Bool.and_eq_true] at hc
      exact ⟨a', b', rfl, rfl, hc.1, hc.2⟩
    · cases h
  · cases h

theorem defs_summary (f : Fn) : ∃ n i, absStep (Grammar.defs f) init = some ⟨[], n, i⟩ ∧
    leB (!maySL f) n = true ∧ leB (identFirstOf f) i = true := by
  have := defs_checked f (Fn.mem_all f)
  split at this
  · rename_i n i heq
    simp only [Bool.and_eq_true] at this
    exact ⟨n, i, heq, this.1, this.2⟩
  · cases this

/-- **soundness** of the must-analysis -/
theorem absStep_sound (rc : List TokenKind) :
    ∀ (fuel : Nat) (B : Base) (p : Prog) (st st' : AState) (s s' : PState), absStep p st = some st' →
      SInv B st s → exec Grammar.defs rc fuel p s = .ok s' → SInv B st' s' := by
  intro fuel
  induction fuel using Nat.strongRecOn with
  | _ fuel ih =>
    intro B p st st' s s' ha hi hx
    cases fuel with
    | zero => simp [exec] at hx
    | succ n =>
      have ihn : ∀ (B : Base) (p : Prog) (st st' : AState) (s s' : PState), absStep p st = some st' →
          SInv B st s → exec Grammar.defs rc n p s = .ok s' → SInv B st' s' :=
        fun B p st st' s s' => ih n (Nat.lt_succ_self n) B p st st' s s'
      cases p with
      | nop =>
        simp only [exec, Res.ok.injEq] at hx; subst hx
        simp only [absStep, Option.some.injEq] at ha; subst ha
        exact hi
      | startNode k =>
        simp only [exec, Res.ok.injEq] at hx; subst hx
        simp only [absStep, Option.some.injEq] at ha; subst ha
        exact hi.startNode k
      | finishNode =>
        simp only [exec] at hx
        obtain ⟨σ, n0, i0⟩ := st
        simp only [absStep] at ha
        split at ha
        · rename_i k nn ii σ' heq
          try simp only at heq
          try subst heq
          split at ha
          · cases ha
          · rename_i hreq
            simp only [Option.some.injEq] at ha; subst ha
            exact SInv.finishNode hi (by simpa using hreq) hx
        · cases ha
      | pushCp =>
        simp only [exec, Res.ok.injEq] at hx; subst hx
        simp only [absStep, Option.some.injEq] at ha; subst ha
        exact hi.pushCp
      | popCp =>
        simp only [exec, Res.ok.injEq] at hx; subst hx
        obtain ⟨σ, n0, i0⟩ := st
        simp only [absStep] at ha
        split at ha
        · rename_i nn σ' heq
          try simp only at heq
          try subst heq
          simp only [Option.some.injEq] at ha; subst ha
          exact SInv.popCp hi
        · cases ha
      | startNodeAtCp k =>
        simp only [exec] at hx
        obtain ⟨σ, n0, i0⟩ := st
        simp only [absStep] at ha
        split at ha
        · rename_i nn σ' heq
          try simp only at heq
          try subst heq
          simp only [Option.some.injEq] at ha; subst ha
          split at hx
          · rename_i cp rest hcps
            exact SInv.startNodeAtCp hi hcps hx
          · cases hx
        · cases ha
      | eat =>
        simp only [exec] at hx
        simp only [absStep, Option.some.injEq] at ha; subst ha
        exact hi.eat hx
      | skip =>
        simp only [exec] at hx
        simp only [absStep, Option.some.injEq] at ha; subst ha
        exact hi.skip hx
      | eatIf k =>
        simp only [exec] at hx
        simp only [absStep, Option.some.injEq] at ha; subst ha
        split at hx
        · split at hx
          · rename_i s1 he
            simp only [Res.ok.injEq] at hx; subst hx
            exact (hi.eat he).setFlag true
          · rename_i hne; first | exact (hne _ hx).elim | cases hx
        · simp only [Res.ok.injEq] at hx; subst hx
          exact hi.setFlag false
      | expect k msg =>
        simp only [exec] at hx
        simp only [absStep, Option.some.injEq] at ha; subst ha
        split at hx
        · exact hi.eat hx
        · split at hx
          · simp only [Res.ok.injEq] at hx; subst hx; exact hi
          · simp only [Res.ok.injEq] at hx; subst hx; exact hi.error _
      | assertTok k =>
        simp only [exec] at hx
        simp only [absStep, Option.some.injEq] at ha; subst ha
        split at hx
        · exact hi.eat hx
        · cases hx
      | error msg =>
        simp only [exec, Res.ok.injEq] at hx; subst hx
        simp only [absStep, Option.some.injEq] at ha; subst ha
        exact hi.error _
      | errorAndEat msg =>
        simp only [exec] at hx
        simp only [absStep, Option.some.injEq] at ha; subst ha
        split at hx
        · rename_i s1 he
          exact hi.errorNode msg he hx
        · rename_i hne; first | exact (hne _ hx).elim | cases hx
      | errorAndRecover msg =>
        simp only [exec] at hx
        simp only [absStep, Option.some.injEq] at ha; subst ha
        split at hx
        · split at hx
          · rename_i s2 he
            exact hi.errorNode msg he hx
          · rename_i hne; first | exact (hne _ hx).elim | cases hx
        · simp only [Res.ok.injEq] at hx; subst hx; exact hi.error _
      | retB b =>
        simp only [exec, Res.ok.injEq] at hx; subst hx
        simp only [absStep, Option.some.injEq] at ha; subst ha
        exact hi.setFlag b
      | seq a b =>
        simp only [exec] at hx
        simp only [absStep, Option.bind_eq_some_iff] at ha
        obtain ⟨st1, ha1, ha2⟩ := ha
        split at hx
        · rename_i s1 h1
          exact ihn B b st1 st' s1 s' ha2 (ihn B a st st1 s s1 ha1 hi h1) hx
        · rename_i hne; first | exact (hne _ hx).elim | cases hx
      | ifAt ks t e =>
        simp only [exec] at hx
        simp only [absStep] at ha
        obtain ⟨a', b', h1, h2, l1, l2⟩ := joinA_some ha
        split at hx
        · exact (ihn B t st a' s s' h1 hi hx).weaken l1
        · exact (ihn B e st b' s s' h2 hi hx).weaken l2
      | ifFlag t e =>
        simp only [exec] at hx
        simp only [absStep] at ha
        obtain ⟨a', b', h1, h2, l1, l2⟩ := joinA_some ha
        split at hx
        · exact (ihn B t st a' s s' h1 hi hx).weaken l1
        · exact (ihn B e st b' s s' h2 hi hx).weaken l2
      | ifLocal t e =>
        simp only [exec] at hx
        simp only [absStep] at ha
        obtain ⟨a', b', h1, h2, l1, l2⟩ := joinA_some ha
        split at hx
        · exact (ihn B t st a' s s' h1 hi hx).weaken l1
        · exact (ihn B e st b' s s' h2 hi hx).weaken l2
      | loop c b =>
        simp only [exec] at hx
        have ha0 := ha
        simp only [absStep] at ha
        split at ha
        · rename_i s1a s2a hc hb
          split at ha
          · rename_i hcond
            simp only [Bool.and_eq_true] at hcond
            simp only [Option.some.injEq] at ha; subst ha
            split at hx
            · rename_i s1 h1
              have i1 := (ihn B c st s1a s s1 hc hi h1).weaken hcond.1
              split at hx
              · split at hx
                · rename_i s2 h2
                  have i2 := (ihn B b st s2a s1 s2 hb i1 h2).weaken hcond.2
                  exact ihn B (.loop c b) st st s2 s' ha0 i2 hx
                · rename_i hne; first | exact (hne _ hx).elim | cases hx
              · simp only [Res.ok.injEq] at hx; subst hx; exact i1
            · rename_i hne; first | exact (hne _ hx).elim | cases hx
          · cases ha
        · cases ha
      | call f =>
        simp only [exec] at hx
        simp only [absStep, Option.some.injEq] at ha; subst ha
        obtain ⟨nn, ii, hchk, hs1, hs2⟩ := defs_summary f
        -- run the body of `f` relative to the current builder
        let B' : Base := ⟨s.b.parents, s.b.cur, s.cps⟩
        have hi0 : SInv B' init s := by
          have := Rel.nil (B := B') (new := []) (n0 := true) (i0 := false) (by simp) Claims.nil
          simpa [SInv, init] using this
        have hr := ihn B' (Grammar.defs f) init ⟨[], nn, ii⟩ s s' hchk hi0 hx
        unfold SInv at hr
        try simp only at hr
        generalize hps' : s'.b.parents = ps' at hr
        generalize hcur' : s'.b.cur = cur' at hr
        generalize hcps' : s'.cps = cps' at hr
        cases hr with
        | @nil new _ _ hnew hH =>
          unfold SInv
          rw [hps', hcur', hcps']
          exact Rel.pushMany hi hnew (hH.weaken hs1 hs2)
      | pushLocal =>
        simp only [exec, Res.ok.injEq] at hx; subst hx
        simp only [absStep, Option.some.injEq] at ha; subst ha
        exact hi.setLocals _
      | popLocal =>
        simp only [exec, Res.ok.injEq] at hx; subst hx
        simp only [absStep, Option.some.injEq] at ha; subst ha
        exact hi.setLocals _
      | setLocal =>
        simp only [exec, Res.ok.injEq] at hx; subst hx
        simp only [absStep, Option.some.injEq] at ha; subst ha
        exact hi.setLocals _

/-- **in every parse tree the names of defsets and multiclasses come before their bodies** -/
theorem parse_ordered (input : List Char) (r : Grammar.ParseResult) (h : Grammar.parse input = .ok r) :
    orderedT r.tree := by
  unfold Grammar.parse at h
  split at h
  · rename_i s hx
    split at h
    · rename_i t hcur hpar
      simp only [Grammar.ParseOut.ok.injEq] at h
      subst h
      simp only
      let B : Base := ⟨[], [], []⟩
      have hi0 : SInv B init (PState.init input) := by
        have := Rel.nil (B := B) (new := []) (n0 := true) (i0 := false) (by simp) Claims.nil
        simpa [SInv, PState.init, init] using this
      have hr := absStep_sound _ _ B (.call .source_file) init _ _ s rfl hi0 hx
      unfold SInv at hr
      try simp only at hr
      rw [hcur, hpar] at hr
      generalize hcps' : s.cps = cps' at hr
      generalize hst : (pushE (!maySL .source_file) (identFirstOf .source_file) init) = st at hr
      have hst1 : st.stack = [] := by rw [← hst]; rfl
      rw [hst1] at hr
      generalize hc0 : [t] = c0 at hr
      generalize hp0 : ([] : List (SyntaxKind × List Tree)) = p0 at hr
      cases hr with
      | @nil new _ _ hnew hH =>
        simp only [B, List.append_nil] at hc0
        subst hc0
        simpa using hnew
    · cases h
  · cases h
  · cases h



end NameOrder
end Tg
