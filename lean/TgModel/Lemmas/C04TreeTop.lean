/-
C04 converse at the top, values checked in the tree: if `parse` accepts the input without error, the
token kinds have the statement shape, and every `Value` node of the tree has the value shape (without the
pattern `, ]`) and no `List` node ends in `, ]`, then the token kinds are a sentence of the documented
grammar.  Nothing is asked of the braces of bodies and blocks or of the trailing comma of a slice.
-/
import TgModel.Lemmas.C04MJ4

namespace Tg
namespace C04L
open Prog Grammar Frag Doc

local notation "rcv" => Tables.recoverTokens

/-! ### the node check -/

/-- `pat` occurs in `w` as a block of adjacent syntax kinds -/
def occursS (pat : List SyntaxKind) : List SyntaxKind → Bool
  | [] => pat.isEmpty
  | x :: r => pat.isPrefixOf (x :: r) || occursS pat r

theorem isPrefixOf_map {pat w : List TokenKind} (h : pat.isPrefixOf w = true) :
    (pat.map TokenKind.toSyntax).isPrefixOf (w.map TokenKind.toSyntax) = true := by
  rw [List.isPrefixOf_iff_prefix] at h ⊢
  exact List.IsPrefix.map _ h

theorem occursS_map (pat : List TokenKind) : ∀ (w : List TokenKind), occurs pat w = true →
    occursS (pat.map TokenKind.toSyntax) (w.map TokenKind.toSyntax) = true
  | [], h => by
    cases pat with
    | nil => simp [occursS]
    | cons a p => simp [occurs] at h
  | x :: r, h => by
    simp only [occurs, Bool.or_eq_true] at h
    simp only [List.map_cons, occursS, Bool.or_eq_true]
    rcases h with h | h
    · left
      have := isPrefixOf_map h
      simpa using this
    · exact Or.inr (occursS_map pat r h)

/-- the proper leaves of a `Value` node: none of the value patterns (without `, ]`) -/
def valueOKS (l : List SyntaxKind) : Bool :=
  valuePatterns0.all fun pat => !occursS (pat.map TokenKind.toSyntax) l

/-- the proper leaves of a `List` node: not ending in `, ]` -/
def listOKS (l : List SyntaxKind) : Bool :=
  !(l.reverse.take 2 == [TokenKind.RSquare.toSyntax, TokenKind.Comma.toSyntax])

/-- **the check on one node** -/
def nodeOK : Tree → Bool
  | .node .Value cs => valueOKS (lkL cs)
  | .node .List cs => listOKS (lkL cs)
  | _ => true

/-- **the check on a tree**: every `Value` node and every `List` node passes -/
def treeOK (t : Tree) : Bool := (subs t).all nodeOK

theorem valueOKS_shape {w : List TokenKind} (h : valueOKS (w.map TokenKind.toSyntax) = true) : VShape0 w := by
  intro pat hp
  simp only [valueOKS, List.all_eq_true] at h
  have := h pat hp
  cases ho : occurs pat w
  · rfl
  · rw [occursS_map pat w ho] at this; simp at this

theorem listOKS_no_trailing {w : List TokenKind} (h : listOKS (w.map TokenKind.toSyntax) = true) :
    ¬ ∃ u, w = u ++ [TokenKind.Comma, TokenKind.RSquare] := by
  rintro ⟨u, rfl⟩
  simp [listOKS] at h

/-! ### the context -/

/-- `I`: the parser invariant and a plain look-ahead; `J`: every node in the builder passes the check -/
def treeCtx (input : List Char) : RunCtx where
  I a := Inv input a ∧ plainK a.cur
  J a := ∀ t, Occ t a.b → nodeOK t = true
  hI n p a b hi h :=
    ⟨inv_exec defs rcv input n p a b hi.1 h, ((bld_exec defs rcv input n p a b hi.1 h).lk hi.2).1⟩
  hJ n p a b hi h hj t ht := hj t ((bld_exec defs rcv input n p a b hi.1 h).occ t ht)

theorem tree_listHook (input : List Char) : ListHook (treeCtx input) := by
  intro n a b hi hn h _ w hw hj
  obtain ⟨cs, hocc, hlk⟩ := list_node hi.1 hn hi.2 h hw
  have := hj _ hocc
  simp only [nodeOK] at this
  rw [hlk] at this
  exact listOKS_no_trailing this

theorem tree_valHook (input : List Char) : ValHook (treeCtx input) (fun w => Derives (.nt .Value_) w) := by
  intro n a b hi hn h hc
  obtain ⟨w, hw, hd⟩ := valueJ_run_converse (treeCtx input) (tree_listHook input) n a b hi h hc
  refine ⟨w, hw, fun hj => hd hj ?_⟩
  obtain ⟨cs, hocc, hlk⟩ := value_node hi.1 hn hi.2 h hw
  have := hj _ hocc
  simp only [nodeOK] at this
  rw [hlk] at this
  exact valueOKS_shape this

theorem tree_nameHook (input : List Char) :
    NameHook (treeCtx input) (fun w => Derives (.nt .Value_NameMode_) w) := by
  intro n a b hi hn h hc
  obtain ⟨w, hw, hd⟩ := nameJ_run_converse (treeCtx input) (tree_listHook input) n a b hi h hc
  refine ⟨w, hw, fun hj => hd hj ?_⟩
  obtain ⟨cs, hocc, hlk⟩ := name_value_node hi.1 hn hi.2 h hw
  have := hj _ hocc
  simp only [nodeOK] at this
  rw [hlk] at this
  exact valueOKS_shape this

/-- **converse at the top, values checked in the tree** -/
theorem source_file_converse_values (input : List Char) (r : ParseResult) (h : parse input = .ok r)
    (herr : r.errors = []) (hs : Shape (PState.init input).kinds) (ht : treeOK r.tree = true) :
    Doc.Sentence (PState.init input).kinds := by
  unfold parse at h
  split at h
  · rename_i s hexec
    split at h
    · rename_i t hcur hpar
      simp only [ParseOut.ok.injEq] at h
      subst h
      have he : s.errors = [] := by
        have : s.finish.errors.reverse = [] := herr
        exact finish_errors_nil (List.reverse_eq_nil_iff.mp this)
      have hc : Clean (PState.init input) s := by unfold Clean; rw [he]; exact Nat.zero_le _
      have hi : (treeCtx input).I (PState.init input) := ⟨PState.inv_init input, PState.init_plain input⟩
      have hj : (treeCtx input).J s := by
        intro t' ht'
        simp only [treeOK, List.all_eq_true] at ht
        apply ht
        rcases ht' with h1 | ⟨p, hp, _⟩
        · rw [hcur] at h1
          simpa using h1
        · rw [hpar] at hp; cases hp
      have d := (source_fileJ_inv (treeCtx input) (tree_valHook input) (tree_nameHook input) _ _ _ hi hexec hc).2 hs hj
      exact DVN.collapse (fun _ h => h) (fun _ h => h) d
    · cases h
  · cases h
  · cases h

/-! ### evaluation (for the examples) -/

/-- accepted without error, the statement shape, and the tree check -/
def acceptsTreeOK (input : List Char) : Bool :=
  match parse input with
  | .ok r => r.errors.isEmpty && treeOK r.tree
  | _ => false

theorem sentence_of_tree (input : List Char) (h : acceptsTreeOK input = true)
    (hs : Shape (PState.init input).kinds) : Doc.Sentence (PState.init input).kinds := by
  unfold acceptsTreeOK at h
  split at h
  · rename_i r hr
    simp only [Bool.and_eq_true] at h
    exact source_file_converse_values input r hr (List.isEmpty_iff.mp h.1) hs h.2
  · cases h

end C04L
end Tg
