/-
Every `Identifier` node of a parse tree is empty or begins with a non-empty token.

`Identifier` nodes are only opened by the grammar function `identifier`
(`leaf1 .Identifier .Id` = `start_node(Identifier); if eat_if(Id) {..}; finish_node()`): a syntactic
check over all grammar functions (`defs_noId`, kernel evaluation) shows that no other function opens
one; an invariant of the builder, preserved by every program that passes the check and by
`identifier` itself, gives the shape of the finished nodes.  The token is non-empty because the
look-ahead token is (`Inv.ne`: every delivered non-`Eof` token has non-empty text).
-/
import TgModel.Lemmas.ParserShape

namespace Tg

/-! ### an `Id` token does not begin with a quote -/

section lexer
open Lex

theorem Lex.next_quote (r : List Char) : (Lex.next ('"' :: r)).kind ≠ .Id := by
  have h1 : armWhitespace '"' r = none := by
    unfold armWhitespace
    rw [if_neg (by decide)]
  have h2 : armLineComment '"' r = none := by unfold armLineComment; split <;> simp_all
  have h3 : armBlockComment '"' r = none := by unfold armBlockComment; split <;> simp_all
  have h4 : armDigit '"' r = none := by unfold armDigit; rw [if_neg (by decide)]
  have h5 : armSign '"' r = none := by unfold armSign; rw [if_neg (by decide)]
  have h6 : armIdent '"' r = none := by unfold armIdent; rw [if_neg (by decide)]
  simp only [Lex.next, arms, firstArm, h1, h2, h3, h4, h5, h6, armString, beq_self_eq_true, if_true]
  split <;> simp

theorem Lex.next_id_plain (s : List Char) (h : (Lex.next s).kind = .Id) : (Lex.next s).text.head? ≠ some '"' := by
  cases s with
  | nil => simp [Lex.next] at h
  | cons c r =>
    obtain ⟨t, h1, _⟩ := (good_next c r).consumes
    rw [h1]
    simp only [List.head?_cons, ne_eq, Option.some.injEq]
    intro hc
    subst hc
    exact Lex.next_quote r h

theorem Src.processIf_notId (b : Bool) (d : Tok) (s : Src) : (Src.processIf b d s).1.kind ≠ .Id := by
  unfold Src.processIf
  dsimp only
  split
  · split <;> simp
  · simp

theorem Src.processDefine_notId (d : Tok) (s : Src) : (Src.processDefine d s).1.kind ≠ .Id := by
  unfold Src.processDefine
  dsimp only
  split <;> simp

theorem Src.eat_fst_of_id (s : Src) (h : (s.eat).1.kind = .Id) : (s.eat).1 = (s.lexEat).1 := by
  unfold Src.eat at h ⊢
  generalize s.lexEat = p at h ⊢
  obtain ⟨t, s1⟩ := p
  simp only at h ⊢
  revert h
  split
  · intro h; exact absurd h (Src.processIf_notId _ _ _)
  · intro h; exact absurd h (Src.processIf_notId _ _ _)
  · intro h; simp at h
  · intro h; simp at h
  · intro h; exact absurd h (Src.processDefine_notId _ _)
  · rename_i hk; intro h; simp only at h; rw [hk] at h
  · intro _; rfl

theorem Src.eat_id_plain (s : Src) (h : (s.eat).1.kind = .Id) : (s.eat).1.text.head? ≠ some '"' := by
  have he := Src.eat_fst_of_id s h
  rw [he] at h ⊢
  unfold Src.lexEat at h ⊢
  exact Lex.next_id_plain _ h

end lexer

/-- the look-ahead token, if it is an `Id`, does not begin with a quote -/
def CurTok (s : PState) : Prop := s.cur = .Id → s.curText.head? ≠ some '"'

theorem tok_lex (s : PState) : CurTok s.lex := by
  intro h
  unfold PState.lex at h ⊢
  exact Src.eat_id_plain s.src h

theorem tok_skip : ∀ (fuel : Nat) {s s' : PState}, CurTok s → PState.skip fuel s = .ok s' → CurTok s'
  | 0, _, _, _, h => by simp [PState.skip] at h
  | fuel + 1, s, s', ht, h => by
    simp only [PState.skip] at h
    split at h
    · split at h
      · exact tok_skip fuel (tok_lex _) h
      · rename_i hne; first | exact (hne _ h).elim | cases h
    · simp only [Res.ok.injEq] at h; subst h; exact ht

theorem tok_eat {s s' : PState} (h : s.eat = .ok s') : CurTok s' := by
  unfold PState.eat at h
  split at h
  · exact tok_skip _ (tok_lex _) h
  · rename_i hne; first | exact (hne _ h).elim | cases h

theorem tok_init (input : List Char) : CurTok (PState.init input) := by
  intro h
  unfold PState.init at h ⊢
  exact Src.eat_id_plain _ h

/-! ### the green-tree predicate -/

/-- children of an `Identifier` node: none, or first a non-empty token that does not begin with a quote -/
def idHead : List Tree → Prop
  | [] => True
  | .token _ txt :: _ => txt ≠ [] ∧ txt.head? ≠ some '"'
  | .node _ _ :: _ => False

mutual
/-- every `Identifier` node of the tree is empty or begins with a non-empty token -/
def Tree.idOK : Tree → Prop
  | .token _ _ => True
  | .node k cs => (k = .Identifier → idHead cs) ∧ idOKL cs
def idOKL : List Tree → Prop
  | [] => True
  | c :: cs => c.idOK ∧ idOKL cs
end

@[simp] theorem idOKL_nil : idOKL [] = True := by simp [idOKL]
@[simp] theorem idOKL_cons (c : Tree) (cs : List Tree) : idOKL (c :: cs) = (c.idOK ∧ idOKL cs) := by simp [idOKL]
@[simp] theorem Tree.idOK_token (k : SyntaxKind) (t : List Char) : (Tree.token k t).idOK = True := by simp [Tree.idOK]
@[simp] theorem Tree.idOK_node (k : SyntaxKind) (cs : List Tree) :
    (Tree.node k cs).idOK = ((k = .Identifier → idHead cs) ∧ idOKL cs) := by simp [Tree.idOK]

theorem idOKL_iff {l : List Tree} : idOKL l ↔ ∀ t ∈ l, t.idOK := by
  induction l with
  | nil => simp
  | cons c cs ih => simp [ih]

theorem idOKL_append {a b : List Tree} : idOKL (a ++ b) ↔ idOKL a ∧ idOKL b := by
  simp only [idOKL_iff, List.mem_append]
  constructor
  · intro h; exact ⟨fun t ht => h t (Or.inl ht), fun t ht => h t (Or.inr ht)⟩
  · rintro ⟨h1, h2⟩ t (ht | ht)
    · exact h1 t ht
    · exact h2 t ht

theorem idOKL_reverse {a : List Tree} : idOKL a.reverse ↔ idOKL a := by
  simp only [idOKL_iff, List.mem_reverse]

theorem idOKL_of_tokens {l : List Tree} (h : ∀ t ∈ l, isTokenTree t = true) : idOKL l := by
  rw [idOKL_iff]
  intro t ht
  have := h t ht
  cases t with
  | token => simp
  | node => simp [isTokenTree] at this

theorem idOKL_sub {a b : List Tree} (h : idOKL b) (hs : ∀ t ∈ a, t ∈ b) : idOKL a := by
  rw [idOKL_iff] at h ⊢
  exact fun t ht => h t (hs t ht)

/-! ### the builder invariant -/

/-- everything built so far is fine, and no `Identifier` node is open -/
structure IdInv (s : PState) : Prop where
  cur : idOKL s.b.cur
  parents : ∀ p ∈ s.b.parents, p.1 ≠ .Identifier ∧ idOKL p.2
  tok : CurTok s

namespace IdInv
variable {s s' : PState}

theorem of_b (h : IdInv s) (hb : s'.b = s.b) (hc : s'.cur = s.cur := by rfl) (ht : s'.curText = s.curText := by rfl) :
    IdInv s' := ⟨by rw [hb]; exact h.cur, by rw [hb]; exact h.parents, by unfold CurTok; rw [hc, ht]; exact h.tok⟩

theorem pushed (h : IdInv s) (hp : s'.b.parents = s.b.parents) {tr : List Tree} (hc : s'.b.cur = tr ++ s.b.cur)
    (htr : ∀ t ∈ tr, isTokenTree t = true) (ht : CurTok s') : IdInv s' :=
  ⟨by rw [hc]; exact idOKL_append.mpr ⟨idOKL_of_tokens htr, h.cur⟩, by rw [hp]; exact h.parents, ht⟩

theorem eat (h : IdInv s) (he : s.eat = .ok s') : IdInv s' := by
  obtain ⟨_, h2, _, ⟨tr, h4, h5⟩, _⟩ := PState.eat_spec he
  refine h.pushed h2 (tr := tr ++ [Tree.token s.cur.toSyntax s.curText]) (by rw [h4]; simp) ?_ (tok_eat he)
  intro t ht
  simp only [List.mem_append, List.mem_singleton] at ht
  rcases ht with ht | rfl
  · exact h5 t ht
  · rfl

theorem skip {fuel : Nat} (h : IdInv s) (he : PState.skip fuel s = .ok s') : IdInv s' := by
  obtain ⟨_, h2, _, ⟨tr, h4, h5⟩, _⟩ := PState.skip_spec _ _ _ he
  exact h.pushed h2 h4 h5 (tok_skip _ h.tok he)

theorem error (h : IdInv s) (msg : String) : IdInv (s.error msg) := h.of_b rfl

theorem startNode (h : IdInv s) {k : SyntaxKind} (hk : k ≠ .Identifier) : IdInv (s.startNode k) := by
  refine ⟨by simp [PState.startNode], ?_, h.tok⟩
  intro p hp
  simp only [PState.startNode, List.mem_cons] at hp
  rcases hp with rfl | hp
  · exact ⟨hk, h.cur⟩
  · exact h.parents p hp

theorem finishNode (h : IdInv s) (hf : s.finishNode = .ok s') : IdInv s' := by
  unfold PState.finishNode at hf
  split at hf
  · cases hf
  · rename_i k sibs ps hps
    simp only [Res.ok.injEq] at hf
    subst hf
    have hk := h.parents (k, sibs) (by rw [hps]; simp)
    refine ⟨?_, ?_, h.tok⟩
    · simp only [idOKL_cons, Tree.idOK_node]
      exact ⟨⟨fun he => absurd he hk.1, idOKL_reverse.mpr h.cur⟩, hk.2⟩
    · intro p hp
      exact h.parents p (by rw [hps]; exact List.mem_cons_of_mem _ hp)

theorem startNodeAt (h : IdInv s) {k : SyntaxKind} (hk : k ≠ .Identifier) {cp : Nat × Nat}
    (hs : s.startNodeAt cp k = .ok s') : IdInv s' := by
  unfold PState.startNodeAt at hs
  split at hs
  · cases hs
  · split at hs
    · cases hs
    · simp only [Res.ok.injEq] at hs
      subst hs
      refine ⟨idOKL_sub h.cur (fun t ht => List.mem_of_mem_take ht), ?_, h.tok⟩
      intro p hp
      simp only [List.mem_cons] at hp
      rcases hp with rfl | hp
      · exact ⟨hk, idOKL_sub h.cur (fun t ht => List.mem_of_mem_drop ht)⟩
      · exact h.parents p hp

/-- `start_node(Error); eat; finish_node` -/
theorem errorNode (h : IdInv s) (msg : String) {s1 s2 : PState}
    (he : ((s.error msg).startNode .Error).eat = .ok s1) (hf : s1.finishNode = .ok s2) : IdInv s2 :=
  (((h.error msg).startNode (k := .Error) (by decide)).eat he).finishNode hf

end IdInv

/-! ### the syntactic check -/

/-- the program opens no `Identifier` node itself -/
def noIdStart : Prog → Bool
  | .startNode k => k != .Identifier
  | .startNodeAtCp k => k != .Identifier
  | .seq a b => noIdStart a && noIdStart b
  | .ifAt _ t e => noIdStart t && noIdStart e
  | .ifFlag t e => noIdStart t && noIdStart e
  | .ifLocal t e => noIdStart t && noIdStart e
  | .loop c b => noIdStart c && noIdStart b
  | _ => true

/-- only `identifier` opens `Identifier` nodes (kernel evaluation) -/
theorem defs_noId : ∀ f ∈ Fn.all, f = .identifier ∨ noIdStart (Grammar.defs f) = true := by decide +kernel

theorem defs_identifier : Grammar.defs .identifier =
    .seq (.startNode .Identifier) (.seq (.eatIf .Id)
      (.ifFlag (.seq .finishNode (.retB true)) (.seq .finishNode (.retB false)))) := rfl

section
variable {rc : List TokenKind}

/-- `finish_node(); return b` -/
theorem exec_finish_ret {fuel : Nat} {b : Bool} {s s' : PState}
    (h : exec Grammar.defs rc fuel (.seq .finishNode (.retB b)) s = .ok s') :
    ∃ s1, s.finishNode = .ok s1 ∧ s'.b = s1.b ∧ s'.cur = s1.cur ∧ s'.curText = s1.curText := by
  obtain ⟨n, s1, _, h1, h2⟩ := exec_seq h
  refine ⟨s1, exec_finishNode h1, ?_⟩
  cases n with
  | zero => simp [exec] at h2
  | succ m => simp only [exec, Res.ok.injEq] at h2; subst h2; exact ⟨rfl, rfl, rfl⟩

/-- the grammar function `identifier` -/
theorem identifier_idInv {input : List Char} {fuel : Nat} {s s' : PState} (hinv : Inv input s) (h : IdInv s)
    (hx : exec Grammar.defs rc fuel (Grammar.defs .identifier) s = .ok s') : IdInv s' := by
  rw [defs_identifier] at hx
  obtain ⟨n1, s1, _, h1, hx⟩ := exec_seq hx
  have hs1 := exec_startNode h1
  subst hs1
  obtain ⟨n2, s2, _, h2, hx⟩ := exec_seq hx
  -- the node `Identifier` is open with no children
  have hfin : ∀ {s3 s4 : PState}, s3.b.parents = (.Identifier, s.b.cur) :: s.b.parents →
      idHead s3.b.cur.reverse → idOKL s3.b.cur → CurTok s3 → s3.finishNode = .ok s4 → IdInv s4 := by
    intro s3 s4 hp hh hc htk hf
    unfold PState.finishNode at hf
    rw [hp] at hf
    simp only [Res.ok.injEq] at hf
    subst hf
    exact ⟨by simp only [idOKL_cons, Tree.idOK_node]; exact ⟨⟨fun _ => hh, idOKL_reverse.mpr hc⟩, h.cur⟩,
      h.parents, htk⟩
  cases n2 with
  | zero => simp [exec] at h2
  | succ m =>
    simp only [exec] at h2
    split at h2
    · rename_i hcur
      split at h2
      · rename_i s1e he
        simp only [Res.ok.injEq] at h2
        subst h2
        obtain ⟨_, hp, _, ⟨tr, hc, htr⟩, _⟩ := PState.eat_spec he
        have hcurId : s.cur = .Id := by simpa [PState.startNode] using hcur
        have hne : s.curText ≠ [] := hinv.ne (by rw [hcurId]; decide)
        simp only [exec] at hx
        simp only [if_true] at hx
        obtain ⟨s3, hf, hb, hb1, hb2⟩ := exec_finish_ret hx
        have hnq : s.curText.head? ≠ some '"' := h.tok hcurId
        refine (hfin (s3 := { s1e with flag := true }) (by simpa [PState.startNode] using hp) ?_ ?_
          (fun hh => (tok_eat he : CurTok s1e) hh) hf).of_b
          hb hb1 hb2
        · show idHead s1e.b.cur.reverse
          rw [hc]
          simp [PState.startNode, idHead, hne, hnq]
        · show idOKL s1e.b.cur
          rw [hc]
          exact idOKL_append.mpr ⟨idOKL_of_tokens htr, by simp [PState.startNode]⟩
      · rename_i hne; first | exact (hne _ h2).elim | cases h2
    · simp only [Res.ok.injEq] at h2
      subst h2
      simp only [exec] at hx
      simp only [Bool.false_eq_true, if_false] at hx
      obtain ⟨s3, hf, hb, hb1, hb2⟩ := exec_finish_ret hx
      exact (hfin (s3 := { s.startNode .Identifier with flag := false }) (by simp [PState.startNode])
        (by simp [PState.startNode, idHead]) (by simp [PState.startNode]) h.tok hf).of_b hb hb1 hb2

/-- **soundness**: a program that passes the check keeps the builder invariant -/
theorem idInv_exec (input : List Char) :
    ∀ (fuel : Nat) (p : Prog) (s s' : PState), noIdStart p = true → Inv input s → IdInv s →
      exec Grammar.defs rc fuel p s = .ok s' → IdInv s' := by
  intro fuel
  induction fuel with
  | zero => intro p s s' _ _ _ hx; simp [exec] at hx
  | succ n ih =>
    intro p s s' hc hinv hi hx
    have inv' : ∀ (p : Prog) (s s' : PState), Inv input s → exec Grammar.defs rc n p s = .ok s' → Inv input s' :=
      fun p s s' => inv_exec Grammar.defs rc input n p s s'
    cases p with
    | nop => simp only [exec, Res.ok.injEq] at hx; subst hx; exact hi
    | startNode k =>
      simp only [exec, Res.ok.injEq] at hx; subst hx
      exact hi.startNode (by simpa [noIdStart] using hc)
    | finishNode => simp only [exec] at hx; exact hi.finishNode hx
    | pushCp => simp only [exec, Res.ok.injEq] at hx; subst hx; exact hi.of_b rfl
    | popCp => simp only [exec, Res.ok.injEq] at hx; subst hx; exact hi.of_b rfl
    | startNodeAtCp k =>
      simp only [exec] at hx
      split at hx
      · exact hi.startNodeAt (by simpa [noIdStart] using hc) hx
      · cases hx
    | eat => simp only [exec] at hx; exact hi.eat hx
    | skip => simp only [exec] at hx; exact hi.skip hx
    | eatIf k =>
      simp only [exec] at hx
      split at hx
      · split at hx
        · rename_i s1 he
          simp only [Res.ok.injEq] at hx; subst hx
          exact (hi.eat he).of_b rfl
        · rename_i hne; first | exact (hne _ hx).elim | cases hx
      · simp only [Res.ok.injEq] at hx; subst hx
        exact hi.of_b rfl
    | expect k msg =>
      simp only [exec] at hx
      split at hx
      · exact hi.eat hx
      · split at hx
        · simp only [Res.ok.injEq] at hx; subst hx; exact hi
        · simp only [Res.ok.injEq] at hx; subst hx; exact hi.error _
    | assertTok k =>
      simp only [exec] at hx
      split at hx
      · exact hi.eat hx
      · cases hx
    | error msg => simp only [exec, Res.ok.injEq] at hx; subst hx; exact hi.error _
    | errorAndEat msg =>
      simp only [exec] at hx
      split at hx
      · rename_i s1 he
        exact hi.errorNode msg he hx
      · rename_i hne; first | exact (hne _ hx).elim | cases hx
    | errorAndRecover msg =>
      simp only [exec] at hx
      split at hx
      · split at hx
        · rename_i s2 he
          exact hi.errorNode msg he hx
        · rename_i hne; first | exact (hne _ hx).elim | cases hx
      · simp only [Res.ok.injEq] at hx; subst hx; exact hi.error _
    | retB b => simp only [exec, Res.ok.injEq] at hx; subst hx; exact hi.of_b rfl
    | seq a b =>
      simp only [exec] at hx
      simp only [noIdStart, Bool.and_eq_true] at hc
      split at hx
      · rename_i s1 h1
        exact ih b s1 s' hc.2 (inv' a s s1 hinv h1) (ih a s s1 hc.1 hinv hi h1) hx
      · rename_i hne; first | exact (hne _ hx).elim | cases hx
    | ifAt ks t e =>
      simp only [exec] at hx
      simp only [noIdStart, Bool.and_eq_true] at hc
      split at hx
      · exact ih t s s' hc.1 hinv hi hx
      · exact ih e s s' hc.2 hinv hi hx
    | ifFlag t e =>
      simp only [exec] at hx
      simp only [noIdStart, Bool.and_eq_true] at hc
      split at hx
      · exact ih t s s' hc.1 hinv hi hx
      · exact ih e s s' hc.2 hinv hi hx
    | ifLocal t e =>
      simp only [exec] at hx
      simp only [noIdStart, Bool.and_eq_true] at hc
      split at hx
      · exact ih t s s' hc.1 hinv hi hx
      · exact ih e s s' hc.2 hinv hi hx
    | loop c b =>
      simp only [exec] at hx
      have hc' := hc
      simp only [noIdStart, Bool.and_eq_true] at hc
      split at hx
      · rename_i s1 h1
        have i1 := ih c s s1 hc.1 hinv hi h1
        have v1 := inv' c s s1 hinv h1
        split at hx
        · split at hx
          · rename_i s2 h2
            exact ih (.loop c b) s2 s' hc' (inv' b s1 s2 v1 h2) (ih b s1 s2 hc.2 v1 i1 h2) hx
          · rename_i hne; first | exact (hne _ hx).elim | cases hx
        · simp only [Res.ok.injEq] at hx; subst hx; exact i1
      · rename_i hne; first | exact (hne _ hx).elim | cases hx
    | call f =>
      simp only [exec] at hx
      rcases defs_noId f (Fn.mem_all f) with rfl | hf
      · exact identifier_idInv hinv hi hx
      · exact ih _ s s' hf hinv hi hx
    | pushLocal => simp only [exec, Res.ok.injEq] at hx; subst hx; exact hi.of_b rfl
    | popLocal => simp only [exec, Res.ok.injEq] at hx; subst hx; exact hi.of_b rfl
    | setLocal => simp only [exec, Res.ok.injEq] at hx; subst hx; exact hi.of_b rfl

/-- every `Identifier` node of the tree a run of `source_file` builds is empty or begins with a
non-empty token -/
theorem source_file_idOK (input : List Char) {fuel : Nat} {s : PState}
    (hx : exec Grammar.defs rc fuel (.call .source_file) (PState.init input) = .ok s) : idOKL s.b.cur := by
  have hi0 : IdInv (PState.init input) := ⟨by simp [PState.init], by simp [PState.init], tok_init input⟩
  cases fuel with
  | zero => simp [exec] at hx
  | succ n =>
    simp only [exec] at hx
    have hsf : noIdStart (Grammar.defs .source_file) = true := by
      rcases defs_noId .source_file (Fn.mem_all _) with h | h
      · cases h
      · exact h
    exact (idInv_exec input n _ _ _ hsf (PState.inv_init input) hi0 hx).cur

end

end Tg
