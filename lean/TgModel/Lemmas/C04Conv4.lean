/-
C04 converse, widened (part 4): comma-separated loops on clean runs, and the pieces of a `class`
statement (template argument list, parent class list, body).
-/
import TgModel.Lemmas.C04Conv3

namespace Tg
namespace C04L
open Prog Grammar Frag Doc

local notation "rcv" => Tables.recoverTokens

/-! ### what a separator loop consumes -/

/-- `b = false`: items separated by commas, ending after an item; `b = true`: the loop was left at its
head — nothing at all, or a trailing comma -/
inductive SepList (Q : List TokenKind → Prop) : Bool → List TokenKind → Prop where
  | nil : SepList Q true []
  | last {w : List TokenKind} : Q w → SepList Q false w
  | cons {w rest : List TokenKind} {b : Bool} : Q w → SepList Q b rest → SepList Q b (w ++ TokenKind.Comma :: rest)

theorem SepList.true_shape {Q : List TokenKind → Prop} {w : List TokenKind} (h : SepList Q true w) :
    w = [] ∨ ∃ u, w = u ++ [TokenKind.Comma] := by
  generalize hb : true = b at h
  induction h with
  | nil => exact Or.inl rfl
  | last _ => cases hb
  | @cons w rest b _ _ ih =>
    rcases ih hb with rfl | ⟨u, rfl⟩
    · exact Or.inr ⟨w, rfl⟩
    · exact Or.inr ⟨w ++ TokenKind.Comma :: u, by simp⟩

/-- items that are derivable under a side condition `Pm` on their tokens -/
def QItem (Pm : List TokenKind → Prop) (A : E) (w : List TokenKind) : Prop := Pm w → DV VW A w

/-- the side condition passes to the pieces of a comma-separated list -/
def PmSplit (Pm : List TokenKind → Prop) : Prop :=
  ∀ u v, Pm (u ++ TokenKind.Comma :: v) → Pm u ∧ Pm v

theorem sep_star {Pm : List TokenKind → Prop} (hS : PmSplit Pm) {A : E} {w : List TokenKind}
    (h : SepList (QItem Pm A) false w) (hT : Pm w) :
    DV VW (.star (.seq (.tok [TokenKind.Comma]) A)) (TokenKind.Comma :: w) := by
  generalize hb : false = b at h
  induction h with
  | nil => cases hb
  | last hq => exact dv_cast (DV.starCons (dv_tokSeq (hq hT)) DV.starNil) (by simp)
  | @cons u rest b hq _ ih =>
    obtain ⟨h1, h2⟩ := hS _ _ hT
    exact dv_cast (DV.starCons (dv_tokSeq (hq h1)) (ih h2 hb)) (by simp)

/-- `A ("," A)*` -/
theorem sep_derives {Pm : List TokenKind → Prop} (hS : PmSplit Pm) {A : E} {w : List TokenKind}
    (h : SepList (QItem Pm A) false w) (hT : Pm w) :
    DV VW (.seq A (.star (.seq (.tok [TokenKind.Comma]) A))) w := by
  cases h with
  | last hq => exact dv_seq_nil (hq hT) DV.starNil
  | @cons u rest _ hq hr =>
    obtain ⟨h1, h2⟩ := hS _ _ hT
    exact DV.seq (hq h1) (sep_star hS hr h2)

/-- two adjacent tokens `a b` somewhere in the list -/
def adj (a b : TokenKind) : List TokenKind → Bool
  | x :: y :: r => (x == a && y == b) || adj a b (y :: r)
  | _ => false

theorem adj_mid (a b : TokenKind) : ∀ (u v : List TokenKind), adj a b (u ++ a :: b :: v) = true
  | [], v => by simp [adj]
  | [x], v => by
    have := adj_mid a b [] v
    simp only [List.nil_append] at this
    simp [adj, this]
  | x :: y :: u, v => by
    have := adj_mid a b (y :: u) v
    simp only [List.cons_append] at this
    simp [adj, this]

theorem adj_cons {a b : TokenKind} (x : TokenKind) : ∀ {v : List TokenKind}, adj a b v = true → adj a b (x :: v) = true
  | [], h => by simp [adj] at h
  | y :: r, h => by simp [adj, h]

theorem adj_append_right {a b : TokenKind} : ∀ (u : List TokenKind) {v : List TokenKind},
    adj a b v = true → adj a b (u ++ v) = true
  | [], _, h => h
  | x :: u, _, h => adj_cons x (adj_append_right u h)

theorem adj_append_left {a b : TokenKind} : ∀ {u : List TokenKind} (v : List TokenKind),
    adj a b u = true → adj a b (u ++ v) = true
  | [], _, h => by simp [adj] at h
  | [x], _, h => by simp [adj] at h
  | x :: y :: r, v, h => by
    simp only [adj, Bool.or_eq_true] at h
    rcases h with h | h
    · simp [adj, h]
    · have := adj_append_left (u := y :: r) v h
      simp only [List.cons_append] at this
      simp [adj, this]

theorem adj_false_append {a b : TokenKind} {u v : List TokenKind} (h : adj a b (u ++ v) = false) :
    adj a b u = false ∧ adj a b v = false := by
  constructor
  · cases hu : adj a b u
    · rfl
    · rw [adj_append_left v hu] at h; cases h
  · cases hv : adj a b v
    · rfl
    · rw [adj_append_right u hv] at h; cases h

theorem adj_false_cons {a b x : TokenKind} {v : List TokenKind} (h : adj a b (x :: v) = false) : adj a b v = false :=
  (adj_false_append (u := [x]) h).2

theorem split_notMem (T : TokenKind) : PmSplit (fun w => T ∉ w) :=
  fun _ _ h => ⟨fun x => h (List.mem_append_left _ x), fun x => h (List.mem_append_right _ (List.mem_cons_of_mem _ x))⟩

theorem split_adj (a b : TokenKind) : PmSplit (fun w => adj a b w = false) :=
  fun _ _ h => ⟨(adj_false_append h).1, adj_false_cons (adj_false_append h).2⟩

/-- **inversion of `while !at(stop) { item; if !eat_if(',') break }` on a clean run** -/
theorem sep_inv (stop : List TokenKind) (item : Prog) (Q : List TokenKind → Prop) (I : PState → Prop)
    (hI : ∀ (n : Nat) (p : Prog) (a b : PState), I a → exec defs rcv n p a = .ok b → I b)
    (hitem : ∀ (n : Nat) (a b : PState), I a → exec defs rcv n item a = .ok b → Clean a b → a.afterError = false →
      ∃ w, a.kinds = w ++ b.kinds ∧ b.afterError = false ∧ Q w) :
    ∀ (n : Nat) (s s' : PState),
      exec defs rcv n (loop (ifAt stop (retB false) (seq item (eatIf .Comma))) nop) s = .ok s' → Clean s s' →
      s.afterError = false → I s →
      ∃ w b, s.kinds = w ++ s'.kinds ∧ s'.afterError = false ∧ SepList Q b w ∧
        (b = true → stop.contains s'.cur = true) ∧ (b = false → s'.cur ≠ .Comma) := by
  intro n
  induction n with
  | zero => intro s s' h; simp [exec] at h
  | succ n ih =>
    intro s s' h hc ha hi
    obtain ⟨s1, h1, c1, hcase⟩ := loop_inv h hc
    have h1 := lift_fuel h1 5
    rcases ifAt_inv defs rcv h1 with ⟨hstop, h1⟩ | ⟨_, h1⟩
    · -- at a stop token
      have e1 := retB_inv defs rcv h1; subst e1
      rcases hcase with ⟨_, rfl⟩ | ⟨hf, _⟩
      · exact ⟨[], true, rfl, ha, SepList.nil, fun _ => hstop, fun hb => by cases hb⟩
      · simp at hf
    · obtain ⟨sa, h2, c2, h3, c3⟩ := seq_inv defs rcv h1 c1
      obtain ⟨w1, k1, a1, q1⟩ := hitem _ _ _ hi h2 c2 ha
      rcases eatIf_clean (by decide) h3 with ⟨_, hfl, kc, ac, _⟩ | ⟨hne, rfl⟩
      · -- a comma: once more
        rcases hcase with ⟨hf, _⟩ | ⟨_, s2, hb, _, hl, cl⟩
        · rw [hfl] at hf; cases hf
        · have e2 := nop_inv defs rcv (lift_fuel hb 1)
          rw [e2] at hl cl
          obtain ⟨w2, b, k2, a2, sl, hs1, hs2⟩ := ih _ _ hl cl ac (hI _ _ _ _ (hI _ _ _ _ hi h2) h3)
          exact ⟨w1 ++ TokenKind.Comma :: w2, b, by rw [k1, kc, k2]; simp, a2, SepList.cons q1 sl, hs1, hs2⟩
      · -- no comma: done
        rcases hcase with ⟨_, rfl⟩ | ⟨hf, _⟩
        · exact ⟨w1, false, k1, a1, SepList.last q1, (fun hb => by cases hb), fun _ => hne⟩
        · simp at hf

/-! ### template arguments -/

theorem code_mem_of_usesCode : (t : Ty) → t.usesCode = true → TokenKind.Code ∈ t.render
  | .code, _ => List.mem_singleton.mpr rfl
  | .list t, h => by
    have := code_mem_of_usesCode t (by simpa [Ty.usesCode] using h)
    simp only [Ty.render, List.mem_cons, List.mem_append]
    exact Or.inr (Or.inr (Or.inl this))
  | .bit, h | .int, h | .string, h | .dag, h | .cls, h | .bits _, h => by simp [Ty.usesCode] at h

/-- `Type Identifier ("=" Value)?`, the default value a `VW` word -/
theorem targ_decl_inv (input : List Char) (n : Nat) (a b : PState) (hi : Inv input a)
    (h : exec defs rcv n (call .template_arg_decl) a = .ok b) (hc : Clean a b) (_ha : a.afterError = false) :
    ∃ w, a.kinds = w ++ b.kinds ∧ b.afterError = false ∧ QItem (fun w => TokenKind.Code ∉ w) (.nt .TemplateArgDecl_) w := by
  have h := call_inv defs rcv (lift_fuel h 40)
  simp only [defs, seqs, ifEatIf] at h
  obtain ⟨s1, h1, _, h, hc⟩ := seq_inv defs rcv h hc
  have i1 := inv_exec defs rcv input _ _ _ _ hi h1
  have e1 := startNode_inv defs rcv h1; subst e1
  obtain ⟨s2, h2, c2, h, hc⟩ := seq_inv defs rcv h hc
  have i2 := inv_exec defs rcv input _ _ _ _ i1 h2
  obtain ⟨t, k2, a2⟩ := type_inv _ _ _ _ (Nat.le_refl _) h2 c2
  obtain ⟨s3, h3, c3, h, hc⟩ := seq_inv defs rcv h hc
  have i3 := inv_exec defs rcv input _ _ _ _ i2 h3
  obtain ⟨k3, a3⟩ := ident_clean h3 c3
  obtain ⟨s4, h4, c4, h, hc⟩ := seq_inv defs rcv h hc
  obtain ⟨s5, h5, c5, h6, c6⟩ := seq_inv defs rcv h4 c4
  have i5 := inv_exec defs rcv input _ _ _ _ i3 h5
  obtain ⟨k7, a7, _, _⟩ := finishNode_same (finishNode_inv defs rcv h)
  have hty : TokenKind.Code ∉ t.render → DV VW (.nt .Type_) t.render := by
    intro hm
    apply DV.of
    apply d_type
    cases hu : t.usesCode
    · rfl
    · exact (hm (code_mem_of_usesCode t hu)).elim
  rcases eatIf_clean (by decide) h5 with ⟨_, hfl, k5, a5, n5⟩ | ⟨_, rfl⟩
  · rcases ifFlag_inv defs rcv h6 with ⟨_, h6⟩ | ⟨hf, _⟩
    · obtain ⟨wv, k6, dv, a6⟩ := value_clean i5 h6 c6 a5 n5
      refine ⟨t.render ++ TokenKind.Id :: TokenKind.Equal :: wv, ?_, by rw [a7, a6], ?_⟩
      · rw [← startNode_kinds a .TemplateArgDecl, k2, k3, k5, k6, k7]; simp
      · intro hm
        have hm1 : TokenKind.Code ∉ t.render := fun x => hm (List.mem_append_left _ x)
        exact DV.nt (DV.seq (hty hm1) (DV.seq (u := [TokenKind.Id]) dv_identifier
          (DV.optSome (dv_tokSeq (DV.val dv)))))
    · rw [hfl] at hf; cases hf
  · rcases ifFlag_inv defs rcv h6 with ⟨hf, _⟩ | ⟨_, h6⟩
    · simp at hf
    · have e6 := nop_inv defs rcv h6
      refine ⟨t.render ++ [TokenKind.Id], ?_, by rw [a7, e6]; exact a3, ?_⟩
      · have e6' : s4.kinds = s3.kinds := by rw [e6]; rfl
        rw [← startNode_kinds a .TemplateArgDecl, k2, k3, k7, e6']; simp
      · intro hm
        have hm1 : TokenKind.Code ∉ t.render := fun x => hm (List.mem_append_left _ x)
        exact DV.nt (DV.seq (hty hm1) (dv_seq_nil dv_identifier DV.optNone))

/-- the documented shape of a template argument list: no `code` type, at least one declaration, no
trailing comma -/
def targsShape (w : List TokenKind) : Prop :=
  TokenKind.Code ∉ w ∧ adj .Less .Greater w = false ∧ adj .Comma .Greater w = false

theorem conv_targs (input : List Char) (n : Nat) (s s' : PState) (hi : Inv input s)
    (h : exec defs rcv n (call .opt_template_arg_list) s = .ok s') (hc : Clean s s') (ha : s.afterError = false) :
    ∃ w, s.kinds = w ++ s'.kinds ∧ s'.afterError = false ∧
      (targsShape w → DV VW (.opt (.nt .TemplateArgList_)) w) := by
  have h := call_inv defs rcv (lift_fuel h 40)
  simp only [defs] at h
  rcases ifAt_inv defs rcv h with ⟨_, h⟩ | ⟨_, h⟩
  · have h := call_inv defs rcv h
    simp only [defs, seqs, delimited] at h
    obtain ⟨s1, h1, _, h, hc⟩ := seq_inv defs rcv h hc
    have i1 := inv_exec defs rcv input _ _ _ _ hi h1
    have e1 := startNode_inv defs rcv h1; subst e1
    obtain ⟨s2, h2, c2, h, hc⟩ := seq_inv defs rcv h hc
    obtain ⟨k7, a7, _, _⟩ := finishNode_same (finishNode_inv defs rcv h)
    obtain ⟨s3, h3, c3, h2, c2⟩ := seq_inv defs rcv h2 c2
    have i3 := inv_exec defs rcv input _ _ _ _ i1 h3
    obtain ⟨k3, a3⟩ := expect_clean (by decide) h3 c3 (show (s.startNode .TemplateArgList).afterError = false from ha)
    obtain ⟨s4, h4, c4, h5, c5⟩ := seq_inv defs rcv h2 c2
    obtain ⟨ws, b, k4, a4, sl, hb1, _⟩ := sep_inv _ _ _ (Inv input)
      (fun n p a b ia hab => inv_exec defs rcv input n p a b ia hab) (targ_decl_inv input) _ _ _ h4 c4 a3 i3
    obtain ⟨k5, a5⟩ := expect_clean (by decide) h5 c5 a4
    refine ⟨TokenKind.Less :: (ws ++ [TokenKind.Greater]), ?_, by rw [a7, a5], ?_⟩
    · rw [← startNode_kinds s .TemplateArgList, k3, k4, k5, k7]; simp
    · rintro ⟨hcode, hlg, hcg⟩
      cases b with
      | true =>
        rcases sl.true_shape with rfl | ⟨u, rfl⟩
        · have := adj_mid .Less .Greater [] []
          simp only [List.nil_append] at this hlg
          rw [this] at hlg; cases hlg
        · have := adj_mid .Comma .Greater (TokenKind.Less :: u) []
          simp only [List.cons_append, List.append_assoc, List.nil_append] at this hcg
          rw [this] at hcg; cases hcg
      | false =>
        have hm : TokenKind.Code ∉ ws := fun x => hcode (List.mem_cons_of_mem _ (List.mem_append_left _ x))
        have d := sep_derives (split_notMem _) sl hm
        cases d with
        | seq d1 d2 =>
          exact DV.optSome (DV.nt (dv_tokSeq (dv_cast (DV.seq d1 (DV.seq d2 (dv_tok1 _))) (by simp))))
  · have e := nop_inv defs rcv h; subst e
    exact ⟨[], rfl, ha, fun _ => DV.optNone⟩

/-! ### parent classes and the body -/

/-- `Identifier`, or `Identifier "<" …` (arguments are outside this skeleton) -/
theorem class_ref_inv (input : List Char) (n : Nat) (a b : PState) (hi : Inv input a)
    (h : exec defs rcv n (call .class_ref) a = .ok b) (hc : Clean a b) (ha : a.afterError = false) :
    ∃ w, a.kinds = w ++ b.kinds ∧ b.afterError = false ∧
      QItem (fun w => adj .Id .Less w = false) (.nt .ClassRef_) w := by
  have hb := clean_afterError defs rcv h hc ha
  have h := call_inv defs rcv (lift_fuel h 40)
  simp only [defs, seqs, ifEatIf] at h
  obtain ⟨s1, h1, _, h, hc⟩ := seq_inv defs rcv h hc
  have i1 := inv_exec defs rcv input _ _ _ _ hi h1
  have e1 := startNode_inv defs rcv h1; subst e1
  obtain ⟨s2, h2, c2, h, hc⟩ := seq_inv defs rcv h hc
  have i2 := inv_exec defs rcv input _ _ _ _ i1 h2
  obtain ⟨k2, a2⟩ := ident_clean h2 c2
  obtain ⟨s4, h4, c4, h, hc⟩ := seq_inv defs rcv h hc
  obtain ⟨s5, h5, c5, h6, c6⟩ := seq_inv defs rcv h4 c4
  have i5 := inv_exec defs rcv input _ _ _ _ i2 h5
  obtain ⟨k7, a7, _, _⟩ := finishNode_same (finishNode_inv defs rcv h)
  rcases eatIf_clean (by decide) h5 with ⟨_, hfl, k5, a5, _⟩ | ⟨_, rfl⟩
  · obtain ⟨w', k6⟩ := suffix_exec defs rcv input _ _ _ _ i5 h6
    refine ⟨TokenKind.Id :: TokenKind.Less :: w', ?_, hb, ?_⟩
    · rw [← startNode_kinds a .ClassRef, k2, k5, k6, k7]; simp
    · intro hm
      have := adj_mid .Id .Less [] w'
      simp only [List.nil_append] at this
      rw [this] at hm; cases hm
  · rcases ifFlag_inv defs rcv h6 with ⟨hf, _⟩ | ⟨_, h6⟩
    · simp at hf
    · have e6 := nop_inv defs rcv h6
      have e6' : s4.kinds = s2.kinds := by rw [e6]; rfl
      refine ⟨[TokenKind.Id], ?_, hb, ?_⟩
      · rw [← startNode_kinds a .ClassRef, k2, k7, e6']; simp
      · intro _
        exact DV.nt (dv_seq_nil dv_identifier DV.optNone)

/-- `(":" ClassRef ("," ClassRef)*)?`; a trailing comma is only taken at the end of the input -/
theorem conv_parents (input : List Char) (n : Nat) (s s' : PState) (hi : Inv input s)
    (h : exec defs rcv n (call .parent_class_list) s = .ok s') (hc : Clean s s') (ha : s.afterError = false) :
    ∃ w, s.kinds = w ++ s'.kinds ∧ s'.afterError = false ∧
      (s'.cur = .Eof ∨ (adj .Id .Less w = false → DV VW (.nt .ParentClassList_) w)) := by
  have hb := clean_afterError defs rcv h hc ha
  have h := call_inv defs rcv (lift_fuel h 40)
  simp only [defs, seqs, ifEatIf, sepLoop] at h
  obtain ⟨s1, h1, _, h, hc⟩ := seq_inv defs rcv h hc
  have i1 := inv_exec defs rcv input _ _ _ _ hi h1
  have e1 := startNode_inv defs rcv h1; subst e1
  obtain ⟨s2, h2, c2, h, hc⟩ := seq_inv defs rcv h hc
  obtain ⟨k7, a7, c7, _⟩ := finishNode_same (finishNode_inv defs rcv h)
  obtain ⟨s3, h3, c3, h4, c4⟩ := seq_inv defs rcv h2 c2
  have i3 := inv_exec defs rcv input _ _ _ _ i1 h3
  rcases eatIf_clean (by decide) h3 with ⟨_, hfl, k3, a3, _⟩ | ⟨_, rfl⟩
  · rcases ifFlag_inv defs rcv h4 with ⟨_, h4⟩ | ⟨hf, _⟩
    · obtain ⟨ws, b, k4, a4, sl, hb1, _⟩ := sep_inv _ _ _ (Inv input)
        (fun n p a b ia hab => inv_exec defs rcv input n p a b ia hab) (class_ref_inv input) _ _ _ h4 c4 a3 i3
      refine ⟨TokenKind.Colon :: ws, ?_, hb, ?_⟩
      · rw [← startNode_kinds s .ParentClassList, k3, k4, k7]; simp
      · cases b with
        | true =>
          left
          have := hb1 rfl
          rw [c7]
          simpa using this
        | false =>
          right
          intro hm
          have hm' : adj .Id .Less ws = false := adj_false_cons hm
          exact DV.nt (DV.optSome (dv_tokSeq (sep_derives (split_adj _ _) sl hm')))
    · rw [hfl] at hf; cases hf
  · rcases ifFlag_inv defs rcv h4 with ⟨hf, _⟩ | ⟨_, h4⟩
    · simp at hf
    · have e4 := nop_inv defs rcv h4
      have e4' : s2.kinds = s.kinds := by rw [e4]; rfl
      exact ⟨[], by rw [k7, e4']; rfl, hb, Or.inr (fun _ => DV.nt DV.optNone)⟩

/-- `";"`, or `"{" …` (bodies with items are outside this skeleton) -/
theorem conv_body (input : List Char) (n : Nat) (s s' : PState) (hi : Inv input s)
    (h : exec defs rcv n (call .body) s = .ok s') (hc : Clean s s') (ha : s.afterError = false) :
    ∃ w, s.kinds = w ++ s'.kinds ∧ s.cur ≠ .Eof ∧ (TokenKind.LBrace ∉ w → DV VW (.nt .Body_) w) := by
  have h := call_inv defs rcv (lift_fuel h 40)
  simp only [defs, seqs, ifEatIf] at h
  obtain ⟨s1, h1, _, h, hc⟩ := seq_inv defs rcv h hc
  have i1 := inv_exec defs rcv input _ _ _ _ hi h1
  have e1 := startNode_inv defs rcv h1; subst e1
  obtain ⟨s2, h2, c2, h, hc⟩ := seq_inv defs rcv h hc
  obtain ⟨k7, _, _, _⟩ := finishNode_same (finishNode_inv defs rcv h)
  obtain ⟨s3, h3, c3, h4, c4⟩ := seq_inv defs rcv h2 c2
  have i3 := inv_exec defs rcv input _ _ _ _ i1 h3
  rcases eatIf_clean (by decide) h3 with ⟨hcur, hfl, k3, a3, _⟩ | ⟨_, rfl⟩
  · rcases ifFlag_inv defs rcv h4 with ⟨_, h4⟩ | ⟨hf, _⟩
    · have e4 := nop_inv defs rcv h4; subst e4
      refine ⟨[TokenKind.Semi], ?_, ?_, ?_⟩
      · rw [← startNode_kinds s .Body, k3, k7]; rfl
      · have : s.cur = TokenKind.Semi := hcur
        rw [this]; decide
      · intro _; exact DV.nt (DV.altL (dv_tok1 _))
    · rw [hfl] at hf; cases hf
  · rcases ifFlag_inv defs rcv h4 with ⟨hf, _⟩ | ⟨_, h4⟩
    · simp at hf
    · obtain ⟨s5, h5, c5, h6, c6⟩ := seq_inv defs rcv h4 c4
      obtain ⟨hcur, he⟩ := expect_inv defs rcv h5 c5 (show (s.startNode .Body).afterError = false from ha)
      obtain ⟨k5, _, _⟩ := eat_plain hcur (by decide) he
      have i5 := inv_exec defs rcv input _ _ _ _ i3 h5
      obtain ⟨w', k6⟩ := suffix_exec defs rcv input _ _ _ _ i5 h6
      refine ⟨TokenKind.LBrace :: w', ?_, ?_, ?_⟩
      · have k5' : s.kinds = TokenKind.LBrace :: s5.kinds := k5
        rw [k5', k6, k7]; simp
      · have : s.cur = TokenKind.LBrace := hcur
        rw [this]; decide
      · intro hm; exact (hm (by simp)).elim

/-! ### `class` -/

theorem conv_record_body (input : List Char) (n : Nat) (s s' : PState) (hi : Inv input s)
    (h : exec defs rcv n (call .record_body) s = .ok s') (hc : Clean s s') (ha : s.afterError = false) :
    ∃ wP wB, s.kinds = (wP ++ wB) ++ s'.kinds ∧
      (adj .Id .Less wP = false → TokenKind.LBrace ∉ wB → DV VW (.nt .RecordBody_) (wP ++ wB)) := by
  have h := call_inv defs rcv (lift_fuel h 40)
  simp only [defs, seqs] at h
  obtain ⟨s1, h1, _, h, hc⟩ := seq_inv defs rcv h hc
  have i1 := inv_exec defs rcv input _ _ _ _ hi h1
  have e1 := startNode_inv defs rcv h1; subst e1
  obtain ⟨s2, h2, c2, h, hc⟩ := seq_inv defs rcv h hc
  have i2 := inv_exec defs rcv input _ _ _ _ i1 h2
  obtain ⟨wP, k2, a2, d2⟩ := conv_parents input _ _ _ i1 h2 c2 (show (s.startNode .RecordBody).afterError = false from ha)
  obtain ⟨s3, h3, c3, h, hc⟩ := seq_inv defs rcv h hc
  obtain ⟨wB, k3, hne, d3⟩ := conv_body input _ _ _ i2 h3 c3 a2
  obtain ⟨k7, _, _, _⟩ := finishNode_same (finishNode_inv defs rcv h)
  refine ⟨wP, wB, ?_, ?_⟩
  · rw [← startNode_kinds s .RecordBody, k2, k3, k7]; simp
  · intro hP hB
    rcases d2 with he | d2
    · exact (hne he).elim
    · exact DV.nt (DV.seq (d2 hP) (d3 hB))

/-- the documented shape of the `class` skeleton, as a condition on the consumed tokens: no `code` type,
no `{` (the body is `;`), no `<>` and no `,>` (template argument lists are non-empty without trailing
comma), and after `class Name` no identifier directly followed by `<` (no parent takes arguments) -/
def classShape (w : List TokenKind) : Prop :=
  TokenKind.Code ∉ w ∧ TokenKind.LBrace ∉ w ∧ adj .Less .Greater w = false ∧ adj .Comma .Greater w = false ∧
    adj .Id .Less (w.drop 2) = false

instance (w : List TokenKind) : Decidable (classShape w) := by unfold classShape; infer_instance

/-- **`class` skeleton**: on a clean run the statement parser consumed
`class Identifier <template args> <parents> <body>`; if the tokens have the documented shape, that is a
documented `Class` (with `Value` abstract) -/
theorem conv_class (input : List Char) (n : Nat) (s s' : PState) (hi : Inv input s)
    (h : exec defs rcv n (call .class_) s = .ok s') (hc : Clean s s') :
    ∃ w, s.kinds = w ++ s'.kinds ∧ (classShape w → DV VW (.nt .Class_) w) := by
  have h := call_inv defs rcv (lift_fuel h 40)
  simp only [defs, seqs] at h
  obtain ⟨s1, h1, _, h, hc⟩ := seq_inv defs rcv h hc
  have i1 := inv_exec defs rcv input _ _ _ _ hi h1
  have e1 := startNode_inv defs rcv h1; subst e1
  obtain ⟨s2, h2, _, h, hc⟩ := seq_inv defs rcv h hc
  have i2 := inv_exec defs rcv input _ _ _ _ i1 h2
  obtain ⟨k2, a2⟩ := assertTok_clean (by decide) h2
  obtain ⟨s3, h3, c3, h, hc⟩ := seq_inv defs rcv h hc
  have i3 := inv_exec defs rcv input _ _ _ _ i2 h3
  obtain ⟨k3, a3⟩ := ident_clean h3 c3
  obtain ⟨s4, h4, c4, h, hc⟩ := seq_inv defs rcv h hc
  have i4 := inv_exec defs rcv input _ _ _ _ i3 h4
  obtain ⟨wT, k4, a4, d4⟩ := conv_targs input _ _ _ i3 h4 c4 a3
  obtain ⟨s5, h5, c5, h, hc⟩ := seq_inv defs rcv h hc
  obtain ⟨wP, wB, k5, d5⟩ := conv_record_body input _ _ _ i4 h5 c5 a4
  obtain ⟨k7, _, _, _⟩ := finishNode_same (finishNode_inv defs rcv h)
  refine ⟨TokenKind.Class :: TokenKind.Id :: (wT ++ (wP ++ wB)), ?_, ?_⟩
  · rw [← startNode_kinds s .Class, k2, k3, k4, k5, k7]; simp
  · rintro ⟨hC, hB, hLG, hCG, hIL⟩
    have hT : targsShape wT := by
      refine ⟨fun x => hC ?_, ?_, ?_⟩
      · exact List.mem_cons_of_mem _ (List.mem_cons_of_mem _ (List.mem_append_left _ x))
      · exact (adj_false_append (adj_false_cons (adj_false_cons hLG))).1
      · exact (adj_false_append (adj_false_cons (adj_false_cons hCG))).1
    have hP : adj .Id .Less wP = false := by
      have : adj .Id .Less (wT ++ (wP ++ wB)) = false := hIL
      exact (adj_false_append (adj_false_append this).2).1
    have hB' : TokenKind.LBrace ∉ wB := fun x => hB
      (List.mem_cons_of_mem _ (List.mem_cons_of_mem _ (List.mem_append_right _ (List.mem_append_right _ x))))
    exact DV.nt (dv_tokSeq (DV.seq (u := [TokenKind.Id]) dv_identifier (DV.seq (d4 hT) (d5 hP hB'))))

end C04L
end Tg
