/-
List literals: the fold of `indexSimpleValue` over the element types (site LL of `Props/C13.lean`: `listStep`,
`listFold`, `listStep_reported`, `list_literal`, `list_literal_annotated`, `list_literal_unresolved`; moved here
from `Props/C13.lean`, names unchanged), and list literals of literals as values.
-/
import TgModel.Lemmas.IdeSemRun
import TgModel.Lemmas.IdeSemDiag
import TgModel.Lemmas.IdeSemDiagCore
import TgModel.Lemmas.IdeSemCore

namespace Tg.C13
open Tg Tg.Ide Tg.Ide.Index

/-! list literals: the one type of the elements -/

/-- one step of the fold over the element types of a list literal: the running element type afterwards,
and whether the element is reported -/
def listStep (sm : SymMap) (annotated : Bool) (cur typ : Ty) : Ty × Bool :=
  if sm.canBeCastedTo typ cur then (cur, false)
  else if !annotated && sm.canBeCastedTo cur typ then (typ, false)
  else
    match (if annotated then none else sm.commonTyp cur typ) with
    | some cm => (cm, false)
    | none => (cur, true)

/-- the fold: the element type in the end, and the clashing pairs (running type, element type) in order -/
def listFold (sm : SymMap) (annotated : Bool) : Option Ty → List Ty → Option Ty × List (Ty × Ty)
  | e, [] => (e, [])
  | none, t :: ts => listFold sm annotated (some t) ts
  | some cur, t :: ts =>
    let r := listFold sm annotated (some (listStep sm annotated cur t).1) ts
    (r.1, if (listStep sm annotated cur t).2 then (cur, t) :: r.2 else r.2)

def listClashMessage (p : Ty × Ty) : String := s!"list elements of type '{p.1}' and '{p.2}' are incompatible"

def reportClashes (c : IndexCtx) (f : Nat) (rg : Nat × Nat) (ps : List (Ty × Ty)) : IndexCtx :=
  ps.foldl (fun c p => c.report f rg (listClashMessage p)) c


theorem reportClashes_fileTrace (c : IndexCtx) (f : Nat) (rg : Nat × Nat) (ps : List (Ty × Ty)) :
    (reportClashes c f rg ps).fileTrace = c.fileTrace := by
  unfold reportClashes
  induction ps generalizing c with
  | nil => rfl
  | cons p t ih => simp only [List.foldl_cons]; rw [ih]; rfl

theorem reportClashes_symbolMap (c : IndexCtx) (f : Nat) (rg : Nat × Nat) (ps : List (Ty × Ty)) :
    (reportClashes c f rg ps).symbolMap = c.symbolMap := by
  unfold reportClashes
  induction ps generalizing c with
  | nil => rfl
  | cons p t ih => simp only [List.foldl_cons]; rw [ih]; rfl

/-- the reports are appended, all at the same range of the current file -/
theorem reportClashes_diagnostics (c : IndexCtx) (f : Nat) (rg : Nat × Nat) (ps : List (Ty × Ty)) :
    (reportClashes c f rg ps).diagnostics =
      c.diagnostics ++ (ps.map fun p => { location := ⟨f, rg.1, rg.2⟩, message := listClashMessage p }).toArray := by
  unfold reportClashes
  induction ps generalizing c with
  | nil => simp
  | cons p t ih =>
    simp only [List.foldl_cons]
    rw [ih]
    apply Array.ext'
    simp [IndexCtx.report]

/-- an element fits the running element type: it can be cast to it, or - in a literal without annotation -
the running type can be cast to the element's, or the two have a common type -/
def listFits (sm : SymMap) (annotated : Bool) (cur typ : Ty) : Bool :=
  sm.canBeCastedTo typ cur || (!annotated && (sm.canBeCastedTo cur typ || (sm.commonTyp cur typ).isSome))

/-- **an element is reported iff it fits in none of the three ways** -/
theorem listStep_reported (sm : SymMap) (annotated : Bool) (cur typ : Ty) :
    (listStep sm annotated cur typ).2 = !listFits sm annotated cur typ := by
  unfold listStep listFits
  cases sm.canBeCastedTo typ cur <;> cases annotated <;> cases sm.canBeCastedTo cur typ <;>
    cases sm.commonTyp cur typ <;> rfl

/-- the fold of `indexSimpleValue` over the element types, for any loop body that does what the model's does -/
theorem listFold_run (f : Nat) (rest : List Nat) (rg : Nat × Nat) (annotated : Bool)
    (G : Ty → Option Ty → IxM (ForInStep (Option Ty)))
    (hG0 : ∀ typ c, (G typ none).run c = .ok (.yield (some typ), c))
    (hG : ∀ typ cur c, c.fileTrace = f :: rest → (G typ (some cur)).run c =
      .ok (.yield (some (listStep c.symbolMap annotated cur typ).1),
        if (listStep c.symbolMap annotated cur typ).2 then c.report f rg (listClashMessage (cur, typ)) else c)) :
    ∀ (tys : List Ty) (e : Option Ty) (c : IndexCtx), c.fileTrace = f :: rest →
      (forIn tys e G).run c =
        .ok ((listFold c.symbolMap annotated e tys).1, reportClashes c f rg (listFold c.symbolMap annotated e tys).2) := by
  intro tys
  induction tys with
  | nil => intro e c _; cases e <;> rfl
  | cons t ts ih =>
    intro e c hc
    rw [List.forIn_cons]
    cases e with
    | none =>
      simp only [StateT.run_bind, hG0, Except.ok_bind]
      rw [ih (some t) c hc]
      rfl
    | some cur =>
      simp only [StateT.run_bind, hG t cur c hc, Except.ok_bind]
      by_cases hr : (listStep c.symbolMap annotated cur t).2 = true
      · simp only [hr, if_true]
        rw [ih _ (c.report f rg (listClashMessage (cur, t))) (by simpa using hc)]
        simp only [IndexCtx.report_symbolMap, listFold, hr, if_true]
        rfl
      · simp only [hr, Bool.false_eq_true, if_false]
        rw [ih _ c hc]
        simp only [listFold, hr, Bool.false_eq_true, if_false]

/-- the elements of a list literal are indexed one after the other; the types of those that have one are
collected -/
inductive ElemRuns (r : Rec) : List PTree → Array Ty → IndexCtx → Array Ty → IndexCtx → Prop
  | nil (acc : Array Ty) (c : IndexCtx) : ElemRuns r [] acc c acc c
  | cons (v : PTree) (vs : List PTree) (acc : Array Ty) (c : IndexCtx) (t : Option Ty) (c1 : IndexCtx)
      (acc' : Array Ty) (c' : IndexCtx) : (r.value v).run c = .ok (t, c1) →
      ElemRuns r vs (match t with | some ty => acc.push ty | none => acc) c1 acc' c' →
      ElemRuns r (v :: vs) acc c acc' c'

theorem elems_run (r : Rec) (B : PTree → Array Ty → IxM (ForInStep (Array Ty)))
    (hB : ∀ v acc c t c1, (r.value v).run c = .ok (t, c1) →
      (B v acc).run c = .ok (.yield (match t with | some ty => acc.push ty | none => acc), c1))
    (vs : List PTree) (acc : Array Ty) (c : IndexCtx) (acc' : Array Ty) (c' : IndexCtx)
    (h : ElemRuns r vs acc c acc' c') : (forIn vs acc B).run c = .ok (acc', c') := by
  induction h with
  | nil => rfl
  | cons v vs acc c t c1 acc' c' hv _ ih =>
    rw [List.forIn_cons]
    simp only [StateT.run_bind, hB v acc c t c1 hv, Except.ok_bind]
    exact ih

/-- **site L-list `list elements of type '…' and '…' are incompatible`, a literal without annotation**: after
the elements have been indexed (sub-calls: `ElemRuns`), the arm is exactly the fold `listFold`: the element
type is the widest of the element types or what they have in common, and every element that fits the
running type in none of the three ways (`listStep_reported`) is reported, at the range of the whole literal,
in the current file -/
theorem list_literal (r : Rec) (n vl : PTree) (hk : n.kind = .List) (hvl : Ast.listValueList n = some vl)
    (c c1 : IndexCtx) (tys : Array Ty) (helems : ElemRuns r (Ast.valueListValues vl) #[] c tys c1)
    (hty : Ast.listType n = none) (f : Nat) (rest : List Nat) (hft : c1.fileTrace = f :: rest) :
    (indexSimpleValue r n).run c =
      .ok (some (.list ((listFold c1.symbolMap false none tys.toList).1.getD .any)),
        reportClashes c1 f (nodeRange n) (listFold c1.symbolMap false none tys.toList).2) := by
  unfold indexSimpleValue
  simp only [hk, hvl, hty, StateT.run_bind]
  rw [elems_run r _ ?_ _ _ _ _ _ helems]
  · simp only [Except.ok_bind]
    rw [listFold_run f rest (nodeRange n) false _ ?_ ?_ tys.toList none c1 hft]
    · rfl
    · intro typ c; rfl
    · intro typ cur c hc
      unfold listStep
      cases sm1 : c.symbolMap.canBeCastedTo typ cur <;> cases sm2 : c.symbolMap.canBeCastedTo cur typ <;>
        cases hcm : c.symbolMap.commonTyp cur typ <;>
        simp only [StateT.run_bind, canBeCastedTo_run, sm1, sm2, hcm, withSM_run, Except.ok_bind,
          error_run _ _ c f rest hc, StateT.run_pure, Bool.false_eq_true, if_false, if_true, Option.isSome_none,
          Bool.not_false, Bool.true_and, Bool.and_true, Bool.and_false] <;> rfl
  · intro v acc c t c2 hv
    simp only [StateT.run_bind, hv, Except.ok_bind]
    cases t <;> rfl

/-- **site L-list, an annotated literal `[…]<T>`**: the annotation is resolved by `r.typ` (a class that
does not exist is reported there: site T1, `type_class_lookup`; e.g. `[]<Undefined>`); the elements must be
castable to `T`, nothing else helps -/
theorem list_literal_annotated (r : Rec) (n vl tn : PTree) (hk : n.kind = .List) (hvl : Ast.listValueList n = some vl)
    (c c1 c2 : IndexCtx) (tys : Array Ty) (helems : ElemRuns r (Ast.valueListValues vl) #[] c tys c1)
    (hty : Ast.listType n = some tn) (t : Ty) (htr : (r.typ tn).run c1 = .ok (some t, c2))
    (f : Nat) (rest : List Nat) (hft : c2.fileTrace = f :: rest) :
    (indexSimpleValue r n).run c =
      .ok (some (.list ((listFold c2.symbolMap true (some t) tys.toList).1.getD .any)),
        reportClashes c2 f (nodeRange n) (listFold c2.symbolMap true (some t) tys.toList).2) := by
  unfold indexSimpleValue
  simp only [hk, hvl, hty, StateT.run_bind]
  rw [elems_run r _ ?_ _ _ _ _ _ helems]
  · simp only [Except.ok_bind, htr, StateT.run_bind]
    rw [listFold_run f rest (nodeRange n) true _ ?_ ?_ tys.toList (some t) c2 hft]
    · rfl
    · intro typ c; rfl
    · intro typ cur c hc
      unfold listStep
      cases sm1 : c.symbolMap.canBeCastedTo typ cur <;> cases sm2 : c.symbolMap.canBeCastedTo cur typ <;>
        simp only [StateT.run_bind, canBeCastedTo_run, sm1, sm2, Except.ok_bind,
          error_run _ _ c f rest hc, StateT.run_pure, Bool.false_eq_true, if_false, if_true, Option.isSome_some,
          Bool.not_true, Bool.false_and, pure_bind] <;> rfl
  · intro v acc c t c2 hv
    simp only [StateT.run_bind, hv, Except.ok_bind]
    cases t <;> rfl

/-- an annotation that does not resolve: the literal has no type, and nothing more is reported -/
theorem list_literal_unresolved (r : Rec) (n vl tn : PTree) (hk : n.kind = .List) (hvl : Ast.listValueList n = some vl)
    (c c1 c2 : IndexCtx) (tys : Array Ty) (helems : ElemRuns r (Ast.valueListValues vl) #[] c tys c1)
    (hty : Ast.listType n = some tn) (htr : (r.typ tn).run c1 = .ok (none, c2)) :
    (indexSimpleValue r n).run c = .ok (none, c2) := by
  unfold indexSimpleValue
  simp only [hk, hvl, hty, StateT.run_bind]
  rw [elems_run r _ ?_ _ _ _ _ _ helems]
  · simp only [Except.ok_bind, htr]
    rfl
  · intro v acc c t c2 hv
    simp only [StateT.run_bind, hv, Except.ok_bind]
    cases t <;> rfl



end Tg.C13

namespace Tg
namespace Ide
open Index Tg.C13

/-! ### a value that is one list literal of literals -/

/-- the simple value of a `Value` that consists of one inner value without suffixes -/
def simpleValueNode (v : PTree) : Option PTree :=
  match Ast.valueInnerValues v with
  | [iv] =>
    match Ast.innerValueSimpleValue iv with
    | some sv => if (Ast.innerValueSuffixes iv).isEmpty then some sv else none
    | none => none
  | _ => none

theorem indexValue_simple (r : Rec) (v sv : PTree) (h : simpleValueNode v = some sv) (c : IndexCtx) :
    (indexValue r v).run c = (indexSimpleValue r sv).run c := by
  unfold simpleValueNode at h
  split at h
  · rename_i iv hiv
    split at h
    · rename_i sv' hsv
      split at h
      · rename_i hcond
        cases h
        simp only [List.isEmpty_iff] at hcond
        unfold indexValue
        simp only [hiv, List.head?_cons, List.tail_cons, List.forIn_nil, List.length_cons, List.length_nil,
          StateT.run_bind]
        have hinner : (indexInnerValue r iv).run c = (indexSimpleValue r sv).run c := by
          unfold indexInnerValue
          simp only [hsv, StateT.run_bind, hcond, List.forIn_nil]
          cases (indexSimpleValue r sv).run c with
          | error e => rfl
          | ok p =>
            obtain ⟨t, c1⟩ := p
            cases t <;> rfl
        rw [hinner]
        cases (indexSimpleValue r sv).run c with
        | error e => rfl
        | ok p => rfl
      · cases h
    · cases h
  · cases h

/-- the same literal type -/
def sameLit : Ty → Ty → Bool
  | .int, .int | .string, .string | .code, .code | .bit, .bit | .uninitialized, .uninitialized => true
  | _, _ => false

theorem sameLit_eq {a b : Ty} (h : sameLit a b = true) : a = b := by
  cases a <;> cases b <;> first | rfl | (simp [sameLit] at h)

/-- all values are literals of the type `lt` -/
def allLit (lt : Ty) : List PTree → Bool
  | [] => true
  | e :: es => (match litValueType e with | some t => sameLit t lt | none => false) && allLit lt es

/-- the element type of a list literal without annotation whose elements (at least one) are literals of
one type -/
def listLitElem (sv : PTree) : Option Ty :=
  if sv.kind == .List && (Ast.listType sv).isNone then
    match Ast.listValueList sv with
    | some vl =>
      match Ast.valueListValues vl with
      | [] => none
      | e :: es =>
        match litValueType e with
        | some lt => if allLit lt es then some lt else none
        | none => none
    | none => none
  else none

/-- the type of a value that is such a list literal -/
def listLitType (v : PTree) : Option Ty :=
  match simpleValueNode v with
  | some sv => (listLitElem sv).map .list
  | none => none

theorem elemRuns_allLit (r : Rec) (hlit : ∀ e lt c, litValueType e = some lt → (r.value e).run c = .ok (some lt, c))
    (lt : Ty) (es : List PTree) (h : allLit lt es = true) (acc : Array Ty) (c : IndexCtx) :
    ElemRuns r es acc c (acc ++ (List.replicate es.length lt).toArray) c := by
  induction es generalizing acc with
  | nil => simpa using ElemRuns.nil acc c
  | cons e es ih =>
    simp only [allLit, Bool.and_eq_true] at h
    obtain ⟨h1, h2⟩ := h
    cases hl : litValueType e with
    | none => rw [hl] at h1; cases h1
    | some t =>
      rw [hl] at h1
      have : t = lt := sameLit_eq h1
      subst this
      refine ElemRuns.cons e es acc c (some t) c _ c (hlit e t c hl) ?_
      have e1 : acc.push t ++ (List.replicate es.length t).toArray = acc ++ (List.replicate (es.length + 1) t).toArray := by
        apply Array.ext'
        simp [List.replicate_succ]
      have := ih h2 (acc.push t)
      rw [e1] at this
      exact this

theorem litCast_refl (sm : SymMap) (lt : Ty)
    (hl : lt = .int ∨ lt = .string ∨ lt = .code ∨ lt = .bit ∨ lt = .uninitialized) : sm.canBeCastedTo lt lt = true := by
  rcases hl with rfl | rfl | rfl | rfl | rfl <;> rfl

theorem listFold_replicate (sm : SymMap) (lt : Ty) (h : sm.canBeCastedTo lt lt = true) (n : Nat) :
    listFold sm false (some lt) (List.replicate n lt) = (some lt, []) := by
  induction n with
  | zero => rfl
  | succ n ih =>
    have hs : listStep sm false lt lt = (lt, false) := by unfold listStep; simp [h]
    simp only [List.replicate_succ, listFold, hs, ih]
    rfl

/-- a list literal of literals of one type: its type, nothing reported -/
theorem indexValue_listLit (r : Rec) (hlit : ∀ e lt c, litValueType e = some lt → (r.value e).run c = .ok (some lt, c))
    (v : PTree) (t : Ty) (h : listLitType v = some t) (c : IndexCtx) (f : Nat) (rest : List Nat)
    (hft : c.fileTrace = f :: rest) : (indexValue r v).run c = .ok (some t, c) := by
  unfold listLitType at h
  cases hsv : simpleValueNode v with
  | none => rw [hsv] at h; cases h
  | some sv =>
    rw [hsv] at h
    simp only at h
    rw [indexValue_simple r v sv hsv c]
    cases hel : listLitElem sv with
    | none => rw [hel] at h; cases h
    | some et =>
      rw [hel] at h
      cases h
      unfold listLitElem at hel
      split at hel
      · rename_i hcond
        simp only [Bool.and_eq_true, beq_iff_eq, Option.isNone_iff_eq_none] at hcond
        obtain ⟨hk, hty⟩ := hcond
        split at hel
        · rename_i vl hvl
          split at hel
          · cases hel
          · rename_i e es hes
            split at hel
            · rename_i lt hlt
              split at hel
              · rename_i hall
                cases hel
                have hruns : ElemRuns r (e :: es) #[] c (#[] ++ (List.replicate (e :: es).length et).toArray) c :=
                  elemRuns_allLit r hlit et (e :: es) (by
                    simp only [allLit, hlt, Bool.and_eq_true]
                    exact ⟨by rcases litValueType_cases e et hlt with rfl | rfl | rfl | rfl | rfl <;> rfl, hall⟩) #[] c
                have := list_literal r sv vl hk hvl c c _ (by rw [hes]; exact hruns) hty f rest hft
                rw [this]
                have hfold : listFold c.symbolMap false none (#[] ++ (List.replicate (e :: es).length et).toArray).toList =
                    (some et, []) := by
                  simp only [List.length_cons, List.replicate_succ, Array.toList_append, Array.toList_empty,
                    List.nil_append, listFold]
                  exact listFold_replicate _ et (litCast_refl _ et (litValueType_cases e et hlt)) _
                rw [hfold]
                rfl
              · cases hel
            · cases hel
        · cases hel
      · cases hel

theorem listLitType_core (v : PTree) (t : Ty) (h : listLitType v = some t) : ∃ et, t = .list et ∧ isPrimTy et = true := by
  unfold listLitType at h
  cases hsv : simpleValueNode v with
  | none => rw [hsv] at h; cases h
  | some sv =>
    rw [hsv] at h
    simp only at h
    cases hel : listLitElem sv with
    | none => rw [hel] at h; cases h
    | some et =>
      rw [hel] at h
      cases h
      refine ⟨et, rfl, ?_⟩
      unfold listLitElem at hel
      split at hel
      · split at hel
        · split at hel
          · cases hel
          · split at hel
            · rename_i lt hlt
              split at hel
              · cases hel
                rcases litValueType_cases _ et hlt with rfl | rfl | rfl | rfl | rfl <;> rfl
              · cases hel
            · cases hel
        · cases hel
      · cases hel

end Ide
end Tg
