/-
C04 converse, widened (part 1): two facts about *every* program of the DSL —
* a run that records no error leaves `afterError = false` if it was `false` (`quiet_exec`), so after a
  clean sub-run a missing token cannot be silently skipped by `expect`;
* the parser only ever consumes a prefix of the token sequence it is looking at (`suffix_exec`).
-/
import TgModel.Lemmas.C04Converse

namespace Tg
namespace C04L
open Prog Grammar Frag

/-! ### clean runs keep `afterError = false` -/

def Quiet (s s' : PState) : Prop :=
  s.errors.length ≤ s'.errors.length ∧
    (s'.errors.length = s.errors.length → s.afterError = false → s'.afterError = false)

theorem Quiet.refl (s : PState) : Quiet s s := ⟨Nat.le_refl _, fun _ h => h⟩

theorem Quiet.trans {a b c : PState} (h1 : Quiet a b) (h2 : Quiet b c) : Quiet a c :=
  ⟨Nat.le_trans h1.1 h2.1, fun he ha => h2.2 (by have := h1.1; have := h2.1; omega) (h1.2 (by have := h1.1; have := h2.1; omega) ha)⟩

theorem Quiet.same {s s' : PState} (he : s'.errors = s.errors) (ha : s'.afterError = s.afterError) : Quiet s s' :=
  ⟨by rw [he]; exact Nat.le_refl _, fun _ h => by rw [ha]; exact h⟩

theorem quiet_error (s : PState) (m : String) : Quiet s (s.error m) :=
  ⟨by simp [PState.error], fun he => by simp [PState.error] at he⟩

theorem quiet_save {s s1 : PState} (h : s.save = .ok s1) : Quiet s s1 := by
  unfold PState.save at h
  split at h
  · split at h
    · simp only [Res.ok.injEq] at h; subst h
      exact ⟨by simp [PState.error, PState.pushTok], fun he => by simp [PState.error, PState.pushTok] at he⟩
    · cases h
  · simp only [Res.ok.injEq] at h; subst h
    exact ⟨Nat.le_refl _, fun _ _ => rfl⟩

theorem quiet_skip (n : Nat) {s s' : PState} (h : PState.skip n s = .ok s') : Quiet s s' := by
  induction n generalizing s with
  | zero => simp [PState.skip] at h
  | succ n ih =>
    simp only [PState.skip] at h
    split at h
    · split at h
      · rename_i s1 hs; exact (quiet_save hs).trans ((Quiet.same rfl rfl : Quiet s1 s1.lex).trans (ih h))
      · rename_i hne; exact (hne _ h).elim
    · simp only [Res.ok.injEq] at h; subst h; exact Quiet.refl _

theorem quiet_eat {s s' : PState} (h : s.eat = .ok s') : Quiet s s' := by
  unfold PState.eat at h
  split at h
  · rename_i s1 hs; exact (quiet_save hs).trans ((Quiet.same rfl rfl : Quiet s1 s1.lex).trans (quiet_skip _ h))
  · rename_i hne; exact (hne _ h).elim

theorem quiet_finishNode {s s' : PState} (h : s.finishNode = .ok s') : Quiet s s' := by
  unfold PState.finishNode at h
  split at h
  · cases h
  · simp only [Res.ok.injEq] at h; subst h; exact Quiet.same rfl rfl

theorem quiet_startNodeAt {s s' : PState} {cp k} (h : s.startNodeAt cp k = .ok s') : Quiet s s' := by
  unfold PState.startNodeAt at h
  split at h
  · cases h
  · split at h
    · cases h
    · simp only [Res.ok.injEq] at h; subst h; exact Quiet.same rfl rfl

theorem quiet_exec (defs : Defs) (recover : List TokenKind) :
    ∀ (fuel : Nat) (p : Prog) (s s' : PState), exec defs recover fuel p s = .ok s' → Quiet s s' := by
  intro fuel
  induction fuel with
  | zero => intro p s s' h; simp [exec] at h
  | succ n ih =>
    intro p s s' h
    cases p with
    | nop => simp only [exec, Res.ok.injEq] at h; subst h; exact Quiet.refl _
    | startNode k => simp only [exec, Res.ok.injEq] at h; subst h; exact Quiet.same rfl rfl
    | finishNode => simp only [exec] at h; exact quiet_finishNode h
    | pushCp => simp only [exec, Res.ok.injEq] at h; subst h; exact Quiet.same rfl rfl
    | popCp => simp only [exec, Res.ok.injEq] at h; subst h; exact Quiet.same rfl rfl
    | startNodeAtCp k =>
      simp only [exec] at h
      split at h
      · exact quiet_startNodeAt h
      · cases h
    | eat => simp only [exec] at h; exact quiet_eat h
    | skip => simp only [exec] at h; exact quiet_skip _ h
    | eatIf k =>
      simp only [exec] at h
      split at h
      · split at h
        · rename_i s1 he
          simp only [Res.ok.injEq] at h; subst h
          exact (quiet_eat he).trans (Quiet.same rfl rfl)
        · rename_i hne; first | exact (hne _ h).elim | cases h
      · simp only [Res.ok.injEq] at h; subst h; exact Quiet.same rfl rfl
    | expect k msg =>
      simp only [exec] at h
      split at h
      · exact quiet_eat h
      · split at h
        · simp only [Res.ok.injEq] at h; subst h; exact Quiet.refl _
        · simp only [Res.ok.injEq] at h; subst h; exact quiet_error s _
    | assertTok k =>
      simp only [exec] at h
      split at h
      · exact quiet_eat h
      · cases h
    | error msg => simp only [exec, Res.ok.injEq] at h; subst h; exact quiet_error s _
    | errorAndEat msg =>
      simp only [exec] at h
      split at h
      · rename_i s1 he
        exact (quiet_error s _).trans ((Quiet.same rfl rfl : Quiet _ ((s.error msg).startNode .Error)).trans
          ((quiet_eat he).trans (quiet_finishNode h)))
      · rename_i hne; first | exact (hne _ h).elim | cases h
    | errorAndRecover msg =>
      simp only [exec] at h
      split at h
      · split at h
        · rename_i s2 he
          exact (quiet_error s _).trans ((Quiet.same rfl rfl : Quiet _ ((s.error msg).startNode .Error)).trans
            ((quiet_eat he).trans (quiet_finishNode h)))
        · rename_i hne; first | exact (hne _ h).elim | cases h
      · simp only [Res.ok.injEq] at h; subst h; exact quiet_error s _
    | retB b => simp only [exec, Res.ok.injEq] at h; subst h; exact Quiet.same rfl rfl
    | seq a b =>
      simp only [exec] at h
      split at h
      · rename_i s1 h1; exact (ih a s s1 h1).trans (ih b s1 s' h)
      · rename_i hne; first | exact (hne _ h).elim | cases h
    | ifAt ks t e =>
      simp only [exec] at h
      split at h
      · exact ih t s s' h
      · exact ih e s s' h
    | ifFlag t e =>
      simp only [exec] at h
      split at h
      · exact ih t s s' h
      · exact ih e s s' h
    | loop c b =>
      simp only [exec] at h
      split at h
      · rename_i s1 h1
        have g1 := ih c s s1 h1
        split at h
        · split at h
          · rename_i s2 h2; exact g1.trans ((ih b s1 s2 h2).trans (ih _ s2 s' h))
          · rename_i hne; first | exact (hne _ h).elim | cases h
        · simp only [Res.ok.injEq] at h; subst h; exact g1
      · rename_i hne; first | exact (hne _ h).elim | cases h
    | call f => simp only [exec] at h; exact ih _ s s' h
    | pushLocal => simp only [exec, Res.ok.injEq] at h; subst h; exact Quiet.same rfl rfl
    | popLocal => simp only [exec, Res.ok.injEq] at h; subst h; exact Quiet.same rfl rfl
    | setLocal => simp only [exec, Res.ok.injEq] at h; subst h; exact Quiet.same rfl rfl
    | ifLocal t e =>
      simp only [exec] at h
      split at h
      · exact ih t s s' h
      · exact ih e s s' h

/-- a clean run started with `afterError = false` ends with `afterError = false` -/
theorem clean_afterError (defs : Defs) (rc : List TokenKind) {n : Nat} {p : Prog} {s s' : PState}
    (h : exec defs rc n p s = .ok s') (hc : Clean s s') (ha : s.afterError = false) : s'.afterError = false := by
  obtain ⟨h1, h2⟩ := quiet_exec defs rc n p s s' h
  unfold Clean at hc
  exact h2 (by omega) ha

/-! ### the parser consumes a prefix of the token sequence -/

/-- `s'` looks at a suffix of what `s` looks at -/
def Suf (s s' : PState) : Prop := ∃ w, s.kinds = w ++ s'.kinds

theorem Suf.refl (s : PState) : Suf s s := ⟨[], rfl⟩
theorem Suf.trans {a b c : PState} (h1 : Suf a b) (h2 : Suf b c) : Suf a c := by
  obtain ⟨w1, e1⟩ := h1
  obtain ⟨w2, e2⟩ := h2
  exact ⟨w1 ++ w2, by rw [e1, e2, List.append_assoc]⟩
theorem Suf.same {s s' : PState} (h : s'.kinds = s.kinds) : Suf s s' := ⟨[], by rw [h]; rfl⟩

theorem src_eat_nil (src : Src) (h : src.rest = []) : (src.eat).1.kind = .Eof := by
  have hk : (src.lexEat).1.kind = .Eof := (Src.lexEat_eof src).mpr h
  unfold Src.eat
  cases hle : src.lexEat with
  | mk t s1 =>
    rw [hle] at hk
    simp only [] at hk ⊢
    rw [hk]
    exact hk

/-- `save; lex` in general (also on `Error` and `Eof` look-aheads) -/
theorem save_lex_suffix {input : List Char} {s s1 : PState} (hi : Inv input s) (hs : s.save = .ok s1) :
    Suf s s1.lex := by
  by_cases hF : s.cur = .Eof
  · -- at the end of input nothing is left
    refine ⟨[], ?_⟩
    rw [kinds_eof hF]
    have hsrc : s1.src.rest = [] := by
      obtain ⟨_, _, _, _, _, h6, _, _⟩ := PState.inv_save hi hs
      exact h6 hF
    have : s1.lex.cur = .Eof := by
      show (s1.src.eat).1.kind = .Eof
      exact src_eat_nil _ hsrc
    rw [kinds_eof this]; rfl
  · have hsrc : s1.src = srcAfter s.cur s.src := by
      unfold PState.save at hs
      unfold srcAfter
      split at hs
      · rename_i hc
        split at hs
        · rename_i m src' hte
          simp only [Res.ok.injEq] at hs; subst hs
          rw [hc]; simp only [if_true]
          show src' = s.src.takeError.2
          rw [hte]
        · cases hs
      · rename_i hc
        simp only [Res.ok.injEq] at hs; subst hs
        simp only [hc]; rfl
    refine ⟨if s.cur.isTrivia then [] else [s.cur], ?_⟩
    rw [kinds_def, feed_step _ _ hF]
    show _ = _ ++ feed (s1.lex.src.rest.length + 2) s1.lex.cur s1.lex.src
    simp only [PState.lex, hsrc]

theorem skip_suffix {input : List Char} (n : Nat) {s s' : PState} (hi : Inv input s)
    (h : PState.skip n s = .ok s') : Suf s s' := by
  induction n generalizing s with
  | zero => simp [PState.skip] at h
  | succ n ih =>
    simp only [PState.skip] at h
    split at h
    · split at h
      · rename_i s1 hs
        exact (save_lex_suffix hi hs).trans (ih (PState.inv_save_lex hi hs) h)
      · rename_i hne; exact (hne _ h).elim
    · simp only [Res.ok.injEq] at h; subst h; exact Suf.refl _

theorem eat_suffix {input : List Char} {s s' : PState} (hi : Inv input s) (h : s.eat = .ok s') : Suf s s' := by
  unfold PState.eat at h
  split at h
  · rename_i s1 hs
    exact (save_lex_suffix hi hs).trans (skip_suffix _ (PState.inv_save_lex hi hs) h)
  · rename_i hne; exact (hne _ h).elim

theorem finishNode_suffix {s s' : PState} (h : s.finishNode = .ok s') : Suf s s' :=
  Suf.same (finishNode_same h).1

theorem startNodeAt_suffix {s s' : PState} {cp k} (h : s.startNodeAt cp k = .ok s') : Suf s s' := by
  unfold PState.startNodeAt at h
  split at h
  · cases h
  · split at h
    · cases h
    · simp only [Res.ok.injEq] at h; subst h; exact Suf.same rfl

/-- **whatever a program of the DSL does, it consumes a prefix of the token kinds** -/
theorem suffix_exec (defs : Defs) (rc : List TokenKind) (input : List Char) :
    ∀ (fuel : Nat) (p : Prog) (s s' : PState), Inv input s → exec defs rc fuel p s = .ok s' → Suf s s' := by
  intro fuel
  induction fuel with
  | zero => intro p s s' _ h; simp [exec] at h
  | succ n ih =>
    intro p s s' hi h
    have hinv := fun (q : Prog) (a b : PState) (ha : Inv input a) (hq : exec defs rc n q a = .ok b) =>
      inv_exec defs rc input n q a b ha hq
    cases p with
    | nop => simp only [exec, Res.ok.injEq] at h; subst h; exact Suf.refl _
    | startNode k => simp only [exec, Res.ok.injEq] at h; subst h; exact Suf.same rfl
    | finishNode => simp only [exec] at h; exact finishNode_suffix h
    | pushCp => simp only [exec, Res.ok.injEq] at h; subst h; exact Suf.same rfl
    | popCp => simp only [exec, Res.ok.injEq] at h; subst h; exact Suf.same rfl
    | startNodeAtCp k =>
      simp only [exec] at h
      split at h
      · exact startNodeAt_suffix h
      · cases h
    | eat => simp only [exec] at h; exact eat_suffix hi h
    | skip => simp only [exec] at h; exact skip_suffix _ hi h
    | eatIf k =>
      simp only [exec] at h
      split at h
      · split at h
        · rename_i s1 he
          simp only [Res.ok.injEq] at h; subst h
          exact (eat_suffix hi he).trans (Suf.same rfl)
        · rename_i hne; first | exact (hne _ h).elim | cases h
      · simp only [Res.ok.injEq] at h; subst h; exact Suf.same rfl
    | expect k msg =>
      simp only [exec] at h
      split at h
      · exact eat_suffix hi h
      · split at h
        · simp only [Res.ok.injEq] at h; subst h; exact Suf.refl _
        · simp only [Res.ok.injEq] at h; subst h; exact Suf.same rfl
    | assertTok k =>
      simp only [exec] at h
      split at h
      · exact eat_suffix hi h
      · cases h
    | error msg => simp only [exec, Res.ok.injEq] at h; subst h; exact Suf.same rfl
    | errorAndEat msg =>
      simp only [exec] at h
      split at h
      · rename_i s1 he
        have hi1 : Inv input ((s.error msg).startNode .Error) := PState.inv_startNode (PState.inv_error hi _) _
        exact (Suf.same rfl : Suf s ((s.error msg).startNode .Error)).trans
          ((eat_suffix hi1 he).trans (finishNode_suffix h))
      · rename_i hne; first | exact (hne _ h).elim | cases h
    | errorAndRecover msg =>
      simp only [exec] at h
      split at h
      · split at h
        · rename_i s2 he
          have hi1 : Inv input ((s.error msg).startNode .Error) := PState.inv_startNode (PState.inv_error hi _) _
          exact (Suf.same rfl : Suf s ((s.error msg).startNode .Error)).trans
            ((eat_suffix hi1 he).trans (finishNode_suffix h))
        · rename_i hne; first | exact (hne _ h).elim | cases h
      · simp only [Res.ok.injEq] at h; subst h; exact Suf.same rfl
    | retB b => simp only [exec, Res.ok.injEq] at h; subst h; exact Suf.same rfl
    | seq a b =>
      simp only [exec] at h
      split at h
      · rename_i s1 h1; exact (ih a s s1 hi h1).trans (ih b s1 s' (hinv a s s1 hi h1) h)
      · rename_i hne; first | exact (hne _ h).elim | cases h
    | ifAt ks t e =>
      simp only [exec] at h
      split at h
      · exact ih t s s' hi h
      · exact ih e s s' hi h
    | ifFlag t e =>
      simp only [exec] at h
      split at h
      · exact ih t s s' hi h
      · exact ih e s s' hi h
    | loop c b =>
      simp only [exec] at h
      split at h
      · rename_i s1 h1
        have g1 := ih c s s1 hi h1
        have i1 := hinv c s s1 hi h1
        split at h
        · split at h
          · rename_i s2 h2
            exact g1.trans ((ih b s1 s2 i1 h2).trans (ih _ s2 s' (hinv b s1 s2 i1 h2) h))
          · rename_i hne; first | exact (hne _ h).elim | cases h
        · simp only [Res.ok.injEq] at h; subst h; exact g1
      · rename_i hne; first | exact (hne _ h).elim | cases h
    | call f => simp only [exec] at h; exact ih _ s s' hi h
    | pushLocal => simp only [exec, Res.ok.injEq] at h; subst h; exact Suf.same rfl
    | popLocal => simp only [exec, Res.ok.injEq] at h; subst h; exact Suf.same rfl
    | setLocal => simp only [exec, Res.ok.injEq] at h; subst h; exact Suf.same rfl
    | ifLocal t e =>
      simp only [exec] at h
      split at h
      · exact ih t s s' hi h
      · exact ih e s s' hi h

end C04L
end Tg
