/-
C04 forward direction, step 4: from the abstract contract of `statement_list_top` to
`Grammar.parse` — the simulation gives the real run, `parseFuel` is large enough because a
token-kind sequence is never longer than the input, and the builder ends with exactly one root.
-/
import TgModel.Lemmas.C04Contracts3
import TgModel.Lemmas.ParserFinish

namespace Tg
namespace C04L
open Prog Grammar Frag

theorem exec_seq (defs : Defs) (rc : List TokenKind) (n : Nat) (a b : Prog) (s : PState) :
    exec defs rc (n+1) (seq a b) s =
      (match exec defs rc n a s with
       | .ok s1 => exec defs rc n b s1
       | r => r) := by
  rw [exec]
  cases exec defs rc n a s <;> rfl

/-- forward direction with the tree, whatever the end of the text is like: the only errors are the
ones `ParserBase::finish` appends for a message left in the token source (`endErrors input`: an
unterminated conditional — preprocessor directives are trivia, so `kinds` does not see them), and
every node of the tree hands all its child nodes to its typed accessors (`goodT`) -/
theorem forward_tree_end (input : List Char) (p : Frag.Program)
    (h : (PState.init input).kinds = p.render) :
    ∃ r, parse input = .ok r ∧ r.errors = endErrors input ∧ goodT r.tree = true := by
  -- fuel
  have hlen : p.render.length ≤ input.length := by rw [← h]; exact init_kinds_length input
  obtain ⟨k, hk⟩ : ∃ k, parseFuel input = k + 6 := ⟨parseFuel input - 6, by unfold parseFuel; omega⟩
  have hkb : 64 * p.render.length + 1216 ≤ k + 3 := by unfold parseFuel at hk; omega
  -- the state after `start_node(SourceFile)`
  let s0 := PState.init input
  let s1 := s0.startNode .SourceFile
  have hi1 : Inv input s1 := PState.inv_startNode (PState.inv_init input) _
  have habs : Abs input [] [(SyntaxKind.SourceFile, [])] s1 ⟨p.render, s1.flag, 0, s1.locals, [], false, [], []⟩ := by
    refine ⟨hi1, h, rfl, rfl, (fun hc => by cases hc), ⟨Nat.zero_le _, rfl, ⟨[], rfl⟩⟩, CpAll.nil, FR.base rfl rfl⟩
  have hax := c_statement_list_top p s1.flag 0 s1.locals [] [] [] false (k + 3) hkb
  obtain ⟨s2, he2, habs2, herr2⟩ := sim Grammar.defs Tables.recoverTokens (k + 3) _ s1 _ _ habs hax
  -- look-ahead is `Eof`; the parent stack is the one `SourceFile` frame
  have hcur : s2.cur = .Eof := habs2.cur rfl
  have hpar : s2.b.parents = [(SyntaxKind.SourceFile, [])] := by
    have := habs2.b.drop; simpa using this
  have hfin : s2.finishNode = .ok { s2 with b := { cur := [Tree.node .SourceFile s2.b.cur.reverse], parents := [] } } := by
    unfold PState.finishNode; rw [hpar]
  have hrun : exec Grammar.defs Tables.recoverTokens (parseFuel input) (call .source_file) (PState.init input) =
      .ok { s2 with b := { cur := [Tree.node .SourceFile s2.b.cur.reverse], parents := [] } } := by
    rw [hk]
    show exec Grammar.defs Tables.recoverTokens (k + 5)
      (seq (startNode .SourceFile) (seq (call .statement_list_top)
        (seq (ifAt [.Eof] nop (error "unexpected input at top level")) finishNode))) s0 = _
    have e1 : exec Grammar.defs Tables.recoverTokens (k + 4) (startNode .SourceFile) s0 = .ok s1 := rfl
    have e3 : exec Grammar.defs Tables.recoverTokens (k + 2) (ifAt [.Eof] nop (error "unexpected input at top level")) s2 = .ok s2 := by
      simp only [exec, hcur]; rfl
    have e4 : exec Grammar.defs Tables.recoverTokens (k + 2) finishNode s2 = s2.finishNode := rfl
    have e34 : exec Grammar.defs Tables.recoverTokens (k + 3)
        (seq (ifAt [.Eof] nop (error "unexpected input at top level")) finishNode) s2 = s2.finishNode := by
      rw [exec_seq, e3]; exact e4
    have e234 : exec Grammar.defs Tables.recoverTokens (k + 4) (seq (call .statement_list_top)
        (seq (ifAt [.Eof] nop (error "unexpected input at top level")) finishNode)) s1 = s2.finishNode := by
      rw [exec_seq, he2]; exact e34
    rw [exec_seq, e1]; simp only []; rw [e234, hfin]
  refine ⟨{ tree := Tree.node .SourceFile s2.b.cur.reverse, errors := endErrors input, steps := s2.steps }, ?_, rfl, ?_⟩
  · rw [Grammar.parse_ok_iff]
    refine ⟨_, hrun, rfl, rfl, ?_, rfl⟩
    show endErrors input = s2.errors.reverse ++ endErrors input
    rw [herr2]; rfl
  · show goodT (Tree.node .SourceFile s2.b.cur.reverse) = true
    obtain ⟨t1, t2⟩ := habs2.fr.top
    simp only [goodT, Bool.and_eq_true]
    refine ⟨?_, by rw [goodL_reverse]; exact t2⟩
    rw [kindsOf_reverse, t1]; rfl

theorem endErrors_of_clean {input : List Char} (hend : Src.endMessage input = none) : endErrors input = [] := by
  unfold endErrors; rw [hend]

/-- forward direction with the tree: no errors when no message is left in the token source at the
end of the text, and every node of the tree hands all its child nodes to its typed accessors -/
theorem forward_tree (input : List Char) (p : Frag.Program)
    (h : (PState.init input).kinds = p.render) (hend : Src.endMessage input = none) :
    ∃ r, parse input = .ok r ∧ r.errors = [] ∧ goodT r.tree = true := by
  obtain ⟨r, h1, h2, h3⟩ := forward_tree_end input p h
  exact ⟨r, h1, by rw [h2, endErrors_of_clean hend], h3⟩

theorem forward_partial_end (input : List Char) (p : Frag.Program)
    (h : (PState.init input).kinds = p.render) :
    ∃ r, parse input = .ok r ∧ r.errors = endErrors input := by
  obtain ⟨r, h1, h2, _⟩ := forward_tree_end input p h
  exact ⟨r, h1, h2⟩

theorem forward_partial (input : List Char) (p : Frag.Program)
    (h : (PState.init input).kinds = p.render) (hend : Src.endMessage input = none) :
    ∃ r, parse input = .ok r ∧ r.errors = [] := by
  obtain ⟨r, h1, h2, _⟩ := forward_tree input p h hend
  exact ⟨r, h1, h2⟩

end C04L
end Tg
