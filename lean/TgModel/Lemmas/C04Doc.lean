/-
C04: every fragment program is a sentence of the documented grammar (`Generated/DocGrammar.lean`).
Constructive derivations, rule by rule; if a rule the fragment uses changes in `syntax.md`, the
corresponding lemma stops type-checking.
-/
import TgModel.DocSpec
import TgModel.Lemmas.C04Frag

namespace Tg
namespace C04L
open Doc Frag

/-- a terminal followed by something -/
theorem d_tokSeq {ks : List TokenKind} {k : TokenKind} {b : E} {v : List TokenKind}
    (hk : k ∈ ks) (hb : Derives b v) : Derives (.seq (.tok ks) b) (k :: v) :=
  Derives.seq (Derives.tok hk) hb

theorem d_seq_nil {a b : E} {u : List TokenKind} (ha : Derives a u) (hb : Derives b []) :
    Derives (.seq a b) u := by
  have := Derives.seq ha hb
  rwa [List.append_nil] at this

theorem d_tok1 (k : TokenKind) : Derives (.tok [k]) [k] := Derives.tok (List.mem_singleton.mpr rfl)

/-! ### types -/

theorem d_identifier : Derives (.nt .Identifier_) [TokenKind.Id] := Derives.nt (d_tok1 _)

theorem d_integer (b : Bool) : Derives (.nt .Integer_) [intKind b] := by
  apply Derives.nt
  cases b
  · exact Derives.tok (by simp [intKind])
  · exact Derives.tok (by simp [intKind])

theorem d_type : (t : Ty) → t.usesCode = false → Derives (.nt .Type_) t.render
  | .bit, _ => Derives.nt (Derives.altL (Derives.nt (d_tok1 _)))
  | .int, _ => Derives.nt (Derives.altR (Derives.altL (Derives.nt (d_tok1 _))))
  | .string, _ => Derives.nt (Derives.altR (Derives.altR (Derives.altL (Derives.nt (d_tok1 _)))))
  | .dag, _ => Derives.nt (Derives.altR (Derives.altR (Derives.altR (Derives.altL (Derives.nt (d_tok1 _))))))
  | .code, h => by simp [Ty.usesCode] at h
  | .bits b, _ =>
    Derives.nt (Derives.altR (Derives.altR (Derives.altR (Derives.altR (Derives.altL (Derives.nt
      (d_tokSeq (List.mem_singleton.mpr rfl) (d_tokSeq (List.mem_singleton.mpr rfl)
        (Derives.seq (d_integer b) (d_tok1 _))))))))))
  | .list t, h =>
    Derives.nt (Derives.altR (Derives.altR (Derives.altR (Derives.altR (Derives.altR (Derives.altL (Derives.nt
      (d_tokSeq (List.mem_singleton.mpr rfl) (d_tokSeq (List.mem_singleton.mpr rfl)
        (Derives.seq (d_type t (by simpa [Ty.usesCode] using h)) (d_tok1 _)))))))))))
  | .cls, _ =>
    Derives.nt (Derives.altR (Derives.altR (Derives.altR (Derives.altR (Derives.altR (Derives.altR
      (Derives.nt d_identifier)))))))

theorem d_dty (t : DTy) : Derives (.nt .Type_) t.render := d_type t.1 t.2

/-- `Type | CodeType` as used in `FieldDef` -/
theorem d_fty (t : FTy) : Derives (.alt (.nt .Type_) (.nt .CodeType_)) t.render := by
  cases t with
  | code => exact Derives.altR (Derives.nt (d_tok1 _))
  | ty t => exact Derives.altL (d_dty t)

/-! ### bit ranges -/

theorem d_rangePiece (p : RangePiece) : Derives (.nt .RangePiece_) p.render := by
  apply Derives.nt
  cases p with
  | single b => exact Derives.altL (d_integer b)
  | dots b1 b2 =>
    exact Derives.altR (Derives.altL (Derives.seq (d_integer b1) (d_tokSeq (List.mem_singleton.mpr rfl) (d_integer b2))))
  | minus b1 b2 =>
    exact Derives.altR (Derives.altR (Derives.altL
      (Derives.seq (d_integer b1) (d_tokSeq (List.mem_singleton.mpr rfl) (d_integer b2)))))
  | juxt b1 =>
    exact Derives.altR (Derives.altR (Derives.altR (Derives.seq (d_integer b1) (d_integer false))))

theorem d_rangeTail : (ps : List RangePiece) →
    Derives (.star (.seq (.tok [TokenKind.Comma]) (.nt .RangePiece_))) (rangeTail ps)
  | [] => Derives.starNil
  | p :: ps => Derives.starCons (d_tokSeq (List.mem_singleton.mpr rfl) (d_rangePiece p)) (d_rangeTail ps)

theorem d_rangeList (r : RangeList) : Derives (.nt .RangeList_) r.render :=
  Derives.nt (Derives.seq (d_rangePiece r.hd) (d_rangeTail r.tl))

theorem d_optRange (bra ket : TokenKind) (r : Option RangeList) :
    Derives (.opt (.seq (.tok [bra]) (.seq (.nt .RangeList_) (.tok [ket])))) (optRange bra ket r) := by
  cases r with
  | none => exact Derives.optNone
  | some r => exact Derives.optSome (d_tokSeq (List.mem_singleton.mpr rfl) (Derives.seq (d_rangeList r) (d_tok1 _)))

/-! ### values -/

theorem d_cast {e : E} {w w' : List TokenKind} (h : Derives e w) (hw : w = w') : Derives e w' := hw ▸ h

theorem d_optTy (ty : Option DTy) :
    Derives (.opt (.seq (.tok [TokenKind.Less]) (.seq (.nt .Type_) (.tok [TokenKind.Greater])))) (optTy ty) := by
  cases ty with
  | none => exact Derives.optNone
  | some t => exact Derives.optSome (d_tokSeq (List.mem_singleton.mpr rfl) (Derives.seq (d_dty t) (d_tok1 _)))

theorem d_nameR (nm : Bool) :
    Derives (.opt (.seq (.tok [TokenKind.Colon]) (.tok [TokenKind.VarName]))) (nameR nm) := by
  cases nm with
  | false => exact Derives.optNone
  | true => exact Derives.optSome (d_tokSeq (List.mem_singleton.mpr rfl) (d_tok1 _))

theorem d_fieldSuffix : Derives (.nt .ValueSuffix_) [TokenKind.Dot, TokenKind.Id] :=
  Derives.nt (Derives.altR (Derives.altR (Derives.nt (d_tokSeq (List.mem_singleton.mpr rfl) d_identifier))))

/-- `e*` can be extended on the right -/
theorem d_star_snoc {a : E} {u v : List TokenKind} (hu : Derives (.star a) u) (hv : Derives a v) :
    Derives (.star a) (u ++ v) := by
  generalize he : E.star a = e at hu
  induction hu with
  | starNil => cases he; exact d_cast (Derives.starCons hv Derives.starNil) (by simp)
  | starCons h1 _ _ ih2 =>
    cases he
    exact d_cast (Derives.starCons h1 (ih2 rfl)) (by simp [List.append_assoc])
  | _ => cases he

/-- a bang operator token is one of the documented operators -/
theorem bang_doc (k : TokenKind) (hk : Tables.bangOps.contains k = true) :
    k ∈ [TokenKind.XAdd, TokenKind.XAnd, TokenKind.XCast, TokenKind.XCon, TokenKind.XDag, TokenKind.XDiv, TokenKind.XEmpty, TokenKind.XEq, TokenKind.XExists, TokenKind.XFilter, TokenKind.XFind, TokenKind.XFoldl, TokenKind.XForEach, TokenKind.XGe, TokenKind.XGetDagArg, TokenKind.XGetDagName, TokenKind.XGetDagOp, TokenKind.XGt, TokenKind.XHead, TokenKind.XIf, TokenKind.XInitialized, TokenKind.XInterleave, TokenKind.XIsA, TokenKind.XLe, TokenKind.XListConcat, TokenKind.XListFlatten, TokenKind.XListRemove, TokenKind.XListSplat, TokenKind.XLog2, TokenKind.XLt, TokenKind.XMul, TokenKind.XNe, TokenKind.XNot, TokenKind.XOr, TokenKind.XRange, TokenKind.XRepr, TokenKind.XSetDagArg, TokenKind.XSetDagName, TokenKind.XSetDagOp, TokenKind.XShl, TokenKind.XSize, TokenKind.XSra, TokenKind.XSrl, TokenKind.XStrConcat, TokenKind.XSub, TokenKind.XSubst, TokenKind.XSubstr, TokenKind.XTail, TokenKind.XToLower, TokenKind.XToUpper, TokenKind.XXor] := by
  have h : ∀ x ∈ Tables.bangOps, x ∈ [TokenKind.XAdd, TokenKind.XAnd, TokenKind.XCast, TokenKind.XCon, TokenKind.XDag, TokenKind.XDiv, TokenKind.XEmpty, TokenKind.XEq, TokenKind.XExists, TokenKind.XFilter, TokenKind.XFind, TokenKind.XFoldl, TokenKind.XForEach, TokenKind.XGe, TokenKind.XGetDagArg, TokenKind.XGetDagName, TokenKind.XGetDagOp, TokenKind.XGt, TokenKind.XHead, TokenKind.XIf, TokenKind.XInitialized, TokenKind.XInterleave, TokenKind.XIsA, TokenKind.XLe, TokenKind.XListConcat, TokenKind.XListFlatten, TokenKind.XListRemove, TokenKind.XListSplat, TokenKind.XLog2, TokenKind.XLt, TokenKind.XMul, TokenKind.XNe, TokenKind.XNot, TokenKind.XOr, TokenKind.XRange, TokenKind.XRepr, TokenKind.XSetDagArg, TokenKind.XSetDagName, TokenKind.XSetDagOp, TokenKind.XShl, TokenKind.XSize, TokenKind.XSra, TokenKind.XSrl, TokenKind.XStrConcat, TokenKind.XSub, TokenKind.XSubst, TokenKind.XSubstr, TokenKind.XTail, TokenKind.XToLower, TokenKind.XToUpper, TokenKind.XXor] := by
    decide
  exact h k (by simpa using hk)

/-- the shape shared by bang operators: `op [<T>] ( values )` -/
theorem d_bang (k : TokenKind) (hk : Tables.bangOps.contains k = true) (ty : Option DTy) {w : List TokenKind}
    (hw : Derives (.nt .ValueList_) w) :
    Derives (.nt .BangOperator_) (k :: (optTy ty ++ TokenKind.LParen :: (w ++ [TokenKind.RParen]))) :=
  Derives.nt (Derives.altR (d_tokSeq (bang_doc k hk) (Derives.seq (d_optTy ty)
    (d_tokSeq (List.mem_singleton.mpr rfl) (Derives.seq hw (d_tok1 _))))))

mutual
theorem d_olit : (o : OLit) → Derives (.nt .SimpleValue_) o.render
  | .id =>
    Derives.nt <| Derives.altR <| Derives.altR <| Derives.altR <| Derives.altR <| Derives.altR <| Derives.altR <|
      Derives.altR <| Derives.altR <| Derives.altL d_identifier
  | .uninit =>
    Derives.nt <| Derives.altR <| Derives.altR <| Derives.altR <| Derives.altR <| Derives.altL <|
      Derives.nt (d_tok1 _)
  | .classVal .nil =>
    Derives.nt <| Derives.altR <| Derives.altR <| Derives.altR <| Derives.altR <| Derives.altR <| Derives.altR <|
      Derives.altR <| Derives.altR <| Derives.altR <| Derives.altL <| Derives.nt <| Derives.altL <|
        Derives.seq d_identifier (d_tokSeq (List.mem_singleton.mpr rfl)
          (Derives.seq (u := []) (Derives.nt Derives.optNone) (d_tok1 _)))
  | .classVal (.cons v vs) =>
    Derives.nt <| Derives.altR <| Derives.altR <| Derives.altR <| Derives.altR <| Derives.altR <| Derives.altR <|
      Derives.altR <| Derives.altR <| Derives.altR <| Derives.altL <| Derives.nt <| Derives.altL <|
        Derives.seq d_identifier (d_tokSeq (List.mem_singleton.mpr rfl)
          (d_cast (Derives.seq (Derives.nt (Derives.optSome (Derives.seq
            (Derives.nt (Derives.altL (Derives.nt (d_val v)))) (d_argtail vs)))) (d_tok1 _))
            (by simp [List.append_assoc])))
  | .castop g ty hd tl =>
    Derives.nt <| Derives.altR <| Derives.altR <| Derives.altR <| Derives.altR <| Derives.altR <| Derives.altR <|
      Derives.altR <| Derives.altR <| Derives.altR <| Derives.altR <| Derives.altL <|
        d_cast (d_bang (if g then TokenKind.XGetDagOp else TokenKind.XCast) (by cases g <;> rfl) ty
          (Derives.nt (Derives.seq (d_val hd) (d_vtail tl)))) (by simp [OLit.render, List.append_assoc])
theorem d_hlit : (h : HLit) → Derives (.nt .SimpleValue_) h.render
  | .op o => d_olit o
  | .int b => Derives.nt (Derives.altL (d_integer b))
  | .code => Derives.nt (Derives.altR (Derives.altR (Derives.altL (Derives.nt (d_tok1 _)))))
  | .tru =>
    Derives.nt (Derives.altR (Derives.altR (Derives.altR (Derives.altL (Derives.nt (Derives.altL (d_tok1 _)))))))
  | .fls =>
    Derives.nt (Derives.altR (Derives.altR (Derives.altR (Derives.altL (Derives.nt (Derives.altR (d_tok1 _)))))))
  | .bang bo ty hd tl =>
    Derives.nt <| Derives.altR <| Derives.altR <| Derives.altR <| Derives.altR <| Derives.altR <| Derives.altR <|
      Derives.altR <| Derives.altR <| Derives.altR <| Derives.altR <| Derives.altL <|
        d_cast (d_bang bo.1 bo.2 ty (Derives.nt (Derives.seq (d_val hd) (d_vtail tl))))
          (by simp [HLit.render, List.append_assoc])
  | .cond (.one c v) =>
    Derives.nt <| Derives.altR <| Derives.altR <| Derives.altR <| Derives.altR <| Derives.altR <| Derives.altR <|
      Derives.altR <| Derives.altR <| Derives.altR <| Derives.altR <| Derives.altR <| Derives.nt <|
        d_tokSeq (List.mem_singleton.mpr rfl) <| d_tokSeq (List.mem_singleton.mpr rfl) <|
          Derives.seq (Derives.nt (Derives.seq (d_val c) (d_tokSeq (List.mem_singleton.mpr rfl) (d_val v))))
            (Derives.seq (u := []) Derives.starNil (d_tok1 _))
  | .cond (.cons c v rest) =>
    Derives.nt <| Derives.altR <| Derives.altR <| Derives.altR <| Derives.altR <| Derives.altR <| Derives.altR <|
      Derives.altR <| Derives.altR <| Derives.altR <| Derives.altR <| Derives.altR <| Derives.nt <|
        d_tokSeq (List.mem_singleton.mpr rfl) <| d_tokSeq (List.mem_singleton.mpr rfl) <|
          d_cast (Derives.seq (Derives.nt (Derives.seq (d_val c) (d_tokSeq (List.mem_singleton.mpr rfl) (d_val v))))
            (Derives.seq (d_clausesTail rest) (d_tok1 _)))
            (by simp [Clauses.render, List.append_assoc])
  | .dag o sufs tl rest =>
    Derives.nt <| Derives.altR <| Derives.altR <| Derives.altR <| Derives.altR <| Derives.altR <| Derives.altR <|
      Derives.altR <| Derives.altL <| Derives.nt <| d_tokSeq (List.mem_singleton.mpr rfl) <|
        d_cast (d_dagrest rest (Derives.nt (Derives.seq (Derives.nt (Derives.seq (d_olit o) (d_suffixes sufs))) (d_svals tl))))
          (by simp [List.append_assoc])
/-- the operator value `O` is given; derive `DagArg DagArgList? ")"` for `O ++ rest` -/
theorem d_dagrest : (rest : DagRest) → {O : List TokenKind} → Derives (.nt .Value_) O →
    Derives (.seq (.nt .DagArg_) (.seq (.opt (.nt .DagArgList_)) (.tok [TokenKind.RParen]))) (O ++ rest.render)
  | .none, O, hO =>
    Derives.seq (Derives.nt (Derives.altL (d_seq_nil hO Derives.optNone)))
      (Derives.seq (u := []) Derives.optNone (d_tok1 _))
  | .named .nil, O, hO =>
    d_cast (Derives.seq (Derives.nt (Derives.altL (Derives.seq hO (d_nameR true))))
      (Derives.seq (u := []) Derives.optNone (d_tok1 _))) (by simp [DagRest.render, nameR, List.append_assoc])
  | .named (.var rest), O, hO =>
    d_cast (Derives.seq (Derives.nt (Derives.altL (Derives.seq hO (d_nameR true))))
      (Derives.seq (Derives.optSome (Derives.nt (Derives.seq (Derives.nt (Derives.altR (d_tok1 _))) (d_dagargsTail rest))))
        (d_tok1 _))) (by simp [DagRest.render, nameR, List.append_assoc])
  | .named (.val v nm rest), O, hO =>
    d_cast (Derives.seq (Derives.nt (Derives.altL (Derives.seq hO (d_nameR true))))
      (Derives.seq (Derives.optSome (Derives.nt (Derives.seq
        (Derives.nt (Derives.altL (Derives.seq (d_val v) (d_nameR nm)))) (d_dagargsTail rest))))
        (d_tok1 _))) (by simp [DagRest.render, nameR, List.append_assoc])
  | .bareVar more, O, hO =>
    d_cast (Derives.seq (Derives.nt (Derives.altL (d_seq_nil hO Derives.optNone)))
      (Derives.seq (Derives.optSome (Derives.nt (Derives.seq (Derives.nt (Derives.altR (d_tok1 _))) (d_dagargsTail more))))
        (d_tok1 _))) (by simp [DagRest.render, nameR, List.append_assoc])
  | .bareVal h sufs tl nm more, O, hO =>
    d_cast (Derives.seq (Derives.nt (Derives.altL (d_seq_nil hO Derives.optNone)))
      (Derives.seq (Derives.optSome (Derives.nt (Derives.seq
        (Derives.nt (Derives.altL (Derives.seq
          (Derives.nt (Derives.seq (Derives.nt (Derives.seq (d_hlit h) (d_suffixes sufs))) (d_svals tl)))
          (d_nameR nm)))) (d_dagargsTail more))))
        (d_tok1 _))) (by simp [DagRest.render, nameR, List.append_assoc])
theorem d_lit : (l : Lit) → Derives (.nt .SimpleValue_) l.render
  | .safe h => d_hlit h
  | .str => Derives.nt (Derives.altR (Derives.altL (Derives.nt (d_tok1 _))))
  | .bits hd tl =>
    Derives.nt <| Derives.altR <| Derives.altR <| Derives.altR <| Derives.altR <| Derives.altR <| Derives.altL <|
      Derives.nt <| d_tokSeq (List.mem_singleton.mpr rfl) <|
        d_cast (Derives.seq (Derives.nt (Derives.seq (d_val hd) (d_vtail tl))) (d_tok1 _))
          (by simp [List.append_assoc])
  | .list hd tl =>
    Derives.nt <| Derives.altR <| Derives.altR <| Derives.altR <| Derives.altR <| Derives.altR <| Derives.altR <|
      Derives.altL <| Derives.nt <| d_tokSeq (List.mem_singleton.mpr rfl) <|
        d_cast (Derives.seq (Derives.nt (Derives.seq (d_val hd) (d_vtail tl))) (d_tok1 _))
          (by simp [List.append_assoc])
theorem d_suffix : (s : Suffix) → Derives (.nt .ValueSuffix_) s.render
  | .field => d_fieldSuffix
  | .range r =>
    Derives.nt (Derives.altL (Derives.nt (d_tokSeq (List.mem_singleton.mpr rfl)
      (Derives.seq (d_rangeList r) (d_tok1 _)))))
  | .slice es t =>
    Derives.nt (Derives.altR (Derives.altL (Derives.nt (d_tokSeq (List.mem_singleton.mpr rfl)
      (Derives.seq (Derives.nt (d_cast (d_selems es t Derives.starNil) (by simp))) (d_tok1 _))))))
theorem d_suffixes : (ss : Suffixes) → Derives (.star (.nt .ValueSuffix_)) ss.render
  | .nil => Derives.starNil
  | .cons s ss => Derives.starCons (d_suffix s) (d_suffixes ss)
theorem d_svals : (tl : SVals) → Derives (.star (.seq (.tok [TokenKind.Paste]) (.nt .InnerValue_))) tl.render
  | .nil => Derives.starNil
  | .cons l sufs rest =>
    d_cast (Derives.starCons (d_tokSeq (List.mem_singleton.mpr rfl)
      (Derives.nt (Derives.seq (d_lit l) (d_suffixes sufs)))) (d_svals rest))
      (by simp [SVals.render, List.append_assoc])
theorem d_val : (v : Val) → Derives (.nt .Value_) v.render
  | .mk l sufs tl =>
    Derives.nt (d_cast (Derives.seq (Derives.nt (Derives.seq (d_lit l) (d_suffixes sufs))) (d_svals tl))
      (by simp [Val.render, List.append_assoc]))
theorem d_vtail : (tl : VList) → Derives (.star (.seq (.tok [TokenKind.Comma]) (.nt .Value_))) tl.tailRender
  | .nil => Derives.starNil
  | .cons v rest => Derives.starCons (d_tokSeq (List.mem_singleton.mpr rfl) (d_val v)) (d_vtail rest)
theorem d_argtail : (tl : VList) → Derives (.star (.seq (.tok [TokenKind.Comma]) (.nt .ArgValue_))) tl.tailRender
  | .nil => Derives.starNil
  | .cons v rest =>
    Derives.starCons (d_tokSeq (List.mem_singleton.mpr rfl)
      (Derives.nt (n := .ArgValue_) (Derives.altL (Derives.nt (n := .PositionalArgValue_) (d_val v)))))
      (d_argtail rest)
theorem d_selem : (e : SliceElem) → Derives (.nt .SliceElement_) e.render
  | .single v => Derives.nt (Derives.altL (d_val v))
  | .dots a b =>
    Derives.nt (Derives.altR (Derives.altL (Derives.seq (d_val a) (d_tokSeq (List.mem_singleton.mpr rfl) (d_val b)))))
  | .minus a b =>
    Derives.nt (Derives.altR (Derives.altR (Derives.altL
      (Derives.seq (d_val a) (d_tokSeq (List.mem_singleton.mpr rfl) (d_val b))))))
  | .juxt a => Derives.nt (Derives.altR (Derives.altR (Derives.altR (Derives.seq (d_val a) (d_integer false)))))
/-- with the `(SliceElement ",")*` part accumulated so far -/
theorem d_selems : (es : SliceElems) → (t : Bool) → {u : List TokenKind} →
    Derives (.star (.seq (.nt .SliceElement_) (.tok [TokenKind.Comma]))) u →
    Derives (.seq (.star (.seq (.nt .SliceElement_) (.tok [TokenKind.Comma])))
      (.seq (.nt .SliceElement_) (.opt (.tok [TokenKind.Comma])))) (u ++ es.renderT t)
  | .one e, t, u, hu =>
    Derives.seq hu (Derives.seq (d_selem e) (by
      cases t with
      | false => exact Derives.optNone
      | true => exact Derives.optSome (d_tok1 _)))
  | .cons e es, t, u, hu =>
    d_cast (d_selems es t (d_star_snoc hu (Derives.seq (d_selem e) (d_tok1 _))))
      (by simp [SliceElems.renderT, List.append_assoc])
theorem d_clausesTail : (cs : Clauses) →
    Derives (.star (.seq (.tok [TokenKind.Comma]) (.nt .CondClause_))) (TokenKind.Comma :: cs.render)
  | .one c v =>
    d_cast (Derives.starCons (d_tokSeq (List.mem_singleton.mpr rfl)
      (Derives.nt (Derives.seq (d_val c) (d_tokSeq (List.mem_singleton.mpr rfl) (d_val v))))) Derives.starNil)
      (by simp [Clauses.render])
  | .cons c v rest =>
    d_cast (Derives.starCons (d_tokSeq (List.mem_singleton.mpr rfl)
      (Derives.nt (Derives.seq (d_val c) (d_tokSeq (List.mem_singleton.mpr rfl) (d_val v))))) (d_clausesTail rest))
      (by simp [Clauses.render, List.append_assoc])
theorem d_dagargsTail : (as : DagArgs) →
    Derives (.star (.seq (.tok [TokenKind.Comma]) (.nt .DagArg_))) as.tailRender
  | .nil => Derives.starNil
  | .var rest =>
    Derives.starCons (d_tokSeq (List.mem_singleton.mpr rfl) (Derives.nt (n := .DagArg_) (Derives.altR (d_tok1 _))))
      (d_dagargsTail rest)
  | .val v nm rest =>
    d_cast (Derives.starCons (d_tokSeq (List.mem_singleton.mpr rfl)
      (Derives.nt (Derives.altL (Derives.seq (d_val v) (d_nameR nm))))) (d_dagargsTail rest))
      (by simp [DagArgs.tailRender, List.append_assoc])
end

/-- values in name position: same rules under the `NameMode` nonterminals -/
theorem d_nsufs : (sufs : List NSuffix) → Derives (.star (.nt .ValueSuffix_)) (nsufsRender sufs)
  | [] => Derives.starNil
  | s :: ss => Derives.starCons (d_suffix s.toSuffix) (d_nsufs ss)

theorem d_npaste : (tl : List (Lit × List NSuffix)) →
    Derives (.star (.seq (.tok [TokenKind.Paste]) (.nt .InnerValue_NameMode_))) (npasteRender tl)
  | [] => Derives.starNil
  | (l, sufs) :: rest =>
    d_cast (Derives.starCons (d_tokSeq (List.mem_singleton.mpr rfl)
      (Derives.nt (Derives.seq (d_lit l) (d_nsufs sufs)))) (d_npaste rest))
      (by simp [npasteRender, List.append_assoc])

theorem d_val_nm (v : NameVal) : Derives (.nt .Value_NameMode_) v.render :=
  Derives.nt (d_cast (Derives.seq (Derives.nt (Derives.seq (d_lit v.l) (d_nsufs v.sufs))) (d_npaste v.tl))
    (by simp [NameVal.render, List.append_assoc]))

theorem d_optInit (o : Option Val) :
    Derives (.opt (.seq (.tok [TokenKind.Equal]) (.nt .Value_))) (optInit o) := by
  cases o with
  | none => exact Derives.optNone
  | some v => exact Derives.optSome (d_tokSeq (List.mem_singleton.mpr rfl) (d_val v))

/-! ### records -/

theorem d_targ (a : TArg) : Derives (.nt .TemplateArgDecl_) a.render :=
  Derives.nt (Derives.seq (d_dty a.ty) (Derives.seq d_identifier (d_optInit a.dflt)))

theorem d_targsTail : (as : List TArg) →
    Derives (.star (.seq (.tok [TokenKind.Comma]) (.nt .TemplateArgDecl_))) (targsTail as)
  | [] => Derives.starNil
  | a :: as => Derives.starCons (d_tokSeq (List.mem_singleton.mpr rfl) (d_targ a)) (d_targsTail as)

theorem d_targs (ta : List TArg) : Derives (.opt (.nt .TemplateArgList_)) (targsRender ta) := by
  cases ta with
  | nil => exact Derives.optNone
  | cons a as =>
    exact Derives.optSome (Derives.nt (d_tokSeq (List.mem_singleton.mpr rfl)
      (Derives.seq (d_targ a) (Derives.seq (d_targsTail as) (d_tok1 _)))))

theorem d_argVal (a : ArgVal) : Derives (.nt .ArgValue_) a.render := by
  apply Derives.nt
  cases a with
  | pos v => exact Derives.altL (Derives.nt (d_val v))
  | named n v => exact Derives.altR (Derives.nt (Derives.seq (d_val n) (d_tokSeq (List.mem_singleton.mpr rfl) (d_val v))))

theorem d_argsTail : (as : List ArgVal) →
    Derives (.star (.seq (.tok [TokenKind.Comma]) (.nt .ArgValue_))) (argsTail as)
  | [] => Derives.starNil
  | a :: as => Derives.starCons (d_tokSeq (List.mem_singleton.mpr rfl) (d_argVal a)) (d_argsTail as)

theorem d_argList (l : List ArgVal) : Derives (.nt .ArgValueList_) (argsRender l) := by
  apply Derives.nt
  cases l with
  | nil => exact Derives.optNone
  | cons a as => exact Derives.optSome (Derives.seq (d_argVal a) (d_argsTail as))

theorem d_optArgs (o : Option ArgList) :
    Derives (.opt (.seq (.tok [TokenKind.Less]) (.seq (.opt (.nt .ArgValueList_)) (.tok [TokenKind.Greater])))) (optArgs o) := by
  cases o with
  | none => exact Derives.optNone
  | some l =>
    exact Derives.optSome (d_tokSeq (List.mem_singleton.mpr rfl)
      (Derives.seq (Derives.optSome (d_argList l.toList)) (d_tok1 _)))

theorem d_classRef (r : ClassRef) : Derives (.nt .ClassRef_) r.render :=
  Derives.nt (Derives.seq d_identifier (d_optArgs r.args))

theorem d_parentsTail : (rs : List ClassRef) →
    Derives (.star (.seq (.tok [TokenKind.Comma]) (.nt .ClassRef_))) (parentsTail rs)
  | [] => Derives.starNil
  | r :: rs => Derives.starCons (d_tokSeq (List.mem_singleton.mpr rfl) (d_classRef r)) (d_parentsTail rs)

theorem d_parents (p : List ClassRef) : Derives (.nt .ParentClassList_) (parentsRender p) := by
  apply Derives.nt
  cases p with
  | nil => exact Derives.optNone
  | cons r rs =>
    exact Derives.optSome (d_tokSeq (List.mem_singleton.mpr rfl) (Derives.seq (d_classRef r) (d_parentsTail rs)))

theorem d_defvar (v : Val) : Derives (.nt .Defvar_)
    (TokenKind.Defvar :: TokenKind.Id :: TokenKind.Equal :: (v.render ++ [TokenKind.Semi])) :=
  Derives.nt (d_tokSeq (List.mem_singleton.mpr rfl) (Derives.seq d_identifier
    (d_tokSeq (List.mem_singleton.mpr rfl) (Derives.seq (d_val v) (d_tok1 _)))))

theorem d_dump (v : Val) : Derives (.nt .Dump_) (TokenKind.Dump :: (v.render ++ [TokenKind.Semi])) :=
  Derives.nt (d_tokSeq (List.mem_singleton.mpr rfl) (Derives.seq (d_val v) (d_tok1 _)))

theorem d_assert (c m : Val) : Derives (.nt .Assert_)
    (TokenKind.Assert :: (c.render ++ TokenKind.Comma :: (m.render ++ [TokenKind.Semi]))) :=
  Derives.nt (d_tokSeq (List.mem_singleton.mpr rfl) (Derives.seq (d_val c)
    (d_tokSeq (List.mem_singleton.mpr rfl) (Derives.seq (d_val m) (d_tok1 _)))))

theorem d_fieldLet (r : Option RangeList) (v : Val) : Derives (.nt .FieldLet_)
    (TokenKind.Let :: TokenKind.Id :: (optRange .LBrace .RBrace r ++ TokenKind.Equal :: (v.render ++ [TokenKind.Semi]))) :=
  Derives.nt (d_tokSeq (List.mem_singleton.mpr rfl) (Derives.seq d_identifier
    (Derives.seq (d_optRange _ _ r)
      (d_tokSeq (List.mem_singleton.mpr rfl) (Derives.seq (d_val v) (d_tok1 _))))))

theorem d_fieldDef (f : Bool) (t : FTy) (i : Option Val) :
    Derives (.nt .FieldDef_) (BodyItem.fieldDef f t i).render := by
  apply Derives.nt
  apply Derives.altR
  have hrest : Derives (.seq (.alt (.nt .Type_) (.nt .CodeType_)) (.seq (.nt .Identifier_)
      (.seq (.opt (.seq (.tok [TokenKind.Equal]) (.nt .Value_))) (.tok [TokenKind.Semi]))))
      (t.render ++ TokenKind.Id :: (optInit i ++ [TokenKind.Semi])) :=
    Derives.seq (d_fty t) (Derives.seq d_identifier (Derives.seq (d_optInit i) (d_tok1 _)))
  cases f with
  | false => exact Derives.seq (u := []) Derives.optNone hrest
  | true => exact Derives.seq (u := [TokenKind.Field]) (Derives.optSome (d_tok1 _)) hrest

theorem d_bodyItem (i : BodyItem) : Derives (.nt .BodyItem_) i.render := by
  apply Derives.nt
  apply Derives.altR
  cases i with
  | fieldDef f t i => exact Derives.altL (d_fieldDef f t i)
  | letField r v => exact Derives.altR (Derives.altL (d_fieldLet r v))
  | defvar v => exact Derives.altR (Derives.altR (Derives.altL (d_defvar v)))
  | assert_ c m => exact Derives.altR (Derives.altR (Derives.altR (Derives.altL (d_assert c m))))
  | dump v => exact Derives.altR (Derives.altR (Derives.altR (Derives.altR (d_dump v))))

theorem d_items : (is : List BodyItem) → Derives (.star (.nt .BodyItem_)) (itemsRender is)
  | [] => Derives.starNil
  | i :: is => Derives.starCons (d_bodyItem i) (d_items is)

theorem d_body (b : Body) : Derives (.nt .Body_) b.render := by
  apply Derives.nt
  cases b with
  | semi => exact Derives.altL (d_tok1 _)
  | braces is =>
    exact Derives.altR (d_tokSeq (List.mem_singleton.mpr rfl) (Derives.seq (d_items is) (d_tok1 _)))

theorem d_recordBody (p : List ClassRef) (b : Body) : Derives (.nt .RecordBody_) (recordBodyRender p b) :=
  Derives.nt (Derives.seq (d_parents p) (d_body b))

theorem d_optName (o : Option NameVal) : Derives (.opt (.nt .Value_NameMode_)) (optName o) := by
  cases o with
  | none => exact Derives.optNone
  | some v => exact Derives.optSome (d_val_nm v)

/-! ### statements -/

theorem d_letItem (i : LetItem) : Derives (.nt .LetItem_) i.render :=
  Derives.nt (Derives.seq d_identifier (Derives.seq (d_optRange _ _ i.range)
    (d_tokSeq (List.mem_singleton.mpr rfl) (d_val i.v))))

theorem d_letTail : (is : List LetItem) →
    Derives (.star (.seq (.tok [TokenKind.Comma]) (.nt .LetItem_))) (letTail is)
  | [] => Derives.starNil
  | i :: is => Derives.starCons (d_tokSeq (List.mem_singleton.mpr rfl) (d_letItem i)) (d_letTail is)

theorem d_letList (l : LetList) : Derives (.nt .LetList_) l.render :=
  Derives.nt (Derives.seq (d_letItem l.hd) (d_letTail l.tl))

theorem d_foreachInit (i : ForeachInit) : Derives (.nt .ForeachIteratorInit_) i.render := by
  apply Derives.nt
  cases i with
  | braces r => exact Derives.altL (d_tokSeq (List.mem_singleton.mpr rfl) (Derives.seq (d_rangeList r) (d_tok1 _)))
  | piece p => exact Derives.altR (Derives.altL (d_rangePiece p))
  | value v => exact Derives.altR (Derives.altR (d_val v))

theorem d_defm (o : Option NameVal) (p : List ClassRef) : Derives (.nt .Defm_)
    (TokenKind.Defm :: (optName o ++ (parentsRender p ++ [TokenKind.Semi]))) :=
  Derives.nt (d_tokSeq (List.mem_singleton.mpr rfl) (Derives.seq (d_optName o) (Derives.seq (d_parents p) (d_tok1 _))))

/-- `"{" Statement* "}" | Statement` as used by `if`, `let`, `foreach` -/
abbrev blockE : E :=
  .alt (.seq (.tok [TokenKind.LBrace]) (.seq (.star (.nt .Statement_)) (.tok [TokenKind.RBrace]))) (.nt .Statement_)

/-- the nonterminal of a statement form -/
def Frag.Stmt.nt : Stmt → NT
  | .include => .Include_
  | .cls _ _ _ => .Class_
  | .def_ _ _ _ => .Def_
  | .defvar _ => .Defvar_
  | .dump _ => .Dump_
  | .assert_ _ _ => .Assert_
  | .defset _ _ => .Defset_
  | .ifThen _ _ => .If_
  | .ifElse _ _ _ => .If_
  | .let_ _ _ => .Let_
  | .foreach _ _ => .Foreach_
  | .defm _ _ => .Defm_
  | .multiclass _ _ _ => .MultiClass_

theorem d_stmt_of (s : Stmt) {w : List TokenKind} (h : Derives (.nt s.nt) w) : Derives (.nt .Statement_) w :=
  Derives.nt <|
  match s, h with
  | .include, h => Derives.altL h
  | .assert_ _ _, h => Derives.altR <| Derives.altL h
  | .cls _ _ _, h => Derives.altR <| Derives.altR <| Derives.altL h
  | .def_ _ _ _, h => Derives.altR <| Derives.altR <| Derives.altR <| Derives.altL h
  | .defm _ _, h => Derives.altR <| Derives.altR <| Derives.altR <| Derives.altR <| Derives.altL h
  | .defset _ _, h =>
    Derives.altR <| Derives.altR <| Derives.altR <| Derives.altR <| Derives.altR <| Derives.altL h
  | .defvar _, h =>
    Derives.altR <| Derives.altR <| Derives.altR <| Derives.altR <| Derives.altR <| Derives.altR <|
      Derives.altL h
  | .dump _, h =>
    Derives.altR <| Derives.altR <| Derives.altR <| Derives.altR <| Derives.altR <| Derives.altR <|
      Derives.altR <| Derives.altL h
  | .foreach _ _, h =>
    Derives.altR <| Derives.altR <| Derives.altR <| Derives.altR <| Derives.altR <| Derives.altR <|
      Derives.altR <| Derives.altR <| Derives.altL h
  | .ifThen _ _, h =>
    Derives.altR <| Derives.altR <| Derives.altR <| Derives.altR <| Derives.altR <| Derives.altR <|
      Derives.altR <| Derives.altR <| Derives.altR <| Derives.altL h
  | .ifElse _ _ _, h =>
    Derives.altR <| Derives.altR <| Derives.altR <| Derives.altR <| Derives.altR <| Derives.altR <|
      Derives.altR <| Derives.altR <| Derives.altR <| Derives.altL h
  | .let_ _ _, h =>
    Derives.altR <| Derives.altR <| Derives.altR <| Derives.altR <| Derives.altR <| Derives.altR <|
      Derives.altR <| Derives.altR <| Derives.altR <| Derives.altR <| Derives.altL h
  | .multiclass _ _ _, h =>
    Derives.altR <| Derives.altR <| Derives.altR <| Derives.altR <| Derives.altR <| Derives.altR <|
      Derives.altR <| Derives.altR <| Derives.altR <| Derives.altR <| Derives.altR h

theorem d_mcstmt_of (s : Stmt) (hmc : s.isMC = true) {w : List TokenKind} (h : Derives (.nt s.nt) w) :
    Derives (.nt .MultiClassStatement_) w :=
  -- the rule is the union of syntax.md's and the rule comment's right-hand side (which also has Defvar): take the former
  Derives.nt <| Derives.altL <|
  match s, hmc, h with
  | .assert_ _ _, _, h => Derives.altL h
  | .def_ _ _ _, _, h => Derives.altR <| Derives.altL h
  | .defm _ _, _, h => Derives.altR <| Derives.altR <| Derives.altL h
  | .dump _, _, h => Derives.altR <| Derives.altR <| Derives.altR <| Derives.altL h
  | .foreach _ _, _, h => Derives.altR <| Derives.altR <| Derives.altR <| Derives.altR <| Derives.altL h
  | .let_ _ _, _, h =>
    Derives.altR <| Derives.altR <| Derives.altR <| Derives.altR <| Derives.altR <| Derives.altL h
  | .ifThen _ _, _, h =>
    Derives.altR <| Derives.altR <| Derives.altR <| Derives.altR <| Derives.altR <| Derives.altR h
  | .ifElse _ _ _, _, h =>
    Derives.altR <| Derives.altR <| Derives.altR <| Derives.altR <| Derives.altR <| Derives.altR h
  | .include, hmc, _ => by simp [Stmt.isMC] at hmc
  | .cls _ _ _, hmc, _ => by simp [Stmt.isMC] at hmc
  | .defvar _, hmc, _ => by simp [Stmt.isMC] at hmc
  | .defset _ _, hmc, _ => by simp [Stmt.isMC] at hmc
  | .multiclass _ _ _, hmc, _ => by simp [Stmt.isMC] at hmc

mutual
/-- a statement derives from the nonterminal of its form -/
theorem d_stmtK : (s : Stmt) → s.wf = true → Derives (.nt s.nt) s.render
  | .include, _ => Derives.nt (d_tokSeq (List.mem_singleton.mpr rfl) (Derives.nt (d_tok1 _)))
  | .cls ta p b, _ =>
    Derives.nt (d_tokSeq (List.mem_singleton.mpr rfl) (Derives.seq d_identifier
      (Derives.seq (d_targs ta) (d_recordBody p b))))
  | .def_ o p b, _ =>
    Derives.nt (d_tokSeq (List.mem_singleton.mpr rfl) (Derives.seq (d_optName o) (d_recordBody p b)))
  | .defvar v, _ => d_defvar v
  | .dump v, _ => d_dump v
  | .assert_ c m, _ => d_assert c m
  | .defm o p, _ => d_defm o p
  | .defset t b, h =>
    Derives.nt (d_tokSeq (List.mem_singleton.mpr rfl) (Derives.seq (d_dty t) (Derives.seq d_identifier
      (d_tokSeq (List.mem_singleton.mpr rfl) (d_tokSeq (List.mem_singleton.mpr rfl)
        (Derives.seq (d_stmts b (by simpa [Stmt.wf] using h)) (d_tok1 _)))))))
  | .ifThen c t, h =>
    Derives.nt <| d_tokSeq (List.mem_singleton.mpr rfl) <| Derives.seq (d_val c) <|
      d_tokSeq (List.mem_singleton.mpr rfl) <| d_seq_nil (d_block t (by simpa [Stmt.wf] using h)) Derives.optNone
  | .ifElse c t e, h =>
    have hwf : t.wf = true ∧ t.openIf = false ∧ e.wf = true := by simpa [Stmt.wf, and_assoc] using h
    Derives.nt <| d_tokSeq (List.mem_singleton.mpr rfl) <| Derives.seq (d_val c) <|
      d_tokSeq (List.mem_singleton.mpr rfl) <| Derives.seq (d_block t hwf.1) <|
        Derives.optSome <| d_tokSeq (List.mem_singleton.mpr rfl) (d_block e hwf.2.2)
  | .let_ is b, h =>
    Derives.nt <| d_tokSeq (List.mem_singleton.mpr rfl) <| Derives.seq (d_letList is) <|
      d_tokSeq (List.mem_singleton.mpr rfl) (d_block b (by simpa [Stmt.wf] using h))
  | .foreach i b, h =>
    have hwf : i.wf = true ∧ b.wf = true := by simpa [Stmt.wf] using h
    Derives.nt <| d_tokSeq (List.mem_singleton.mpr rfl) <|
      Derives.seq (u := TokenKind.Id :: TokenKind.Equal :: i.render)
        (Derives.nt (Derives.seq d_identifier (d_tokSeq (List.mem_singleton.mpr rfl) (d_foreachInit i)))) <|
        d_tokSeq (List.mem_singleton.mpr rfl) (d_block b hwf.2)
  | .multiclass ta p b, h =>
    have hwf : b.isNil = false ∧ b.allMC = true ∧ b.wf = true := by simpa [Stmt.wf, and_assoc] using h
    Derives.nt <| d_tokSeq (List.mem_singleton.mpr rfl) <| Derives.seq d_identifier <|
      Derives.seq (d_targs ta) <| Derives.seq (d_parents p) <| d_tokSeq (List.mem_singleton.mpr rfl) <|
        Derives.seq (d_mcplus b hwf.1 hwf.2.1 hwf.2.2) (d_tok1 _)
theorem d_block : (b : Block) → b.wf = true → Derives blockE b.render
  | .single s, h => Derives.altR (d_stmt_of s (d_stmtK s (by simpa [Block.wf] using h)))
  | .braces ss, h =>
    Derives.altL (d_tokSeq (List.mem_singleton.mpr rfl)
      (Derives.seq (d_stmts ss (by simpa [Block.wf] using h)) (d_tok1 _)))
theorem d_stmts : (ss : Stmts) → ss.wf = true → Derives (.star (.nt .Statement_)) ss.render
  | .nil, _ => Derives.starNil
  | .cons s ss, h =>
    have hwf : s.wf = true ∧ ss.wf = true := by simpa [Stmts.wf] using h
    Derives.starCons (d_stmt_of s (d_stmtK s hwf.1)) (d_stmts ss hwf.2)
theorem d_mcstar : (ss : Stmts) → ss.allMC = true → ss.wf = true →
    Derives (.star (.nt .MultiClassStatement_)) ss.render
  | .nil, _, _ => Derives.starNil
  | .cons s ss, hmc, h =>
    have hwf : s.wf = true ∧ ss.wf = true := by simpa [Stmts.wf] using h
    have hmc' : s.isMC = true ∧ ss.allMC = true := by simpa [Stmts.allMC] using hmc
    Derives.starCons (d_mcstmt_of s hmc'.1 (d_stmtK s hwf.1)) (d_mcstar ss hmc'.2 hwf.2)
theorem d_mcplus : (ss : Stmts) → ss.isNil = false → ss.allMC = true → ss.wf = true →
    Derives (.plus (.nt .MultiClassStatement_)) ss.render
  | .nil, hnil, _, _ => by simp [Stmts.isNil] at hnil
  | .cons s ss, _, hmc, h =>
    have hwf : s.wf = true ∧ ss.wf = true := by simpa [Stmts.wf] using h
    have hmc' : s.isMC = true ∧ ss.allMC = true := by simpa [Stmts.allMC] using hmc
    Derives.plus (d_mcstmt_of s hmc'.1 (d_stmtK s hwf.1)) (d_mcstar ss hmc'.2 hwf.2)
end

theorem frag_is_documented (p : Frag.Program) : Doc.Sentence p.render :=
  Derives.nt (Derives.nt (d_stmts p.stmts p.wf))

end C04L
end Tg
