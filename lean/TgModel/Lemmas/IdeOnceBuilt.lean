/-
Linearity of the indexer's traversal, part 5: workspaces built by `buildWorkspace` satisfy the tree
hypotheses of `index_noReuse` — consistent offsets (`buildWorkspace_wf`) and non-empty identifier
tokens (`IdShape.lean`, transferred to the annotated trees here).
-/
import TgModel.Lemmas.IdeOnceIndex
import TgModel.Lemmas.IdShape
import TgModel.Lemmas.IdeSemShapeTree

namespace Tg
namespace Ide

theorem _root_.Tg.SubT.idOK {t u : Tree} (h : SubT t u) (hg : t.idOK) : u.idOK := by
  induction h with
  | refl => exact hg
  | step _ hc ih =>
    have := ih
    simp only [Tree.idOK_node] at this
    exact idOKL_iff.mp this.2 _ hc

theorem byteLen_pos {txt : List Char} (h : txt ≠ []) : 0 < byteLen txt := by
  cases txt with
  | nil => exact absurd rfl h
  | cons c cs => have := utf8Len_pos c; simp only [byteLen_cons]; omega

/-- the first token of an annotated node whose first child is a token is that token -/
theorem firstToken_tokenChild (k k' : SyntaxKind) (txt : List Char) (rest : List Tree) (p : Nat) :
    (ofTreeAt (.node k (.token k' txt :: rest)) p).1.firstToken =
      some (PTree.token k' p (p + byteLen txt) (String.ofList txt)) := by
  have hch : (ofTreeAt (.node k (.token k' txt :: rest)) p).1.children.toList =
      annotL (.token k' txt :: rest) p := ofTreeAt_node_children k _ p
  have h0 : (ofTreeAt (.node k (.token k' txt :: rest)) p).1.children[0]? =
      some (PTree.token k' p (p + byteLen txt) (String.ofList txt)) := by
    rw [← Array.getElem?_toList, hch]
    simp [annotL, ofTreeAt]
  obtain ⟨s, e, hh, arr, hhere⟩ : ∃ s e h arr,
      (ofTreeAt (.node k (.token k' txt :: rest)) p).1 = PTree.node k s e (h + 1) arr := by
    simp only [ofTreeAt]
    exact ⟨_, _, _, _, rfl⟩
  unfold PTree.firstToken Cursor.firstToken
  have hheight : (Cursor.root (ofTreeAt (.node k (.token k' txt :: rest)) p).1).here.height + 1 = hh + 1 + 1 := by
    simp [Cursor.root, hhere, PTree.height]
  rw [hheight]
  unfold Cursor.firstTokenGo
  simp only [Cursor.root, hhere]
  have hchild : (Cursor.child { here := PTree.node k s e (hh + 1) arr, up := [] } 0) =
      some ⟨PTree.token k' p (p + byteLen txt) (String.ofList txt), [(PTree.node k s e (hh + 1) arr, 0)]⟩ := by
    rw [hhere] at h0
    simp [Cursor.child, h0]
  rw [hchild]
  simp only
  unfold Cursor.firstTokenGo
  simp

theorem firstToken_noChild (k : SyntaxKind) (p : Nat) : (ofTreeAt (.node k []) p).1.firstToken = none := by
  unfold PTree.firstToken Cursor.firstToken
  simp [ofTreeAt, ofTreesAt, Cursor.root, PTree.height, Cursor.firstTokenGo, Cursor.child, PTree.children]

/-- identifier nodes of an annotated tree begin with a non-empty token -/
def IdsNE (root : PTree) : Prop :=
  ∀ d, Desc root d → d.isNode = true → d.kind = .Identifier → ∀ t, d.firstToken = some t → t.start < t.stop

theorem idsNE_ofTree {t : Tree} (h : t.idOK) : IdsNE (PTree.ofTree t) := by
  intro d hd hnode hkind tk htk
  obtain ⟨u, p, hsub, rfl⟩ := desc_ofTreeAt hd
  have hu := hsub.idOK h
  cases u with
  | token k' txt => simp [ofTreeAt, PTree.isNode] at hnode
  | node k' cs =>
    have hk' : k' = .Identifier := by
      have := (ofTreeAt_kind (.node k' cs) p).1
      rw [hkind] at this
      exact this.symm
    simp only [Tree.idOK_node] at hu
    have hh := hu.1 hk'
    cases cs with
    | nil => rw [firstToken_noChild] at htk; cases htk
    | cons c cs' =>
      cases c with
      | node => simp [idHead] at hh
      | token kt txt =>
        rw [firstToken_tokenChild] at htk
        cases htk
        have := byteLen_pos (txt := txt) (by simpa [idHead] using hh.1)
        simp only [PTree.start, PTree.stop]
        omega

/-- identifier nodes of an annotated tree begin with a token that does not begin with a quote -/
theorem idsPlain_ofTree {t : Tree} (h : t.idOK) : IdsPlainT (PTree.ofTree t) := by
  rintro tk ⟨d, hd, hnode, hkind, htk⟩
  obtain ⟨u, p, hsub, rfl⟩ := desc_ofTreeAt hd
  have hu := hsub.idOK h
  cases u with
  | token k' txt => simp [ofTreeAt, PTree.isNode] at hnode
  | node k' cs =>
    have hk' : k' = .Identifier := by
      have := (ofTreeAt_kind (.node k' cs) p).1
      rw [hkind] at this
      exact this.symm
    simp only [Tree.idOK_node] at hu
    have hh := hu.1 hk'
    cases cs with
    | nil => rw [firstToken_noChild] at htk; cases htk
    | cons c cs' =>
      cases c with
      | node => simp [idHead] at hh
      | token kt txt =>
        rw [firstToken_tokenChild] at htk
        cases htk
        have h2 : txt.head? ≠ some '"' := by simpa [idHead] using hh.2
        simpa [PTree.text] using h2

theorem parse_idOK {input : List Char} {r : Grammar.ParseResult} (h : Grammar.parse input = .ok r) : r.tree.idOK := by
  unfold Grammar.parse at h
  split at h
  · rename_i s hx
    split at h
    · rename_i t hcur hpar
      simp only [Grammar.ParseOut.ok.injEq] at h
      subst h
      have := source_file_idOK input hx
      rw [hcur] at this
      simpa using this
    · cases h
  · cases h
  · cases h

theorem parseFile_idsNE {text : String} {t : PTree} {errs : List SynError}
    (h : parseFile text = .ok (t, errs)) : IdsNE t := by
  unfold parseFile at h
  split at h
  · rename_i r hr
    cases h
    exact idsNE_ofTree (parse_idOK hr)
  · cases h
  · cases h

theorem parseFile_idsPlain {text : String} {t : PTree} {errs : List SynError}
    (h : parseFile text = .ok (t, errs)) : IdsPlainT t := by
  unfold parseFile at h
  split at h
  · rename_i r hr
    cases h
    exact idsPlain_ofTree (parse_idOK hr)
  · cases h
  · cases h

theorem defaultTree_idsPlain : IdsPlainT (PTree.node .SourceFile 0 0 1 #[]) := by
  rintro t ⟨d, hd, hnode, hkind, _⟩
  have : d = emptyTree := desc_emptyTree hd
  subst this
  simp [emptyTree, PTree.kind] at hkind

theorem defaultTree_idsNE : IdsNE (PTree.node .SourceFile 0 0 1 #[]) := by
  intro d hd hnode hkind
  have : d = emptyTree := desc_emptyTree hd
  subst this
  simp [emptyTree, PTree.kind] at hkind

namespace Index

/-- **workspaces built by `buildWorkspace` are fit for the traversal argument** -/
theorem built_wsOK {vfs : List (String × String)} {rootPath : String} {inc : Option String} {ws : Workspace}
    (hwf : ws.WF) (h : buildWorkspace vfs rootPath inc = .ok ws) : WsOK ws := by
  have hids := buildWorkspace_treesP (P := IdsNE) parseFile_idsNE defaultTree_idsNE h
  intro g
  obtain ⟨txt, hs, _⟩ := hwf.tree_spans g
  exact ⟨⟨txt, hs⟩, hids g⟩

/-- **in workspaces built by `buildWorkspace` identifiers are not quoted** -/
theorem built_idsPlain {vfs : List (String × String)} {rootPath : String} {inc : Option String} {ws : Workspace}
    (h : buildWorkspace vfs rootPath inc = .ok ws) : IdsPlain ws :=
  buildWorkspace_treesP (P := IdsPlainT) parseFile_idsPlain defaultTree_idsPlain h

end Index

end Ide
end Tg
