/-
C04: further inputs that are sentences of the documented grammar and that the parser rejects
(beyond the dag-operator case of `full_forward_false`).  Each: the text, its token kinds (kernel
evaluation of lexer + preprocessor), a derivation in the regenerated grammar, and the parser's
verdict (kernel evaluation of the parser model).  They mark the boundary of the fragment of
`forward_partial`: every restriction built into `Frag` that is not just an ambiguity shows up here.
-/
import TgModel.Lemmas.C04Lemmas

namespace Tg
namespace C04L
open Grammar Doc Frag

/-- a documented sentence, with nothing left in the token source at the end of the text (no
unterminated conditional), that the parser does not accept without syntax errors -/
def ForwardFailure (input : List Char) : Prop :=
  Doc.Sentence (PState.init input).kinds ∧ Src.endMessage input = none ∧
    ¬ ∃ r, parse input = .ok r ∧ r.errors = []

theorem rejected_of {input : List Char}
    (h : (match parse input with | .ok r => r.errors.isEmpty | _ => false) = false) :
    ¬ ∃ r, parse input = .ok r ∧ r.errors = [] := by
  rintro ⟨r, hr, he⟩
  rw [hr] at h
  simp [he] at h

theorem d_program {w : List TokenKind} (h : Derives (.nt .Statement_) w) : Doc.Sentence w :=
  Derives.nt (Derives.nt (d_cast (Derives.starCons h Derives.starNil) (by simp)))

/-! ### 1. `foreach` over a range that starts with a binary literal

`ForeachIteratorInit ::= … | RangePiece | Value`, `RangePiece ::= Integer "..." Integer`,
`Integer ::= IntVal | BinaryIntVal`; the parser takes the range-piece path only on an `IntVal`. -/

def ffForeachBin : List Char := ['f', 'o', 'r', 'e', 'a', 'c', 'h', ' ', 'i', ' ', '=', ' ', '0', 'b', '0', '1', '.', '.', '.', '0', 'b', '1', '1', ' ', 'i', 'n', ' ', 'd', 'e', 'f', ' ', 'x', ';']

theorem ffForeachBin_fails : ForwardFailure ffForeachBin := by
  refine ⟨?_, by decide +kernel, rejected_of (by decide +kernel)⟩
  have hk : (PState.init ffForeachBin).kinds =
      [.Foreach, .Id, .Equal, .BinaryIntVal, .DotDotDot, .BinaryIntVal, .In, .Def, .Id, .Semi] := by decide +kernel
  rw [hk]
  apply d_program
  refine Derives.nt (Derives.altR <| Derives.altR <| Derives.altR <| Derives.altR <| Derives.altR <| Derives.altR <|
    Derives.altR <| Derives.altR <| Derives.altL <| Derives.nt ?_)
  exact d_tokSeq (List.mem_singleton.mpr rfl) (Derives.seq (u := [TokenKind.Id, .Equal, .BinaryIntVal, .DotDotDot, .BinaryIntVal])
    (Derives.nt (Derives.seq d_identifier (d_tokSeq (List.mem_singleton.mpr rfl) (d_foreachInit (.piece (.dots true true))))))
    (d_tokSeq (List.mem_singleton.mpr rfl) (d_block (.single defId) rfl)))

/-! ### 2. a `def` name that starts with a bit literal

`Def ::= "def" Value(NameMode)? RecordBody`, `SimpleValue ::= … | Bits`; the parser takes `{` for the body. -/

def ffDefBits : List Char := ['d', 'e', 'f', ' ', '{', '0', ',', ' ', '1', '}', ';']

theorem ffDefBits_fails : ForwardFailure ffDefBits := by
  refine ⟨?_, by decide +kernel, rejected_of (by decide +kernel)⟩
  have hk : (PState.init ffDefBits).kinds = [.Def, .LBrace, .IntVal, .Comma, .IntVal, .RBrace, .Semi] := by decide +kernel
  rw [hk]
  apply d_program
  refine Derives.nt (Derives.altR <| Derives.altR <| Derives.altR <| Derives.altL <| Derives.nt ?_)
  have hname : Derives (.nt .Value_NameMode_) [TokenKind.LBrace, .IntVal, .Comma, .IntVal, .RBrace] :=
    Derives.nt (Derives.seq (v := [])
      (Derives.nt (n := .InnerValue_NameMode_)
        (Derives.seq (v := []) (d_lit (.bits (lit (.int false)) (.cons (lit (.int false)) .nil))) Derives.starNil))
      Derives.starNil)
  exact d_tokSeq (List.mem_singleton.mpr rfl) (Derives.seq (Derives.optSome hname) (d_recordBody [] .semi))

/-! ### 3. a `def` name with a bit-range suffix

`InnerValue(NameMode) ::= SimpleValue ValueSuffix*`, `ValueSuffix ::= RangeSuffix | …`. -/

def ffDefRange : List Char := ['d', 'e', 'f', ' ', 'x', '{', '1', '}', ';']

theorem ffDefRange_fails : ForwardFailure ffDefRange := by
  refine ⟨?_, by decide +kernel, rejected_of (by decide +kernel)⟩
  have hk : (PState.init ffDefRange).kinds = [.Def, .Id, .LBrace, .IntVal, .RBrace, .Semi] := by decide +kernel
  rw [hk]
  apply d_program
  refine Derives.nt (Derives.altR <| Derives.altR <| Derives.altR <| Derives.altL <| Derives.nt ?_)
  have hname : Derives (.nt .Value_NameMode_) [TokenKind.Id, .LBrace, .IntVal, .RBrace] :=
    Derives.nt (Derives.seq (v := [])
      (Derives.nt (n := .InnerValue_NameMode_) (Derives.seq (d_lit (.safe (.op .id)))
        (Derives.starCons (v := []) (d_suffix (.range ⟨.single false, []⟩)) Derives.starNil)))
      Derives.starNil)
  exact d_tokSeq (List.mem_singleton.mpr rfl) (Derives.seq (Derives.optSome hname) (d_recordBody [] .semi))

/-! ### 4. a positional template argument after a named one

`ArgValueList ::= (ArgValue ("," ArgValue)*)?`, `ArgValue ::= PositionalArgValue | NamedArgValue`. -/

def ffArgOrder : List Char := ['d', 'e', 'f', ' ', 'd', ' ', ':', ' ', 'A', '<', 'x', ' ', '=', ' ', '2', ',', ' ', '3', '>', ';']

theorem ffArgOrder_fails : ForwardFailure ffArgOrder := by
  refine ⟨?_, by decide +kernel, rejected_of (by decide +kernel)⟩
  have hk : (PState.init ffArgOrder).kinds =
      [.Def, .Id, .Colon, .Id, .Less, .Id, .Equal, .IntVal, .Comma, .IntVal, .Greater, .Semi] := by decide +kernel
  rw [hk]
  apply d_program
  refine Derives.nt (Derives.altR <| Derives.altR <| Derives.altR <| Derives.altL <| Derives.nt ?_)
  have hargs := d_argList [.named (lit .id) (lit (.int false)), .pos (lit (.int false))]
  have href : Derives (.nt .ClassRef_) [TokenKind.Id, .Less, .Id, .Equal, .IntVal, .Comma, .IntVal, .Greater] :=
    Derives.nt (Derives.seq d_identifier (Derives.optSome (d_tokSeq (List.mem_singleton.mpr rfl)
      (Derives.seq (Derives.optSome hargs) (d_tok1 _)))))
  have hparents : Derives (.nt .ParentClassList_) [TokenKind.Colon, .Id, .Less, .Id, .Equal, .IntVal, .Comma, .IntVal, .Greater] :=
    Derives.nt (Derives.optSome (d_tokSeq (List.mem_singleton.mpr rfl) (Derives.seq (v := []) href Derives.starNil)))
  exact d_tokSeq (List.mem_singleton.mpr rfl) (Derives.seq (Derives.optSome (d_val_nm nlit))
    (Derives.nt (Derives.seq hparents (d_body .semi))))

/-! ### 5. a slice element `value integer` with a binary integer

`SliceElement ::= … | Value Integer`; the parser looks for an `IntVal` only. -/

def ffSliceBin : List Char := ['d', 'e', 'f', 'v', 'a', 'r', ' ', 'a', ' ', '=', ' ', 'b', '[', 'c', ' ', '0', 'b', '1', ']', ';']

theorem ffSliceBin_fails : ForwardFailure ffSliceBin := by
  refine ⟨?_, by decide +kernel, rejected_of (by decide +kernel)⟩
  have hk : (PState.init ffSliceBin).kinds =
      [.Defvar, .Id, .Equal, .Id, .LSquare, .Id, .BinaryIntVal, .RSquare, .Semi] := by decide +kernel
  rw [hk]
  apply d_program
  refine Derives.nt (Derives.altR <| Derives.altR <| Derives.altR <| Derives.altR <| Derives.altR <| Derives.altR <|
    Derives.altL <| Derives.nt ?_)
  have helem : Derives (.nt .SliceElement_) [TokenKind.Id, .BinaryIntVal] :=
    Derives.nt (Derives.altR (Derives.altR (Derives.altR (Derives.seq (d_val (lit .id)) (d_integer true)))))
  have hsuf : Derives (.nt .ValueSuffix_) [TokenKind.LSquare, .Id, .BinaryIntVal, .RSquare] :=
    Derives.nt (Derives.altR (Derives.altL (Derives.nt (d_tokSeq (List.mem_singleton.mpr rfl)
      (Derives.seq (u := [TokenKind.Id, .BinaryIntVal])
        (Derives.nt (Derives.seq (u := []) Derives.starNil (Derives.seq (v := []) helem Derives.optNone)))
        (d_tok1 _))))))
  have hval : Derives (.nt .Value_) [TokenKind.Id, .LSquare, .Id, .BinaryIntVal, .RSquare] :=
    Derives.nt (Derives.seq (v := [])
      (Derives.nt (n := .InnerValue_) (Derives.seq (d_lit (.safe (.op .id))) (Derives.starCons (v := []) hsuf Derives.starNil)))
      Derives.starNil)
  exact d_tokSeq (List.mem_singleton.mpr rfl) (Derives.seq d_identifier
    (d_tokSeq (List.mem_singleton.mpr rfl) (Derives.seq hval (d_tok1 _))))

/-- all of them, with the dag-operator case -/
theorem forward_failures :
    ForwardFailure dagWitness ∧ ForwardFailure ffForeachBin ∧ ForwardFailure ffDefBits ∧
    ForwardFailure ffDefRange ∧ ForwardFailure ffArgOrder ∧ ForwardFailure ffSliceBin :=
  ⟨⟨dagWitness_sentence, dagWitness_clean, rejected_of dagWitness_rejected⟩, ffForeachBin_fails, ffDefBits_fails, ffDefRange_fails,
    ffArgOrder_fails, ffSliceBin_fails⟩

end C04L
end Tg
