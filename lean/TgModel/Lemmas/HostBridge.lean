/-
Bridge between the two models of `collect_sources`: the abstract host (`Host.lean`: paths, texts and include
names are numbers, `Host.Env` = how a text lists its includes and how an include is resolved) and the concrete
one (`Ide/Workspace.lean`: `collectLoop`, `buildWorkspace` on strings, the `Path` functions, the parser).

Numbering: a text or an include name is numbered by an injective code of its string (`encS`); a path by the
code of its component sequence (`encP`), so that two spellings of a path that `PathBuf` equality identifies
(`Path.pathEq`) are the same abstract path.  The way back (`decS`, `decP`) picks a string with the given code.
`bridgeEnv includeDir` is the `Host.Env` of the concrete parser and resolution, `fsOf vfs` the abstract file
system of a finite one.
-/
import TgModel.Host
import TgModel.Lemmas.IdeTotal
import TgModel.Lemmas.HostLemmas
import TgModel.Lemmas.SessionLemmas
import TgModel.Lemmas.PathLemmas

namespace Tg
namespace Ide
namespace Bridge

open Tg.Host
open Classical in
attribute [local instance] Classical.propDecidable

/-! ### codes -/

def encNats : List Nat → Nat
  | [] => 0
  | a :: l => 2 ^ a * (2 * encNats l + 1)

theorem pow_odd_inj : ∀ (a b m n : Nat), 2 ^ a * (2 * m + 1) = 2 ^ b * (2 * n + 1) → a = b ∧ m = n
  | 0, 0, m, n, h => by simp at h; exact ⟨rfl, by omega⟩
  | 0, b + 1, m, n, h => by
    rw [Nat.pow_succ, Nat.pow_zero, Nat.one_mul, Nat.mul_comm (2 ^ b) 2, Nat.mul_assoc] at h
    omega
  | a + 1, 0, m, n, h => by
    rw [Nat.pow_succ, Nat.pow_zero, Nat.one_mul, Nat.mul_comm (2 ^ a) 2, Nat.mul_assoc] at h
    omega
  | a + 1, b + 1, m, n, h => by
    rw [Nat.pow_succ, Nat.pow_succ, Nat.mul_comm (2 ^ a) 2, Nat.mul_comm (2 ^ b) 2, Nat.mul_assoc, Nat.mul_assoc] at h
    have := pow_odd_inj a b m n (by omega)
    exact ⟨by omega, this.2⟩

theorem encNats_pos (a : Nat) (l : List Nat) : 0 < encNats (a :: l) := by
  simp only [encNats]
  exact Nat.mul_pos (Nat.pow_pos (by omega)) (by omega)

theorem encNats_inj : ∀ (l l' : List Nat), encNats l = encNats l' → l = l'
  | [], [], _ => rfl
  | [], b :: l', h => by have := encNats_pos b l'; rw [← h] at this; simp [encNats] at this
  | a :: l, [], h => by have := encNats_pos a l; rw [h] at this; simp [encNats] at this
  | a :: l, b :: l', h => by
    simp only [encNats] at h
    obtain ⟨h1, h2⟩ := pow_odd_inj _ _ _ _ h
    rw [h1, encNats_inj l l' h2]

theorem map_inj_of_inj {α β : Type} {f : α → β} (hf : ∀ a b, f a = f b → a = b) :
    ∀ (l l' : List α), l.map f = l'.map f → l = l'
  | [], [], _ => rfl
  | [], _ :: _, h => by simp at h
  | _ :: _, [], h => by simp at h
  | a :: l, b :: l', h => by
    simp only [List.map_cons, List.cons.injEq] at h
    rw [hf a b h.1, map_inj_of_inj hf l l' h.2]

/-- the number of a text / of an include name -/
def encS (s : String) : Nat := encNats (s.toList.map Char.toNat)

theorem encS_inj {s s' : String} (h : encS s = encS s') : s = s' := by
  unfold encS at h
  have h1 := encNats_inj _ _ h
  apply String.toList_injective
  exact map_inj_of_inj (fun a b hab => Char.toNat_inj.mp hab) _ _ h1

/-- the number of a path: of its component sequence -/
def encP (p : String) : Nat :=
  encNats ((if (Path.components p).1 then 1 else 0) :: (Path.components p).2.map encS)

theorem encP_eq_iff {p q : String} : encP p = encP q ↔ PEq p q := by
  constructor
  · intro h
    unfold encP at h
    have h1 := encNats_inj _ _ h
    simp only [List.cons.injEq] at h1
    obtain ⟨hr, hs⟩ := h1
    have hs' : (Path.components p).2 = (Path.components q).2 :=
      map_inj_of_inj (fun a b hab => encS_inj hab) _ _ hs
    have hr' : (Path.components p).1 = (Path.components q).1 := by
      cases h1 : (Path.components p).1 <;> cases h2 : (Path.components q).1 <;> simp_all
    exact Prod.ext hr' hs'
  · intro h
    unfold encP
    rw [show Path.components p = Path.components q from h]

noncomputable def decS (n : Nat) : String :=
  if h : ∃ s, encS s = n then Classical.choose h else ""

theorem decS_encS (s : String) : decS (encS s) = s := by
  unfold decS
  have h : ∃ s', encS s' = encS s := ⟨s, rfl⟩
  rw [dif_pos h]
  exact encS_inj (Classical.choose_spec h)

/-- a spelling of the path with number `n` -/
noncomputable def decP (n : Nat) : String :=
  if h : ∃ p, encP p = n then Classical.choose h else ""

theorem decP_encP (p : String) : PEq (decP (encP p)) p := by
  unfold decP
  have h : ∃ p', encP p' = encP p := ⟨p, rfl⟩
  rw [dif_pos h]
  exact encP_eq_iff.mp (Classical.choose_spec h)

/-! ### the environment of the concrete parser and resolution -/

/-- what the bridge needs of the `Path` model: `parent` and `join` respect `PathBuf` equality -/
structure PathCongr : Prop where
  parent : ∀ p q, PEq p q →
    (Path.parent p = none ∧ Path.parent q = none) ∨ ∃ a b, Path.parent p = some a ∧ Path.parent q = some b ∧ PEq a b
  join : ∀ d d' n, PEq d d' → PEq (Path.join d n) (Path.join d' n)

/-- the first directory in which the name exists (`resolve_include_file`) -/
def firstHit (fs : Fs) (name : String) : List String → Option Host.Path
  | [] => none
  | dir :: dirs =>
    if (fs (encP (Path.join dir name))).isSome then some (encP (Path.join dir name)) else firstHit fs name dirs

/-- `Host.Env` of the concrete model: the include names of a text are those of `list_includes` of its parse, in
source order; an include is resolved in the directory of the including file, then in `includeDir` -/
noncomputable def bridgeEnv (includeDir : Option String) : Env where
  incs := fun t =>
    match parseFile (decS t) with
    | .ok (tree, _) => (listIncludes tree).map fun i => encS i.2
    | .error _ => []
  resolve := fun fs from_ name =>
    firstHit fs (decS name)
      ((Path.parent (decP from_)).toList ++ (match includeDir with | some d => [d] | none => []))

/-- the abstract file system of a finite concrete one (a number that is not the number of a path is not a file) -/
noncomputable def fsOf (vfs : List (String × String)) : Fs :=
  fun p => if encP (decP p) = p then (readV vfs (decP p)).map encS else none

theorem fsOf_encP (vfs : List (String × String)) (p : String) : fsOf vfs (encP p) = (readV vfs p).map encS := by
  unfold fsOf
  rw [if_pos (encP_eq_iff.mpr (decP_encP p)), readV_congr vfs (decP_encP p)]

theorem readV_append (vfs : List (String × String)) (p t q : String) :
    readV (vfs ++ [(p, t)]) q = if Path.pathEq p q then some t else readV vfs q := by
  unfold readV
  rw [List.filter_append]
  by_cases h : Path.pathEq p q = true
  · simp [List.filter_cons, h]
  · simp [List.filter_cons, h]

/-- writing a file (an editor buffer over the disk: the last entry for a path wins) -/
theorem fsOf_append (vfs : List (String × String)) (p t : String) :
    fsOf (vfs ++ [(p, t)]) = fun q => if q = encP p then some (encS t) else fsOf vfs q := by
  funext q
  unfold fsOf
  by_cases hq : encP (decP q) = q
  · rw [if_pos hq, if_pos hq, readV_append]
    by_cases hp : Path.pathEq p (decP q) = true
    · have : q = encP p := by rw [← hq]; exact (encP_eq_iff.mpr (pathEq_iff.mp hp)).symm
      rw [if_pos hp, if_pos this]; rfl
    · have : q ≠ encP p := by
        intro he
        apply hp
        rw [he] at hq ⊢
        exact pathEq_iff.mpr (decP_encP p).symm
      rw [if_neg hp, if_neg this]
  · rw [if_neg hq, if_neg hq]
    have : q ≠ encP p := by
      intro he
      apply hq
      rw [he]
      exact encP_eq_iff.mpr (decP_encP p)
    simp [this]

theorem fsOf_nil : fsOf [] = fun _ => none := by
  funext q
  unfold fsOf readV
  split <;> simp

/-! ### one include -/

/-- the abstract path of a file id -/
def rho (paths : Array String) (id : Nat) : Host.Path := encP (paths.getD id "")

theorem assign_spec (c : Collect) (p : String) :
    (∃ id, id < c.paths.size ∧ PEq (c.paths.getD id "") p ∧ c.assignOrGetFileId p = (id, c)) ∨
    ((∀ i, i < c.paths.size → ¬ PEq (c.paths.getD i "") p) ∧
      c.assignOrGetFileId p = (c.paths.size,
        { c with paths := c.paths.push p, contents := c.contents.push "", infos := c.infos.push none })) := by
  unfold Collect.assignOrGetFileId
  split
  · rename_i id hid
    obtain ⟨hlt, hp, _⟩ := Array.findIdx?_eq_some_iff_getElem.mp hid
    have hpe : PEq (c.paths.getD id "") p := by
      have : c.paths.getD id "" = c.paths[id] := by simp [Array.getD_eq_getD_getElem?, hlt]
      rw [this]; exact pathEq_iff.mp hp
    exact Or.inl ⟨id, hlt, hpe, rfl⟩
  · rename_i hnone
    refine Or.inr ⟨?_, rfl⟩
    intro i hi hpe
    have := Array.findIdx?_eq_none_iff.mp hnone c.paths[i] (Array.getElem_mem hi)
    have hg : c.paths.getD i "" = c.paths[i] := by simp [Array.getD_eq_getD_getElem?, hi]
    rw [hg] at hpe
    rw [pathEq_iff.mpr hpe] at this
    cases this

/-- the concrete and the abstract resolution of one include find the same file -/
theorem resolve_sim {vfs : List (String × String)} {c : Collect} (hv : c.vfs = vfs) (name : String) :
    ∀ dirs : List String,
    (firstHit (fsOf vfs) name dirs = none ∧ c.resolveIncludeFile name dirs = (none, c)) ∨
    (∃ cand content, firstHit (fsOf vfs) name dirs = some (encP cand) ∧ readV vfs cand = some content ∧
      c.resolveIncludeFile name dirs = (some (c.assignOrGetFileId cand).1,
        { (c.assignOrGetFileId cand).2 with
          contents := (c.assignOrGetFileId cand).2.contents.set! (c.assignOrGetFileId cand).1 content }))
  | [] => Or.inl ⟨rfl, rfl⟩
  | dir :: dirs => by
    simp only [firstHit, Collect.resolveIncludeFile, fsOf_encP, readContent_eq, hv]
    cases hr : readV vfs (Path.join dir name) with
    | none =>
      simp only [Option.map_none, Option.isSome_none, Bool.false_eq_true, if_false]
      exact resolve_sim hv name dirs
    | some content =>
      simp only [Option.map_some, Option.isSome_some, if_true]
      exact Or.inr ⟨_, content, rfl, hr, rfl⟩

/-- the part of the collection state that grows when ids are assigned -/
structure Ext (c c' : Collect) : Prop where
  size : c.paths.size ≤ c'.paths.size
  paths : ∀ i, i < c.paths.size → c'.paths.getD i "" = c.paths.getD i ""
  fileSet : c'.fileSet = c.fileSet
  infos : ∀ f, f < c.infos.size → c'.infos[f]? = c.infos[f]?
  infosNew : ∀ (f : Nat) (info : FileInfo), c'.infos[f]? = some (some info) → f < c.infos.size

theorem Ext.refl (c : Collect) : Ext c c := ⟨Nat.le_refl _, fun _ _ => rfl, rfl, fun _ _ => rfl, fun f info h => by
  by_cases hf : f < c.infos.size
  · exact hf
  · rw [Array.getElem?_eq_none (Nat.le_of_not_lt hf)] at h; cases h⟩

theorem Ext.trans {a b c : Collect} (hab : a.infos.size ≤ b.infos.size) (h1 : Ext a b) (h2 : Ext b c) : Ext a c :=
  ⟨Nat.le_trans h1.size h2.size, fun i hi => (h2.paths i (Nat.lt_of_lt_of_le hi h1.size)).trans (h1.paths i hi),
   h2.fileSet.trans h1.fileSet, fun f hf => (h2.infos f (Nat.lt_of_lt_of_le hf hab)).trans (h1.infos f hf),
   fun f info h => by
     have hb := h2.infosNew f info h
     rw [h2.infos f hb] at h
     exact h1.infosNew f info h⟩

/-- the concrete collection state and the abstract database agree -/
structure Rel (vfs : List (String × String)) (c : Collect) (db : Db) : Prop where
  t : TInv vfs c
  isz : c.infos.size = c.paths.size
  content : ∀ id, id < c.paths.size → db.content (rho c.paths id) = some (encS (c.contents.getD id ""))

/-- `assign_or_get_file_id(cand)` + storing the content, against `setContent` -/
theorem assignSet_rel {vfs : List (String × String)} {c : Collect} {db : Db} (h : Rel vfs c db) (cand content : String)
    (hc : readV vfs cand = some content) :
    let id := (c.assignOrGetFileId cand).1
    let c' : Collect := { (c.assignOrGetFileId cand).2 with
      contents := (c.assignOrGetFileId cand).2.contents.set! (c.assignOrGetFileId cand).1 content }
    Rel vfs c' (db.setContent (encP cand) (encS content)) ∧ Ext c c' ∧ c'.queue = c.queue ∧ id < c'.paths.size ∧
      rho c'.paths id = encP cand := by
  intro id c'
  have hT := assignSet_T h.t cand
  have hcont : content = (readV vfs cand).getD "" := by rw [hc]; rfl
  rw [← hcont] at hT
  obtain ⟨hT1, hlt, hkeep⟩ := hT
  rcases assign_spec c cand with ⟨i, hi, hpe, heq⟩ | ⟨hno, heq⟩
  · have hid : id = i := by show (c.assignOrGetFileId cand).1 = i; rw [heq]
    have hc' : c' = { c with contents := c.contents.set! i content } := by
      show ({ (c.assignOrGetFileId cand).2 with
        contents := (c.assignOrGetFileId cand).2.contents.set! (c.assignOrGetFileId cand).1 content } : Collect) = _
      rw [heq]
    have hrho : rho c.paths i = encP cand := encP_eq_iff.mpr hpe
    refine ⟨⟨hT1, ?_, ?_⟩, ?_, ?_, hlt, ?_⟩
    · rw [hc']; exact h.isz
    · intro j hj
      rw [hc'] at hj ⊢
      simp only at hj ⊢
      by_cases hji : j = i
      · subst hji
        rw [hrho, getD_set_eq (by rw [h.t.csz]; exact hi)]
        simp [Db.setContent]
      · have hne : rho c.paths j ≠ encP cand := by
          intro he
          rw [← hrho] at he
          exact hji (h.t.inj j i hj hi (encP_eq_iff.mp he))
        rw [getD_set_ne (Ne.symm hji)]
        simp only [Db.setContent, hne, if_false]
        exact h.content j hj
    · rw [hc']; exact ⟨Nat.le_refl _, fun _ _ => rfl, rfl, fun _ _ => rfl, (Ext.refl c).infosNew⟩
    · rw [hc']
    · rw [hc', hid]; exact hrho
  · have hid : id = c.paths.size := by show (c.assignOrGetFileId cand).1 = _; rw [heq]
    have hc' : c' = { c with paths := c.paths.push cand, contents := (c.contents.push "").set! c.paths.size content, infos := c.infos.push none } := by
      show ({ (c.assignOrGetFileId cand).2 with
        contents := (c.assignOrGetFileId cand).2.contents.set! (c.assignOrGetFileId cand).1 content } : Collect) = _
      rw [heq]
    have hrho : rho (c.paths.push cand) c.paths.size = encP cand := by
      unfold rho; rw [getD_push_eq]
    refine ⟨⟨hT1, ?_, ?_⟩, ?_, ?_, hlt, ?_⟩
    · rw [hc']; simp [h.isz]
    · intro j hj
      rw [hc'] at hj ⊢
      simp only [Array.size_push] at hj
      simp only
      rcases Nat.lt_succ_iff_lt_or_eq.mp hj with hj | hj
      · have hne : rho (c.paths.push cand) j ≠ encP cand := by
          intro he
          unfold rho at he
          rw [getD_push_lt hj] at he
          exact hno j hj (encP_eq_iff.mp he)
        rw [getD_set_ne (by omega), getD_push_lt (by rw [h.t.csz]; exact hj)]
        simp only [Db.setContent, hne, if_false]
        have := h.content j hj
        unfold rho at this ⊢
        rw [getD_push_lt hj]; exact this
      · subst hj
        rw [hrho, getD_set_eq (by simp [h.t.csz])]
        simp [Db.setContent]
    · rw [hc']
      refine ⟨by simp, fun i hi => getD_push_lt hi, rfl, fun f hf => ?_, fun f info hi => ?_⟩
      · simp [Array.getElem?_push, Nat.ne_of_lt hf]
      · simp only [Array.getElem?_push] at hi
        split at hi
        · cases hi
        · exact (Ext.refl c).infosNew f info hi
    · rw [hc']
    · rw [hc', hid]; exact hrho

/-! ### the includes of one file -/

theorem Rel.addQueue {vfs : List (String × String)} {c : Collect} {db : Db} (h : Rel vfs c db) (id : Nat)
    (hid : id < c.paths.size) : Rel vfs { c with queue := c.queue ++ [id] } db := by
  refine ⟨⟨h.t.hv, h.t.csz, ?_, h.t.fileSet, h.t.nodup, h.t.inj, h.t.cont⟩, h.isz, h.content⟩
  intro f hf
  simp only [List.mem_append, List.mem_singleton] at hf
  rcases hf with hf | rfl
  · exact h.t.queue f hf
  · exact hid

/-- the fold of `collect_sources` over the include statements of a file, against `Host.resolveAll`: they find the
same files (`H`: statement index, range of the statement, file id), queue them in the same order and store the
same contents -/
theorem fold_sim {vfs : List (String × String)} (env : Env) (fromP : Host.Path) (dirs : List String)
    (hres : ∀ s, env.resolve (fsOf vfs) fromP (encS s) = firstHit (fsOf vfs) s dirs)
    (g : Collect × List ((Nat × Nat) × Nat) → (Nat × Nat) × String → Collect × List ((Nat × Nat) × Nat))
    (hg : ∀ st inc,
      (∃ id c', st.1.resolveIncludeFile inc.2 dirs = (some id, c') ∧
        g st inc = ({ c' with queue := c'.queue ++ [id] }, st.2 ++ [(inc.1, id)])) ∨
      (∃ c', st.1.resolveIncludeFile inc.2 dirs = (none, c') ∧ g st inc = (c', st.2))) :
    ∀ (incs : List ((Nat × Nat) × String)) (k : Nat) (st : Collect × List ((Nat × Nat) × Nat)) (db : Db),
    Rel vfs st.1 db →
    ∃ H : List (Nat × (Nat × Nat) × Nat),
      (incs.foldl g st).2 = st.2 ++ H.map (fun h => (h.2.1, h.2.2)) ∧
      (resolveAll env (fsOf vfs) fromP ((incs.map fun i => encS i.2).zipIdx k) db).1 =
        H.map (fun h => (h.1, rho (incs.foldl g st).1.paths h.2.2)) ∧
      (incs.foldl g st).1.queue = st.1.queue ++ H.map (fun h => h.2.2) ∧
      Rel vfs (incs.foldl g st).1 (resolveAll env (fsOf vfs) fromP ((incs.map fun i => encS i.2).zipIdx k) db).2 ∧
      Ext st.1 (incs.foldl g st).1 ∧
      (∀ h ∈ H, h.2.2 < (incs.foldl g st).1.paths.size ∧ ∃ s, ((h.2.1, s), h.1) ∈ incs.zipIdx k)
  | [], k, st, db, h => ⟨[], by simp, by simp [resolveAll], by simp, by simpa [resolveAll] using h, Ext.refl _,
      by intro h hh; cases hh⟩
  | inc :: incs, k, st, db, h => by
    simp only [List.foldl_cons, List.map_cons, List.zipIdx_cons, resolveAll, hres]
    rcases resolve_sim h.t.hv inc.2 dirs with ⟨hfh, hcr⟩ | ⟨cand, content, hfh, hrv, hcr⟩
    · rw [hfh]
      simp only
      have hgs : g st inc = (st.1, st.2) := by
        rcases hg st inc with ⟨id, c', hr, _⟩ | ⟨c', hr, hgs⟩
        · rw [hcr] at hr; cases hr
        · rw [hcr] at hr; cases hr; exact hgs
      rw [hgs]
      obtain ⟨H, h1, h2, h3, h4, h5, h6⟩ := fold_sim env fromP dirs hres g hg incs (k + 1) (st.1, st.2) db h
      refine ⟨H, h1, h2, h3, h4, h5, fun x hx => ?_⟩
      obtain ⟨hx1, s, hx2⟩ := h6 x hx
      exact ⟨hx1, s, List.mem_cons_of_mem _ hx2⟩
    · rw [hfh]
      simp only [fsOf_encP, hrv, Option.map_some]
      obtain ⟨r1, r2, r3, r4, r5⟩ := assignSet_rel h cand content hrv
      have hgs : g st inc = ({ ({ (st.1.assignOrGetFileId cand).2 with
            contents := (st.1.assignOrGetFileId cand).2.contents.set! (st.1.assignOrGetFileId cand).1 content } :
              Collect) with
          queue := (st.1.assignOrGetFileId cand).2.queue ++ [(st.1.assignOrGetFileId cand).1] },
          st.2 ++ [(inc.1, (st.1.assignOrGetFileId cand).1)]) := by
        rcases hg st inc with ⟨id, c', hr, hgs⟩ | ⟨c', hr, _⟩
        · rw [hcr] at hr; cases hr; exact hgs
        · rw [hcr] at hr; cases hr
      rw [hgs]
      generalize hid : (st.1.assignOrGetFileId cand).1 = id at r1 r2 r3 r4 r5 ⊢
      generalize hc1 : ({ (st.1.assignOrGetFileId cand).2 with
            contents := (st.1.assignOrGetFileId cand).2.contents.set! id content } : Collect) = c1 at r1 r2 r3 r4 r5
      have hq : (st.1.assignOrGetFileId cand).2.queue = c1.queue := by rw [← hc1]
      rw [hq]
      obtain ⟨H, h1, h2, h3, h4, h5, h6⟩ := fold_sim env fromP dirs hres g hg incs (k + 1)
        ({ c1 with queue := c1.queue ++ [id] }, st.2 ++ [(inc.1, id)]) (db.setContent (encP cand) (encS content))
        (r1.addQueue id r4)
      have hext : Ext st.1 (List.foldl g ({ c1 with queue := c1.queue ++ [id] }, st.2 ++ [(inc.1, id)]) incs).1 :=
        Ext.trans (by rw [h.isz, r1.isz]; exact r2.size) r2
          ⟨h5.size, h5.paths, h5.fileSet, h5.infos, h5.infosNew⟩
      refine ⟨(k, inc.1, id) :: H, ?_, ?_, ?_, h4, hext, ?_⟩
      · rw [h1]; simp
      · rw [h2]
        simp only [List.map_cons, List.cons.injEq, Prod.mk.injEq, true_and]
        refine ⟨?_, trivial⟩
        rw [← r5]
        unfold rho
        rw [h5.paths id r4]
      · rw [h3, r3]; simp
      · intro x hx
        rcases List.mem_cons.mp hx with rfl | hx
        · exact ⟨Nat.lt_of_lt_of_le r4 h5.size, inc.2, by simp⟩
        · obtain ⟨hx1, s, hx2⟩ := h6 x hx
          exact ⟨hx1, s, List.mem_cons_of_mem _ hx2⟩

/-! ### the loop -/

theorem firstHit_parent_congr (hpc : PathCongr) (fs : Fs) (name : String) (X : List String) {p p' : String}
    (h : PEq p p') : firstHit fs name ((Path.parent p).toList ++ X) = firstHit fs name ((Path.parent p').toList ++ X) := by
  rcases hpc.parent p p' h with ⟨h1, h2⟩ | ⟨a, b, h1, h2, hab⟩
  · rw [h1, h2]
  · rw [h1, h2]
    simp only [Option.toList_some, List.singleton_append, firstHit]
    rw [encP_eq_iff.mpr (hpc.join a b name hab)]

/-- file `f` has been collected: its info is the parse of its content, and its concrete and abstract include
maps list the same hits `H` (statement index, range of the statement, target) -/
def Done (vfs : List (String × String)) (c : Collect) (db : Db) (f : Nat) : Prop :=
  ∃ (info : FileInfo) (H : List (Nat × (Nat × Nat) × Nat)),
    c.infos[f]? = some (some info) ∧ info.path = c.paths.getD f "" ∧
    parseFile ((readV vfs (c.paths.getD f "")).getD "") = .ok (info.tree, info.errors) ∧
    info.includeMap = H.map (fun h => (h.2.1, h.2.2)) ∧
    db.incMap (rho c.paths f) = H.map (fun h => (h.1, rho c.paths h.2.2)) ∧
    ∀ h ∈ H, h.2.2 < c.paths.size ∧ ∃ s, ((h.2.1, s), h.1) ∈ (listIncludes info.tree).zipIdx

structure Sim (vfs : List (String × String)) (c : Collect) (q vis : List Host.Path) (db : Db) : Prop where
  rel : Rel vfs c db
  q : q = c.queue.map (rho c.paths)
  vis : vis = (c.fileSet.toList.map (rho c.paths)).reverse
  done : ∀ f ∈ c.fileSet.toList, Done vfs c db f
  infoPath : ∀ (f : Nat) (info : FileInfo), c.infos[f]? = some (some info) → info.path = c.paths.getD f ""

theorem rho_inj {vfs : List (String × String)} {c : Collect} (h : TInv vfs c) {i j : Nat} (hi : i < c.paths.size)
    (hj : j < c.paths.size) (he : rho c.paths i = rho c.paths j) : i = j :=
  h.inj i j hi hj (encP_eq_iff.mp he)

theorem map_rho_congr {a b : Array String} {l : List Nat} (h : ∀ i ∈ l, b.getD i "" = a.getD i "") :
    l.map (rho b) = l.map (rho a) :=
  List.map_congr_left fun i hi => by unfold rho; rw [h i hi]

/-- **`collect_sources` refines the worklist loop of the abstract host**, step by step and with the same fuel -/
theorem collect_sim (hpc : PathCongr) (includeDir : Option String) {vfs : List (String × String)} :
    ∀ (fuel : Nat) (c c' : Collect) (q vis : List Host.Path) (db : Db), Sim vfs c q vis db →
    collectLoop includeDir fuel c = .ok c' →
    ∃ vis' db', collect (bridgeEnv includeDir) (fsOf vfs) fuel q vis db = some (vis', db') ∧
      Sim vfs c' [] vis' db' ∧ c'.queue = [] ∧
      c.paths.size ≤ c'.paths.size ∧ ∀ i, i < c.paths.size → c'.paths.getD i "" = c.paths.getD i ""
  | 0, _, _, _, _, _, _, h => by simp [collectLoop] at h
  | fuel + 1, c, c', q, vis, db, hs, h => by
    unfold collectLoop at h
    split at h
    · rename_i hq
      cases h
      have hq' : q = [] := by rw [hs.q, hq]; rfl
      subst hq'
      exact ⟨vis, db, by simp [collect], hs, hq, Nat.le_refl _, fun _ _ => rfl⟩
    · rename_i fileId queue hq
      dsimp only at h
      have hT := hs.rel.t
      have hfid : fileId < c.paths.size := hT.queue fileId (by rw [hq]; simp)
      have hq' : q = rho c.paths fileId :: queue.map (rho c.paths) := by rw [hs.q, hq]; rfl
      have hT1 : TInv vfs { c with queue := queue } :=
        ⟨hT.hv, hT.csz, fun f hf => hT.queue f (by rw [hq]; simp [hf]), hT.fileSet, hT.nodup, hT.inj, hT.cont⟩
      have hmem : vis.contains (rho c.paths fileId) = c.fileSet.contains fileId := by
        rw [hs.vis]
        apply Bool.eq_iff_iff.mpr
        simp only [List.contains_eq_mem, List.mem_reverse, List.mem_map, decide_eq_true_eq, Array.contains_eq_mem]
        constructor
        · rintro ⟨g, hg, he⟩
          have := rho_inj hT (hT.fileSet g hg) hfid he
          subst this
          exact Array.mem_toList_iff.mp hg
        · intro hm
          exact ⟨fileId, Array.mem_toList_iff.mpr hm, rfl⟩
      subst hq'
      simp only [collect, hmem]
      split at h
      · rename_i hin
        rw [if_pos hin]
        exact collect_sim hpc includeDir fuel { c with queue := queue } c' _ vis db
          ⟨⟨hT1, hs.rel.isz, hs.rel.content⟩, rfl, hs.vis, hs.done, hs.infoPath⟩ h
      · rename_i hnot
        rw [if_neg hnot]
        have hnotin : fileId ∉ c.fileSet.toList := by
          intro hm
          apply hnot
          simp only [Array.contains_eq_mem, decide_eq_true_eq]
          exact Array.mem_toList_iff.mp hm
        rw [hs.rel.content fileId hfid]
        simp only
        split at h
        · cases h
        · rename_i tree errors hparse
          have hincs : (bridgeEnv includeDir).incs (encS (c.contents.getD fileId "")) =
              (listIncludes tree).map fun i => encS i.2 := by
            simp only [bridgeEnv, decS_encS, hparse]
          rw [hincs]
          have hT2 : TInv vfs { c with queue := queue, fileSet := c.fileSet.push fileId } := by
            refine ⟨hT.hv, hT.csz, hT1.queue, ?_, ?_, hT.inj, hT.cont⟩
            · intro f hf
              simp only [Array.toList_push, List.mem_append, List.mem_singleton] at hf
              rcases hf with hf | rfl
              · exact hT.fileSet f hf
              · exact hfid
            · simp only [Array.toList_push]
              exact List.nodup_append.mpr ⟨hT.nodup, by simp, by
                intro a ha b hb
                simp only [List.mem_singleton] at hb
                subst hb
                intro hab; subst hab; exact hnotin ha⟩
          generalize hP : c.paths.getInternal fileId hfid = P at h
          have hPe : P = c.paths.getD fileId "" := by rw [← hP]; simp [Array.getD, hfid]
          subst hPe
          clear hP
          generalize hD : ((Path.parent (c.paths.getD fileId "")).toList ++ _) = D at h
          have hres : ∀ s, (bridgeEnv includeDir).resolve (fsOf vfs) (rho c.paths fileId) (encS s) =
              firstHit (fsOf vfs) s D := by
            intro s
            simp only [bridgeEnv, decS_encS]
            rw [← hD]
            exact firstHit_parent_congr hpc _ _ _ (decP_encP _)
          generalize hgdef : (fun (st : Collect × List ((Nat × Nat) × Nat)) (inc : (Nat × Nat) × String) => _) = g at h
          have hg : ∀ st inc,
              (∃ id c', st.1.resolveIncludeFile inc.2 D = (some id, c') ∧
                g st inc = ({ c' with queue := c'.queue ++ [id] }, st.2 ++ [(inc.1, id)])) ∨
              (∃ c', st.1.resolveIncludeFile inc.2 D = (none, c') ∧ g st inc = (c', st.2)) := by
            intro st inc
            rw [← hgdef]
            simp only
            split
            · rename_i id c'' heq
              exact Or.inl ⟨id, c'', heq, rfl⟩
            · rename_i c'' heq
              exact Or.inr ⟨c'', heq, rfl⟩
          clear hgdef hD
          exact (fun hfold => by
              obtain ⟨H, h1, h2, h3, h4, h5, h6⟩ := hfold
              generalize List.foldl _ _ _ = rr at h h1 h2 h3 h4 h5 h6
              obtain ⟨cF, im⟩ := rr
              simp only [List.nil_append] at h h1 h2 h3 h4 h5 h6
              subst h1
              generalize hra : resolveAll (bridgeEnv includeDir) (fsOf vfs) (rho c.paths fileId)
                ((listIncludes tree).map fun i => encS i.2).zipIdx db = ra at h2 h4 ⊢
              obtain ⟨r1, r2⟩ := ra
              simp only at h2 h4 ⊢
              have hinc : r2.incMap = db.incMap := by
                have := resolveAll_incMap (bridgeEnv includeDir) (fsOf vfs) (rho c.paths fileId)
                  ((listIncludes tree).map fun i => encS i.2).zipIdx db
                rw [hra] at this; exact this
              have hpaths : ∀ i, i < c.paths.size → cF.paths.getD i "" = c.paths.getD i "" := h5.paths
              have hfidF : fileId < cF.paths.size := Nat.lt_of_lt_of_le hfid h5.size
              have hfsF : cF.fileSet = c.fileSet.push fileId := h5.fileSet
              refine (fun X => by
                obtain ⟨v', d', x1, x2, x3, x4, x5⟩ := X
                exact ⟨v', d', x1, x2, x3, Nat.le_trans h5.size x4,
                  fun i hi => (x5 i (Nat.lt_of_lt_of_le hi h5.size)).trans (hpaths i hi)⟩)
                (collect_sim hpc includeDir fuel _ c' _ _ _ ⟨⟨?_, ?_, ?_⟩, ?_, ?_, ?_, ?_⟩ h)
              · exact ⟨h4.t.hv, h4.t.csz, h4.t.queue, h4.t.fileSet, h4.t.nodup, h4.t.inj, h4.t.cont⟩
              · show (cF.infos.set! fileId _).size = cF.paths.size
                simp [h4.isz]
              · exact h4.content
              · show _ = cF.queue.map (rho cF.paths)
                rw [h3, h2, List.map_append, List.map_map, List.map_map]
                congr 1
                exact (map_rho_congr fun i hi => hpaths i (hT1.queue i hi)).symm
              · show _ = (cF.fileSet.toList.map (rho cF.paths)).reverse
                rw [hfsF, hs.vis]
                simp only [Array.toList_push, List.map_append, List.map_cons, List.map_nil, List.reverse_append,
                  List.reverse_cons, List.reverse_nil, List.nil_append, List.singleton_append, List.cons.injEq]
                refine ⟨by unfold rho; rw [hpaths fileId hfid], ?_⟩
                rw [map_rho_congr fun i hi => hpaths i (hT.fileSet i hi)]
              · intro f hf
                have hf' : f ∈ (c.fileSet.push fileId).toList := by rw [← hfsF]; exact hf
                simp only [Array.toList_push, List.mem_append, List.mem_singleton] at hf'
                rcases hf' with hf' | rfl
                · obtain ⟨info, H0, d1, d2, d3, d4, d5, d6⟩ := hs.done f hf'
                  have hfl := hT.fileSet f hf'
                  have hne : f ≠ fileId := fun he => hnotin (he ▸ hf')
                  refine ⟨info, H0, ?_, ?_, ?_, d4, ?_, ?_⟩
                  · show (cF.infos.set! fileId _)[f]? = _
                    simp only [Array.set!_eq_setIfInBounds, Array.getElem?_setIfInBounds, Ne.symm hne, if_false]
                    rw [h5.infos f (by show f < c.infos.size; rw [hs.rel.isz]; exact hfl)]
                    exact d1
                  · show info.path = cF.paths.getD f ""
                    rw [hpaths f hfl]; exact d2
                  · show parseFile ((readV vfs (cF.paths.getD f "")).getD "") = _
                    rw [hpaths f hfl]; exact d3
                  · show (if rho cF.paths f = rho c.paths fileId then r1 else r2.incMap (rho cF.paths f)) = _
                    have hrf : rho cF.paths f = rho c.paths f := by unfold rho; rw [hpaths f hfl]
                    rw [hrf, if_neg (fun he => hne (rho_inj hT hfl hfid he)), hinc, d5]
                    exact List.map_congr_left fun x hx => by
                      unfold rho; rw [hpaths _ (d6 x hx).1]
                  · intro x hx
                    exact ⟨Nat.lt_of_lt_of_le (d6 x hx).1 h5.size, (d6 x hx).2⟩
                · refine ⟨FileInfo.mk (c.paths.getD f "") tree errors (H.map fun h => (h.2.1, h.2.2)), H,
                    ?_, ?_, ?_, rfl, ?_, ?_⟩
                  · show (cF.infos.set! f _)[f]? = _
                    simp only [Array.set!_eq_setIfInBounds, Array.getElem?_setIfInBounds, if_true]
                    rw [if_pos (by rw [h4.isz]; exact hfidF)]
                  · show c.paths.getD f "" = cF.paths.getD f ""
                    rw [hpaths f hfid]
                  · show parseFile ((readV vfs (cF.paths.getD f "")).getD "") = _
                    rw [hpaths f hfid, ← hT.cont f hfid]; exact hparse
                  · show (if rho cF.paths f = rho c.paths f then r1 else r2.incMap (rho cF.paths f)) = _
                    have hrf : rho cF.paths f = rho c.paths f := by unfold rho; rw [hpaths f hfid]
                    rw [if_pos hrf, h2]
                  · exact h6
              · intro f info hi
                show info.path = cF.paths.getD f ""
                have hi' : (cF.infos.set! fileId (some (FileInfo.mk (c.paths.getD fileId "") tree errors
                    (H.map fun h => (h.2.1, h.2.2)))))[f]? = some (some info) := hi
                simp only [Array.set!_eq_setIfInBounds, Array.getElem?_setIfInBounds] at hi'
                split at hi'
                · rename_i hff
                  subst hff
                  split at hi'
                  · simp only [Option.some.injEq] at hi'
                    rw [← hi', hpaths fileId hfid]
                    simp [Array.getD, hfid]
                  · cases hi'
                · have hfo : f < c.infos.size := h5.infosNew f info hi'
                  rw [h5.infos f hfo] at hi'
                  rw [hpaths f (by rw [← hs.rel.isz]; exact hfo)]
                  exact hs.infoPath f info hi')
            (fold_sim (bridgeEnv includeDir) (rho c.paths fileId) _ hres g hg
              (listIncludes tree) 0 ({ c with queue := queue, fileSet := c.fileSet.push fileId }, []) db
              ⟨hT2, hs.rel.isz, hs.rel.content⟩)

/-! ### `buildWorkspace` -/

/-- the fuel `buildWorkspace` gives `collect_sources` -/
def bwFuel (vfs : List (String × String)) : Nat := vfs.foldl (fun n e => n + e.2.length + 1) 16

/-- what `Host.observe` of the abstract database and the concrete workspace have in common -/
structure Refines (vfs : List (String × String)) (ws : Workspace) (db : Db) : Prop where
  /-- same root -/
  root : db.root = some (encP (ws.pathStr ws.root))
  /-- same files; the host lists the most recently collected first, the workspace in collection order -/
  files : db.files = (ws.fileSet.map fun f => encP (ws.pathStr f)).reverse
  /-- different file ids are different abstract paths -/
  inj : ∀ f ∈ ws.fileSet, ∀ g ∈ ws.fileSet, encP (ws.pathStr f) = encP (ws.pathStr g) → f = g
  /-- per file: the same content (the file system's text, whose parse is the file's tree), and the same include
  map: the hits `H` (statement index, range of the statement, target file) -/
  file : ∀ f ∈ ws.fileSet, ∃ (fi : FileInfo) (H : List (Nat × (Nat × Nat) × Nat)),
    ws.file? f = some fi ∧
    db.content (encP (ws.pathStr f)) = some (encS ((readV vfs (ws.pathStr f)).getD "")) ∧
    parseFile ((readV vfs (ws.pathStr f)).getD "") = .ok (fi.tree, fi.errors) ∧
    fi.includeMap = H.map (fun h => (h.2.1, h.2.2)) ∧
    db.incMap (encP (ws.pathStr f)) = H.map (fun h => (h.1, encP (ws.pathStr h.2.2))) ∧
    ∀ h ∈ H, ∃ s, (listIncludes fi.tree)[h.1]? = some (h.2.1, s)

theorem mem_zipIdx_getElem? {α : Type} {l : List α} {a : α} {i : Nat} (h : (a, i) ∈ l.zipIdx) : l[i]? = some a := by
  have := List.mem_zipIdx h
  simp only [Nat.zero_add, Nat.sub_zero] at this
  obtain ⟨_, h2, h3⟩ := this
  rw [List.getElem?_eq_getElem h2, h3]

/-- **the abstract host, started freshly on the abstract image of a finite file system, computes the workspace
that `buildWorkspace` builds** (given that the `Path` functions respect path equality, and that the root file
exists) -/
theorem fresh_refines_of (hpc : PathCongr) {vfs : List (String × String)} {rootPath : String}
    {includeDir : Option String} {ws : Workspace} (hb : buildWorkspace vfs rootPath includeDir = .ok ws)
    {text : String} (hroot : readV vfs rootPath = some text) :
    ∃ db, Host.fresh (bridgeEnv includeDir) (bwFuel vfs) (fsOf vfs) (encP rootPath) = some db ∧
      PEq (ws.pathStr ws.root) rootPath ∧ Refines vfs ws db := by
  unfold buildWorkspace at hb
  simp only at hb
  have h0 : Rel vfs ({ vfs := vfs } : Collect) ({} : Db) := by
    refine ⟨⟨rfl, rfl, ?_, ?_, ?_, ?_, ?_⟩, rfl, ?_⟩
    · intro f hf; cases hf
    · intro f hf; simp at hf
    · simp
    · intro i j hi; simp at hi
    · intro i hi; simp at hi
    · intro i hi; simp at hi
  obtain ⟨r1, r2, r3, r4, r5⟩ := assignSet_rel h0 rootPath text hroot
  have hfs : (({ vfs := vfs } : Collect).assignOrGetFileId rootPath).2.fileSet = #[] := r2.fileSet
  have hrc : ∀ c : Collect, c.vfs = vfs → (c.readContent rootPath).getD "" = text := by
    intro c hc; rw [readContent_eq, hc, hroot]; rfl
  have hvfs1 : (({ vfs := vfs } : Collect).assignOrGetFileId rootPath).2.vfs = vfs := by
    unfold Collect.assignOrGetFileId; split <;> rfl
  have hq1 : (({ vfs := vfs } : Collect).assignOrGetFileId rootPath).2.queue = [] := r3
  generalize ({ vfs := vfs } : Collect).assignOrGetFileId rootPath = res at hb r1 r2 r4 r5 hfs hvfs1 hq1
  obtain ⟨root, c1⟩ := res
  simp only at hb r1 r2 r4 r5 hfs hvfs1 hq1
  rw [hrc c1 hvfs1] at hb
  have hsim : Sim vfs ({ c1 with contents := c1.contents.set! root text, queue := [root] } : Collect)
      [encP rootPath] [] (({} : Db).setContent (encP rootPath) (encS text)) := by
    have hr := r1.addQueue root r4
    rw [hq1] at hr
    refine ⟨hr, ?_, ?_, ?_, ?_⟩
    rotate_right
    · intro f info hi
      have hi' : c1.infos[f]? = some (some info) := hi
      have := r2.infosNew f info hi'
      simp at this
    · show _ = [rho c1.paths root]
      rw [r5]
    · show _ = (c1.fileSet.toList.map (rho c1.paths)).reverse
      rw [hfs]; rfl
    · intro f hf
      have hf' : f ∈ c1.fileSet.toList := hf
      rw [hfs] at hf'; simp at hf'
  split at hb
  · cases hb
  · rename_i c hloop
    simp only [Except.ok.injEq] at hb
    obtain ⟨vis', db', hcol, hfin, _, hsz, hstab⟩ := collect_sim hpc includeDir _ _ c _ _ _ hsim hloop
    have hT := hfin.rel.t
    have hisz := hfin.rel.isz
    -- paths of the workspace
    have hpath : ∀ i, i < c.paths.size → ws.pathStr i = c.paths.getD i "" := by
      intro i hi
      rw [← hb]
      simp only [Workspace.pathStr, Array.getElem?_mapIdx]
      have hi' : i < c.infos.size := by rw [hisz]; exact hi
      have hget : c.infos[i]? = some c.infos[i] := Array.getElem?_eq_getElem hi'
      rw [hget]
      simp only [Option.map_some]
      cases hinfo : c.infos[i] with
      | none => rfl
      | some info => exact hfin.infoPath i info (by rw [hget, hinfo])
    have hfile : ∀ i (info : FileInfo), c.infos[i]? = some (some info) → ws.file? i = some info := by
      intro i info hi
      rw [← hb]
      simp only [Workspace.file?, Array.getElem?_mapIdx, hi, Option.map_some]
    have hfsl : ws.fileSet = c.fileSet.toList := by rw [← hb]
    have hrootid : ws.root = root := by rw [← hb]
    have hrootlt : root < c.paths.size := Nat.lt_of_lt_of_le r4 hsz
    have hrootp : PEq (ws.pathStr ws.root) rootPath := by
      rw [hrootid, hpath root hrootlt, hstab root r4]
      exact encP_eq_iff.mp r5
    have hmapeq : ∀ l : List Nat, (∀ f ∈ l, f < c.paths.size) →
        l.map (fun f => encP (ws.pathStr f)) = l.map (rho c.paths) := by
      intro l hl
      exact List.map_congr_left fun f hf => by unfold rho; rw [hpath f (hl f hf)]
    refine ⟨{ db' with files := vis', root := some (encP rootPath) }, ?_, hrootp, ?_, ?_, ?_, ?_⟩
    · unfold fresh
      rw [fsOf_encP, hroot]
      simp only [Option.map_some, setRoot]
      show (match collect (bridgeEnv includeDir) (fsOf vfs) (bwFuel vfs) [encP rootPath] []
        (({} : Db).setContent (encP rootPath) (encS text)) with
        | some (vis, db') => some { db' with files := vis, root := some (encP rootPath) }
        | none => none) = _
      unfold bwFuel
      rw [hcol]
    · show some (encP rootPath) = some (encP (ws.pathStr ws.root))
      rw [encP_eq_iff.mpr hrootp]
    · show vis' = _
      rw [hfin.vis, hfsl, hmapeq _ hT.fileSet]
    · intro f hf g hg he
      rw [hfsl] at hf hg
      have hf' := hT.fileSet f hf
      have hg' := hT.fileSet g hg
      rw [hpath f hf', hpath g hg'] at he
      exact hT.inj f g hf' hg' (encP_eq_iff.mp he)
    · intro f hf
      rw [hfsl] at hf
      have hf' := hT.fileSet f hf
      obtain ⟨info, H, d1, d2, d3, d4, d5, d6⟩ := hfin.done f hf
      refine ⟨info, H, hfile f info d1, ?_, ?_, d4, ?_, ?_⟩
      · show db'.content (encP (ws.pathStr f)) = _
        rw [hpath f hf']
        have := hfin.rel.content f hf'
        rw [hT.cont f hf'] at this
        exact this
      · rw [hpath f hf']; exact d3
      · show db'.incMap (encP (ws.pathStr f)) = _
        rw [hpath f hf']
        have : rho c.paths f = encP (c.paths.getD f "") := rfl
        rw [← this, d5]
        exact List.map_congr_left fun x hx => by unfold rho; rw [hpath _ (d6 x hx).1]
      · intro x hx
        obtain ⟨_, s, hs⟩ := d6 x hx
        exact ⟨s, mem_zipIdx_getElem? hs⟩

/-! ### fuel -/

theorem collect_fuel_succ (env : Env) (fs : Fs) : ∀ (n : Nat) (q vis : List Host.Path) (db : Db) (r : List Host.Path × Db),
    collect env fs n q vis db = some r → collect env fs (n + 1) q vis db = some r
  | 0, _, _, _, _, h => by simp [collect] at h
  | n + 1, [], vis, db, r, h => by simpa [collect] using h
  | n + 1, f :: q, vis, db, r, h => by
    rw [collect] at h ⊢
    split
    · rename_i hc
      rw [if_pos hc] at h
      exact collect_fuel_succ env fs n q vis db r h
    · rename_i hc
      rw [if_neg hc] at h
      cases hcf : db.content f with
      | none => rw [hcf] at h; cases h
      | some t =>
        rw [hcf] at h
        exact collect_fuel_succ env fs n _ _ _ r h

theorem collect_fuel_le (env : Env) (fs : Fs) {n m : Nat} (hnm : n ≤ m) (q vis : List Host.Path) (db : Db)
    (r : List Host.Path × Db) (h : collect env fs n q vis db = some r) : collect env fs m q vis db = some r := by
  induction hnm with
  | refl => exact h
  | step _ ih => exact collect_fuel_succ env fs _ q vis db r ih

theorem setRoot_fuel_le (env : Env) (fs : Fs) {n m : Nat} (hnm : n ≤ m) (root : Host.Path) (db d : Db)
    (h : setRoot env fs n root db = some d) : setRoot env fs m root db = some d := by
  unfold setRoot at h ⊢
  cases hc : collect env fs n [root] [] db with
  | none => rw [hc] at h; cases h
  | some r => rw [hc] at h; rw [collect_fuel_le env fs hnm _ _ _ r hc]; exact h

theorem fresh_fuel_le (env : Env) (fs : Fs) {n m : Nat} (hnm : n ≤ m) (root : Host.Path) (d : Db)
    (h : fresh env n fs root = some d) : fresh env m fs root = some d := by
  unfold fresh at h ⊢
  cases hr : fs root with
  | none => rw [hr] at h; cases h
  | some t => rw [hr] at h; exact setRoot_fuel_le env fs hnm _ _ d h

/-- two runs of the fresh host that both succeed agree, whatever their fuel -/
theorem fresh_fuel_agree (env : Env) (fs : Fs) (n m : Nat) (root : Host.Path) (d d' : Db)
    (h : fresh env n fs root = some d) (h' : fresh env m fs root = some d') : d = d' := by
  rcases Nat.le_total n m with hnm | hnm
  · have := fresh_fuel_le env fs hnm root d h
    rw [this] at h'; exact Option.some.inj h'
  · have := fresh_fuel_le env fs hnm root d' h'
    rw [this] at h; exact (Option.some.inj h).symm

theorem bwFuel_append (a b : List (String × String)) : bwFuel a ≤ bwFuel (a ++ b) := by
  unfold bwFuel
  rw [List.foldl_append]
  generalize List.foldl (fun n e => n + e.2.length + 1) 16 a = x
  induction b generalizing x with
  | nil => exact Nat.le_refl _
  | cons e b ih => exact Nat.le_trans (by omega) (ih (x + e.2.length + 1))

/-- **`fresh_refines_buildWorkspace`**, for every fuel that is at least the fuel of `buildWorkspace`
(`16 + Σ (length of the text + 1)` over the entries of the file system) -/
theorem fresh_refines_le (hpc : PathCongr) {vfs : List (String × String)} {rootPath : String}
    {includeDir : Option String} {ws : Workspace} (hb : buildWorkspace vfs rootPath includeDir = .ok ws)
    {text : String} (hroot : readV vfs rootPath = some text) {fuel : Nat} (hf : bwFuel vfs ≤ fuel) :
    ∃ db, Host.fresh (bridgeEnv includeDir) fuel (fsOf vfs) (encP rootPath) = some db ∧
      PEq (ws.pathStr ws.root) rootPath ∧ Refines vfs ws db := by
  obtain ⟨db, h1, h2, h3⟩ := fresh_refines_of hpc hb hroot
  exact ⟨db, fresh_fuel_le _ _ hf _ _ h1, h2, h3⟩

/-! ### what is observable suffices -/

theorem Refines.of_observe {vfs : List (String × String)} {ws : Workspace} {d d' : Db} (h : Refines vfs ws d')
    (ho : observe d = observe d') : Refines vfs ws d := by
  have hfiles : d.files = d'.files := congrArg Obs.files ho
  have hroot : d.root = d'.root := congrArg Obs.root ho
  have hc : d.files.map d.content = d'.files.map d'.content := congrArg Obs.contents ho
  have hi : d.files.map d.incMap = d'.files.map d'.incMap := congrArg Obs.incMaps ho
  rw [← hfiles] at hc hi
  have hc' := List.map_inj_left.mp hc
  have hi' := List.map_inj_left.mp hi
  have hmem : ∀ f ∈ ws.fileSet, encP (ws.pathStr f) ∈ d.files := by
    intro f hf
    rw [hfiles, h.files]
    exact List.mem_reverse.mpr (List.mem_map.mpr ⟨f, hf, rfl⟩)
  refine ⟨hroot.trans h.root, hfiles.trans h.files, h.inj, fun f hf => ?_⟩
  obtain ⟨fi, H, a1, a2, a3, a4, a5, a6⟩ := h.file f hf
  exact ⟨fi, H, a1, (hc' _ (hmem f hf)).trans a2, a3, a4, (hi' _ (hmem f hf)).trans a5, a6⟩

/-! ### sessions -/

theorem snoc_induction {α : Type} {P : List α → Prop} (h0 : P []) (hs : ∀ l a, P l → P (l ++ [a])) : ∀ l, P l := by
  intro l
  have : ∀ r : List α, P r.reverse := by
    intro r
    induction r with
    | nil => exact h0
    | cons a r ih => rw [List.reverse_cons]; exact hs _ a ih
  have h := this l.reverse
  rwa [List.reverse_reverse] at h

/-- a concrete session history (document path, text sent) as a history of the abstract session model -/
def absH (hc : List (String × String)) : List (Host.Path × Host.Text) := hc.map fun e => (encP e.1, encS e.2)

/-- the file system the analysis sees in a session: the disk overlaid with the editor buffers, is the abstract
image of the disk entries followed by the texts sent, in order (the last entry for a path wins) -/
theorem overlay_run {D : Type} (env : Env) (diag : Session.DiagFn D) (fuel : Nat) (diskV : List (String × String)) :
    ∀ hc : List (String × String),
    Session.overlay (fsOf diskV) (Session.run env diag fuel (fsOf diskV) (absH hc)).buffers = fsOf (diskV ++ hc) := by
  refine snoc_induction ?_ ?_
  · funext q
    simp [Session.run, Session.overlay, absH]
  · intro pre e ih
    obtain ⟨p, t⟩ := e
    have : absH (pre ++ [(p, t)]) = absH pre ++ [(encP p, encS t)] := by simp [absH]
    rw [this, Session.run_snoc, Session.edit_buffers, ← List.append_assoc, fsOf_append, ← ih]
    funext q
    simp only [Session.overlay]
    by_cases hq : q = encP p
    · simp [hq]
    · simp [hq]

/-- **after any session history, the inputs of the analysis are exactly those from which `buildWorkspace` builds
the workspace of the overlaid file system with the last touched document as root** -/
theorem session_refines (hpc : PathCongr) (includeDir : Option String) {D : Type} (diag : Session.DiagFn D)
    (fuel : Nat) (diskV pre : List (String × String)) (p t : String) (d : Db)
    (hd : (Session.run (bridgeEnv includeDir) diag fuel (fsOf diskV) (absH (pre ++ [(p, t)]))).db = some d)
    {ws : Workspace} (hb : buildWorkspace (diskV ++ (pre ++ [(p, t)])) p includeDir = .ok ws) :
    PEq (ws.pathStr ws.root) p ∧ Refines (diskV ++ (pre ++ [(p, t)])) ws d := by
  have habs : absH (pre ++ [(p, t)]) = absH pre ++ [(encP p, encS t)] := by simp [absH]
  rw [habs, Session.run_snoc, Session.edit_db] at hd
  simp only at hd
  obtain ⟨d0, _, hset⟩ := Session.newDb_some _ fuel _ _ _ d hd
  have hfs : Session.overlay (Session.run (bridgeEnv includeDir) diag fuel (fsOf diskV) (absH pre)).disk
      (fun q => if q = encP p then some (encS t)
        else (Session.run (bridgeEnv includeDir) diag fuel (fsOf diskV) (absH pre)).buffers q) =
      fsOf (diskV ++ (pre ++ [(p, t)])) := by
    rw [Session.run_disk, ← List.append_assoc, fsOf_append, ← overlay_run (bridgeEnv includeDir) diag fuel diskV pre]
    funext q
    simp only [Session.overlay]
    by_cases hq : q = encP p
    · simp [hq]
    · simp [hq]
  rw [hfs] at hset
  have hroot : readV (diskV ++ (pre ++ [(p, t)])) p = some t := by
    rw [← List.append_assoc, readV_append]
    simp [pathEq_iff.mpr (PEq.refl p)]
  obtain ⟨dB, hB, hp, hR⟩ := fresh_refines_of hpc hb hroot
  -- the host's database and the fresh one are observably the same
  have hdet := setRoot_deterministic (bridgeEnv includeDir) (fsOf (diskV ++ (pre ++ [(p, t)]))) fuel (encP p)
    (d0.setContent (encP p) (encS t)) (({} : Db).setContent (encP p) (encS t)) (by simp [Db.setContent])
  rw [hset] at hdet
  have hfresh : fresh (bridgeEnv includeDir) fuel (fsOf (diskV ++ (pre ++ [(p, t)]))) (encP p) =
      setRoot (bridgeEnv includeDir) (fsOf (diskV ++ (pre ++ [(p, t)]))) fuel (encP p)
        (({} : Db).setContent (encP p) (encS t)) := by
    unfold fresh
    rw [fsOf_encP, hroot]
    rfl
  cases hF : fresh (bridgeEnv includeDir) fuel (fsOf (diskV ++ (pre ++ [(p, t)]))) (encP p) with
  | none => rw [← hfresh, hF] at hdet; simp at hdet
  | some dF =>
    rw [← hfresh, hF] at hdet
    simp only [Option.map_some, Option.some.injEq] at hdet
    have := fresh_fuel_agree _ _ _ _ _ _ _ hF hB
    subst this
    exact ⟨hp, hR.of_observe hdet⟩

/-- **a session never runs out of fuel** when the fuel is at least `16 + Σ (length + 1)` over the texts on disk
and all the texts the editor sent -/
theorem session_never_fails (hpc : PathCongr) (hparse : ∀ t, ∃ r, parseFile t = .ok r) (includeDir : Option String)
    {D : Type} (diag : Session.DiagFn D) (fuel : Nat) (diskV : List (String × String)) :
    ∀ hc : List (String × String), bwFuel (diskV ++ hc) ≤ fuel →
      ∃ d, (Session.run (bridgeEnv includeDir) diag fuel (fsOf diskV) (absH hc)).db = some d := by
  refine snoc_induction ?_ ?_
  · intro _; exact ⟨{}, rfl⟩
  · intro pre e ih hf
    obtain ⟨p, t⟩ := e
    have hf' : bwFuel (diskV ++ pre) ≤ fuel := by
      rw [← List.append_assoc] at hf
      exact Nat.le_trans (bwFuel_append _ _) hf
    obtain ⟨d0, hd0⟩ := ih hf'
    have habs : absH (pre ++ [(p, t)]) = absH pre ++ [(encP p, encS t)] := by simp [absH]
    rw [habs, Session.run_snoc, Session.edit_db]
    unfold Session.newDb
    rw [hd0]
    simp only [Option.map_some, Option.bind_some]
    have hfs : Session.overlay (Session.run (bridgeEnv includeDir) diag fuel (fsOf diskV) (absH pre)).disk
        (fun q => if q = encP p then some (encS t)
          else (Session.run (bridgeEnv includeDir) diag fuel (fsOf diskV) (absH pre)).buffers q) =
        fsOf (diskV ++ (pre ++ [(p, t)])) := by
      rw [Session.run_disk, ← List.append_assoc, fsOf_append, ← overlay_run (bridgeEnv includeDir) diag fuel diskV pre]
      funext q
      simp only [Session.overlay]
      by_cases hq : q = encP p
      · simp [hq]
      · simp [hq]
    rw [hfs]
    have hroot : readV (diskV ++ (pre ++ [(p, t)])) p = some t := by
      rw [← List.append_assoc, readV_append]
      simp [pathEq_iff.mpr (PEq.refl p)]
    obtain ⟨ws, hb⟩ := buildWorkspace_total_of hparse (diskV ++ (pre ++ [(p, t)])) p includeDir
    obtain ⟨dB, hB, _, _⟩ := fresh_refines_le hpc hb hroot hf
    have hdet := setRoot_deterministic (bridgeEnv includeDir) (fsOf (diskV ++ (pre ++ [(p, t)]))) fuel (encP p)
      (d0.setContent (encP p) (encS t)) (({} : Db).setContent (encP p) (encS t)) (by simp [Db.setContent])
    have hfresh : fresh (bridgeEnv includeDir) fuel (fsOf (diskV ++ (pre ++ [(p, t)]))) (encP p) =
        setRoot (bridgeEnv includeDir) (fsOf (diskV ++ (pre ++ [(p, t)]))) fuel (encP p)
          (({} : Db).setContent (encP p) (encS t)) := by
      unfold fresh
      rw [fsOf_encP, hroot]
      rfl
    rw [← hfresh, hB] at hdet
    cases hs : setRoot (bridgeEnv includeDir) (fsOf (diskV ++ (pre ++ [(p, t)]))) fuel (encP p)
        (d0.setContent (encP p) (encS t)) with
    | none => rw [hs] at hdet; simp at hdet
    | some d => exact ⟨d, rfl⟩

/-! ### without hypotheses on the `Path` model -/

/-- `parent` and `join` respect path equality (`PathLemmas.lean`) -/
theorem pathCongr : PathCongr := ⟨fun _ _ h => Path.parent_congr h, fun d d' n h => Path.join_congr d d' n h⟩

/-- **the abstract host, started freshly on the abstract image of a finite file system with an existing root
file, computes the workspace that `buildWorkspace` builds**: for every fuel from `bwFuel vfs` on it succeeds, and
its database has the same root, the same files (in the opposite order), per file the same content and the same
include map as the workspace -/
theorem fresh_refines_buildWorkspace {vfs : List (String × String)} {rootPath : String}
    {includeDir : Option String} {ws : Workspace} (hb : buildWorkspace vfs rootPath includeDir = .ok ws)
    {text : String} (hroot : readV vfs rootPath = some text) {fuel : Nat} (hf : bwFuel vfs ≤ fuel) :
    ∃ db, Host.fresh (bridgeEnv includeDir) fuel (fsOf vfs) (encP rootPath) = some db ∧
      PEq (ws.pathStr ws.root) rootPath ∧ Refines vfs ws db :=
  fresh_refines_le pathCongr hb hroot hf

end Bridge
end Ide
end Tg
