/-
C04 converse for values, with the trailing comma of a list decided by the tree (part 1).

The lemmas of `C04ConvV*` once more, relative to a context `RunCtx`: a predicate `I` on states that every run
preserves and a predicate `J` on states that every run reflects (if it holds afterwards it held before) —
in the application `J s` = "every node in the builder of `s` passes the node check".  The value shape is
`VShape0` = `VShape` without the pattern `, ]`; a list with a trailing comma is excluded by the hook
`ListHook` instead (which the tree check provides), so that the documented trailing comma of a slice
`x[1,]` is not excluded any more.
-/
import TgModel.Lemmas.C04Tree2

namespace Tg
namespace C04L
open Prog Grammar Frag Doc

local notation "rcv" => Tables.recoverTokens

/-- a forward and a backward invariant of runs -/
structure RunCtx where
  I : PState → Prop
  J : PState → Prop
  hI : ∀ (n : Nat) (p : Prog) (a b : PState), I a → exec defs rcv n p a = .ok b → I b
  hJ : ∀ (n : Nat) (p : Prog) (a b : PState), I a → exec defs rcv n p a = .ok b → J b → J a

/-- the value patterns without `, ]` -/
def valuePatterns0 : List (List TokenKind) :=
  [[.StrVal, .StrVal], [.Less, .Code], [.LSquare, .RSquare], [.LBrace, .RBrace], [.LParen, .RParen],
   [.Comma, .RBrace], [.Comma, .RParen], [.RSquare, .Less]]

def VShape0 (w : List TokenKind) : Prop := ∀ pat ∈ valuePatterns0, occurs pat w = false

instance decVShape0 (w : List TokenKind) : Decidable (VShape0 w) := by unfold VShape0; infer_instance

theorem VShape0.infix {u v x : List TokenKind} (h : VShape0 (u ++ v ++ x)) : VShape0 v :=
  fun pat hp => occurs_infix (h pat hp)

theorem VShape0.left {u v : List TokenKind} (h : VShape0 (u ++ v)) : VShape0 u :=
  VShape0.infix (u := []) (by simpa using h)

theorem VShape0.right {u v : List TokenKind} (h : VShape0 (u ++ v)) : VShape0 v :=
  VShape0.infix (u := u) (x := []) (by simpa using h)

theorem VShape0.tail {p : TokenKind} {v : List TokenKind} (h : VShape0 (p :: v)) : VShape0 v :=
  VShape0.right (u := [p]) h

theorem VShape0.not_pat {pat : List TokenKind} (hp : pat ∈ valuePatterns0) (hne : pat ≠ []) (u x : List TokenKind)
    (h : VShape0 (u ++ (pat ++ x))) : False := by
  have := h pat hp
  rw [occurs_append_right pat u (occurs_prefix x (by rw [List.isPrefixOf_iff_prefix]; exact List.prefix_refl _) hne)] at this
  cases this

theorem ty_docV0 {t : Ty} (hs : VShape0 (TokenKind.Less :: t.render)) : Derives (.nt .Type_) t.render := by
  apply d_type
  cases hu : t.usesCode
  · rfl
  · exfalso
    rcases usesCode_shape t hu with rfl | ho
    · exact VShape0.not_pat (pat := [TokenKind.Less, TokenKind.Code]) (by decide) (by simp) [] []
        (by simpa [Ty.render] using hs)
    · have := hs [TokenKind.Less, TokenKind.Code] (by decide)
      have h2 := occurs_append_right _ [TokenKind.Less] ho
      simp only [List.cons_append, List.nil_append] at h2
      rw [h2] at this
      cases this

/-- the hook: a `list_` run whose end state satisfies `J` did not consume a trailing comma -/
def ListHook (C : RunCtx) : Prop :=
  ∀ (n : Nat) (a b : PState), C.I a → Norm a → exec defs rcv n (call .list_) a = .ok b → Clean a b →
    ∀ w, a.kinds = w ++ b.kinds → C.J b → ¬ ∃ u, w = u ++ [TokenKind.Comma, TokenKind.RSquare]

/-- what a value function achieved on a clean run -/
def VConvJ (C : RunCtx) (s s' : PState) (A : E) : Prop :=
  ∃ w, s.kinds = w ++ s'.kinds ∧ s'.afterError = false ∧ (C.J s' → VShape0 w → Derives A w)

/-- induction hypothesis -/
def ValHJ (C : RunCtx) (L : Nat) : Prop :=
  ∀ (n : Nat) (s s' : PState), s.kinds.length < L → C.I s → exec defs rcv n (call .value) s = .ok s' →
    Clean s s' → VConvJ C s s' (.nt .Value_)

/-- items that derive from `A` under the value shape -/
def QV0 (A : E) (w : List TokenKind) : Prop := VShape0 w → Derives A w

/-! ### separator loops -/

theorem sepLJ_inv (C : RunCtx) (L : Nat) (stop : List TokenKind) (item : Prog) (Q : List TokenKind → Prop)
    (hitem : ∀ (n : Nat) (a b : PState), a.kinds.length < L → C.I a → exec defs rcv n item a = .ok b → Clean a b →
      ∃ w, a.kinds = w ++ b.kinds ∧ b.afterError = false ∧ (C.J b → Q w)) :
    ∀ (n : Nat) (s s' : PState), s.kinds.length < L → C.I s →
      exec defs rcv n (loop (ifAt stop (retB false) (seq item (eatIf .Comma))) nop) s = .ok s' → Clean s s' →
      s.afterError = false →
      ∃ w b, s.kinds = w ++ s'.kinds ∧ s'.afterError = false ∧ (C.J s' → SepList Q b w) ∧
        (b = true → stop.contains s'.cur = true) := by
  intro n
  induction n with
  | zero => intro s s' _ _ h; simp [exec] at h
  | succ n ih =>
    intro s s' hl hi h hc ha
    obtain ⟨s1, h1, c1, hcase⟩ := loop_inv h hc
    have i1 := C.hI _ _ _ _ hi h1
    have h1 := lift_fuel h1 5
    rcases ifAt_inv defs rcv h1 with ⟨hstop, h1⟩ | ⟨_, h1⟩
    · have e1 := retB_inv defs rcv h1; subst e1
      rcases hcase with ⟨_, rfl⟩ | ⟨hf, _⟩
      · exact ⟨[], true, rfl, ha, fun _ => SepList.nil, fun _ => hstop⟩
      · simp at hf
    · obtain ⟨sa, h2, c2, h3, c3⟩ := seq_inv defs rcv h1 c1
      have ia := C.hI _ _ _ _ hi h2
      obtain ⟨w1, k1, a1, q1⟩ := hitem _ _ _ hl hi h2 c2
      rcases eatIf_clean (by decide) h3 with ⟨_, hfl, kc, ac, _⟩ | ⟨hne, rfl⟩
      · rcases hcase with ⟨hf, _⟩ | ⟨_, s2, hb, _, hl2, cl⟩
        · rw [hfl] at hf; cases hf
        · have e2 := nop_inv defs rcv (lift_fuel hb 1)
          rw [e2] at hl2 cl
          have l1 : s1.kinds.length < L := by
            have : s.kinds = (w1 ++ [TokenKind.Comma]) ++ s1.kinds := by rw [k1, kc]; simp
            exact Nat.lt_of_le_of_lt (kinds_len_le this) hl
          obtain ⟨w2, b, k2, a2, sl, hs1⟩ := ih _ _ l1 i1 hl2 cl ac
          refine ⟨w1 ++ TokenKind.Comma :: w2, b, by rw [k1, kc, k2]; simp, a2, fun j => ?_, hs1⟩
          have j1 : C.J s1 := C.hJ _ _ _ _ i1 hl2 j
          have ja : C.J sa := C.hJ _ _ _ _ ia h3 j1
          exact SepList.cons (q1 ja) (sl j)
      · rcases hcase with ⟨_, rfl⟩ | ⟨hf, _⟩
        · refine ⟨w1, false, k1, a1, fun j => SepList.last (q1 ?_), fun hb => by cases hb⟩
          exact C.hJ _ _ _ _ ia h3 j
        · simp at hf

theorem sepV0_star {A : E} {w : List TokenKind} (h : SepList (QV0 A) false w) (hT : VShape0 w) :
    Derives (.star (.seq (.tok [TokenKind.Comma]) A)) (TokenKind.Comma :: w) := by
  generalize hb : false = b at h
  induction h with
  | nil => cases hb
  | last hq => exact d_cast (Derives.starCons (d_tokSeq (List.mem_singleton.mpr rfl) (hq hT)) Derives.starNil) (by simp)
  | @cons u rest b hq _ ih =>
    have h1 : VShape0 u := hT.left
    have h2 : VShape0 rest := (hT.right (u := u)).tail
    exact d_cast (Derives.starCons (d_tokSeq (List.mem_singleton.mpr rfl) (hq h1)) (ih h2 hb)) (by simp)

theorem sepV0_derives {A : E} {w : List TokenKind} (h : SepList (QV0 A) false w) (hT : VShape0 w) :
    Derives (.seq A (.star (.seq (.tok [TokenKind.Comma]) A))) w := by
  cases h with
  | last hq => exact d_seq_nil (hq hT) Derives.starNil
  | @cons u rest _ hq hr =>
    have h1 : VShape0 u := hT.left
    have h2 : VShape0 rest := (hT.right (u := u)).tail
    exact Derives.seq (hq h1) (sepV0_star hr h2)

/-- **`bra item ("," item)* ket`**, entered at `bra` -/
theorem delimJ_inv (C : RunCtx) (L : Nat) (bra ket : TokenKind) (item : Prog) (Q : List TokenKind → Prop)
    (hb : plain bra = true) (hk : plain ket = true)
    (hitem : ∀ (n : Nat) (a b : PState), a.kinds.length < L → C.I a → exec defs rcv n item a = .ok b → Clean a b →
      ∃ w, a.kinds = w ++ b.kinds ∧ b.afterError = false ∧ (C.J b → Q w))
    (n : Nat) (s s' : PState) (hl : s.kinds.length ≤ L) (hi : C.I s) (hcur : s.cur = bra ∨ s.afterError = false)
    (h : exec defs rcv n (delimited bra ket .Comma item) s = .ok s') (hc : Clean s s') :
    ∃ ws b, s.kinds = bra :: (ws ++ ket :: s'.kinds) ∧ s'.afterError = false ∧ Norm s' ∧
      (C.J s' → SepList Q b ws) := by
  have h := lift_fuel h 10
  simp only [delimited, seqs] at h
  obtain ⟨s1, h1, c1, h, hc⟩ := seq_inv defs rcv h hc
  have i1 := C.hI _ _ _ _ hi h1
  have e1 : s.kinds = bra :: s1.kinds ∧ s1.afterError = false ∧ Norm s1 := by
    rcases hcur with hcur | ha
    · exact expect_hit hb hcur h1
    · exact expect_cleanN hb h1 c1 ha
  obtain ⟨k1, a1, n1⟩ := e1
  obtain ⟨s2, h2, c2, h3, c3⟩ := seq_inv defs rcv h hc
  have i2 := C.hI _ _ _ _ i1 h2
  have l1 : s1.kinds.length < L := by
    have : s.kinds = [bra] ++ s1.kinds := k1
    exact Nat.lt_of_lt_of_le (kinds_len_lt this (by simp)) hl
  obtain ⟨ws, b, k2, a2, sl, _⟩ := sepLJ_inv C L _ _ Q hitem _ _ _ l1 i1 h2 c2 a1
  obtain ⟨k3, a3, n3⟩ := expect_cleanN hk h3 c3 a2
  exact ⟨ws, b, by rw [k1, k2, k3], a3, n3, fun j => sl (C.hJ _ _ _ _ i2 h3 j)⟩

/-- the documented content of a delimited list: not empty, no trailing comma (from the patterns) -/
theorem delim0_derives {bra ket : TokenKind} {A : E} {ws x : List TokenKind} {b : Bool}
    (h1 : [bra, ket] ∈ valuePatterns0) (h2 : [TokenKind.Comma, ket] ∈ valuePatterns0)
    (sl : SepList (QV0 A) b ws) (hs : VShape0 (bra :: (ws ++ ket :: x))) :
    Derives (.seq A (.star (.seq (.tok [TokenKind.Comma]) A))) ws := by
  cases b with
  | true =>
    exfalso
    rcases sl.true_shape with rfl | ⟨u, rfl⟩
    · exact VShape0.not_pat h1 (by simp) [] x (by simpa using hs)
    · exact VShape0.not_pat h2 (by simp) (bra :: u) x (by simpa using hs)
  | false =>
    have : VShape0 ws := VShape0.infix (u := [bra]) (x := ket :: x) (by simpa using hs)
    exact sepV0_derives sl this

end C04L
end Tg
