/-
Which files the indexer indexes.  `InclRel` relates the state before and after a successful run of a function
of the indexer: the indexed files only grow, stay duplicate free, and every indexed file that is not being
indexed at the moment (is not on the file trace) has all the include statements of its top-level statement list
resolved to indexed files.  The last clause needs to know that `include` really indexes the file, which is
true of the `Rec`s of `mkRec` only; hence the pass of `IdeInclPass.lean`.
-/
import TgModel.Lemmas.IdeInclPass
import TgModel.Lemmas.IdeSemDiag

namespace Tg
namespace Ide

open Index

/-- the file an include statement `n` of file `f` was resolved to by `collect_sources` -/
def incTarget (ws : Workspace) (f : Nat) (n : PTree) : Option Nat :=
  (match ws.file? f with
    | some fi => fi.includeMap
    | none => []).lookup (n.start, n.stop)

/-- the statements of the top-level statement list of file `f`: the ones the indexer executes unconditionally
when it indexes `f` -/
def topStatements (ws : Workspace) (f : Nat) : List PTree :=
  match Ast.sourceFileCast (ws.tree f) with
  | none => []
  | some sf =>
    match Ast.sourceFileStatementList sf with
    | none => []
    | some l => Ast.statementListStatements l

/-- the diagnostic for the unresolved include statement `n` of file `f` -/
def notFound (f : Nat) (n : PTree) : Diagnostic :=
  { location := ⟨f, n.start, n.stop⟩
    message := "include file not found: " ++ ((Ast.includePath n).map Ast.stringValue).getD "" }

/-- all resolved top-level include statements of `f` lead into `S`, all unresolved ones are reported in `D` -/
def IncDone (ws : Workspace) (f : Nat) (S : List Nat) (D : List Diagnostic) : Prop :=
  ∀ n ∈ topStatements ws f, n.kind = .Include →
    (∀ t, incTarget ws f n = some t → t ∈ S) ∧ (incTarget ws f n = none → notFound f n ∈ D)

theorem IncDone.mono {ws : Workspace} {f : Nat} {S S' : List Nat} {D D' : List Diagnostic} (h : IncDone ws f S D)
    (hs : ∀ x ∈ S, x ∈ S') (hd : ∀ x ∈ D, x ∈ D') : IncDone ws f S' D' :=
  fun n hn hk => ⟨fun t ht => hs t ((h n hn hk).1 t ht), fun ht => hd _ ((h n hn hk).2 ht)⟩

/-- every indexed file is being indexed or done -/
def IncClosed (c : IndexCtx) : Prop :=
  ∀ f ∈ c.indexedFiles, f ∈ c.fileTrace ∨ IncDone c.ws f c.indexedFiles c.diagnostics.toList

structure InclRel (c c' : IndexCtx) : Prop where
  ws : c'.ws = c.ws
  trace : c'.fileTrace = c.fileTrace
  mono : ∀ f, f ∈ c.indexedFiles → f ∈ c'.indexedFiles
  nodup : c.indexedFiles.Nodup → c'.indexedFiles.Nodup
  diags : ∀ d, d ∈ c.diagnostics.toList → d ∈ c'.diagnostics.toList
  closed : IncClosed c → IncClosed c'

theorem InclRel.refl (c : IndexCtx) : InclRel c c := ⟨rfl, rfl, fun _ h => h, fun h => h, fun _ h => h, fun h => h⟩

theorem InclRel.trans {a b c : IndexCtx} (h1 : InclRel a b) (h2 : InclRel b c) : InclRel a c :=
  ⟨h2.ws.trans h1.ws, h2.trace.trans h1.trace, fun f hf => h2.mono f (h1.mono f hf),
   fun h => h2.nodup (h1.nodup h), fun d hd => h2.diags d (h1.diags d hd), fun h => h2.closed (h1.closed h)⟩

/-- a step that touches neither the workspace, the file trace nor the indexed files and only adds diagnostics -/
theorem InclRel.of_same {c c' : IndexCtx} (h1 : c'.ws = c.ws) (h2 : c'.fileTrace = c.fileTrace)
    (h3 : c'.indexedFiles = c.indexedFiles) (h4 : ∀ d, d ∈ c.diagnostics.toList → d ∈ c'.diagnostics.toList) :
    InclRel c c' :=
  ⟨h1, h2, fun f hf => by rw [h3]; exact hf, fun h => by rw [h3]; exact h, h4, fun h => by
    unfold IncClosed at h ⊢
    rw [h1, h2, h3]
    intro f hf
    rcases h f hf with h' | h'
    · exact Or.inl h'
    · exact Or.inr (h'.mono (fun _ hx => hx) h4)⟩

theorem report_diags (c : IndexCtx) (f : Nat) (rg : Nat × Nat) (msg : String) :
    ∀ d, d ∈ c.diagnostics.toList → d ∈ (c.report f rg msg).diagnostics.toList := by
  intro d hd
  simp only [IndexCtx.report, Array.toList_push, List.mem_append]
  exact Or.inl hd

instance : KeepRel InclRel where
  refl := InclRel.refl
  trans := InclRel.trans

theorem InclRel.error (rg : Nat × Nat) (msg : String) : Keeps InclRel (error rg msg) := by
  refine ⟨fun c a c' h => ?_⟩
  cases hft : c.fileTrace with
  | nil =>
    unfold Ide.error currentFileId at h
    simp only [StateT.run_bind, IxM.run_get, Except.ok_bind, hft] at h
    cases h
  | cons f rest =>
    rw [error_run rg msg c f rest hft] at h
    cases h
    exact InclRel.of_same rfl rfl rfl (report_diags c f rg msg)

instance : Inc.CoreRel InclRel where
  sm := fun _ _ _ => InclRel.of_same rfl rfl rfl (fun _ h => h)
  anon := Keeps.modifyGet _ fun _ => InclRel.of_same rfl rfl rfl (fun _ h => h)
  error := InclRel.error

instance : Inc.NoScopeRel InclRel where
  scopes := fun _ _ _ h => ⟨h.ws, h.trace, h.mono, h.nodup, h.diags, h.closed⟩

instance : Inc.VarRel InclRel where
  addVariable := fun v => by
    unfold scopesAddVariable
    keeps
    refine Keeps.modifyGet _ fun c => ?_
    split <;> exact InclRel.of_same rfl rfl rfl (fun _ h => h)

/-! ### the four ways an `include` statement can run -/

theorem indexInclude_cases (r : Rec) (n : PTree) (c c' : IndexCtx) (f : Nat) (rest : List Nat)
    (hft : c.fileTrace = f :: rest) (h : (indexInclude r n).run c = .ok ((), c')) :
    (incTarget c.ws f n = none ∧ c' = c.report f (nodeRange n) (notFound f n).message) ∨
    (∃ t, incTarget c.ws f n = some t ∧ t ∈ c.indexedFiles ∧ c' = c) ∨
    (∃ t, incTarget c.ws f n = some t ∧ t ∉ c.indexedFiles ∧ Ast.sourceFileCast (c.ws.tree t) = none ∧
      c' = { c with indexedFiles := t :: c.indexedFiles }) ∨
    (∃ t sf c3 x rest', incTarget c.ws f n = some t ∧ t ∉ c.indexedFiles ∧
      Ast.sourceFileCast (c.ws.tree t) = some sf ∧
      (r.sourceFile sf).run { c with indexedFiles := t :: c.indexedFiles, fileTrace := t :: c.fileTrace } =
        .ok ((), c3) ∧
      c3.fileTrace = x :: rest' ∧ c' = { c3 with fileTrace := rest' }) := by
  unfold indexInclude at h
  simp only [StateT.run_bind, currentFileId_run c f rest hft, Except.ok_bind, IxM.run_get] at h
  change ((match (List.lookup (n.start, n.stop) (match c.ws.file? f with
      | some fi => fi.includeMap
      | none => [])) with
    | none => _
    | some includeFileId => _ : IxM Unit).run c) = _ at h
  cases ht : incTarget c.ws f n with
  | none =>
    left
    unfold incTarget at ht
    rw [ht] at h
    simp only at h
    rw [error_run _ _ c f rest hft] at h
    cases h
    refine ⟨rfl, ?_⟩
    simp [notFound, toString]
  | some t =>
    right
    unfold incTarget at ht
    rw [ht] at h
    simp only at h
    obtain ⟨b, c1, h1, h⟩ := IxM.run_bind_ok h
    unfold markIndexed at h1
    rw [IxM.run_modifyGet] at h1
    by_cases hin : c.indexedFiles.contains t = true
    · simp only [hin, if_true, Except.ok.injEq, Prod.mk.injEq] at h1
      obtain ⟨rfl, rfl⟩ := h1
      simp only [Bool.not_false, if_true, StateT.run_pure] at h
      cases h
      exact Or.inl ⟨t, rfl, by simpa using hin, rfl⟩
    · simp only [hin, Bool.false_eq_true, if_false, Except.ok.injEq, Prod.mk.injEq] at h1
      obtain ⟨rfl, rfl⟩ := h1
      have hnot : t ∉ c.indexedFiles := by simpa using hin
      simp only [Bool.not_true, Bool.false_eq_true, if_false] at h
      right
      split at h
      · rename_i sf hsf
        right
        obtain ⟨_, c2, h2, h⟩ := IxM.run_bind_ok h
        unfold pushFile at h2
        rw [IxM.run_modify] at h2
        cases h2
        obtain ⟨_, c3, h3, h⟩ := IxM.run_bind_ok h
        unfold popFile at h
        obtain ⟨c3', c3'', hg, h⟩ := IxM.run_bind_ok h
        rw [IxM.run_get] at hg
        cases hg
        cases htr : c3.fileTrace with
        | nil =>
          rw [htr] at h
          cases h
        | cons x rest' =>
          rw [htr] at h
          simp only [IxM.run_modify] at h
          cases h
          exact ⟨t, sf, c3, x, rest', rfl, hnot, hsf, h3, htr, rfl⟩
      · rename_i hsf
        left
        simp only [StateT.run_pure] at h
        cases h
        refine ⟨t, rfl, hnot, ?_, rfl⟩
        cases hc : Ast.sourceFileCast (c.ws.tree t) with
        | none => rfl
        | some sf => exact absurd hc (hsf sf)

/-! ### an `include` statement marks its target or reports that there is none -/

theorem include_marks (r : Rec) (hsf : ∀ n, Keeps AttrRel (r.sourceFile n)) (n : PTree) (c c' : IndexCtx)
    (f : Nat) (rest : List Nat) (hft : c.fileTrace = f :: rest) (t : Nat)
    (ht : incTarget c.ws f n = some t) (h : (indexInclude r n).run c = .ok ((), c')) : t ∈ c'.indexedFiles := by
  rcases indexInclude_cases r n c c' f rest hft h with ⟨h1, _⟩ | ⟨t', h1, h2, rfl⟩ | ⟨t', h1, _, _, rfl⟩ |
      ⟨t', sf, c3, x, rest', h1, _, _, h3, _, rfl⟩
  · rw [h1] at ht; cases ht
  · rw [h1] at ht; cases ht; exact h2
  · rw [h1] at ht; cases ht; exact List.mem_cons_self ..
  · rw [h1] at ht; cases ht
    exact ((hsf sf).run _ _ _ h3).mono t (List.mem_cons_self ..)

theorem include_reports (r : Rec) (n : PTree) (c c' : IndexCtx)
    (f : Nat) (rest : List Nat) (hft : c.fileTrace = f :: rest)
    (ht : incTarget c.ws f n = none) (h : (indexInclude r n).run c = .ok ((), c')) :
    notFound f n ∈ c'.diagnostics.toList := by
  rcases indexInclude_cases r n c c' f rest hft h with ⟨_, rfl⟩ | ⟨t', h1, _⟩ | ⟨t', h1, _⟩ | ⟨t', _, _, _, _, h1, _⟩
  · simp only [IndexCtx.report, Array.toList_push, List.mem_append, List.mem_singleton]
    exact Or.inr rfl
  · rw [h1] at ht; cases ht
  · rw [h1] at ht; cases ht
  · rw [h1] at ht; cases ht

theorem AttrRel.diags_mono {c c' : IndexCtx} (h : AttrRel c c') :
    ∀ d, d ∈ c.diagnostics.toList → d ∈ c'.diagnostics.toList := by
  obtain ⟨extra, he, _⟩ := h.diags
  intro d hd
  rw [he]; exact List.mem_append_left _ hd

/-! ### running a statement list executes its include statements -/

theorem stmts_spine (r : Rec) (hst : ∀ n, Keeps AttrRel (indexStatement r n))
    (hsf : ∀ n, Keeps AttrRel (r.sourceFile n)) (f : Nat) (rest : List Nat) :
    ∀ (L : List PTree) (c c' : IndexCtx) (u : PUnit),
    (forIn L PUnit.unit fun statement __s => do
      indexStatement r statement
      pure (ForInStep.yield PUnit.unit) : IxM PUnit).run c = .ok (u, c') →
    c.fileTrace = f :: rest →
    (∀ x ∈ c.indexedFiles, x ∈ c'.indexedFiles) ∧
    (∀ d, d ∈ c.diagnostics.toList → d ∈ c'.diagnostics.toList) ∧
    ∀ n ∈ L, n.kind = .Include →
      (∀ t, incTarget c.ws f n = some t → t ∈ c'.indexedFiles) ∧
      (incTarget c.ws f n = none → notFound f n ∈ c'.diagnostics.toList)
  | [], c, c', u, h, _ => by
    simp only [List.forIn_nil, StateT.run_pure] at h
    cases h
    exact ⟨fun _ hx => hx, fun _ hx => hx, fun n hn => nomatch hn⟩
  | s :: L, c, c', u, h, hft => by
    rw [List.forIn_cons] at h
    obtain ⟨st, c1, h1, h⟩ := IxM.run_bind_ok h
    obtain ⟨_, c1', h1', h1⟩ := IxM.run_bind_ok h1
    simp only [StateT.run_pure, Except.ok.injEq, Prod.mk.injEq] at h1
    obtain ⟨rfl, rfl⟩ := h1
    simp only at h
    have a1 := (hst s).run _ _ _ h1'
    obtain ⟨ih1, ihd, ih2⟩ := stmts_spine r hst hsf f rest L c1 c' u h (a1.trace.trans hft)
    refine ⟨fun x hx => ih1 x (a1.mono x hx), fun d hd => ihd d (a1.diags_mono d hd), fun n hn hk => ?_⟩
    rcases List.mem_cons.mp hn with rfl | hn
    · unfold indexStatement at h1'
      simp only [hk] at h1'
      exact ⟨fun t ht => ih1 _ (include_marks r hsf n c c1 f rest hft t ht h1'),
        fun ht => ihd _ (include_reports r n c c1 f rest hft ht h1')⟩
    · have := ih2 n hn hk
      rw [a1.ws] at this
      exact this

/-- indexing the source file `sf` of file `f` marks the targets of all resolved top-level include statements
and reports the unresolved ones -/
theorem sourceFile_spine (k : Nat) (sf : PTree) (c c' : IndexCtx) (f : Nat) (rest : List Nat)
    (h : ((mkRec k).sourceFile sf).run c = .ok ((), c')) (hft : c.fileTrace = f :: rest)
    (hcast : Ast.sourceFileCast (c.ws.tree f) = some sf) :
    IncDone c.ws f c'.indexedFiles c'.diagnostics.toList := by
  intro n hn hk
  unfold topStatements at hn
  rw [hcast] at hn
  simp only at hn
  cases k with
  | zero => cases h
  | succ k =>
    change (indexSourceFile (mkRec k) sf).run c = _ at h
    unfold indexSourceFile at h
    cases hl : Ast.sourceFileStatementList sf with
    | none => rw [hl] at hn; cases hn
    | some l =>
      rw [hl] at hn h
      simp only at hn h
      cases k with
      | zero => cases h
      | succ k =>
        change (indexStatementList (mkRec k) l).run c = _ at h
        unfold indexStatementList at h
        obtain ⟨u, c1, h1, h⟩ := IxM.run_bind_ok h
        simp only [StateT.run_pure, Except.ok.injEq, Prod.mk.injEq] at h
        obtain ⟨_, rfl⟩ := h
        obtain ⟨hv, hty, hsl, hsf⟩ := mkRec_attr k
        exact (stmts_spine (mkRec k) (fun n => Index.indexStatement_keeps hv hty hsl hsf n) hsf f rest _ c c' u h1
          hft).2.2 n hn hk

/-! ### `include` keeps `InclRel`, for the `Rec`s of `mkRec` -/

theorem topStatements_nil {ws : Workspace} {t : Nat} (h : Ast.sourceFileCast (ws.tree t) = none) :
    topStatements ws t = [] := by
  unfold topStatements
  rw [h]

theorem mkRec_include (k : Nat) (hsf : ∀ n, Keeps InclRel ((mkRec k).sourceFile n)) (n : PTree) :
    Keeps InclRel (indexInclude (mkRec k) n) := by
  refine ⟨fun c a c' h => ?_⟩
  cases hft : c.fileTrace with
  | nil =>
    unfold Index.indexInclude currentFileId at h
    simp only [StateT.run_bind, IxM.run_get, Except.ok_bind, hft] at h
    cases h
  | cons f rest =>
    rcases indexInclude_cases (mkRec k) n c c' f rest hft h with ⟨_, rfl⟩ | ⟨t, _, _, rfl⟩ |
        ⟨t, _, hnot, hcast, rfl⟩ | ⟨t, sf, c3, x, rest', _, hnot, hcast, h3, htr, rfl⟩
    · exact InclRel.of_same rfl rfl rfl (report_diags c f _ _)
    · exact InclRel.refl _
    · refine ⟨rfl, rfl, fun x hx => List.mem_cons_of_mem _ hx, fun hnd => List.nodup_cons.mpr ⟨hnot, hnd⟩,
        fun _ hd => hd, ?_⟩
      intro hcl x hx
      rcases List.mem_cons.mp hx with rfl | hx
      · right
        intro m hm
        rw [show topStatements c.ws x = [] from topStatements_nil hcast] at hm
        cases hm
      · rcases hcl x hx with h1 | h1
        · exact Or.inl h1
        · exact Or.inr (h1.mono (fun y hy => List.mem_cons_of_mem _ hy) (fun _ hd => hd))
    · have r3 := (hsf sf).run _ _ _ h3
      have hsp := sourceFile_spine k sf _ c3 t c.fileTrace h3 rfl hcast
      have htr3 : c3.fileTrace = t :: c.fileTrace := r3.trace
      rw [htr3] at htr
      cases htr
      refine ⟨r3.ws, rfl, fun y hy => r3.mono y (List.mem_cons_of_mem _ hy),
        fun hnd => r3.nodup (List.nodup_cons.mpr ⟨hnot, hnd⟩), r3.diags, ?_⟩
      intro hcl
      have hcl0 : IncClosed { c with indexedFiles := t :: c.indexedFiles, fileTrace := t :: c.fileTrace } := by
        intro y hy
        rcases List.mem_cons.mp hy with rfl | hy
        · exact Or.inl (List.mem_cons_self ..)
        · rcases hcl y hy with h1 | h1
          · exact Or.inl (List.mem_cons_of_mem _ h1)
          · exact Or.inr (h1.mono (fun z hz => List.mem_cons_of_mem _ hz) (fun _ hd => hd))
      have hcl3 := r3.closed hcl0
      intro y hy
      rcases hcl3 y hy with h1 | h1
      · rw [htr3] at h1
        rcases List.mem_cons.mp h1 with rfl | h1
        · right
          show IncDone c3.ws y c3.indexedFiles c3.diagnostics.toList
          rw [r3.ws]; exact hsp
        · exact Or.inl h1
      · exact Or.inr h1

theorem mkRec_incl (k : Nat) :
    (∀ n, Keeps InclRel ((mkRec k).value n)) ∧ (∀ n, Keeps InclRel ((mkRec k).typ n)) ∧
    (∀ n, Keeps InclRel ((mkRec k).statementList n)) ∧ (∀ n, Keeps InclRel ((mkRec k).sourceFile n)) := by
  induction k with
  | zero => exact ⟨fun _ => Keeps.throw _, fun _ => Keeps.throw _, fun _ => Keeps.throw _, fun _ => Keeps.throw _⟩
  | succ k ih =>
    obtain ⟨hv, ht, hsl, hsf⟩ := ih
    have hinc := mkRec_include k hsf
    exact ⟨fun n => Inc.Index.indexValue_keeps hv ht hsl hsf hinc n, fun n => Inc.Index.indexType_keeps hv ht n,
      fun n => Inc.Index.indexStatementList_keeps hv ht hsl hsf hinc n,
      fun n => Inc.Index.indexSourceFile_keeps hv ht hsl hsf hinc n⟩

/-! ### the files indexed by `Index.index` -/

/-- reachable from the root through resolved include statements of top-level statement lists -/
inductive TopReach (ws : Workspace) : Nat → Prop
  | root : TopReach ws ws.root
  | step {g t : Nat} {n : PTree} : TopReach ws g → n ∈ topStatements ws g → n.kind = .Include →
      incTarget ws g n = some t → TopReach ws t

/-- **the files indexed by a successful `Index.index`**: `ctx` is the final context of the run -/
theorem index_files (ws : Workspace) (res : IndexResult) (h : Index.index ws = .ok res) :
    ∃ sf ctx, Ast.sourceFileCast (ws.tree ws.root) = some sf ∧
      (indexSourceFile (mkRec ws.depthBound) sf).run (IndexCtx.new ws) = .ok ((), ctx) ∧
      res = ⟨ctx.symbolMap, ctx.diagnostics⟩ ∧
      ctx.indexedFiles.Nodup ∧ ws.root ∈ ctx.indexedFiles ∧
      (∀ g ∈ ctx.indexedFiles, g = ws.root ∨ IsIncludeTarget ws g) ∧
      (∀ f ∈ ctx.indexedFiles, IncDone ws f ctx.indexedFiles res.diagnostics.toList) ∧
      (∀ f, TopReach ws f → f ∈ ctx.indexedFiles) := by
  unfold Index.index at h
  split at h
  · cases h
  · rename_i sf hcast
    split at h
    · cases h
    · rename_i u ctx hrun
      cases h
      have hrun' : ((mkRec (ws.depthBound + 1)).sourceFile sf).run (IndexCtx.new ws) = .ok ((), ctx) := hrun
      have hi := ((mkRec_incl (ws.depthBound + 1)).2.2.2 sf).run _ _ _ hrun'
      have ha := ((mkRec_attr (ws.depthBound + 1)).2.2.2 sf).run _ _ _ hrun'
      have hroot : IncDone ws ws.root ctx.indexedFiles ctx.diagnostics.toList :=
        sourceFile_spine (ws.depthBound + 1) sf (IndexCtx.new ws) ctx ws.root [] hrun' rfl hcast
      have hcl : IncClosed ctx := hi.closed (by
        intro f hf
        exact Or.inl hf)
      have hdone : ∀ f ∈ ctx.indexedFiles, IncDone ws f ctx.indexedFiles ctx.diagnostics.toList := by
        intro f hf
        rcases hcl f hf with h1 | h1
        · rw [hi.trace] at h1
          have : f = ws.root := by simpa [IndexCtx.new] using h1
          rw [this]; exact hroot
        · rw [hi.ws] at h1; exact h1
      have hr : ws.root ∈ ctx.indexedFiles := hi.mono _ (by simp [IndexCtx.new])
      refine ⟨sf, ctx, hcast, hrun, rfl, hi.nodup (by simp [IndexCtx.new]), hr, ?_, hdone, ?_⟩
      · intro g hg
        rcases ha.targets g hg with h1 | h1
        · left; simpa [IndexCtx.new] using h1
        · exact Or.inr h1
      · intro f hf
        induction hf with
        | root => exact hr
        | step _ hn hk ht ih => exact (hdone _ ih _ hn hk).1 _ ht

end Ide
end Tg
