/-
C04 forward direction, step 3 (values): the value grammar functions on token lists.

The facts are stated for *token lists* (`Consumes p … R`: program `p` consumes exactly `R`), with
composition lemmas that mirror the grammar functions; `C04Values2.lean` then walks the (mutually
recursive) syntax of fragment values and assembles these facts.
-/
import TgModel.Lemmas.C04Contracts

namespace Tg
namespace C04L
open Prog Grammar Frag

set_option linter.unusedSimpArgs false
set_option linter.unusedVariables false

/-! ### the predicate -/

/-- side condition on the locals / checkpoint stacks -/
abbrev Ctx := List Bool → CpStack → Prop
abbrev anyCtx : Ctx := fun _ _ => True
/-- no saved checkpoint points at the innermost open node (needed by `pushCp`) -/
abbrev cp0Ctx : Ctx := fun _ cps => hasTop cps = false
/-- inside `arg_value_list`: the "named argument seen" local is `false` -/
abbrev argCtx : Ctx := fun loc cps => loc.head? = some false ∧ hasTop cps = false

/-- `p` consumes exactly `R` (whatever follows, as long as the next token satisfies `Fol`), leaves
`flOut` in the flag and everything else alone; fuel `64·|R| + C` suffices -/
def Consumes (ctx : Ctx) (p : Prog) (C : Nat) (flOut : Bool) (Fol : TokenKind → Bool) (K : List SyntaxKind)
    (R : List TokenKind) : Prop :=
  ∀ (Z : List TokenKind), Fol (Z.headD .Eof) = true →
    ∀ (n : Nat) (fl : Bool) (d : Nat) (loc : List Bool) (cps : CpStack) (cur : List SyntaxKind) (ps : List (SyntaxKind × List SyntaxKind)), ctx loc cps →
      64 * R.length + C ≤ n →
      ax n p ⟨R ++ Z, fl, d, loc, cps, true, cur, ps⟩ = some ⟨Z, flOut, d, loc, cps, true, pushAll K cur, ps⟩

/-! ### follow sets -/

def anyFollow (_ : TokenKind) : Bool := true
/-- after a simple value: not another string literal (they would be concatenated), not `<` -/
def litFollowOk (k : TokenKind) : Bool := !(k == .StrVal || k == .Less)
/-- after the suffixes of a simple value -/
def sufsFollowOk (k : TokenKind) : Bool := !(k == .LBrace || k == .LSquare || k == .Dot)

theorem litFollowOk_iff {k : TokenKind} : litFollowOk k = true ↔ ((k == .StrVal) = false ∧ (k == .Less) = false) := by
  simp [litFollowOk]

theorem sufsFollowOk_iff {k : TokenKind} : sufsFollowOk k = true ↔
    ((k == .LBrace) = false ∧ (k == .LSquare) = false ∧ (k == .Dot) = false) := by
  simp [sufsFollowOk, and_assoc]

theorem sval_lit {k : TokenKind} (h : svalFollowOk k = true) : litFollowOk k = true := by
  obtain ⟨_, _, _, h4, h5⟩ := svalFollowOk_iff.mp h
  exact litFollowOk_iff.mpr ⟨h5, h4⟩

theorem sval_sufs {k : TokenKind} (h : svalFollowOk k = true) : sufsFollowOk k = true := by
  obtain ⟨h1, h2, h3, _, _⟩ := svalFollowOk_iff.mp h
  exact sufsFollowOk_iff.mpr ⟨h1, h2, h3⟩

/-- the tokens a value can start with -/
def valFirst : List TokenKind :=
  [.IntVal, .BinaryIntVal, .StrVal, .CodeFragment, .TrueVal, .FalseVal, .Question, .LBrace, .LSquare, .LParen, .Id,
   .XCond] ++ Tables.bangOps

/-- `R` starts with a token a value can start with -/
def Starts (R : List TokenKind) : Prop := ∀ Z, valFirst.contains ((R ++ Z).headD .Eof) = true

theorem Starts.pos {R : List TokenKind} (h : Starts R) : 1 ≤ R.length := by
  cases R with
  | nil => have := h []; simp [valFirst] at this; exact absurd this (by decide)
  | cons k ks => simp

theorem Starts.append {R : List TokenKind} (h : Starts R) (S : List TokenKind) : Starts (R ++ S) := by
  intro Z; rw [List.append_assoc]; exact h _

/-! ### the predicates for the value functions -/

/-- `K`: the kinds of the nodes the program adds to the open node, in source order -/
def LitOk (k : SyntaxKind) (H : List TokenKind) : Prop := Consumes cp0Ctx (call .simple_value) 240 true litFollowOk [k] H
def SufOk (k : SyntaxKind) (S : List TokenKind) : Prop := Consumes anyCtx (call .value_suffix) 224 true anyFollow [k] S
def SufsOk (Ks : List SyntaxKind) (S : List TokenKind) : Prop :=
  Consumes anyCtx (loop (call .value_suffix) nop) 240 false sufsFollowOk Ks S ∧
    ∀ Z, svalFollowOk (Z.headD .Eof) = true → litFollowOk ((S ++ Z).headD .Eof) = true
def SValOk (R : List TokenKind) : Prop := Consumes anyCtx (call .inner_value) 256 true svalFollowOk [.InnerValue] R
def PasteOk (n : Nat) (T : List TokenKind) : Prop :=
  Consumes anyCtx (loop (eatIf .Paste) (call .inner_value)) 272 false valFollowOk (List.replicate n .InnerValue) T ∧
    ∀ Z, valFollowOk (Z.headD .Eof) = true → svalFollowOk ((T ++ Z).headD .Eof) = true
def ValOk (R : List TokenKind) : Prop := Consumes anyCtx (call .value) 288 true valFollowOk [.Value] R

/-! ### suffix loop, inner value, paste loop, value -/

theorem sufs_nil : SufsOk [] [] := by
  refine ⟨?_, fun Z h => by simpa using sval_lit h⟩
  intro Z hf n fl d loc cps cur ps _ hn
  obtain ⟨h1, h2, h3⟩ := sufsFollowOk_iff.mp hf
  obtain ⟨m, rfl⟩ : ∃ m, n = m + 20 := ⟨n - 20, by omega⟩
  rw [ax_loop]
  ax_eval [ax_call]

theorem sufs_cons {k : SyntaxKind} {Ks : List SyntaxKind} {S1 S : List TokenKind} (h1 : SufOk k S1)
    (hh : ∀ Z, [TokenKind.LBrace, .LSquare, .Dot].contains ((S1 ++ Z).headD .Eof) = true)
    (hpos : 1 ≤ S1.length) (hS : SufsOk Ks S) : SufsOk (k :: Ks) (S1 ++ S) := by
  refine ⟨?_, fun Z _ => by rw [List.append_assoc]; exact prop_of_mem litFollowOk (hh _) (by decide)⟩
  intro Z hf n fl d loc cps cur ps _ hn
  simp only [List.length_append] at hn
  obtain ⟨m, rfl⟩ : ∃ m, n = m + 8 := ⟨n - 8, by omega⟩
  have e1 := fun n fl d loc cps cur ps => h1 (S ++ Z) rfl n fl d loc cps cur ps trivial
  have e2 := fun n fl d loc cps cur ps => hS.1 Z hf n fl d loc cps cur ps trivial
  rw [ax_loop]
  ax_eval [e1, e2]

/-- the simple-value kinds and the suffix kinds, as the `InnerValue` accessors list them -/
def simpleKinds : List SyntaxKind :=
  [.Integer, .String, .Code, .Boolean, .Uninitialized, .Bits, .List, .Dag, .Identifier, .ClassValue, .BangOperator,
   .CondOperator]
def sufKinds : List SyntaxKind := [.RangeSuffix, .SliceSuffix, .FieldSuffix]

theorem good_innerValue (k : SyntaxKind) (Ks : List SyntaxKind) (hk : simpleKinds.contains k = true)
    (hKs : ∀ x ∈ Ks, sufKinds.contains x = true) : goodNode .InnerValue (k :: Ks) = true :=
  goodNode_head_tail .InnerValue _ _ rfl rfl rfl k Ks hk hKs (by decide) 

theorem sval_of {k : SyntaxKind} {Ks : List SyntaxKind} {H S : List TokenKind} (hH : LitOk k H) (hS : SufsOk Ks S)
    (hk : simpleKinds.contains k = true) (hKs : ∀ x ∈ Ks, sufKinds.contains x = true) : SValOk (H ++ S) := by
  intro Z hf n fl d loc cps cur ps _ hn
  have hg : goodNode .InnerValue (pushAll Ks [k]).reverse = true := by
    rw [pushAll_eq]; simpa using good_innerValue k Ks hk hKs
  simp only [List.length_append] at hn
  obtain ⟨m, rfl⟩ : ∃ m, n = m + 12 := ⟨n - 12, by omega⟩
  have e1 := hH (S ++ Z) (hS.2 Z hf)
  have e2 := fun n fl d loc cps cur ps => hS.1 Z (sval_sufs hf) n fl d loc cps cur ps trivial
  ax_eval [ax_call (f := .inner_value), e1, e2]

theorem paste_nil : PasteOk 0 [] := by
  refine ⟨?_, fun Z h => by simpa using (valFollowOk_iff.mp h).1⟩
  intro Z hf n fl d loc cps cur ps _ hn
  have hP := (valFollowOk_iff.mp hf).2
  obtain ⟨m, rfl⟩ : ∃ m, n = m + 20 := ⟨n - 20, by omega⟩
  rw [ax_loop]
  ax_eval []

theorem paste_cons {n : Nat} {R T : List TokenKind} (hR : SValOk R) (hT : PasteOk n T) :
    PasteOk (n + 1) (TokenKind.Paste :: (R ++ T)) := by
  refine ⟨?_, fun Z _ => rfl⟩
  intro Z hf n fl d loc cps cur ps _ hn
  simp only [List.length_cons, List.length_append] at hn
  obtain ⟨m, rfl⟩ : ∃ m, n = m + 8 := ⟨n - 8, by omega⟩
  have e1 := fun n fl d loc cps cur ps => hR (T ++ Z) (hT.2 Z hf) n fl d loc cps cur ps trivial
  have e2 := fun n fl d loc cps cur ps => hT.1 Z hf n fl d loc cps cur ps trivial
  rw [ax_loop]
  ax_eval [e1, e2]

theorem val_of {k : Nat} {R T : List TokenKind} (hR : SValOk R) (hT : PasteOk k T) : ValOk (R ++ T) := by
  intro Z hf n fl d loc cps cur ps _ hn
  have hg : goodNode .Value (pushAll (List.replicate k .InnerValue) [.InnerValue]).reverse = true :=
    good_all_push .Value ⟨"inner_values", .all, [.InnerValue]⟩ rfl rfl (.InnerValue :: List.replicate k .InnerValue)
      (by intro x hx; rcases List.mem_cons.mp hx with rfl | hx
          · rfl
          · rw [List.eq_of_mem_replicate hx]; rfl)
  simp only [List.length_append] at hn
  obtain ⟨m, rfl⟩ : ∃ m, n = m + 12 := ⟨n - 12, by omega⟩
  have e1 := fun n fl d loc cps cur ps => hR (T ++ Z) (hT.2 Z hf) n fl d loc cps cur ps trivial
  have e2 := fun n fl d loc cps cur ps => hT.1 Z hf n fl d loc cps cur ps trivial
  ax_eval [ax_call (f := .value), e1, e2]

/-- `simple-value suffixes # …` as one value -/
theorem val_of_parts {k : SyntaxKind} {Ks : List SyntaxKind} {n : Nat} {H S T : List TokenKind}
    (hH : LitOk k H) (hS : SufsOk Ks S) (hT : PasteOk n T)
    (hk : simpleKinds.contains k = true) (hKs : ∀ x ∈ Ks, sufKinds.contains x = true) :
    ValOk (H ++ (S ++ T)) := by
  have := val_of (sval_of hH hS hk hKs) hT
  rwa [List.append_assoc] at this

theorem paste_cons_parts {k : SyntaxKind} {Ks : List SyntaxKind} {n : Nat} {H S T : List TokenKind}
    (hH : LitOk k H) (hS : SufsOk Ks S) (hT : PasteOk n T)
    (hk : simpleKinds.contains k = true) (hKs : ∀ x ∈ Ks, sufKinds.contains x = true) :
    PasteOk (n + 1) (TokenKind.Paste :: (H ++ (S ++ T))) := by
  have := paste_cons (sval_of hH hS hk hKs) hT
  rwa [List.append_assoc] at this

/-! ### comma-separated lists -/

/-- `R, R', …` -/
def joinC : List TokenKind → List (List TokenKind) → List TokenKind
  | R, [] => R
  | R, R' :: Rs => R ++ TokenKind.Comma :: joinC R' Rs

theorem joinC_length_pos (R : List TokenKind) (Rs : List (List TokenKind)) (h : 1 ≤ R.length) :
    1 ≤ (joinC R Rs).length := by
  cases Rs with
  | nil => exact h
  | cons R' Rs => simp only [joinC, List.length_append]; omega

/-- what the generic loop lemma needs to know about one item -/
def ItemOk (ctx : Ctx) (stop : List TokenKind) (item : Prog) (C : Nat) (flI : Bool) (Fol : TokenKind → Bool)
    (kI : SyntaxKind) (R : List TokenKind) : Prop :=
  Consumes ctx item C flI Fol [kI] R ∧ (∀ Z, stop.contains ((R ++ Z).headD .Eof) = false) ∧ 1 ≤ R.length

/-- the loop `while !at(stop) { item; if !eat_if(',') break }` over `R, R', …` -/
theorem sep_loop (ctx : Ctx) (stop : List TokenKind) (item : Prog) (C : Nat) (flI : Bool) (Fol : TokenKind → Bool)
    (kI : SyntaxKind) (hFolC : Fol .Comma = true) :
    ∀ (Rs : List (List TokenKind)) (R : List TokenKind),
      (∀ R' ∈ R :: Rs, ItemOk ctx stop item C flI Fol kI R') →
      ∀ (X : List TokenKind), (X.headD .Eof == .Comma) = false → Fol (X.headD .Eof) = true →
      ∀ (n : Nat) (fl : Bool) (d : Nat) (loc : List Bool) (cps : CpStack) (cur : List SyntaxKind) (ps : List (SyntaxKind × List SyntaxKind)), ctx loc cps →
        64 * (joinC R Rs).length + (C + 16) ≤ n →
        ax n (loop (ifAt stop (retB false) (seq item (eatIf .Comma))) nop)
          ⟨joinC R Rs ++ X, fl, d, loc, cps, true, cur, ps⟩ =
          some ⟨X, false, d, loc, cps, true, pushAll (List.replicate (Rs.length + 1) kI) cur, ps⟩ := by
  intro Rs
  induction Rs with
  | nil =>
    intro R hall X hXC hXF n fl d loc cps cur ps hctx hn
    obtain ⟨hc, hs, hp⟩ := hall R (List.mem_cons_self ..)
    simp only [joinC] at hn ⊢
    obtain ⟨m, rfl⟩ : ∃ m, n = m + 8 := ⟨n - 8, by omega⟩
    have e1 := fun n fl d cur => hc X hXF n fl d loc cps cur ps hctx
    have e0 := hs X
    rw [ax_loop]
    ax_eval [e1, List.length_nil]
  | cons R' Rs ih =>
    intro R hall X hXC hXF n fl d loc cps cur ps hctx hn
    obtain ⟨hc, hs, hp⟩ := hall R (List.mem_cons_self ..)
    simp only [joinC, List.length_append, List.length_cons] at hn ⊢
    obtain ⟨m, rfl⟩ : ∃ m, n = m + 8 := ⟨n - 8, by omega⟩
    have e1 := fun n fl d cur => hc (TokenKind.Comma :: (joinC R' Rs ++ X)) hFolC n fl d loc cps cur ps hctx
    have e0 := hs (TokenKind.Comma :: (joinC R' Rs ++ X))
    have e2 := fun n fl d cur => ih R' (fun Q hQ => hall Q (List.mem_cons_of_mem _ hQ)) X hXC hXF n fl d loc cps cur ps hctx
    rw [ax_loop]
    ax_eval [e1, e2, List.length_cons]

/-! ### delimited value lists: `bra v, v, … ket` -/

theorem valFollowOk_comma : valFollowOk .Comma = true := by decide

/-- a value never starts with a closing bracket or at the end of input -/
theorem starts_not_close {R : List TokenKind} (h : Starts R) (ket : TokenKind)
    (hk : [TokenKind.RBrace, .RSquare, .RParen, .Eof].contains ket = true) (Z : List TokenKind) :
    [ket, TokenKind.Eof].contains ((R ++ Z).headD .Eof) = false := by
  have hm := h Z
  have hk' : ket = .RBrace ∨ ket = .RSquare ∨ ket = .RParen ∨ ket = .Eof := by simpa using hk
  rcases hk' with rfl | rfl | rfl | rfl <;> exact notin_of_mem hm (by decide)

theorem starts_not_eof {R : List TokenKind} (h : Starts R) (Z : List TokenKind) :
    [TokenKind.Eof].contains ((R ++ Z).headD .Eof) = false := notin_of_mem (h Z) (by decide)

/-- the loop of `delimited(bra, ket, ',', value)` over values `R, R', …` -/
theorem vals_loop (ket : TokenKind) (hk : [TokenKind.RBrace, .RSquare, .RParen].contains ket = true)
    (R : List TokenKind) (Rs : List (List TokenKind)) (hall : ∀ R' ∈ R :: Rs, ValOk R' ∧ Starts R')
    (X : List TokenKind) (n : Nat) (fl : Bool) (d : Nat) (loc : List Bool) (cps : CpStack) (cur : List SyntaxKind) (ps : List (SyntaxKind × List SyntaxKind))
    (hn : 64 * (joinC R Rs).length + 304 ≤ n) :
    ax n (loop (ifAt [ket, .Eof] (retB false) (seq (call .value) (eatIf .Comma))) nop)
      ⟨joinC R Rs ++ ket :: X, fl, d, loc, cps, true, cur, ps⟩ =
      some ⟨ket :: X, false, d, loc, cps, true, pushAll (List.replicate (Rs.length + 1) .Value) cur, ps⟩ := by
  have hk' : ket = .RBrace ∨ ket = .RSquare ∨ ket = .RParen := by simpa using hk
  refine sep_loop anyCtx [ket, .Eof] (call .value) 288 true valFollowOk .Value valFollowOk_comma Rs R ?_ (ket :: X) ?_ ?_
    n fl d loc cps cur ps trivial hn
  · intro R' hR'
    obtain ⟨hv, hs⟩ := hall R' hR'
    exact ⟨hv, starts_not_close hs ket (by rcases hk' with rfl | rfl | rfl <;> rfl), hs.pos⟩
  · rcases hk' with rfl | rfl | rfl <;> rfl
  · rcases hk' with rfl | rfl | rfl <;> rfl

/-! ### suffixes -/

theorem suf_field : SufOk .FieldSuffix [TokenKind.Dot, TokenKind.Id] := by
  intro Z _ n fl d loc cps cur ps _ hn
  obtain ⟨m, rfl⟩ : ∃ m, n = m + 40 := ⟨n - 40, by omega⟩
  ax_eval [ax_call]

theorem suf_range (r : RangeList) : SufOk .RangeSuffix (TokenKind.LBrace :: (r.render ++ [TokenKind.RBrace])) := by
  intro Z _ n fl d loc cps cur ps _ hn
  simp only [List.length_cons, List.length_append, List.length_nil] at hn
  obtain ⟨m, rfl⟩ : ∃ m, n = m + 40 := ⟨n - 40, by omega⟩
  ax_eval [ax_call (f := .value_suffix), ax_call (f := .range_suffix), c_range_list]

/-- after a slice element comes `,` or `]` -/
def elemFollow (k : TokenKind) : Bool := k == .Comma || k == .RSquare

def ElemOk (R : List TokenKind) : Prop := Consumes anyCtx (call .slice_element) 304 true elemFollow [.SliceElement] R

theorem elemFollow_facts {k : TokenKind} (h : elemFollow k = true) :
    valFollowOk k = true ∧ [TokenKind.DotDotDot, .Minus].contains k = false ∧ [TokenKind.IntVal].contains k = false := by
  have : k = .Comma ∨ k = .RSquare := by simpa [elemFollow] using h
  rcases this with rfl | rfl <;> exact ⟨rfl, rfl, rfl⟩

theorem elem_single {R : List TokenKind} (hR : ValOk R) : ElemOk R := by
  intro Z hf n fl d loc cps cur ps _ hn
  obtain ⟨hv, h1, h2⟩ := elemFollow_facts hf
  obtain ⟨m, rfl⟩ : ∃ m, n = m + 12 := ⟨n - 12, by omega⟩
  have e1 := fun n fl d loc cps cur ps => hR Z hv n fl d loc cps cur ps trivial
  ax_eval [ax_call (f := .slice_element), e1]

theorem elem_dots {A B : List TokenKind} (hA : ValOk A) (hB : ValOk B) :
    ElemOk (A ++ TokenKind.DotDotDot :: B) := by
  intro Z hf n fl d loc cps cur ps _ hn
  obtain ⟨hv, _, _⟩ := elemFollow_facts hf
  simp only [List.length_append, List.length_cons] at hn
  obtain ⟨m, rfl⟩ : ∃ m, n = m + 12 := ⟨n - 12, by omega⟩
  have e1 := fun n fl d loc cps cur ps => hA (TokenKind.DotDotDot :: (B ++ Z)) rfl n fl d loc cps cur ps trivial
  have e2 := fun n fl d loc cps cur ps => hB Z hv n fl d loc cps cur ps trivial
  ax_eval [ax_call (f := .slice_element), e1, e2]

theorem elem_minus {A B : List TokenKind} (hA : ValOk A) (hB : ValOk B) :
    ElemOk (A ++ TokenKind.Minus :: B) := by
  intro Z hf n fl d loc cps cur ps _ hn
  obtain ⟨hv, _, _⟩ := elemFollow_facts hf
  simp only [List.length_append, List.length_cons] at hn
  obtain ⟨m, rfl⟩ : ∃ m, n = m + 12 := ⟨n - 12, by omega⟩
  have e1 := fun n fl d loc cps cur ps => hA (TokenKind.Minus :: (B ++ Z)) rfl n fl d loc cps cur ps trivial
  have e2 := fun n fl d loc cps cur ps => hB Z hv n fl d loc cps cur ps trivial
  ax_eval [ax_call (f := .slice_element), e1, e2]

theorem elem_juxt {A : List TokenKind} (hA : ValOk A) : ElemOk (A ++ [TokenKind.IntVal]) := by
  intro Z hf n fl d loc cps cur ps _ hn
  simp only [List.length_append, List.length_cons, List.length_nil] at hn
  obtain ⟨m, rfl⟩ : ∃ m, n = m + 20 := ⟨n - 20, by omega⟩
  have e1 := fun n fl d loc cps cur ps => hA (TokenKind.IntVal :: Z) rfl n fl d loc cps cur ps trivial
  have e2 := fun n fl d loc cps cur ps => c_integer Z fl d loc cps cur ps false n
  simp only [intKind_false] at e2
  ax_eval [ax_call (f := .slice_element), e1, e2]

/-- the loop of `slice_elements`, up to the closing `]` -/
def sliceLoop : Prog :=
  loop (ifAt [.Eof] (retB false)
    (seq (call .slice_element) (seq (eatIf .Comma) (ifFlag (ifAt [.RSquare] (retB false) (retB true)) (retB false))))) nop

def SliceOk (k : Nat) (E : List TokenKind) : Prop :=
  ∀ (X : List TokenKind) (n : Nat) (fl : Bool) (d : Nat) (loc : List Bool) (cps : CpStack) (cur : List SyntaxKind) (ps : List (SyntaxKind × List SyntaxKind)),
    64 * E.length + 320 ≤ n →
    ax n sliceLoop ⟨E ++ TokenKind.RSquare :: X, fl, d, loc, cps, true, cur, ps⟩ =
      some ⟨TokenKind.RSquare :: X, false, d, loc, cps, true, pushAll (List.replicate k .SliceElement) cur, ps⟩

theorem slice_one {R : List TokenKind} (hR : ElemOk R) (hs : Starts R) (t : Bool) :
    SliceOk 1 (R ++ (if t then [TokenKind.Comma] else [])) := by
  intro X n fl d loc cps cur ps hn
  have h0 := starts_not_eof hs
  cases t with
  | false =>
    simp only [Bool.false_eq_true, if_false, List.append_nil] at hn ⊢
    obtain ⟨m, rfl⟩ : ∃ m, n = m + 12 := ⟨n - 12, by omega⟩
    have e1 := fun n fl d loc cps cur ps => hR (TokenKind.RSquare :: X) rfl n fl d loc cps cur ps trivial
    unfold sliceLoop
    rw [ax_loop]
    ax_eval [e1]
  | true =>
    simp only [if_true, List.length_append, List.length_cons, List.length_nil] at hn ⊢
    obtain ⟨m, rfl⟩ : ∃ m, n = m + 12 := ⟨n - 12, by omega⟩
    have e1 := fun n fl d loc cps cur ps => hR (TokenKind.Comma :: TokenKind.RSquare :: X) rfl n fl d loc cps cur ps trivial
    unfold sliceLoop
    rw [ax_loop]
    ax_eval [e1]

theorem slice_cons {k : Nat} {R E : List TokenKind} (hR : ElemOk R) (hs : Starts R) (hE : SliceOk k E) (hEs : Starts E) :
    SliceOk (k + 1) (R ++ TokenKind.Comma :: E) := by
  intro X n fl d loc cps cur ps hn
  have h0 := starts_not_eof hs
  have h1 : ∀ Z, [TokenKind.RSquare].contains ((E ++ Z).headD .Eof) = false :=
    fun Z => notin_of_mem (hEs Z) (by decide)
  simp only [List.length_append, List.length_cons] at hn
  obtain ⟨m, rfl⟩ : ∃ m, n = m + 12 := ⟨n - 12, by omega⟩
  have e1 := fun n fl d loc cps cur ps => hR (TokenKind.Comma :: (E ++ TokenKind.RSquare :: X)) rfl n fl d loc cps cur ps trivial
  have e2 := fun n fl d loc cps cur ps => hE X n fl d loc cps cur ps
  unfold sliceLoop at e2 ⊢
  rw [ax_loop]
  ax_eval [e1, e2]

theorem suf_slice {k : Nat} {E : List TokenKind} (hE : SliceOk k E) :
    SufOk .SliceSuffix (TokenKind.LSquare :: (E ++ [TokenKind.RSquare])) := by
  intro Z _ n fl d loc cps cur ps _ hn
  have hg : goodNode .SliceElements (pushAll (List.replicate k .SliceElement) []).reverse = true :=
    good_all_push .SliceElements ⟨"elements", .all, [.SliceElement]⟩ rfl rfl _
      (by intro x hx; rw [List.eq_of_mem_replicate hx]; rfl)
  simp only [List.length_cons, List.length_append, List.length_nil] at hn
  obtain ⟨m, rfl⟩ : ∃ m, n = m + 40 := ⟨n - 40, by omega⟩
  have e1 := fun n fl d loc cps cur ps => hE Z n fl d loc cps cur ps
  unfold sliceLoop at e1
  ax_eval [ax_call (f := .value_suffix), ax_call (f := .slice_suffix), ax_call (f := .slice_elements), e1]

/-! ### simple values: literals -/

theorem lit_int (b : Bool) : LitOk .Integer [intKind b] := by
  intro Z _ n fl d loc cps cur ps _ hn
  obtain ⟨m, rfl⟩ : ∃ m, n = m + 40 := ⟨n - 40, by omega⟩
  cases b <;> ax_eval [ax_call, simpleValueArms, intKind_true, intKind_false]

theorem lit_str : LitOk .String [TokenKind.StrVal] := by
  intro Z hf n fl d loc cps cur ps _ hn
  obtain ⟨hS, _⟩ := litFollowOk_iff.mp hf
  obtain ⟨m, rfl⟩ : ∃ m, n = m + 40 := ⟨n - 40, by omega⟩
  ax_eval [ax_call, ax_loop, simpleValueArms, hS]

theorem lit_code : LitOk .Code [TokenKind.CodeFragment] := by
  intro Z _ n fl d loc cps cur ps _ hn
  obtain ⟨m, rfl⟩ : ∃ m, n = m + 40 := ⟨n - 40, by omega⟩
  ax_eval [ax_call, simpleValueArms]

theorem lit_tru : LitOk .Boolean [TokenKind.TrueVal] := by
  intro Z _ n fl d loc cps cur ps _ hn
  obtain ⟨m, rfl⟩ : ∃ m, n = m + 40 := ⟨n - 40, by omega⟩
  ax_eval [ax_call, simpleValueArms]

theorem lit_fls : LitOk .Boolean [TokenKind.FalseVal] := by
  intro Z _ n fl d loc cps cur ps _ hn
  obtain ⟨m, rfl⟩ : ∃ m, n = m + 40 := ⟨n - 40, by omega⟩
  ax_eval [ax_call, simpleValueArms]

theorem lit_uninit : LitOk .Uninitialized [TokenKind.Question] := by
  intro Z _ n fl d loc cps cur ps _ hn
  obtain ⟨m, rfl⟩ : ∃ m, n = m + 40 := ⟨n - 40, by omega⟩
  ax_eval [ax_call, simpleValueArms]

theorem lit_id : LitOk .Identifier [TokenKind.Id] := by
  intro Z hf n fl d loc cps cur ps h0 hn
  obtain ⟨_, hL⟩ := litFollowOk_iff.mp hf
  obtain ⟨m, rfl⟩ : ∃ m, n = m + 40 := ⟨n - 40, by omega⟩
  ax_eval [ax_call, simpleValueArms, hL]

/-! ### lists of values -/

theorem starts_joinC {R : List TokenKind} (h : Starts R) (Rs : List (List TokenKind)) : Starts (joinC R Rs) := by
  cases Rs with
  | nil => exact h
  | cons R' Rs => exact h.append _

/-- `valueList(bra, ket)`; stated for the three bracket pairs used -/
theorem value_list (bra ket : TokenKind) (hb : (bra == .Error) = false)
    (hk : [TokenKind.RBrace, .RSquare, .RParen].contains ket = true)
    (R : List TokenKind) (Rs : List (List TokenKind)) (hall : ∀ R' ∈ R :: Rs, ValOk R' ∧ Starts R')
    (X : List TokenKind) (n : Nat) (fl : Bool) (d : Nat) (loc : List Bool) (cps : CpStack) (cur : List SyntaxKind) (ps : List (SyntaxKind × List SyntaxKind))
    (hn : 64 * (joinC R Rs).length + 320 ≤ n) :
    ax n (valueList bra ket) ⟨bra :: (joinC R Rs ++ ket :: X), fl, d, loc, cps, true, cur, ps⟩ =
      some ⟨X, false, d, loc, cps, true, .ValueList :: cur, ps⟩ := by
  obtain ⟨m, rfl⟩ : ∃ m, n = m + 12 := ⟨n - 12, by omega⟩
  have hg : goodNode .ValueList (pushAll (List.replicate Rs.length .Value) [.Value]).reverse = true :=
    good_all_push .ValueList ⟨"values", .all, [.Value]⟩ rfl rfl (List.replicate (Rs.length + 1) .Value)
      (by intro x hx; rw [List.eq_of_mem_replicate hx]; rfl)
  have e1 := fun n fl d loc cps cur ps => vals_loop ket hk R Rs hall X n fl d loc cps cur ps
  have hke : (ket == .Error) = false := by
    have hk' : ket = .RBrace ∨ ket = .RSquare ∨ ket = .RParen := by simpa using hk
    rcases hk' with rfl | rfl | rfl <;> rfl
  ax_eval [valueList, e1]

theorem lit_bits (R : List TokenKind) (Rs : List (List TokenKind)) (hall : ∀ R' ∈ R :: Rs, ValOk R' ∧ Starts R') :
    LitOk .Bits (TokenKind.LBrace :: (joinC R Rs ++ [TokenKind.RBrace])) := by
  intro Z _ n fl d loc cps cur ps _ hn
  simp only [List.length_cons, List.length_append, List.length_nil] at hn
  obtain ⟨m, rfl⟩ : ∃ m, n = m + 40 := ⟨n - 40, by omega⟩
  have e1 := fun n fl d loc cps cur ps => value_list .LBrace .RBrace rfl rfl R Rs hall Z n fl d loc cps cur ps
  ax_eval [ax_call, simpleValueArms, e1]

theorem lit_list (R : List TokenKind) (Rs : List (List TokenKind)) (hall : ∀ R' ∈ R :: Rs, ValOk R' ∧ Starts R') :
    LitOk .List (TokenKind.LSquare :: (joinC R Rs ++ [TokenKind.RSquare])) := by
  intro Z hf n fl d loc cps cur ps _ hn
  obtain ⟨_, hL⟩ := litFollowOk_iff.mp hf
  simp only [List.length_cons, List.length_append, List.length_nil] at hn
  obtain ⟨m, rfl⟩ : ∃ m, n = m + 40 := ⟨n - 40, by omega⟩
  have e1 := fun n fl d loc cps cur ps => value_list .LSquare .RSquare rfl rfl R Rs hall Z n fl d loc cps cur ps
  ax_eval [ax_call, simpleValueArms, e1, hL]

/-! ### bang operators -/

theorem mem_rep_value {n : Nat} {x : SyntaxKind} (hx : x ∈ SyntaxKind.Value :: List.replicate n SyntaxKind.Value) :
    x = SyntaxKind.Value := by
  rcases List.mem_cons.mp hx with rfl | hx
  · rfl
  · exact List.eq_of_mem_replicate hx

theorem good_bang_none (n : Nat) :
    goodNode .BangOperator (pushAll (List.replicate n .Value) [.Value]).reverse = true := by
  rw [pushAll_reverse]
  exact goodNode_tail_only .BangOperator _ _ rfl rfl _ (by intro x hx; rw [mem_rep_value hx]; rfl)

theorem good_bang_some (t : Ty) (n : Nat) :
    goodNode .BangOperator (pushAll (List.replicate n .Value) [.Value, t.nk]).reverse = true := by
  rw [pushAll_reverse]
  exact goodNode_head_tail .BangOperator _ _ rfl rfl rfl t.nk _ (by cases t <;> rfl)
    (by intro x hx; rw [mem_rep_value hx]; rfl) trivial

theorem lit_bang (k : TokenKind) (hk : Tables.bangOps.contains k = true) (ty : Option DTy)
    (R : List TokenKind) (Rs : List (List TokenKind)) (hall : ∀ R' ∈ R :: Rs, ValOk R' ∧ Starts R') :
    LitOk .BangOperator (k :: (optTy ty ++ TokenKind.LParen :: (joinC R Rs ++ [TokenKind.RParen]))) := by
  intro Z _ n fl d loc cps cur ps _ hn
  have f1 : [TokenKind.IntVal, .BinaryIntVal].contains k = false := notin_of_mem hk (by decide)
  have f2 : [TokenKind.StrVal].contains k = false := notin_of_mem hk (by decide)
  have f3 : [TokenKind.CodeFragment].contains k = false := notin_of_mem hk (by decide)
  have f4 : [TokenKind.TrueVal, .FalseVal].contains k = false := notin_of_mem hk (by decide)
  have f5 : [TokenKind.Question].contains k = false := notin_of_mem hk (by decide)
  have f6 : [TokenKind.LBrace].contains k = false := notin_of_mem hk (by decide)
  have f7 : [TokenKind.LSquare].contains k = false := notin_of_mem hk (by decide)
  have f8 : [TokenKind.LParen].contains k = false := notin_of_mem hk (by decide)
  have f9 : [TokenKind.Id].contains k = false := notin_of_mem hk (by decide)
  have fE : (k == TokenKind.Error) = false := ne_of_mem hk (by decide)
  have e1 := fun n fl d loc cps cur ps => vals_loop .RParen rfl R Rs hall Z n fl d loc cps cur ps
  have hg1 := good_bang_none Rs.length
  cases ty with
  | none =>
    simp only [optTy, List.nil_append, List.length_cons, List.length_append, List.length_nil] at hn ⊢
    obtain ⟨m, rfl⟩ : ∃ m, n = m + 60 := ⟨n - 60, by omega⟩
    ax_eval [ax_call, simpleValueArms, e1]
  | some t =>
    obtain ⟨t, ht⟩ := t
    have hg2 := good_bang_some t Rs.length
    simp only [optTy, DTy.render, List.length_cons, List.length_append, List.length_nil] at hn ⊢
    obtain ⟨m, rfl⟩ : ∃ m, n = m + 60 := ⟨n - 60, by omega⟩
    ax_eval [ax_call (f := .simple_value), ax_call (f := .bang_operator), simpleValueArms, e1, c_type]

/-! ### `!cond` -/

def clauseFollow (k : TokenKind) : Bool := k == .Comma || k == .RParen

def ClauseOk (R : List TokenKind) : Prop := Consumes anyCtx (call .cond_clause) 304 true clauseFollow [.CondClause] R

theorem clause_of {C V : List TokenKind} (hC : ValOk C) (hV : ValOk V) : ClauseOk (C ++ TokenKind.Colon :: V) := by
  intro Z hf n fl d loc cps cur ps _ hn
  have hv : valFollowOk (Z.headD .Eof) = true := by
    have : Z.headD .Eof = .Comma ∨ Z.headD .Eof = .RParen := by simpa [clauseFollow] using hf
    rcases this with h | h <;> rw [h] <;> rfl
  simp only [List.length_append, List.length_cons] at hn
  obtain ⟨m, rfl⟩ : ∃ m, n = m + 12 := ⟨n - 12, by omega⟩
  have e1 := fun n fl d loc cps cur ps => hC (TokenKind.Colon :: (V ++ Z)) rfl n fl d loc cps cur ps trivial
  have e2 := fun n fl d loc cps cur ps => hV Z hv n fl d loc cps cur ps trivial
  ax_eval [ax_call (f := .cond_clause), e1, e2]

theorem lit_cond (R : List TokenKind) (Rs : List (List TokenKind)) (hall : ∀ R' ∈ R :: Rs, ClauseOk R' ∧ Starts R') :
    LitOk .CondOperator (TokenKind.XCond :: TokenKind.LParen :: (joinC R Rs ++ [TokenKind.RParen])) := by
  intro Z _ n fl d loc cps cur ps _ hn
  simp only [List.length_cons, List.length_append, List.length_nil] at hn
  obtain ⟨m, rfl⟩ : ∃ m, n = m + 60 := ⟨n - 60, by omega⟩
  have hg : goodNode .CondOperator (pushAll (List.replicate Rs.length .CondClause) [.CondClause]).reverse = true :=
    good_all_push .CondOperator ⟨"clauses", .all, [.CondClause]⟩ rfl rfl (List.replicate (Rs.length + 1) .CondClause)
      (by intro x hx; rw [List.eq_of_mem_replicate hx]; rfl)
  have e1 := fun n fl d loc cps cur ps => sep_loop anyCtx [.RParen, .Eof] (call .cond_clause) 304 true clauseFollow .CondClause rfl Rs R
    (fun R' hR' => ⟨(hall R' hR').1, starts_not_close (hall R' hR').2 .RParen rfl, (hall R' hR').2.pos⟩)
    (TokenKind.RParen :: Z) rfl rfl n fl d loc cps cur ps trivial
  ax_eval [ax_call, simpleValueArms, e1]

/-! ### class values `Id<v, …>` -/

def argFollow (k : TokenKind) : Bool := k == .Comma || k == .Greater

def ArgOk (R : List TokenKind) : Prop := Consumes argCtx (call .arg_value) 304 false argFollow [.PositionalArgValue] R

theorem arg_of_val {R : List TokenKind} (hR : ValOk R) : ArgOk R := by
  intro Z hf n fl d loc cps cur ps hctx hn
  obtain ⟨hl, h0⟩ := hctx
  have hZ : Z.headD .Eof = .Comma ∨ Z.headD .Eof = .Greater := by simpa [argFollow] using hf
  have hv : valFollowOk (Z.headD .Eof) = true := by rcases hZ with h | h <;> rw [h] <;> rfl
  have hE : (Z.headD .Eof == .Equal) = false := by rcases hZ with h | h <;> rw [h] <;> rfl
  cases loc with
  | nil => simp at hl
  | cons b l =>
    have hb : b = false := by simpa using hl
    subst hb
    obtain ⟨m, rfl⟩ : ∃ m, n = m + 16 := ⟨n - 16, by omega⟩
    have e1 := fun n fl d loc cps cur ps => hR Z hv n fl d loc cps cur ps trivial
    ax_eval [ax_call (f := .arg_value), e1]

theorem starts_valueStart {R : List TokenKind} (h : Starts R) (Z : List TokenKind) :
    Tables.valueStart.contains ((R ++ Z).headD .Eof) = true := in_of_mem (h Z) (by decide)

/-- `arg_value_list` on no arguments (before the closing `>`) -/
theorem avl_nil (X : List TokenKind) (n : Nat) (fl : Bool) (d : Nat) (loc : List Bool) (cps : CpStack) (cur : List SyntaxKind) (ps : List (SyntaxKind × List SyntaxKind))
    (hn : 336 ≤ n) :
    ax n (call .arg_value_list) ⟨TokenKind.Greater :: X, fl, d, loc, cps, true, cur, ps⟩ =
      some ⟨TokenKind.Greater :: X, fl, d, loc, cps, true, .ArgValueList :: cur, ps⟩ := by
  obtain ⟨m, rfl⟩ : ∃ m, n = m + 20 := ⟨n - 20, by omega⟩
  ax_eval [ax_call]

/-- `arg_value_list` on positional arguments `R, R', …` -/
theorem avl_items (R : List TokenKind) (Rs : List (List TokenKind)) (hall : ∀ R' ∈ R :: Rs, ValOk R' ∧ Starts R')
    (X : List TokenKind) (n : Nat) (fl : Bool) (d : Nat) (loc : List Bool) (cps : CpStack) (cur : List SyntaxKind) (ps : List (SyntaxKind × List SyntaxKind))
    (hn : 64 * (joinC R Rs).length + 336 ≤ n) :
    ax n (call .arg_value_list) ⟨joinC R Rs ++ TokenKind.Greater :: X, fl, d, loc, cps, true, cur, ps⟩ =
      some ⟨TokenKind.Greater :: X, false, d, loc, cps, true, .ArgValueList :: cur, ps⟩ := by
  obtain ⟨m, rfl⟩ : ∃ m, n = m + 12 := ⟨n - 12, by omega⟩
  have hg : goodNode .ArgValueList (pushAll (List.replicate Rs.length .PositionalArgValue) [.PositionalArgValue]).reverse = true :=
    good_all_push .ArgValueList ⟨"arg_values", .all, [.PositionalArgValue, .NamedArgValue]⟩ rfl rfl
      (List.replicate (Rs.length + 1) .PositionalArgValue) (by intro x hx; rw [List.eq_of_mem_replicate hx]; rfl)
  have hs := starts_valueStart (starts_joinC (hall R (List.mem_cons_self ..)).2 Rs)
  have e1 := fun n fl d => sep_loop argCtx [.Eof] (call .arg_value) 304 false argFollow .PositionalArgValue rfl Rs R
    (fun R' hR' => ⟨arg_of_val (hall R' hR').1, starts_not_eof (hall R' hR').2, (hall R' hR').2.pos⟩)
    (TokenKind.Greater :: X) rfl rfl n fl d (false :: loc) (cpsUp cps) [] ((SyntaxKind.ArgValueList, cur) :: ps) ⟨rfl, hasTop_cpsUp cps⟩
  ax_eval [ax_call (f := .arg_value_list), e1]

theorem lit_classVal_nil : LitOk .ClassValue [TokenKind.Id, TokenKind.Less, TokenKind.Greater] := by
  intro Z _ n fl d loc cps cur ps h0 hn
  simp only [List.length_cons, List.length_nil] at hn
  obtain ⟨m, rfl⟩ : ∃ m, n = m + 60 := ⟨n - 60, by omega⟩
  have e1 := fun n fl d loc cps cur ps => avl_nil Z n fl d loc cps cur ps
  ax_eval [ax_call (f := .simple_value), ax_call (f := .identifier_or_class_value), ax_call (f := .identifier),
    simpleValueArms, classValueTail, e1]

theorem lit_classVal (R : List TokenKind) (Rs : List (List TokenKind)) (hall : ∀ R' ∈ R :: Rs, ValOk R' ∧ Starts R') :
    LitOk .ClassValue (TokenKind.Id :: TokenKind.Less :: (joinC R Rs ++ [TokenKind.Greater])) := by
  intro Z _ n fl d loc cps cur ps h0 hn
  simp only [List.length_cons, List.length_append, List.length_nil] at hn
  obtain ⟨m, rfl⟩ : ∃ m, n = m + 60 := ⟨n - 60, by omega⟩
  have e1 := fun n fl d loc cps cur ps => avl_items R Rs hall Z n fl d loc cps cur ps
  ax_eval [ax_call (f := .simple_value), ax_call (f := .identifier_or_class_value), ax_call (f := .identifier),
    simpleValueArms, classValueTail, e1]

/-! ### dags -/

@[simp] theorem nameR_true : nameR true = [TokenKind.Colon, TokenKind.VarName] := rfl
@[simp] theorem nameR_false : nameR false = [] := rfl

/-- what may follow an unnamed dag argument's value: not `:` and nothing a value would continue with -/
def dagFollow (k : TokenKind) : Bool := valFollowOk k && !(k == .Colon)

theorem dagFollow_iff {k : TokenKind} : dagFollow k = true ↔ (valFollowOk k = true ∧ (k == .Colon) = false) := by
  simp [dagFollow]

/-- an argument `v` or `$x` (followed by something `dagFollow` accepts) -/
def DagArgOk (R : List TokenKind) : Prop := Consumes anyCtx (call .dagarg) 304 true dagFollow [.DagArg] R
/-- an argument `v:$x` (followed by anything) -/
def DagArgNOk (R : List TokenKind) : Prop := Consumes anyCtx (call .dagarg) 304 true anyFollow [.DagArg] R

theorem dagarg_var : DagArgOk [TokenKind.VarName] := by
  intro Z _ n fl d loc cps cur ps _ hn
  obtain ⟨m, rfl⟩ : ∃ m, n = m + 20 := ⟨n - 20, by omega⟩
  ax_eval [ax_call]

theorem starts_not_var {R : List TokenKind} (h : Starts R) (Z : List TokenKind) :
    ((R ++ Z).headD .Eof == TokenKind.VarName) = false := ne_of_mem (h Z) (by decide)

theorem dagarg_plain {R : List TokenKind} (hR : ValOk R) (hs : Starts R) : DagArgOk R := by
  intro Z hf n fl d loc cps cur ps _ hn
  obtain ⟨hv, hC⟩ := dagFollow_iff.mp hf
  have hV := starts_not_var hs
  obtain ⟨m, rfl⟩ : ∃ m, n = m + 16 := ⟨n - 16, by omega⟩
  have e1 := fun n fl d loc cps cur ps => hR Z hv n fl d loc cps cur ps trivial
  ax_eval [ax_call (f := .dagarg), e1]

theorem dagarg_named {R : List TokenKind} (hR : ValOk R) (hs : Starts R) :
    DagArgNOk (R ++ [TokenKind.Colon, TokenKind.VarName]) := by
  intro Z _ n fl d loc cps cur ps _ hn
  have hV := starts_not_var hs
  simp only [List.length_append, List.length_cons, List.length_nil] at hn
  obtain ⟨m, rfl⟩ : ∃ m, n = m + 30 := ⟨n - 30, by omega⟩
  have e1 := fun n fl d loc cps cur ps => hR (TokenKind.Colon :: TokenKind.VarName :: Z) rfl n fl d loc cps cur ps trivial
  ax_eval [ax_call (f := .dagarg), ax_call (f := .var_name), e1]

theorem DagArgNOk.weaken {R : List TokenKind} (h : DagArgNOk R) : DagArgOk R :=
  fun Z _ => h Z rfl

/-- an argument `v[:$x]` -/
theorem dagarg_val {R : List TokenKind} (hR : ValOk R) (hs : Starts R) (nm : Bool) : DagArgOk (R ++ nameR nm) := by
  cases nm with
  | false => simpa using dagarg_plain hR hs
  | true => exact (dagarg_named hR hs).weaken

/-- an item of `dagarg_list` -/
abbrev DItemOk (R : List TokenKind) : Prop := ItemOk anyCtx [.Eof] (call .dagarg) 304 true dagFollow .DagArg R

theorem ditem_var : DItemOk [TokenKind.VarName] := ⟨dagarg_var, fun _ => rfl, by simp⟩

theorem ditem_val {R : List TokenKind} (hR : ValOk R) (hs : Starts R) (nm : Bool) : DItemOk (R ++ nameR nm) :=
  ⟨dagarg_val hR hs nm, fun Z => by rw [List.append_assoc]; exact starts_not_eof hs _,
    by have := hs.pos; simp only [List.length_append]; omega⟩

/-- `dagarg_list` on `R, R', …` before the closing `)` -/
theorem dag_list (R : List TokenKind) (Rs : List (List TokenKind)) (hall : ∀ R' ∈ R :: Rs, DItemOk R')
    (X : List TokenKind) (n : Nat) (fl : Bool) (d : Nat) (loc : List Bool) (cps : CpStack) (cur : List SyntaxKind) (ps : List (SyntaxKind × List SyntaxKind))
    (hn : 64 * (joinC R Rs).length + 336 ≤ n) :
    ax n (call .dagarg_list) ⟨joinC R Rs ++ TokenKind.RParen :: X, fl, d, loc, cps, true, cur, ps⟩ =
      some ⟨TokenKind.RParen :: X, true, d, loc, cps, true, .DagArgList :: cur, ps⟩ := by
  obtain ⟨m, rfl⟩ : ∃ m, n = m + 12 := ⟨n - 12, by omega⟩
  have hg : goodNode .DagArgList (pushAll (List.replicate Rs.length .DagArg) [.DagArg]).reverse = true :=
    good_all_push .DagArgList ⟨"args", .all, [.DagArg]⟩ rfl rfl (List.replicate (Rs.length + 1) .DagArg)
      (by intro x hx; rw [List.eq_of_mem_replicate hx]; rfl)
  have e1 := fun n fl d loc cps cur ps => sep_loop anyCtx [.Eof] (call .dagarg) 304 true dagFollow .DagArg rfl Rs R hall
    (TokenKind.RParen :: X) rfl rfl n fl d loc cps cur ps trivial
  ax_eval [ax_call (f := .dagarg_list), e1]

/-- the operator position: an identifier, `!cast`, `?` or `!getdagop` starts it -/
def OpStart (O : List TokenKind) : Prop :=
  ∀ Z, [TokenKind.Id, .XCast, .Question, .XGetDagOp].contains ((O ++ Z).headD .Eof) = true

theorem OpStart.starts {O : List TokenKind} (h : OpStart O) : Starts O :=
  fun Z => in_of_mem (h Z) (by decide)

/-- `(op[:$n])` -/
theorem lit_dag_plain {O : List TokenKind} (hO : ValOk O) (hOs : OpStart O) (nm : Bool) :
    LitOk .Dag (TokenKind.LParen :: (O ++ (nameR nm ++ [TokenKind.RParen]))) := by
  intro Z _ n fl d loc cps cur ps _ hn
  simp only [List.length_cons, List.length_append, List.length_nil] at hn
  obtain ⟨m, rfl⟩ : ∃ m, n = m + 60 := ⟨n - 60, by omega⟩
  have hop : ∀ Z, [TokenKind.Id, .XCast, .Question, .XGetDagOp].contains ((O ++ Z).headD .Eof) = true := hOs
  have e1 := fun n fl d loc cps cur ps => dagarg_val hO hOs.starts nm (TokenKind.RParen :: Z) rfl n fl d loc cps cur ps trivial
  simp only [List.append_assoc, List.length_append] at e1
  ax_eval [ax_call (f := .simple_value), ax_call (f := .dag), simpleValueArms, e1]

/-- `(op[:$n] arg, …)`; after an unnamed operator the first argument must start with a token that
does not continue the operator value -/
theorem lit_dag_args {O : List TokenKind} (hO : ValOk O) (hOs : OpStart O) (nm : Bool)
    (R : List TokenKind) (Rs : List (List TokenKind)) (hall : ∀ R' ∈ R :: Rs, DItemOk R')
    (hR1 : ∀ Z, [TokenKind.RParen].contains ((R ++ Z).headD .Eof) = false)
    (hsafe : nm = true ∨ ∀ Z, dagFollow ((R ++ Z).headD .Eof) = true) :
    LitOk .Dag (TokenKind.LParen :: (O ++ (nameR nm ++ (joinC R Rs ++ [TokenKind.RParen])))) := by
  intro Z _ n fl d loc cps cur ps _ hn
  simp only [List.length_cons, List.length_append, List.length_nil] at hn
  obtain ⟨m, rfl⟩ : ∃ m, n = m + 60 := ⟨n - 60, by omega⟩
  have hop : ∀ Z, [TokenKind.Id, .XCast, .Question, .XGetDagOp].contains ((O ++ Z).headD .Eof) = true := hOs
  have hj : ∀ W, joinC R Rs ++ W = R ++ (match Rs with | [] => W | R' :: Rs' => TokenKind.Comma :: (joinC R' Rs' ++ W)) := by
    intro W; cases Rs with
    | nil => rfl
    | cons R' Rs' => simp [joinC, List.append_assoc]
  have hR1' : ∀ W, [TokenKind.RParen].contains ((joinC R Rs ++ W).headD .Eof) = false := by
    intro W; rw [hj]; exact hR1 _
  have e2 := fun n fl d loc cps cur ps => dag_list R Rs hall Z n fl d loc cps cur ps
  cases nm with
  | true =>
    have e1 := fun n fl d loc cps cur ps => dagarg_named hO hOs.starts (joinC R Rs ++ TokenKind.RParen :: Z) rfl n fl d loc cps cur ps trivial
    simp only [List.append_assoc, List.cons_append, List.nil_append, List.length_append, List.length_cons,
      List.length_nil] at e1
    simp only [nameR_true, List.length_cons, List.length_nil] at hn
    ax_eval [ax_call (f := .simple_value), ax_call (f := .dag), simpleValueArms, nameR_true, e1, e2]
  | false =>
    have hsf : dagFollow ((joinC R Rs ++ TokenKind.RParen :: Z).headD .Eof) = true := by
      rcases hsafe with h | h
      · cases h
      · rw [hj]; exact h _
    have e1 := fun n fl d loc cps cur ps => dagarg_plain hO hOs.starts (joinC R Rs ++ TokenKind.RParen :: Z) hsf n fl d loc cps cur ps trivial
    simp only [nameR_false, List.length_nil] at hn
    ax_eval [ax_call (f := .simple_value), ax_call (f := .dag), simpleValueArms, nameR_false, e1, e2]

end C04L
end Tg
