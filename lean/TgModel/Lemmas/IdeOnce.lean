/-
Linearity of the indexer's traversal, part 1: the framework.

* `NoReuse ops`: after a `reference _ L` of the hook log nothing is registered at `L` again
  (implies `RefStable`);
* `Vis c c' f vs`: between the states `c` and `c'` the indexer stayed in file `f`, and what it
  appended to the log is `NoReuse` and registers only non-empty locations inside the nodes `vs` of
  file `f`, or in files that were indexed in between; composition needs the visited nodes of the
  two parts to have disjoint ranges;
* `PC m c Q`: partial correctness of one run (`Holds` without the "does not throw" part);
  `Silent m`: `m` does not touch the log, the file trace, the indexed files, the workspace.
-/
import TgModel.Lemmas.IdeNames
import TgModel.Ide.Index

namespace Tg
namespace Ide
open Tg.SymbolMap (Op Loc RefStable registrations)

/-! ### the log -/

/-- the location an operation registers in the position map -/
def regLoc : Op → Option Loc
  | .define _ l => some l
  | .defineAnon _ _ => none
  | .reference _ l => some l

/-- after a reference at `L` nothing is registered at `L` -/
def NoReuse (ops : List Op) : Prop :=
  ∀ pre s L post, ops = pre ++ Op.reference s L :: post → ∀ o ∈ post, regLoc o ≠ some L

theorem NoReuse.nil : NoReuse [] := by
  intro pre s L post h; simp at h

theorem NoReuse.single (o : Op) : NoReuse [o] := by
  intro pre s L post h
  cases pre with
  | nil => simp only [List.nil_append, List.cons.injEq] at h; obtain ⟨_, rfl⟩ := h; simp
  | cons x xs => simp at h

/-- a definition followed by a reference (the `let f = …` body item) -/
theorem NoReuse.defRef (n : List Char) (l : Loc) (s : Nat) (l' : Loc) : NoReuse [.define n l, .reference s l'] := by
  intro pre s' L post h
  cases pre with
  | nil => simp at h
  | cons x xs =>
    cases xs with
    | nil =>
      simp only [List.cons_append, List.nil_append, List.cons.injEq] at h
      obtain ⟨_, _, rfl⟩ := h; simp
    | cons y ys => simp at h

theorem NoReuse.append {a b : List Op} (ha : NoReuse a) (hb : NoReuse b)
    (hab : ∀ oa ∈ a, ∀ ob ∈ b, ∀ L, regLoc oa = some L → regLoc ob ≠ some L) : NoReuse (a ++ b) := by
  intro pre s L post h o ho
  rcases List.append_eq_append_iff.mp h with ⟨a', h1, h2⟩ | ⟨b', h1, h2⟩
  · -- the reference is in `b`
    cases a' with
    | nil =>
      simp only [List.nil_append] at h2
      simp only [List.append_nil] at h1
      exact hb [] s L post (by simpa using h2) o ho
    | cons x xs =>
      simp only [List.cons_append] at h2
      exact hb (x :: xs) s L post (by simpa using h2) o ho
  · -- the reference is in `a`
    cases b' with
    | nil =>
      simp only [List.nil_append] at h2
      simp only [List.append_nil] at h1
      subst h1
      exact hb [] s L post h2.symm o ho
    | cons x xs =>
      simp only [List.cons_append, List.cons.injEq] at h2
      obtain ⟨rfl, h2⟩ := h2
      subst h2
      rcases List.mem_append.mp ho with ho | ho
      · exact ha pre s L xs h1 o ho
      · exact hab (.reference s L) (by rw [h1]; simp) o ho L rfl

theorem NoReuse.refStable {ops : List Op} (h : NoReuse ops) : RefStable ops := by
  intro pre post s loc hops e he hl
  exfalso
  rcases registrations_mem post _ e he with ⟨n, hm⟩ | hm
  · exact h pre s loc post hops _ hm (by simp [regLoc, hl])
  · exact h pre s loc post hops _ hm (by simp [regLoc, hl])

/-! ### visited nodes -/

/-- disjoint ranges -/
def Dj (a b : PTree) : Prop := a.stop ≤ b.start ∨ b.stop ≤ a.start

theorem Dj.symm {a b : PTree} (h : Dj a b) : Dj b a := Or.symm h

/-- `b` lies inside `a` -/
def Inside (a b : PTree) : Prop := a.start ≤ b.start ∧ b.stop ≤ a.stop

theorem Inside.refl (a : PTree) : Inside a a := ⟨Nat.le_refl _, Nat.le_refl _⟩
theorem Inside.trans {a b c : PTree} (h1 : Inside a b) (h2 : Inside b c) : Inside a c :=
  ⟨Nat.le_trans h1.1 h2.1, Nat.le_trans h2.2 h1.2⟩

theorem Dj.inside {a b a' b' : PTree} (h : Dj a b) (ha : Inside a a') (hb : Inside b b') : Dj a' b' := by
  unfold Dj Inside at *; omega

/-- a non-empty location of file `f` inside one of the nodes `vs` -/
def InR (f : Nat) (vs : List PTree) (L : Loc) : Prop :=
  L.file = f ∧ L.start < L.stop ∧ ∃ v ∈ vs, v.start ≤ L.start ∧ L.stop ≤ v.stop

/-- a location in a file that was indexed between `c` and `c'` -/
def NewF (c c' : IndexCtx) (L : Loc) : Prop := L.file ∉ c.indexedFiles ∧ L.file ∈ c'.indexedFiles

def AllReg (P : Loc → Prop) (ops : List Op) : Prop := ∀ o ∈ ops, ∀ L, regLoc o = some L → P L

/-- nothing the indexer looks at here changes -/
structure Sil (c c' : IndexCtx) : Prop where
  ws : c'.ws = c.ws
  trace : c'.fileTrace = c.fileTrace
  idx : c'.indexedFiles = c.indexedFiles
  ops : c'.symbolMap.ops = c.symbolMap.ops

theorem Sil.refl (c : IndexCtx) : Sil c c := ⟨rfl, rfl, rfl, rfl⟩
theorem Sil.trans {a b c : IndexCtx} (h1 : Sil a b) (h2 : Sil b c) : Sil a c :=
  ⟨h2.ws.trans h1.ws, h2.trace.trans h1.trace, h2.idx.trans h1.idx, h2.ops.trans h1.ops⟩

structure Vis (c c' : IndexCtx) (f : Nat) (vs : List PTree) : Prop where
  ws : c'.ws = c.ws
  trace : c'.fileTrace = c.fileTrace
  idx : ∀ g ∈ c.indexedFiles, g ∈ c'.indexedFiles
  seg : ∃ new, c'.symbolMap.ops.toList = c.symbolMap.ops.toList ++ new ∧ NoReuse new ∧
    AllReg (fun L => InR f vs L ∨ NewF c c' L) new

theorem Vis.refl (c : IndexCtx) (f : Nat) (vs : List PTree) : Vis c c f vs :=
  ⟨rfl, rfl, fun _ h => h, [], by simp, NoReuse.nil, by intro o ho; cases ho⟩

theorem Vis.of_sil {c c' : IndexCtx} (h : Sil c c') (f : Nat) (vs : List PTree) : Vis c c' f vs :=
  ⟨h.ws, h.trace, fun g hg => by rw [h.idx]; exact hg, [], by rw [h.ops]; simp, NoReuse.nil,
    by intro o ho; cases ho⟩

theorem InR.mono {f : Nat} {vs ws' : List PTree} {L : Loc} (h : InR f vs L)
    (hsub : ∀ v ∈ vs, ∃ w ∈ ws', Inside w v) : InR f ws' L := by
  obtain ⟨h1, h2, v, hv, h3, h4⟩ := h
  obtain ⟨w, hw, hi⟩ := hsub v hv
  exact ⟨h1, h2, w, hw, Nat.le_trans hi.1 h3, Nat.le_trans h4 hi.2⟩

/-- forget which nodes were visited: they all lie inside `ws'` -/
theorem Vis.weaken {c c' : IndexCtx} {f : Nat} {vs ws' : List PTree} (h : Vis c c' f vs)
    (hsub : ∀ v ∈ vs, ∃ w ∈ ws', Inside w v) : Vis c c' f ws' := by
  obtain ⟨new, h1, h2, h3⟩ := h.seg
  refine ⟨h.ws, h.trace, h.idx, new, h1, h2, ?_⟩
  intro o ho L hL
  rcases h3 o ho L hL with hr | hr
  · exact Or.inl (hr.mono hsub)
  · exact Or.inr hr

theorem Vis.inside {c c' : IndexCtx} {f : Nat} {vs : List PTree} {n : PTree} (h : Vis c c' f vs)
    (hsub : ∀ v ∈ vs, Inside n v) : Vis c c' f [n] :=
  h.weaken (fun v hv => ⟨n, by simp, hsub v hv⟩)

/-- two parts that visited disjoint nodes -/
theorem Vis.trans {c c1 c2 : IndexCtx} {f : Nat} {vs1 vs2 : List PTree} (h1 : Vis c c1 f vs1)
    (h2 : Vis c1 c2 f vs2) (hf : f ∈ c.indexedFiles) (hd : ∀ a ∈ vs1, ∀ b ∈ vs2, Dj a b) :
    Vis c c2 f (vs1 ++ vs2) := by
  obtain ⟨n1, e1, r1, a1⟩ := h1.seg
  obtain ⟨n2, e2, r2, a2⟩ := h2.seg
  refine ⟨h2.ws.trans h1.ws, h2.trace.trans h1.trace, fun g hg => h2.idx g (h1.idx g hg), n1 ++ n2,
    by rw [e2, e1, List.append_assoc], ?_, ?_⟩
  · refine r1.append r2 ?_
    intro oa hoa ob hob L hLa hLb
    rcases a1 oa hoa L hLa with ⟨fa, nea, va, hva, sa, ea⟩ | ⟨na, ia⟩
    · rcases a2 ob hob L hLb with ⟨fb, neb, vb, hvb, sb, eb⟩ | ⟨nb, ib⟩
      · have := hd va hva vb hvb
        unfold Dj at this
        omega
      · exact nb (h1.idx _ (fa ▸ hf))
    · rcases a2 ob hob L hLb with ⟨fb, neb, vb, hvb, sb, eb⟩ | ⟨nb, ib⟩
      · exact na (fb ▸ hf)
      · exact nb ia
  · intro o ho L hL
    rcases List.mem_append.mp ho with ho | ho
    · rcases a1 o ho L hL with hr | ⟨na, ia⟩
      · exact Or.inl (hr.mono (fun v hv => ⟨v, by simp [hv], Inside.refl v⟩))
      · exact Or.inr ⟨na, h2.idx _ ia⟩
    · rcases a2 o ho L hL with hr | ⟨nb, ib⟩
      · exact Or.inl (hr.mono (fun v hv => ⟨v, by simp [hv], Inside.refl v⟩))
      · exact Or.inr ⟨fun hc => nb (h1.idx _ hc), ib⟩

theorem Vis.sil_right {c c1 c2 : IndexCtx} {f : Nat} {vs : List PTree} (h1 : Vis c c1 f vs) (h2 : Sil c1 c2) :
    Vis c c2 f vs := by
  obtain ⟨n1, e1, r1, a1⟩ := h1.seg
  refine ⟨h2.ws.trans h1.ws, h2.trace.trans h1.trace, fun g hg => by rw [h2.idx]; exact h1.idx g hg, n1,
    by rw [h2.ops]; exact e1, r1, ?_⟩
  intro o ho L hL
  rcases a1 o ho L hL with hr | ⟨na, ia⟩
  · exact Or.inl hr
  · exact Or.inr ⟨na, by rw [h2.idx]; exact ia⟩

theorem Vis.sil_left {c c1 c2 : IndexCtx} {f : Nat} {vs : List PTree} (h1 : Sil c c1) (h2 : Vis c1 c2 f vs) :
    Vis c c2 f vs := by
  obtain ⟨n1, e1, r1, a1⟩ := h2.seg
  refine ⟨h2.ws.trans h1.ws, h2.trace.trans h1.trace, fun g hg => h2.idx g (by rw [h1.idx]; exact hg), n1,
    by rw [← h1.ops]; exact e1, r1, ?_⟩
  intro o ho L hL
  rcases a1 o ho L hL with hr | ⟨na, ia⟩
  · exact Or.inl hr
  · exact Or.inr ⟨by rw [← h1.idx]; exact na, ia⟩

/-- one operation appended to the log -/
theorem Vis.push {c c' : IndexCtx} {f : Nat} {v : PTree} {o : Op} (hws : c'.ws = c.ws)
    (htr : c'.fileTrace = c.fileTrace) (hidx : c'.indexedFiles = c.indexedFiles)
    (hops : c'.symbolMap.ops = c.symbolMap.ops.push o)
    (hL : ∀ L, regLoc o = some L → L.file = f ∧ L.start < L.stop ∧ v.start ≤ L.start ∧ L.stop ≤ v.stop) :
    Vis c c' f [v] := by
  refine ⟨hws, htr, fun g hg => by rw [hidx]; exact hg, [o], by rw [hops]; simp, NoReuse.single o, ?_⟩
  intro o' ho' L hL'
  simp only [List.mem_singleton] at ho'
  subst ho'
  obtain ⟨h1, h2, h3, h4⟩ := hL L hL'
  exact Or.inl ⟨h1, h2, v, by simp, h3, h4⟩

/-! ### partial correctness of one run -/

def PC {α : Type} (m : IxM α) (c : IndexCtx) (Q : α → IndexCtx → Prop) : Prop :=
  ∀ a c', m c = .ok (a, c') → Q a c'

namespace PC
variable {α β : Type} {c : IndexCtx}

theorem mono {m : IxM α} {Q Q' : α → IndexCtx → Prop} (h : PC m c Q) (hq : ∀ a c', Q a c' → Q' a c') :
    PC m c Q' := fun a c' hr => hq a c' (h a c' hr)

theorem pure {a : α} {Q : α → IndexCtx → Prop} (h : Q a c) : PC (Pure.pure a : IxM α) c Q := by
  intro a' c' hr
  cases hr
  exact h

theorem bind {m : IxM α} {f : α → IxM β} {R : α → IndexCtx → Prop} {Q : β → IndexCtx → Prop}
    (hm : PC m c R) (hf : ∀ a c', R a c' → PC (f a) c' Q) : PC (m >>= f) c Q := by
  intro b c'' hr
  have hb : (m >>= f) c = (m c >>= fun p => f p.1 p.2) := rfl
  rw [hb] at hr
  cases hm' : m c with
  | error e => rw [hm'] at hr; cases hr
  | ok p =>
    rw [hm'] at hr
    exact hf p.1 p.2 (hm p.1 p.2 hm') b c'' hr

theorem throw {e : String} {Q : α → IndexCtx → Prop} : PC (throw e : IxM α) c Q := by
  intro a c' hr; cases hr

theorem panic {msg : String} {Q : α → IndexCtx → Prop} : PC (Ide.panic msg : IxM α) c Q := by
  intro a c' hr; cases hr

theorem get {Q : IndexCtx → IndexCtx → Prop} (h : Q c c) : PC (MonadState.get : IxM IndexCtx) c Q := by
  intro a c' hr; cases hr; exact h

theorem modifyGet' {f : IndexCtx → α × IndexCtx} {Q : α → IndexCtx → Prop} (h : Q (f c).1 (f c).2) :
    PC (MonadState.modifyGet f : IxM α) c Q := by
  intro a c' hr
  have he : (f c).1 = a ∧ (f c).2 = c' := by
    have : Except.ok (f c) = (Except.ok (a, c') : Except String (α × IndexCtx)) := hr
    have h2 : f c = (a, c') := Except.ok.inj this
    rw [h2]; exact ⟨rfl, rfl⟩
  rw [← he.1, ← he.2]; exact h

theorem modify {f : IndexCtx → IndexCtx} {Q : Unit → IndexCtx → Prop} (h : Q () (f c)) :
    PC (_root_.modify f : IxM Unit) c Q := by
  intro a c' hr; cases hr; exact h

theorem modifySM {f : SymMap → α × SymMap} {Q : α → IndexCtx → Prop}
    (h : Q (f c.symbolMap).1 { c with symbolMap := (f c.symbolMap).2 }) : PC (Ide.modifySM f) c Q := by
  intro a c' hr; cases hr; exact h

theorem withSM {f : SymMap → α} {Q : α → IndexCtx → Prop} (h : Q (f c.symbolMap) c) : PC (Ide.withSM f) c Q := by
  intro a c' hr; cases hr; exact h

/-- `for x in l do ..` with an invariant indexed by the number of elements already processed -/
theorem forIn_idx {σ : Type} {l : List α} {init : σ} {f : α → σ → IxM (ForInStep σ)}
    (I : Nat → σ → IndexCtx → Prop) (Q : σ → IndexCtx → Prop)
    (h0 : I 0 init c)
    (hstep : ∀ i (hi : i < l.length) b c1, I i b c1 →
      PC (f l[i] b) c1 (fun s c2 => match s with | .yield b' => I (i + 1) b' c2 | .done b' => Q b' c2))
    (hend : ∀ b c1, I l.length b c1 → Q b c1) :
    PC (forIn l init f) c Q := by
  suffices H : ∀ (k : Nat) (l' : List α) (hl : l = l.take k ++ l') (b : σ) (c1 : IndexCtx),
      k + l'.length = l.length → I k b c1 → PC (forIn l' b f) c1 Q from
    H 0 l (by simp) init c (by simp) h0
  intro k l'
  induction l' generalizing k with
  | nil =>
    intro _ b c1 hk hI
    simp only [List.length_nil, Nat.add_zero] at hk
    subst hk
    exact PC.pure (hend b c1 hI)
  | cons x xs ih =>
    intro hl b c1 hk hI
    simp only [List.length_cons] at hk
    have hlt : k < l.length := by omega
    have hx : l[k] = x := by
      have : l[k]? = some x := by
        conv => lhs; rw [hl]
        rw [List.getElem?_append_right (by simp; omega)]
        simp [List.length_take, Nat.min_eq_left (Nat.le_of_lt hlt)]
      simpa [List.getElem?_eq_getElem hlt] using this
    rw [List.forIn_cons]
    have hst := hstep k hlt b c1 hI
    rw [hx] at hst
    refine PC.bind hst ?_
    intro s c2 hs
    cases s with
    | done b' => exact PC.pure hs
    | yield b' =>
      refine ih (k + 1) ?_ b' c2 (by omega) hs
      rw [List.take_add_one, List.getElem?_eq_getElem hlt, hx]
      simp only [Option.toList_some, List.append_assoc, List.singleton_append]
      exact hl

/-- `l.mapM f` with an invariant indexed by the number of elements already processed -/
theorem mapM_idx {l : List α} {f : α → IxM β} (I : Nat → IndexCtx → Prop) (h0 : I 0 c)
    (hstep : ∀ i (hi : i < l.length) c1, I i c1 → PC (f l[i]) c1 (fun _ c2 => I (i + 1) c2)) :
    PC (l.mapM f) c (fun _ c2 => I l.length c2) := by
  suffices H : ∀ (k : Nat) (l' : List α) (hl : l = l.take k ++ l') (c1 : IndexCtx),
      k + l'.length = l.length → I k c1 → PC (l'.mapM f) c1 (fun _ c2 => I l.length c2) from
    H 0 l (by simp) c (by simp) h0
  intro k l'
  induction l' generalizing k with
  | nil =>
    intro _ c1 hk hI
    simp only [List.length_nil, Nat.add_zero] at hk
    subst hk
    rw [List.mapM_nil]
    exact PC.pure hI
  | cons x xs ih =>
    intro hl c1 hk hI
    simp only [List.length_cons] at hk
    have hlt : k < l.length := by omega
    have hx : l[k] = x := by
      have : l[k]? = some x := by
        conv => lhs; rw [hl]
        rw [List.getElem?_append_right (by simp; omega)]
        simp [List.length_take, Nat.min_eq_left (Nat.le_of_lt hlt)]
      simpa [List.getElem?_eq_getElem hlt] using this
    rw [List.mapM_cons]
    have hst := hstep k hlt c1 hI
    rw [hx] at hst
    refine PC.bind hst ?_
    intro b c2 hI2
    refine PC.bind (ih (k + 1) ?_ c2 (by omega) hI2) ?_
    · rw [List.take_add_one, List.getElem?_eq_getElem hlt, hx]
      simp only [Option.toList_some, List.append_assoc, List.singleton_append]
      exact hl
    · intro bs c3 h3
      exact PC.pure h3

end PC

/-! ### computations that do not touch the log -/

structure Silent {α : Type} (m : IxM α) : Prop where
  run : ∀ c, PC m c (fun _ c' => Sil c c')

namespace Silent
variable {α β : Type}

theorem pure (a : α) : Silent (Pure.pure a : IxM α) := ⟨fun c => PC.pure (Sil.refl c)⟩

theorem panic (msg : String) : Silent (Ide.panic msg : IxM α) := ⟨fun _ => PC.panic⟩

theorem bind {m : IxM α} {f : α → IxM β} (hm : Silent m) (hf : ∀ a, Silent (f a)) : Silent (m >>= f) :=
  ⟨fun c => PC.bind (hm.run c) (fun a c1 h1 => ((hf a).run c1).mono (fun _ _ h2 => h1.trans h2))⟩

theorem forIn {σ : Type} (l : List α) (init : σ) (f : α → σ → IxM (ForInStep σ)) (hf : ∀ a b, Silent (f a b)) :
    Silent (forIn l init f) := by
  induction l generalizing init with
  | nil => exact pure init
  | cons x t ih =>
    rw [List.forIn_cons]
    refine bind (hf x init) ?_
    intro r
    cases r with
    | done b => exact pure b
    | yield b => exact ih b

theorem get : Silent (MonadState.get : IxM IndexCtx) := ⟨fun c => PC.get (Sil.refl c)⟩

theorem withSM (f : SymMap → α) : Silent (Ide.withSM f) := ⟨fun c => PC.withSM (Sil.refl c)⟩

end Silent

/-- closes goals `Silent (primitive ..)`; extended by `macro_rules` -/
syntax "silent_prim" : tactic
macro_rules | `(tactic| silent_prim) => `(tactic| fail "no silent primitive")

syntax "silent_step" : tactic
macro_rules | `(tactic| silent_step) => `(tactic| first
  | with_reducible exact Silent.pure _
  | with_reducible exact Silent.panic _
  | with_reducible exact Silent.get
  | with_reducible exact Silent.withSM _
  | with_reducible (apply Silent.bind)
  | with_reducible (apply Silent.forIn)
  | with_reducible assumption
  | with_reducible silent_prim
  | (intro _)
  | split
  | (dsimp only)
  | with_reducible (apply_assumption))

macro "silent" : tactic => `(tactic| repeat' silent_step)

end Ide
end Tg
