/- Proofs about the AnalysisHost input model. -/
import TgModel.Host

namespace Tg
namespace Host

/-! ### `resolveAll` -/

/-- the include map computed by `resolveAll` does not depend on the database -/
theorem resolveAll_fst (env : Env) (fs : Fs) (f : Path) (l : List (Name × Nat)) :
    ∀ d1 d2 : Db, (resolveAll env fs f l d1).1 = (resolveAll env fs f l d2).1 := by
  induction l with
  | nil => intro d1 d2; rfl
  | cons x rest ih =>
    intro d1 d2
    obtain ⟨n, i⟩ := x
    cases hr : env.resolve fs f n with
    | none => simp only [resolveAll, hr]; exact ih _ _
    | some target =>
      cases ht : fs target with
      | none => simp only [resolveAll, hr, ht]; exact ih _ _
      | some t =>
        simp only [resolveAll, hr, ht]
        rw [ih (d1.setContent target t) (d2.setContent target t)]

/-- exact description of the contents after `resolveAll`: every recorded target holds the file
system's text, everything else is untouched -/
theorem resolveAll_content (env : Env) (fs : Fs) (f : Path) (l : List (Name × Nat)) :
    ∀ (d : Db) (p : Path), (resolveAll env fs f l d).2.content p =
      if p ∈ (resolveAll env fs f l d).1.map (·.2) then fs p else d.content p := by
  induction l with
  | nil => intro d p; simp [resolveAll]
  | cons x rest ih =>
    intro d p
    obtain ⟨n, i⟩ := x
    cases hr : env.resolve fs f n with
    | none => simp only [resolveAll, hr]; exact ih _ _
    | some target =>
      cases ht : fs target with
      | none => simp only [resolveAll, hr, ht]; exact ih _ _
      | some t =>
        simp only [resolveAll, hr, ht, List.map_cons, List.mem_cons]
        rw [ih (d.setContent target t) p]
        by_cases hm : p ∈ (resolveAll env fs f rest (d.setContent target t)).1.map (·.2)
        · simp [hm]
        · rw [if_neg hm]
          by_cases hp : p = target
          · subst hp; simp [Db.setContent, ht]
          · have hm' : ¬ (p = target ∨
                p ∈ (resolveAll env fs f rest (d.setContent target t)).1.map (·.2)) := by
              intro h; cases h with
              | inl h => exact hp h
              | inr h => exact hm h
            rw [if_neg hm']
            simp [hp, Db.setContent]

theorem resolveAll_incMap (env : Env) (fs : Fs) (f : Path) (l : List (Name × Nat)) :
    ∀ d : Db, (resolveAll env fs f l d).2.incMap = d.incMap := by
  induction l with
  | nil => intro d; rfl
  | cons x rest ih =>
    intro d
    obtain ⟨n, i⟩ := x
    cases hr : env.resolve fs f n with
    | none => simp only [resolveAll, hr]; exact ih _
    | some target =>
      cases ht : fs target with
      | none => simp only [resolveAll, hr, ht]; exact ih _
      | some t =>
        simp only [resolveAll, hr, ht]
        rw [ih (d.setContent target t)]; rfl

/-- agreement on a path is preserved by `resolveAll` -/
theorem resolveAll_agree (env : Env) (fs : Fs) (f : Path) (l : List (Name × Nat)) (d1 d2 : Db)
    (p : Path) (h : d1.content p = d2.content p) :
    (resolveAll env fs f l d1).2.content p = (resolveAll env fs f l d2).2.content p := by
  rw [resolveAll_content, resolveAll_content, resolveAll_fst env fs f l d1 d2, h]

/-- every recorded target agrees afterwards -/
theorem resolveAll_agree_target (env : Env) (fs : Fs) (f : Path) (l : List (Name × Nat))
    (d1 d2 : Db) (p : Path) (h : p ∈ (resolveAll env fs f l d1).1.map (·.2)) :
    (resolveAll env fs f l d1).2.content p = (resolveAll env fs f l d2).2.content p := by
  rw [resolveAll_content, resolveAll_content, ← resolveAll_fst env fs f l d1 d2]
  simp [h]

/-! ### `collect` in lock-step -/

/-- what `setRoot` will make observable from a `collect` result -/
def view (r : List Path × Db) : List Path × List (Option Text) × List (List (Nat × Path)) :=
  (r.1, r.1.map r.2.content, r.1.map r.2.incMap)

theorem collect_lockstep (env : Env) (fs : Fs) :
    ∀ (fuel : Nat) (q vis : List Path) (d1 d2 : Db),
      (∀ f ∈ q, d1.content f = d2.content f) →
      (∀ f ∈ vis, d1.content f = d2.content f ∧ d1.incMap f = d2.incMap f) →
      (collect env fs fuel q vis d1).map view = (collect env fs fuel q vis d2).map view := by
  intro fuel
  induction fuel with
  | zero => intro q vis d1 d2 _ _; simp [collect]
  | succ n ih =>
    intro q vis d1 d2 hq hv
    cases q with
    | nil =>
      simp only [collect, Option.map_some, view]
      have h1 : vis.map d1.content = vis.map d2.content :=
        List.map_congr_left (fun f hf => (hv f hf).1)
      have h2 : vis.map d1.incMap = vis.map d2.incMap :=
        List.map_congr_left (fun f hf => (hv f hf).2)
      rw [h1, h2]
    | cons f q =>
      simp only [collect]
      by_cases hc : vis.contains f = true
      · simp only [hc, if_true]
        exact ih q vis d1 d2 (fun g hg => hq g (List.mem_cons_of_mem _ hg)) hv
      · simp only [hc]
        have hf : d1.content f = d2.content f := hq f (List.mem_cons_self ..)
        rw [← hf]
        cases hcf : d1.content f with
        | none => simp
        | some t =>
          simp only [Bool.false_eq_true, if_false]
          rw [← resolveAll_fst env fs f _ d1 d2]
          apply ih
          · intro g hg
            simp only
            rcases List.mem_append.mp hg with hg | hg
            · exact resolveAll_agree env fs f _ d1 d2 g (hq g (List.mem_cons_of_mem _ hg))
            · exact resolveAll_agree_target env fs f _ d1 d2 g hg
          · intro g hg
            simp only
            rcases List.mem_cons.mp hg with hg | hg
            · subst hg
              refine ⟨resolveAll_agree env fs g _ d1 d2 g hf, ?_⟩
              simp
            · refine ⟨resolveAll_agree env fs f _ d1 d2 g (hv g hg).1, ?_⟩
              by_cases hgf : g = f
              · simp [hgf]
              · simp only [hgf, if_false, resolveAll_incMap]
                exact (hv g hg).2

/-- `set_root_file` is a function of the file system, the root and the root's content only:
two databases that agree on the content of the root produce the same observable inputs
(whatever else they contained before) -/
theorem setRoot_deterministic (env : Env) (fs : Fs) (fuel : Nat) (root : Path) (d1 d2 : Db)
    (hroot : d1.content root = d2.content root) :
    (setRoot env fs fuel root d1).map observe = (setRoot env fs fuel root d2).map observe := by
  have key : ∀ d : Db, (setRoot env fs fuel root d).map observe =
      ((collect env fs fuel [root] [] d).map view).map
        (fun v => Obs.mk (some root) v.1 v.2.1 v.2.2) := by
    intro d
    unfold setRoot
    cases collect env fs fuel [root] [] d with
    | none => rfl
    | some r => rfl
  rw [key d1, key d2, collect_lockstep env fs fuel [root] [] d1 d2]
  · intro f hf
    rw [List.mem_singleton.mp hf]; exact hroot
  · intro f hf; cases hf

/-! ### the host's contents track the file system -/

def Tracks (fs : Fs) (db : Db) : Prop := ∀ q t, db.content q = some t → fs q = some t

theorem resolveAll_tracks (env : Env) (fs : Fs) (f : Path) (l : List (Name × Nat)) (d : Db)
    (h : Tracks fs d) : Tracks fs (resolveAll env fs f l d).2 := by
  intro q t hq
  rw [resolveAll_content] at hq
  split at hq
  · exact hq
  · exact h q t hq

theorem collect_tracks (env : Env) (fs : Fs) :
    ∀ (fuel : Nat) (q vis : List Path) (d : Db) (r : List Path × Db),
      Tracks fs d → collect env fs fuel q vis d = some r → Tracks fs r.2 := by
  intro fuel
  induction fuel with
  | zero => intro q vis d r _ hc; simp [collect] at hc
  | succ n ih =>
    intro q vis d r hd hc
    cases q with
    | nil =>
      simp only [collect, Option.some.injEq] at hc
      subst hc; exact hd
    | cons f q =>
      simp only [collect] at hc
      by_cases hvis : vis.contains f = true
      · simp only [hvis, if_true] at hc
        exact ih q vis d r hd hc
      · simp only [hvis] at hc
        cases hcf : d.content f with
        | none => rw [hcf] at hc; simp at hc
        | some t =>
          rw [hcf] at hc
          simp only [Bool.false_eq_true, if_false] at hc
          refine ih _ _ _ r ?_ hc
          exact resolveAll_tracks env fs f _ d hd

theorem setRoot_tracks (env : Env) (fs : Fs) (fuel : Nat) (root : Path) (d d' : Db)
    (h : Tracks fs d) (hs : setRoot env fs fuel root d = some d') : Tracks fs d' := by
  unfold setRoot at hs
  cases hc : collect env fs fuel [root] [] d with
  | none => rw [hc] at hs; simp at hs
  | some r =>
    rw [hc] at hs
    simp only [Option.some.injEq] at hs
    subst hs
    exact collect_tracks env fs fuel _ _ d r h hc

theorem step_tracks (env : Env) (fuel : Nat) (s : St) (op : Op) (hop : op.isDisk = false)
    (h : ∀ db, s.db = some db → Tracks s.fs db) :
    ∀ db, (step env fuel s op).db = some db → Tracks (step env fuel s op).fs db := by
  intro db hdb
  cases op with
  | disk p t => simp [Op.isDisk] at hop
  | edit p t =>
    simp only [step] at hdb ⊢
    cases hs : s.db with
    | none => rw [hs] at hdb; simp at hdb
    | some d0 =>
      rw [hs] at hdb
      simp only [Option.map_some, Option.some.injEq] at hdb
      subst hdb
      intro q u hq
      simp only [Db.setContent] at hq
      by_cases hqp : q = p
      · simpa [hqp] using hq
      · simp only [hqp, if_false] at hq ⊢
        exact h d0 hs q u hq
  | selectRoot p =>
    simp only [step] at hdb ⊢
    cases hs : s.db with
    | none => rw [hs] at hdb; simp at hdb
    | some d0 =>
      rw [hs] at hdb
      simp only [Option.bind_some] at hdb
      exact setRoot_tracks env s.fs fuel p d0 db (h d0 hs) hdb

theorem foldl_tracks (env : Env) (fuel : Nat) (h : List Op) (hnd : ∀ op ∈ h, op.isDisk = false) :
    ∀ s : St, (∀ db, s.db = some db → Tracks s.fs db) →
      ∀ db, (h.foldl (step env fuel) s).db = some db → Tracks (h.foldl (step env fuel) s).fs db := by
  induction h with
  | nil => intro s hs; exact hs
  | cons op rest ih =>
    intro s hs
    simp only [List.foldl_cons]
    exact ih (fun o ho => hnd o (List.mem_cons_of_mem _ ho)) _
      (step_tracks env fuel s op (hnd op List.mem_cons_self) hs)

/-- the host's copy of a file's text is always the file system's text (histories only change
texts through `edit`, which updates both; `set_root_file` copies from the file system) -/
theorem content_tracks_fs (env : Env) (fuel : Nat) (h : List Op) (hnd : ∀ op ∈ h, op.isDisk = false) (db : Db)
    (hdb : (run env fuel h).db = some db) :
    ∀ q t, db.content q = some t → (run env fuel h).fs q = some t := by
  have := foldl_tracks env fuel h hnd {} (by
    intro d hd q t hq
    simp only [Option.some.injEq] at hd
    subst hd
    simp at hq)
  exact this db hdb

theorem run_snoc (env : Env) (fuel : Nat) (pre : List Op) (op : Op) :
    run env fuel (pre ++ [op]) = step env fuel (run env fuel pre) op := by
  simp [run, List.foldl_append]

end Host
end Tg
