/-
C04, tree side of the converse (part 1): the proper leaves of the tree under construction follow the
token kinds the parser consumes, and a subtree once built stays in the builder — for every program of the
DSL.

`lk t`: the syntax kinds of the leaves of `t` that are neither trivia nor the end-of-input token, in
source order.  `builderLk b ++ kinds.map toSyntax` is constant along every run (`bld_exec`): what leaves
the look-ahead stream enters the builder.  `Occ t b`: `t` is a subtree of something in the builder.
-/
import TgModel.Lemmas.C04Neg4
import TgModel.Lemmas.ParserShape

namespace Tg
namespace C04L
open Prog Grammar Frag Doc

/-! ### proper leaves -/

/-- a leaf that counts: not trivia, not the end-of-input token -/
def keepK (k : SyntaxKind) : Bool := !k.isTrivia && !(k == SyntaxKind.Eof)

mutual
def lk : Tree → List SyntaxKind
  | .token k _ => if keepK k then [k] else []
  | .node _ cs => lkL cs
def lkL : List Tree → List SyntaxKind
  | [] => []
  | t :: ts => lk t ++ lkL ts
end

@[simp] theorem lkL_nil : lkL [] = [] := by simp [lkL]
@[simp] theorem lkL_cons (t : Tree) (ts : List Tree) : lkL (t :: ts) = lk t ++ lkL ts := by simp [lkL]
@[simp] theorem lk_node (k : SyntaxKind) (cs : List Tree) : lk (.node k cs) = lkL cs := by simp [lk]
theorem lk_token (k : SyntaxKind) (t : List Char) : lk (.token k t) = if keepK k then [k] else [] := by simp [lk]

@[simp] theorem lkL_append (a b : List Tree) : lkL (a ++ b) = lkL a ++ lkL b := by
  induction a with
  | nil => simp
  | cons t ts ih => simp [ih, List.append_assoc]

/-- leaves of children stored most-recent-first -/
def revLk (ts : List Tree) : List SyntaxKind := lkL ts.reverse

@[simp] theorem revLk_nil : revLk [] = [] := by simp [revLk]
@[simp] theorem revLk_cons (t : Tree) (ts : List Tree) : revLk (t :: ts) = revLk ts ++ lk t := by simp [revLk]

theorem revLk_append (a b : List Tree) : revLk (a ++ b) = revLk b ++ revLk a := by
  simp [revLk, List.reverse_append]

theorem revLk_take_drop (n : Nat) (ts : List Tree) : revLk (ts.drop n) ++ revLk (ts.take n) = revLk ts := by
  simp only [revLk]
  rw [← lkL_append, ← List.reverse_append, List.take_append_drop]

def parentsLk : List (SyntaxKind × List Tree) → List SyntaxKind
  | [] => []
  | (_, sibs) :: ps => parentsLk ps ++ revLk sibs

def builderLk (b : Builder) : List SyntaxKind := parentsLk b.parents ++ revLk b.cur

/-- the look-ahead stream as syntax kinds, in front of what is in the builder already -/
def tot (s : PState) : List SyntaxKind := builderLk s.b ++ s.kinds.map TokenKind.toSyntax

theorem toSyntax_eof : ∀ k : TokenKind, k.toSyntax = SyntaxKind.Eof → k = .Eof := by
  intro k; cases k <;> simp [TokenKind.toSyntax]

/-! ### subtrees -/

mutual
def subs : Tree → List Tree
  | .token k t => [.token k t]
  | .node k cs => .node k cs :: subsL cs
def subsL : List Tree → List Tree
  | [] => []
  | t :: ts => subs t ++ subsL ts
end

@[simp] theorem subsL_nil : subsL [] = [] := by simp [subsL]
@[simp] theorem subsL_cons (t : Tree) (ts : List Tree) : subsL (t :: ts) = subs t ++ subsL ts := by simp [subsL]
theorem subs_node (k : SyntaxKind) (cs : List Tree) : subs (.node k cs) = .node k cs :: subsL cs := by simp [subs]

theorem mem_subsL {t : Tree} {l : List Tree} : t ∈ subsL l ↔ ∃ x ∈ l, t ∈ subs x := by
  induction l with
  | nil => simp
  | cons a l ih =>
    simp only [subsL_cons, List.mem_append, ih, List.mem_cons]
    constructor
    · rintro (h | ⟨x, hx, h⟩)
      · exact ⟨a, Or.inl rfl, h⟩
      · exact ⟨x, Or.inr hx, h⟩
    · rintro ⟨x, rfl | hx, h⟩
      · exact Or.inl h
      · exact Or.inr ⟨x, hx, h⟩

theorem self_mem_subs (t : Tree) : t ∈ subs t := by
  cases t <;> simp [subs]

/-- `t` is a subtree of something the builder holds -/
def Occ (t : Tree) (b : Builder) : Prop := t ∈ subsL b.cur ∨ ∃ p ∈ b.parents, t ∈ subsL p.2

/-! ### the relation every run satisfies -/

/-- from `s` to `s'`: the proper leaves follow the consumed tokens, and nothing built is lost -/
structure Bld (s s' : PState) : Prop where
  lk : plainK s.cur → plainK s'.cur ∧ tot s' = tot s
  occ : ∀ t, Occ t s.b → Occ t s'.b

theorem Bld.refl (s : PState) : Bld s s := ⟨fun h => ⟨h, rfl⟩, fun _ h => h⟩

theorem Bld.trans {a b c : PState} (h1 : Bld a b) (h2 : Bld b c) : Bld a c :=
  ⟨fun h => let ⟨p, e⟩ := h1.lk h; let ⟨p', e'⟩ := h2.lk p; ⟨p', e'.trans e⟩, fun t h => h2.occ t (h1.occ t h)⟩

/-- nothing the relation looks at changed -/
theorem Bld.same {s s' : PState} (hb : s'.b = s.b) (hc : s'.cur = s.cur) (hk : s'.kinds = s.kinds) : Bld s s' :=
  ⟨fun h => ⟨by rw [hc]; exact h, by unfold tot; rw [hb, hk]⟩, fun t h => by rw [hb]; exact h⟩

theorem bld_startNode (s : PState) (k : SyntaxKind) : Bld s (s.startNode k) := by
  refine ⟨fun h => ⟨h, ?_⟩, ?_⟩
  · show builderLk (s.startNode k).b ++ _ = builderLk s.b ++ _
    have : builderLk (s.startNode k).b = builderLk s.b := by
      simp [PState.startNode, builderLk, parentsLk]
    rw [this]; rfl
  · intro t ht
    rcases ht with ht | ⟨p, hp, ht⟩
    · exact Or.inr ⟨(k, s.b.cur), by simp [PState.startNode], ht⟩
    · exact Or.inr ⟨p, by simp [PState.startNode, hp], ht⟩

theorem bld_finishNode {s s' : PState} (h : s.finishNode = .ok s') : Bld s s' := by
  unfold PState.finishNode at h
  split at h
  · cases h
  · rename_i k sibs ps hps
    simp only [Res.ok.injEq] at h; subst h
    refine ⟨fun hp => ⟨hp, ?_⟩, ?_⟩
    · show builderLk _ ++ _ = builderLk s.b ++ _
      have : builderLk { cur := Tree.node k s.b.cur.reverse :: sibs, parents := ps } = builderLk s.b := by
        simp only [builderLk, hps, parentsLk, revLk_cons, lk_node, List.append_assoc]
        rfl
      rw [this]; rfl
    · intro t ht
      rcases ht with ht | ⟨p, hp, ht⟩
      · left
        show t ∈ subsL (Tree.node k s.b.cur.reverse :: sibs)
        simp only [subsL_cons, subs_node, List.mem_append, List.mem_cons]
        left; right
        rw [mem_subsL] at ht ⊢
        obtain ⟨x, hx, hxt⟩ := ht
        exact ⟨x, by simpa using hx, hxt⟩
      · rw [hps] at hp
        simp only [List.mem_cons] at hp
        rcases hp with rfl | hp
        · left
          show t ∈ subsL (Tree.node k s.b.cur.reverse :: sibs)
          simp only [subsL_cons, List.mem_append]
          exact Or.inr ht
        · exact Or.inr ⟨p, hp, ht⟩

theorem bld_startNodeAt {s s' : PState} {cp : Nat × Nat} {k : SyntaxKind} (h : s.startNodeAt cp k = .ok s') :
    Bld s s' := by
  unfold PState.startNodeAt at h
  split at h
  · cases h
  · split at h
    · cases h
    · simp only [Res.ok.injEq] at h; subst h
      refine ⟨fun hp => ⟨hp, ?_⟩, ?_⟩
      · show builderLk _ ++ _ = builderLk s.b ++ _
        have : ∀ m, builderLk (⟨s.b.cur.take m, (k, s.b.cur.drop m) :: s.b.parents⟩ : Builder) = builderLk s.b := by
          intro m
          simp only [builderLk, parentsLk, List.append_assoc, revLk_take_drop]
        rw [this]; rfl
      · intro t ht
        rcases ht with ht | ⟨p, hp, ht⟩
        · rw [mem_subsL] at ht
          obtain ⟨x, hx, hxt⟩ := ht
          rw [← List.take_append_drop (s.b.cur.length - cp.2) s.b.cur, List.mem_append] at hx
          rcases hx with hx | hx
          · exact Or.inl (mem_subsL.mpr ⟨x, hx, hxt⟩)
          · exact Or.inr ⟨(k, s.b.cur.drop (s.b.cur.length - cp.2)), by simp, mem_subsL.mpr ⟨x, hx, hxt⟩⟩
        · exact Or.inr ⟨p, by simp [hp], ht⟩

/-- `save; lex`: the look-ahead token becomes a leaf -/
theorem bld_save_lex {input : List Char} {s s1 : PState} (hi : Inv input s) (hs : s.save = .ok s1) :
    Bld s s1.lex := by
  obtain ⟨hb, _, _, _⟩ := PState.save_builder hs
  refine ⟨fun hp => ⟨PState.lex_plain s1, ?_⟩, ?_⟩
  · -- kinds
    have hk : s.kinds = (if s.cur = .Eof then [] else if s.cur.isTrivia then [] else [s.cur]) ++ s1.lex.kinds := by
      by_cases hF : s.cur = .Eof
      · rw [if_pos hF, kinds_eof hF]
        have hsrc : s1.src.rest = [] := by
          obtain ⟨_, _, _, _, _, h6, _, _⟩ := PState.inv_save hi hs
          exact h6 hF
        have : s1.lex.cur = .Eof := by
          show (s1.src.eat).1.kind = .Eof
          exact src_eat_nil _ hsrc
        rw [kinds_eof this]; rfl
      · rw [if_neg hF]
        have hsrc : s1.src = srcAfter s.cur s.src := by
          unfold PState.save at hs
          unfold srcAfter
          split at hs
          · rename_i hc
            split at hs
            · rename_i m src' hte
              simp only [Res.ok.injEq] at hs; subst hs
              rw [hc]; simp only [if_true]
              show src' = s.src.takeError.2
              rw [hte]
            · cases hs
          · rename_i hc
            simp only [Res.ok.injEq] at hs; subst hs
            simp only [hc]; rfl
        rw [kinds_def, feed_step _ _ hF]
        show _ = _ ++ feed (s1.lex.src.rest.length + 2) s1.lex.cur s1.lex.src
        simp only [PState.lex, hsrc]
    unfold tot
    rw [(PState.lex_builder s1).1, hb, hk]
    simp only [builderLk, revLk_cons, lk_token, List.append_assoc, List.map_append]
    congr 2
    -- the new leaf counts iff the token was a proper one
    have hpl : s.cur.toSyntax.isTrivia = s.cur.isTrivia := hp
    by_cases hF : s.cur = .Eof
    · subst_vars
      simp [hF, keepK, TokenKind.toSyntax]
    · have hne : s.cur.toSyntax ≠ SyntaxKind.Eof := fun h => hF (toSyntax_eof _ h)
      rw [if_neg hF]
      cases htr : s.cur.isTrivia
      · simp [keepK, hpl, htr, hne]
      · simp [keepK, hpl, htr]
  · intro t ht
    rw [(PState.lex_builder s1).1, hb]
    rcases ht with ht | ⟨p, hp, ht⟩
    · left
      show t ∈ subsL (_ :: s.b.cur)
      simp only [subsL_cons, List.mem_append]
      exact Or.inr ht
    · exact Or.inr ⟨p, hp, ht⟩

theorem bld_skip {input : List Char} : ∀ (n : Nat) {s s' : PState}, Inv input s → PState.skip n s = .ok s' → Bld s s'
  | 0, _, _, _, h => by simp [PState.skip] at h
  | n + 1, s, s', hi, h => by
    simp only [PState.skip] at h
    split at h
    · split at h
      · rename_i s1 hs
        exact (bld_save_lex hi hs).trans (bld_skip n (PState.inv_save_lex hi hs) h)
      · rename_i hne; exact (hne _ h).elim
    · simp only [Res.ok.injEq] at h; subst h; exact Bld.refl _

theorem bld_eat {input : List Char} {s s' : PState} (hi : Inv input s) (h : s.eat = .ok s') : Bld s s' := by
  unfold PState.eat at h
  split at h
  · rename_i s1 hs
    exact (bld_save_lex hi hs).trans (bld_skip _ (PState.inv_save_lex hi hs) h)
  · rename_i hne; exact (hne _ h).elim

/-- **every run**: the proper leaves follow the consumed tokens, and nothing built is lost -/
theorem bld_exec (defs : Defs) (rc : List TokenKind) (input : List Char) :
    ∀ (fuel : Nat) (p : Prog) (s s' : PState), Inv input s → exec defs rc fuel p s = .ok s' → Bld s s' := by
  intro fuel
  induction fuel with
  | zero => intro p s s' _ h; simp [exec] at h
  | succ n ih =>
    intro p s s' hi h
    have hinv := fun (q : Prog) (a b : PState) (ha : Inv input a) (hq : exec defs rc n q a = .ok b) =>
      inv_exec defs rc input n q a b ha hq
    cases p with
    | nop => simp only [exec, Res.ok.injEq] at h; subst h; exact Bld.refl _
    | startNode k => simp only [exec, Res.ok.injEq] at h; subst h; exact bld_startNode s k
    | finishNode => simp only [exec] at h; exact bld_finishNode h
    | pushCp => simp only [exec, Res.ok.injEq] at h; subst h; exact Bld.same rfl rfl rfl
    | popCp => simp only [exec, Res.ok.injEq] at h; subst h; exact Bld.same rfl rfl rfl
    | startNodeAtCp k =>
      simp only [exec] at h
      split at h
      · exact bld_startNodeAt h
      · cases h
    | eat => simp only [exec] at h; exact bld_eat hi h
    | skip => simp only [exec] at h; exact bld_skip _ hi h
    | eatIf k =>
      simp only [exec] at h
      split at h
      · split at h
        · rename_i s1 he
          simp only [Res.ok.injEq] at h; subst h
          exact (bld_eat hi he).trans (Bld.same rfl rfl rfl)
        · rename_i hne; first | exact (hne _ h).elim | cases h
      · simp only [Res.ok.injEq] at h; subst h; exact Bld.same rfl rfl rfl
    | expect k msg =>
      simp only [exec] at h
      split at h
      · exact bld_eat hi h
      · split at h
        · simp only [Res.ok.injEq] at h; subst h; exact Bld.refl _
        · simp only [Res.ok.injEq] at h; subst h; exact Bld.same rfl rfl rfl
    | assertTok k =>
      simp only [exec] at h
      split at h
      · exact bld_eat hi h
      · cases h
    | error msg => simp only [exec, Res.ok.injEq] at h; subst h; exact Bld.same rfl rfl rfl
    | errorAndEat msg =>
      simp only [exec] at h
      split at h
      · rename_i s1 he
        have hi1 : Inv input ((s.error msg).startNode .Error) := PState.inv_startNode (PState.inv_error hi _) _
        exact ((Bld.same rfl rfl rfl : Bld s (s.error msg)).trans (bld_startNode _ _)).trans
          ((bld_eat hi1 he).trans (bld_finishNode h))
      · rename_i hne; first | exact (hne _ h).elim | cases h
    | errorAndRecover msg =>
      simp only [exec] at h
      split at h
      · split at h
        · rename_i s2 he
          have hi1 : Inv input ((s.error msg).startNode .Error) := PState.inv_startNode (PState.inv_error hi _) _
          exact ((Bld.same rfl rfl rfl : Bld s (s.error msg)).trans (bld_startNode _ _)).trans
            ((bld_eat hi1 he).trans (bld_finishNode h))
        · rename_i hne; first | exact (hne _ h).elim | cases h
      · simp only [Res.ok.injEq] at h; subst h; exact Bld.same rfl rfl rfl
    | retB b => simp only [exec, Res.ok.injEq] at h; subst h; exact Bld.same rfl rfl rfl
    | seq a b =>
      simp only [exec] at h
      split at h
      · rename_i s1 h1; exact (ih a s s1 hi h1).trans (ih b s1 s' (hinv a s s1 hi h1) h)
      · rename_i hne; first | exact (hne _ h).elim | cases h
    | ifAt ks t e =>
      simp only [exec] at h
      split at h
      · exact ih t s s' hi h
      · exact ih e s s' hi h
    | ifFlag t e =>
      simp only [exec] at h
      split at h
      · exact ih t s s' hi h
      · exact ih e s s' hi h
    | loop c b =>
      simp only [exec] at h
      split at h
      · rename_i s1 h1
        have g1 := ih c s s1 hi h1
        have i1 := hinv c s s1 hi h1
        split at h
        · split at h
          · rename_i s2 h2
            exact g1.trans ((ih b s1 s2 i1 h2).trans (ih _ s2 s' (hinv b s1 s2 i1 h2) h))
          · rename_i hne; first | exact (hne _ h).elim | cases h
        · simp only [Res.ok.injEq] at h; subst h; exact g1
      · rename_i hne; first | exact (hne _ h).elim | cases h
    | call f => simp only [exec] at h; exact ih _ s s' hi h
    | pushLocal => simp only [exec, Res.ok.injEq] at h; subst h; exact Bld.same rfl rfl rfl
    | popLocal => simp only [exec, Res.ok.injEq] at h; subst h; exact Bld.same rfl rfl rfl
    | setLocal => simp only [exec, Res.ok.injEq] at h; subst h; exact Bld.same rfl rfl rfl
    | ifLocal t e =>
      simp only [exec] at h
      split at h
      · exact ih t s s' hi h
      · exact ih e s s' hi h

end C04L
end Tg
