/- Proofs about the server synchronisation model. -/
import TgModel.Sched

namespace Tg
namespace Sched

/-! ### the measure -/

/-- steps a live task still has to take: start (if not started), its reads, drop the snapshot -/
def taskCost (t : Task) : Nat := (if t.started then 0 else 1) + t.reads + 1

def tasksCost : List Task → Nat
  | [] => 0
  | t :: ts => taskCost t + tasksCost ts

/-- steps a pending job stands for: the main-loop steps of its handler plus the `r + 2` steps of
the task it spawns -/
def jobCost : Job × Nat → Nat
  | (.edit, r) => 4 + (r + 2)
  | (.request, r) => 1 + (r + 2)

def jobsCost : List (Job × Nat) → Nat
  | [] => 0
  | j :: js => jobCost j + jobsCost js

/-- credit for the steps of the current edit handler already taken (the head edit job stays in
`jobs` until the handler's last step, so the credit is added rather than subtracted) -/
def pcCredit : MainPc → Nat
  | .idle => 3
  | .entered => 2
  | .beforeW => 1
  | .holdingW => 0

/-- work still ahead; every step of the fixed system decreases it on reachable states -/
def mu (s : State) : Nat := jobsCost s.jobs + tasksCost s.tasks + pcCredit s.pc

theorem tasksCost_append (a b : List Task) : tasksCost (a ++ b) = tasksCost a + tasksCost b := by
  induction a with
  | nil => simp [tasksCost]
  | cons t ts ih => simp only [List.cons_append, tasksCost, ih]; omega

theorem tasksCost_set (l : List Task) (i : Nat) (t t' : Task) (h : l[i]? = some t) :
    tasksCost (l.set i t') + taskCost t = tasksCost l + taskCost t' := by
  induction l generalizing i with
  | nil => simp at h
  | cons x xs ih =>
    cases i with
    | zero =>
      simp at h
      subst h
      simp only [List.set_cons_zero, tasksCost]; omega
    | succ n =>
      simp at h
      have := ih n h
      simp only [List.set_cons_succ, tasksCost]; omega

theorem tasksCost_eraseIdx (l : List Task) (i : Nat) (t : Task) (h : l[i]? = some t) :
    tasksCost (l.eraseIdx i) + taskCost t = tasksCost l := by
  induction l generalizing i with
  | nil => simp at h
  | cons x xs ih =>
    cases i with
    | zero =>
      simp at h
      subst h
      simp only [List.eraseIdx_cons_zero, tasksCost]; omega
    | succ n =>
      simp at h
      have := ih n h
      simp only [List.eraseIdx_cons_succ, tasksCost]; omega

/-! ### the invariant of the fixed system -/

structure Inv (s : State) : Prop where
  wheld : s.wHeld = true ↔ s.pc = .holdingW
  notasks : s.pc = .beforeW ∨ s.pc = .holdingW → s.tasks = []
  head : s.pc ≠ .idle → ∃ r js, s.jobs = (Job.edit, r) :: js

theorem inv_init (jobs : List (Job × Nat)) : Inv (init jobs) := by
  constructor <;> simp [init]

theorem inv_stepMain {s s' : State} (hi : Inv s) (hs : stepMain true s = some s') : Inv s' := by
  obtain ⟨jobs, pc, wHeld, tasks⟩ := s
  obtain ⟨h1, h2, h3⟩ := hi
  simp only at h1 h2 h3
  unfold stepMain at hs
  simp only at hs
  split at hs
  · cases hs
  · cases hs
    constructor <;> simp_all
  · cases hs
    constructor <;> simp_all
  · split at hs
    · cases hs
    · cases hs
      rename_i hc
      constructor <;> simp_all
  · cases hs
    constructor <;> simp_all
  · split at hs
    · cases hs
    · cases hs
      constructor <;> simp_all
  · cases hs

theorem inv_stepTask {s s' : State} (i : Nat) (hi : Inv s) (hs : stepTask s i = some s') :
    Inv s' := by
  obtain ⟨jobs, pc, wHeld, tasks⟩ := s
  obtain ⟨h1, h2, h3⟩ := hi
  simp only at h1 h2 h3
  have hne : ¬ (pc = .beforeW ∨ pc = .holdingW) := by
    intro hp
    have := h2 hp
    subst this
    simp [stepTask] at hs
  unfold stepTask at hs
  simp only at hs
  split at hs
  · cases hs
  · split at hs
    · cases hs
      exact ⟨h1, fun hp => absurd hp hne, h3⟩
    · split at hs
      · split at hs
        · cases hs
        · cases hs
          exact ⟨h1, fun hp => absurd hp hne, h3⟩
      · cases hs
        exact ⟨h1, fun hp => absurd hp hne, h3⟩

theorem inv_reachable {jobs : List (Job × Nat)} {s : State} (h : Reachable true jobs s) :
    Inv s := by
  induction h with
  | init => exact inv_init jobs
  | step a hr hs ih =>
    cases a with
    | main => exact inv_stepMain ih hs
    | task i => exact inv_stepTask i ih hs

/-! ### no deadlock -/

theorem task0_moves {s : State} {t : Task} {ts : List Task} (ht : s.tasks = t :: ts)
    (hw : s.wHeld = false) : ∃ s', stepTask s 0 = some s' := by
  unfold stepTask
  simp only [ht, List.getElem?_cons_zero]
  split
  · exact ⟨_, rfl⟩
  · split
    · simp only [hw]; exact ⟨_, rfl⟩
    · exact ⟨_, rfl⟩

theorem main_moves {s : State} (hi : Inv s) (ht : s.tasks = []) (hnf : ¬ Final s) :
    ∃ s', stepMain true s = some s' := by
  obtain ⟨jobs, pc, wHeld, tasks⟩ := s
  obtain ⟨h1, h2, h3⟩ := hi
  simp only at h1 h2 h3 ht
  subst ht
  cases pc with
  | idle =>
    match jobs with
    | [] => exact absurd ⟨rfl, rfl, rfl⟩ hnf
    | (.request, r) :: js => exact ⟨_, rfl⟩
    | (.edit, r) :: js => exact ⟨_, rfl⟩
  | entered => exact ⟨_, rfl⟩
  | beforeW => exact ⟨_, rfl⟩
  | holdingW =>
    obtain ⟨r, js, hj⟩ := h3 (by simp)
    subst hj
    exact ⟨_, rfl⟩

theorem no_deadlock_fixed (jobs : List (Job × Nat)) (s : State) (h : Reachable true jobs s) :
    ¬ Deadlocked true s := by
  intro ⟨hnf, hall⟩
  have hi := inv_reachable h
  cases ht : s.tasks with
  | nil =>
    obtain ⟨s', hs'⟩ := main_moves hi ht hnf
    have := hall .main
    simp only [step] at this
    rw [this] at hs'
    cases hs'
  | cons t ts =>
    have hw : s.wHeld = false := by
      cases hwv : s.wHeld with
      | false => rfl
      | true =>
        have hp := hi.wheld.mp hwv
        have := hi.notasks (Or.inr hp)
        rw [ht] at this
        cases this
    obtain ⟨s', hs'⟩ := task0_moves ht hw
    have := hall (.task 0)
    simp only [step] at this
    rw [this] at hs'
    cases hs'

/-! ### progress -/

theorem mu_stepMain {fixed : Bool} {s s' : State} (hs : stepMain fixed s = some s') :
    mu s' < mu s := by
  obtain ⟨jobs, pc, wHeld, tasks⟩ := s
  unfold stepMain at hs
  simp only at hs
  split at hs
  · cases hs
  · cases hs
    simp only [mu, jobsCost, jobCost, tasksCost_append, tasksCost, taskCost, pcCredit]
    simp
    omega
  · cases hs
    simp only [mu, pcCredit]
    omega
  · split at hs
    · cases hs
    · cases hs
      simp only [mu, pcCredit]
      omega
  · cases hs
    simp only [mu, pcCredit]
    omega
  · split at hs
    · cases hs
    · cases hs
      rename_i hc
      have : tasks = [] := by simpa using hc
      subst this
      simp only [mu, jobsCost, jobCost, tasksCost, taskCost, pcCredit]
      simp
      omega
  · cases hs

theorem mu_stepTask {s s' : State} (i : Nat) (hs : stepTask s i = some s') : mu s' < mu s := by
  obtain ⟨jobs, pc, wHeld, tasks⟩ := s
  unfold stepTask at hs
  simp only at hs
  split at hs
  · cases hs
  · rename_i t ht
    split at hs
    · rename_i hst
      cases hs
      have := tasksCost_set tasks i t { t with started := true } ht
      simp only [taskCost] at this
      simp only [mu]
      simp at hst
      simp [hst] at this
      omega
    · rename_i hst
      simp at hst
      split at hs
      · rename_i hr
        split at hs
        · cases hs
        · cases hs
          have := tasksCost_set tasks i t { t with reads := t.reads - 1 } ht
          simp only [taskCost] at this
          simp only [mu]
          omega
      · cases hs
        have := tasksCost_eraseIdx tasks i t ht
        simp only [taskCost] at this
        simp only [mu]
        omega

theorem progress_fixed (jobs : List (Job × Nat)) (s : State) (h : Reachable true jobs s)
    (a : Act) (s' : State) (hs : step true s a = some s') : mu s' < mu s := by
  have _ := h  -- reachability is not needed: `mu` decreases along every step
  cases a with
  | main => exact mu_stepMain hs
  | task i => exact mu_stepTask i hs

/-! ### the original lock order deadlocks -/

/-- the second edit holds the vfs write lock and waits for the snapshot of the first edit's
diagnostics task, which waits for the vfs read lock -/
def deadState : State :=
  { jobs := [(Job.edit, 1)], pc := .holdingW, wHeld := true,
    tasks := [{ started := true, reads := 1 }] }

theorem deadState_reachable : Reachable false [(Job.edit, 1), (Job.edit, 1)] deadState := by
  have h0 : Reachable false [(Job.edit, 1), (Job.edit, 1)] _ := Reachable.init
  have h1 := Reachable.step (s' := { jobs := [(Job.edit, 1), (Job.edit, 1)], pc := .entered, wHeld := false, tasks := [] }) .main h0 (by decide)
  have h2 := Reachable.step (s' := { jobs := [(Job.edit, 1), (Job.edit, 1)], pc := .beforeW, wHeld := false, tasks := [] }) .main h1 (by decide)
  have h3 := Reachable.step (s' := { jobs := [(Job.edit, 1), (Job.edit, 1)], pc := .holdingW, wHeld := true, tasks := [] }) .main h2 (by decide)
  have h4 := Reachable.step (s' := { jobs := [(Job.edit, 1)], pc := .idle, wHeld := false, tasks := [{ started := false, reads := 1 }] }) .main h3 (by decide)
  have h5 := Reachable.step (s' := { jobs := [(Job.edit, 1)], pc := .entered, wHeld := false, tasks := [{ started := false, reads := 1 }] }) .main h4 (by decide)
  have h6 := Reachable.step (s' := { jobs := [(Job.edit, 1)], pc := .beforeW, wHeld := false, tasks := [{ started := false, reads := 1 }] }) .main h5 (by decide)
  have h7 := Reachable.step (s' := { jobs := [(Job.edit, 1)], pc := .holdingW, wHeld := true, tasks := [{ started := false, reads := 1 }] }) .main h6 (by decide)
  exact Reachable.step (s' := deadState) (.task 0) h7 (by decide)

/-- the original lock order deadlocks: a document change arriving while the diagnostics task of
the previous change has not yet taken the vfs read lock -/
theorem deadlock_original :
    ∃ s, Reachable false [(Job.edit, 1), (Job.edit, 1)] s ∧ Deadlocked false s := by
  refine ⟨deadState, deadState_reachable, ?_, ?_⟩
  · intro hf
    have := hf.2.1
    simp [deadState] at this
  · intro a
    cases a with
    | main => decide
    | task i =>
      cases i with
      | zero => decide
      | succ n => simp [step, stepTask, deadState]

end Sched
end Tg
