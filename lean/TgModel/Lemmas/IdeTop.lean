/-
`Index.index` on a well-formed workspace: it returns (no panic, `Workspace.depthBound` is enough
fuel), every id in the result is valid and every location is a node range of a workspace file.
-/
import TgModel.Lemmas.IdeIndex

namespace Tg
namespace Ide
namespace Index

theorem foldl_add_sum {α : Type} (g : α → Nat) (l : List α) (a : Nat) :
    l.foldl (fun n f => n + g f) a = a + (l.map g).sum := by
  induction l generalizing a with
  | nil => simp
  | cons x xs ih => simp only [List.foldl_cons, ih, List.map_cons, List.sum_cons]; omega

theorem depthBound_eq (ws : Workspace) :
    ws.depthBound = 8 + pendingOf ws [] (List.range ws.files.size) := by
  unfold Workspace.depthBound pendingOf
  rw [← Array.foldl_toList]
  have h1 := foldl_add_sum (fun (f : FileInfo) => f.tree.height + 2) ws.files.toList 8
  simp only [← Nat.add_assoc] at h1
  rw [h1]
  congr 2
  have hfil : (List.range ws.files.size).filter (fun f => !([] : List Nat).contains f) = List.range ws.files.size := by
    simp
  rw [hfil]
  apply List.ext_getElem
  · simp
  · intro i h1 h2
    simp only [List.getElem_map, List.getElem_range, Array.getElem_toList]
    have hi : i < ws.files.size := by simpa using h1
    rw [ws.tree_of_lt hi]

/-- the root of the analysis is a `SourceFile` node (the parser always produces one) -/
structure Workspace.RootOK (ws : Workspace) : Prop where
  isNode : (ws.tree ws.root).isNode = true
  kind : (ws.tree ws.root).kind = .SourceFile

theorem Workspace.RootOK_iff (ws : Workspace) :
    Workspace.RootOK ws ↔ (ws.tree ws.root).isNode = true ∧ (ws.tree ws.root).kind = .SourceFile :=
  ⟨fun h => ⟨h.isNode, h.kind⟩, fun h => ⟨h.1, h.2⟩⟩

theorem inv_new {ws : Workspace} (hws : ws.WF) : Inv (IndexCtx.new ws) := by
  refine ⟨hws, by simp [IndexCtx.new], ?_, by simp [IndexCtx.new], ?_, ?_, ?_, ?_, ?_, ?_, ?_, ?_⟩
  · intro f hf
    simp only [IndexCtx.new, List.mem_singleton] at hf
    subst hf
    exact hws.root
  · exact ⟨.root, by simp [IndexCtx.new, Scopes.kinds], rfl⟩
  · intro s hs
    have : s = { kind := .root } := by simpa [IndexCtx.new] using hs
    subst this
    exact ⟨trivial, by intro n i hi; simp at hi⟩
  · constructor <;> simp [IndexCtx.new, SymMap.sizes]
  · constructor <;> simp [IndexCtx.new]
  · constructor <;> simp [IndexCtx.new]
  · simp [IndexCtx.new]
  · refine ⟨⟨rfl, trivial, by intro _ _ h; simp [IndexCtx.new] at h, by intro _ _ h; simp [IndexCtx.new] at h⟩,
      ?_, ?_, ?_, ?_, ?_, ?_, ?_, ?_, ?_, ?_, ?_, ?_⟩
    all_goals simp [IndexCtx.new]
  · intro s hs
    have : s = { kind := .root } := by simpa [IndexCtx.new] using hs
    subst this
    exact ⟨by intro n i hi; simp at hi, by intro _ _ h; cases h⟩

theorem clsFree_new (ws : Workspace) : clsFree (IndexCtx.new ws) := by
  intro k hk
  have : k = .root := by simpa [IndexCtx.new, Scopes.kinds] using hk
  subst this
  intro id hid
  cases hid

theorem fits_root {ws : Workspace} (hws : ws.WF) (hroot : Workspace.RootOK ws) :
    Fits (ws.depthBound + 1) (IndexCtx.new ws) (ws.tree ws.root) := by
  refine ⟨hroot.isNode, ⟨ws.root, rfl, Desc.refl _⟩, ?_, ?_⟩
  · obtain ⟨txt, ht, _⟩ := hws.tree_spans ws.root
    exact ⟨txt, ht⟩
  · have h1 := pendingOf_cons_mem ws [] ws.root (List.range ws.files.size) (by simpa using hws.root)
      List.nodup_range (by simp)
    have h2 := depthBound_eq ws
    show (ws.tree ws.root).height + pendingOf ws [ws.root] (List.range ws.files.size) ≤ _
    omega

/-- **the indexer does not panic**, and its result is well-formed -/
theorem index_ok {ws : Workspace} (hws : ws.WF) (hroot : Workspace.RootOK ws) :
    ∃ r, Index.index ws = .ok r ∧ r.symbolMap.IdsOK ∧ r.symbolMap.LocsOK ws ∧
      (∀ d ∈ r.diagnostics.toList, NodeLocR ws d.location) ∧ r.symbolMap.FilesOK := by
  unfold Index.index
  have hcast : Ast.sourceFileCast (ws.tree ws.root) = some (ws.tree ws.root) := by
    simp [Ast.sourceFileCast, hroot.isNode, hroot.kind]
  rw [hcast]
  have hI := inv_new hws
  obtain ⟨_, c', hrun, hp⟩ := indexSourceFile_spec (mkRec_ok ws.depthBound) (Post.refl hI) (clsFree_new ws)
    (fits_root hws hroot)
  have hrun' : (indexSourceFile (mkRec ws.depthBound) (ws.tree ws.root)).run (IndexCtx.new ws) = .ok ((), c') := hrun
  simp only [hrun']
  have hwseq : c'.ws = ws := hp.ext.ws
  refine ⟨_, rfl, hp.inv.ids, ?_, ?_, hp.inv.files⟩
  · have := hp.inv.locs; rwa [hwseq] at this
  · have := hp.inv.diags; rwa [hwseq] at this

/-- the hook log of the indexer: every `define` / `reference` sits on a token whose text is the name
of the symbol, references point to allocated, named symbols -/
theorem index_names {ws : Workspace} (hws : ws.WF) (hroot : Workspace.RootOK ws) {r : IndexResult}
    (hr : Index.index ws = .ok r) : r.symbolMap.NamesOK ws := by
  unfold Index.index at hr
  have hcast : Ast.sourceFileCast (ws.tree ws.root) = some (ws.tree ws.root) := by
    simp [Ast.sourceFileCast, hroot.isNode, hroot.kind]
  rw [hcast] at hr
  have hI := inv_new hws
  obtain ⟨_, c', hrun, hp⟩ := indexSourceFile_spec (mkRec_ok ws.depthBound) (Post.refl hI) (clsFree_new ws)
    (fits_root hws hroot)
  have hrun' : (indexSourceFile (mkRec ws.depthBound) (ws.tree ws.root)).run (IndexCtx.new ws) = .ok ((), c') := hrun
  simp only [hrun'] at hr
  cases hr
  have hwseq : c'.ws = ws := hp.ext.ws
  have := hp.inv.names
  rwa [hwseq] at this

end Index
end Ide
end Tg
