/- Helper lemmas about the preprocessor model: a token's text is exactly the input it swallowed,
`Eof` only at the end of input, `Error` only with a parked message. -/
import TgModel.Prep
import TgModel.Lemmas.LexLemmas

namespace Tg
namespace Src

theorem lexEat_append (s : Src) : (s.lexEat).1.text ++ (s.lexEat).2.rest = s.rest := by
  simp [lexEat, Lex.next_append]

theorem lexEat_macros (s : Src) : (s.lexEat).2.macros = s.macros := rfl
theorem lexEat_prepErr (s : Src) : (s.lexEat).2.prepErr = s.prepErr := rfl
theorem lexEat_openConds (s : Src) : (s.lexEat).2.openConds = s.openConds := rfl

theorem lexEat_eof (s : Src) : (s.lexEat).1.kind = .Eof ↔ s.rest = [] := by
  simp [lexEat, Lex.next_eof_iff]

theorem lexEat_eof_text (s : Src) (h : (s.lexEat).1.kind = .Eof) :
    (s.lexEat).1.text = [] ∧ (s.lexEat).2.rest = [] := by
  have := (lexEat_eof s).mp h
  simp [lexEat, this, Lex.next_nil]

theorem lexEat_error (s : Src) (h : (s.lexEat).1.kind = .Error) : (s.lexEat).2.lexErr.isSome = true := by
  simp only [lexEat] at h ⊢
  have := Lex.next_error_msg s.rest h
  cases he : (Lex.next s.rest).err with
  | none => simp [he] at this
  | some m => simp

theorem rev_reverseAux (t racc : List Char) : (t.reverseAux racc).reverse = racc.reverse ++ t := by
  simp [List.reverseAux_eq]

theorem nextNotTrivia_append (fuel : Nat) (s : Src) (racc : List Char) :
    (nextNotTrivia fuel s racc).1.reverse ++ (nextNotTrivia fuel s racc).2.1.text ++
      (nextNotTrivia fuel s racc).2.2.rest = racc.reverse ++ s.rest := by
  induction fuel generalizing s racc with
  | zero => simp [nextNotTrivia]
  | succ n ih =>
    simp only [nextNotTrivia]
    split
    · rw [ih, rev_reverseAux, List.append_assoc, lexEat_append]
    · simp [List.append_assoc, lexEat_append]

theorem nextNotTrivia_macros (fuel : Nat) (s : Src) (racc : List Char) :
    (nextNotTrivia fuel s racc).2.2.macros = s.macros ∧
    (nextNotTrivia fuel s racc).2.2.prepErr = s.prepErr := by
  induction fuel generalizing s racc with
  | zero => simp [nextNotTrivia]
  | succ n ih =>
    simp only [nextNotTrivia]
    split
    · have := ih (s.lexEat).2 ((s.lexEat).1.text.reverseAux racc)
      simpa [lexEat_macros, lexEat_prepErr] using this
    · simp [lexEat_macros, lexEat_prepErr]

theorem eatUntil_append (fuel depth : Nat) (s : Src) (racc : List Char) :
    (eatUntil fuel depth s racc).1.reverse ++ (eatUntil fuel depth s racc).2.1.rest = racc.reverse ++ s.rest := by
  induction fuel generalizing depth s racc with
  | zero => simp [eatUntil]
  | succ n ih =>
    have key : ((s.lexEat).1.text.reverseAux racc).reverse ++ (s.lexEat).2.rest = racc.reverse ++ s.rest := by
      rw [rev_reverseAux, List.append_assoc, lexEat_append]
    simp only [eatUntil]
    split
    · rw [ih]; exact key
    · rw [ih]; exact key
    · split
      · rw [ih]; exact key
      · exact key
    · split
      · exact key
      · rw [ih]; exact key
    · exact key
    · rw [ih]; exact key

@[simp] theorem error_rest (s : Src) (m : String) : (s.error m).rest = s.rest := rfl
@[simp] theorem error_macros (s : Src) (m : String) : (s.error m).macros = s.macros := rfl
@[simp] theorem error_openConds (s : Src) (m : String) : (s.error m).openConds = s.openConds := rfl
@[simp] theorem error_prepErr (s : Src) (m : String) : (s.error m).prepErr = some m := rfl
/-- `PreProcessor::error` leaves no lexer message behind -/
@[simp] theorem error_lexErr (s : Src) (m : String) : (s.error m).lexErr = none := rfl

@[simp] theorem afterSkip_rest (s : Src) (e : SkipEnd) : (afterSkip s e).rest = s.rest := by
  unfold afterSkip; split <;> rfl
@[simp] theorem afterSkip_macros (s : Src) (e : SkipEnd) : (afterSkip s e).macros = s.macros := by
  unfold afterSkip; split <;> rfl
@[simp] theorem afterSkip_openConds (s : Src) (e : SkipEnd) : (afterSkip s e).openConds = s.openConds := by
  unfold afterSkip; split <;> rfl
/-- after a skip no lexical message is parked: lexical errors of skipped text are dropped -/
@[simp] theorem afterSkip_lexErr (s : Src) (e : SkipEnd) : (afterSkip s e).lexErr = none := by
  unfold afterSkip; split <;> rfl
@[simp] theorem reopen_rest (s : Src) (e : SkipEnd) : (reopen s e).rest = s.rest := by
  unfold reopen; split <;> rfl
@[simp] theorem reopen_macros (s : Src) (e : SkipEnd) : (reopen s e).macros = s.macros := by
  unfold reopen; split <;> rfl
@[simp] theorem reopen_lexErr (s : Src) (e : SkipEnd) : (reopen s e).lexErr = s.lexErr := by
  unfold reopen; split <;> rfl
@[simp] theorem reopen_prepErr (s : Src) (e : SkipEnd) : (reopen s e).prepErr = s.prepErr := by
  unfold reopen; split <;> rfl

@[simp] theorem atEof_rest (s : Src) : (atEof s).rest = s.rest := by
  unfold atEof; split <;> rfl
@[simp] theorem atEof_macros (s : Src) : (atEof s).macros = s.macros := by
  unfold atEof; split <;> rfl
/-- a message parked by the `Eof` arm is the only parked message -/
theorem atEof_lexErr (s : Src) (h : s.lexErr = none) : (atEof s).lexErr = none := by
  unfold atEof; split
  · rfl
  · exact h

theorem skipCond_append (fuel : Nat) (s : Src) (racc : List Char) :
    (skipCond fuel s racc).1.reverse ++ (skipCond fuel s racc).2.1.rest = racc.reverse ++ s.rest := by
  simp only [skipCond, afterSkip_rest]; exact eatUntil_append fuel 1 s racc

theorem skipCond_lexErr (fuel : Nat) (s : Src) (racc : List Char) :
    (skipCond fuel s racc).2.1.lexErr = none := by
  simp [skipCond]

theorem processIf_append (b : Bool) (d : Tok) (s : Src) :
    (processIf b d s).1.text ++ (processIf b d s).2.rest = d.text ++ s.rest := by
  have h := nextNotTrivia_append (fuelOf s) s d.text.reverse
  simp only [List.reverse_reverse, List.append_assoc] at h
  unfold processIf
  simp only []
  split
  · split
    · simp only [reopen_rest]
      rw [skipCond_append, rev_reverseAux, List.append_assoc]; exact h
    · simp only [List.reverse_reverse, rev_reverseAux, List.append_assoc]; exact h
  · simp only [List.reverse_reverse, rev_reverseAux, List.append_assoc]; exact h

theorem processDefine_append (d : Tok) (s : Src) :
    (processDefine d s).1.text ++ (processDefine d s).2.rest = d.text ++ s.rest := by
  have h := nextNotTrivia_append (fuelOf s) s d.text.reverse
  simp only [List.reverse_reverse, List.append_assoc] at h
  unfold processDefine
  simp only []
  split
  · simp only [List.reverse_reverse, rev_reverseAux, List.append_assoc]; exact h
  · simp only [List.reverse_reverse, rev_reverseAux, List.append_assoc]; exact h

/-- C01 (preprocessor part): the text of the delivered token followed by the remaining input is
the input before the call — also when the token swallowed a whole disabled region. -/
theorem eat_append (s : Src) : (s.eat).1.text ++ (s.eat).2.rest = s.rest := by
  have hl := lexEat_append s
  unfold eat
  cases hle : s.lexEat with
  | mk t s1 =>
    rw [hle] at hl
    simp only [] at hl ⊢
    split
    · rw [processIf_append]; exact hl
    · rw [processIf_append]; exact hl
    · simp only [reopen_rest]
      rw [skipCond_append, List.reverse_reverse]; exact hl
    · exact hl
    · rw [processDefine_append]; exact hl
    · simp only [atEof_rest]; exact hl
    · exact hl

theorem processIf_kind (b : Bool) (d : Tok) (s : Src) :
    (processIf b d s).1.kind = .PreProcessor ∨
    ((processIf b d s).1.kind = .Error ∧ (processIf b d s).2.prepErr.isSome = true) := by
  unfold processIf
  simp only []
  split
  · split <;> simp
  · simp

theorem processDefine_kind (d : Tok) (s : Src) :
    (processDefine d s).1.kind = .PreProcessor ∨
    ((processDefine d s).1.kind = .Error ∧ (processDefine d s).2.prepErr.isSome = true) := by
  unfold processDefine
  simp only []
  split <;> simp

/-- `Eof` is delivered only at the end of input, with empty text. -/
theorem eat_eof (s : Src) (h : (s.eat).1.kind = .Eof) : (s.eat).1.text = [] ∧ (s.eat).2.rest = [] := by
  unfold eat at h ⊢
  have he := lexEat_eof_text s
  cases hle : s.lexEat with
  | mk t s1 =>
    rw [hle] at h he
    simp only [] at h he ⊢
    split at h
    · rcases processIf_kind true t s1 with h1 | ⟨h1, _⟩ <;> simp [h1] at h
    · rcases processIf_kind false t s1 with h1 | ⟨h1, _⟩ <;> simp [h1] at h
    · simp at h
    · simp at h
    · rcases processDefine_kind t s1 with h1 | ⟨h1, _⟩ <;> simp [h1] at h
    · simp only [atEof_rest]; exact he h
    · exact he h

/-- C02 (1b): whenever the token source delivers `Error`, `take_error` will find a message. -/
theorem eat_error (s : Src) (h : (s.eat).1.kind = .Error) :
    (s.eat).2.prepErr.isSome = true ∨ (s.eat).2.lexErr.isSome = true := by
  unfold eat at h ⊢
  have he := lexEat_error s
  cases hle : s.lexEat with
  | mk t s1 =>
    rw [hle] at h he
    simp only [] at h he ⊢
    split
    · rcases processIf_kind true t s1 with h1 | ⟨_, h2⟩
      · rename_i hk; simp [hk, h1] at h
      · exact Or.inl h2
    · rcases processIf_kind false t s1 with h1 | ⟨_, h2⟩
      · rename_i hk; simp [hk, h1] at h
      · exact Or.inl h2
    · rename_i hk; simp [hk] at h
    · rename_i hk; simp [hk] at h
    · rcases processDefine_kind t s1 with h1 | ⟨_, h2⟩
      · rename_i hk; simp [hk, h1] at h
      · exact Or.inl h2
    · rename_i hk; simp [hk] at h
    · rename_i h1 h2 h3 h4 h5 h6
      have : t.kind = .Error := by
        split at h
        · exact absurd ‹_› h1
        · exact absurd ‹_› h2
        · exact absurd ‹_› h3
        · exact absurd ‹_› h4
        · exact absurd ‹_› h5
        · exact absurd ‹_› h6
        · exact h
      exact Or.inr (he this)

theorem nextNotTrivia_len (fuel : Nat) (s : Src) (racc : List Char) :
    racc.length ≤ (nextNotTrivia fuel s racc).1.length := by
  induction fuel generalizing s racc with
  | zero => simp [nextNotTrivia]
  | succ n ih =>
    simp only [nextNotTrivia]
    split
    · have := ih (s.lexEat).2 ((s.lexEat).1.text.reverseAux racc)
      simp [List.reverseAux_eq] at this ⊢; omega
    · simp

theorem eatUntil_len (fuel d : Nat) (s : Src) (racc : List Char) :
    racc.length ≤ (eatUntil fuel d s racc).1.length := by
  induction fuel generalizing d s racc with
  | zero => simp [eatUntil]
  | succ n ih =>
    have step : ∀ d, racc.length ≤ (eatUntil n d (s.lexEat).2 ((s.lexEat).1.text.reverseAux racc)).1.length := by
      intro d
      have := ih d (s.lexEat).2 ((s.lexEat).1.text.reverseAux racc)
      simp [List.reverseAux_eq] at this ⊢; omega
    have base : racc.length ≤ ((s.lexEat).1.text.reverseAux racc).length := by
      simp [List.reverseAux_eq]
    simp only [eatUntil]
    split
    · exact step _
    · exact step _
    · split
      · exact step _
      · exact base
    · split
      · exact base
      · exact step _
    · exact base
    · exact step _

theorem skipCond_len (fuel : Nat) (s : Src) (racc : List Char) :
    racc.length ≤ (skipCond fuel s racc).1.length := eatUntil_len fuel 1 s racc

theorem len_reverseAux (t racc : List Char) : (t.reverseAux racc).length = t.length + racc.length := by
  simp [List.reverseAux_eq]

theorem processIf_text_len (b : Bool) (d : Tok) (s : Src) : d.text.length ≤ (processIf b d s).1.text.length := by
  unfold processIf
  have h1 := nextNotTrivia_len (fuelOf s) s d.text.reverse
  simp only [List.length_reverse] at h1
  simp only []
  split
  · split
    · have := skipCond_len (fuelOf (nextNotTrivia (fuelOf s) s d.text.reverse).2.2) (nextNotTrivia (fuelOf s) s d.text.reverse).2.2
        ((nextNotTrivia (fuelOf s) s d.text.reverse).2.1.text.reverseAux (nextNotTrivia (fuelOf s) s d.text.reverse).1)
      simp only [len_reverseAux] at this
      simp only [List.length_reverse]
      exact Nat.le_trans h1 (Nat.le_trans (Nat.le_add_left _ _) this)
    · simp only [List.length_reverse, len_reverseAux]; omega
  · simp only [List.length_reverse, len_reverseAux]; omega

theorem processDefine_text_len (d : Tok) (s : Src) : d.text.length ≤ (processDefine d s).1.text.length := by
  unfold processDefine
  have h1 := nextNotTrivia_len (fuelOf s) s d.text.reverse
  simp only [List.length_reverse] at h1
  simp only []
  split <;> (simp only [List.length_reverse, len_reverseAux]; omega)

/-- every delivered non-`Eof` token has non-empty text (so consuming it makes progress) -/
theorem eat_text_ne_nil (s : Src) (h : (s.eat).1.kind ≠ .Eof) : (s.eat).1.text ≠ [] := by
  unfold eat at h ⊢
  have hne : (s.lexEat).1.kind ≠ .Eof → (s.lexEat).1.text ≠ [] := by
    intro hk
    have : s.rest ≠ [] := fun hr => hk ((lexEat_eof s).mpr hr)
    simpa [lexEat] using Lex.next_text_ne_nil s.rest this
  cases hle : s.lexEat with
  | mk t s1 =>
    rw [hle] at h hne
    simp only [] at h hne ⊢
    have lenpos : ∀ (l : List Char), 0 < l.length → l ≠ [] := fun l hl => List.length_pos_iff.mp hl
    split
    · rename_i hk
      have ht : 0 < t.text.length := List.length_pos_iff.mpr (hne (by rw [hk]; simp))
      apply lenpos; have := processIf_text_len true t s1; omega
    · rename_i hk
      have ht : 0 < t.text.length := List.length_pos_iff.mpr (hne (by rw [hk]; simp))
      apply lenpos; have := processIf_text_len false t s1; omega
    · rename_i hk
      have ht : 0 < t.text.length := List.length_pos_iff.mpr (hne (by rw [hk]; simp))
      apply lenpos
      have := skipCond_len (fuelOf s1) { s1 with openConds := s1.openConds - 1 } t.text.reverse
      simp only [List.length_reverse] at this ⊢; omega
    · rename_i hk
      exact hne (by rw [hk]; simp)
    · rename_i hk
      have ht : 0 < t.text.length := List.length_pos_iff.mpr (hne (by rw [hk]; simp))
      apply lenpos; have := processDefine_text_len t s1; omega
    · rename_i hk; simp [hk] at h
    · rename_i h1 h2 h3 h4 h5 h6
      apply hne
      split at h
      · exact absurd ‹_› h1
      · exact absurd ‹_› h2
      · exact absurd ‹_› h3
      · exact absurd ‹_› h4
      · exact absurd ‹_› h5
      · exact absurd ‹_› h6
      · exact h

theorem takeError_some (s : Src) (h : s.prepErr.isSome = true ∨ s.lexErr.isSome = true) :
    ∃ m s', s.takeError = (some m, s') ∧ s'.rest = s.rest := by
  unfold takeError
  cases hp : s.prepErr with
  | some m => exact ⟨m, _, rfl, rfl⟩
  | none =>
    simp [hp] at h
    cases hl : s.lexErr with
    | some m => exact ⟨m, _, rfl, rfl⟩
    | none => simp [hl] at h

end Src
end Tg
