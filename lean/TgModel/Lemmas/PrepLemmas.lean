/- Helper lemmas about the preprocessor model: a token's text is exactly the input it swallowed,
`Eof` only at the end of input, `Error` only with a parked message. -/
import TgModel.Prep
import TgModel.Lemmas.LexLemmas

namespace Tg
namespace Src

theorem lexEat_append (s : Src) : (s.lexEat).1.text ++ (s.lexEat).2.rest = s.rest := by
  simp [lexEat, Lex.next_append]

theorem lexEat_macros (s : Src) : (s.lexEat).2.macros = s.macros := rfl
theorem lexEat_prepErr (s : Src) : (s.lexEat).2.prepErr = s.prepErr := rfl

theorem lexEat_eof (s : Src) : (s.lexEat).1.kind = .Eof ↔ s.rest = [] := by
  simp [lexEat, Lex.next_eof_iff]

theorem lexEat_eof_text (s : Src) (h : (s.lexEat).1.kind = .Eof) :
    (s.lexEat).1.text = [] ∧ (s.lexEat).2.rest = [] := by
  have := (lexEat_eof s).mp h
  simp [lexEat, this, Lex.next_nil]

theorem lexEat_error (s : Src) (h : (s.lexEat).1.kind = .Error) : (s.lexEat).2.lexErr.isSome = true := by
  simp only [lexEat] at h ⊢
  have := Lex.next_error_msg s.rest h
  cases he : (Lex.next s.rest).err with
  | none => simp [he] at this
  | some m => simp

theorem rev_reverseAux (t racc : List Char) : (t.reverseAux racc).reverse = racc.reverse ++ t := by
  simp [List.reverseAux_eq]

theorem nextNotTrivia_append (fuel : Nat) (s : Src) (racc : List Char) :
    (nextNotTrivia fuel s racc).1.reverse ++ (nextNotTrivia fuel s racc).2.1.text ++
      (nextNotTrivia fuel s racc).2.2.rest = racc.reverse ++ s.rest := by
  induction fuel generalizing s racc with
  | zero => simp [nextNotTrivia]
  | succ n ih =>
    simp only [nextNotTrivia]
    split
    · rw [ih, rev_reverseAux, List.append_assoc, lexEat_append]
    · simp [List.append_assoc, lexEat_append]

theorem nextNotTrivia_macros (fuel : Nat) (s : Src) (racc : List Char) :
    (nextNotTrivia fuel s racc).2.2.macros = s.macros ∧
    (nextNotTrivia fuel s racc).2.2.prepErr = s.prepErr := by
  induction fuel generalizing s racc with
  | zero => simp [nextNotTrivia]
  | succ n ih =>
    simp only [nextNotTrivia]
    split
    · have := ih (s.lexEat).2 ((s.lexEat).1.text.reverseAux racc)
      simpa [lexEat_macros, lexEat_prepErr] using this
    · simp [lexEat_macros, lexEat_prepErr]

theorem eatUntil_append (fuel depth : Nat) (s : Src) (racc : List Char) :
    (eatUntil fuel depth s racc).1.reverse ++ (eatUntil fuel depth s racc).2.rest = racc.reverse ++ s.rest := by
  induction fuel generalizing depth s racc with
  | zero => simp [eatUntil]
  | succ n ih =>
    have key : ((s.lexEat).1.text.reverseAux racc).reverse ++ (s.lexEat).2.rest = racc.reverse ++ s.rest := by
      rw [rev_reverseAux, List.append_assoc, lexEat_append]
    simp only [eatUntil]
    split
    · rw [ih]; exact key
    · rw [ih]; exact key
    · split
      · rw [ih]; exact key
      · exact key
    · split
      · exact key
      · rw [ih]; exact key
    · exact key
    · rw [ih]; exact key

theorem processIf_append (b : Bool) (d : Tok) (s : Src) :
    (processIf b d s).1.text ++ (processIf b d s).2.rest = d.text ++ s.rest := by
  have h := nextNotTrivia_append (fuelOf s) s d.text.reverse
  simp only [List.reverse_reverse, List.append_assoc] at h
  unfold processIf
  simp only []
  split
  · split
    · simp only [List.reverse_reverse]
      rw [eatUntil_append, rev_reverseAux, List.append_assoc]; exact h
    · simp only [List.reverse_reverse, rev_reverseAux, List.append_assoc]; exact h
  · simp only [List.reverse_reverse, rev_reverseAux, List.append_assoc]; exact h

theorem processDefine_append (d : Tok) (s : Src) :
    (processDefine d s).1.text ++ (processDefine d s).2.rest = d.text ++ s.rest := by
  have h := nextNotTrivia_append (fuelOf s) s d.text.reverse
  simp only [List.reverse_reverse, List.append_assoc] at h
  unfold processDefine
  simp only []
  split
  · simp only [List.reverse_reverse, rev_reverseAux, List.append_assoc]; exact h
  · simp only [List.reverse_reverse, rev_reverseAux, List.append_assoc]; exact h

/-- C01 (preprocessor part): the text of the delivered token followed by the remaining input is
the input before the call — also when the token swallowed a whole disabled region. -/
theorem eat_append (s : Src) : (s.eat).1.text ++ (s.eat).2.rest = s.rest := by
  have hl := lexEat_append s
  unfold eat
  cases hle : s.lexEat with
  | mk t s1 =>
    rw [hle] at hl
    simp only [] at hl ⊢
    split
    · rw [processIf_append]; exact hl
    · rw [processIf_append]; exact hl
    · simp only []
      rw [eatUntil_append, List.reverse_reverse]; exact hl
    · exact hl
    · rw [processDefine_append]; exact hl
    · exact hl

theorem processIf_kind (b : Bool) (d : Tok) (s : Src) :
    (processIf b d s).1.kind = .PreProcessor ∨
    ((processIf b d s).1.kind = .Error ∧ (processIf b d s).2.prepErr.isSome = true) := by
  unfold processIf
  simp only []
  split
  · split <;> simp
  · simp

theorem processDefine_kind (d : Tok) (s : Src) :
    (processDefine d s).1.kind = .PreProcessor ∨
    ((processDefine d s).1.kind = .Error ∧ (processDefine d s).2.prepErr.isSome = true) := by
  unfold processDefine
  simp only []
  split <;> simp

/-- `Eof` is delivered only at the end of input, with empty text. -/
theorem eat_eof (s : Src) (h : (s.eat).1.kind = .Eof) : (s.eat).1.text = [] ∧ (s.eat).2.rest = [] := by
  unfold eat at h ⊢
  have he := lexEat_eof_text s
  cases hle : s.lexEat with
  | mk t s1 =>
    rw [hle] at h he
    simp only [] at h he ⊢
    split at h
    · rcases processIf_kind true t s1 with h1 | ⟨h1, _⟩ <;> simp [h1] at h
    · rcases processIf_kind false t s1 with h1 | ⟨h1, _⟩ <;> simp [h1] at h
    · simp at h
    · simp at h
    · rcases processDefine_kind t s1 with h1 | ⟨h1, _⟩ <;> simp [h1] at h
    · exact he h

/-- C02 (1b): whenever the token source delivers `Error`, `take_error` will find a message. -/
theorem eat_error (s : Src) (h : (s.eat).1.kind = .Error) :
    (s.eat).2.prepErr.isSome = true ∨ (s.eat).2.lexErr.isSome = true := by
  unfold eat at h ⊢
  have he := lexEat_error s
  cases hle : s.lexEat with
  | mk t s1 =>
    rw [hle] at h he
    simp only [] at h he ⊢
    split
    · rcases processIf_kind true t s1 with h1 | ⟨_, h2⟩
      · rename_i hk; simp [hk, h1] at h
      · exact Or.inl h2
    · rcases processIf_kind false t s1 with h1 | ⟨_, h2⟩
      · rename_i hk; simp [hk, h1] at h
      · exact Or.inl h2
    · rename_i hk; simp [hk] at h
    · rename_i hk; simp [hk] at h
    · rcases processDefine_kind t s1 with h1 | ⟨_, h2⟩
      · rename_i hk; simp [hk, h1] at h
      · exact Or.inl h2
    · rename_i h1 h2 h3 h4 h5
      have : t.kind = .Error := by
        split at h
        · exact absurd ‹_› h1
        · exact absurd ‹_› h2
        · exact absurd ‹_› h3
        · exact absurd ‹_› h4
        · exact absurd ‹_› h5
        · exact h
      exact Or.inr (he this)

theorem takeError_some (s : Src) (h : s.prepErr.isSome = true ∨ s.lexErr.isSome = true) :
    ∃ m s', s.takeError = (some m, s') ∧ s'.rest = s.rest := by
  unfold takeError
  cases hp : s.prepErr with
  | some m => exact ⟨m, _, rfl, rfl⟩
  | none =>
    simp [hp] at h
    cases hl : s.lexErr with
    | some m => exact ⟨m, _, rfl, rfl⟩
    | none => simp [hl] at h

end Src
end Tg
