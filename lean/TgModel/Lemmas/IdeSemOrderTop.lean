/-
Source order of the outline, part 4: the name-order facts on the annotated trees of a workspace, and
the final theorem: the outline symbols of every file are registered in source order.
-/
import TgModel.Lemmas.IdeSemNameOrder
import TgModel.Lemmas.IdeSemOrderSpec
import TgModel.Lemmas.IdeSemShapeTree
namespace Tg
namespace Ide
open Tg.NameOrder

theorem annotL_append : ∀ (a b : List Tree) (pos : Nat), ∃ pos', annotL (a ++ b) pos = annotL a pos ++ annotL b pos'
  | [], b, pos => ⟨pos, by simp [annotL]⟩
  | x :: a, b, pos => by
    obtain ⟨pos', h⟩ := annotL_append a b (ofTreeAt x pos).2
    exact ⟨pos', by simp [annotL, h]⟩

theorem annot_isSL (u : Tree) (p : Nat) :
    ((ofTreeAt u p).1.isNode && Ast.is .StatementList (ofTreeAt u p).1.kind) = isSL u := by
  obtain ⟨h1, h2⟩ := ofTreeAt_kind u p
  rw [h1, h2]
  cases u with
  | token k t => rfl
  | node k cs => cases k <;> rfl

theorem annot_isIdent (u : Tree) (p : Nat) :
    ((ofTreeAt u p).1.isNode && Ast.is .Identifier (ofTreeAt u p).1.kind) = isIdent u := by
  obtain ⟨h1, h2⟩ := ofTreeAt_kind u p
  rw [h1, h2]
  cases u with
  | token k t => rfl
  | node k cs => cases k <;> rfl

theorem annotL_noSL : ∀ (l : List Tree) (pos : Nat), noSL l →
    ∀ c ∈ annotL l pos, (c.isNode && Ast.is .StatementList c.kind) = false
  | [], _, _, c, hc => by simp [annotL] at hc
  | x :: t, pos, h, c, hc => by
    simp only [annotL, List.mem_cons] at hc
    rcases hc with rfl | hc
    · rw [annot_isSL]; exact h x List.mem_cons_self
    · exact annotL_noSL t _ (fun y hy => h y (List.mem_cons_of_mem _ hy)) c hc

theorem children_pairwise {n : PTree} (h : n.WF) :
    n.children.toList.Pairwise fun a b => a.stop ≤ b.start := by
  by_cases hn : n.isNode = true
  · have ht := h.tiles hn
    have hle := h.children_le
    rw [List.pairwise_iff_getElem]
    intro i j hi hj hij
    exact ht.ordered hle hij (List.getElem?_eq_getElem hi) (List.getElem?_eq_getElem hj)
  · cases n with
    | token => simp [PTree.children]
    | node => simp [PTree.isNode] at hn

theorem nameOrdAt_of_nameFirst (k : SyntaxKind) (cs : List Tree) (pos : Nat) (h : nameFirstL cs) :
    NameOrdAt (ofTreeAt (.node k cs) pos).1 := by
  intro _ nm sl hnm hsl
  obtain ⟨pre, x, post, rfl, hx, hpre⟩ := h
  have hwf := (ofTreeAt_wf (.node k (pre ++ x :: post)) pos).1
  have hpw := children_pairwise hwf
  have hch := ofTreeAt_node_children k (pre ++ x :: post) pos
  obtain ⟨p1, e1⟩ := annotL_append pre (x :: post) pos
  rw [e1] at hch
  simp only [annotL] at hch
  rw [hch] at hpw
  unfold Ast.child at hnm hsl
  rw [← Array.find?_toList, hch] at hnm hsl
  -- the statement list is found after the identifier
  have hslC : sl ∈ annotL post (ofTreeAt x p1).2 := by
    rw [List.find?_append] at hsl
    have hA : (annotL pre pos).find? (fun c => c.isNode && Ast.is .StatementList c.kind) = none := by
      rw [List.find?_eq_none]
      intro c hc
      simp [annotL_noSL pre pos hpre c hc]
    rw [hA] at hsl
    simp only [Option.none_or, List.find?_cons] at hsl
    have hX : ((ofTreeAt x p1).1.isNode && Ast.is .StatementList (ofTreeAt x p1).1.kind) = false := by
      rw [annot_isSL]
      cases x with
      | token => rfl
      | node k' cs' => cases k' <;> simp_all [isIdent, isSL]
    rw [hX] at hsl
    exact List.mem_of_find?_eq_some hsl
  have hnmAX : nm ∈ annotL pre pos ++ [(ofTreeAt x p1).1] := by
    rw [List.find?_append] at hnm
    cases hA : (annotL pre pos).find? (fun c => c.isNode && Ast.is .Identifier c.kind) with
    | some a =>
      rw [hA] at hnm
      simp only [Option.some_or, Option.some.injEq] at hnm
      subst hnm
      exact List.mem_append_left _ (List.mem_of_find?_eq_some hA)
    | none =>
      rw [hA] at hnm
      simp only [Option.none_or, List.find?_cons] at hnm
      have hX : ((ofTreeAt x p1).1.isNode && Ast.is .Identifier (ofTreeAt x p1).1.kind) = true := by
        rw [annot_isIdent]; exact hx
      rw [hX] at hnm
      simp only [Option.some.injEq] at hnm
      subst hnm
      simp
  have : (annotL pre pos ++ (ofTreeAt x p1).1 :: annotL post (ofTreeAt x p1).2) =
      (annotL pre pos ++ [(ofTreeAt x p1).1]) ++ annotL post (ofTreeAt x p1).2 := by simp
  rw [this, List.pairwise_append] at hpw
  exact hpw.2.2 nm hnmAX sl hslC

theorem ofTreeAt_nameOrd : ∀ (t : Tree), orderedT t → ∀ pos, NameOrd (ofTreeAt t pos).1 := by
  intro t
  induction t using Tree.rec (motive_2 := fun ts => orderedL ts → ∀ pos, ∀ c ∈ annotL ts pos, NameOrd c) with
  | node k cs ih =>
    intro h pos
    simp only [orderedT_node] at h
    refine NameOrd.mk _ ?_ ?_
    · intro hk
      have hkind := (ofTreeAt_kind (.node k cs) pos).1
      have hg : guarded k = true := by
        rw [hkind] at hk
        rcases hk with rfl | rfl <;> rfl
      exact nameOrdAt_of_nameFirst k cs pos (h.1 hg) hk
    · intro c hc
      rw [ofTreeAt_node_children] at hc
      exact ih h.2 pos c hc
  | token k txt =>
    intro _ pos
    refine NameOrd.mk _ ?_ ?_
    · intro hk nm sl hnm
      simp [Ast.child, ofTreeAt, PTree.children] at hnm
    · intro c hc
      simp [ofTreeAt_token_children] at hc
  | nil => rename_i hc; simp [annotL] at hc
  | cons t ts iht ihts =>
    rename_i h pos c hc
    simp only [orderedL_cons] at h
    simp only [annotL, List.mem_cons] at hc
    rcases hc with rfl | hc
    · exact iht h.1 pos
    · exact ihts h.2 _ c hc

theorem parseFile_shaped {text : String} {t : PTree} {errs : List SynError}
    (h : parseFile text = .ok (t, errs)) : Shaped t := by
  have hwf := parseFile_wf h
  unfold parseFile at h
  split at h
  · rename_i r hr
    cases h
    exact ⟨hwf, ofTreeAt_nameOrd _ (parse_ordered _ _ hr) 0⟩
  · cases h
  · cases h

theorem defaultTree_shaped : Shaped (PTree.node .SourceFile 0 0 1 #[]) :=
  ⟨defaultTree_wf, NameOrd.mk _ (fun hk => by simp [PTree.kind] at hk) (fun c hc => by simp [PTree.children] at hc)⟩

/-- every tree of a workspace built by `buildWorkspace` has consistent offsets and its names before
its bodies -/
theorem buildWorkspace_shaped {vfs : List (String × String)} {rootPath : String} {inc : Option String}
    {ws : Workspace} (h : buildWorkspace vfs rootPath inc = .ok ws) : ∀ id, Shaped (ws.tree id) :=
  buildWorkspace_treesP (P := Shaped) parseFile_shaped defaultTree_shaped h

theorem fileList_empty (f : Nat) : fileList {} f = [] := by
  simp [fileList, SymMap.iterSymbolsInFile]

theorem oInv_new (ws : Workspace) : OInv (IndexCtx.new ws) :=
  ⟨fun f s hs => by simp [IndexCtx.new, fileList_empty] at hs,
   fun f => by simp [olocs, IndexCtx.new, fileList_empty, SortedLocs],
   fun f _ => by simp [olocs, IndexCtx.new, fileList_empty],
   fun f hf => by simpa [IndexCtx.new] using hf⟩

/-- **source order**: after indexing a workspace built by `buildWorkspace`, the outline symbols
(classes, named defs, defsets, multiclasses) in each file's symbol list are in source order: the
declaring identifier of each one ends before the declaring identifier of the next one starts -/
theorem outline_sorted {vfs : List (String × String)} {rootPath : String} {inc : Option String}
    {ws : Workspace} (hws : buildWorkspace vfs rootPath inc = .ok ws) (res : Index.IndexResult)
    (h : Index.index ws = .ok res) (f : Nat) : SortedLocs (olocs res.symbolMap f) := by
  have hall := buildWorkspace_shaped hws
  unfold Index.index at h
  split at h
  · cases h
  · rename_i sf hsf
    split at h
    · cases h
    · rename_i u ctx hrun
      cases h
      have hsfs : Shaped sf := by rw [sourceFileCast_eq hsf]; exact hall _
      have hp0 : PAt ws (IndexCtx.new ws) ws.root [] sf.start (IndexCtx.new ws) :=
        ⟨rfl, rfl, oInv_new ws, by simp [olocs, IndexCtx.new, fileList_empty, LocsBelow], fun _ hg => hg,
          fun _ _ _ => rfl⟩
      have := (indexSourceFile_o (mkRec_o hall ws.depthBound) hall sf hsfs (IndexCtx.new ws) ws.root []).run
        _ _ _ hp0 hrun
      exact this.inv.sorted f


end Ide
end Tg
