/-
The invariant of the indexer state (`Inv`), the extension preorder between states (`Ext`), and
their preservation by the `SymMap` mutators.

* id-validity (`IdsOK`): every id stored in an arena entry, a name map, a per-file symbol list, the
  allocation table or a scope is below the size of the arena it indexes — the Rust
  `expect("invalid … id")` sites (`[id]!` in the model) are never reached with a bad id;
* loc-validity (`LocsOK`): every stored location (define locs, hook log, diagnostics) is the range
  of a node or token of the tree of a workspace file (C17);
* names (`NamesOK`, C06): the hook log counts allocations like `gidToSym`, references point to
  earlier allocations, every `define` / `reference` sits on a token whose text is the name of the
  symbol (`HookLogOK`); every template argument, field, variable, defset, multiclass — and every
  record a name map knows — was logged under its name (`Named`); the keys of the name maps, of the
  per-record / per-multiclass maps and of the scope variable maps (`ScopeNm`) are the names of the
  entries they point to.  `Grow` also says that existing entries keep their name and allocation
  index and that the log is only appended to (`GrowN`).
-/
import TgModel.Lemmas.IdeTree
import TgModel.Lemmas.IdeMonad
import TgModel.Lemmas.IdeNames

namespace Tg
namespace Ide

/-! ### arena sizes -/

structure Sizes where
  recs : Nat
  tas : Nat
  flds : Nat
  vars : Nat
  dss : Nat
  mcs : Nat
  dms : Nat

def SymMap.sizes (sm : SymMap) : Sizes :=
  ⟨sm.recordList.size, sm.templateArgList.size, sm.recordFieldList.size, sm.variableList.size,
   sm.defsetList.size, sm.multiclassList.size, sm.defmList.size⟩

structure Sizes.le (a b : Sizes) : Prop where
  recs : a.recs ≤ b.recs
  tas : a.tas ≤ b.tas
  flds : a.flds ≤ b.flds
  vars : a.vars ≤ b.vars
  dss : a.dss ≤ b.dss
  mcs : a.mcs ≤ b.mcs
  dms : a.dms ≤ b.dms

instance : LE Sizes := ⟨Sizes.le⟩

theorem Sizes.le_refl (a : Sizes) : a ≤ a :=
  ⟨Nat.le_refl _, Nat.le_refl _, Nat.le_refl _, Nat.le_refl _, Nat.le_refl _, Nat.le_refl _, Nat.le_refl _⟩

theorem Sizes.le_trans {a b c : Sizes} (h1 : a ≤ b) (h2 : b ≤ c) : a ≤ c :=
  ⟨Nat.le_trans h1.recs h2.recs, Nat.le_trans h1.tas h2.tas, Nat.le_trans h1.flds h2.flds,
   Nat.le_trans h1.vars h2.vars, Nat.le_trans h1.dss h2.dss, Nat.le_trans h1.mcs h2.mcs,
   Nat.le_trans h1.dms h2.dms⟩

/-! ### id validity -/

def SymOK (z : Sizes) : SymbolId → Prop
  | .record i => i < z.recs
  | .templateArgument i => i < z.tas
  | .recordField i => i < z.flds
  | .var i => i < z.vars
  | .defset i => i < z.dss
  | .multiclass i => i < z.mcs
  | .defm i => i < z.dms

theorem SymOK.mono {a b : Sizes} (h : a ≤ b) {s : SymbolId} (hs : SymOK a s) : SymOK b s := by
  cases s <;> simp only [SymOK] at * <;> first
    | exact Nat.lt_of_lt_of_le hs h.recs | exact Nat.lt_of_lt_of_le hs h.tas
    | exact Nat.lt_of_lt_of_le hs h.flds | exact Nat.lt_of_lt_of_le hs h.vars
    | exact Nat.lt_of_lt_of_le hs h.dss | exact Nat.lt_of_lt_of_le hs h.mcs
    | exact Nat.lt_of_lt_of_le hs h.dms

structure RecordOK (z : Sizes) (r : Record) : Prop where
  tas : ∀ e ∈ r.nameToTemplateArg.toList, e.2 < z.tas
  flds : ∀ e ∈ r.nameToRecordField.toList, e.2 < z.flds
  parents : ∀ p ∈ r.parentList.toList, p < z.recs

def FieldOK (z : Sizes) (f : RecordField) : Prop := f.parent < z.recs

def DefsetOK (z : Sizes) (d : Defset) : Prop := ∀ x ∈ d.defList.toList, x < z.recs

structure MulticlassOK (z : Sizes) (m : Multiclass) : Prop where
  tas : ∀ e ∈ m.nameToTemplateArg.toList, e.2 < z.tas
  parents : ∀ p ∈ m.parentList.toList, p < z.mcs

def DefmOK (z : Sizes) (d : Defm) : Prop := ∀ p ∈ d.parentList.toList, p < z.mcs

theorem RecordOK.mono {a b : Sizes} (h : a ≤ b) {r : Record} (hr : RecordOK a r) : RecordOK b r :=
  ⟨fun e he => Nat.lt_of_lt_of_le (hr.tas e he) h.tas, fun e he => Nat.lt_of_lt_of_le (hr.flds e he) h.flds,
   fun p hp => Nat.lt_of_lt_of_le (hr.parents p hp) h.recs⟩

theorem FieldOK.mono {a b : Sizes} (h : a ≤ b) {f : RecordField} (hf : FieldOK a f) : FieldOK b f :=
  Nat.lt_of_lt_of_le hf h.recs

theorem DefsetOK.mono {a b : Sizes} (h : a ≤ b) {d : Defset} (hd : DefsetOK a d) : DefsetOK b d :=
  fun x hx => Nat.lt_of_lt_of_le (hd x hx) h.recs

theorem MulticlassOK.mono {a b : Sizes} (h : a ≤ b) {m : Multiclass} (hm : MulticlassOK a m) : MulticlassOK b m :=
  ⟨fun e he => Nat.lt_of_lt_of_le (hm.tas e he) h.tas, fun p hp => Nat.lt_of_lt_of_le (hm.parents p hp) h.mcs⟩

theorem DefmOK.mono {a b : Sizes} (h : a ≤ b) {d : Defm} (hd : DefmOK a d) : DefmOK b d :=
  fun x hx => Nat.lt_of_lt_of_le (hd x hx) h.mcs

/-- the default record (what `[id]!` yields for a bad id) has no ids in it -/
theorem RecordOK.dflt (z : Sizes) : RecordOK z (Inhabited.default : Record) := by
  have h1 : (Inhabited.default : Record).nameToTemplateArg = #[] := rfl
  have h2 : (Inhabited.default : Record).nameToRecordField = #[] := rfl
  have h3 : (Inhabited.default : Record).parentList = #[] := rfl
  exact ⟨by rw [h1]; simp, by rw [h2]; simp, by rw [h3]; simp⟩

theorem MulticlassOK.dflt (z : Sizes) : MulticlassOK z (Inhabited.default : Multiclass) := by
  have h1 : (Inhabited.default : Multiclass).nameToTemplateArg = #[] := rfl
  have h3 : (Inhabited.default : Multiclass).parentList = #[] := rfl
  exact ⟨by rw [h1]; simp, by rw [h3]; simp⟩

/-- every id stored in the symbol map is valid; the allocation tables are consistent -/
structure SymMap.IdsOK (sm : SymMap) : Prop where
  recs : ∀ r ∈ sm.recordList.toList, RecordOK sm.sizes r
  flds : ∀ f ∈ sm.recordFieldList.toList, FieldOK sm.sizes f
  dss : ∀ d ∈ sm.defsetList.toList, DefsetOK sm.sizes d
  mcs : ∀ m ∈ sm.multiclassList.toList, MulticlassOK sm.sizes m
  dms : ∀ d ∈ sm.defmList.toList, DefmOK sm.sizes d
  cls : ∀ (name : String) (id : Nat), sm.nameToClass[name]? = some id → id < sm.recordList.size
  defs : ∀ (name : String) (id : Nat), sm.nameToDef[name]? = some id → id < sm.recordList.size
  mcn : ∀ (name : String) (id : Nat), sm.nameToMulticlass[name]? = some id → id < sm.multiclassList.size
  dsn : ∀ (name : String) (id : Nat), sm.nameToDefset[name]? = some id → id < sm.defsetList.size
  files : ∀ e ∈ sm.fileToSymbolList.toList, ∀ s ∈ e.2.toList, SymOK sm.sizes s
  gids : ∀ s ∈ sm.gidToSym.toList, SymOK sm.sizes s
  recGid : sm.recordGid.size = sm.recordList.size ∧ ∀ g ∈ sm.recordGid.toList, g < sm.gidToSym.size
  taGid : sm.templateArgGid.size = sm.templateArgList.size ∧ ∀ g ∈ sm.templateArgGid.toList, g < sm.gidToSym.size
  fldGid : sm.recordFieldGid.size = sm.recordFieldList.size ∧ ∀ g ∈ sm.recordFieldGid.toList, g < sm.gidToSym.size
  varGid : sm.variableGid.size = sm.variableList.size ∧ ∀ g ∈ sm.variableGid.toList, g < sm.gidToSym.size
  dsGid : sm.defsetGid.size = sm.defsetList.size ∧ ∀ g ∈ sm.defsetGid.toList, g < sm.gidToSym.size
  mcGid : sm.multiclassGid.size = sm.multiclassList.size ∧ ∀ g ∈ sm.multiclassGid.toList, g < sm.gidToSym.size
  dmGid : sm.defmGid.size = sm.defmList.size ∧ ∀ g ∈ sm.defmGid.toList, g < sm.gidToSym.size
  /-- the symbol ids of the hook log are allocation indices that exist -/
  refs : ∀ g loc, Tg.SymbolMap.Op.reference g loc ∈ sm.ops.toList → g < sm.gidToSym.size

/-! ### loc validity -/

/-- `a..b` is the range of a node or token of file `f`, or the inside of a quoted token (the name of a
`def "name"`) -/
def NodeLoc (ws : Workspace) (f a b : Nat) : Prop :=
  f < ws.files.size ∧ ∃ t, Desc (ws.tree f) t ∧
    ((t.start = a ∧ t.stop = b) ∨
     (t.isToken = true ∧ t.start + 1 = a ∧ b + 1 = t.stop ∧ ∃ mid : List Char, t.text.toList = '"' :: mid ++ ['"']))

def NodeLocR (ws : Workspace) (r : FileRange) : Prop := NodeLoc ws r.file r.start r.stop

def NodeLocL (ws : Workspace) (l : Tg.SymbolMap.Loc) : Prop := NodeLoc ws l.file l.start l.stop

def opLoc : Tg.SymbolMap.Op → Tg.SymbolMap.Loc
  | .define _ l => l
  | .defineAnon _ l => l
  | .reference _ l => l

structure SymMap.LocsOK (ws : Workspace) (sm : SymMap) : Prop where
  recs : ∀ r ∈ sm.recordList.toList, NodeLocR ws r.defineLoc
  tas : ∀ r ∈ sm.templateArgList.toList, NodeLocR ws r.defineLoc
  flds : ∀ r ∈ sm.recordFieldList.toList, NodeLocR ws r.defineLoc
  vars : ∀ r ∈ sm.variableList.toList, NodeLocR ws r.defineLoc
  dss : ∀ r ∈ sm.defsetList.toList, NodeLocR ws r.defineLoc
  mcs : ∀ r ∈ sm.multiclassList.toList, NodeLocR ws r.defineLoc
  dms : ∀ r ∈ sm.defmList.toList, NodeLocR ws r.defineLoc
  ops : ∀ o ∈ sm.ops.toList, NodeLocL ws (opLoc o)

/-! ### workspace well-formedness -/

/-- the first token of every `BangOperator` node is one of the operators the indexer knows
(the parser only opens such a node at one of these tokens) -/
def bangKinds : List SyntaxKind :=
  [.XAdd, .XAnd, .XMul, .XOr, .XXor, .XDiv, .XSub, .XSrl, .XSra, .XShl, .XCast, .XCon, .XDag, .XEmpty,
   .XEq, .XNe, .XExists, .XFilter, .XFind, .XFoldl, .XForEach, .XGe, .XGt, .XLe, .XLt, .XGetDagArg,
   .XGetDagName, .XGetDagOp, .XHead, .XIf, .XInitialized, .XInterleave, .XIsA, .XListConcat,
   .XListFlatten, .XListRemove, .XListSplat, .XLog2, .XNot, .XRange, .XRepr, .XSetDagArg, .XSetDagName,
   .XSetDagOp, .XSize, .XStrConcat, .XSubst, .XSubstr, .XTail, .XToLower, .XToUpper]

def BangOK (root : PTree) : Prop :=
  ∀ n, Desc root n → n.isNode = true → n.kind = .BangOperator →
    ∀ k, Ast.bangOperatorKind n = some k → k ∈ bangKinds

structure Workspace.WF (ws : Workspace) : Prop where
  root : ws.root < ws.files.size
  spans : ∀ f (h : f < ws.files.size), ∃ txt, Spans ws.files[f].tree txt ∧ ws.files[f].tree.start = 0
  incl : ∀ f (h : f < ws.files.size), ∀ e ∈ ws.files[f].includeMap, e.2 < ws.files.size
  bang : ∀ f (h : f < ws.files.size), BangOK ws.files[f].tree
  /-- the syntax errors of a file are ranges of pieces of its text -/
  errs : ∀ f (h : f < ws.files.size), ∀ e ∈ ws.files[f].errors,
    ValidRange ws.files[f].tree.chars e.start e.stop
  fileSet : ∀ f ∈ ws.fileSet, f < ws.files.size

theorem Workspace.tree_of_lt (ws : Workspace) {f : Nat} (h : f < ws.files.size) : ws.tree f = ws.files[f].tree := by
  simp [Workspace.tree, Array.getElem?_eq_getElem h]

theorem Workspace.WF.tree_spans {ws : Workspace} (h : ws.WF) (f : Nat) :
    ∃ txt, Spans (ws.tree f) txt ∧ (ws.tree f).start = 0 := by
  by_cases hf : f < ws.files.size
  · rw [ws.tree_of_lt hf]; exact h.spans f hf
  · have : ws.files[f]? = none := by simp; omega
    simp only [Workspace.tree, this]
    refine ⟨[], ?_, rfl⟩
    have := Spans.node .SourceFile 0 0 1 #[] [] rfl (by intro i hi; simp at hi) (Tiles.nil 0) (by omega) (by simp)
    simpa using this

/-! ### scopes -/

def ScopeKindOK (z : Sizes) : ScopeKind → Prop
  | .record id => id < z.recs
  | .foreach _ v => v < z.vars
  | .defset id => id < z.dss
  | .multiclass id => id < z.mcs
  | .defm id => id < z.dms
  | _ => True

structure ScopeOK (z : Sizes) (s : Scope) : Prop where
  kind : ScopeKindOK z s.kind
  vars : ∀ (name : String) (id : Nat), s.nameToVariable[name]? = some id → id < z.vars

theorem ScopeKindOK.mono {a b : Sizes} (h : a ≤ b) {k : ScopeKind} (hk : ScopeKindOK a k) : ScopeKindOK b k := by
  cases k <;> simp only [ScopeKindOK] at * <;> first
    | trivial
    | exact Nat.lt_of_lt_of_le hk h.recs | exact Nat.lt_of_lt_of_le hk h.vars
    | exact Nat.lt_of_lt_of_le hk h.dss | exact Nat.lt_of_lt_of_le hk h.mcs
    | exact Nat.lt_of_lt_of_le hk h.dms

theorem ScopeOK.mono {a b : Sizes} (h : a ≤ b) {s : Scope} (hs : ScopeOK a s) : ScopeOK b s :=
  ⟨hs.kind.mono h, fun n i hi => Nat.lt_of_lt_of_le (hs.vars n i hi) h.vars⟩

def Scopes.kinds (s : Scopes) : List ScopeKind := s.scopes.map (·.kind)

/-! ### which file a symbol is defined in -/

/-- the define location of a symbol (`Handlers.symbolDefineLoc`) -/
def SymMap.symLoc (sm : SymMap) : SymbolId → FileRange
  | .record i => (sm.record i).defineLoc
  | .templateArgument i => (sm.templateArg i).defineLoc
  | .recordField i => (sm.recordField i).defineLoc
  | .var i => (sm.var i).defineLoc
  | .defset i => (sm.defset i).defineLoc
  | .multiclass i => (sm.multiclass i).defineLoc
  | .defm i => (sm.defm i).defineLoc

/-- everything the outline of a file shows is defined in that file -/
structure SymMap.FilesOK (sm : SymMap) : Prop where
  files : ∀ e ∈ sm.fileToSymbolList.toList, ∀ s ∈ e.2.toList, (sm.symLoc s).file = e.1
  dsDefs : ∀ d ∈ sm.defsetList.toList, ∀ x ∈ d.defList.toList, (sm.record x).defineLoc.file = d.defineLoc.file
  recTas : ∀ r ∈ sm.recordList.toList, r.kind = .cls → ∀ e ∈ r.nameToTemplateArg.toList,
    (sm.templateArg e.2).defineLoc.file = r.defineLoc.file
  recFlds : ∀ r ∈ sm.recordList.toList, ∀ e ∈ r.nameToRecordField.toList,
    (sm.recordField e.2).defineLoc.file = r.defineLoc.file
  mcTas : ∀ m ∈ sm.multiclassList.toList, ∀ e ∈ m.nameToTemplateArg.toList,
    (sm.templateArg e.2).defineLoc.file = m.defineLoc.file

/-! ### names and the hook log -/

/-- the name of a symbol (`Handlers.symbolName`) -/
def SymMap.symName (sm : SymMap) : SymbolId → String
  | .record i => (sm.record i).name
  | .templateArgument i => (sm.templateArg i).name
  | .recordField i => (sm.recordField i).name
  | .var i => (sm.var i).name
  | .defset i => (sm.defset i).name
  | .multiclass i => (sm.multiclass i).name
  | .defm i => (sm.defm i).name

/-- the hook log has a (non-anonymous) `define` for `s`, under the name stored in the arena -/
def SymMap.Named (sm : SymMap) (s : SymbolId) : Prop :=
  NamedGid sm.ops.toList (sm.gidOf s) (sm.symName s).toList

structure SymMap.GrowN (a b : SymMap) : Prop where
  nm : ∀ s, SymOK a.sizes s → b.symName s = a.symName s
  gid : ∀ s, SymOK a.sizes s → b.gidOf s = a.gidOf s
  ops : ∃ more, b.ops.toList = a.ops.toList ++ more

theorem SymMap.GrowN.refl (a : SymMap) : SymMap.GrowN a a := ⟨fun _ _ => rfl, fun _ _ => rfl, [], by simp⟩

theorem SymMap.GrowN.trans {a b c : SymMap} (h1 : SymMap.GrowN a b) (hs : a.sizes ≤ b.sizes) (h2 : SymMap.GrowN b c) :
    SymMap.GrowN a c := by
  refine ⟨fun s h => (h2.nm s (h.mono hs)).trans (h1.nm s h), fun s h => (h2.gid s (h.mono hs)).trans (h1.gid s h), ?_⟩
  obtain ⟨m1, e1⟩ := h1.ops
  obtain ⟨m2, e2⟩ := h2.ops
  exact ⟨m1 ++ m2, by rw [e2, e1, List.append_assoc]⟩

theorem SymMap.Named.grow {a b : SymMap} {s : SymbolId} (h : a.Named s) (hs : SymOK a.sizes s) (hg : SymMap.GrowN a b) :
    b.Named s := by
  unfold SymMap.Named at *
  obtain ⟨m, e⟩ := hg.ops
  rw [hg.nm s hs, hg.gid s hs, e]
  exact h.append m

/-- the hook log, by itself: allocation indices are counted by `gidToSym`, references point to
allocated symbols, and every `define` / `reference` sits on a token whose text is the symbol's name -/
structure HookLogOK (ws : Workspace) (ops : List Tg.SymbolMap.Op) (n : Nat) : Prop where
  cnt : (Tg.SymbolMap.allocs ops).length = n
  rv : Tg.SymbolMap.RefsValid ops 0
  defTok : ∀ name loc, Tg.SymbolMap.Op.define name loc ∈ ops → ∃ nm : String, nm.toList = name ∧ TokAt ws loc nm
  refTok : ∀ g loc, Tg.SymbolMap.Op.reference g loc ∈ ops → ∃ nm : String, NamedGid ops g nm.toList ∧ TokAt ws loc nm

theorem HookLogOK.define {ws : Workspace} {ops : List Tg.SymbolMap.Op} {n : Nat} (h : HookLogOK ws ops n)
    {nm : String} {loc : Tg.SymbolMap.Loc} (ht : TokAt ws loc nm) :
    HookLogOK ws (ops ++ [.define nm.toList loc]) (n + 1) := by
  refine ⟨by simp [allocs_append, allocs_define, h.cnt], ?_, ?_, ?_⟩
  · rw [RefsValid_append]; exact ⟨h.rv, by simp [Tg.SymbolMap.RefsValid]⟩
  · intro name l hm
    rcases List.mem_append.mp hm with hm | hm
    · exact h.defTok name l hm
    · simp only [List.mem_singleton, Tg.SymbolMap.Op.define.injEq] at hm
      obtain ⟨rfl, rfl⟩ := hm
      exact ⟨nm, rfl, ht⟩
  · intro g l hm
    rcases List.mem_append.mp hm with hm | hm
    · obtain ⟨nm', h1, h2⟩ := h.refTok g l hm
      exact ⟨nm', h1.append _, h2⟩
    · simp at hm

theorem HookLogOK.defineAnon {ws : Workspace} {ops : List Tg.SymbolMap.Op} {n : Nat} (h : HookLogOK ws ops n)
    (name : List Char) (loc : Tg.SymbolMap.Loc) :
    HookLogOK ws (ops ++ [.defineAnon name loc]) (n + 1) := by
  refine ⟨by simp [allocs_append, allocs_defineAnon, h.cnt], ?_, ?_, ?_⟩
  · rw [RefsValid_append]; exact ⟨h.rv, by simp [Tg.SymbolMap.RefsValid]⟩
  · intro name l hm
    rcases List.mem_append.mp hm with hm | hm
    · exact h.defTok name l hm
    · simp at hm
  · intro g l hm
    rcases List.mem_append.mp hm with hm | hm
    · obtain ⟨nm', h1, h2⟩ := h.refTok g l hm
      exact ⟨nm', h1.append _, h2⟩
    · simp at hm

theorem HookLogOK.reference {ws : Workspace} {ops : List Tg.SymbolMap.Op} {n : Nat} (h : HookLogOK ws ops n)
    {g : Nat} {nm : String} {loc : Tg.SymbolMap.Loc} (hn : NamedGid ops g nm.toList) (ht : TokAt ws loc nm) :
    HookLogOK ws (ops ++ [.reference g loc]) n := by
  have hg : g < n := by
    obtain ⟨l, hl⟩ := hn
    have := (List.getElem?_eq_some_iff.mp hl).1
    rw [h.cnt] at this; exact this
  refine ⟨by simp [allocs_append, allocs_reference, h.cnt], ?_, ?_, ?_⟩
  · rw [RefsValid_append]; exact ⟨h.rv, by simp [Tg.SymbolMap.RefsValid, h.cnt, hg]⟩
  · intro name l hm
    rcases List.mem_append.mp hm with hm | hm
    · exact h.defTok name l hm
    · simp at hm
  · intro g' l hm
    rcases List.mem_append.mp hm with hm | hm
    · obtain ⟨nm', h1, h2⟩ := h.refTok g' l hm
      exact ⟨nm', h1.append _, h2⟩
    · simp only [List.mem_singleton, Tg.SymbolMap.Op.reference.injEq] at hm
      obtain ⟨rfl, rfl⟩ := hm
      exact ⟨nm, hn.append _, ht⟩

/-- a fresh allocation index is named by the `define` that is appended for it -/
theorem NamedGid.new {ops : List Tg.SymbolMap.Op} {n : Nat} (h : (Tg.SymbolMap.allocs ops).length = n)
    (name : List Char) (loc : Tg.SymbolMap.Loc) : NamedGid (ops ++ [.define name loc]) n name := by
  refine ⟨loc, ?_⟩
  rw [allocs_append, allocs_define, ← h]
  simp

/-- names: every template argument, field, variable, defset and multiclass — and every record that
a name map knows — was logged by a `define` under its name; the keys of the name maps are the names
of the entries they point to -/
structure SymMap.NamesOK (ws : Workspace) (sm : SymMap) : Prop where
  log : HookLogOK ws sm.ops.toList sm.gidToSym.size
  tas : ∀ i, i < sm.templateArgList.size → sm.Named (.templateArgument i)
  flds : ∀ i, i < sm.recordFieldList.size → sm.Named (.recordField i)
  vars : ∀ i, i < sm.variableList.size → sm.Named (.var i)
  dss : ∀ i, i < sm.defsetList.size → sm.Named (.defset i)
  mcs : ∀ i, i < sm.multiclassList.size → sm.Named (.multiclass i)
  cls : ∀ (k : String) (v : Nat), sm.nameToClass[k]? = some v → (sm.record v).name = k ∧ sm.Named (.record v)
  defs : ∀ (k : String) (v : Nat), sm.nameToDef[k]? = some v → (sm.record v).name = k ∧ sm.Named (.record v)
  mcn : ∀ (k : String) (v : Nat), sm.nameToMulticlass[k]? = some v → (sm.multiclass v).name = k
  dsn : ∀ (k : String) (v : Nat), sm.nameToDefset[k]? = some v → (sm.defset v).name = k
  recTas : ∀ r ∈ sm.recordList.toList, ∀ e ∈ r.nameToTemplateArg.toList, (sm.templateArg e.2).name = e.1
  recFlds : ∀ r ∈ sm.recordList.toList, ∀ e ∈ r.nameToRecordField.toList, (sm.recordField e.2).name = e.1
  mcTas : ∀ m ∈ sm.multiclassList.toList, ∀ e ∈ m.nameToTemplateArg.toList, (sm.templateArg e.2).name = e.1

/-- the variables a scope knows are stored under their names -/
structure ScopeNm (sm : SymMap) (s : Scope) : Prop where
  vars : ∀ (k : String) (v : Nat), s.nameToVariable[k]? = some v → (sm.var v).name = k
  kind : ∀ (nm : String) (v : Nat), s.kind = .foreach nm v → (sm.var v).name = nm

/-- the symbol map only grows: arenas get longer, existing entries keep their define location (and
records their kind) -/
structure SymMap.Grow (a b : SymMap) : Prop where
  sizes : a.sizes ≤ b.sizes
  recLoc : ∀ id, id < a.recordList.size → (b.record id).defineLoc = (a.record id).defineLoc
  recKind : ∀ id, id < a.recordList.size → (b.record id).kind = (a.record id).kind
  taLoc : ∀ id, id < a.templateArgList.size → (b.templateArg id).defineLoc = (a.templateArg id).defineLoc
  fldLoc : ∀ id, id < a.recordFieldList.size → (b.recordField id).defineLoc = (a.recordField id).defineLoc
  varLoc : ∀ id, id < a.variableList.size → (b.var id).defineLoc = (a.var id).defineLoc
  dsLoc : ∀ id, id < a.defsetList.size → (b.defset id).defineLoc = (a.defset id).defineLoc
  mcLoc : ∀ id, id < a.multiclassList.size → (b.multiclass id).defineLoc = (a.multiclass id).defineLoc
  dmLoc : ∀ id, id < a.defmList.size → (b.defm id).defineLoc = (a.defm id).defineLoc
  /-- existing entries keep their name and allocation index, the hook log is only appended to -/
  n : SymMap.GrowN a b

theorem SymMap.Grow.refl (a : SymMap) : SymMap.Grow a a :=
  ⟨Sizes.le_refl _, fun _ _ => rfl, fun _ _ => rfl, fun _ _ => rfl, fun _ _ => rfl, fun _ _ => rfl,
   fun _ _ => rfl, fun _ _ => rfl, fun _ _ => rfl, SymMap.GrowN.refl a⟩

theorem SymMap.Grow.trans {a b c : SymMap} (h1 : SymMap.Grow a b) (h2 : SymMap.Grow b c) : SymMap.Grow a c where
  sizes := Sizes.le_trans h1.sizes h2.sizes
  recLoc id h := (h2.recLoc id (Nat.lt_of_lt_of_le h h1.sizes.recs)).trans (h1.recLoc id h)
  recKind id h := (h2.recKind id (Nat.lt_of_lt_of_le h h1.sizes.recs)).trans (h1.recKind id h)
  taLoc id h := (h2.taLoc id (Nat.lt_of_lt_of_le h h1.sizes.tas)).trans (h1.taLoc id h)
  fldLoc id h := (h2.fldLoc id (Nat.lt_of_lt_of_le h h1.sizes.flds)).trans (h1.fldLoc id h)
  varLoc id h := (h2.varLoc id (Nat.lt_of_lt_of_le h h1.sizes.vars)).trans (h1.varLoc id h)
  dsLoc id h := (h2.dsLoc id (Nat.lt_of_lt_of_le h h1.sizes.dss)).trans (h1.dsLoc id h)
  mcLoc id h := (h2.mcLoc id (Nat.lt_of_lt_of_le h h1.sizes.mcs)).trans (h1.mcLoc id h)
  dmLoc id h := (h2.dmLoc id (Nat.lt_of_lt_of_le h h1.sizes.dms)).trans (h1.dmLoc id h)
  n := h1.n.trans h1.sizes h2.n

/-- a scope kind that is not the scope of a class: only a `def` can leave its record scope behind -/
def DefOnly (sm : SymMap) (k : ScopeKind) : Prop :=
  ∀ id, k = .record id → id < sm.recordList.size ∧ (sm.record id).kind = .def_

theorem DefOnly.grow {a b : SymMap} (h : SymMap.Grow a b) {k : ScopeKind} (hk : DefOnly a k) : DefOnly b k := by
  intro id hid
  obtain ⟨h1, h2⟩ := hk id hid
  exact ⟨Nat.lt_of_lt_of_le h1 h.sizes.recs, (h.recKind id h1).trans h2⟩

/-! ### the invariant and the extension order -/

structure Inv (c : IndexCtx) : Prop where
  ws : c.ws.WF
  traceNe : c.fileTrace ≠ []
  trace : ∀ f ∈ c.fileTrace, f < c.ws.files.size
  scopesNe : c.scopes.scopes ≠ []
  /-- the root scope is never popped: some scope is not a defset scope (`Scopes::add_variable`
  skips defset scopes) -/
  scopesNd : ∃ k ∈ c.scopes.kinds, Scopes.isDefsetKind k = false
  scopes : ∀ s ∈ c.scopes.scopes, ScopeOK c.symbolMap.sizes s
  ids : c.symbolMap.IdsOK
  locs : c.symbolMap.LocsOK c.ws
  files : c.symbolMap.FilesOK
  diags : ∀ d ∈ c.diagnostics.toList, NodeLocR c.ws d.location
  names : c.symbolMap.NamesOK c.ws
  scopesNm : ∀ s ∈ c.scopes.scopes, ScopeNm c.symbolMap s

structure Ext (c c' : IndexCtx) : Prop where
  ws : c'.ws = c.ws
  trace : c'.fileTrace = c.fileTrace
  /-- scopes are only pushed on top, and a record scope that is left behind is the scope of a `def` -/
  kindsX : ∃ extra, c'.scopes.kinds = extra ++ c.scopes.kinds ∧ ∀ k ∈ extra, DefOnly c'.symbolMap k
  indexed : ∀ f ∈ c.indexedFiles, f ∈ c'.indexedFiles
  sm : SymMap.Grow c.symbolMap c'.symbolMap

theorem Ext.sizes {c c' : IndexCtx} (h : Ext c c') : c.symbolMap.sizes ≤ c'.symbolMap.sizes := h.sm.sizes

theorem Ext.kinds {c c' : IndexCtx} (h : Ext c c') : c.scopes.kinds <:+ c'.scopes.kinds := by
  obtain ⟨extra, he, _⟩ := h.kindsX
  exact ⟨extra, he.symm⟩

theorem Ext.refl (c : IndexCtx) : Ext c c :=
  ⟨rfl, rfl, ⟨[], rfl, by intro k hk; cases hk⟩, fun _ h => h, SymMap.Grow.refl _⟩

theorem Ext.trans {a b c : IndexCtx} (h1 : Ext a b) (h2 : Ext b c) : Ext a c := by
  refine ⟨h2.ws.trans h1.ws, h2.trace.trans h1.trace, ?_, fun f hf => h2.indexed f (h1.indexed f hf),
    h1.sm.trans h2.sm⟩
  obtain ⟨e1, he1, hd1⟩ := h1.kindsX
  obtain ⟨e2, he2, hd2⟩ := h2.kindsX
  refine ⟨e2 ++ e1, by rw [he2, he1, List.append_assoc], ?_⟩
  intro k hk
  rcases List.mem_append.mp hk with hk | hk
  · exact hd2 k hk
  · exact (hd1 k hk).grow h2.sm

/-- an extension that only touches the symbol map / diagnostics / counters: same scopes -/
theorem Ext.of_same_scopes {c0 c c' : IndexCtx} (h : Ext c0 c) (hws : c'.ws = c.ws) (htr : c'.fileTrace = c.fileTrace)
    (hk : c'.scopes.kinds = c.scopes.kinds) (hix : ∀ f ∈ c.indexedFiles, f ∈ c'.indexedFiles)
    (hsm : SymMap.Grow c.symbolMap c'.symbolMap) : Ext c0 c' := by
  refine ⟨hws.trans h.ws, htr.trans h.trace, ?_, fun f hf => hix f (h.indexed f hf), h.sm.trans hsm⟩
  obtain ⟨e, he, hd⟩ := h.kindsX
  exact ⟨e, by rw [hk, he], fun k hk' => (hd k hk').grow hsm⟩

/-- `c` is a good state that extends the anchor `c0` -/
structure Post (c0 c : IndexCtx) : Prop where
  inv : Inv c
  ext : Ext c0 c

theorem Post.refl {c : IndexCtx} (h : Inv c) : Post c c := ⟨h, Ext.refl c⟩

theorem Post.trans {a b c : IndexCtx} (h1 : Post a b) (h2 : Post b c) : Post a c :=
  ⟨h2.inv, h1.ext.trans h2.ext⟩

theorem Post.self {c0 c : IndexCtx} (h : Post c0 c) : Post c c := Post.refl h.inv

/-- a good extension with exactly the scopes of the anchor (what the value-level code guarantees) -/
structure PostV (c0 c : IndexCtx) : Prop extends Post c0 c where
  same : c.scopes.kinds = c0.scopes.kinds

theorem PostV.refl {c : IndexCtx} (h : Inv c) : PostV c c := ⟨Post.refl h, rfl⟩

theorem PostV.trans {a b c : IndexCtx} (h1 : PostV a b) (h2 : PostV b c) : PostV a c :=
  ⟨h1.toPost.trans h2.toPost, h2.same.trans h1.same⟩

/-- no class scope is open (true wherever a statement is indexed) -/
def clsFree (c : IndexCtx) : Prop := ∀ k ∈ c.scopes.kinds, DefOnly c.symbolMap k

theorem clsFree.ext {c c' : IndexCtx} (h : clsFree c) (he : Ext c c') : clsFree c' := by
  obtain ⟨e, hek, hd⟩ := he.kindsX
  intro k hk
  rw [hek] at hk
  rcases List.mem_append.mp hk with hk | hk
  · exact hd k hk
  · exact (h k hk).grow he.sm

/-! ### locations relative to the anchor's current file -/

/-- `rg` is the range of a node or token of the current file of `c0` -/
def RangeIn (c0 : IndexCtx) (rg : Nat × Nat) : Prop :=
  ∃ f, c0.fileTrace.head? = some f ∧ ∃ t, Desc (c0.ws.tree f) t ∧ t.start = rg.1 ∧ t.stop = rg.2

def LocIn (c0 : IndexCtx) (loc : FileRange) : Prop :=
  c0.fileTrace.head? = some loc.file ∧ ∃ t, Desc (c0.ws.tree loc.file) t ∧ t.start = loc.start ∧ t.stop = loc.stop

theorem LocIn.range {c0 : IndexCtx} {loc : FileRange} (h : LocIn c0 loc) : RangeIn c0 (loc.start, loc.stop) :=
  ⟨loc.file, h.1, h.2⟩

theorem RangeIn.ext {c0 c1 : IndexCtx} (he : Ext c0 c1) {rg : Nat × Nat} (h : RangeIn c0 rg) : RangeIn c1 rg := by
  obtain ⟨f, hf, t, ht⟩ := h
  exact ⟨f, by rw [he.trace]; exact hf, t, by rw [he.ws]; exact ht⟩

theorem LocIn.ext {c0 c1 : IndexCtx} (he : Ext c0 c1) {loc : FileRange} (h : LocIn c0 loc) : LocIn c1 loc := by
  obtain ⟨hf, t, ht⟩ := h
  exact ⟨by rw [he.trace]; exact hf, t, by rw [he.ws]; exact ht⟩

/-- `loc` is the range of a token of the current file of `c0`, with text `nm` -/
def TokIn (c0 : IndexCtx) (loc : FileRange) (nm : String) : Prop :=
  c0.fileTrace.head? = some loc.file ∧ ∃ t, Desc (c0.ws.tree loc.file) t ∧ t.isToken = true ∧
    t.start = loc.start ∧ t.stop = loc.stop ∧ t.text = nm ∧ IdTok (c0.ws.tree loc.file) t

theorem TokIn.locIn {c0 : IndexCtx} {loc : FileRange} {nm : String} (h : TokIn c0 loc nm) : LocIn c0 loc := by
  obtain ⟨hf, t, hd, _, h1, h2, _⟩ := h
  exact ⟨hf, t, hd, h1, h2⟩

theorem TokIn.ext {c0 c1 : IndexCtx} (he : Ext c0 c1) {loc : FileRange} {nm : String} (h : TokIn c0 loc nm) :
    TokIn c1 loc nm := by
  obtain ⟨hf, t, ht⟩ := h
  exact ⟨by rw [he.trace]; exact hf, t, by rw [he.ws]; exact ht⟩

theorem TokIn.tokAt {c0 c : IndexCtx} (hp : Post c0 c) {loc : FileRange} {nm : String} (h : TokIn c0 loc nm) :
    TokAt c.ws loc.toLoc nm := by
  obtain ⟨hf, t, hd, htok, hs, he, htx, hk⟩ := h
  have hmem : loc.file ∈ c.fileTrace := by
    rw [hp.ext.trace]
    exact List.mem_of_head? hf
  exact ⟨hp.inv.trace _ hmem, t, by rw [hp.ext.ws]; exact hd, htok, Or.inl ⟨by rw [hp.ext.ws]; exact hk, hs, he, htx⟩⟩

theorem TokIn.sameBase' {c c1 : IndexCtx} {loc : FileRange} {nm : String} (hws : c1.ws = c.ws)
    (htr : c1.fileTrace = c.fileTrace) (h : TokIn c loc nm) : TokIn c1 loc nm := by
  obtain ⟨hf, t, ht⟩ := h
  exact ⟨by rw [htr]; exact hf, t, by rw [hws]; exact ht⟩

theorem ScopeNm.grow {a b : SymMap} {s : Scope} (h : ScopeNm a s) (hok : ScopeOK a.sizes s) (hg : SymMap.GrowN a b) :
    ScopeNm b s := by
  refine ⟨fun k v hv => ?_, fun nm v hk => ?_⟩
  · have := hg.nm (.var v) (hok.vars k v hv)
    simp only [SymMap.symName] at this
    rw [this]; exact h.vars k v hv
  · have hv : v < a.sizes.vars := by
      have := hok.kind
      rw [hk] at this
      exact this
    have := hg.nm (.var v) hv
    simp only [SymMap.symName] at this
    rw [this]; exact h.kind nm v hk

theorem LocIn.nodeLoc {c0 c : IndexCtx} (hp : Post c0 c) {loc : FileRange} (h : LocIn c0 loc) :
    NodeLocR c.ws loc := by
  obtain ⟨hf, t, hd, ht⟩ := h
  have hmem : loc.file ∈ c.fileTrace := by
    rw [hp.ext.trace]
    exact List.mem_of_head? hf
  exact ⟨hp.inv.trace _ hmem, t, by rw [hp.ext.ws]; exact hd, Or.inl ht⟩

theorem TokIn.nodeLoc {c0 c : IndexCtx} (hp : Post c0 c) {loc : FileRange} {nm : String} (h : TokIn c0 loc nm) :
    NodeLocR c.ws loc := LocIn.nodeLoc hp h.locIn

theorem RangeIn.nodeLoc {c0 c : IndexCtx} (hp : Post c0 c) {rg : Nat × Nat} (h : RangeIn c0 rg) {f : Nat}
    (hf : c.fileTrace.head? = some f) : NodeLoc c.ws f rg.1 rg.2 := by
  obtain ⟨f', hf', t, hd, ht⟩ := h
  rw [hp.ext.trace, hf'] at hf
  cases hf
  have hmem : f ∈ c.fileTrace := by
    rw [hp.ext.trace]
    exact List.mem_of_head? hf'
  exact ⟨hp.inv.trace _ hmem, t, by rw [hp.ext.ws]; exact hd, Or.inl ht⟩

/-- `loc` is the inside of the string literal `"nm"` of the current file of `c0` -/
def StrIn (c0 : IndexCtx) (loc : FileRange) (nm : String) : Prop :=
  c0.fileTrace.head? = some loc.file ∧ ∃ t, Desc (c0.ws.tree loc.file) t ∧ t.isToken = true ∧
    t.start + 1 = loc.start ∧ loc.stop + 1 = t.stop ∧ t.text.toList = '"' :: nm.toList ++ ['"']

theorem StrIn.ext {c0 c1 : IndexCtx} (he : Ext c0 c1) {loc : FileRange} {nm : String} (h : StrIn c0 loc nm) :
    StrIn c1 loc nm := by
  obtain ⟨hf, t, ht⟩ := h
  exact ⟨by rw [he.trace]; exact hf, t, by rw [he.ws]; exact ht⟩

theorem StrIn.tokAt {c0 c : IndexCtx} (hp : Post c0 c) {loc : FileRange} {nm : String} (h : StrIn c0 loc nm) :
    TokAt c.ws loc.toLoc nm := by
  obtain ⟨hf, t, hd, htok, hs, he, htx⟩ := h
  have hmem : loc.file ∈ c.fileTrace := by
    rw [hp.ext.trace]
    exact List.mem_of_head? hf
  exact ⟨hp.inv.trace _ hmem, t, by rw [hp.ext.ws]; exact hd, htok, Or.inr ⟨hs, he, htx⟩⟩

theorem StrIn.nodeLoc {c0 c : IndexCtx} (hp : Post c0 c) {loc : FileRange} {nm : String} (h : StrIn c0 loc nm) :
    NodeLocR c.ws loc := by
  obtain ⟨hf, t, hd, htok, hs, he, htx⟩ := h
  have hmem : loc.file ∈ c.fileTrace := by
    rw [hp.ext.trace]
    exact List.mem_of_head? hf
  exact ⟨hp.inv.trace _ hmem, t, by rw [hp.ext.ws]; exact hd, Or.inr ⟨htok, hs, he, nm.toList, htx⟩⟩

/-- the location of a name: an identifier token, or the inside of a string literal -/
def NameIn (c0 : IndexCtx) (loc : FileRange) (nm : String) : Prop := TokIn c0 loc nm ∨ StrIn c0 loc nm

theorem NameIn.head {c0 : IndexCtx} {loc : FileRange} {nm : String} (h : NameIn c0 loc nm) :
    c0.fileTrace.head? = some loc.file := by
  rcases h with h | h <;> exact h.1

theorem NameIn.tokAt {c0 c : IndexCtx} (hp : Post c0 c) {loc : FileRange} {nm : String} (h : NameIn c0 loc nm) :
    TokAt c.ws loc.toLoc nm := by
  rcases h with h | h
  · exact h.tokAt hp
  · exact h.tokAt hp

theorem NameIn.nodeLoc {c0 c : IndexCtx} (hp : Post c0 c) {loc : FileRange} {nm : String} (h : NameIn c0 loc nm) :
    NodeLocR c.ws loc := by
  rcases h with h | h
  · exact h.nodeLoc hp
  · exact h.nodeLoc hp

theorem NameIn.ext {c0 c1 : IndexCtx} (he : Ext c0 c1) {loc : FileRange} {nm : String} (h : NameIn c0 loc nm) :
    NameIn c1 loc nm := by
  rcases h with h | h
  · exact Or.inl (h.ext he)
  · exact Or.inr (h.ext he)

/-! ### fuel -/

/-- the budget of the files that have not been entered yet -/
def pendingOf (ws : Workspace) (indexed : List Nat) (l : List Nat) : Nat :=
  ((l.filter fun f => !indexed.contains f).map fun f => (ws.tree f).height + 2).sum

def pending (c : IndexCtx) : Nat := pendingOf c.ws c.indexedFiles (List.range c.ws.files.size)

theorem pendingOf_nil (ws : Workspace) (ind : List Nat) : pendingOf ws ind [] = 0 := rfl

theorem pendingOf_cons (ws : Workspace) (ind : List Nat) (x : Nat) (xs : List Nat) :
    pendingOf ws ind (x :: xs) = (if x ∈ ind then 0 else (ws.tree x).height + 2) + pendingOf ws ind xs := by
  unfold pendingOf
  by_cases h : x ∈ ind
  · simp [List.filter_cons, h]
  · simp [List.filter_cons, h]

theorem pendingOf_mono (ws : Workspace) {i1 i2 : List Nat} (h : ∀ f ∈ i1, f ∈ i2) (l : List Nat) :
    pendingOf ws i2 l ≤ pendingOf ws i1 l := by
  induction l with
  | nil => simp [pendingOf_nil]
  | cons x xs ih =>
    rw [pendingOf_cons, pendingOf_cons]
    by_cases h1 : x ∈ i1
    · have h2 := h x h1
      simp only [h1, h2, if_true]; omega
    · by_cases h2 : x ∈ i2
      · simp only [h1, h2, if_true, if_false]; omega
      · simp only [h1, h2, if_false]; omega

theorem pendingOf_cons_not_mem (ws : Workspace) (indexed : List Nat) (u : Nat) (l : List Nat) (hu : u ∉ l) :
    pendingOf ws (u :: indexed) l = pendingOf ws indexed l := by
  induction l with
  | nil => simp [pendingOf_nil]
  | cons x xs ih =>
    have hx : x ≠ u := fun h => hu (by simp [h])
    have ih := ih (fun h => hu (by simp [h]))
    rw [pendingOf_cons, pendingOf_cons, ih]
    simp [hx]

theorem pendingOf_cons_mem (ws : Workspace) (indexed : List Nat) (u : Nat) (l : List Nat) (hu : u ∈ l)
    (hnd : l.Nodup) (hni : u ∉ indexed) :
    pendingOf ws indexed l = pendingOf ws (u :: indexed) l + ((ws.tree u).height + 2) := by
  induction l with
  | nil => simp at hu
  | cons x xs ih =>
    have hnd' := List.nodup_cons.mp hnd
    rw [pendingOf_cons, pendingOf_cons]
    by_cases hx : x = u
    · subst hx
      rw [pendingOf_cons_not_mem ws indexed x xs hnd'.1]
      simp [hni]; omega
    · have hu' : u ∈ xs := by
        rcases List.mem_cons.mp hu with h | h
        · exact absurd h.symm hx
        · exact h
      rw [ih hu' hnd'.2]
      simp only [List.mem_cons, hx, false_or]
      omega

theorem pending_mono {c c' : IndexCtx} (h : Ext c c') : pending c' ≤ pending c := by
  unfold pending
  rw [h.ws]
  exact pendingOf_mono _ h.indexed _

/-- `n` is a node of the current file of `c0` whose height fits the fuel `k` -/
structure Fits (k : Nat) (c0 : IndexCtx) (n : PTree) : Prop where
  isNode : n.isNode = true
  cur : ∃ f, c0.fileTrace.head? = some f ∧ Desc (c0.ws.tree f) n
  spans : ∃ txt, Spans n txt
  fuel : n.height + pending c0 ≤ k

theorem Fits.mono {k : Nat} {c0 : IndexCtx} {n : PTree} (h : Fits k c0 n) : Fits (k + 1) c0 n :=
  ⟨h.isNode, h.cur, h.spans, by have := h.fuel; omega⟩

theorem Fits.sub {k : Nat} {c0 : IndexCtx} {n ch : PTree} (h : Fits (k + 1) c0 n) (hs : Sub n ch) : Fits k c0 ch := by
  obtain ⟨txt, ht⟩ := h.spans
  obtain ⟨hlt, _, mid, _, _, hm, _⟩ := ht.child hs.1
  obtain ⟨f, hf, hd⟩ := h.cur
  exact ⟨hs.2, ⟨f, hf, hd.trans hs.desc⟩, ⟨mid, hm⟩, by have := h.fuel; omega⟩

/-- a child, for a callee that is not one of the four re-entrant functions -/
theorem Fits.sub' {k : Nat} {c0 : IndexCtx} {n ch : PTree} (h : Fits (k + 1) c0 n) (hs : Sub n ch) :
    Fits (k + 1) c0 ch := (h.sub hs).mono

theorem Fits.ext {k : Nat} {c0 c1 : IndexCtx} {n : PTree} (he : Ext c0 c1) (h : Fits k c0 n) : Fits k c1 n := by
  obtain ⟨f, hf, hd⟩ := h.cur
  exact ⟨h.isNode, ⟨f, by rw [he.trace]; exact hf, by rw [he.ws]; exact hd⟩, h.spans,
    by have := h.fuel; have := pending_mono he; omega⟩

theorem Fits.rangeIn {k : Nat} {c0 : IndexCtx} {n : PTree} (h : Fits k c0 n) : RangeIn c0 (n.start, n.stop) := by
  obtain ⟨f, hf, hd⟩ := h.cur
  exact ⟨f, hf, n, hd, rfl, rfl⟩

theorem Fits.rangeIn_desc {k : Nat} {c0 : IndexCtx} {n t : PTree} (h : Fits k c0 n) (ht : Desc n t) :
    RangeIn c0 (t.start, t.stop) := by
  obtain ⟨f, hf, hd⟩ := h.cur
  exact ⟨f, hf, t, hd.trans ht, rfl, rfl⟩

theorem Fits.height_pos {k : Nat} {c0 : IndexCtx} {n : PTree} (h : Fits k c0 n) : 0 < n.height := by
  obtain ⟨txt, ht⟩ := h.spans
  exact ht.height_pos_of_node h.isNode

end Ide
end Tg
