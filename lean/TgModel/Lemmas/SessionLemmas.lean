/- Proofs about the server session model. -/
import TgModel.Session
import TgModel.Lemmas.HostLemmas

namespace Tg
namespace Session
open Host

variable {D : Type}

/-! ### generic facts about `edit` and `run` -/

theorem run_snoc (env : Env) (diag : DiagFn D) (fuel : Nat) (disk : Fs) (pre : List (Path × Text))
    (e : Path × Text) :
    run env diag fuel disk (pre ++ [e]) = edit env diag fuel (run env diag fuel disk pre) e.1 e.2 := by
  simp [run, List.foldl_append]

theorem foldl_inv (env : Env) (diag : DiagFn D) (fuel : Nat) (P : St D → Prop)
    (hstep : ∀ s p t, P s → P (edit env diag fuel s p t)) (h : List (Path × Text)) :
    ∀ s, P s → P (h.foldl (fun s e => edit env diag fuel s e.1 e.2) s) := by
  induction h with
  | nil => intro s hs; exact hs
  | cons e rest ih => intro s hs; exact ih _ (hstep s e.1 e.2 hs)

theorem run_inv (env : Env) (diag : DiagFn D) (fuel : Nat) (disk : Fs) (P : St D → Prop)
    (h0 : P { disk := disk })
    (hstep : ∀ s p t, P s → P (edit env diag fuel s p t)) (h : List (Path × Text)) :
    P (run env diag fuel disk h) :=
  foldl_inv env diag fuel P hstep h _ h0

/-- the database the edit computes -/
def newDb (env : Env) (fuel : Nat) (s : St D) (p : Path) (t : Text) : Option Db :=
  (s.db.map (·.setContent p t)).bind
    (setRoot env (overlay s.disk (fun q => if q = p then some t else s.buffers q)) fuel p)

theorem edit_none (env : Env) (diag : DiagFn D) (fuel : Nat) (s : St D) (p : Path) (t : Text)
    (h : newDb env fuel s p t = none) :
    edit env diag fuel s p t =
      { s with buffers := fun q => if q = p then some t else s.buffers q, db := none } := by
  unfold newDb at h
  simp only [edit, h]

theorem edit_some (env : Env) (diag : DiagFn D) (fuel : Nat) (s : St D) (p : Path) (t : Text) (d : Db)
    (h : newDb env fuel s p t = some d) :
    edit env diag fuel s p t =
      { s with
        buffers := fun q => if q = p then some t else s.buffers q,
        db := some d, version := s.version + 1, published := (observe d).files,
        view := publish (publish s.view (observe d).files (diag (observe d)) s.version)
          (s.published.filter (fun q => !(observe d).files.contains q)) (fun _ => []) s.version,
        log := ((s.published.filter (fun q => !(observe d).files.contains q)).map (fun q => (q, s.version))) ++
          ((observe d).files.map (fun q => (q, s.version))) ++ s.log } := by
  unfold newDb at h
  simp only [edit, h]

theorem edit_disk (env : Env) (diag : DiagFn D) (fuel : Nat) (s : St D) (p : Path) (t : Text) :
    (edit env diag fuel s p t).disk = s.disk := by
  cases h : newDb env fuel s p t with
  | none => rw [edit_none env diag fuel s p t h]
  | some d => rw [edit_some env diag fuel s p t d h]

theorem edit_buffers (env : Env) (diag : DiagFn D) (fuel : Nat) (s : St D) (p : Path) (t : Text) :
    (edit env diag fuel s p t).buffers = fun q => if q = p then some t else s.buffers q := by
  cases h : newDb env fuel s p t with
  | none => rw [edit_none env diag fuel s p t h]
  | some d => rw [edit_some env diag fuel s p t d h]

theorem edit_db (env : Env) (diag : DiagFn D) (fuel : Nat) (s : St D) (p : Path) (t : Text) :
    (edit env diag fuel s p t).db = newDb env fuel s p t := by
  cases h : newDb env fuel s p t with
  | none => rw [edit_none env diag fuel s p t h]
  | some d => rw [edit_some env diag fuel s p t d h]

theorem run_disk (env : Env) (diag : DiagFn D) (fuel : Nat) (disk : Fs) (h : List (Path × Text)) :
    (run env diag fuel disk h).disk = disk :=
  run_inv env diag fuel disk (fun s => s.disk = disk) rfl
    (fun s p t hs => by rw [edit_disk]; exact hs) h

/-- `newDb = some d` unpacked -/
theorem newDb_some (env : Env) (fuel : Nat) (s : St D) (p : Path) (t : Text) (d : Db)
    (h : newDb env fuel s p t = some d) :
    ∃ d0, s.db = some d0 ∧
      setRoot env (overlay s.disk (fun q => if q = p then some t else s.buffers q)) fuel p
        (d0.setContent p t) = some d := by
  unfold newDb at h
  cases hs : s.db with
  | none => rw [hs] at h; simp at h
  | some d0 =>
    rw [hs] at h
    simp only [Option.map_some, Option.bind_some] at h
    exact ⟨d0, rfl, h⟩

/-! ### contents track the overlay -/

theorem edit_tracks (env : Env) (diag : DiagFn D) (fuel : Nat) (s : St D) (p : Path) (t : Text)
    (hs : ∀ d, s.db = some d → Tracks (overlay s.disk s.buffers) d) :
    ∀ d, (edit env diag fuel s p t).db = some d →
      Tracks (overlay (edit env diag fuel s p t).disk (edit env diag fuel s p t).buffers) d := by
  intro d hd
  rw [edit_db] at hd
  rw [edit_disk, edit_buffers]
  obtain ⟨d0, hd0, hset⟩ := newDb_some env fuel s p t d hd
  refine setRoot_tracks env _ fuel p (d0.setContent p t) d ?_ hset
  intro q u hq
  simp only [Db.setContent] at hq
  by_cases hqp : q = p
  · simp only [hqp, if_true] at hq
    simp only [overlay, hqp, if_true]
    exact hq
  · simp only [hqp, if_false] at hq
    have := hs d0 hd0 q u hq
    simp only [overlay, hqp, if_false] at this ⊢
    exact this

/-- every text the host holds is the overlay's text for that path (the editor's text if the
document was ever opened, else the on-disk text) -/
theorem content_is_overlay (env : Env) (diag : DiagFn D) (fuel : Nat) (disk : Fs) (h : List (Path × Text))
    (d : Db) (hd : (run env diag fuel disk h).db = some d) :
    ∀ q t, d.content q = some t → overlay disk (run env diag fuel disk h).buffers q = some t := by
  have key := run_inv env diag fuel disk
    (fun s => ∀ d, s.db = some d → Tracks (overlay s.disk s.buffers) d)
    (by
      intro d hd q t hq
      simp only [Option.some.injEq] at hd
      subst hd
      simp at hq)
    (fun s p t hs => edit_tracks env diag fuel s p t hs) h
  have := key d hd
  rw [run_disk] at this
  exact this

/-! ### workspace files have content -/

theorem resolveAll_isSome (env : Env) (fs : Fs) (f : Path) (l : List (Name × Nat)) :
    ∀ (d : Db) (p : Path), (d.content p).isSome = true →
      ((resolveAll env fs f l d).2.content p).isSome = true := by
  induction l with
  | nil => intro d p h; exact h
  | cons x rest ih =>
    intro d p h
    obtain ⟨n, i⟩ := x
    cases hr : env.resolve fs f n with
    | none => simp only [resolveAll, hr]; exact ih _ _ h
    | some target =>
      cases ht : fs target with
      | none => simp only [resolveAll, hr, ht]; exact ih _ _ h
      | some t =>
        simp only [resolveAll, hr, ht]
        apply ih
        simp only [Db.setContent]
        by_cases hp : p = target
        · simp [hp]
        · simp only [hp, if_false]; exact h

theorem collect_isSome (env : Env) (fs : Fs) :
    ∀ (fuel : Nat) (q vis : List Path) (d : Db) (r : List Path × Db),
      (∀ f ∈ vis, (d.content f).isSome = true) → collect env fs fuel q vis d = some r →
      ∀ f ∈ r.1, (r.2.content f).isSome = true := by
  intro fuel
  induction fuel with
  | zero => intro q vis d r _ hc; simp [collect] at hc
  | succ n ih =>
    intro q vis d r hd hc
    cases q with
    | nil =>
      simp only [collect, Option.some.injEq] at hc
      subst hc; exact hd
    | cons f q =>
      simp only [collect] at hc
      by_cases hvis : vis.contains f = true
      · simp only [hvis, if_true] at hc
        exact ih q vis d r hd hc
      · simp only [hvis] at hc
        cases hcf : d.content f with
        | none => rw [hcf] at hc; simp at hc
        | some t =>
          rw [hcf] at hc
          simp only [Bool.false_eq_true, if_false] at hc
          refine ih _ _ _ r ?_ hc
          intro g hg
          simp only
          apply resolveAll_isSome
          rcases List.mem_cons.mp hg with hg | hg
          · subst hg; simp [hcf]
          · exact hd g hg

theorem setRoot_isSome (env : Env) (fs : Fs) (fuel : Nat) (root : Path) (d d' : Db)
    (hs : setRoot env fs fuel root d = some d') : ∀ f ∈ d'.files, (d'.content f).isSome = true := by
  unfold setRoot at hs
  cases hc : collect env fs fuel [root] [] d with
  | none => rw [hc] at hs; simp at hs
  | some r =>
    rw [hc] at hs
    simp only [Option.some.injEq] at hs
    subst hs
    exact collect_isSome env fs fuel _ _ d r (by intro f hf; cases hf) hc

theorem exists_snoc {α : Type} (h : List α) (hne : h ≠ []) : ∃ pre e, h = pre ++ [e] :=
  ⟨h.dropLast, h.getLast hne, (List.dropLast_concat_getLast hne).symm⟩

/-- every workspace file has a text in the host -/
theorem workspace_has_content (env : Env) (diag : DiagFn D) (fuel : Nat) (disk : Fs) (h : List (Path × Text))
    (hne : h ≠ []) (d : Db) (hd : (run env diag fuel disk h).db = some d) :
    ∀ q ∈ d.files, ∃ t, d.content q = some t := by
  obtain ⟨pre, e, rfl⟩ := exists_snoc h hne
  rw [run_snoc, edit_db] at hd
  obtain ⟨d0, _, hset⟩ := newDb_some env fuel _ e.1 e.2 d hd
  intro q hq
  have := setRoot_isSome env _ fuel e.1 _ d hset q hq
  exact Option.isSome_iff_exists.mp this

/-! ### buffers -/

theorem foldl_buffers_other (env : Env) (diag : DiagFn D) (fuel : Nat) (p : Path) (h : List (Path × Text))
    (hp : ∀ e ∈ h, e.1 ≠ p) :
    ∀ s : St D, (h.foldl (fun s e => edit env diag fuel s e.1 e.2) s).buffers p = s.buffers p := by
  induction h with
  | nil => intro s; rfl
  | cons e rest ih =>
    intro s
    simp only [List.foldl_cons]
    rw [ih (fun e' he' => hp e' (List.mem_cons_of_mem _ he')), edit_buffers]
    have : p ≠ e.1 := fun h => hp e (List.mem_cons_self ..) h.symm
    simp [this]

/-- the buffers are exactly the latest text sent for each document -/
theorem buffers_latest (env : Env) (diag : DiagFn D) (fuel : Nat) (disk : Fs) (pre : List (Path × Text))
    (p : Path) (t : Text) (post : List (Path × Text)) (hpost : ∀ e ∈ post, e.1 ≠ p) :
    (run env diag fuel disk (pre ++ (p, t) :: post)).buffers p = some t := by
  unfold run
  rw [List.foldl_append, List.foldl_cons, foldl_buffers_other env diag fuel p post hpost, edit_buffers]
  simp

theorem buffers_unopened (env : Env) (diag : DiagFn D) (fuel : Nat) (disk : Fs) (h : List (Path × Text))
    (p : Path) (hp : ∀ e ∈ h, e.1 ≠ p) : (run env diag fuel disk h).buffers p = none := by
  unfold run
  rw [foldl_buffers_other env diag fuel p h hp]

/-! ### the client's view -/

/-- documents outside `published` have no entry or an empty one -/
def ViewInv (s : St D) : Prop :=
  ∀ f, f ∉ s.published → s.view f = none ∨ ∃ pb, s.view f = some pb ∧ pb.diags = []

theorem edit_some_view_out (env : Env) (diag : DiagFn D) (fuel : Nat) (s : St D) (p : Path) (t : Text)
    (d : Db) (h : newDb env fuel s p t = some d) (hs : ViewInv s) (f : Path) (hf : f ∉ d.files) :
    (edit env diag fuel s p t).view f = none ∨
      ∃ pb, (edit env diag fuel s p t).view f = some pb ∧ pb.diags = [] := by
  rw [edit_some env diag fuel s p t d h]
  simp only [publish, observe]
  by_cases hst : (s.published.filter (fun q => !d.files.contains q)).contains f = true
  · right
    simp only [hst, if_true]
    exact ⟨_, rfl, rfl⟩
  · have hfc : d.files.contains f = false := by
      simpa [List.contains_iff_mem] using hf
    simp only [hst, hfc, Bool.false_eq_true, if_false]
    apply hs
    intro hfp
    apply hst
    rw [List.contains_iff_mem, List.mem_filter]
    exact ⟨hfp, by simpa using hf⟩

theorem edit_viewInv (env : Env) (diag : DiagFn D) (fuel : Nat) (s : St D) (p : Path) (t : Text)
    (hs : ViewInv s) : ViewInv (edit env diag fuel s p t) := by
  cases h : newDb env fuel s p t with
  | none =>
    rw [edit_none env diag fuel s p t h]
    exact hs
  | some d =>
    intro f hf
    have hpub : (edit env diag fuel s p t).published = d.files := by
      rw [edit_some env diag fuel s p t d h]; rfl
    rw [hpub] at hf
    exact edit_some_view_out env diag fuel s p t d h hs f hf

theorem run_viewInv (env : Env) (diag : DiagFn D) (fuel : Nat) (disk : Fs) (h : List (Path × Text)) :
    ViewInv (run env diag fuel disk h) :=
  run_inv env diag fuel disk ViewInv (fun _ _ => Or.inl rfl)
    (fun s p t hs => edit_viewInv env diag fuel s p t hs) h

/-- after the last update has run, the client's view of every workspace file is the diagnostics of
the final state with the latest version, and every other document has no entry or an empty one -/
theorem view_converged (env : Env) (diag : DiagFn D) (fuel : Nat) (disk : Fs) (h : List (Path × Text))
    (hne : h ≠ []) (d : Db) (hd : (run env diag fuel disk h).db = some d) :
    (∀ f ∈ d.files, ∃ pb, (run env diag fuel disk h).view f = some pb ∧ pb.diags = diag (observe d) f ∧
        pb.version + 1 = (run env diag fuel disk h).version) ∧
    (∀ f, f ∉ d.files → (run env diag fuel disk h).view f = none ∨
        ∃ pb, (run env diag fuel disk h).view f = some pb ∧ pb.diags = []) := by
  obtain ⟨pre, e, rfl⟩ := exists_snoc h hne
  rw [run_snoc] at hd ⊢
  rw [edit_db] at hd
  refine ⟨?_, ?_⟩
  · intro f hf
    rw [edit_some env diag fuel _ e.1 e.2 d hd]
    simp only [publish, observe]
    have hst : ((run env diag fuel disk pre).published.filter
        (fun q => !d.files.contains q)).contains f = false := by
      apply Bool.eq_false_iff.mpr
      intro hc
      rw [List.contains_iff_mem, List.mem_filter] at hc
      simp at hc
      exact hc.2 hf
    have hfc : d.files.contains f = true := List.contains_iff_mem.mpr hf
    simp only [hst, hfc, Bool.false_eq_true, if_false, if_true]
    exact ⟨_, rfl, rfl, rfl⟩
  · intro f hf
    exact edit_some_view_out env diag fuel _ e.1 e.2 d hd (run_viewInv env diag fuel disk pre) f hf

/-! ### the notification log -/

theorem pairwise_prepend (v : Nat) (l1 l2 : List Nat) (h1 : ∀ a ∈ l1, a = v)
    (h2 : l2.Pairwise (fun newer older => older ≤ newer)) (h3 : ∀ a ∈ l2, a ≤ v) :
    (l1 ++ l2).Pairwise (fun newer older => older ≤ newer) := by
  induction l1 with
  | nil => exact h2
  | cons a rest ih =>
    rw [List.cons_append, List.pairwise_cons]
    refine ⟨?_, ih (fun b hb => h1 b (List.mem_cons_of_mem _ hb))⟩
    intro b hb
    rw [h1 a (List.mem_cons_self ..)]
    rcases List.mem_append.mp hb with hb | hb
    · rw [h1 b (List.mem_cons_of_mem _ hb)]; exact Nat.le_refl _
    · exact h3 b hb

def LogInv (s : St D) : Prop :=
  (s.log.map (·.2)).Pairwise (fun newer older => older ≤ newer) ∧ ∀ e ∈ s.log, e.2 < s.version

theorem edit_logInv (env : Env) (diag : DiagFn D) (fuel : Nat) (s : St D) (p : Path) (t : Text)
    (hs : LogInv s) : LogInv (edit env diag fuel s p t) := by
  cases h : newDb env fuel s p t with
  | none =>
    rw [edit_none env diag fuel s p t h]
    exact hs
  | some d =>
    rw [edit_some env diag fuel s p t d h]
    obtain ⟨hp, hv⟩ := hs
    constructor
    · simp only [List.map_append, List.map_map]
      rw [List.append_assoc]
      rw [← List.append_assoc]
      apply pairwise_prepend s.version
      · intro a ha
        rcases List.mem_append.mp ha with ha | ha
        · obtain ⟨x, _, hx⟩ := List.mem_map.mp ha; exact hx.symm
        · obtain ⟨x, _, hx⟩ := List.mem_map.mp ha; exact hx.symm
      · exact hp
      · intro a ha
        obtain ⟨x, hx, hxa⟩ := List.mem_map.mp ha
        rw [← hxa]; exact Nat.le_of_lt (hv x hx)
    · intro e he
      simp only [List.mem_append, List.mem_map] at he
      show e.2 < s.version + 1
      rcases he with (⟨x, _, hx⟩ | ⟨x, _, hx⟩) | he
      · rw [← hx]; exact Nat.lt_succ_self _
      · rw [← hx]; exact Nat.lt_succ_self _
      · exact Nat.lt_succ_of_lt (hv e he)

/-- notifications carry non-decreasing versions (the log is newest first) -/
theorem log_versions_sorted (env : Env) (diag : DiagFn D) (fuel : Nat) (disk : Fs) (h : List (Path × Text)) :
    ((run env diag fuel disk h).log.map (·.2)).Pairwise (fun newer older => older ≤ newer) ∧
    ∀ e ∈ (run env diag fuel disk h).log, e.2 < (run env diag fuel disk h).version :=
  run_inv env diag fuel disk LogInv ⟨List.Pairwise.nil, fun e he => by cases he⟩
    (fun s p t hs => edit_logInv env diag fuel s p t hs) h

end Session
end Tg
