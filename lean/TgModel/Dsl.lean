/-
The parser of `crates/syntax/src/parser.rs` as a deep-embedded program language.

`Prog` has one constructor per `ParserBase` primitive plus structured control flow; `exec` is its
fuel-indexed interpreter over `PState` (look-ahead token, token source, rowan-style builder,
error list, `is_after_error`).  `Grammar.lean` writes the ~60 functions of `grammar/*.rs` as
`Prog` terms.  Properties that hold for *every* program (losslessness, error ranges) are proved
once by induction over `exec`.
-/
import TgModel.Prep

namespace Tg

/-- green tree (rowan): nodes with children, tokens with text -/
inductive Tree where
  | node (k : SyntaxKind) (children : List Tree)
  | token (k : SyntaxKind) (text : List Char)
deriving Repr, Inhabited

structure SynError where
  start : Nat
  stop : Nat
  msg : String
deriving Repr

/-- rowan `GreenNodeBuilder`, kept as a stack of frames: `cur` = children (most recent first) of the
innermost open node, `parents` = enclosing open nodes with the children they had when the inner
node was opened.  (rowan keeps one flat child vector plus first-child indices; a checkpoint there
is an absolute index, here it is (frame depth, index in frame).) -/
structure Builder where
  cur : List Tree := []
  parents : List (SyntaxKind × List Tree) := []
deriving Repr

structure PState where
  cur : TokenKind
  curText : List Char
  curStart : Nat            -- byte offset of `cur` in the input
  src : Src
  b : Builder := {}
  errors : List SynError := []      -- most recent first
  afterError : Bool := false
  flag : Bool := true               -- result of the last boolean-valued primitive/call
  cps : List (Nat × Nat) := []      -- saved checkpoints (frame depth, index), innermost first
  cap : Nat := 0                    -- input length + 2: fuel for trivia skipping (constant)
  locals : List Bool := []          -- mutable boolean locals (innermost first)
  steps : Nat := 0                  -- bumped by start_node / lex (the Rust hook counts the same)
deriving Repr

/-- names of the grammar functions of `grammar/*.rs` (a trailing `_` avoids Lean keywords) -/
inductive Fn where
  | source_file
  | statement_list_top
  | statement_list_block
  | statement_list_single_or_block
  | statement
  | include
  | class_
  | def_
  | object_name
  | let_
  | let_list
  | let_item
  | multi_class
  | multi_class_statements
  | multi_class_statement
  | defm
  | defset
  | defvar
  | dump
  | foreach
  | foreach_iterator
  | foreach_iterator_init
  | if_
  | assert_
  | opt_template_arg_list
  | template_arg_list
  | template_arg_decl
  | record_body
  | parent_class_list
  | class_ref
  | arg_value_list
  | arg_value
  | body
  | body_item
  | field_def
  | field_let
  | type_
  | bit_type
  | int_type
  | string_type
  | dag_type
  | bits_type
  | list_type
  | class_id
  | code_type
  | opt_value
  | value
  | inner_value
  | opt_name_value
  | name_value
  | inner_name_value
  | value_suffix
  | range_suffix
  | range_list
  | range_piece
  | slice_suffix
  | slice_elements
  | slice_element
  | field_suffix
  | simple_value
  | integer
  | string_
  | code
  | boolean
  | uninitialized
  | bits
  | list_
  | dag
  | dagarg_list
  | dagarg
  | var_name
  | identifier
  | identifier_or_class_value
  | bang_operator
  | cond_operator
  | cond_clause
deriving DecidableEq, Repr, Inhabited

def Fn.all : List Fn := [.source_file, .statement_list_top, .statement_list_block, .statement_list_single_or_block, .statement, .include, .class_, .def_, .object_name, .let_, .let_list, .let_item, .multi_class, .multi_class_statements, .multi_class_statement, .defm, .defset, .defvar, .dump, .foreach, .foreach_iterator, .foreach_iterator_init, .if_, .assert_, .opt_template_arg_list, .template_arg_list, .template_arg_decl, .record_body, .parent_class_list, .class_ref, .arg_value_list, .arg_value, .body, .body_item, .field_def, .field_let, .type_, .bit_type, .int_type, .string_type, .dag_type, .bits_type, .list_type, .class_id, .code_type, .opt_value, .value, .inner_value, .opt_name_value, .name_value, .inner_name_value, .value_suffix, .range_suffix, .range_list, .range_piece, .slice_suffix, .slice_elements, .slice_element, .field_suffix, .simple_value, .integer, .string_, .code, .boolean, .uninitialized, .bits, .list_, .dag, .dagarg_list, .dagarg, .var_name, .identifier, .identifier_or_class_value, .bang_operator, .cond_operator, .cond_clause]

inductive Prog where
  | nop
  | startNode (k : SyntaxKind)
  | finishNode
  | pushCp                         -- `let c = p.checkpoint()`
  | popCp
  | startNodeAtCp (k : SyntaxKind) -- `p.start_node_at(c, k)`
  | eat
  | skip
  | eatIf (k : TokenKind)          -- sets flag
  | expect (k : TokenKind) (msg : Option String)   -- `expect` / `expect_with_msg`
  | assertTok (k : TokenKind)
  | error (msg : String)
  | errorAndEat (msg : String)
  | errorAndRecover (msg : String)
  | retB (b : Bool)                -- set flag
  | seq (a b : Prog)
  | ifAt (ks : List TokenKind) (t e : Prog)      -- `if p.at_set(ks)`
  | ifFlag (t e : Prog)
  | loop (cond body : Prog)        -- `while cond { body }` where cond leaves its answer in flag
  | call (f : Fn)
  | pushLocal                      -- `let mut b = false`
  | popLocal
  | setLocal
  | ifLocal (t e : Prog)
deriving Repr, Inhabited

/-- the panic sites of parser.rs / rowan that the model can reach -/
inductive Why where
  | errorTokenWithoutMessage   -- `.expect("error token without message")` in `save`
  | assertFailed               -- `assert!(self.eat_if(kind))`
  | finishWithoutStart         -- rowan: finish_node with no open node
  | badCheckpoint              -- rowan: checkpoint no longer valid
  | noCheckpoint
  | rootCount                  -- rowan: `finish` with other than one root
deriving DecidableEq, Repr

inductive Res where
  | ok (s : PState)
  | panic (why : Why)
  | outOfFuel
deriving Repr

abbrev Defs := Fn → Prog

namespace PState

def peek (s : PState) : TokenKind := s.cur

/-- `ParserBase::error` -/
def error (s : PState) (msg : String) : PState :=
  { s with errors := { start := s.curStart, stop := s.curStart + byteLen s.curText, msg := msg } :: s.errors,
           afterError := true }

/-- `builder.token(kind, text)` for the look-ahead token -/
def pushTok (s : PState) : PState :=
  { s with b := { cur := Tree.token s.cur.toSyntax s.curText :: s.b.cur, parents := s.b.parents } }

/-- `save`: emit the current token as a leaf; an Error token fetches its parked message -/
def save (s : PState) : Res :=
  if s.cur == .Error then
    match s.src.takeError with
    | (some m, src) => .ok ({ s.pushTok with src := src }.error m)
    | (none, _) => .panic .errorTokenWithoutMessage
  else .ok { s.pushTok with afterError := false }

/-- `lex`: fetch the next token from the token source -/
def lex (s : PState) : PState :=
  let (t, src) := s.src.eat
  { s with cur := t.kind, curText := t.text, curStart := s.curStart + byteLen s.curText, src := src,
           steps := s.steps + 1 }

/-- `skip`: `while self.current.is_trivia() { save; lex }` -/
def skip : Nat → PState → Res
  | 0, _ => .outOfFuel
  | fuel+1, s =>
    if s.cur.isTrivia then
      match s.save with
      | .ok s1 => skip fuel s1.lex
      | r => r
    else .ok s

def skipFuel (s : PState) : Nat := s.cap

/-- `eat` = save; lex; skip -/
def eat (s : PState) : Res :=
  match s.save with
  | .ok s1 => let s2 := s1.lex; skip (skipFuel s2) s2
  | r => r

/-- `token_stream.cursor()`: the byte offset just after the look-ahead token -/
def cursor (s : PState) : Nat := s.curStart + byteLen s.curText

/-- the error part of `ParserBase::finish`: when the look-ahead is `Eof`, a message still parked in
the token source (an unterminated conditional) becomes an error at the end of the text -/
def finish (s : PState) : PState :=
  if s.cur == .Eof then
    match s.src.takeError with
    | (some m, src) =>
      { s with src := src, errors := { start := s.cursor, stop := s.cursor, msg := m } :: s.errors }
    | (none, src) => { s with src := src }
  else s

def startNode (s : PState) (k : SyntaxKind) : PState :=
  { s with b := { cur := [], parents := (k, s.b.cur) :: s.b.parents }, steps := s.steps + 1 }

def finishNode (s : PState) : Res :=
  match s.b.parents with
  | [] => .panic .finishWithoutStart
  | (k, sibs) :: ps =>
    .ok { s with b := { cur := Tree.node k s.b.cur.reverse :: sibs, parents := ps } }

def startNodeAt (s : PState) (cp : Nat × Nat) (k : SyntaxKind) : Res :=
  if cp.1 != s.b.parents.length then .panic .badCheckpoint
  else if cp.2 > s.b.cur.length then .panic .badCheckpoint
  else
    let n := s.b.cur.length - cp.2
    .ok { s with b := { cur := s.b.cur.take n, parents := (k, s.b.cur.drop n) :: s.b.parents },
                 steps := s.steps + 1 }

end PState

def expectedMsg (k : TokenKind) : String := "expected " ++ k.name

def exec (defs : Defs) (recover : List TokenKind) : Nat → Prog → PState → Res
  | 0, _, _ => .outOfFuel
  | fuel+1, p, s =>
    match p with
    | .nop => .ok s
    | .startNode k => .ok (s.startNode k)
    | .finishNode => s.finishNode
    | .pushCp => .ok { s with cps := (s.b.parents.length, s.b.cur.length) :: s.cps }
    | .popCp => .ok { s with cps := s.cps.tail }
    | .startNodeAtCp k =>
      match s.cps with
      | cp :: _ => s.startNodeAt cp k
      | [] => .panic .noCheckpoint
    | .eat => s.eat
    | .skip => PState.skip s.skipFuel s
    | .eatIf k =>
      if s.cur == k then
        match s.eat with
        | .ok s1 => .ok { s1 with flag := true }
        | r => r
      else .ok { s with flag := false }
    | .expect k msg =>
      if s.cur == k then s.eat
      else if s.afterError then .ok s
      else .ok (s.error (msg.getD (expectedMsg k)))
    | .assertTok k =>
      if s.cur == k then s.eat else .panic .assertFailed
    | .error msg => .ok (s.error msg)
    | .errorAndEat msg =>
      match (s.error msg |>.startNode .Error).eat with
      | .ok s1 => s1.finishNode
      | r => r
    | .errorAndRecover msg =>
      let s1 := s.error msg
      if !recover.contains s1.cur && s1.cur != .Eof then
        match (s1.startNode .Error).eat with
        | .ok s2 => s2.finishNode
        | r => r
      else .ok s1
    | .retB b => .ok { s with flag := b }
    | .seq a b =>
      match exec defs recover fuel a s with
      | .ok s1 => exec defs recover fuel b s1
      | r => r
    | .ifAt ks t e => if ks.contains s.cur then exec defs recover fuel t s else exec defs recover fuel e s
    | .ifFlag t e => if s.flag then exec defs recover fuel t s else exec defs recover fuel e s
    | .loop c b =>
      match exec defs recover fuel c s with
      | .ok s1 =>
        if s1.flag then
          match exec defs recover fuel b s1 with
          | .ok s2 => exec defs recover fuel (.loop c b) s2
          | r => r
        else .ok s1
      | r => r
    | .call f => exec defs recover fuel (defs f) s
    | .pushLocal => .ok { s with locals := false :: s.locals }
    | .popLocal => .ok { s with locals := s.locals.tail }
    | .setLocal => .ok { s with locals := true :: s.locals.tail }
    | .ifLocal t e =>
      if s.locals.head? == some true then exec defs recover fuel t s else exec defs recover fuel e s

/-- the error `ParserBase::finish` appends for this text (`PState.finish_errors`): the message
left in the token source, at the end of the text -/
def endErrors (input : List Char) : List SynError :=
  match Src.endMessage input with
  | some m => [{ start := byteLen input, stop := byteLen input, msg := m }]
  | none => []

/-- `ParserBase::new` -/
def PState.init (input : List Char) : PState :=
  let (t, src) := (Src.init input).eat
  { cur := t.kind, curText := t.text, curStart := 0, src := src, cap := input.length + 2 }

end Tg
