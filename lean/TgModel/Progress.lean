/-
A static progress/no-panic checker for `Prog` programs (the parser DSL of `Dsl.lean`).

`analyze` is a forward abstract interpretation: a fact about the look-ahead kind, what is known
about the boolean flag, whether input was consumed since the current reference point (`must`) and
since function entry (`c`).  Functions are summarised (`Summ`: entry fact ↦ possible exits); a call
must be preceded by consumption since function entry or go to a strictly lower rank; every loop
iteration that continues must consume; every `assertTok k` must be reached with `cur = k`.
`Lemmas/ProgressSound.lean` proves that `check = true` implies termination without
`assertFailed`/`errorTokenWithoutMessage` panics for every input.
-/
import TgModel.Dsl

namespace Tg
namespace Progress

inductive Fact where
  | any
  | inS (ks : List TokenKind)
  | notInS (ks : List TokenKind)
deriving Repr, DecidableEq

def Fact.holds : Fact → TokenKind → Prop
  | .any, _ => True
  | .inS ks, k => k ∈ ks
  | .notInS ks, k => k ∉ ks

def Fact.entails : Fact → Fact → Bool
  | _, .any => true
  | .inS a, .inS b => a.all (fun k => b.contains k)
  | .inS a, .notInS b => a.all (fun k => !b.contains k)
  | .notInS a, .notInS b => b.all (fun k => a.contains k)
  | _, _ => false

def Fact.meetIn : Fact → List TokenKind → Fact
  | .any, ks => .inS ks
  | .inS a, ks => .inS (a.filter (fun k => ks.contains k))
  | .notInS a, ks => .inS (ks.filter (fun k => !a.contains k))

def Fact.meetNotIn : Fact → List TokenKind → Fact
  | .any, ks => .notInS ks
  | .inS a, ks => .inS (a.filter (fun k => !ks.contains k))
  | .notInS a, ks => .notInS (a ++ ks)

/-- the fact is unsatisfiable -/
def Fact.isBot : Fact → Bool
  | .inS [] => true
  | _ => false

/-- abstract state -/
structure AS where
  fact : Fact
  fl : Option Bool     -- what is known about `flag`
  must : Bool          -- input consumed since the reference point of the analysed fragment
  c : Bool             -- input consumed since function entry
deriving Repr, DecidableEq

structure Summ where
  pre : Fact
  exits : List AS      -- `must`/`c` relative to function entry (kept equal)
deriving Repr

abbrev Summs := Fn → List Summ
abbrev Ranks := Fn → Nat

def notEof (f : Fact) : Bool := f.entails (.notInS [.Eof])

/-- state after one `eat` -/
def AS.eaten (a : AS) (fl : Option Bool) (consumed : Bool) : AS :=
  { fact := .any, fl := fl, must := a.must || consumed, c := a.c || consumed }

def findSumm (l : List Summ) (f : Fact) : Option Summ :=
  match l with
  | [] => none
  | s :: t => if f.entails s.pre then some s else findSumm t f

def both (r1 r2 : Option (List AS)) : Option (List AS) :=
  match r1, r2 with
  | some l1, some l2 => some (l1 ++ l2)
  | _, _ => none

/-- run `g` from every state in `outs` and collect all results -/
def seqOuts (g : AS → Option (List AS)) (outs : List AS) : Option (List AS) :=
  outs.foldr (fun o acc => both (g o) acc) (some [])

def analyze (summs : Summs) (lt : Fn → Fn → Bool) (recover : List TokenKind) (self : Fn) :
    Prog → AS → Option (List AS)
  | .nop, a => some [a]
  | .startNode _, a => some [a]
  | .finishNode, a => some [a]
  | .pushCp, a => some [a]
  | .popCp, a => some [a]
  | .startNodeAtCp _, a => some [a]
  | .pushLocal, a => some [a]
  | .popLocal, a => some [a]
  | .setLocal, a => some [a]
  | .eat, a => some [a.eaten a.fl (notEof a.fact)]
  | .skip, a => some [{ a with fact := .any }]
  | .eatIf k, a =>
    let t := if (a.fact.meetIn [k]).isBot then [] else [a.eaten (some true) (k != .Eof)]
    let f := if a.fact.entails (.inS [k]) then [] else [{ a with fact := a.fact.meetNotIn [k], fl := some false }]
    some (t ++ f)
  | .expect k _, a =>
    let t := if (a.fact.meetIn [k]).isBot then [] else [a.eaten a.fl (k != .Eof)]
    let f := if a.fact.entails (.inS [k]) then [] else [{ a with fact := a.fact.meetNotIn [k] }]
    some (t ++ f)
  | .assertTok k, a => if a.fact.entails (.inS [k]) then some [a.eaten a.fl (k != .Eof)] else none
  | .error _, a => some [a]
  | .errorAndEat _, a => some [a.eaten a.fl (notEof a.fact)]
  | .errorAndRecover _, a =>
    let stay := a.fact.meetIn (.Eof :: recover)
    let t := if a.fact.entails (.inS (.Eof :: recover)) then [] else [a.eaten a.fl true]
    let f := if stay.isBot then [] else [{ a with fact := stay }]
    some (t ++ f)
  | .retB b, a => some [{ a with fl := some b }]
  | .seq p q, a =>
    match analyze summs lt recover self p a with
    | none => none
    | some outs => seqOuts (fun o => analyze summs lt recover self q o) outs
  | .ifAt ks t e, a =>
    let ft := a.fact.meetIn ks
    let fe := a.fact.meetNotIn ks
    let rt := if ft.isBot then some [] else analyze summs lt recover self t { a with fact := ft }
    let re := if a.fact.entails (.inS ks) then some [] else analyze summs lt recover self e { a with fact := fe }
    both rt re
  | .ifFlag t e, a =>
    match a.fl with
    | some true => analyze summs lt recover self t a
    | some false => analyze summs lt recover self e a
    | none =>
      both (analyze summs lt recover self t { a with fl := some true })
           (analyze summs lt recover self e { a with fl := some false })
  | .ifLocal t e, a =>
    both (analyze summs lt recover self t a) (analyze summs lt recover self e a)
  | .loop cnd body, a =>
    -- loop head: nothing known about cur/flag; `must` restarts at every iteration
    let head : AS := { fact := .any, fl := none, must := false, c := a.c }
    match analyze summs lt recover self cnd head with
    | none => none
    | some outsC =>
      -- every continuing path must consume in cond or body
      let bodyOk := outsC.all (fun oc =>
        if oc.fl == some false then true else
        match analyze summs lt recover self body { oc with fl := some true } with
        | some outsB => outsB.all (fun ob => ob.must)
        | none => false)
      if bodyOk then
        some ((outsC.filter (fun oc => oc.fl != some true)).map
          (fun oc => { fact := oc.fact, fl := some false, must := a.must || oc.must, c := a.c || oc.c }))
      else none
  | .call g, a =>
    match findSumm (summs g) a.fact with
    | none => none
    | some sm =>
      if a.c || lt g self then
        some (sm.exits.map (fun e => { fact := e.fact, fl := e.fl, must := a.must || e.must, c := a.c || e.c }))
      else none

/-- exit `o` of the analysis is covered by declared exit `e` -/
def covers (e o : AS) : Bool :=
  (e.fl == none || e.fl == o.fl) && (!e.must || o.must) && (!e.c || o.c) && o.fact.entails e.fact

def checkSumm (defs : Defs) (summs : Summs) (lt : Fn → Fn → Bool) (recover : List TokenKind) (f : Fn) (sm : Summ) : Bool :=
  match analyze summs lt recover f (defs f) { fact := sm.pre, fl := none, must := false, c := false } with
  | some outs => outs.all (fun o => sm.exits.any (fun e => covers e o))
  | none => false

def checkFn (defs : Defs) (summs : Summs) (lt : Fn → Fn → Bool) (recover : List TokenKind) (f : Fn) : Bool :=
  (summs f).all (checkSumm defs summs lt recover f)

def ltOfRanks (ranks : Ranks) (g f : Fn) : Bool := decide (ranks g < ranks f)

/-- the whole-grammar check -/
def check (defs : Defs) (summs : Summs) (ranks : Ranks) (recover : List TokenKind) : Bool :=
  Fn.all.all (checkFn defs summs (ltOfRanks ranks) recover)

end Progress
end Tg
