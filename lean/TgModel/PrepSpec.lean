/-
Abstract preprocessor: `preprocessor.rs` over the lexer's token *stream* (kinds, with the macro
name kept for identifiers), a declarative reference evaluation of well-nested conditionals, and
the selection theorem.  `PrepRefine.lean` proves that the concrete model `Src.eat` is this
abstract machine run over `Lex.allTokens`.
-/
import TgModel.Generated.Tables
namespace Tg
namespace PP

abbrev Name := List Char

inductive LK | ifdef | ifndef | else_ | endif | define | id (m : Name) | ws | other (k : TokenKind) (text : List Char)
deriving DecidableEq, Repr

inductive Out | pp | tok (k : LK) | error | eof
deriving DecidableEq, Repr

def LK.isTrivia : LK → Bool | .ws => true | _ => false

/-- skip trivia, return next token (none = eof) and the rest -/
def nextNotTrivia : List LK → Option LK × List LK
| [] => (none, [])
| k :: r => if k.isTrivia then nextNotTrivia r else (some k, r)

/-- `eat_until_else_or_endif`; returns rest and whether EOF was hit -/
def eatUntil : Nat → List LK → List LK × Bool
| _, [] => ([], true)
| d, k :: r =>
  match k with
  | .ifdef | .ifndef => eatUntil (d+1) r
  | .endif => if d ≥ 2 then eatUntil (d-1) r else (r, false)
  | .else_ => if d = 1 then (r, false) else eatUntil d r
  | _ => eatUntil d r

def disabled (ms : List Name) (m : Name) (neg : Bool) : Bool := ms.contains m == neg

structure PS where
  macros : List Name
  parked : Bool := false      -- "reached EOF without matching #endif" parked, never surfaced

def processIf (neg : Bool) (st : PS) (r : List LK) : Out × PS × List LK :=
  match nextNotTrivia r with
  | (some (.id m), r') =>
    if disabled st.macros m neg then
      let (r'', eof) := eatUntil 1 r'
      (.pp, { st with parked := st.parked || eof }, r'')
    else (.pp, st, r')
  | (_, r') => (.error, st, r')

def next (st : PS) : List LK → Out × PS × List LK
| [] => (.eof, st, [])
| k :: r =>
  match k with
  | .ifdef => processIf false st r
  | .ifndef => processIf true st r
  | .else_ => let (r', eof) := eatUntil 1 r; (.pp, { st with parked := st.parked || eof }, r')
  | .endif => (.pp, st, r)
  | .define =>
    match nextNotTrivia r with
    | (some (.id m), r') => (.pp, { st with macros := m :: st.macros }, r')
    | (_, r') => (.error, st, r')
  | k => (.tok k, st, r)

/-- run to EOF with fuel; collects outputs -/
def runAll : Nat → PS → List LK → Option (List Out)
| 0, _, _ => none
| n+1, st, r =>
  if (next st r).1 = .eof then some []
  else (runAll n (next st r).2.1 (next st r).2.2).map ((next st r).1 :: ·)

/-! ### well-nested items and the reference evaluation -/
mutual
inductive Item
| tok (k : LK)
| define (w : Nat) (m : Name)
| cond (neg : Bool) (w : Nat) (m : Name) (thn : Items) (hasElse : Bool) (els : Items)
inductive Items
| nil | cons (i : Item) (is : Items)
end

def LK.plain : LK → Bool
| .ifdef | .ifndef | .else_ | .endif | .define => false
| _ => true

mutual
def Item.ok : Item → Bool
| .tok k => k.plain
| .define _ _ => true
| .cond _ _ _ t _ e => t.ok && e.ok
def Items.ok : Items → Bool
| .nil => true
| .cons i is => i.ok && is.ok
end

mutual
def Item.flatten : Item → List LK
| .tok k => [k]
| .define w m => LK.define :: (List.replicate w LK.ws ++ [LK.id m])
| .cond neg w m t hasElse e =>
    (if neg then LK.ifndef else LK.ifdef) :: (List.replicate w LK.ws ++ (LK.id m :: (t.flatten ++
      ((if hasElse then LK.else_ :: e.flatten else []) ++ [LK.endif]))))
def Items.flatten : Items → List LK
| .nil => []
| .cons i is => i.flatten ++ is.flatten
end

-- reference: selected plain tokens and resulting macro set
mutual
def Item.ref (ms : List Name) : Item → List LK × List Name
| .tok k => ([k], ms)
| .define _ m => ([], m :: ms)
| .cond neg _ m t hasElse e =>
    if disabled ms m neg then (if hasElse then e.ref ms else ([], ms)) else t.ref ms
def Items.ref (ms : List Name) : Items → List LK × List Name
| .nil => ([], ms)
| .cons i is => let (a, ms1) := i.ref ms; let (b, ms2) := is.ref ms1; (a ++ b, ms2)
end

/-! ### key lemma: a disabled scan skips a whole well-nested item list at any depth ≥ 1 -/
theorem nextNotTrivia_ws (w : Nat) (k : LK) (hk : k.isTrivia = false) (r : List LK) :
    nextNotTrivia (List.replicate w LK.ws ++ k :: r) = (some k, r) := by
  induction w with
  | zero => simp [nextNotTrivia, hk]
  | succ w ih => simp [List.replicate_succ, nextNotTrivia, LK.isTrivia, ih]

theorem eatUntil_ws (d w : Nat) (r : List LK) :
    eatUntil d (List.replicate w LK.ws ++ r) = eatUntil d r := by
  induction w with
  | zero => simp
  | succ w ih => simp [List.replicate_succ, eatUntil, ih]

mutual
theorem Item.skip (i : Item) (hok : i.ok = true) (d : Nat) (hd : 1 ≤ d) (r : List LK) :
    eatUntil d (i.flatten ++ r) = eatUntil d r := by
  match i with
  | .tok k =>
    cases k <;> simp_all [Item.flatten, Item.ok, LK.plain, eatUntil]
  | .define w m =>
    simp [Item.flatten, eatUntil, eatUntil_ws]
  | .cond neg w m t hasElse e =>
    simp only [Item.ok, Bool.and_eq_true] at hok
    have ht := Items.skip t hok.1 (d+1) (by omega)
    have he := Items.skip e hok.2 (d+1) (by omega)
    have hstart : ∀ rr, eatUntil d ((if neg then LK.ifndef else LK.ifdef) :: rr) = eatUntil (d+1) rr := by
      intro rr; cases neg <;> simp [eatUntil]
    simp only [Item.flatten, List.cons_append, List.append_assoc, hstart, eatUntil_ws]
    simp only [eatUntil]
    rw [ht]
    cases hasElse with
    | false =>
      simp only [Bool.false_eq_true, if_false, List.nil_append, List.cons_append, eatUntil]
      simp [show d + 1 ≥ 2 by omega]
    | true =>
      simp only [if_true, List.cons_append, List.append_assoc, eatUntil]
      have : ¬ (d + 1 = 1) := by omega
      simp only [this, if_false]
      rw [he]
      simp [eatUntil, show d + 1 ≥ 2 by omega]
theorem Items.skip (is : Items) (hok : is.ok = true) (d : Nat) (hd : 1 ≤ d) (r : List LK) :
    eatUntil d (is.flatten ++ r) = eatUntil d r := by
  match is with
  | .nil => simp [Items.flatten]
  | .cons i is =>
    simp only [Items.ok, Bool.and_eq_true] at hok
    simp only [Items.flatten, List.append_assoc]
    rw [Item.skip i hok.1 d hd, Items.skip is hok.2 d hd]
end


/-! ### main theorem: enabled-mode processing selects exactly what the reference selects -/
def plains : List Out → List LK
| [] => []
| .tok k :: r => k :: plains r
| _ :: r => plains r

def noErr (l : List Out) : Prop := ∀ o ∈ l, o ≠ Out.error

theorem plains_append (a b : List Out) : plains (a ++ b) = plains a ++ plains b := by
  induction a with
  | nil => rfl
  | cons o a ih => cases o <;> simp [plains, ih]

/-- one non-eof step prepends its output -/
theorem runAll_step (st st' : PS) (r r' : List LK) (o : Out) (ho : o ≠ .eof)
    (hn : next st r = (o, st', r')) (n : Nat) (outs : List Out) (h : runAll n st' r' = some outs) :
    runAll (n+1) st r = some (o :: outs) := by
  simp [runAll, hn, ho, h]

theorem next_open (neg : Bool) (st : PS) (w : Nat) (m : Name) (tail : List LK) :
    next st ((if neg then LK.ifndef else LK.ifdef) :: (List.replicate w LK.ws ++ LK.id m :: tail)) =
      if disabled st.macros m neg then
        (.pp, { st with parked := st.parked || (eatUntil 1 tail).2 }, (eatUntil 1 tail).1)
      else (.pp, st, tail) := by
  have hw := nextNotTrivia_ws w (LK.id m) (by simp [LK.isTrivia]) tail
  cases neg <;> simp only [next, processIf, hw] <;> split <;> simp_all

mutual
theorem Item.sel (i : Item) (hok : i.ok = true) (st : PS) (rest : List LK) (n : Nat) (outs : List Out)
    (h : runAll n { st with macros := (i.ref st.macros).2 } rest = some outs) :
    ∃ n' pre, runAll n' st (i.flatten ++ rest) = some (pre ++ outs) ∧
      plains pre = (i.ref st.macros).1 ∧ noErr pre := by
  match i with
  | .tok k =>
    have hn : next st (k :: rest) = (.tok k, st, rest) := by
      cases k <;> simp_all [Item.ok, LK.plain, next]
    refine ⟨n+1, [.tok k], ?_, by simp [plains, Item.ref], by simp [noErr]⟩
    have := runAll_step st st _ _ _ (by simp) hn n outs (by simpa [Item.ref] using h)
    simpa [Item.flatten] using this
  | .define w m =>
    have hn : next st (LK.define :: (List.replicate w LK.ws ++ LK.id m :: rest)) =
        (.pp, { st with macros := m :: st.macros }, rest) := by
      have hw := nextNotTrivia_ws w (LK.id m) (by simp [LK.isTrivia]) rest
      simp [next, hw]
    refine ⟨n+1, [.pp], ?_, by simp [plains, Item.ref], by simp [noErr]⟩
    have := runAll_step st _ _ _ _ (by simp) hn n outs (by simpa [Item.ref] using h)
    simpa [Item.flatten] using this
  | .cond neg w m t hasElse e =>
    simp only [Item.ok, Bool.and_eq_true] at hok
    cases hdis : disabled st.macros m neg with
    | true =>
      cases hasElse with
      | false =>
        have hn : next st ((Item.cond neg w m t false e).flatten ++ rest) = (.pp, st, rest) := by
          simp only [Item.flatten, List.cons_append, List.append_assoc, next_open, hdis, if_true]
          simp [Items.skip t hok.1 1 (Nat.le_refl _), eatUntil]
        refine ⟨n+1, [.pp], ?_, by simp [plains, Item.ref, hdis], by simp [noErr]⟩
        exact runAll_step st st _ _ _ (by simp) hn n outs (by simpa [Item.ref, hdis] using h)
      | true =>
        have hn : next st ((Item.cond neg w m t true e).flatten ++ rest) =
            (.pp, st, e.flatten ++ (LK.endif :: rest)) := by
          simp only [Item.flatten, List.cons_append, List.append_assoc, next_open, hdis, if_true]
          simp [Items.skip t hok.1 1 (Nat.le_refl _), eatUntil]
        have hclose : runAll (n+1) { st with macros := (e.ref st.macros).2 } (LK.endif :: rest) = some (.pp :: outs) :=
          runAll_step _ { st with macros := (e.ref st.macros).2 } _ rest _ (by simp) (by simp [next]) n outs (by simpa [Item.ref, hdis] using h)
        obtain ⟨n2, pre, hrun, hpl, hne⟩ := Items.sel e hok.2 st (LK.endif :: rest) (n+1) (.pp :: outs) hclose
        refine ⟨n2+1, .pp :: (pre ++ [.pp]), ?_, ?_, ?_⟩
        · have := runAll_step st st _ _ _ (by simp) hn n2 (pre ++ .pp :: outs) hrun
          simpa using this
        · simp [plains, plains_append, Item.ref, hdis, hpl]
        · intro o ho; simp at ho; rcases ho with rfl | ho | rfl
          · simp
          · exact hne o ho
          · simp
    | false =>
      have hn : ∀ tail, next st ((if neg then LK.ifndef else LK.ifdef) :: (List.replicate w LK.ws ++ LK.id m :: tail)) = (.pp, st, tail) := by
        intro tail; simp [next_open, hdis]
      cases hasElse with
      | false =>
        have hclose : runAll (n+1) { st with macros := (t.ref st.macros).2 } (LK.endif :: rest) = some (.pp :: outs) :=
          runAll_step _ { st with macros := (t.ref st.macros).2 } _ rest _ (by simp) (by simp [next]) n outs (by simpa [Item.ref, hdis] using h)
        obtain ⟨n2, pre, hrun, hpl, hne⟩ := Items.sel t hok.1 st (LK.endif :: rest) (n+1) (.pp :: outs) hclose
        refine ⟨n2+1, .pp :: (pre ++ [.pp]), ?_, ?_, ?_⟩
        · have := runAll_step st st _ _ _ (by simp) (hn (t.flatten ++ (LK.endif :: rest))) n2 (pre ++ .pp :: outs) hrun
          simpa [Item.flatten] using this
        · simp [plains, plains_append, Item.ref, hdis, hpl]
        · intro o ho; simp at ho; rcases ho with rfl | ho | rfl
          · simp
          · exact hne o ho
          · simp
      | true =>
        have helse : next { st with macros := (t.ref st.macros).2 } (LK.else_ :: (e.flatten ++ (LK.endif :: rest))) =
            (.pp, { st with macros := (t.ref st.macros).2 }, rest) := by
          simp [next, Items.skip e hok.2 1 (Nat.le_refl _), eatUntil]
        have hclose := runAll_step _ _ _ _ _ (by simp) helse n outs (by simpa [Item.ref, hdis] using h)
        obtain ⟨n2, pre, hrun, hpl, hne⟩ := Items.sel t hok.1 st _ (n+1) (.pp :: outs) hclose
        refine ⟨n2+1, .pp :: (pre ++ [.pp]), ?_, ?_, ?_⟩
        · have := runAll_step st st _ _ _ (by simp) (hn (t.flatten ++ (LK.else_ :: (e.flatten ++ (LK.endif :: rest))))) n2 (pre ++ .pp :: outs) hrun
          simpa [Item.flatten] using this
        · simp [plains, plains_append, Item.ref, hdis, hpl]
        · intro o ho; simp at ho; rcases ho with rfl | ho | rfl
          · simp
          · exact hne o ho
          · simp
theorem Items.sel (is : Items) (hok : is.ok = true) (st : PS) (rest : List LK) (n : Nat) (outs : List Out)
    (h : runAll n { st with macros := (is.ref st.macros).2 } rest = some outs) :
    ∃ n' pre, runAll n' st (is.flatten ++ rest) = some (pre ++ outs) ∧
      plains pre = (is.ref st.macros).1 ∧ noErr pre := by
  match is with
  | .nil => exact ⟨n, [], by simpa [Items.flatten, Items.ref] using h, by simp [plains, Items.ref], by simp [noErr]⟩
  | .cons i is =>
    simp only [Items.ok, Bool.and_eq_true] at hok
    have h2 : runAll n { ({ st with macros := (i.ref st.macros).2 } : PS) with macros := (is.ref (i.ref st.macros).2).2 } rest = some outs := by
      simpa [Items.ref] using h
    obtain ⟨n1, pre1, hrun1, hpl1, hne1⟩ := Items.sel is hok.2 { st with macros := (i.ref st.macros).2 } rest n outs h2
    obtain ⟨n2, pre2, hrun2, hpl2, hne2⟩ := Item.sel i hok.1 st (is.flatten ++ rest) n1 (pre1 ++ outs) hrun1
    refine ⟨n2, pre2 ++ pre1, by simpa [Items.flatten, List.append_assoc] using hrun2, ?_, ?_⟩
    · simp [plains_append, hpl1, hpl2, Items.ref]
    · intro o ho; simp at ho; rcases ho with ho | ho
      · exact hne2 o ho
      · exact hne1 o ho
end

end PP
end Tg
