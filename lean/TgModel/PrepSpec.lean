/-
Abstract preprocessor: `preprocessor.rs` over the lexer's token *stream* (kinds, with the macro
name kept for identifiers), a declarative reference evaluation of well-nested conditionals, and
the selection theorem.  `PrepRefine.lean` proves that the concrete model `Src.eat` is this
abstract machine run over `Lex.allTokens`.
-/
import TgModel.Generated.Tables
namespace Tg
namespace PP

abbrev Name := List Char

inductive LK | ifdef | ifndef | else_ | endif | define | id (m : Name) | ws | other (k : TokenKind) (text : List Char)
deriving DecidableEq, Repr

inductive Out | pp | tok (k : LK) | error | eof
deriving DecidableEq, Repr

def LK.isTrivia : LK → Bool | .ws => true | _ => false

/-- skip trivia, return next token (none = eof) and the rest -/
def nextNotTrivia : List LK → Option LK × List LK
| [] => (none, [])
| k :: r => if k.isTrivia then nextNotTrivia r else (some k, r)

/-- how `eat_until_else_or_endif` left its loop -/
inductive End | else_ | endif | eof
deriving DecidableEq, Repr

/-- the loop of `eat_until_else_or_endif`; returns the rest and how the loop was left -/
def eatUntil : Nat → List LK → List LK × End
| _, [] => ([], .eof)
| d, k :: r =>
  match k with
  | .ifdef | .ifndef => eatUntil (d+1) r
  | .endif => if d ≥ 2 then eatUntil (d-1) r else (r, .endif)
  | .else_ => if d = 1 then (r, .else_) else eatUntil d r
  | _ => eatUntil d r

def disabled (ms : List Name) (m : Name) (neg : Bool) : Bool := ms.contains m == neg

/-- the message parked for the end of the text; its wording is read from `preprocessor.rs` on every run (`Tables.eofMessage`) -/
def eofMsg : String := String.ofList Tables.eofMessage
def nameMsg (neg : Bool) : String :=
  if neg then "expected macro name after #ifndef" else "expected macro name after #ifdef"
def defineMsg : String := "expected macro name after #define"

/-- a lexer token that parks a message in `Lexer::error` -/
def LK.isErr : LK → Bool
| .other k _ => k == .Error
| _ => false

/-- `PreProcessor` state: `macros`, `open_conditionals`, `error`, and whether the lexer below
holds a parked message (`Lexer::error.is_some()`) -/
structure PS where
  macros : List Name
  opens : Nat := 0
  err : Option String := none
  lexErr : Bool := false

theorem PS.eq_of {a b : PS} (h1 : a.macros = b.macros) (h2 : a.opens = b.opens) (h3 : a.err = b.err)
    (h4 : a.lexErr = b.lexErr) : a = b := by
  cases a; cases b; simp_all

/-- the lexer delivered `k`: an `Error` token parks its message -/
def PS.lexed (st : PS) (k : LK) : PS := { st with lexErr := st.lexErr || k.isErr }

/-- `PreProcessor::error`: a message the lexer parked is taken and dropped, then the message is
parked -/
def PS.error (st : PS) (m : String) : PS := { st with lexErr := false, err := some m }

/-- `eat_until_else_or_endif` from depth 1 (the lexer's parked message is dropped after the loop,
a skip that ran into the end of the text parks the message) together with the caller's
`if … == SkipEnd::Else { self.open_conditionals += 1 }` -/
def skip (st : PS) (r : List LK) : PS × List LK :=
  match eatUntil 1 r with
  | (r', .eof) => (st.error eofMsg, r')
  | (r', .else_) => ({ st with lexErr := false, opens := st.opens + 1 }, r')
  | (r', .endif) => ({ st with lexErr := false }, r')

def processIf (neg : Bool) (st : PS) (r : List LK) : Out × PS × List LK :=
  match nextNotTrivia r with
  | (some (.id m), r') =>
    if disabled st.macros m neg then (.pp, (skip st r').1, (skip st r').2)
    else (.pp, { st with opens := st.opens + 1 }, r')
  | (_, r') => (.error, st.error (nameMsg neg), r')

/-- the `Eof` arm of `next_token` -/
def atEof (st : PS) : PS :=
  if 0 < st.opens ∧ st.err = none then { st with opens := 0 }.error eofMsg else st

def next (st : PS) : List LK → Out × PS × List LK
| [] => (.eof, atEof st, [])
| k :: r =>
  match k with
  | .ifdef => processIf false st r
  | .ifndef => processIf true st r
  | .else_ => (.pp, (skip { st with opens := st.opens - 1 } r).1, (skip { st with opens := st.opens - 1 } r).2)
  | .endif => (.pp, { st with opens := st.opens - 1 }, r)
  | .define =>
    match nextNotTrivia r with
    | (some (.id m), r') => (.pp, { st with macros := m :: st.macros }, r')
    | (_, r') => (.error, st.error defineMsg, r')
  | k => (.tok k, st.lexed k, r)

/-- run to EOF with fuel; collects outputs -/
def runAll : Nat → PS → List LK → Option (List Out)
| 0, _, _ => none
| n+1, st, r =>
  if (next st r).1 = .eof then some []
  else (runAll n (next st r).2.1 (next st r).2.2).map ((next st r).1 :: ·)

/-- `take_error` (which message comes out is the concrete model's business; here: which slot is emptied) -/
def take (st : PS) : PS := if st.err.isSome then { st with err := none } else { st with lexErr := false }

/-- the outputs the parser sees as `Error` tokens -/
def Out.isError : Out → Bool
| .error => true
| .tok k => k.isErr
| _ => false

/-- the consumer's discipline (`ParserBase::save`): the message of an `Error` token is fetched
before the next token is asked for -/
def pull (o : Out) (st : PS) : PS := if o.isError then take st else st

/-- run to EOF under that discipline; the state in which `Eof` was delivered -/
def drain : Nat → PS → List LK → Option PS
| 0, _, _ => none
| n+1, st, r =>
  if (next st r).1 = .eof then some (next st r).2.1
  else drain n (pull (next st r).1 (next st r).2.1) (next st r).2.2

/-! ### well-nested items and the reference evaluation -/
mutual
inductive Item
| tok (k : LK)
| define (w : Nat) (m : Name)
| cond (neg : Bool) (w : Nat) (m : Name) (thn : Items) (hasElse : Bool) (els : Items)
inductive Items
| nil | cons (i : Item) (is : Items)
end

def LK.plain : LK → Bool
| .ifdef | .ifndef | .else_ | .endif | .define => false
| _ => true

mutual
def Item.ok : Item → Bool
| .tok k => k.plain
| .define _ _ => true
| .cond _ _ _ t _ e => t.ok && e.ok
def Items.ok : Items → Bool
| .nil => true
| .cons i is => i.ok && is.ok
end

mutual
def Item.flatten : Item → List LK
| .tok k => [k]
| .define w m => LK.define :: (List.replicate w LK.ws ++ [LK.id m])
| .cond neg w m t hasElse e =>
    (if neg then LK.ifndef else LK.ifdef) :: (List.replicate w LK.ws ++ (LK.id m :: (t.flatten ++
      ((if hasElse then LK.else_ :: e.flatten else []) ++ [LK.endif]))))
def Items.flatten : Items → List LK
| .nil => []
| .cons i is => i.flatten ++ is.flatten
end

-- reference: selected plain tokens and resulting macro set
mutual
def Item.ref (ms : List Name) : Item → List LK × List Name
| .tok k => ([k], ms)
| .define _ m => ([], m :: ms)
| .cond neg _ m t hasElse e =>
    if disabled ms m neg then (if hasElse then e.ref ms else ([], ms)) else t.ref ms
def Items.ref (ms : List Name) : Items → List LK × List Name
| .nil => ([], ms)
| .cons i is => let (a, ms1) := i.ref ms; let (b, ms2) := is.ref ms1; (a ++ b, ms2)
end

/-! ### key lemma: a disabled scan skips a whole well-nested item list at any depth ≥ 1 -/
theorem nextNotTrivia_ws (w : Nat) (k : LK) (hk : k.isTrivia = false) (r : List LK) :
    nextNotTrivia (List.replicate w LK.ws ++ k :: r) = (some k, r) := by
  induction w with
  | zero => simp [nextNotTrivia, hk]
  | succ w ih => simp [List.replicate_succ, nextNotTrivia, LK.isTrivia, ih]

theorem eatUntil_ws (d w : Nat) (r : List LK) :
    eatUntil d (List.replicate w LK.ws ++ r) = eatUntil d r := by
  induction w with
  | zero => simp
  | succ w ih => simp [List.replicate_succ, eatUntil, ih]

mutual
theorem Item.skip (i : Item) (hok : i.ok = true) (d : Nat) (hd : 1 ≤ d) (r : List LK) :
    eatUntil d (i.flatten ++ r) = eatUntil d r := by
  match i with
  | .tok k =>
    cases k <;> simp_all [Item.flatten, Item.ok, LK.plain, eatUntil]
  | .define w m =>
    simp [Item.flatten, eatUntil, eatUntil_ws]
  | .cond neg w m t hasElse e =>
    simp only [Item.ok, Bool.and_eq_true] at hok
    have ht := Items.skip t hok.1 (d+1) (by omega)
    have he := Items.skip e hok.2 (d+1) (by omega)
    have hstart : ∀ rr, eatUntil d ((if neg then LK.ifndef else LK.ifdef) :: rr) = eatUntil (d+1) rr := by
      intro rr; cases neg <;> simp [eatUntil]
    simp only [Item.flatten, List.cons_append, List.append_assoc, hstart, eatUntil_ws]
    simp only [eatUntil]
    rw [ht]
    cases hasElse with
    | false =>
      simp only [Bool.false_eq_true, if_false, List.nil_append, List.cons_append, eatUntil]
      simp [show d + 1 ≥ 2 by omega]
    | true =>
      simp only [if_true, List.cons_append, List.append_assoc, eatUntil]
      have : ¬ (d + 1 = 1) := by omega
      simp only [this, if_false]
      rw [he]
      simp [eatUntil, show d + 1 ≥ 2 by omega]
theorem Items.skip (is : Items) (hok : is.ok = true) (d : Nat) (hd : 1 ≤ d) (r : List LK) :
    eatUntil d (is.flatten ++ r) = eatUntil d r := by
  match is with
  | .nil => simp [Items.flatten]
  | .cons i is =>
    simp only [Items.ok, Bool.and_eq_true] at hok
    simp only [Items.flatten, List.append_assoc]
    rw [Item.skip i hok.1 d hd, Items.skip is hok.2 d hd]
end


/-! ### main theorem: enabled-mode processing selects exactly what the reference selects -/
def plains : List Out → List LK
| [] => []
| .tok k :: r => k :: plains r
| _ :: r => plains r

def noErr (l : List Out) : Prop := ∀ o ∈ l, o ≠ Out.error

theorem plains_append (a b : List Out) : plains (a ++ b) = plains a ++ plains b := by
  induction a with
  | nil => rfl
  | cons o a ih => cases o <;> simp [plains, ih]

/-- one non-eof step prepends its output -/
theorem runAll_step (st st' : PS) (r r' : List LK) (o : Out) (ho : o ≠ .eof)
    (hn : next st r = (o, st', r')) (n : Nat) (outs : List Out) (h : runAll n st' r' = some outs) :
    runAll (n+1) st r = some (o :: outs) := by
  simp [runAll, hn, ho, h]

/-! #### what is delivered depends on the macro set only -/

theorem skip_rest (st : PS) (r : List LK) : (skip st r).2 = (eatUntil 1 r).1 := by
  unfold skip; split <;> simp_all

theorem skip_macros (st : PS) (r : List LK) : (skip st r).1.macros = st.macros := by
  unfold skip; split <;> rfl

theorem next_congr (st st' : PS) (h : st.macros = st'.macros) (r : List LK) :
    (next st r).1 = (next st' r).1 ∧ (next st r).2.2 = (next st' r).2.2 ∧
    (next st r).2.1.macros = (next st' r).2.1.macros := by
  have hatEof : (atEof st).macros = (atEof st').macros := by
    unfold atEof; split <;> split <;> simp [PS.error, h]
  have hif : ∀ neg r, (processIf neg st r).1 = (processIf neg st' r).1 ∧
      (processIf neg st r).2.2 = (processIf neg st' r).2.2 ∧
      (processIf neg st r).2.1.macros = (processIf neg st' r).2.1.macros := by
    intro neg r
    unfold processIf
    split
    · rw [h]; split <;> simp [skip_rest, skip_macros, h]
    · simp [PS.error, h]
  cases r with
  | nil => exact ⟨rfl, rfl, hatEof⟩
  | cons k r =>
    cases k with
    | ifdef => exact hif false r
    | ifndef => exact hif true r
    | else_ => simp [next, skip_rest, skip_macros, h]
    | endif => simp [next, h]
    | define =>
      simp only [next]
      split <;> simp [PS.error, h]
    | id m => simp [next, PS.lexed, h]
    | ws => simp [next, PS.lexed, h]
    | other k t => simp [next, PS.lexed, h]

theorem runAll_congr (n : Nat) (st st' : PS) (h : st.macros = st'.macros) (r : List LK) :
    runAll n st r = runAll n st' r := by
  induction n generalizing st st' r with
  | zero => rfl
  | succ n ih =>
    obtain ⟨h1, h2, h3⟩ := next_congr st st' h r
    simp only [runAll, h1, h2]
    rw [ih _ _ h3]

/-! #### runs under the consumer's discipline -/

/-- nothing parked: neither a preprocessor message nor a lexer message -/
def Quiet (st : PS) : Prop := st.err = none ∧ st.lexErr = false

theorem pull_macros (o : Out) (st : PS) : (pull o st).macros = st.macros := by
  unfold pull take; split
  · split <;> rfl
  · rfl

theorem pull_pp (st : PS) : pull .pp st = st := rfl

/-- a plain token delivered in a quiet state leaves a quiet state once its message (if it is a
lexical `Error` token) has been fetched -/
theorem pull_tok_quiet (st : PS) (k : LK) (hq : Quiet st) : pull (.tok k) (st.lexed k) = st := by
  obtain ⟨h1, h2⟩ := hq
  cases hk : k.isErr
  · simp only [pull, Out.isError, hk, Bool.false_eq_true, if_false, PS.lexed]
    exact PS.eq_of rfl rfl rfl (by simp)
  · simp only [pull, Out.isError, hk, if_true, PS.lexed, take, h1, Option.isSome_none, Bool.false_eq_true, if_false]
    exact PS.eq_of rfl rfl (by simp [h1]) (by simp [h2])

/-- a sequence of deliveries (none of them `Eof` or a directive error), the message of every
`Error` token being fetched before the next token is asked for -/
inductive Steps : PS → List LK → List Out → PS → List LK → Prop
| refl (st : PS) (r : List LK) : Steps st r [] st r
| step {st : PS} {r : List LK} {o : Out} {st1 : PS} {r1 : List LK} {outs : List Out} {st2 : PS} {r2 : List LK}
    (hn : next st r = (o, st1, r1)) (ho : o ≠ .eof) (he : o ≠ .error)
    (hs : Steps (pull o st1) r1 outs st2 r2) : Steps st r (o :: outs) st2 r2

theorem Steps.single {st : PS} {r : List LK} {o : Out} {st1 : PS} {r1 : List LK}
    (hn : next st r = (o, st1, r1)) (ho : o ≠ .eof) (he : o ≠ .error) :
    Steps st r [o] (pull o st1) r1 :=
  .step hn ho he (.refl _ _)

theorem Steps.trans {st r a st1 r1 b st2 r2} (h1 : Steps st r a st1 r1) (h2 : Steps st1 r1 b st2 r2) :
    Steps st r (a ++ b) st2 r2 := by
  induction h1 with
  | refl => exact h2
  | step hn ho he _ ih => exact .step hn ho he (ih h2)

theorem Steps.noErr {st r outs st' r'} (h : Steps st r outs st' r') : noErr outs := by
  induction h with
  | refl => intro o ho; simp at ho
  | step hn ho he _ ih =>
    intro o' ho'
    simp only [List.mem_cons] at ho'
    rcases ho' with rfl | ho'
    · exact he
    · exact ih o' ho'

theorem Steps.macros_runAll {st r outs st' r'} (h : Steps st r outs st' r') (n : Nat) (outs' : List Out)
    (stA : PS) (hA : stA.macros = st.macros) (stB : PS) (hB : stB.macros = st'.macros)
    (hr : runAll n stB r' = some outs') :
    runAll (n + outs.length) stA r = some (outs ++ outs') := by
  induction h generalizing stA with
  | refl st r => simpa [runAll_congr n stA stB (by rw [hA, hB])] using hr
  | @step st r o st1 r1 outs st2 r2 hn ho he _ ih =>
    have hc := next_congr stA st hA r
    rw [hn] at hc
    simp only [] at hc
    have := ih (next stA r).2.1 (by rw [hc.2.2, pull_macros]) hB hr
    have hstep := runAll_step stA (next stA r).2.1 r (next stA r).2.2 o ho
      (by rw [← hc.1]) (n + outs.length) (outs ++ outs') (by rw [hc.2.1]; exact this)
    simpa [Nat.add_assoc] using hstep

theorem drain_step (st st1 : PS) (r r1 : List LK) (o : Out) (ho : o ≠ .eof)
    (hn : next st r = (o, st1, r1)) (n : Nat) (fin : PS) (h : drain n (pull o st1) r1 = some fin) :
    drain (n+1) st r = some fin := by
  simp [drain, hn, ho, h]

theorem drain_eof (st st1 : PS) (r r1 : List LK) (hn : next st r = (.eof, st1, r1)) (n : Nat) :
    drain (n+1) st r = some st1 := by
  simp [drain, hn]

theorem Steps.drain {st r outs st' r'} (h : Steps st r outs st' r') (n : Nat) (fin : PS)
    (hd : PP.drain n st' r' = some fin) : PP.drain (n + outs.length) st r = some fin := by
  induction h with
  | refl => simpa using hd
  | step hn ho he _ ih =>
    have := drain_step _ _ _ _ _ ho hn _ fin (ih hd)
    simpa [Nat.add_assoc] using this

theorem next_open (neg : Bool) (st : PS) (w : Nat) (m : Name) (tail : List LK) :
    next st ((if neg then LK.ifndef else LK.ifdef) :: (List.replicate w LK.ws ++ LK.id m :: tail)) =
      if disabled st.macros m neg then (.pp, (skip st tail).1, (skip st tail).2)
      else (.pp, { st with opens := st.opens + 1 }, tail) := by
  have hw := nextNotTrivia_ws w (LK.id m) (by simp [LK.isTrivia]) tail
  cases neg <;> simp only [next, processIf, hw] <;> rfl

theorem skip_endif (st : PS) (hq : Quiet st) (r r' : List LK) (h : eatUntil 1 r = (r', .endif)) :
    skip st r = (st, r') := by
  unfold skip; rw [h]
  exact Prod.ext (PS.eq_of rfl rfl rfl (by simp [hq.2])) rfl

theorem skip_else (st : PS) (hq : Quiet st) (r r' : List LK) (h : eatUntil 1 r = (r', .else_)) :
    skip st r = ({ st with opens := st.opens + 1 }, r') := by
  unfold skip; rw [h]
  exact Prod.ext (PS.eq_of rfl rfl rfl (by simp [hq.2])) rfl

theorem skip_hits_eof (st : PS) (r r' : List LK) (h : eatUntil 1 r = (r', .eof)) :
    skip st r = ({ st with lexErr := false, err := some eofMsg }, r') := by
  unfold skip; rw [h]; rfl

mutual
/-- a well-nested item, met in a quiet state, is processed in a sequence of deliveries that
selects the reference's tokens and ends in the same state except for the macro set -/
theorem Item.steps (i : Item) (hok : i.ok = true) (st : PS) (hq : Quiet st) (rest : List LK) :
    ∃ outs, Steps st (i.flatten ++ rest) outs { st with macros := (i.ref st.macros).2 } rest ∧
      plains outs = (i.ref st.macros).1 := by
  match i with
  | .tok k =>
    have hn : next st (k :: rest) = (.tok k, st.lexed k, rest) := by
      cases k <;> simp_all [Item.ok, LK.plain, next]
    refine ⟨[.tok k], ?_, by simp [plains, Item.ref]⟩
    have := Steps.single hn (by simp) (by simp)
    rw [pull_tok_quiet st k hq] at this
    simpa [Item.flatten, Item.ref] using this
  | .define w m =>
    have hn : next st (LK.define :: (List.replicate w LK.ws ++ LK.id m :: rest)) =
        (.pp, { st with macros := m :: st.macros }, rest) := by
      have hw := nextNotTrivia_ws w (LK.id m) (by simp [LK.isTrivia]) rest
      simp [next, hw]
    refine ⟨[.pp], ?_, by simp [plains, Item.ref]⟩
    have := Steps.single hn (by simp) (by simp)
    simpa [Item.flatten, Item.ref, pull_pp] using this
  | .cond neg w m t hasElse e =>
    simp only [Item.ok, Bool.and_eq_true] at hok
    have hq1 : Quiet { st with opens := st.opens + 1 } := hq
    cases hdis : disabled st.macros m neg with
    | true =>
      cases hasElse with
      | false =>
        have hn : next st ((Item.cond neg w m t false e).flatten ++ rest) = (.pp, st, rest) := by
          simp only [Item.flatten, List.cons_append, List.append_assoc, next_open, hdis, if_true]
          rw [skip_endif st hq _ rest]
          simp [Items.skip t hok.1 1 (Nat.le_refl _), eatUntil]
        refine ⟨[.pp], ?_, by simp [plains, Item.ref, hdis]⟩
        have := Steps.single hn (by simp) (by simp)
        simpa [Item.ref, hdis, pull_pp] using this
      | true =>
        have hn : next st ((Item.cond neg w m t true e).flatten ++ rest) =
            (.pp, { st with opens := st.opens + 1 }, e.flatten ++ (LK.endif :: rest)) := by
          simp only [Item.flatten, List.cons_append, List.append_assoc, next_open, hdis, if_true]
          rw [skip_else st hq _ (e.flatten ++ (LK.endif :: rest))]
          simp [Items.skip t hok.1 1 (Nat.le_refl _), eatUntil]
        obtain ⟨outs, hs, hpl⟩ := Items.steps e hok.2 { st with opens := st.opens + 1 } hq1 (LK.endif :: rest)
        have hclose : next { ({ st with opens := st.opens + 1 } : PS) with macros := (e.ref st.macros).2 } (LK.endif :: rest) =
            (.pp, { st with macros := (e.ref st.macros).2 }, rest) := by
          simp only [next]
          exact Prod.ext rfl (Prod.ext (PS.eq_of rfl (by simp) rfl rfl) rfl)
        refine ⟨.pp :: (outs ++ [.pp]), ?_, ?_⟩
        · have h1 := Steps.single hn (by simp) (by simp)
          have h3 := Steps.single hclose (by simp) (by simp)
          have := (h1.trans hs).trans h3
          simpa [Item.ref, hdis, pull_pp] using this
        · simp [plains, plains_append, Item.ref, hdis, hpl]
    | false =>
      have hn : ∀ tail, next st ((if neg then LK.ifndef else LK.ifdef) :: (List.replicate w LK.ws ++ LK.id m :: tail)) =
          (.pp, { st with opens := st.opens + 1 }, tail) := by
        intro tail; simp [next_open, hdis]
      cases hasElse with
      | false =>
        obtain ⟨outs, hs, hpl⟩ := Items.steps t hok.1 { st with opens := st.opens + 1 } hq1 (LK.endif :: rest)
        have hclose : next { ({ st with opens := st.opens + 1 } : PS) with macros := (t.ref st.macros).2 } (LK.endif :: rest) =
            (.pp, { st with macros := (t.ref st.macros).2 }, rest) := by
          simp only [next]
          exact Prod.ext rfl (Prod.ext (PS.eq_of rfl (by simp) rfl rfl) rfl)
        refine ⟨.pp :: (outs ++ [.pp]), ?_, ?_⟩
        · have h1 := Steps.single (hn (t.flatten ++ (LK.endif :: rest))) (by simp) (by simp)
          have h3 := Steps.single hclose (by simp) (by simp)
          have := (h1.trans hs).trans h3
          simpa [Item.flatten, Item.ref, hdis, pull_pp] using this
        · simp [plains, plains_append, Item.ref, hdis, hpl]
      | true =>
        obtain ⟨outs, hs, hpl⟩ := Items.steps t hok.1 { st with opens := st.opens + 1 } hq1
          (LK.else_ :: (e.flatten ++ (LK.endif :: rest)))
        have helse : next { ({ st with opens := st.opens + 1 } : PS) with macros := (t.ref st.macros).2 }
              (LK.else_ :: (e.flatten ++ (LK.endif :: rest))) =
            (.pp, { st with macros := (t.ref st.macros).2 }, rest) := by
          simp only [next]
          rw [skip_endif _ (by exact hq) _ rest (by simp [Items.skip e hok.2 1 (Nat.le_refl _), eatUntil])]
          exact Prod.ext rfl (Prod.ext (PS.eq_of rfl (by simp) rfl rfl) rfl)
        refine ⟨.pp :: (outs ++ [.pp]), ?_, ?_⟩
        · have h1 := Steps.single (hn (t.flatten ++ (LK.else_ :: (e.flatten ++ (LK.endif :: rest))))) (by simp) (by simp)
          have h3 := Steps.single helse (by simp) (by simp)
          have := (h1.trans hs).trans h3
          simpa [Item.flatten, Item.ref, hdis, pull_pp] using this
        · simp [plains, plains_append, Item.ref, hdis, hpl]
theorem Items.steps (is : Items) (hok : is.ok = true) (st : PS) (hq : Quiet st) (rest : List LK) :
    ∃ outs, Steps st (is.flatten ++ rest) outs { st with macros := (is.ref st.macros).2 } rest ∧
      plains outs = (is.ref st.macros).1 := by
  match is with
  | .nil => exact ⟨[], by simpa [Items.flatten, Items.ref] using Steps.refl st rest, by simp [plains, Items.ref]⟩
  | .cons i is =>
    simp only [Items.ok, Bool.and_eq_true] at hok
    obtain ⟨o1, hs1, hp1⟩ := Item.steps i hok.1 st hq (is.flatten ++ rest)
    obtain ⟨o2, hs2, hp2⟩ := Items.steps is hok.2 { st with macros := (i.ref st.macros).2 } hq rest
    refine ⟨o1 ++ o2, ?_, ?_⟩
    · have := hs1.trans hs2
      simpa [Items.flatten, Items.ref, List.append_assoc] using this
    · simp [plains_append, hp1, hp2, Items.ref]
end

/-- **selection**, in the form used by C15: from any state, the run over a well-nested item list
followed by `rest` delivers the reference's tokens, no directive error, then whatever the run over
`rest` (from a state with the reference's macro set) delivers -/
theorem Items.sel (is : Items) (hok : is.ok = true) (st : PS) (rest : List LK) (n : Nat) (outs : List Out)
    (h : runAll n { st with macros := (is.ref st.macros).2 } rest = some outs) :
    ∃ n' pre, runAll n' st (is.flatten ++ rest) = some (pre ++ outs) ∧
      plains pre = (is.ref st.macros).1 ∧ noErr pre := by
  obtain ⟨pre, hs, hpl⟩ := Items.steps is hok { st with err := none, lexErr := false } ⟨rfl, rfl⟩ rest
  exact ⟨_, pre, hs.macros_runAll n outs st rfl { st with macros := (is.ref st.macros).2 } rfl h, hpl, hs.noErr⟩

theorem Item.sel (i : Item) (hok : i.ok = true) (st : PS) (rest : List LK) (n : Nat) (outs : List Out)
    (h : runAll n { st with macros := (i.ref st.macros).2 } rest = some outs) :
    ∃ n' pre, runAll n' st (i.flatten ++ rest) = some (pre ++ outs) ∧
      plains pre = (i.ref st.macros).1 ∧ noErr pre := by
  obtain ⟨pre, hs, hpl⟩ := Item.steps i hok { st with err := none, lexErr := false } ⟨rfl, rfl⟩ rest
  exact ⟨_, pre, hs.macros_runAll n outs st rfl { st with macros := (i.ref st.macros).2 } rfl h, hpl, hs.noErr⟩

/-! ### the end of the text: well-nested arrangements end clean, unterminated ones park the message -/

/-- **well-nested ⇒ clean**: a well-nested item list, run to `Eof` from a quiet state with no open
conditional, ends quiet with no open conditional: `take_error` has nothing to report -/
theorem Items.drain_clean (is : Items) (hok : is.ok = true) (st : PS) (hq : Quiet st) (ho : st.opens = 0) :
    ∃ n, drain n st is.flatten = some { st with macros := (is.ref st.macros).2 } := by
  obtain ⟨outs, hs, _⟩ := Items.steps is hok st hq []
  simp only [List.append_nil] at hs
  refine ⟨1 + outs.length, hs.drain 1 _ ?_⟩
  apply drain_eof _ _ _ []
  simp only [next, atEof, ho, Nat.lt_irrefl, false_and, if_false]

/-- a conditional that is still open when the text ends: the header, the `then` items met so far
and — if `hasElse` — the complete `then` branch followed by `#else` and the `else` items met so far.
Whatever follows (the next frame) is nested inside it. -/
structure Frame where
  neg : Bool
  w : Nat
  m : Name
  thn : Items
  hasElse : Bool
  els : Items

def Frame.ok (f : Frame) : Bool := f.thn.ok && f.els.ok

def Frame.flatten (f : Frame) : List LK :=
  (if f.neg then LK.ifndef else LK.ifdef) :: (List.replicate f.w LK.ws ++ (LK.id f.m :: (f.thn.flatten ++
    (if f.hasElse then LK.else_ :: f.els.flatten else []))))

/-- an unterminated tail: conditionals opened one inside the other, none of them closed -/
def Frames.flatten : List Frame → List LK
| [] => []
| f :: fs => f.flatten ++ Frames.flatten fs

/-- a skip that meets only unterminated conditionals runs into the end of the text -/
theorem Frames.skip_eof (fs : List Frame) (hok : ∀ f ∈ fs, f.ok = true) (d : Nat) (hd : 1 ≤ d) :
    eatUntil d (Frames.flatten fs) = ([], .eof) := by
  induction fs generalizing d with
  | nil => simp [Frames.flatten, eatUntil]
  | cons f fs ih =>
    have hf := hok f (by simp)
    simp only [Frame.ok, Bool.and_eq_true] at hf
    have ih' := ih (fun g hg => hok g (by simp [hg])) (d+1) (by omega)
    have hstart : ∀ rr, eatUntil d ((if f.neg then LK.ifndef else LK.ifdef) :: rr) = eatUntil (d+1) rr := by
      intro rr; cases f.neg <;> simp [eatUntil]
    simp only [Frames.flatten, Frame.flatten, List.cons_append, List.append_assoc, hstart, eatUntil_ws]
    simp only [eatUntil]
    rw [Items.skip f.thn hf.1 (d+1) (by omega)]
    cases f.hasElse with
    | false => simpa using ih'
    | true =>
      simp only [if_true, List.cons_append, eatUntil]
      have : ¬ (d + 1 = 1) := by omega
      simp only [this, if_false]
      rw [Items.skip f.els hf.2 (d+1) (by omega)]
      exact ih'

/-- **unterminated ⇒ parked** (core): from a quiet state, a chain of unterminated conditionals run
to `Eof` ends with the message parked in `PreProcessor::error` — whether the innermost delivered
branch is enabled (counter > 0 at `Eof`) or a skip ran into the end of the text -/
theorem Frames.parks (fs : List Frame) (hok : ∀ f ∈ fs, f.ok = true) (st : PS) (hq : Quiet st)
    (hopen : fs = [] → 0 < st.opens) :
    ∃ n fin, drain n st (Frames.flatten fs) = some fin ∧ fin.err = some eofMsg := by
  induction fs generalizing st with
  | nil =>
    refine ⟨1, atEof st, drain_eof st _ [] [] (by simp [next]) 0, ?_⟩
    simp [atEof, PS.error, hopen rfl, hq.1]
  | cons f fs ih =>
    have hf := hok f (by simp)
    simp only [Frame.ok, Bool.and_eq_true] at hf
    have hoks : ∀ g ∈ fs, g.ok = true := fun g hg => hok g (by simp [hg])
    have hq1 : Quiet { st with opens := st.opens + 1 } := hq
    -- a state in which the message is parked delivers `Eof` next and keeps the message
    have hparked : ∀ (st1 : PS), st1.err = some eofMsg → ∃ n fin, drain n st1 [] = some fin ∧ fin.err = some eofMsg := by
      intro st1 h1
      refine ⟨1, atEof st1, drain_eof st1 _ [] [] (by simp [next]) 0, ?_⟩
      simp [atEof, h1]
    cases hdis : disabled st.macros f.m f.neg with
    | true =>
      cases hel : f.hasElse with
      | false =>
        -- the skip runs to the end of the text
        have hn : next st (Frames.flatten (f :: fs)) = (.pp, { st with lexErr := false, err := some eofMsg }, []) := by
          simp only [Frames.flatten, Frame.flatten, hel, List.cons_append, List.append_assoc, next_open, hdis, if_true]
          rw [skip_hits_eof st _ []]
          simp [Items.skip f.thn hf.1 1 (Nat.le_refl _), Frames.skip_eof fs hoks 1 (Nat.le_refl _)]
        obtain ⟨n, fin, hd, he⟩ := hparked { st with lexErr := false, err := some eofMsg } rfl
        exact ⟨n+1, fin, drain_step _ _ _ _ _ (by simp) hn n fin (by simpa [pull_pp] using hd), he⟩
      | true =>
        -- skipped up to `#else`; the else items are delivered, the conditional stays open
        have hn : next st (Frames.flatten (f :: fs)) =
            (.pp, { st with opens := st.opens + 1 }, f.els.flatten ++ Frames.flatten fs) := by
          simp only [Frames.flatten, Frame.flatten, hel, List.cons_append, List.append_assoc, next_open, hdis, if_true]
          rw [skip_else st hq _ (f.els.flatten ++ Frames.flatten fs)]
          simp [Items.skip f.thn hf.1 1 (Nat.le_refl _), eatUntil]
        obtain ⟨outs, hs, _⟩ := Items.steps f.els hf.2 { st with opens := st.opens + 1 } hq1 (Frames.flatten fs)
        obtain ⟨n, fin, hd, he⟩ := ih hoks { ({ st with opens := st.opens + 1 } : PS) with macros := (f.els.ref st.macros).2 }
          hq (fun _ => Nat.succ_pos _)
        exact ⟨n + outs.length + 1, fin, drain_step _ _ _ _ _ (by simp) hn _ fin (by simpa [pull_pp] using hs.drain n fin hd), he⟩
    | false =>
      have hn : ∀ tail, next st ((if f.neg then LK.ifndef else LK.ifdef) :: (List.replicate f.w LK.ws ++ LK.id f.m :: tail)) =
          (.pp, { st with opens := st.opens + 1 }, tail) := by
        intro tail; simp [next_open, hdis]
      cases hel : f.hasElse with
      | false =>
        -- the then items are delivered, the conditional stays open
        obtain ⟨outs, hs, _⟩ := Items.steps f.thn hf.1 { st with opens := st.opens + 1 } hq1 (Frames.flatten fs)
        obtain ⟨n, fin, hd, he⟩ := ih hoks { ({ st with opens := st.opens + 1 } : PS) with macros := (f.thn.ref st.macros).2 }
          hq (fun _ => Nat.succ_pos _)
        have hn' : next st (Frames.flatten (f :: fs)) =
            (.pp, { st with opens := st.opens + 1 }, f.thn.flatten ++ Frames.flatten fs) := by
          simpa [Frames.flatten, Frame.flatten, hel] using hn (f.thn.flatten ++ Frames.flatten fs)
        exact ⟨n + outs.length + 1, fin, drain_step _ _ _ _ _ (by simp) hn' _ fin (by simpa [pull_pp] using hs.drain n fin hd), he⟩
      | true =>
        -- the then items are delivered, then the else part is skipped to the end of the text
        obtain ⟨outs, hs, _⟩ := Items.steps f.thn hf.1 { st with opens := st.opens + 1 } hq1
          (LK.else_ :: (f.els.flatten ++ Frames.flatten fs))
        have helse : next { ({ st with opens := st.opens + 1 } : PS) with macros := (f.thn.ref st.macros).2 }
              (LK.else_ :: (f.els.flatten ++ Frames.flatten fs)) =
            (.pp, { ({ st with macros := (f.thn.ref st.macros).2 } : PS) with lexErr := false, err := some eofMsg }, []) := by
          simp only [next]
          rw [skip_hits_eof _ _ [] (by simp [Items.skip f.els hf.2 1 (Nat.le_refl _), Frames.skip_eof fs hoks 1 (Nat.le_refl _)])]
          exact Prod.ext rfl (Prod.ext (PS.eq_of rfl (by simp) rfl rfl) rfl)
        obtain ⟨n, fin, hd, he⟩ := hparked { ({ st with macros := (f.thn.ref st.macros).2 } : PS) with lexErr := false, err := some eofMsg } rfl
        have h2 := drain_step _ _ _ _ _ (by simp) helse n fin (by simpa [pull_pp] using hd)
        have h3 := hs.drain (n+1) fin h2
        have hn' : next st (Frames.flatten (f :: fs)) =
            (.pp, { st with opens := st.opens + 1 }, f.thn.flatten ++ (LK.else_ :: (f.els.flatten ++ Frames.flatten fs))) := by
          simpa [Frames.flatten, Frame.flatten, hel] using hn (f.thn.flatten ++ (LK.else_ :: (f.els.flatten ++ Frames.flatten fs)))
        exact ⟨n + 1 + outs.length + 1, fin, drain_step _ _ _ _ _ (by simp) hn' _ fin (by simpa [pull_pp] using h3), he⟩

/-- **unterminated ⇒ parked**: a well-nested item list followed by at least one unterminated
conditional (each nested in the previous one, with well-nested items in between), run to `Eof`
from a quiet state, ends with "reached EOF without matching #endif" parked -/
theorem unterminated_parks (pre : Items) (hpre : pre.ok = true) (fs : List Frame) (hok : ∀ f ∈ fs, f.ok = true)
    (hne : fs ≠ []) (st : PS) (hq : Quiet st) :
    ∃ n fin, drain n st (pre.flatten ++ Frames.flatten fs) = some fin ∧ fin.err = some eofMsg := by
  obtain ⟨outs, hs, _⟩ := Items.steps pre hpre st hq (Frames.flatten fs)
  obtain ⟨n, fin, hd, he⟩ := Frames.parks fs hok { st with macros := (pre.ref st.macros).2 } hq (fun h => absurd h hne)
  exact ⟨_, fin, hs.drain n fin hd, he⟩

/-- reference evaluation of an unterminated tail: what is selected from the frames when the text
simply ends (a disabled branch without `#else` hides everything that follows, so does an `#else`
part after an enabled branch) -/
def Frames.ref (ms : List Name) : List Frame → List LK
| [] => []
| f :: fs =>
  if disabled ms f.m f.neg then
    (if f.hasElse then (f.els.ref ms).1 ++ Frames.ref (f.els.ref ms).2 fs else [])
  else
    (if f.hasElse then (f.thn.ref ms).1 else (f.thn.ref ms).1 ++ Frames.ref (f.thn.ref ms).2 fs)

/-- **selection for unterminated tails**: the run over a chain of unterminated conditionals
delivers exactly the reference's tokens and no directive error -/
theorem Frames.sel (fs : List Frame) (hok : ∀ f ∈ fs, f.ok = true) (st : PS) (hq : Quiet st) :
    ∃ n outs, runAll n st (Frames.flatten fs) = some outs ∧ plains outs = Frames.ref st.macros fs ∧
      noErr outs := by
  induction fs generalizing st with
  | nil => exact ⟨1, [], by simp [Frames.flatten, runAll, next], by simp [plains, Frames.ref], by simp [noErr]⟩
  | cons f fs ih =>
    have hf := hok f (by simp)
    simp only [Frame.ok, Bool.and_eq_true] at hf
    have hoks : ∀ g ∈ fs, g.ok = true := fun g hg => hok g (by simp [hg])
    have hq1 : Quiet { st with opens := st.opens + 1 } := hq
    have hend : ∀ (st1 : PS), runAll 1 st1 [] = some [] := by intro st1; simp [runAll, next]
    have hcons : ∀ {o : Out} {l : List Out}, o ≠ .error → noErr l → noErr (o :: l) := by
      intro o l h1 h2 o' ho'
      simp only [List.mem_cons] at ho'
      rcases ho' with rfl | ho'
      · exact h1
      · exact h2 o' ho'
    have happ : ∀ {a b : List Out}, noErr a → noErr b → noErr (a ++ b) := by
      intro a b h1 h2 o ho
      simp only [List.mem_append] at ho
      rcases ho with ho | ho
      · exact h1 o ho
      · exact h2 o ho
    cases hdis : disabled st.macros f.m f.neg with
    | true =>
      cases hel : f.hasElse with
      | false =>
        have hn : next st (Frames.flatten (f :: fs)) = (.pp, { st with lexErr := false, err := some eofMsg }, []) := by
          simp only [Frames.flatten, Frame.flatten, hel, List.cons_append, List.append_assoc, next_open, hdis, if_true]
          rw [skip_hits_eof st _ []]
          simp [Items.skip f.thn hf.1 1 (Nat.le_refl _), Frames.skip_eof fs hoks 1 (Nat.le_refl _)]
        exact ⟨2, [.pp], runAll_step _ _ _ _ _ (by simp) hn 1 [] (hend _),
          by simp [plains, Frames.ref, hdis, hel], hcons (by simp) (by simp [noErr])⟩
      | true =>
        have hn : next st (Frames.flatten (f :: fs)) =
            (.pp, { st with opens := st.opens + 1 }, f.els.flatten ++ Frames.flatten fs) := by
          simp only [Frames.flatten, Frame.flatten, hel, List.cons_append, List.append_assoc, next_open, hdis, if_true]
          rw [skip_else st hq _ (f.els.flatten ++ Frames.flatten fs)]
          simp [Items.skip f.thn hf.1 1 (Nat.le_refl _), eatUntil]
        obtain ⟨o1, hs, hp1⟩ := Items.steps f.els hf.2 { st with opens := st.opens + 1 } hq1 (Frames.flatten fs)
        obtain ⟨n, o2, hr, hp2, hne2⟩ := ih hoks { ({ st with opens := st.opens + 1 } : PS) with macros := (f.els.ref st.macros).2 } hq
        have h1 := hs.macros_runAll n o2 _ rfl _ rfl hr
        exact ⟨_, .pp :: (o1 ++ o2), runAll_step _ _ _ _ _ (by simp) hn _ _ h1,
          by simp [plains, plains_append, Frames.ref, hdis, hel, hp1, hp2], hcons (by simp) (happ hs.noErr hne2)⟩
    | false =>
      have hn : ∀ tail, next st ((if f.neg then LK.ifndef else LK.ifdef) :: (List.replicate f.w LK.ws ++ LK.id f.m :: tail)) =
          (.pp, { st with opens := st.opens + 1 }, tail) := by
        intro tail; simp [next_open, hdis]
      cases hel : f.hasElse with
      | false =>
        obtain ⟨o1, hs, hp1⟩ := Items.steps f.thn hf.1 { st with opens := st.opens + 1 } hq1 (Frames.flatten fs)
        obtain ⟨n, o2, hr, hp2, hne2⟩ := ih hoks { ({ st with opens := st.opens + 1 } : PS) with macros := (f.thn.ref st.macros).2 } hq
        have h1 := hs.macros_runAll n o2 _ rfl _ rfl hr
        have hn' : next st (Frames.flatten (f :: fs)) =
            (.pp, { st with opens := st.opens + 1 }, f.thn.flatten ++ Frames.flatten fs) := by
          simpa [Frames.flatten, Frame.flatten, hel] using hn (f.thn.flatten ++ Frames.flatten fs)
        exact ⟨_, .pp :: (o1 ++ o2), runAll_step _ _ _ _ _ (by simp) hn' _ _ h1,
          by simp [plains, plains_append, Frames.ref, hdis, hel, hp1, hp2], hcons (by simp) (happ hs.noErr hne2)⟩
      | true =>
        obtain ⟨o1, hs, hp1⟩ := Items.steps f.thn hf.1 { st with opens := st.opens + 1 } hq1
          (LK.else_ :: (f.els.flatten ++ Frames.flatten fs))
        have helse : next { ({ st with opens := st.opens + 1 } : PS) with macros := (f.thn.ref st.macros).2 }
              (LK.else_ :: (f.els.flatten ++ Frames.flatten fs)) =
            (.pp, { ({ st with macros := (f.thn.ref st.macros).2 } : PS) with lexErr := false, err := some eofMsg }, []) := by
          simp only [next]
          rw [skip_hits_eof _ _ [] (by simp [Items.skip f.els hf.2 1 (Nat.le_refl _), Frames.skip_eof fs hoks 1 (Nat.le_refl _)])]
          exact Prod.ext rfl (Prod.ext (PS.eq_of rfl (by simp) rfl rfl) rfl)
        have h2 := runAll_step _ _ _ _ _ (by simp) helse 1 [] (hend _)
        have h1 := hs.macros_runAll 2 [.pp] _ rfl _ rfl h2
        have hn' : next st (Frames.flatten (f :: fs)) =
            (.pp, { st with opens := st.opens + 1 }, f.thn.flatten ++ (LK.else_ :: (f.els.flatten ++ Frames.flatten fs))) := by
          simpa [Frames.flatten, Frame.flatten, hel] using hn (f.thn.flatten ++ (LK.else_ :: (f.els.flatten ++ Frames.flatten fs)))
        exact ⟨_, .pp :: (o1 ++ [.pp]), runAll_step _ _ _ _ _ (by simp) hn' _ _ h1,
          by simp [plains, plains_append, Frames.ref, hdis, hel, hp1],
          hcons (by simp) (happ hs.noErr (hcons (by simp) (by simp [noErr])))⟩

/-- selection for a whole unterminated arrangement -/
theorem unterminated_sel (pre : Items) (hpre : pre.ok = true) (fs : List Frame) (hok : ∀ f ∈ fs, f.ok = true)
    (st : PS) :
    ∃ n outs, runAll n st (pre.flatten ++ Frames.flatten fs) = some outs ∧
      plains outs = (pre.ref st.macros).1 ++ Frames.ref (pre.ref st.macros).2 fs ∧ noErr outs := by
  obtain ⟨n, o2, hr, hp2, hne2⟩ := Frames.sel fs hok
    { ({ st with err := none, lexErr := false } : PS) with macros := (pre.ref st.macros).2 } ⟨rfl, rfl⟩
  obtain ⟨n', o1, hr1, hp1, hne1⟩ := Items.sel pre hpre st (Frames.flatten fs) n o2
    (by rw [runAll_congr n { st with macros := (pre.ref st.macros).2 }
          { ({ st with err := none, lexErr := false } : PS) with macros := (pre.ref st.macros).2 } rfl]; exact hr)
  refine ⟨n', o1 ++ o2, hr1, by simp [plains_append, hp1, hp2], ?_⟩
  intro o ho
  simp only [List.mem_append] at ho
  rcases ho with ho | ho
  · exact hne1 o ho
  · exact hne2 o ho

end PP
end Tg
