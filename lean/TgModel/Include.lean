/-
Model of include-graph handling:
* `collect` = `ide::file_system::collect_sources` (breadth-first worklist with a visited check),
* `indexOrder` = the order in which `Include::index` (index.rs) descends into included files
  (depth-first, skipping files already indexed).
Files are numbered `0 .. n-1`; `incs f` lists the include statements of file `f` in source order,
`some t` = the statement resolves to file `t`, `none` = it does not resolve.
-/
namespace Tg
namespace Include

structure World where
  n : Nat
  incs : Nat → List (Option Nat)

/-- all targets are files of the world -/
def World.WF (w : World) : Prop := ∀ f, f < w.n → ∀ t, some t ∈ w.incs f → t < w.n

/-- resolved include targets of a file, in order -/
def World.succs (w : World) (f : Nat) : List Nat := (w.incs f).filterMap id

/-- reachability through resolvable includes -/
inductive Reach (w : World) : Nat → Nat → Prop
  | refl (a : Nat) : Reach w a a
  | step {a b c : Nat} : Reach w a b → c ∈ w.succs b → Reach w a c

/-- `collect_sources`: queue, visited (most recent first); `none` = out of fuel -/
def collect (w : World) : Nat → List Nat → List Nat → Option (List Nat)
  | 0, _, _ => none
  | _+1, [], vis => some vis
  | fuel+1, f :: q, vis =>
    if vis.contains f then collect w fuel q vis
    else collect w fuel (q ++ w.succs f) (f :: vis)

/-- enough fuel for any run: every file is expanded at most once -/
def collectFuel (w : World) : Nat :=
  ((List.range w.n).map (fun f => (w.succs f).length + 2)).sum + 2

def fileSet (w : World) (root : Nat) : Option (List Nat) := collect w (collectFuel w) [root] []

/-- per-file include map as `collect_sources` stores it: statement index ↦ target -/
def includeMap (w : World) (f : Nat) : List (Nat × Nat) :=
  ((w.incs f).zipIdx).filterMap (fun (o, i) => o.map (fun t => (i, t)))

/-- document links of a file: one per include statement that resolves, to its target -/
def links (w : World) (f : Nat) : List (Nat × Nat) := includeMap w f

/-- one file's include statements, in order: `descend t idx ds` indexes file `t` (already added
to `idx`); `idx` = files already indexed (most recent first); `ds` = "include file not found"
diagnostics (file, statement index) emitted so far, in order -/
def indexList (descend : Nat → List Nat → List (Nat × Nat) → List Nat × List (Nat × Nat)) (f : Nat) :
    List (Option Nat × Nat) → List Nat → List (Nat × Nat) → List Nat × List (Nat × Nat)
  | [], idx, ds => (idx, ds)
  | (none, i) :: r, idx, ds => indexList descend f r idx (ds ++ [(f, i)])
  | (some t, _) :: r, idx, ds =>
    if idx.contains t then indexList descend f r idx ds
    else
      let res := descend t (t :: idx) ds
      indexList descend f r res.1 res.2

/-- the indexer's descent into file `f` (`Include::index` → `SourceFile::index`); fuel bounds the
include nesting depth (out of fuel: the file's includes are skipped — never happens with
fuel ≥ number of files) -/
def indexFile (w : World) : Nat → Nat → List Nat → List (Nat × Nat) → List Nat × List (Nat × Nat)
  | 0, _, idx, ds => (idx, ds)
  | fuel+1, f, idx, ds => indexList (indexFile w fuel) f ((w.incs f).zipIdx) idx ds

/-- index the workspace rooted at `root` -/
def indexOrder (w : World) (root : Nat) : List Nat × List (Nat × Nat) :=
  indexFile w (w.n + 1) root [root] []

end Include
end Tg
