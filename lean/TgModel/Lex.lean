/-
Model of `crates/syntax/src/lexer.rs` (`Lexer::next_token`), arm by arm, over `List Char`.
Tables (keywords, bang operators, directives) come from the generated `Tables`.
-/
import TgModel.Text
import TgModel.Unicode
import TgModel.Generated.Tables

namespace Tg
namespace Lex

/-- result of one `next_token` call: kind, consumed text, remaining input, and the value that
`Lexer::error` holds afterwards if this call set it (`none` = field left untouched). -/
structure Out where
  kind : TokenKind
  text : List Char
  rest : List Char
  err  : Option String := none
deriving Repr

/-! ### scanner helpers (`unscanny::Scanner`) -/

/-- `eat_until("ab")`: split before the first occurrence of the two-char pattern. -/
def splitAt2 (a b : Char) (s : List Char) : List Char × List Char := go s []
where go : List Char → List Char → List Char × List Char
  | [], acc => (acc.reverse, [])
  | [c], acc => ((c :: acc).reverse, [])
  | c :: d :: r, acc => if c == a && d == b then (acc.reverse, c :: d :: r) else go (d :: r) (c :: acc)

theorem splitAt2_go_append (a b : Char) (s acc : List Char) :
    (splitAt2.go a b s acc).1 ++ (splitAt2.go a b s acc).2 = acc.reverse ++ s := by
  induction s generalizing acc with
  | nil => simp [splitAt2.go]
  | cons c r ih =>
    cases r with
    | nil => simp [splitAt2.go]
    | cons d r =>
      simp only [splitAt2.go]
      split
      · rfl
      · rw [ih]; simp

theorem splitAt2_append (a b : Char) (s : List Char) :
    (splitAt2 a b s).1 ++ (splitAt2 a b s).2 = s := by
  simp [splitAt2, splitAt2_go_append]

/-- `eat_if("ab")` -/
def eatIf2 (a b : Char) : List Char → List Char × List Char
  | c :: d :: r => if c == a && d == b then ([c, d], r) else ([], c :: d :: r)
  | s => ([], s)

theorem eatIf2_append (a b : Char) (s : List Char) : (eatIf2 a b s).1 ++ (eatIf2 a b s).2 = s := by
  unfold eatIf2; split
  · split <;> rfl
  · rfl

/-- body of a (nesting) block comment after the opening `/*`: consumes through the `*/` that
brings the depth to zero, or to the end of input -/
def scanBlock (s : List Char) : List Char × List Char := go s.length s 1 []
where go : Nat → List Char → Nat → List Char → List Char × List Char
  | 0, s, _, acc => (acc.reverse, s)
  | _, [], _, acc => (acc.reverse, [])
  | fuel+1, c :: r, depth, acc =>
    match c, r with
    | '*', '/' :: r' => if depth ≤ 1 then (('/' :: '*' :: acc).reverse, r') else go fuel r' (depth - 1) ('/' :: '*' :: acc)
    | '/', '*' :: r' => go fuel r' (depth + 1) ('*' :: '/' :: acc)
    | _, _ => go fuel r depth (c :: acc)

theorem scanBlock_go_append (fuel : Nat) (s : List Char) (d : Nat) (acc : List Char) :
    (scanBlock.go fuel s d acc).1 ++ (scanBlock.go fuel s d acc).2 = acc.reverse ++ s := by
  induction fuel generalizing s d acc with
  | zero => simp [scanBlock.go]
  | succ n ih =>
    cases s with
    | nil => simp [scanBlock.go]
    | cons c r =>
      simp only [scanBlock.go]
      split
      · split
        · simp
        · rw [ih]; simp
      · rw [ih]; simp
      · rw [ih]; simp

theorem scanBlock_append (s : List Char) : (scanBlock s).1 ++ (scanBlock s).2 = s := by
  simp [scanBlock, scanBlock_go_append]

inductive StrEnd | closed | eol | eof
deriving DecidableEq, Repr

/-- the loop of `Lexer::string` with its single `escaped` flag; returns consumed chars
(after the opening quote), the rest, and how the loop ended. -/
def scanString (s : List Char) : List Char × List Char × StrEnd := go s false []
where go : List Char → Bool → List Char → List Char × List Char × StrEnd
  | [], _, acc => (acc.reverse, [], .eof)
  | c :: r, escaped, acc =>
    if c == '\\' && !escaped then go r true (c :: acc)
    else if c == '"' && !escaped then ((c :: acc).reverse, r, .closed)
    else if c == '\r' || c == '\n' then ((c :: acc).reverse, r, .eol)
    else go r false (c :: acc)

theorem scanString_go_append (s : List Char) (e : Bool) (acc : List Char) :
    (scanString.go s e acc).1 ++ (scanString.go s e acc).2.1 = acc.reverse ++ s := by
  induction s generalizing e acc with
  | nil => simp [scanString.go]
  | cons c r ih =>
    simp only [scanString.go]
    split
    · rw [ih]; simp
    · split
      · simp
      · split
        · simp
        · rw [ih]; simp

theorem scanString_append (s : List Char) : (scanString s).1 ++ (scanString s).2.1 = s := by
  simp [scanString, scanString_go_append]

def isIdentStart (c : Char) : Bool := isAsciiAlpha c || c == '_'
def isIdentCont (c : Char) : Bool := isAsciiAlnum c || c == '_'
def isNewline (c : Char) : Bool := c == '\r' || c == '\n'

def lookup (tab : List (List Char × TokenKind)) (w : List Char) : Option TokenKind :=
  match tab with
  | [] => none
  | (k, v) :: t => if k == w then some v else lookup t w

/-! ### numbers (`Lexer::number` + `interpret_number`) -/

def digitVal (c : Char) : Nat :=
  if isAsciiDigit c then c.toNat - '0'.toNat
  else if 'a' ≤ c && c ≤ 'f' then c.toNat - 'a'.toNat + 10
  else c.toNat - 'A'.toNat + 10

def natOfDigits (base : Nat) (ds : List Char) : Nat := ds.foldl (fun n c => n * base + digitVal c) 0

def u64Max : Nat := 18446744073709551615
def i64MinAbs : Nat := 9223372036854775808

/-- `interpret_number(text).is_some()` for the texts `Lexer::number` can produce:
`first` is the first char (a digit or a sign), `pfx` the optional `b`/`x`, `ds` the digit run. -/
def numberValid (first : Char) (base : Nat) (ds : List Char) : Bool :=
  if base == 16 || base == 2 then !ds.isEmpty && natOfDigits base ds ≤ u64Max
  else if first == '-' then !ds.isEmpty && natOfDigits 10 ds ≤ i64MinAbs
  else if first == '+' then !ds.isEmpty && natOfDigits 10 ds ≤ u64Max
  else natOfDigits 10 (first :: ds) ≤ u64Max

/-- the `+`/`-` look-ahead at the top of `Lexer::number` -/
def signOnly (c : Char) (rest : List Char) : Option TokenKind :=
  match rest with
  | c2 :: _ => if !isAsciiDigit c2 then (if c == '+' then some .Plus else if c == '-' then some .Minus else none) else none
  | [] => if c == '+' then some .Plus else if c == '-' then some .Minus else none

/-- base detection: (base, consumed prefix, remaining) -/
def numPrefix (c : Char) (rest : List Char) : Nat × List Char × List Char :=
  if c == '0' then
    match rest with
    | 'b' :: r => (2, ['b'], r)
    | 'x' :: r => (16, ['x'], r)
    | _ => (10, [], rest)
  else (10, [], rest)

def digitPred (base : Nat) : Char → Bool :=
  if base == 2 then (fun d => d == '0' || d == '1') else if base == 10 then isAsciiDigit else isAsciiHex

def lexNumber (c : Char) (rest : List Char) : Out :=
  match signOnly c rest with
  | some k => { kind := k, text := [c], rest := rest }
  | none =>
    let pr := numPrefix c rest
    let ds := pr.2.2.takeWhile (digitPred pr.1)
    let rest2 := pr.2.2.dropWhile (digitPred pr.1)
    let text := c :: (pr.2.1 ++ ds)
    if numberValid c pr.1 ds then
      { kind := if pr.1 == 2 then .BinaryIntVal else .IntVal, text := text, rest := rest2 }
    else
      { kind := .Error, text := text, rest := rest2,
        err := some (if pr.1 == 2 then "Invalid binary number" else if pr.1 == 10 then "Invalid number" else "Invalid hexadecimal number") }

/-! ### `Lexer::next_token` -/

def punctTable : List (Char × TokenKind) := [
  ('[', .LSquare), (']', .RSquare), ('{', .LBrace), ('}', .RBrace), ('(', .LParen), (')', .RParen),
  ('<', .Less), ('>', .Greater), (':', .Colon), (';', .Semi), (',', .Comma), ('=', .Equal), ('?', .Question)]

def punctLookup (tab : List (Char × TokenKind)) (c : Char) : Option TokenKind :=
  match tab with
  | [] => none
  | (k, v) :: t => if k == c then some v else punctLookup t c

def punct (c : Char) : Option TokenKind := punctLookup punctTable c

/-! The arms of the `match self.s.eat()` in `next_token`, in source order.  Each arm gets the
eaten char `c` and the remaining input `r` and answers `none` when its pattern/guard fails. -/

def armWhitespace (c : Char) (r : List Char) : Option Out :=
  if isWhitespace c then
    some { kind := .Whitespace, text := c :: r.takeWhile isAsciiWhitespace, rest := r.dropWhile isAsciiWhitespace }
  else none

def armLineComment (c : Char) (r : List Char) : Option Out :=
  match c, r with
  | '/', '/' :: r1 =>
    some { kind := .LineComment, text := '/' :: '/' :: r1.takeWhile (fun d => !isNewline d),
           rest := r1.dropWhile (fun d => !isNewline d) }
  | _, _ => none

def armBlockComment (c : Char) (r : List Char) : Option Out :=
  match c, r with
  | '/', '*' :: r1 =>
    let sb := scanBlock r1
    some { kind := .BlockComment, text := '/' :: '*' :: sb.1, rest := sb.2 }
  | _, _ => none

/-- `Lexer::is_digit_leading_identifier`: digits followed by a letter or `_` form an identifier,
unless the text is `0x<hex digit>` / `0b<binary digit>` -/
def isDigitLeadingIdent (first : Char) (rest : List Char) : Bool :=
  let ad := rest.dropWhile isAsciiDigit
  let onlyZero := first == '0' && ad.length == rest.length
  match ad with
  | [] => false
  | a :: t =>
    if a == 'x' && onlyZero && (match t with | c :: _ => isAsciiHex c | [] => false) then false
    else if a == 'b' && onlyZero && (match t with | c :: _ => c == '0' || c == '1' | [] => false) then false
    else isIdentStart a

def armDigit (c : Char) (r : List Char) : Option Out :=
  if isAsciiDigit c then
    if isDigitLeadingIdent c r then
      some { kind := .Id, text := c :: r.takeWhile isIdentCont, rest := r.dropWhile isIdentCont }
    else some (lexNumber c r)
  else none

def armSign (c : Char) (r : List Char) : Option Out :=
  if c == '-' || c == '+' then some (lexNumber c r) else none

def armIdent (c : Char) (r : List Char) : Option Out :=
  if isIdentStart c then
    let w := c :: r.takeWhile isIdentCont
    some { kind := (lookup Tables.keywords w).getD .Id, text := w, rest := r.dropWhile isIdentCont }
  else none

def armString (c : Char) (r : List Char) : Option Out :=
  if c == '"' then
    let sc := scanString r
    some (match sc.2.2 with
      | .closed => { kind := .StrVal, text := c :: sc.1, rest := sc.2.1 }
      | .eol => { kind := .Error, text := c :: sc.1, rest := sc.2.1, err := some "End of line in string literal" }
      | .eof => { kind := .Error, text := c :: sc.1, rest := sc.2.1, err := some "End of file in string literal" })
  else none

def armVarName (c : Char) (r : List Char) : Option Out :=
  if c == '$' then
    some (match r with
      | d :: r1 =>
        if isIdentStart d then
          { kind := .VarName, text := c :: d :: r1.takeWhile isIdentCont, rest := r1.dropWhile isIdentCont }
        else { kind := .Error, text := [c], rest := r, err := some "Invalid variable name" }
      | [] => { kind := .Error, text := [c], rest := r, err := some "Invalid variable name" })
  else none

def armCode (c : Char) (r : List Char) : Option Out :=
  match c, r with
  | '[', '{' :: r1 =>
    let sp := splitAt2 '}' ']' r1
    let e := eatIf2 '}' ']' sp.2
    some (if e.1.isEmpty then
        { kind := .Error, text := '[' :: '{' :: (sp.1 ++ e.1), rest := e.2, err := some "Unterminated code block" }
      else { kind := .CodeFragment, text := '[' :: '{' :: (sp.1 ++ e.1), rest := e.2 })
  | _, _ => none

def armBang (c : Char) (r : List Char) : Option Out :=
  if c == '!' then
    let t := r.takeWhile isAsciiAlpha
    some (match lookup Tables.bangTable t with
      | some k => { kind := k, text := c :: t, rest := r.dropWhile isAsciiAlpha }
      | none => { kind := .Error, text := c :: t, rest := r.dropWhile isAsciiAlpha, err := some "Unknown operator" })
  else none

def armHash (c : Char) (r : List Char) : Option Out :=
  if c == '#' then
    let t := r.takeWhile isAlphabetic
    some (match lookup Tables.prepTable t with
      | some k => { kind := k, text := c :: t, rest := r.dropWhile isAlphabetic }
      | none => { kind := .Paste, text := [c], rest := r })
  else none

def armPunct (c : Char) (r : List Char) : Option Out :=
  match punct c with
  | some k => some { kind := k, text := [c], rest := r }
  | none => none

def armDot (c : Char) (r : List Char) : Option Out :=
  if c == '.' then
    some (match r with
      | '.' :: '.' :: r' => { kind := .DotDotDot, text := ['.', '.', '.'], rest := r' }
      | '.' :: r' => { kind := .Error, text := ['.', '.'], rest := r', err := some "Invalid '..' punctuation" }
      | _ => { kind := .Dot, text := [c], rest := r })
  else none

def arms : List (Char → List Char → Option Out) :=
  [armWhitespace, armLineComment, armBlockComment, armDigit, armSign, armIdent, armString, armVarName,
   armCode, armBang, armHash, armPunct, armDot]

def firstArm (as : List (Char → List Char → Option Out)) (c : Char) (r : List Char) : Option Out :=
  match as with
  | [] => none
  | a :: rest => match a c r with
    | some o => some o
    | none => firstArm rest c r

def next (s : List Char) : Out :=
  match s with
  | [] => { kind := .Eof, text := [], rest := [] }
  | c :: r =>
    match firstArm arms c r with
    | some o => o
    | none => { kind := .Error, text := [c], rest := r, err := some "Unexpected character" }

end Lex
end Tg
