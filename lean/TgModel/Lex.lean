/-
Model of `crates/syntax/src/lexer.rs` (`Lexer::next_token`), arm by arm, over `List Char`.
Tables (keywords, bang operators, directives) come from the generated `Tables`.
-/
import TgModel.Text
import TgModel.Unicode
import TgModel.Generated.Tables

namespace Tg
namespace Lex

/-- result of one `next_token` call: kind, consumed text, remaining input, and the value that
`Lexer::error` holds afterwards if this call set it (`none` = field left untouched). -/
structure Out where
  kind : TokenKind
  text : List Char
  rest : List Char
  err  : Option String := none
deriving Repr

/-! ### scanner helpers (`unscanny::Scanner`) -/

/-- `eat_until("ab")`: split before the first occurrence of the two-char pattern. -/
def splitAt2 (a b : Char) (s : List Char) : List Char × List Char := go s []
where go : List Char → List Char → List Char × List Char
  | [], acc => (acc.reverse, [])
  | [c], acc => ((c :: acc).reverse, [])
  | c :: d :: r, acc => if c == a && d == b then (acc.reverse, c :: d :: r) else go (d :: r) (c :: acc)

theorem splitAt2_go_append (a b : Char) (s acc : List Char) :
    (splitAt2.go a b s acc).1 ++ (splitAt2.go a b s acc).2 = acc.reverse ++ s := by
  induction s generalizing acc with
  | nil => simp [splitAt2.go]
  | cons c r ih =>
    cases r with
    | nil => simp [splitAt2.go]
    | cons d r =>
      simp only [splitAt2.go]
      split
      · rfl
      · rw [ih]; simp

theorem splitAt2_append (a b : Char) (s : List Char) :
    (splitAt2 a b s).1 ++ (splitAt2 a b s).2 = s := by
  simp [splitAt2, splitAt2_go_append]

/-- `eat_if("ab")` -/
def eatIf2 (a b : Char) : List Char → List Char × List Char
  | c :: d :: r => if c == a && d == b then ([c, d], r) else ([], c :: d :: r)
  | s => ([], s)

theorem eatIf2_append (a b : Char) (s : List Char) : (eatIf2 a b s).1 ++ (eatIf2 a b s).2 = s := by
  unfold eatIf2; split
  · split <;> rfl
  · rfl

inductive StrEnd | closed | eol | eof
deriving DecidableEq, Repr

/-- the loop of `Lexer::string` with its single `escaped` flag; returns consumed chars
(after the opening quote), the rest, and how the loop ended. -/
def scanString (s : List Char) : List Char × List Char × StrEnd := go s false []
where go : List Char → Bool → List Char → List Char × List Char × StrEnd
  | [], _, acc => (acc.reverse, [], .eof)
  | c :: r, escaped, acc =>
    if c == '\\' then go r true (c :: acc)
    else if c == '"' && !escaped then ((c :: acc).reverse, r, .closed)
    else if c == '\r' || c == '\n' then ((c :: acc).reverse, r, .eol)
    else go r false (c :: acc)

theorem scanString_go_append (s : List Char) (e : Bool) (acc : List Char) :
    (scanString.go s e acc).1 ++ (scanString.go s e acc).2.1 = acc.reverse ++ s := by
  induction s generalizing e acc with
  | nil => simp [scanString.go]
  | cons c r ih =>
    simp only [scanString.go]
    split
    · rw [ih]; simp
    · split
      · simp
      · split
        · simp
        · rw [ih]; simp

theorem scanString_append (s : List Char) : (scanString s).1 ++ (scanString s).2.1 = s := by
  simp [scanString, scanString_go_append]

def isIdentStart (c : Char) : Bool := isAsciiAlpha c || c == '_'
def isIdentCont (c : Char) : Bool := isAsciiAlnum c || c == '_'
def isNewline (c : Char) : Bool := c == '\r' || c == '\n'

def lookup (tab : List (List Char × TokenKind)) (w : List Char) : Option TokenKind :=
  match tab with
  | [] => none
  | (k, v) :: t => if k == w then some v else lookup t w

/-! ### numbers (`Lexer::number` + `interpret_number`) -/

def digitVal (c : Char) : Nat :=
  if isAsciiDigit c then c.toNat - '0'.toNat
  else if 'a' ≤ c && c ≤ 'f' then c.toNat - 'a'.toNat + 10
  else c.toNat - 'A'.toNat + 10

def natOfDigits (base : Nat) (ds : List Char) : Nat := ds.foldl (fun n c => n * base + digitVal c) 0

def u64Max : Nat := 18446744073709551615
def i64MinAbs : Nat := 9223372036854775808

/-- `interpret_number(text).is_some()` for the texts `Lexer::number` can produce:
`first` is the first char (a digit or a sign), `pfx` the optional `b`/`x`, `ds` the digit run. -/
def numberValid (first : Char) (base : Nat) (ds : List Char) : Bool :=
  if base == 16 || base == 2 then !ds.isEmpty && natOfDigits base ds ≤ u64Max
  else if first == '-' then !ds.isEmpty && natOfDigits 10 ds ≤ i64MinAbs
  else if first == '+' then !ds.isEmpty && natOfDigits 10 ds ≤ u64Max
  else natOfDigits 10 (first :: ds) ≤ u64Max

def lexNumber (c : Char) (rest : List Char) : Out :=
  let signOnly : Option TokenKind :=
    match rest with
    | c2 :: _ => if !isAsciiDigit c2 then (if c == '+' then some .Plus else if c == '-' then some .Minus else none) else none
    | [] => none
  match signOnly with
  | some k => { kind := k, text := [c], rest := rest }
  | none =>
    let (base, pfx, rest1) : Nat × List Char × List Char :=
      if c == '0' then
        match rest with
        | 'b' :: r => (2, ['b'], r)
        | 'x' :: r => (16, ['x'], r)
        | _ => (10, [], rest)
      else (10, [], rest)
    let p : Char → Bool :=
      if base == 2 then (fun d => d == '0' || d == '1') else if base == 10 then isAsciiDigit else isAsciiHex
    let (ds, rest2) := rest1.span p
    let text := c :: (pfx ++ ds)
    if numberValid c base ds then
      { kind := if base == 2 then .BinaryIntVal else .IntVal, text := text, rest := rest2 }
    else
      { kind := .Error, text := text, rest := rest2,
        err := some (if base == 2 then "Invalid binary number" else if base == 10 then "Invalid number" else "Invalid hexadecimal number") }

/-! ### `Lexer::next_token` -/

def punct (c : Char) : Option TokenKind :=
  if c == '[' then some .LSquare else if c == ']' then some .RSquare
  else if c == '{' then some .LBrace else if c == '}' then some .RBrace
  else if c == '(' then some .LParen else if c == ')' then some .RParen
  else if c == '<' then some .Less else if c == '>' then some .Greater
  else if c == ':' then some .Colon else if c == ';' then some .Semi
  else if c == ',' then some .Comma else if c == '=' then some .Equal
  else if c == '?' then some .Question else none

def next (s : List Char) : Out :=
  match s with
  | [] => { kind := .Eof, text := [], rest := [] }
  | c :: r =>
    if isWhitespace c then
      let (t, r') := r.span isAsciiWhitespace
      { kind := .Whitespace, text := c :: t, rest := r' }
    else if c == '/' && r.head? == some '/' then
      let r1 := r.tail
      let (t, r') := r1.span (fun d => !isNewline d)
      { kind := .LineComment, text := c :: '/' :: t, rest := r' }
    else if c == '/' && r.head? == some '*' then
      let r1 := r.tail
      let (t, r2) := splitAt2 '*' '/' r1
      let (e, r3) := eatIf2 '*' '/' r2
      { kind := .BlockComment, text := c :: '*' :: (t ++ e), rest := r3 }
    else if isAsciiDigit c then lexNumber c r
    else if c == '-' then lexNumber '-' r
    else if c == '+' then lexNumber '+' r
    else if isIdentStart c then
      let (t, r') := r.span isIdentCont
      let w := c :: t
      { kind := (lookup Tables.keywords w).getD .Id, text := w, rest := r' }
    else if c == '"' then
      match scanString r with
      | (t, r', .closed) => { kind := .StrVal, text := c :: t, rest := r' }
      | (t, r', .eol) => { kind := .Error, text := c :: t, rest := r', err := some "End of line in string literal" }
      | (t, r', .eof) => { kind := .Error, text := c :: t, rest := r', err := some "End of file in string literal" }
    else if c == '$' then
      match r with
      | d :: r1 =>
        if isIdentStart d then
          let (t, r') := r1.span isIdentCont
          { kind := .VarName, text := c :: d :: t, rest := r' }
        else { kind := .Error, text := [c], rest := r, err := some "Invalid variable name" }
      | [] => { kind := .Error, text := [c], rest := r, err := some "Invalid variable name" }
    else if c == '[' && r.head? == some '{' then
      let r1 := r.tail
      let (t, r2) := splitAt2 '}' ']' r1
      let (e, r3) := eatIf2 '}' ']' r2
      if e.isEmpty then { kind := .Error, text := c :: '{' :: (t ++ e), rest := r3, err := some "Unterminated code block" }
      else { kind := .CodeFragment, text := c :: '{' :: (t ++ e), rest := r3 }
    else if c == '!' then
      let (t, r') := r.span isAsciiAlpha
      match lookup Tables.bangTable t with
      | some k => { kind := k, text := c :: t, rest := r' }
      | none => { kind := .Error, text := c :: t, rest := r', err := some "Unknown operator" }
    else if c == '#' then
      let (t, r') := r.span isAlphabetic
      match lookup Tables.prepTable t with
      | some k => { kind := k, text := c :: t, rest := r' }
      | none => { kind := .Paste, text := [c], rest := r }
    else match punct c with
      | some k => { kind := k, text := [c], rest := r }
      | none =>
        if c == '.' then
          match r with
          | '.' :: '.' :: r' => { kind := .DotDotDot, text := ['.', '.', '.'], rest := r' }
          | '.' :: r' => { kind := .Error, text := ['.', '.'], rest := r', err := some "Invalid '..' punctuation" }
          | _ => { kind := .Dot, text := [c], rest := r }
        else { kind := .Error, text := [c], rest := r, err := some "Unexpected character" }

end Lex
end Tg
