/-
Model of `ide::line_index::LineIndex` + `lsp::{to_proto,from_proto}::position`:
byte offset <-> (zero-based line, UTF-16 column), with exactly LF, CR and CRLF as terminators.
Single-pass scans over `List Char` with a four-way classification of the head character.
-/
import TgModel.Text

namespace Tg
namespace LineIndex

inductive Cls | lf | crOfCrlf | cr | other
deriving DecidableEq, Repr

/-- classify the head char given the tail -/
def cls (ch : Char) (t : List Char) : Cls :=
  if ch = '\n' then .lf
  else if ch = '\r' then (match t with | '\n' :: _ => .crOfCrlf | _ => .cr)
  else .other

/-- position of byte offset `o` scanning `t` from state (line, col);
`none` if `o` is not a char boundary ≤ len -/
def toPos : List Char → Nat → Nat → Nat → Option (Nat × Nat)
  | _, 0, l, c => some (l, c)
  | [], _+1, _, _ => none
  | ch :: t, o+1, l, c =>
    if o + 1 < utf8Len ch then none else
    match cls ch t with
    | .lf => toPos t (o + 1 - 1) (l+1) 0
    | .crOfCrlf => toPos t (o + 1 - 1) l (c+1)
    | .cr => toPos t (o + 1 - 1) (l+1) 0
    | .other => toPos t (o + 1 - utf8Len ch) l (c + utf16Len ch)

/-- offset of (line `l`, column `c`) relative to the scan start, accumulating `off`;
columns past the end clamp to the end of the line including its terminator, a column inside a
surrogate pair rounds down, a line past the end gives the text length -/
def fromPos : List Char → Nat → Nat → Nat → Nat
  | [], _, _, off => off
  | ch :: t, 0, c, off =>
    if c = 0 then off else
    match cls ch t with
    | .lf => off + 1
    | .crOfCrlf => fromPos t 0 (c - 1) (off + 1)
    | .cr => off + 1
    | .other => if c < utf16Len ch then off else fromPos t 0 (c - utf16Len ch) (off + utf8Len ch)
  | ch :: t, l+1, c, off =>
    match cls ch t with
    | .lf => fromPos t l c (off + 1)
    | .crOfCrlf => fromPos t (l+1) c (off + 1)
    | .cr => fromPos t l c (off + 1)
    | .other => fromPos t (l+1) c (off + utf8Len ch)

/-- byte offsets at which lines start (offset 0 and after every terminator) -/
def lineStarts : List Char → Nat → List Nat
  | [], _ => []
  | ch :: t, off =>
    match cls ch t with
    | .lf | .cr => (off + 1) :: lineStarts t (off + 1)
    | .crOfCrlf => lineStarts t (off + 1)
    | .other => lineStarts t (off + utf8Len ch)

def numLines (t : List Char) : Nat := (lineStarts t 0).length + 1

/-- all char-boundary offsets 0..=len -/
def boundaries : List Char → Nat → List Nat
  | [], off => [off]
  | ch :: t, off => off :: boundaries t (off + utf8Len ch)

def unhexNat (c : Char) : Nat :=
  if '0' ≤ c ∧ c ≤ '9' then c.toNat - '0'.toNat
  else if 'a' ≤ c ∧ c ≤ 'f' then c.toNat - 'a'.toNat + 10 else 0

def unhexBytes (s : String) : ByteArray := Id.run do
  let cs := s.toList.toArray
  let mut out := ByteArray.empty
  let mut i := 0
  while i + 1 < cs.size do
    out := out.push (UInt8.ofNat (unhexNat cs[i]! * 16 + unhexNat cs[i+1]!))
    i := i + 2
  return out

/-- driver command `li <hex> <maxcol>`: every boundary offset -> position, and every
(line, col) with line ≤ numLines, col ≤ maxcol -> offset -/
def cmdWith (hx mc : String) (big : Bool) : String :=
    match String.fromUTF8? (unhexBytes hx) with
    | none => "bad-utf8"
    | some str =>
      let t := str.toList
      let maxcol := mc.toNat!
      let fw := (boundaries t 0).map fun o =>
        match toPos t o 0 0 with
        | some (l, c) => s!"{o}={l},{c}"
        | none => s!"{o}=none"
      let nl := numLines t
      let bw := (List.range (nl + 1)).flatMap fun l =>
        (List.range (maxcol + 1)).map fun c => s!"{l},{c}={fromPos t l c 0}"
      -- "big": columns and lines at the ends of the u32 range
      let bigC := [2147483647, 2147483648, 4294967290, 4294967291, 4294967292, 4294967293, 4294967294, 4294967295]
      let bigL := (List.range (nl + 2)) ++ [4294967295]
      let bwBig := if big then bigL.flatMap fun l => bigC.map fun c => s!"{l},{c}={fromPos t l c 0}" else []
      s!"T {";".intercalate fw} F {";".intercalate (bw ++ bwBig)}"

def cmd (rest : String) : String :=
  match rest.splitOn " " with
  | [hx, mc] => cmdWith hx mc false
  | [hx, mc, "big"] => cmdWith hx mc true
  | _ => "bad-args"

end LineIndex
end Tg
