/-
Model of `ide::symbol_map::SymbolMap` as far as go-to-definition / find-references observe it:
symbols with a name, a definition location and reference locations, and the per-file position
map (`iset::IntervalMap`: insert replaces the value of an *equal* interval; lookup at a point
returns the value of the first overlapping interval in (start, end) order; empty intervals are
never inserted).  The state is driven by the operation log of the real indexer (hook) or of the
indexer model.
-/
namespace Tg
namespace SymbolMap

structure Loc where
  file : Nat
  start : Nat
  stop : Nat
deriving DecidableEq, Repr

structure Sym where
  name : List Char
  define : Loc
  refs : List Loc := []
deriving Repr

inductive Op where
  /-- `add_record/add_template_argument/add_record_field/add_variable/add_defset/add_multiclass/
  add_defm`: allocate the next symbol id and register its definition location -/
  | define (name : List Char) (loc : Loc)
  /-- `add_anonymous_def/add_anonymous_defm`: allocate, but do not register a position -/
  | defineAnon (name : List Char) (loc : Loc)
  /-- `add_reference(sym, loc)` -/
  | reference (sym : Nat) (loc : Loc)
deriving Repr

structure State where
  syms : List Sym := []                 -- index = symbol id
  pos : List (Loc × Nat) := []          -- interval ↦ symbol id (no two entries with equal interval)
deriving Repr

def Loc.isEmpty (l : Loc) : Bool := l.stop ≤ l.start

/-- `IntervalMap::insert`: replace on equal interval, else add -/
def insertPos (pos : List (Loc × Nat)) (l : Loc) (s : Nat) : List (Loc × Nat) :=
  match pos with
  | [] => [(l, s)]
  | (l', s') :: t => if l' = l then (l, s) :: t else (l', s') :: insertPos t l s

/-- `add_to_pos_to_symbol_map` -/
def addPos (st : State) (l : Loc) (s : Nat) : State :=
  if l.isEmpty then st else { st with pos := insertPos st.pos l s }

def addRef (syms : List Sym) (s : Nat) (l : Loc) : List Sym :=
  match syms, s with
  | [], _ => []
  | x :: t, 0 => { x with refs := x.refs ++ [l] } :: t
  | x :: t, n+1 => x :: addRef t n l

def step (st : State) : Op → State
  | .define name loc => addPos { st with syms := st.syms ++ [{ name := name, define := loc }] } loc st.syms.length
  | .defineAnon name loc => { st with syms := st.syms ++ [{ name := name, define := loc }] }
  | .reference s loc => if s < st.syms.length then addPos { st with syms := addRef st.syms s loc } loc s else st

def run (ops : List Op) : State := ops.foldl step {}

def overlaps (l : Loc) (file p : Nat) : Bool := l.file == file && l.start ≤ p && p < l.stop

def before (a b : Loc) : Bool := a.start < b.start || (a.start == b.start && a.stop ≤ b.stop)

/-- `values_overlap(p).next()`: the overlapping interval that comes first in (start, end) order -/
def lookup (pos : List (Loc × Nat)) (file p : Nat) : Option (Loc × Nat) :=
  pos.foldl (fun best e =>
    if overlaps e.1 file p then
      match best with
      | none => some e
      | some b => if before b.1 e.1 then some b else some e
    else best) none

/-- `find_symbol_at` -/
def findSymbolAt (st : State) (file p : Nat) : Option Sym :=
  match lookup st.pos file p with
  | some (_, s) => st.syms[s]?
  | none => none

/-- `goto_definition::exec` -/
def gotoDef (st : State) (file p : Nat) : Option Loc := (findSymbolAt st file p).map (·.define)

/-- `references::exec` -/
def references (st : State) (file p : Nat) : Option (List Loc) := (findSymbolAt st file p).map (·.refs)

end SymbolMap
end Tg
