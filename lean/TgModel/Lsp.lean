/-
Model of the conversion layer of the server: `crates/lsp/src/to_proto.rs` (ide-level offsets and ranges →
LSP positions and ranges) and the part of `crates/lsp/src/server.rs` that decides WHICH line table each
handler converts with.

A `Snapshot` is what the conversion reads of a `ServerSnapshot`: `vfs.path_for_file` and the text that
`snap.analysis.line_index(file_id)` is computed from.  A line table is determined by its text, so the model
passes the text (`LineIndex.toPos` is the scan that `LineIndex::{pos_to_line, pos_to_col}` implement with the
table of line starts).  URIs are modelled by the path they are made from (`UrlExt::from_file_path`).

Which table: `definition` and `references` convert every location with the table of the file THE LOCATION
names (`snap.analysis.line_index(location.file)`; before the repair 90b2bd3 it was the table of the
requesting file); `document_symbol`, `inlay_hint`, `document_link`, `folding_range` convert with the table of
the requested document (`from_proto::file`), all their offsets lie in it; `update_diagnostics` converts the
diagnostics of every group `(file_id, diagnostics)` with the table of `file_id` and publishes them for the
path of `file_id`.
-/
import TgModel.LineIndex
import TgModel.Ide.Handlers

namespace Tg
namespace Lsp

open Tg.Ide

structure Position where
  line : Nat
  character : Nat
deriving DecidableEq, Repr, Inhabited

structure Range where
  start : Position
  stop : Position
deriving DecidableEq, Repr, Inhabited

structure Location where
  uri : String
  range : Range
deriving DecidableEq, Repr, Inhabited

structure Diagnostic where
  range : Range
  message : String
deriving DecidableEq, Repr, Inhabited

/-- `lsp_types::SymbolKind` as far as the server uses it -/
inductive SymbolKind where
  | cls | property | field | variable
deriving DecidableEq, Repr, Inhabited

def SymbolKind.name : SymbolKind → String
  | .cls => "CLASS" | .property => "PROPERTY" | .field => "FIELD" | .variable => "VARIABLE"

/-- `children` is sent as `null` when empty (`childrenOpt`) -/
structure DocumentSymbol where
  name : String
  detail : String
  kind : SymbolKind
  range : Range
  selectionRange : Range
  children : List DocumentSymbol
deriving Inhabited

def DocumentSymbol.childrenOpt (s : DocumentSymbol) : Option (List DocumentSymbol) :=
  if s.children.isEmpty then none else some s.children

structure InlayHint where
  position : Position
  label : String
  paddingLeft : Bool
  paddingRight : Bool
deriving DecidableEq, Repr, Inhabited

structure DocumentLink where
  range : Range
  target : String
deriving DecidableEq, Repr, Inhabited

/-- only the lines are sent (`start_character` / `end_character` are `None`), kind `Region` -/
structure FoldingRange where
  startLine : Nat
  endLine : Nat
deriving DecidableEq, Repr, Inhabited

/-- `vfs.path_for_file` and the text behind `analysis.line_index` -/
structure Snapshot where
  path : Nat → String
  text : Nat → List Char

/-! ### `to_proto.rs` -/

/-- the largest character boundary `≤ min o len` (plus `acc`): `pos_to_col` rounds an offset inside a
character down and clamps an offset past the end; `pos_to_line` is not affected by either, the line starts
being boundaries -/
def floorB : List Char → Nat → Nat → Nat
  | [], _, acc => acc
  | ch :: t, o, acc => if o < utf8Len ch then acc else floorB t (o - utf8Len ch) (acc + utf8Len ch)

/-- `to_proto::position(line_index, position)`; the `.getD` is never taken (`position_eq`) -/
def position (text : List Char) (o : Nat) : Position :=
  let p := (LineIndex.toPos text (floorB text o 0) 0 0).getD (0, 0)
  { line := p.1, character := p.2 }

/-- `to_proto::range` -/
def range (text : List Char) (a b : Nat) : Range :=
  { start := position text a, stop := position text b }

/-- `to_proto::location(vfs, line_index, file_range)`: the path is the one of `file_range.file`, the line
table is the caller's choice -/
def location (snap : Snapshot) (text : List Char) (l : SymbolMap.Loc) : Location :=
  { uri := snap.path l.file, range := range text l.start l.stop }

/-- `to_proto::diagnostic` -/
def diagnostic (text : List Char) (d : Ide.Diagnostic) : Diagnostic :=
  { range := range text d.location.start d.location.stop, message := d.message }

def symbolKind : Handlers.DocumentSymbolKind → SymbolKind
  | .cls => .cls | .templateArgument => .property | .field => .field | .def_ => .variable
  | .variable_ => .variable | .defset => .variable | .multiclass => .cls

mutual
/-- `to_proto::document_symbol`: `range` and `selection_range` are both the symbol's range -/
def documentSymbol (text : List Char) : Handlers.DocumentSymbol → DocumentSymbol
  | ⟨name, typ, rg, kind, children⟩ =>
    { name := name, detail := typ, kind := symbolKind kind, range := range text rg.1 rg.2,
      selectionRange := range text rg.1 rg.2, children := documentSymbolL text children }
def documentSymbolL (text : List Char) : List Handlers.DocumentSymbol → List DocumentSymbol
  | [] => []
  | c :: cs => documentSymbol text c :: documentSymbolL text cs
end

/-- `to_proto::inlay_hint` -/
def inlayHint (text : List Char) (h : Handlers.InlayHint) : InlayHint :=
  { position := position text h.position, label := h.label
    paddingLeft := match h.kind with | .templateArg => false | .fieldLet => true
    paddingRight := match h.kind with | .templateArg => true | .fieldLet => false }

/-- `to_proto::document_link` -/
def documentLink (snap : Snapshot) (text : List Char) (l : (Nat × Nat) × Nat) : DocumentLink :=
  { range := range text l.1.1 l.1.2, target := snap.path l.2 }

/-- `to_proto::folding_range`: `pos_to_line` of both ends -/
def foldingRange (text : List Char) (r : Nat × Nat) : FoldingRange :=
  { startLine := (position text r.1).line, endLine := (position text r.2).line }

/-- `from_proto::position` -/
def offsetOf (text : List Char) (p : Position) : Nat := LineIndex.fromPos text p.line p.character 0

/-! ### `server.rs`: which line table -/

/-- `Server::definition`: the table of the file the location lies in -/
def definition (snap : Snapshot) (ans : Option SymbolMap.Loc) : Option Location :=
  ans.map fun l => location snap (snap.text l.file) l

/-- `Server::references`: every location with the table of its own file -/
def references (snap : Snapshot) (ans : Option (List SymbolMap.Loc)) : Option (List Location) :=
  ans.map fun ls => ls.map fun l => location snap (snap.text l.file) l

/-- `Server::document_symbol`: the table of the requested document -/
def documentSymbols (snap : Snapshot) (file : Nat) (ans : Option (List Handlers.DocumentSymbol)) :
    Option (List DocumentSymbol) :=
  ans.map fun ss => documentSymbolL (snap.text file) ss

/-- `Server::inlay_hint` -/
def inlayHints (snap : Snapshot) (file : Nat) (ans : Option (List Handlers.InlayHint)) : Option (List InlayHint) :=
  ans.map fun hs => hs.map (inlayHint (snap.text file))

/-- `Server::document_link` -/
def documentLinks (snap : Snapshot) (file : Nat) (ans : Option (List ((Nat × Nat) × Nat))) :
    Option (List DocumentLink) :=
  ans.map fun ls => ls.map (documentLink snap (snap.text file))

/-- `Server::folding_range` -/
def foldingRanges (snap : Snapshot) (file : Nat) (ans : Option (List (Nat × Nat))) : Option (List FoldingRange) :=
  ans.map fun rs => rs.map (foldingRange (snap.text file))

/-- `Server::update_diagnostics`: one `publishDiagnostics` per group, for the path of the group's file, converted
with the table of the group's file -/
def publishDiagnostics (snap : Snapshot) (ans : List (Nat × List Ide.Diagnostic)) : List (String × List Diagnostic) :=
  ans.map fun (f, ds) => (snap.path f, ds.map (diagnostic (snap.text f)))

end Lsp
end Tg
