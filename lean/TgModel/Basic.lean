def hello := "world"
