/-
Model of the synchronisation skeleton of `lsp::server::Server`: the main loop (document
open/change handlers and request dispatch) against the snapshot tasks it spawns, over the two
blocking resources: the `Vfs` `RwLock` and salsa's revision lock (a database write blocks until
every snapshot is dropped).  Granularity = the schedule points of the `verif` hook.

`fixed = true` is the code after the `fix:` commit (the handler first waits for the snapshot
tasks, then locks the vfs); `fixed = false` is the original order (lock the vfs, then write).
-/
namespace Tg
namespace Sched

/-- what the main loop still has to do -/
inductive Job where
  | edit             -- didOpen / didChange: set_file_content; update_diagnostics (spawns a task with `reads` vfs reads)
  | request          -- any request: spawns a task
deriving DecidableEq, Repr

/-- program counter of the main loop inside an `edit` handler -/
inductive MainPc where
  | idle             -- between handlers
  | entered          -- `main:enter` reached; next: wait for snapshots (fixed) / nothing (original)
  | beforeW          -- `main:before_vfs_write`: about to take the vfs write lock
  | holdingW         -- `main:holding_vfs_write`: holds the write lock; next: database writes (block while snapshots exist), unlock, spawn
deriving DecidableEq, Repr

/-- a snapshot task: number of vfs read-lock acquisitions still ahead, then it drops its snapshot -/
structure Task where
  started : Bool
  reads : Nat
deriving DecidableEq, Repr

structure State where
  jobs : List (Job × Nat)    -- remaining jobs; the Nat = number of vfs reads of the task the job spawns
  pc : MainPc
  wHeld : Bool
  tasks : List Task          -- live tasks (each holds one snapshot)
deriving DecidableEq, Repr

inductive Act where
  | main                     -- the main loop takes its next step
  | task (i : Nat)           -- task i takes its next step
deriving DecidableEq, Repr

def init (jobs : List (Job × Nat)) : State := { jobs := jobs, pc := .idle, wHeld := false, tasks := [] }

def snapshots (s : State) : Nat := s.tasks.length

/-- the next step of the main loop, if it is not blocked -/
def stepMain (fixed : Bool) (s : State) : Option State :=
  match s.pc, s.jobs with
  | .idle, [] => none
  | .idle, (.request, r) :: js => some { s with jobs := js, tasks := s.tasks ++ [{ started := false, reads := r }] }
  | .idle, (.edit, _) :: _ => some { s with pc := .entered }
  | .entered, _ =>
    -- fixed: `wait_for_snapshots` blocks until every snapshot is dropped
    if fixed && s.tasks != [] then none else some { s with pc := .beforeW }
  | .beforeW, _ =>
    -- vfs.write(): tasks never pause while holding a read lock, so only the flag matters
    some { s with pc := .holdingW, wHeld := true }
  | .holdingW, (.edit, r) :: js =>
    -- database writes block while a snapshot exists; then unlock and spawn the diagnostics task
    if s.tasks != [] then none
    else some { jobs := js, pc := .idle, wHeld := false, tasks := [{ started := false, reads := r }] }
  | .holdingW, _ => none

/-- the next step of task `i`, if it is not blocked -/
def stepTask (s : State) (i : Nat) : Option State :=
  match s.tasks[i]? with
  | none => none
  | some t =>
    if !t.started then some { s with tasks := s.tasks.set i { t with started := true } }
    else if t.reads > 0 then
      -- vfs.read(): blocked while the main loop holds the write lock
      if s.wHeld then none else some { s with tasks := s.tasks.set i { t with reads := t.reads - 1 } }
    else some { s with tasks := s.tasks.eraseIdx i }     -- finished: snapshot dropped

def step (fixed : Bool) (s : State) : Act → Option State
  | .main => stepMain fixed s
  | .task i => stepTask s i

def Final (s : State) : Prop := s.jobs = [] ∧ s.pc = .idle ∧ s.tasks = []

inductive Reachable (fixed : Bool) (jobs : List (Job × Nat)) : State → Prop
  | init : Reachable fixed jobs (init jobs)
  | step {s s' : State} (a : Act) : Reachable fixed jobs s → step fixed s a = some s' → Reachable fixed jobs s'

/-- a state in which nobody can move although work remains -/
def Deadlocked (fixed : Bool) (s : State) : Prop := ¬ Final s ∧ ∀ a, step fixed s a = none

end Sched
end Tg
